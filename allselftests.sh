#!/bin/sh
cd /verif; . ./env.sh
for id in $(bin/scionvet -list); do bin/scionvet -prop $id -selftest 2>&1 | grep -E "^selftest|unkilled|wrong-report|broken|false-alarm|inapplicable" | cut -c1-250; done
