package main

import (
	"fmt"
	"math/bits"
)

// C21, which host address enters the authenticator is decided by
// SPI.Type() and SPI.Direction(). The specification gives a DRKey SPI the layout
// "reserved(11, ignored by recipients) | T(1) | D(1) | protocol(16)": T is bit 17,
// D is bit 16, nothing else. An accessor that lets a reserved bit through turns
// "AS-host key" into a value that matches neither case of the address selection,
// and the deriving side's host address silently drops out of the MAC input.
//
// Rule P2 (engine E9): Type() depends on input bit 17 only and is
// PacketAuthASHost / PacketAuthHostHost for T = 0 / 1; Direction() depends on bit
// 16 only and is SenderSide / ReceiverSide for D = 0 / 1; DRKeyProto() is bits
// 0..15 in place. With the dependence established, folding at the two values of
// the one bit is the whole truth table.
func init() {
	addMutants(
		Mutant{Prop: "C21", Name: "spi-type-lets-reserved-bits-through", File: "pkg/slayers/pkt_auth.go",
			Old: `	if p&(1<<17) == 0 {
		return PacketAuthASHost
	}
	return PacketAuthHostHost`, New: `	return uint8(p >> 17)`, Expect: "P2-spi-accessors"},
		Mutant{Prop: "C21", Name: "benign-spi-type-by-shift-and-mask", File: "pkg/slayers/pkt_auth.go", Benign: true,
			Old: `	if p&(1<<17) == 0 {
		return PacketAuthASHost
	}
	return PacketAuthHostHost`, New: `	return uint8(p>>17) & 0x1`},
		Mutant{Prop: "C21", Name: "spi-direction-inverted", File: "pkg/slayers/pkt_auth.go",
			Old: `	if p&(1<<16) == 0 {
		return PacketAuthSenderSide
	}`, New: `	if p&(1<<16) != 0 {
		return PacketAuthSenderSide
	}`, Expect: "P2-spi-accessors"},
	)
}

func c21SPIAccessors(c *Ctx) {
	rule := "P2-spi-accessors"
	sl := "pkg/slayers."
	n := 0
	for _, a := range []struct {
		name     string
		bit      uint
		zero, on string
	}{
		{"Type", 17, "PacketAuthASHost", "PacketAuthHostHost"},
		{"Direction", 16, "PacketAuthSenderSide", "PacketAuthReceiverSide"},
	} {
		fn := c.Fn("(" + sl + "PacketAuthSPI)." + a.name)
		if fn == nil {
			continue
		}
		n++
		deps, ok := bitDeps(fn)
		if !ok {
			c.Unknown(rule, FuncName(fn)+":depends-on", fn.Pos(), "the accessor is outside the integer fragment E9 models")
			continue
		}
		u := deps.union()
		c.Check(u == 1<<a.bit, rule, FuncName(fn)+":depends-on", fn.Pos(), fmt.Sprintf(
			"the result may depend on input bits %s; the specification: bit %d only (reserved bits are ignored)", bitList(u), a.bit))
		v0, ok0 := foldAt(fn, 0)
		v1, ok1 := foldAt(fn, 1<<a.bit)
		w0, w1 := c.Const(sl+a.zero), c.Const(sl+a.on)
		c.Check(ok0 && ok1 && constIs(w0, v0) && constIs(w1, v1), rule, FuncName(fn)+":values", fn.Pos(), fmt.Sprintf(
			"bit clear -> %d (%s = %s), bit set -> %d (%s = %s)", v0, a.zero, w0, v1, a.on, w1))
	}
	if fn := c.Fn("(" + sl + "PacketAuthSPI).DRKeyProto"); fn != nil {
		n++
		deps, ok := bitDeps(fn)
		good := ok
		for i := 0; i < 64 && good; i++ {
			want := uint64(0)
			if i < 16 {
				want = 1 << uint(i)
			}
			good = deps[i] == want
		}
		c.Check(good, rule, FuncName(fn)+":low-16-bits-in-place", fn.Pos(), "the protocol identifier is bits 0..15 of the SPI, bit for bit")
	}
	c.Min("spi-accessors", n, 3)
}

func bitList(u uint64) string {
	if u == allBits {
		return "(all)"
	}
	s := ""
	for u != 0 {
		i := bits.TrailingZeros64(u)
		s += fmt.Sprintf("%d ", i)
		u &^= 1 << uint(i)
	}
	if s == "" {
		return "(none)"
	}
	return s[:len(s)-1]
}

// constIs: the rendered constant "<value>:<type>" (or "<value>") has this value.
func constIs(rendered string, v uint64) bool {
	var k uint64
	if _, err := fmt.Sscanf(rendered, "%d", &k); err != nil {
		return false
	}
	return k == v
}
