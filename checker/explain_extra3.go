package main

// Clauses added in the third seed round (DESIGN.md 0.7, batches B and C).
func init() {
	for k, v := range map[string][]string{
		"C08": {"(I1) the representation invariant the audited index sites of scion.Raw cite is decided: Raw.Raw has a single writer (Raw.DecodeFromBytes, data[:Base.Len()], behind the length test and after Base.DecodeFromBytes), no function reaches NumINF/NumHops through a *Raw except Base.DecodeFromBytes, no whole Raw is overwritten except by copy, and Base.Len() is 4 + 8 NumINF + 12 NumHops."},
		"C09": {"(F1) every narrowing conversion in SCION.foldChecksum is reached only where its operand is established to fit: the one's-complement sum is folded until no carry is left (shared with C20)."},
		"C10": {"(R3) validateSrcDstIA lets the reply of a sibling router through: from inside the AS, with a local source and a foreign destination, at the first hop or not, the verdict is 'forward' (the cells of C05's table a returning reply hits)."},
		"C11": {"(L1) every concrete layer type handed to any decodeLayers call in the router has an arm in nextHdr's type switch, and that arm returns the NextHdr member of the value of that type: the L4 protocol is read from the layer that was actually decoded last."},
		"C13": {"(S2) the EPIC MAC library keeps nothing between calls: no function of pkg/experimental/epic stores into, publishes the address of, or calls a method on a package-level variable; the zero IV is the one listed read-only global."},
		"C21": {"(P2, engine E9) PacketAuthSPI.Type() depends on input bit 17 only and is ASHost/HostHost for T=0/1, Direction() depends on bit 16 only and is SenderSide/ReceiverSide for D=0/1, DRKeyProto() is bits 0..15 in place: bit dependence analysis, then folding at both values of the one bit (the whole truth table)."},
		"C22": {"(R2) the router that generates an SCMP reply owes the accumulator update of its own hop on the segment the reply leaves on: info and hop field for the update are selected after the cross-over revert (C10's reversal rule)."},
		"C24": {"(F1) chains fetched from a remote server are accepted only if, for every chain, the subject ISD-AS equals the queried one, the subject key id equals the queried one and the leaf validity covers the queried validity (or none was queried); the gRPC and the connect fetcher return chains only behind that check.",
			"(K1) Signer.Sign writes and Verifier.Verify reads the verification key id member for member."},
		"C25": {"(U1) a topology reload replaces every attribute of a surviving interface except RemoteID (link type and neighbour included): member-wise summary of Interface.updateTopoInfo; Interfaces.Update calls it for every surviving interface."},
		"C28": {"(D0) every construction is a candidate for 'the one that expires last is kept': all segments of the three lists enter the graph under their own type, and Combine hands the lists to newDMG as they came (shared with C29 S1)."},
		"C30": {"(X2) every hop field of a combined path is copied, all four members (ExpTime included), from one input hop field - the regular hop entry, or for a peering hop the peer entry: the expiry the pather filters on is the expiry of the hops that are in the path (C28's provenance rule)."},
		"C31": {"(X1) RevInfo.Expiration/Timestamp/TTL and the module helpers they call compute on 64-bit values only (no +,-,*,<< below 64 bits, no narrowing conversion), and each result is computed from its raw members: 'for arbitrary lifetimes' includes those whose end crosses 2^32 seconds."},
		"C32": {"(U1) uniqueSubject (TRC.Validate) and certMap.find (validateRegular, detectNewVoters) compare subjects with the same function, equalName(x.Subject, y.Subject), and consult no other representation of the name; equal subjects are fail-stop in uniqueSubject."},
		"C34": {"(K1) the SCION certificate constraints, as clean-exit obligations over the error-collecting validators: generalValidation, commonCAValidation (incl. pathLen == the given value, a missing constraint is not accepted), validateAS, validateCA (pathLen 0), validateRoot (pathLen 1, id-kp-root)."},
		"C35": {"(V1) 'verified' is SignedTRC.Verify: its dispatch, the update verification and the all-required-certificates-signed check with its cardinality comparison (C32 G1-G3 borrowed)."},
		"C36": {"(K1) Signer.Sign writes and Verifier.Verify reads the verification key id member for member (IsdAs, TrcBase, TrcSerial, SubjectKeyId)."},
		"C37": {"(C1) 'that chain verifies' is cppki.VerifyChain: chain validation, x509 verification at the given time against the TRC's root pool, certificate constraints (C34 V1, V2, K1 borrowed)."},
		"C38": {"(H2) the optional header timestamp is encoded as present exactly when the Go time is non-zero and decoded as non-zero exactly when the sub-message is present."},
		"C39": {"(Q1) in the three DRKey sqlite back ends every placeholder of every statement is bound to the member its column holds (statement text and call arguments are both read from the source)."},
	} {
		extraExplain[k] = append(extraExplain[k], v...)
	}
}
