package main

// Clauses added in the third seed round (DESIGN.md 0.7, batches B and C).
func init() {
	for k, v := range map[string][]string{
		"C08": {"(I1) the representation invariant the audited index sites of scion.Raw cite is decided: Raw.Raw has a single writer (Raw.DecodeFromBytes, data[:Base.Len()], behind the length test and after Base.DecodeFromBytes), no function reaches NumINF/NumHops through a *Raw except Base.DecodeFromBytes, no whole Raw is overwritten except by copy, and Base.Len() is 4 + 8 NumINF + 12 NumHops."},
		"C09": {"(F1) every narrowing conversion in SCION.foldChecksum is reached only where its operand is established to fit: the one's-complement sum is folded until no carry is left (shared with C20)."},
		"C10": {"(R3) validateSrcDstIA lets the reply of a sibling router through: from inside the AS, with a local source and a foreign destination, at the first hop or not, the verdict is 'forward' (the cells of C05's table a returning reply hits)."},
		"C11": {"(L1) every concrete layer type handed to any decodeLayers call in the router has an arm in nextHdr's type switch, and that arm returns the NextHdr member of the value of that type: the L4 protocol is read from the layer that was actually decoded last."},
		"C13": {"(S2) the EPIC MAC library keeps nothing between calls: no function of pkg/experimental/epic stores into, publishes the address of, or calls a method on a package-level variable; the zero IV is the one listed read-only global."},
		"C21": {"(P2, engine E9) PacketAuthSPI.Type() depends on input bit 17 only and is ASHost/HostHost for T=0/1, Direction() depends on bit 16 only and is SenderSide/ReceiverSide for D=0/1, DRKeyProto() is bits 0..15 in place: bit dependence analysis, then folding at both values of the one bit (the whole truth table)."},
		"C22": {"(R2) the router that generates an SCMP reply owes the accumulator update of its own hop on the segment the reply leaves on: info and hop field for the update are selected after the cross-over revert (C10's reversal rule)."},
		"C24": {"(F1) chains fetched from a remote server are accepted only if, for every chain, the subject ISD-AS equals the queried one, the subject key id equals the queried one and the leaf validity covers the queried validity (or none was queried); the gRPC and the connect fetcher return chains only behind that check.",
			"(K1) Signer.Sign writes and Verifier.Verify reads the verification key id member for member."},
		"C25": {"(U1) a topology reload replaces every attribute of a surviving interface except RemoteID (link type and neighbour included): member-wise summary of Interface.updateTopoInfo; Interfaces.Update calls it for every surviving interface.",
			"(L1) the leaves of the loop filter: buildHops appends one hop per AS entry on every iteration; filterAsLoop looks every hop up, reports one seen before and records every other one; filterIsdLoop skips a hop only if its ISD equals the previous hop's and updates the previous ISD whenever it records.",
			"(B1) Filter.Apply: a hop whose AS is in AsBlackList or whose ISD is in IsdBlackList never reaches the successful return, both comparisons are made for every entry and every hop, the successful return lies behind the hop loop."},
		"C28": {"(D0) every construction is a candidate for 'the one that expires last is kept': all segments of the three lists enter the graph under their own type, and Combine hands the lists to newDMG as they came (shared with C29 S1)."},
		"C30": {"(X2) every hop field of a combined path is copied, all four members (ExpTime included), from one input hop field - the regular hop entry, or for a peering hop the peer entry: the expiry the pather filters on is the expiry of the hops that are in the path (C28's provenance rule)."},
		"C31": {"(X1) RevInfo.Expiration/Timestamp/TTL and the module helpers they call compute on 64-bit values only (no +,-,*,<< below 64 bits, no narrowing conversion), and each result is computed from its raw members: 'for arbitrary lifetimes' includes those whose end crosses 2^32 seconds."},
		"C32": {"(U1) uniqueSubject (TRC.Validate) and certMap.find (validateRegular, detectNewVoters) compare subjects with the same function, equalName(x.Subject, y.Subject), and consult no other representation of the name; equal subjects are fail-stop in uniqueSubject."},
		"C34": {"(K1) the SCION certificate constraints, as clean-exit obligations over the error-collecting validators: generalValidation, commonCAValidation (incl. pathLen == the given value, a missing constraint is not accepted), validateAS, validateCA (pathLen 0), validateRoot (pathLen 1, id-kp-root)."},
		"C35": {"(V1) 'verified' is SignedTRC.Verify: its dispatch, the update verification and the all-required-certificates-signed check with its cardinality comparison (C32 G1-G3 borrowed)."},
		"C36": {"(K1) Signer.Sign writes and Verifier.Verify reads the verification key id member for member (IsdAs, TrcBase, TrcSerial, SubjectKeyId)."},
		"C37": {"(C1) 'that chain verifies' is cppki.VerifyChain: chain validation, x509 verification at the given time against the TRC's root pool, certificate constraints (C34 V1, V2, K1 borrowed)."},
		"C38": {"(H2) the optional header timestamp is encoded as present exactly when the Go time is non-zero and decoded as non-zero exactly when the sub-message is present.",
			"(F2) every element of the associated data is fed into the signature input: the feeding call lies on every way round its loop, the loop covers every index and is left only through its own condition."},
		"C39": {"(Q1) in the three DRKey sqlite back ends every placeholder of every statement is bound to the member its column holds (statement text and call arguments are both read from the source)."},
		"C03": {"(O1) the path snet decodes from a packet owns its bytes: every store into RawPath.Raw in Packet.Decode is a freshly made slice into which the path is serialized (ReplyPath reverses in place; the connection reuses its receive buffer)."},
		"C40": {"(P1) the peer address the validators compare against is the transport's: in pkg/connect.AttachPeer (closures and module callees included) peer.Peer.Addr is the http3 remote address or the request's TCP remote address, and nothing the requester writes into the request is read.",
			"(X2) every response encoder carries the derived key's epoch bounds and key bytes."},
		"C42": {"(P1, converse) a rule whose From and To match is applied: every way round the rule loop of Policy.Match that neither adds nor removes a set crosses a failed From/To match."},
		"C43": {"(P1) each of the 12 printers emits its one text form with all its members, unconditionally (an inverted port range is printed as the inverted range it is).",
			"(E1) a port predicate means min <= port <= max: Eval touches port, MinPort and MaxPort only through comparisons, and its result, folded at every ordering of the three values (27 assignments), is that conjunction."},
		"C46": {"(H1) a Host is printed and parsed verbatim: String() prints netip.Addr.String of the stored address / SVC.String of the stored service, selected by Type(); String, ParseHost, HostIP and IP call nothing that changes the representation of the address."},
		"C47": {"(H1) HopPredicateFromString stores as many interfaces as were written: the second comma part is appended under no condition on its value, on every successful path; ISD and AS are the parsed parts."},
		"C48": {"(F1) FIFO content, by SSA value identity: each copy out of the ring is followed by exactly one clearing construct over exactly the copied range, the read/write index advances by what was copied and is reset to the wrapped piece's length, the wrapped piece continues the caller's list at [n1:] and is taken only if n1 < len(list)."},
		"C05": {"(O1) every call of a processor method that reads p.peering - directly or through same-receiver calls - is dominated by the call of determinePeer() that computes it for this packet (reset() only zeroes it)."},
		"C06": {"(O1) p.peering is read only after determinePeer() computed it for this packet (as for C05)."},
		"C07": {"(A1) the router-alert flag is cleared and the hop field written back only when the alert is consumed: after those stores no return of pForward is reachable in handleIngressRouterAlert / handleEgressRouterAlert."},
		"C19": {"(M1, bit footprints) MetaHdr.SerializeTo ORs five terms, each mentions one member, the bits it can set lie inside that member's field, the footprints are pairwise disjoint and the reserved bits stay zero; DecodeFromBytes reads every member from exactly its field."},
		"C27": {"(Q3) every WHERE fragment of the path database's query builder is bound, in its own block, to the members its columns name (EndIsdID <- ISD(EndsAt[i]), StartAsID <- AS(StartsAt[i]), ...)."},
		"C33": {"(V2) every certificate of the payload is tested against the TRC validity on every way round the certificate loop, the failing edge never reaches the successful return, and the ISD comparison is skipped only for a subject without ISD-AS."},
		"C45": {"(Q3) fragment/value agreement of the query builder, as for C27."},
	} {
		extraExplain[k] = append(extraExplain[k], v...)
	}
}
