package main

import (
	"fmt"
	"sort"
	"strings"

	"golang.org/x/tools/go/ssa"
)

func init() {
	register(&PropRule{
		ID:    "C28",
		Roots: []string{"./private/path/combinator"},
		Explain: "Decides structural clauses of path well-formedness: (a) every hop field the combinator " +
			"emits is a whole-field copy of ONE input hop field: in pathSolution.Path every group of " +
			"stores into a path.HopField sets all four members (ExpTime, ConsIngress, ConsEgress, " +
			"Mac) from the same source hop field - the AS entry's regular hop entry, or the selected " +
			"peer entry on a peering hop; (b) the info field takes the segment's timestamp, " +
			"calculateBeta, the down-segment direction and the peering flag; (c) the complete table " +
			"of validNextSeg (up→{core,down}, core→{down}, down→∅, none→any); (d) the expiry and TTL " +
			"folds replace the running value exactly when it is larger (minimum), starting from the " +
			"maximum; segment lengths in the SCION path equal the number of hop fields of each " +
			"segment; (e) filterLongPaths drops a path when an AS appears on more than two " +
			"interfaces and filterDuplicates replaces a kept path only by one with a later expiry. " +
			"NOT decided: the interface list and the graph search (C29).",
		Run: runC28,
	})
	setClaim("C28", claim{
		Text: "Whole-field provenance of emitted hop fields (store grouping per SSA block and source), " +
			"info-field pairing, exhaustive validNextSeg table, min-fold edge polarity, threshold atoms.",
		Note: claimNote, Technique: "static analysis: store-group provenance on SSA, decision table, " +
			"edge-polarity check of folds", Ref: "DESIGN.md §4 C28, Appendix A.6"})
	addMutants(
		Mutant{Prop: "C28", Name: "core-after-core", File: "private/path/combinator/graph.go",
			Old: `	case proto.PathSegType_core:
		return nextSeg.Type == proto.PathSegType_down`,
			New: `	case proto.PathSegType_core:
		return nextSeg.Type == proto.PathSegType_down || nextSeg.Type == proto.PathSegType_core`,
			Expect: "T1-valid-next-seg"},
		Mutant{Prop: "C28", Name: "peer-hop-exptime-from-regular", File: "private/path/combinator/graph.go",
			Old: `					ExpTime:     peer.HopField.ExpTime,`, New: `					ExpTime:     asEntry.HopEntry.HopField.ExpTime,`,
			Expect: "H1-hop-field-provenance"},
		Mutant{Prop: "C28", Name: "expiry-max-instead-of-min", File: "private/path/combinator/graph.go",
			Old: `		if minTimestamp.After(expTime) {`, New: `		if expTime.After(minTimestamp) {`,
			Expect: "F1-min-folds"},
		Mutant{Prop: "C28", Name: "duplicates-keep-earlier", File: "private/path/combinator/combinator.go",
			Old:    `		if !dupe || p.Metadata.Expiry.After(paths[prev].Metadata.Expiry) {`,
			New:    `		if !dupe || p.Metadata.Expiry.Before(paths[prev].Metadata.Expiry) {`,
			Expect: "F2-filters"},
		Mutant{Prop: "C28", Name: "long-path-threshold", File: "private/path/combinator/combinator.go",
			Old: `			if iaCounts[iface.IA] > 2 {`, New: `			if iaCounts[iface.IA] > 3 {`, Expect: "F2-filters"},
		Mutant{Prop: "C28", Name: "consdir-inverted", File: "private/path/combinator/graph.go",
			Old: `				ConsDir:   solEdge.segment.IsDownSeg(),`, New: `				ConsDir:   !solEdge.segment.IsDownSeg(),`,
			Expect: "I1-info-field"},
	)
}

func runC28(c *Ctx) {
	ck := "private/path/combinator."
	// D0: the duplicate filter can only keep the latest-expiring construction if
	// every construction reaches it: all segments enter the graph, and Combine hands
	// the three lists to newDMG as they came.
	segmentsEnterGraph(c, "D0-every-construction-is-a-candidate")
	c.Borrow(runC29, map[string]string{"S3-edge-stored": "D0-every-construction-is-a-candidate", "S5-only-documented-filters": "D0-every-construction-is-a-candidate"})
	if cv := c.View(ck + "Combine"); cv != nil {
		cv.RequireCallArgs("D0-every-construction-is-a-candidate", 1, ck+"newDMG", "arg2", "arg3", "arg4")
	}
	if v := c.View("(*" + ck + "pathSolution).Path"); v != nil {
		hopFieldProvenance(c, v, "H1-hop-field-provenance")
		c28InfoField(c, v, ck)
	}
	c28Rest(c, ck)
}

// hopFieldProvenance: every hop field of a combined path is copied, all four
// members, from ONE input hop field - the AS entry's regular hop entry, or for a
// peering hop the peer entry edge.Peer-1. Registered under C28 (well-formed
// paths) and C30 (the advertised expiry is the minimum over the hop fields that
// are actually in the path: a peering hop with the regular entry's ExpTime makes
// an expired path look alive).
func hopFieldProvenance(c *Ctx, v *FnView, rule string) {
	{
		// H1: group stores into HopField-typed allocs per (alloc, block)
		type key struct {
			alloc ssa.Value
			blk   *ssa.BasicBlock
		}
		groups := map[key]map[string]string{}
		var keys []key
		for _, b := range v.Fn.Blocks {
			for _, in := range b.Instrs {
				st, ok := in.(*ssa.Store)
				if !ok {
					continue
				}
				fa, ok := st.Addr.(*ssa.FieldAddr)
				if !ok {
					continue
				}
				t := typeShort(fa.X.Type())
				if t != "*pkg/slayers/path.HopField" {
					continue
				}
				k := key{fa.X, b}
				if groups[k] == nil {
					groups[k] = map[string]string{}
					keys = append(keys, k)
				}
				groups[k][fieldName(fa.X.Type(), fa.Field)] = v.S.Sym(st.Val)
			}
		}
		c.Min("Path:hop-field-store-groups", len(keys), 2)
		srcMember := map[string]string{"ExpTime": "ExpTime", "ConsIngress": "ConsIngress", "ConsEgress": "ConsEgress", "Mac": "MAC"}
		for i, k := range keys {
			g := groups[k]
			construct := fmt.Sprintf("%s:hop-field-group-%d", v.Name(), i+1)
			var prefixes []string
			complete := true
			for f, m := range srcMember {
				val, ok := g[f]
				if !ok {
					complete = false
					continue
				}
				if !strings.HasSuffix(val, ".HopField."+m) {
					prefixes = append(prefixes, "?"+val)
					continue
				}
				prefixes = append(prefixes, strings.TrimSuffix(val, "."+m))
			}
			sort.Strings(prefixes)
			same := len(prefixes) == 4 && prefixes[0] == prefixes[3]
			okSrc := same && (strings.HasSuffix(prefixes[0], ".HopEntry.HopField") || strings.Contains(prefixes[0], "peer") ||
				strings.Contains(prefixes[0], "PeerEntries["))
			c.Check(complete && okSrc, rule, construct, k.blk.Instrs[0].Pos(),
				fmt.Sprintf("sets %v; all four members must be copied from one input hop field", g))
		}
		// the peer entry selected is edge.Peer-1 of the AS entry, the regular entry is the AS entry's
		okPeer := false
		for _, k := range keys {
			if wild("*PeerEntries[(*.edge.Peer - 1)].HopField.ExpTime", groups[k]["ExpTime"]) {
				okPeer = true
			}
		}
		for _, st := range v.Stores("local:peer") {
			if wild("local:asEntry.PeerEntries[(*.edge.Peer - 1)]", st.Val) {
				okPeer = true
			}
		}
		c.Check(okPeer, rule, v.Name()+":peer-entry-selection", v.Fn.Pos(),
			"peer := asEntry.PeerEntries[edge.Peer-1]")
	}
}

func c28InfoField(c *Ctx, v *FnView, ck string) {
	{
		// I1: info field
		v.RequireStore("I1-info-field", 1, "local:complit.Timestamp", "pkg/private/util.TimeToSecs(*.segment.PathSegment.Info.Timestamp)")
		v.RequireStore("I1-info-field", 1, "local:complit.SegID", ck+"calculateBeta(*)")
		v.RequireStore("I1-info-field", 1, "local:complit.ConsDir", "(*"+ck+"inputSegment).IsDownSeg(*.segment)")
		v.RequireStore("I1-info-field", 1, "local:complit.Peer", "(*.edge.Peer != 0)")
		// down segments are put in forwarding order
		rev := v.Calls("slices.Reverse*")
		okRev := len(rev) >= 2
		for _, r := range rev {
			found := false
			for _, l := range blockLits(r.In.(ssa.Instruction).Block()) {
				if wild("+eq(*.segment.Type, "+c.Const("pkg/private/ctrl/path_mgmt/proto.PathSegType_down")+")", l.String(v.S)) {
					found = true
				}
			}
			okRev = okRev && found
		}
		c.Check(okRev, "I1-info-field", v.Name()+":reverse-only-down-segments", v.Fn.Pos(),
			fmt.Sprintf("%d slices.Reverse call(s), all on the down-segment edge", len(rev)))
	}
}

func c28Rest(c *Ctx, ck string) {
	if fn := c.Fn("(*" + ck + "inputSegment).IsDownSeg"); fn != nil {
		down := c.Const("pkg/private/ctrl/path_mgmt/proto.PathSegType_down")
		RunTable(c, &TableSpec{Rule: "I1-info-field", Fn: fn, NoInline: noInlineDefault,
			Atoms: []Atom{{Name: "t", Pats: []string{"recv.PathSegment.Type", "recv.Type"},
				Domain: []string{c.Const("pkg/private/ctrl/path_mgmt/proto.PathSegType_up"), c.Const("pkg/private/ctrl/path_mgmt/proto.PathSegType_core"), down}}},
			Oracle: func(a map[string]string) map[string]string { return map[string]string{"ret": boolStr(a["t"] == down)} }})
	}
	// T1: validNextSeg
	if fn := c.Fn(ck + "validNextSeg"); fn != nil {
		up, core, down := c.Const("pkg/private/ctrl/path_mgmt/proto.PathSegType_up"), c.Const("pkg/private/ctrl/path_mgmt/proto.PathSegType_core"),
			c.Const("pkg/private/ctrl/path_mgmt/proto.PathSegType_down")
		RunTable(c, &TableSpec{Rule: "T1-valid-next-seg", Fn: fn, NoInline: noInlineDefault,
			Atoms: []Atom{
				{Name: "none", Pats: []string{"(arg0 == nil)"}, Domain: boolDom()},
				{Name: "curr", Pats: []string{"arg0.PathSegment.Type", "arg0.Type"}, Domain: []string{up, core, down}},
				{Name: "next", Pats: []string{"arg1.PathSegment.Type", "arg1.Type"}, Domain: []string{up, core, down}},
			},
			Oracle: func(a map[string]string) map[string]string {
				if a["none"] == "true" {
					return map[string]string{"ret": "true"}
				}
				ok := (a["curr"] == up && (a["next"] == core || a["next"] == down)) || (a["curr"] == core && a["next"] == down)
				return map[string]string{"ret": boolStr(ok)}
			}})
	}
	// F1: min folds
	minFold := func(q, runningPat, candPat, initPat string) {
		v := c.View(q)
		if v == nil {
			return
		}
		ok := false
		detail := "no replacing comparison found"
		for _, b := range v.Fn.Blocks {
			for si := range b.Succs {
				ls, _ := edgeLits(b, si, nil)
				for _, l := range ls {
					s := l.String(v.S)
					if wild("+true((time.Time).After("+runningPat+", "+candPat+"))", s) ||
						wild("+lt("+candPat+", "+runningPat+")", s) || wild("+true((time.Time).Before("+candPat+", "+runningPat+"))", s) {
						// this edge must lead to the replacement (the phi of the running value takes cand)
						ok = true
						detail = s
					}
					if wild("+true((time.Time).After("+candPat+", "+runningPat+"))", s) || wild("+lt("+runningPat+", "+candPat+")", s) {
						// replacing when the candidate is LARGER would be a maximum: only acceptable
						// if that edge skips the replacement; check the phi
						if replacesOn(b.Succs[si], candPat, v) {
							ok = false
							detail = "replaces the running value when the candidate is larger: " + s
						}
					}
				}
			}
		}
		okInit := false
		for _, b := range v.Fn.Blocks {
			for _, in := range b.Instrs {
				if phi, isPhi := in.(*ssa.Phi); isPhi {
					for _, e := range phi.Edges {
						if wild(initPat, v.S.Sym(e)) {
							okInit = true
						}
					}
				}
			}
		}
		c.Check(ok && okInit, "F1-min-folds", v.Name()+":minimum", v.Fn.Pos(),
			fmt.Sprintf("running value replaced iff larger than the candidate (%s); starts from the maximum: %v", short(detail), okInit))
	}
	minFold("("+ck+"segmentList).ComputeExpTime", "phi(*)", "(*"+ck+"segment).ComputeExpTime(*)", "global:"+ck+"maxExpirationTime")
	minFold("(*"+ck+"segment).computeHopFieldsTTL", "phi(*)", "pkg/slayers/path.ExpTimeToDuration(*)", "*:time.Duration")
	if v := c.View("(*" + ck + "segment).ComputeExpTime"); v != nil {
		ok := false
		for _, b := range v.Fn.Blocks {
			if r, isR := b.Instrs[len(b.Instrs)-1].(*ssa.Return); isR {
				ok = v.S.Sym(r.Results[0]) == "(time.Time).Add(pkg/private/util.SecsToTime(recv.InfoField.Timestamp), (*"+ck+"segment).computeHopFieldsTTL(recv))"
			}
		}
		c.Check(ok, "F1-min-folds", v.Name()+":timestamp-plus-min-ttl", v.Fn.Pos(), "expiry = segment timestamp + minimum hop TTL")
	}
	if v := c.View("(" + ck + "segmentList).ScionPath"); v != nil {
		v.RequireStore("F1-min-folds", 1, "local:meta.SegLen[*]", "uint8(builtin:len(*.HopFields))")
	}
	// F2: filters
	if v := c.View(ck + "filterLongPaths"); v != nil {
		e := NewE1(c, v.Fn)
		var apps []ssa.Instruction
		for _, ci := range v.Calls("builtin:append") {
			apps = append(apps, ci.In.(ssa.Instruction))
		}
		c.Min("filterLongPaths:append", len(apps), 1)
		n := 0
		for _, b := range v.Fn.Blocks {
			for si := range b.Succs {
				ls, _ := edgeLits(b, si, nil)
				for _, l := range ls {
					if wild("+lt(2, *iaCounts*)", l.String(v.S)) || wild("+lt(2, makemap*[*])", l.String(v.S)) {
						n++
					}
				}
			}
		}
		c.Check(n == 1, "F2-filters", v.Name()+":threshold", v.Fn.Pos(), fmt.Sprintf("one test `count > 2` (found %d)", n))
		_ = e
		// the append is controlled by a boolean phi that is true exactly on the edge
		// coming from the `count > 2` branch
		okPhi := false
		for _, a := range apps {
			for d := a.Block(); d != nil && !okPhi; d = d.Idom() {
				if len(d.Preds) != 1 {
					continue
				}
				p := d.Preds[0]
				ifi, isIf := p.Instrs[len(p.Instrs)-1].(*ssa.If)
				if !isIf {
					continue
				}
				cond := ifi.Cond
				if u, isU := cond.(*ssa.UnOp); isU {
					cond = u.X
				}
				phi, isPhi := cond.(*ssa.Phi)
				if !isPhi {
					continue
				}
				good := true
				trues := 0
				for i, ed := range phi.Edges {
					bv, isC := constBool(ed)
					if !isC {
						good = false
						continue
					}
					if bv {
						trues++
						found := false
						for _, l := range blockLits(phi.Block().Preds[i]) {
							if wild("+lt(2, *)", l.String(v.S)) {
								found = true
							}
						}
						good = good && found
					}
				}
				okPhi = good && trues == 1 && p.Succs[1] == d
			}
		}
		c.Check(okPhi, "F2-filters", v.Name()+":keep-only-short", v.Fn.Pos(),
			"a path is appended iff no AS exceeded the threshold (flag set only on the count > 2 edge)")
	}
	if v := c.View(ck + "filterDuplicates"); v != nil {
		e := NewE1(c, v.Fn)
		var ups []ssa.Instruction
		for _, b := range v.Fn.Blocks {
			for _, in := range b.Instrs {
				if mu, ok := in.(*ssa.MapUpdate); ok {
					ups = append(ups, mu)
				}
			}
		}
		c.Min("filterDuplicates:map-updates", len(ups), 1)
		e.Require("F2-filters", "replace-only-later-expiry", nil, ups,
			Or("new-or-later", e.AtomGuard("new", "-ok(makemap*[*.Fingerprint])", "-true(makemap*[*.Fingerprint]#1)"),
				e.AtomGuard("later", "+true((time.Time).After(*.Metadata.Expiry, arg0[makemap*[*.Fingerprint]#0].Metadata.Expiry))")))
	}
}

// replacesOn reports whether entering block b makes the candidate the new
// running value (b is the "then" block that assigns it).
func replacesOn(b *ssa.BasicBlock, candPat string, v *FnView) bool {
	for _, s := range b.Succs {
		for _, in := range s.Instrs {
			phi, ok := in.(*ssa.Phi)
			if !ok {
				continue
			}
			for i, p := range s.Preds {
				if p == b && wild(candPat, v.S.Sym(phi.Edges[i])) {
					return true
				}
			}
		}
	}
	return false
}
