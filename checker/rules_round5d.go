package main

// Fifth seed round, batch C: three seeds sat in a helper that another property's
// rule already decides; the rule is registered under every property whose statement
// depends on the helper (Ctx.Borrow).
func init() {
	extend := func(id string, roots []string, f func(*Ctx)) {
		r := registry[id]
		if r == nil {
			panic("round5d: property not registered: " + id)
		}
		old := r.Run
		r.Run = func(c *Ctx) { f(c); old(c) }
		for _, nr := range roots {
			have := false
			for _, x := range r.Roots {
				have = have || x == nr
			}
			if !have {
				r.Roots = append(r.Roots, nr)
			}
		}
	}
	// C05: parsePath discards a header whose CurrINF and CurrHF disagree (CurrINFMatchesCurrHF),
	// and ingressInterface trusts IsFirstHopAfterXover: with a position helper that is off,
	// an end host can dress a packet up as transit from a sibling (the "first hop after a
	// cross-over" takes the ingress of the hop before, 0 = the internal link it really came
	// from) and the first-hop source test is skipped.
	extend("C05", registry["C19"].Roots, func(c *Ctx) {
		c.Borrow(runC19, map[string]string{"X1-boundaries": "X1-path-position-helpers"})
	})
	// C13: "penultimate" and "last" are decided by Raw.IsPenultimateHop / IsLastHop
	extend("C13", registry["C19"].Roots, func(c *Ctx) {
		c.Borrow(runC19, map[string]string{"X1-boundaries": "H1-hop-position-helpers"})
	})
	// C15: the SCMP answer for a down link is built by prepareSCMP, which sizes the reply
	// with ScmpHeaderSize(type); an under-reported size for InternalConnectivityDown runs
	// off the headroom for 37-hop paths and the answer is never sent
	// C36: SignerGen.bestForKey picks among "every chain valid now", which is the answer of
	// the trust DB's Chains query; times are stored and compared as text, so the query must
	// bind its validity bounds in UTC like the insert does (C24 Q2)
	extend("C36", []string{"./private/storage/trust/sqlite"}, func(c *Ctx) { c24ChainQueryInUTC(c, "Q2-chain-query-in-utc") })
	extend("C15", registry["C09"].Roots, func(c *Ctx) {
		c.Borrow(runC09, map[string]string{"T1-scmp-header-sizes": "Z1-scmp-header-sizes"})
	})
}
