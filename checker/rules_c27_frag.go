package main

import (
	"fmt"
	"go/constant"
	"sort"
	"strings"

	"golang.org/x/tools/go/ssa"
)

// C27 (and C45, which queries through the same builder): the path database's Get
// builds its WHERE clause from fragments; each fragment with placeholders is
// appended in the same basic block as the values bound to those placeholders.
// Fragment and values must talk about the same thing: "(s.EndIsdID=?)" with
// ISD(params.EndsAt[i]), "(s.StartIsdID=? AND s.StartAsID=?)" with ISD and AS of
// params.StartsAt[i], and so on. The table maps a column to what the value
// bound to it must contain.
func init() {
	for _, p := range []string{"C27", "C45"} {
		addMutants(
			Mutant{Prop: p, Name: "endsat-wildcard-filters-on-start-isd", File: "private/storage/path/sqlite/sqlite.go",
				Old: `				subQ = append(subQ, "(s.EndIsdID=?)")`, New: `				subQ = append(subQ, "(s.StartIsdID=?)")`,
				Expect: "Q3-fragment-binding"},
			Mutant{Prop: p, Name: "interface-filter-binds-isd-twice", File: "private/storage/path/sqlite/sqlite.go",
				Old: `			args = append(args, spec.IA.ISD(), spec.IA.AS(), spec.IfID)`, New: `			args = append(args, spec.IA.ISD(), spec.IA.ISD(), spec.IfID)`,
				Expect: "Q3-fragment-binding"},
		)
	}
}

func queryFragmentBinding(c *Ctx, rule string) {
	v := c.View("(*private/storage/path/sqlite.executor).buildQuery")
	if v == nil {
		return
	}
	want := map[string][]string{
		"SegID":      {"arg0.SegIDs["},
		"Type":       {"arg0.SegTypes["},
		"GroupID":    {"arg0.HPGroupIDs["},
		"IsdID":      {").ISD(", "arg0.Intfs["},
		"AsID":       {").AS(", "arg0.Intfs["},
		"IntfID":     {"arg0.Intfs[", ".IfID"},
		"StartIsdID": {").ISD(", "arg0.StartsAt["},
		"StartAsID":  {").AS(", "arg0.StartsAt["},
		"EndIsdID":   {").ISD(", "arg0.EndsAt["},
		"EndAsID":    {").AS(", "arg0.EndsAt["},
	}
	n := 0
	var bad []string
	for _, b := range v.Fn.Blocks {
		// appends of this block, in order: the string fragments and the value lists
		var frags []string
		var vals [][]string
		for _, in := range b.Instrs {
			call, ok := in.(*ssa.Call)
			if !ok || calleeName(call.Common()) != "builtin:append" {
				continue
			}
			elems := variadicElems(call.Common().Args[1])
			if len(elems) == 0 {
				continue
			}
			if k, isK := elems[0].(*ssa.Const); isK && k.Value != nil && k.Value.Kind() == constant.String {
				if s := constant.StringVal(k.Value); strings.Contains(s, "?") {
					frags = append(frags, s)
				}
				continue
			}
			var row []string
			for _, e := range elems {
				if e == nil {
					row = append(row, "?")
				} else {
					row = append(row, v.S.Sym(e))
				}
			}
			vals = append(vals, row)
		}
		if len(frags) == 0 {
			continue
		}
		n += len(frags)
		var cols []string
		for _, f := range frags {
			_, cs := placeholderColumns(f)
			cols = append(cols, cs...)
		}
		var bound []string
		for _, r := range vals {
			bound = append(bound, r...)
		}
		if len(cols) != len(bound) {
			bad = append(bad, fmt.Sprintf("%v: %d placeholders, %d values in the same block", frags, len(cols), len(bound)))
			continue
		}
		for i, col := range cols {
			need, ok := want[col]
			if !ok {
				bad = append(bad, fmt.Sprintf("%v: column %q is not in the rule's table", frags, col))
				continue
			}
			for _, s := range need {
				if !strings.Contains(bound[i], s) {
					bad = append(bad, fmt.Sprintf("%s is bound to %s (required to contain %q)", col, bound[i], s))
					break
				}
			}
		}
	}
	sort.Strings(bad)
	c.Min("buildQuery:fragments-with-placeholders", n, 8)
	c.Check(len(bad) == 0, rule, v.Name()+":fragments", v.Fn.Pos(), fmt.Sprintf(
		"%d fragments with placeholders, each bound in its own block to the members its columns name: %s", n, strings.Join(truncList(bad, 3), " | ")))
}
