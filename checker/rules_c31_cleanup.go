package main

import (
	"fmt"
	"os"
	"sort"
	"strings"

	"golang.org/x/tools/go/ssa"
)

// C31, clean-up: a revocation leaves the cache only through the cache library's
// own expiry, i.e. at the time Insert stored with it (SetWithExpire(key, rev,
// time.Until(rev.Expiration())), decided by rule I1). Any other way of removing
// entries - a second notion of "expired" computed at clean-up time, a flush, a
// delete by predicate - can drop a revocation that a lookup must still return.
// Who-may-call rule over the whole package.
func c31Cleanup(c *Ctx) {
	rule := "C1-removal-only-by-cache-expiry"
	removing := map[string]bool{"Delete": true, "DeleteFunc": true, "DeleteAll": true, "Flush": true, "Pop": true,
		"Reset": true, "DeleteExpired": true, "Rename": true}
	var found []string
	nExpired := 0
	for fn := range c.Prog.AllFuncs() {
		if fn.Blocks == nil || !strings.Contains(rawFuncName(fn), "private/revcache/memrevcache.") {
			continue
		}
		for _, b := range fn.Blocks {
			for _, in := range b.Instrs {
				call, ok := in.(ssa.CallInstruction)
				if !ok {
					continue
				}
				name := calleeName(call.Common())
				if os.Getenv("SCIONVET_DBG") != "" {
					fmt.Println("DBG", rawFuncName(fn), "->", name)
				}
				if !strings.Contains(name, "zcache") {
					continue
				}
				meth := name[strings.LastIndex(name, ".")+1:]
				if !removing[meth] {
					continue
				}
				if meth == "DeleteExpired" && strings.HasSuffix(rawFuncName(fn), "memRevCache).DeleteExpired") {
					nExpired++
					continue
				}
				found = append(found, FuncName(fn)+" calls "+meth)
			}
		}
	}
	sort.Strings(found)
	c.Check(len(found) == 0 && nExpired == 1, rule, "memrevcache:who-removes", 0, fmt.Sprintf(
		"%d call(s) of the cache's DeleteExpired in memRevCache.DeleteExpired; other removing calls: %s", nExpired, strings.Join(found, "; ")))
}
