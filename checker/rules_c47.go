package main

import (
	"fmt"
	"strconv"
	"strings"

	"golang.org/x/tools/go/ssa"
)

func init() {
	register(&PropRule{
		ID:    "C47",
		Roots: []string{"./private/path/pathpol"},
		Explain: "Decides the last sentence of the property only - 'ACL and policy filters return, in input order, exactly " +
			"the input paths they accept' - and the ACL's own decision structure. (F1) ACL.Eval, Sequence.Eval " +
			"and Policy.evalOptions build their result exclusively by appending the element of the single " +
			"range loop over the input paths (so order is preserved and nothing foreign is returned), each " +
			"append sits behind that filter's acceptance test for THIS element (evalPath(path.Metadata()); " +
			"re.MatchString(GetSequence(path)+\" \") with a GetSequence error skipping the path; membership of " +
			"the path's fingerprint in the set collected from the sub-policies), and the accepting edge leads " +
			"straight to the append; the input is returned unchanged exactly for a nil / empty filter. (F2) " +
			"Policy.FilterOpt chains LocalISDAS, RemoteISDAS, ACL, Sequence (unless IgnoreSequence) and the " +
			"options, each fed with the previous result. (A1) evalPath denies a path iff some interface is " +
			"denied, passing ingress = (index is odd); evalInterface returns the action of the first entry " +
			"without a rule or whose rule matches. (G1) Every regular-expression fragment the sequence listener " +
			"builds from sub-fragments is one self-contained parenthesised group (optionally followed by ?, + " +
			"or *), so that composing fragments cannot re-associate '|' against juxtaposition or the anchors - " +
			"a necessary condition of 'the operators have their regular-expression meaning'. NOT decided: the " +
			"sequence language itself (needs regexp semantics), hop predicate matching.",
		Run: runC47,
	})
	setClaim("C47", claim{
		Text: "Filter loops of ACL, Sequence and option evaluation (only accepted input elements, in order), filter " +
			"chain of Policy.FilterOpt, ACL decision structure.",
		Note: claimNote, Technique: "static analysis: append-provenance of the returned slice, guard dominance per appended " +
			"element, call chaining",
		Ref: "DESIGN.md §0.5 C47"})
	addMutants(
		Mutant{Prop: "C47", Name: "alternation-not-grouped", File: "private/path/pathpol/sequence.go",
			Old: `	re := fmt.Sprintf("(%s|%s)", left, right)`, New: `	re := fmt.Sprintf("%s|%s", left, right)`, Expect: "G1-regexp-groups"},
		Mutant{Prop: "C47", Name: "postfix-on-ungrouped-operand", File: "private/path/pathpol/sequence.go",
			Old: `	re := fmt.Sprintf("(%s)+", l.pop())`, New: `	re := fmt.Sprintf("%s+", l.pop())`, Expect: "G1-regexp-groups"},
		Mutant{Prop: "C47", Name: "acl-keeps-denied", File: "private/path/pathpol/acl.go",
			Old: `		if a.evalPath(path.Metadata()) {`, New: `		if a.evalPath(path.Metadata()) || len(result) == 0 {`, Expect: "F1-filter-loops"},
		Mutant{Prop: "C47", Name: "acl-ingress-flag-inverted", File: "private/path/pathpol/acl.go",
			Old: `		if a.evalInterface(iface, i%2 != 0) == Deny {`, New: `		if a.evalInterface(iface, i%2 == 0) == Deny {`, Expect: "A1-acl"},
		Mutant{Prop: "C47", Name: "acl-last-entry-wins", File: "private/path/pathpol/acl.go",
			Old: `		if aclEntry.Rule == nil || aclEntry.Rule.pathIFMatch(iface, ingress) {
			return aclEntry.Action
		}
	}
	panic("Default ACL action missing")`, New: `		if aclEntry.Rule == nil || aclEntry.Rule.pathIFMatch(iface, ingress) {
			act = aclEntry.Action
		}
	}
	return act`, More: []Edit{{File: "private/path/pathpol/acl.go", Old: `func (a *ACL) evalInterface(iface snet.PathInterface, ingress bool) ACLAction {
	for _, aclEntry := range a.Entries {`, New: `func (a *ACL) evalInterface(iface snet.PathInterface, ingress bool) ACLAction {
	var act ACLAction
	for _, aclEntry := range a.Entries {`}}, Expect: "A1-acl"},
		Mutant{Prop: "C47", Name: "sequence-error-keeps-path", File: "private/path/pathpol/sequence.go",
			Old: `			log.Error("get sequence from path", "err", err)
			continue`, New: `			log.Error("get sequence from path", "err", err)`, Expect: "F1-filter-loops"},
		Mutant{Prop: "C47", Name: "policy-skips-remote-filter", File: "private/path/pathpol/policy.go",
			Old: `		paths = p.RemoteISDAS.Eval(paths)`, New: `		_ = p.RemoteISDAS.Eval(paths)`, Expect: "F2-filter-chain"},
		Mutant{Prop: "C47", Name: "options-return-subpolicy-order", File: "private/path/pathpol/policy.go",
			Old: `	result := []snet.Path{}
	for _, path := range paths {
		if _, ok := subPolicySet[path.Metadata().Fingerprint()]; ok {
			result = append(result, path)
		}
	}
	return result
}`, New: `	result := []snet.Path{}
	for _, option := range p.Options {
		for _, path := range option.Policy.FilterOpt(paths, opts) {
			if _, ok := subPolicySet[path.Metadata().Fingerprint()]; ok {
				result = append(result, path)
				delete(subPolicySet, path.Metadata().Fingerprint())
			}
		}
	}
	return result
}`, Expect: "F1-filter-loops"},
	)
}

// filterLoop checks a "keep the accepted elements" function: every value it can
// return is its input parameter (pass-through) or a slice built by appending
// the element of a range loop over that parameter, each append behind accept.
func filterLoop(c *Ctx, rule string, v *FnView, param string, accept func(l Lit, elem ssa.Value) bool, acceptName string) {
	fn := v.Fn
	e := NewE1(c, fn)
	seen := map[ssa.Value]bool{}
	var appends []*ssa.Call
	okShape := true
	passthrough := 0
	var flow func(x ssa.Value)
	flow = func(x ssa.Value) {
		if x == nil || seen[x] {
			return
		}
		seen[x] = true
		switch y := x.(type) {
		case *ssa.Phi:
			for _, ed := range y.Edges {
				flow(ed)
			}
		case *ssa.Parameter:
			if v.S.Sym(y) == param {
				passthrough++
			} else {
				okShape = false
			}
		case *ssa.Call:
			if calleeName(y.Common()) == "builtin:append" {
				appends = append(appends, y)
				flow(y.Common().Args[0])
			} else {
				okShape = false
			}
		case *ssa.Slice:
			// result := []T{} : an empty literal
			if _, isAlloc := y.X.(*ssa.Alloc); !isAlloc {
				okShape = false
			}
		case *ssa.Const:
			okShape = okShape && y.IsNil()
		default:
			okShape = false
		}
	}
	for _, b := range fn.Blocks {
		if r, ok := b.Instrs[len(b.Instrs)-1].(*ssa.Return); ok && b != fn.Recover {
			flow(RetVal(r, 0))
		}
	}
	c.Check(okShape && len(appends) >= 1, rule, v.Name()+":result-provenance", fn.Pos(), fmt.Sprintf(
		"the result is the input itself (%d pass-through return value(s)) or built by %d append(s) in this function", passthrough, len(appends)))
	for i, ap := range appends {
		els := appendedElems(ap)
		construct := fmt.Sprintf("%s:append-%d", v.Name(), i+1)
		if len(els) != 1 {
			c.Fail(rule, construct, ap.Pos(), fmt.Sprintf("appends %d elements", len(els)))
			continue
		}
		elem := els[0]
		root := rootOf(elem)
		// the element of a range loop over the parameter
		src := v.S.Sym(elem)
		okElem := strings.HasPrefix(src, param+"[") || strings.HasPrefix(v.S.Sym(root), param+"[") || strings.HasPrefix(v.S.Sym(root), "&("+param+"[")
		c.Check(okElem, rule, construct+":element", ap.Pos(), "appends "+short(src)+"; required an element of the range loop over "+param)
		g := Guard{Name: acceptName, Match: func(l Lit) bool { return accept(l, elem) }}
		ws := e.Unguarded(nil, []ssa.Instruction{ap}, []Guard{g})
		c.Check(len(ws) == 0, rule, construct+":accepted", ap.Pos(), "the append is reached only behind "+acceptName+" for the appended element")
		// the accepting edge leads to the append
		okTaken := false
		for _, b := range fn.Blocks {
			for si := range b.Succs {
				lits, _ := edgeLits(b, si, nil)
				for _, l := range lits {
					if accept(l, elem) && (b.Succs[si] == ap.Block() || b.Succs[si].Dominates(ap.Block()) && len(b.Succs[si].Instrs) <= 2) {
						okTaken = true
					}
				}
			}
		}
		c.Check(okTaken, rule, construct+":kept-when-accepted", ap.Pos(), "the accepting edge leads straight to the append")
	}
	c.Check(len(appends) == 1, rule, v.Name()+":single-loop", fn.Pos(), fmt.Sprintf("%d append site(s): one loop over the input, in input order", len(appends)))
}

// sameElem: x is derived (loads, fields, method receivers) from the range element elem.
func derivedFrom(x, elem ssa.Value, s *Symer) bool {
	re, rx := rootOf(elem), rootOf(x)
	if re == rx {
		return true
	}
	return s.Sym(re) == s.Sym(rx)
}

// isRegexpGroup: the format is one balanced parenthesised group, optionally
// followed by a postfix operator: "(…)", "(…)?", "(…)+", "(…)*".
func isRegexpGroup(f string) bool {
	f = strings.TrimRight(f, "?+*")
	if len(f) < 2 || f[0] != '(' || f[len(f)-1] != ')' {
		return false
	}
	depth := 0
	for i := 0; i < len(f); i++ {
		switch f[i] {
		case '(':
			depth++
		case ')':
			depth--
			if depth == 0 && i != len(f)-1 {
				return false // the first '(' closes before the end: not one group
			}
		}
	}
	return depth == 0
}

// c47RegexpGroups: every fragment the sequence listener builds from
// sub-fragments is a self-contained group, so that composing fragments can never
// re-associate operators ('|' binds weaker than concatenation and anchors in
// regexp syntax, tighter in the sequence grammar).
func c47RegexpGroups(c *Ctx) {
	rule := "G1-regexp-groups"
	pkg := c.Prog.SSAPkgs[modPath+"/private/path/pathpol"]
	n := 0
	for fn := range c.Prog.AllFuncs() {
		if fn.Pkg != pkg || len(fn.Blocks) == 0 || !strings.HasPrefix(fn.Name(), "Exit") ||
			!strings.Contains(FuncName(fn), "sequenceListener") {
			continue
		}
		for _, b := range fn.Blocks {
			for _, in := range b.Instrs {
				call, ok := in.(*ssa.Call)
				if !ok || calleeName(call.Common()) != "fmt.Sprintf" {
					continue
				}
				fk, isK := call.Common().Args[0].(*ssa.Const)
				if !isK || fk.Value == nil {
					c.Fail(rule, FuncName(fn)+":format", call.Pos(), "non-constant regexp fragment format")
					continue
				}
				format := constantString(fk)
				if !strings.Contains(format, "%s") {
					continue
				}
				n++
				c.Check(isRegexpGroup(format), rule, FuncName(fn)+":fragment", call.Pos(),
					"fragment format "+fmt.Sprintf("%q", format)+" must be one parenthesised group (optionally followed by ?, + or *)")
			}
		}
	}
	c.Min("sequence-listener-fragment-formats", n, 8)
	// the anchors are added around the finished expression, once
	if v := c.View(pp47 + "NewSequence"); v != nil {
		okAnchor := false
		for _, ci := range v.Calls("fmt.Sprintf") {
			if fk, isK := ci.In.Common().Args[0].(*ssa.Const); isK && constantString(fk) == "^%s$" {
				okAnchor = true
			}
		}
		for _, ci := range v.Calls("regexp.Compile", "regexp.MustCompile") {
			if strings.Contains(ci.Args[0], "^") || okAnchor {
				okAnchor = true
			}
		}
		c.Check(okAnchor, rule, v.Name()+":anchored", v.Fn.Pos(), "the compiled expression is anchored as a whole")
	}
}

const pp47 = "private/path/pathpol."

func constantString(k *ssa.Const) string {
	s := k.Value.ExactString()
	if u, err := strconvUnquote(s); err == nil {
		return u
	}
	return strings.Trim(s, `"`)
}

func runC47(c *Ctx) {
	c47RegexpGroups(c)
	c47HopPredicateParse(c)
	pp := "private/path/pathpol."
	if v := c.View("(*" + pp + "ACL).Eval"); v != nil {
		filterLoop(c, "F1-filter-loops", v, "arg0", func(l Lit, elem ssa.Value) bool {
			call, ok := l.X.(*ssa.Call)
			if l.Kind != "true" || !l.Pos || !ok || calleeName(call.Common()) != "(*"+pp+"ACL).evalPath" {
				return false
			}
			md, _ := callOf(call.Common().Args[1])
			return md != nil && strings.HasSuffix(calleeName(md.Common()), ".Metadata") && derivedFrom(md.Common().Value, elem, v.S)
		}, "evalPath(path.Metadata())")
		e := NewE1(c, v.Fn)
		var pass []ssa.Instruction
		for _, b := range v.Fn.Blocks {
			if r, ok := b.Instrs[len(b.Instrs)-1].(*ssa.Return); ok && v.S.Sym(RetVal(r, 0)) == "arg0" {
				pass = append(pass, r)
			}
		}
		e.Require("F1-filter-loops", "unfiltered-only-without-acl", nil, pass,
			Or("no ACL or no entries", e.AtomGuard("nil", "+eq(recv, nil)"), e.AtomGuard("empty", "+eq(builtin:len(recv.Entries), 0)")))
	}
	if v := c.View("(*" + pp + "Sequence).Eval"); v != nil {
		filterLoop(c, "F1-filter-loops", v, "arg0", func(l Lit, elem ssa.Value) bool {
			call, ok := l.X.(*ssa.Call)
			if l.Kind != "true" || !l.Pos || !ok || calleeName(call.Common()) != "(*regexp.Regexp).MatchString" {
				return false
			}
			// the matched text comes from GetSequence(elem)
			for leaf := range v.Leaves(call.Common().Args[1], 1) {
				if leaf == "call:"+pp+"GetSequence" {
					return true
				}
			}
			return false
		}, "re.MatchString(GetSequence(path))")
		e := NewE1(c, v.Fn)
		var aps []ssa.Instruction
		for _, ci := range v.Calls("builtin:append") {
			aps = append(aps, ci.In)
		}
		e.Require("F1-filter-loops", "sequence-of-this-path", nil, aps, e.AtomGuard("GetSequence ok", "+eq("+pp+"GetSequence(*)#1, nil)"))
		v.RequireCallArgs("F1-filter-loops", 1, pp+"GetSequence", "arg0[*]")
	}
	if v := c.View("(*" + pp + "Policy).evalOptions"); v != nil {
		filterLoop(c, "F1-filter-loops", v, "arg0", func(l Lit, elem ssa.Value) bool {
			if l.Kind != "ok" || !l.Pos {
				return false
			}
			lk, ok := l.X.(*ssa.Lookup)
			if !ok {
				return false
			}
			fp, _ := callOf(lk.Index)
			if fp == nil || !strings.HasSuffix(calleeName(fp.Common()), ".Fingerprint") {
				return false
			}
			md, _ := callOf(fp.Common().Args[0])
			return md != nil && derivedFrom(md.Common().Value, elem, v.S)
		}, "fingerprint in the sub-policy set")
		// the set is filled from the sub-policies' results on the same input
		v.RequireCallArgs("F1-filter-loops", 1, "(*"+pp+"Policy).FilterOpt", "", "arg0", "arg1")
	}
	// F2
	if v := c.View("(*" + pp + "Policy).FilterOpt"); v != nil {
		rule := "F2-filter-chain"
		chain := []string{"(*" + pp + "LocalISDAS).Eval", "(*" + pp + "RemoteISDAS).Eval", "(*" + pp + "ACL).Eval", "(*" + pp + "Sequence).Eval", "(*" + pp + "Policy).evalOptions"}
		// each stage's input is the input or a phi over earlier stages' outputs, and the returned value depends on the last
		stageOf := map[ssa.Value]int{}
		ok := true
		for i, q := range chain {
			calls := v.Calls(q)
			if len(calls) != 1 {
				ok = false
				c.Fail(rule, v.Name()+":"+q, v.Fn.Pos(), fmt.Sprintf("%d call(s)", len(calls)))
				continue
			}
			call := calls[0].In.(*ssa.Call)
			stageOf[call] = i
			in := call.Common().Args[1]
			// the input must carry the result of stage i-1 on the path where that stage ran
			if i > 0 {
				prev := v.Calls(chain[i-1])
				if len(prev) == 1 && !dependsOn(in, prev[0].In.(*ssa.Call)) {
					ok = false
					c.Fail(rule, v.Name()+":"+q+":input", call.Pos(), "is not fed with the result of "+chain[i-1])
				}
			} else if !dependsOn(in, v.Fn.Params[1]) {
				ok = false
			}
		}
		e := NewE1(c, v.Fn)
		for _, r := range e.AllReturns() {
			rv := RetVal(r.(*ssa.Return), 0)
			if v.S.Sym(rv) == "arg0" {
				continue
			}
			last := v.Calls(chain[len(chain)-1])
			if len(last) == 1 && !dependsOn(rv, last[0].In.(*ssa.Call)) {
				ok = false
				c.Fail(rule, v.Name()+":result", r.Pos(), "the result does not carry the option filter's output")
			}
		}
		if ok {
			c.OK(rule, v.Name()+":chain", v.Fn.Pos(), "LocalISDAS -> RemoteISDAS -> ACL -> Sequence -> options, each fed with the previous result")
		}
		var seq []ssa.Instruction
		for _, ci := range v.Calls(chain[3]) {
			seq = append(seq, ci.In)
		}
		e.Require(rule, "sequence-unless-ignored", nil, seq, e.AtomGuard("!IgnoreSequence", "-true(arg1.IgnoreSequence)", "-true(local:opts.IgnoreSequence)"))
	}
	// A1
	if v := c.View("(*" + pp + "ACL).evalPath"); v != nil {
		rule := "A1-acl"
		v.RequireCallArgs(rule, 1, "(*"+pp+"ACL).evalInterface", "recv", "arg0.Interfaces[*]", "((* % 2) != 0)")
		e := NewE1(c, v.Fn)
		ok, n := true, 0
		for _, r := range e.AllReturns() {
			n++
			b, isK := constBool(r.(*ssa.Return).Results[0])
			if !isK {
				ok = false
				continue
			}
			var g Guard
			if b {
				g = e.AtomGuard("all-interfaces-visited", "-lt(*, builtin:len(arg0.Interfaces))")
			} else {
				g = e.AtomGuard("an-interface-is-denied", "+eq((*"+pp+"ACL).evalInterface(*), false:"+pp+"ACLAction)",
					"-true((*"+pp+"ACL).evalInterface(*))", "+eq((*"+pp+"ACL).evalInterface(*), false)")
			}
			if len(e.Unguarded(nil, []ssa.Instruction{r}, []Guard{g})) > 0 {
				ok = false
			}
		}
		c.Check(ok && n == 2, rule, v.Name()+":deny-iff-some-interface-denied", v.Fn.Pos(), "Deny on the first denied interface, Allow after all interfaces")
	}
	if v := c.View("(*" + pp + "ACL).evalInterface"); v != nil {
		rule := "A1-acl"
		e := NewE1(c, v.Fn)
		ok, n := true, 0
		for _, r := range e.AllReturns() {
			n++
			s := v.S.Sym(r.(*ssa.Return).Results[0])
			if !wild("recv.Entries[*].Action", s) {
				ok = false
			}
			g := Or("entry without rule or matching rule", e.AtomGuard("no-rule", "+eq(recv.Entries[*].Rule, nil)"),
				e.AtomGuard("rule-matches", "+true((*"+pp+"ACLEntry*).pathIFMatch(*))", "+true((*"+pp+"HopPredicate).pathIFMatch(*))"))
			if len(e.Unguarded(nil, []ssa.Instruction{r}, []Guard{g})) > 0 {
				ok = false
			}
		}
		c.Check(ok && n == 1, rule, v.Name()+":first-matching-entry", v.Fn.Pos(), "returns the action of the first entry that has no rule or whose rule matches, inside the loop")
	}
}

// dependsOn: v is src or a phi/conversion chain containing src.
func dependsOn(v, src ssa.Value) bool {
	seen := map[ssa.Value]bool{}
	var walk func(x ssa.Value) bool
	walk = func(x ssa.Value) bool {
		if x == nil || seen[x] {
			return false
		}
		seen[x] = true
		if x == src {
			return true
		}
		switch y := x.(type) {
		case *ssa.Phi:
			for _, ed := range y.Edges {
				if walk(ed) {
					return true
				}
			}
		case *ssa.UnOp:
			if al, ok := y.X.(*ssa.Alloc); ok && al.Referrers() != nil {
				for _, r := range *al.Referrers() {
					if st, ok := r.(*ssa.Store); ok && st.Addr == al && walk(st.Val) {
						return true
					}
				}
			}
			return walk(y.X)
		case *ssa.Convert:
			return walk(y.X)
		case *ssa.ChangeType:
			return walk(y.X)
		}
		return false
	}
	return walk(v)
}

func strconvUnquote(s string) (string, error) { return strconv.Unquote(s) }
