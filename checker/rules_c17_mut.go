package main

func init() {
	addMutants(
		Mutant{Prop: "C17", Name: "receive-size-forced-into-send-buffer-option", File: "private/underlay/conn/conn_linux.go",
			Old: `		target := cfg.ReceiveBufferSize
`, New: `		target := cfg.ReceiveBufferSize
		_ = sockctrl.SetsockoptInt(conn, syscall.SOL_SOCKET, syscall.SO_SNDBUF, target)
`, Expect: "F1-buffer-size-flow"},
		Mutant{Prop: "C17", Name: "receive-size-written-to-receive-buffer-option-directly", File: "private/underlay/conn/conn_linux.go",
			Old: `		target := cfg.ReceiveBufferSize
`, New: `		target := cfg.ReceiveBufferSize
		_ = sockctrl.SetsockoptInt(conn, syscall.SOL_SOCKET, syscall.SO_RCVBUF, target)
`, Benign: true},
	)
}
