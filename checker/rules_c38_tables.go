package main

import (
	"fmt"
	"go/token"
	"strconv"
	"strings"

	"golang.org/x/tools/go/ssa"
)

// C38, the algorithm member of the signed header: Verify hashes with the algorithm
// the header names, and "returns exactly the signed header" includes that name.
// The wire enum and the Go enum are translated by two switch tables; they must be
// exact inverses on the three supported algorithms and map EVERYTHING else to
// "unknown"/"unspecified" (fifth-round seed: the unset wire value 0 was read as
// ECDSA-SHA256, so a header that names no algorithm verified, and the header
// returned named one that was never signed).
//
// Rule A1 (engine E9 folding): each table's parameter is used only in ==/!=
// comparisons with constants, those constants are exactly the three supported
// values, and the function folded at 0, the three values and one value outside
// gives the specified image - which, with the first two facts, decides it for
// every input.
func init() {
	addMutants(
		Mutant{Prop: "C38", Name: "unset-wire-algorithm-read-as-sha256", File: "pkg/scrypto/signed/algo.go",
			Old: `	case pbcrypto.SignatureAlgorithm_SIGNATURE_ALGORITHM_ECDSA_WITH_SHA256:
		return ECDSAWithSHA256`, New: `	case pbcrypto.SignatureAlgorithm_SIGNATURE_ALGORITHM_ECDSA_WITH_SHA256,
		pbcrypto.SignatureAlgorithm_SIGNATURE_ALGORITHM_UNSPECIFIED:
		return ECDSAWithSHA256`, Expect: "A1-algorithm-tables-are-inverse"},
		Mutant{Prop: "C38", Name: "sha512-written-as-sha384-on-the-wire", File: "pkg/scrypto/signed/algo.go",
			Old: `	case ECDSAWithSHA512:
		return pbcrypto.SignatureAlgorithm_SIGNATURE_ALGORITHM_ECDSA_WITH_SHA512`, New: `	case ECDSAWithSHA512:
		return pbcrypto.SignatureAlgorithm_SIGNATURE_ALGORITHM_ECDSA_WITH_SHA384`, Expect: "A1-algorithm-tables-are-inverse"},
	)
	r := registry["C38"]
	old := r.Run
	r.Run = func(c *Ctx) { c38AlgorithmTables(c, "A1-algorithm-tables-are-inverse"); old(c) }
}

func c38AlgorithmTables(c *Ctx, rule string) {
	num := func(q string) (uint64, bool) {
		s := c.Const(q)
		if i := strings.Index(s, ":"); i >= 0 {
			s = s[:i]
		}
		n, err := strconv.ParseUint(s, 10, 64)
		return n, err == nil
	}
	type pair struct{ wire, goV uint64 }
	var algos []pair
	for _, a := range []string{"SHA256", "SHA384", "SHA512"} {
		w, ok1 := num("pkg/proto/crypto.SignatureAlgorithm_SIGNATURE_ALGORITHM_ECDSA_WITH_" + a)
		g, ok2 := num("pkg/scrypto/signed.ECDSAWith" + a)
		if !ok1 || !ok2 {
			return
		}
		algos = append(algos, pair{w, g})
	}
	unspec, _ := num("pkg/proto/crypto.SignatureAlgorithm_SIGNATURE_ALGORITHM_UNSPECIFIED")
	unknown, _ := num("pkg/scrypto/signed.UnknownSignatureAlgorithm")
	check := func(q string, dom func(pair) uint64, img func(pair) uint64, other uint64) {
		v := c.View(q)
		if v == nil {
			return
		}
		fn := v.Fn
		if len(fn.Params) != 1 {
			c.Unknown(rule, v.Name()+":shape", fn.Pos(), "not a one-parameter function")
			return
		}
		// the parameter is only compared with constants, and only with the supported values
		want := map[uint64]bool{}
		for _, a := range algos {
			want[dom(a)] = true
		}
		okUse := true
		seen := map[uint64]bool{}
		if refs := fn.Params[0].Referrers(); refs != nil {
			for _, r := range *refs {
				b, isB := r.(*ssa.BinOp)
				if !isB || (b.Op != token.EQL && b.Op != token.NEQ) {
					if _, isDbg := r.(*ssa.DebugRef); isDbg {
						continue
					}
					okUse = false
					continue
				}
				other := b.Y
				if other == ssa.Value(fn.Params[0]) {
					other = b.X
				}
				k, isK := constInt(other)
				if !isK {
					okUse = false
					continue
				}
				seen[uint64(k)] = true
			}
		}
		missing := 0
		for k := range want {
			if !seen[k] {
				missing++
			}
		}
		c.Check(okUse && missing == 0, rule, v.Name()+":parameter-only-compared-with-constants", fn.Pos(), fmt.Sprintf(
			"the parameter is compared with %d constant(s), %d of the supported values among them are missing", len(seen), missing))
		// the image: every constant the function distinguishes, 0, and one value it cannot distinguish
		outside := uint64(97)
		for seen[outside] {
			outside++
		}
		pts := map[uint64]uint64{0: other, outside: other}
		for k := range seen {
			pts[k] = other
		}
		for _, a := range algos {
			pts[dom(a)] = img(a)
		}
		for in, wantOut := range pts {
			got, ok := foldAt(fn, in)
			if !ok {
				c.Unknown(rule, fmt.Sprintf("%s:at-%d", v.Name(), in), fn.Pos(), "not foldable")
				continue
			}
			c.Check(got == wantOut, rule, fmt.Sprintf("%s:at-%d", v.Name(), in), fn.Pos(), fmt.Sprintf("maps %d to %d, specified %d", in, got, wantOut))
		}
	}
	check("pkg/scrypto/signed.signatureAlgorithmFromPB", func(p pair) uint64 { return p.wire }, func(p pair) uint64 { return p.goV }, unknown)
	check("(pkg/scrypto/signed.SignatureAlgorithm).toPB", func(p pair) uint64 { return p.goV }, func(p pair) uint64 { return p.wire }, unspec)
}
