package main

import (
	"fmt"
	"strings"

	"golang.org/x/tools/go/ssa"
)

func init() {
	register(&PropRule{
		ID:    "C26",
		Roots: []string{"./control/beacon"},
		Explain: "Decides the decision structure of the beacon selection. (S1) baseAlgo.SelectBeacons returns: the " +
			"candidates themselves exactly when len <= k; nothing for k <= 0; otherwise append(R, x) where R is a " +
			"fresh slice of length k-1 filled by copy from candidates[:k-1] and x is either the result of " +
			"selectMostDiverse over ALL remaining candidates (candidates[k-1:]) - returned only behind " +
			"diversityRest > diversity - or candidates[k-1], returned only behind the negation of that very " +
			"comparison; both diversity scans are relative to candidates[0], and 'diversity' is the scan over " +
			"R. Every index, slice and make in the function is behind len > k and k > 0 (no panic for any k, " +
			"which was the defect fixed in 1de6c10). (S2) selectMostDiverse replaces its running triple " +
			"(beacon, diversity, length) exactly when diversity > max or (diversity == max and length < " +
			"minLen), replaces all three together with the values of the same element, starts from (-1, max " +
			"uint16, zero), visits every element and returns (zero, -1) for an empty list. NOT decided: " +
			"Beacon.Diversity itself, ordering of the candidates by length (done by the store's query).",
		Run: runC26,
	})
	setClaim("C26", claim{
		Text: "Return shapes of SelectBeacons with their guards, coverage of the two diversity scans, panic guards, " +
			"replace condition and triple consistency of selectMostDiverse.",
		Note: claimNote, Technique: "static analysis: guard dominance per return shape, call-argument pairing, phi-edge " +
			"structure of the running maximum",
		Ref: "DESIGN.md §4 C26"})
	sf := "control/beacon/selection_algo.go"
	addMutants(
		Mutant{Prop: "C26", Name: "rest-scan-skips-first", File: sf,
			Old: `	mostDiverseRest, diversityRest := a.selectMostDiverse(beacons[resultSize-1:], best)`,
			New: `	mostDiverseRest, diversityRest := a.selectMostDiverse(beacons[resultSize:], best)`, Expect: "S1-select"},
		Mutant{Prop: "C26", Name: "diverse-also-on-tie", File: sf,
			Old: `	if diversityRest > diversity {`, New: `	if diversityRest >= diversity {`, Expect: "S1-select"},
		Mutant{Prop: "C26", Name: "reference-is-last-selected", File: sf,
			Old: `	best := beacons[0]`, New: `	best := beacons[resultSize-1]`, Expect: "S1-select"},
		Mutant{Prop: "C26", Name: "single-beacon-guard-removed", File: sf,
			Old: `	if resultSize <= 0 {
		return nil
	}`, New: ``, Expect: "S1-select"},
		Mutant{Prop: "C26", Name: "tie-prefers-longer", File: sf,
			Old: `		if diversity > maxDiversity || (diversity == maxDiversity && minLen > l) {`,
			New: `		if diversity > maxDiversity || (diversity == maxDiversity && minLen < l) {`, Expect: "S2-most-diverse"},
		Mutant{Prop: "C26", Name: "length-not-updated", File: sf,
			Old: `			diverse, minLen, maxDiversity = b, l, diversity`,
			New: `			diverse, maxDiversity = b, diversity`, Expect: "S2-most-diverse"},
		Mutant{Prop: "C26", Name: "early-fallback-by-bound", File: sf,
			Old: `	// Check if we find a more diverse beacon in the rest.
	mostDiverseRest, diversityRest := a.selectMostDiverse(beacons[resultSize-1:], best)
	if diversityRest > diversity {
		return append(result, mostDiverseRest)
	}`, New: `	if diversity < len(best.Segment.ASEntries)-1 {
		// Check if we find a more diverse beacon in the rest.
		mostDiverseRest, diversityRest := a.selectMostDiverse(beacons[resultSize-1:], best)
		if diversityRest > diversity {
			return append(result, mostDiverseRest)
		}
	}`, Expect: "S1-select"},
	)
}

func runC26(c *Ctx) {
	c26Diversity(c)
	aT := "(control/beacon.baseAlgo)"
	if v := c.View(aT + ".SelectBeacons"); v != nil {
		rule := "S1-select"
		fn := v.Fn
		e := NewE1(c, fn)
		R := "make:[]control/beacon.Beacon((arg2 - 1))"
		smd := aT + ".selectMostDiverse(recv, "
		div := smd + R + ", arg1[0])#1"
		rest := smd + "arg1[(arg2 - 1):], arg1[0])"
		moreThanK := e.AtomGuard("len>k", "+lt(arg2, builtin:len(arg1))")
		kPos := e.AtomGuard("k>0", "+lt(0, arg2)")
		shapes := map[string]int{}
		for _, b := range fn.Blocks {
			r, ok := b.Instrs[len(b.Instrs)-1].(*ssa.Return)
			if !ok {
				continue
			}
			rv := RetVal(r, 0)
			s := v.S.Sym(rv)
			switch {
			case s == "arg1":
				shapes["all"]++
				e.Require(rule, "all-candidates", nil, []ssa.Instruction{r}, e.AtomGuard("len<=k", "-lt(arg2, builtin:len(arg1))"))
			case s == "nil":
				shapes["none"]++
				e.Require(rule, "nothing", nil, []ssa.Instruction{r}, e.AtomGuard("k<=0", "-lt(0, arg2)"))
			default:
				call, isCall := rv.(*ssa.Call)
				if !isCall || calleeName(call.Common()) != "builtin:append" || v.S.Sym(call.Common().Args[0]) != R {
					c.Fail(rule, v.Name()+":return-shape", r.Pos(), "returns "+short(s)+"; required append(<k-1 first>, <one candidate>)")
					continue
				}
				els := appendedElems(call)
				if len(els) != 1 {
					c.Fail(rule, v.Name()+":return-shape", r.Pos(), fmt.Sprintf("appends %d elements", len(els)))
					continue
				}
				switch el := v.S.Sym(els[0]); el {
				case rest + "#0":
					shapes["most-diverse"]++
					e.Require(rule, "most-diverse-of-the-rest", nil, []ssa.Instruction{r}, moreThanK, kPos,
						e.AtomGuard("diversityRest>diversity", "+lt("+div+", "+rest+"#1)"))
				case "arg1[(arg2 - 1)]":
					shapes["first-of-the-rest"]++
					e.Require(rule, "first-of-the-rest", nil, []ssa.Instruction{r}, moreThanK, kPos,
						e.AtomGuard("!(diversityRest>diversity)", "-lt("+div+", "+rest+"#1)"))
				default:
					c.Fail(rule, v.Name()+":return-shape", r.Pos(), "appends "+short(el)+
						"; required the most diverse of candidates[k-1:] relative to candidates[0], or candidates[k-1]")
				}
			}
		}
		c.Check(shapes["all"] == 1 && shapes["most-diverse"] == 1 && shapes["first-of-the-rest"] == 1, rule,
			v.Name()+":return-shapes", fn.Pos(), fmt.Sprintf("return shapes %v", shapes))
		v.RequireCallArgs(rule, 1, "builtin:copy", R, "arg1[:(arg2 - 1)]")
		v.RequireCallArgs(rule, 2, aT+".selectMostDiverse", "recv", "", "arg1[0]")
		// nothing in the function can panic on the sizes
		var sites []ssa.Instruction
		for _, b := range fn.Blocks {
			for _, in := range b.Instrs {
				switch in.(type) {
				case *ssa.IndexAddr, *ssa.Index, *ssa.Slice, *ssa.MakeSlice:
					if al, ok := rootOf(in.(ssa.Value)).(*ssa.Alloc); ok && strings.Contains(al.Comment, "varargs") {
						continue
					}
					if sl, ok := in.(*ssa.Slice); ok {
						if al, ok := sl.X.(*ssa.Alloc); ok && strings.Contains(al.Comment, "varargs") {
							continue
						}
					}
					sites = append(sites, in)
				}
			}
		}
		c.Min("SelectBeacons:index/slice/make-sites", len(sites), 5)
		e.Require(rule, "size-dependent-accesses", nil, sites, moreThanK, kPos)
	}
	if v := c.View(aT + ".selectMostDiverse"); v != nil {
		rule := "S2-most-diverse"
		fn := v.Fn
		e := NewE1(c, fn)
		elem := "arg0[(phi(-1 | …) + 1)]"
		dv := "(control/beacon.Beacon).Diversity(arg1, " + elem + ")"
		ln := "builtin:len(" + elem + ".Segment.ASEntries)"
		// the three running values
		var maxPhi, lenPhi, beaconPhi *ssa.Phi
		for _, b := range fn.Blocks {
			for _, in := range b.Instrs {
				phi, ok := in.(*ssa.Phi)
				if !ok || !cyclic(b) {
					continue
				}
				var edges []string
				for _, ed := range phi.Edges {
					if ed != ssa.Value(phi) {
						edges = append(edges, v.S.Sym(ed))
					}
				}
				has := func(x string) bool {
					for _, ed := range edges {
						if ed == x {
							return true
						}
					}
					return false
				}
				switch {
				case has(dv) && has("-1"):
					maxPhi = phi
				case has(ln) && (has("65535") || has("math.MaxUint16")):
					lenPhi = phi
				case has(elem) && has("zero:control/beacon.Beacon"):
					beaconPhi = phi
				}
			}
		}
		if maxPhi == nil || lenPhi == nil || beaconPhi == nil {
			c.Fail(rule, v.Name()+":running-triple", fn.Pos(), fmt.Sprintf(
				"running (beacon, diversity, length) not found with the initial values (zero, -1, 65535): %v %v %v",
				beaconPhi != nil, maxPhi != nil, lenPhi != nil))
			return
		}
		// all three are replaced on the same edges
		upd := map[*ssa.BasicBlock]int{}
		for _, phi := range []*ssa.Phi{maxPhi, lenPhi, beaconPhi} {
			for i, ed := range phi.Edges {
				s := v.S.Sym(ed)
				if ed != ssa.Value(phi) && s != "-1" && s != "65535" && s != "zero:control/beacon.Beacon" {
					upd[phi.Block().Preds[i]]++
				}
			}
		}
		okTriple := len(upd) >= 1
		var updBlocks []ssa.Instruction
		for b, n := range upd {
			okTriple = okTriple && n == 3
			updBlocks = append(updBlocks, b.Instrs[0])
		}
		c.Check(okTriple, rule, v.Name()+":triple-replaced-together", fn.Pos(), fmt.Sprintf(
			"beacon, diversity and length are replaced on the same %d edge(s), from the same element", len(upd)))
		maxS, lenS := v.S.Sym(maxPhi), v.S.Sym(lenPhi)
		gt := "+lt(" + maxS + ", " + dv + ")"
		eq1, eq2 := "+eq("+dv+", "+maxS+")", "+eq("+maxS+", "+dv+")"
		shorter := "+lt(" + ln + ", " + lenS + ")"
		e.Require(rule, "replace-condition", nil, updBlocks,
			Or("diversity>max or diversity==max", e.AtomGuard("gt", gt), e.AtomGuard("eq", eq1, eq2)),
			Or("diversity>max or shorter", e.AtomGuard("gt", gt), e.AtomGuard("shorter", shorter)))
		// the true edges lead straight to the replacement
		okTaken := 0
		for _, b := range fn.Blocks {
			for i := range b.Succs {
				lits, _ := edgeLits(b, i, nil)
				for _, l := range lits {
					ls := l.String(v.S)
					if ls == gt || ls == shorter {
						if upd[b.Succs[i]] == 3 || (len(b.Succs[i].Instrs) > 0 && upd[b.Succs[i]] > 0) {
							okTaken++
						} else {
							c.Fail(rule, v.Name()+":replacement-not-taken", b.Instrs[len(b.Instrs)-1].Pos(), "the edge "+short(ls)+" does not lead to the replacement")
						}
					}
				}
			}
		}
		c.Check(okTaken == 2, rule, v.Name()+":replacement-taken", fn.Pos(), fmt.Sprintf("%d of 2 deciding edges lead to the replacement", okTaken))
		// results
		okRet, n := true, 0
		for _, r := range e.AllReturns() {
			ret := r.(*ssa.Return)
			n++
			a, b := v.S.Sym(RetVal(ret, 0)), v.S.Sym(RetVal(ret, 1))
			if !((a == "zero:control/beacon.Beacon" && b == "-1") || (RetVal(ret, 0) == ssa.Value(beaconPhi) && RetVal(ret, 1) == ssa.Value(maxPhi))) {
				okRet = false
			}
		}
		c.Check(okRet && n == 2, rule, v.Name()+":results", fn.Pos(), "returns (zero, -1) for an empty list, otherwise the running (beacon, diversity)")
		e.Require(rule, "empty-list", nil, []ssa.Instruction{maxPhi}, e.AtomGuard("len!=0", "-eq(builtin:len(arg0), 0)"))
	}
}
