package main

import "golang.org/x/tools/go/ssa"

// cfgReach: to is reachable from from without entering avoid (nil: no restriction).
func cfgReach(from, to, avoid *ssa.BasicBlock) bool {
	if from == avoid {
		return false
	}
	seen := map[*ssa.BasicBlock]bool{from: true}
	work := []*ssa.BasicBlock{from}
	for len(work) > 0 {
		x := work[0]
		work = work[1:]
		if x == to {
			return true
		}
		for _, s := range x.Succs {
			if s != avoid && !seen[s] {
				seen[s] = true
				work = append(work, s)
			}
		}
	}
	return false
}

// naturalLoop: the blocks of the loop headed by h (h plus everything that reaches
// one of h's back-edge sources without passing h); nil if h heads no loop.
func naturalLoop(h *ssa.BasicBlock) map[*ssa.BasicBlock]bool {
	var stack []*ssa.BasicBlock
	for _, p := range h.Preds {
		if h.Dominates(p) {
			stack = append(stack, p)
		}
	}
	if len(stack) == 0 {
		return nil
	}
	body := map[*ssa.BasicBlock]bool{h: true}
	for len(stack) > 0 {
		x := stack[len(stack)-1]
		stack = stack[:len(stack)-1]
		if body[x] {
			continue
		}
		body[x] = true
		stack = append(stack, x.Preds...)
	}
	return body
}

// loopHeaderOf: the header of the innermost loop that contains b (nil if none).
func loopHeaderOf(b *ssa.BasicBlock) *ssa.BasicBlock {
	for h := b; h != nil; h = h.Idom() {
		if l := naturalLoop(h); l != nil && l[b] {
			return h
		}
	}
	return nil
}

// roundAvoiding: within the loop headed by h there is a way from h back to h that
// enters none of the avoid blocks and crosses no edge for which stop returns true.
func roundAvoiding(h *ssa.BasicBlock, avoid map[*ssa.BasicBlock]bool, stop func(b *ssa.BasicBlock, succ int) bool) bool {
	body := naturalLoop(h)
	if body == nil {
		return false
	}
	seen := map[*ssa.BasicBlock]bool{}
	work := []*ssa.BasicBlock{h}
	first := true
	for len(work) > 0 {
		x := work[0]
		work = work[1:]
		for i, s := range x.Succs {
			if !body[s] || avoid[s] || (stop != nil && stop(x, i)) {
				continue
			}
			if s == h {
				return true
			}
			if !seen[s] {
				seen[s] = true
				work = append(work, s)
			}
		}
		first = false
	}
	_ = first
	return false
}

// everyIterationPasses: b lies in a loop and every way round the innermost such
// loop goes through b - no iteration returns to the loop header having skipped b.
// Dominating branch literals do not see a skip that is guarded by a disjunction
// or conjunction (`if i == 0 && n > 1 { continue }`): b is then reached over two
// edges and neither condition dominates it. This is the path form of
// "unconditional within the loop". inLoop=false when b is in no loop.
func everyIterationPasses(b *ssa.BasicBlock) (passes, inLoop bool) {
	h := loopHeaderOf(b)
	if h == nil {
		return false, false
	}
	if h == b {
		return true, true
	}
	return !roundAvoiding(h, map[*ssa.BasicBlock]bool{b: true}, nil), true
}

// loopSkipsOnlyVia: the targets lie in a loop, and a way round that loop which
// avoids all target blocks must cross an edge carrying one of the allowed literals
// (the specified reasons for skipping an element). The converse of a guard rule:
// "what matches IS applied".
func loopSkipsOnlyVia(v *FnView, targets []*ssa.BasicBlock, allowed []string) (ok, inLoop bool) {
	if len(targets) == 0 {
		return false, false
	}
	h := loopHeaderOf(targets[0])
	if h == nil {
		return false, false
	}
	avoid := map[*ssa.BasicBlock]bool{}
	for _, t := range targets {
		avoid[t] = true
	}
	edgeAllowed := func(b *ssa.BasicBlock, i int) bool {
		if len(b.Succs) != 2 {
			return false
		}
		lits, _ := edgeLits(b, i, nil)
		for _, l := range lits {
			s := l.String(v.S)
			for _, a := range allowed {
				if wild(a, s) {
					return true
				}
			}
		}
		return false
	}
	return !roundAvoiding(h, avoid, edgeAllowed), true
}
