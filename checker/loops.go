package main

import "golang.org/x/tools/go/ssa"

// cfgReach: to is reachable from from without entering avoid (nil: no restriction).
func cfgReach(from, to, avoid *ssa.BasicBlock) bool {
	if from == avoid {
		return false
	}
	seen := map[*ssa.BasicBlock]bool{from: true}
	work := []*ssa.BasicBlock{from}
	for len(work) > 0 {
		x := work[0]
		work = work[1:]
		if x == to {
			return true
		}
		for _, s := range x.Succs {
			if s != avoid && !seen[s] {
				seen[s] = true
				work = append(work, s)
			}
		}
	}
	return false
}

// loopSkipsOnlyVia: target lies in a loop, and a way round that loop which avoids
// all target blocks must cross an edge carrying one of the allowed literals (the
// specified reasons for skipping an element). The converse of a guard rule:
// "what matches IS applied".
func loopSkipsOnlyVia(v *FnView, targets []*ssa.BasicBlock, allowed []string) (ok, inLoop bool) {
	if len(targets) == 0 {
		return false, false
	}
	h := loopHeaderOf(targets[0])
	if h == nil {
		return false, false
	}
	avoid := map[*ssa.BasicBlock]bool{}
	for _, t := range targets {
		avoid[t] = true
	}
	edgeAllowed := func(b *ssa.BasicBlock, i int) bool {
		if len(b.Succs) != 2 {
			return false
		}
		lits, _ := edgeLits(b, i, nil)
		for _, l := range lits {
			s := l.String(v.S)
			for _, a := range allowed {
				if wild(a, s) {
					return true
				}
			}
		}
		return false
	}
	for si, s := range h.Succs {
		if !h.Dominates(s) || !cfgReach(s, h, nil) || avoid[s] || edgeAllowed(h, si) {
			continue
		}
		seen := map[*ssa.BasicBlock]bool{s: true}
		work := []*ssa.BasicBlock{s}
		for len(work) > 0 {
			x := work[0]
			work = work[1:]
			for i, nx := range x.Succs {
				if avoid[nx] || edgeAllowed(x, i) {
					continue
				}
				if nx == h {
					return false, true
				}
				if !seen[nx] && h.Dominates(nx) {
					seen[nx] = true
					work = append(work, nx)
				}
			}
		}
	}
	return true, true
}

// loopHeaderOf: the innermost loop header whose loop contains b (nil if none).
func loopHeaderOf(b *ssa.BasicBlock) *ssa.BasicBlock {
	for h := b; h != nil; h = h.Idom() {
		for _, p := range h.Preds {
			if h.Dominates(p) && (h == b || cfgReach(b, h, nil)) {
				return h
			}
		}
	}
	return nil
}

// everyIterationPasses: b lies in a loop and every way round that loop goes
// through b - no iteration returns to the loop header having skipped b.
// Dominating branch literals do not see a skip that is guarded by a disjunction
// or conjunction (`if i == 0 && n > 1 { continue }`): b is then reached over two
// edges and neither condition dominates it. This is the path form of
// "unconditional within the loop". ok=false when b is in no loop.
func everyIterationPasses(b *ssa.BasicBlock) (passes, inLoop bool) {
	reach := cfgReach
	// innermost loop header: nearest dominator of b (or b itself) with a back edge, from which b is reachable and back
	for h := b; h != nil; h = h.Idom() {
		back := false
		for _, p := range h.Preds {
			if h.Dominates(p) {
				back = true
			}
		}
		if !back || !(h == b || reach(b, h, nil)) {
			continue
		}
		if h == b {
			return true, true
		}
		for _, s := range h.Succs {
			if !h.Dominates(s) || !reach(s, h, nil) {
				continue // loop exit
			}
			if reach(s, h, b) {
				return false, true
			}
		}
		return true, true
	}
	return false, false
}
