package main

import (
	"fmt"
	"go/types"
	"strings"

	"golang.org/x/tools/go/ssa"
)

// C48, the ring's one consumer in the gateway: pktRing reads the ring in batches
// of up to 32 entries into a private buffer and hands them out one by one. Entries
// that have left the ring but not yet the buffer are still "written and not yet
// read": a Close that empties the buffer loses them and reports closure before the
// remaining entries were returned (fifth-round seed: "release the references for
// the garbage collector" in Close).
//
// Rule W1: the batch buffer (pktRing.entries, pktRing.storage) is written only by
// (*pktRing).Read - stores, clear() and copy() alike; Read hands out entries[0]
// and keeps entries[1:]; Close does nothing but close the ring.
func init() {
	addMutants(
		Mutant{Prop: "C48", Name: "pktring-close-empties-the-batch-buffer", File: "gateway/dataplane/pktring.go",
			Old: `func (pr *pktRing) Close() {
	pr.ring.Close()`, New: `func (pr *pktRing) Close() {
	pr.ring.Close()
	pr.entries = pr.storage[:0]`, Expect: "W1-batch-buffer-owned-by-read"},
		Mutant{Prop: "C48", Name: "pktring-hands-out-the-newest-buffered-entry", File: "gateway/dataplane/pktring.go",
			Old: `	pkt := pr.entries[0].([]byte)
	pr.entries = pr.entries[1:]`, New: `	pkt := pr.entries[len(pr.entries)-1].([]byte)
	pr.entries = pr.entries[:len(pr.entries)-1]`, Expect: "W1-batch-buffer-owned-by-read"},
	)
	r := registry["C48"]
	old := r.Run
	r.Run = func(c *Ctx) { c48BatchBufferOwnedByRead(c, "W1-batch-buffer-owned-by-read"); old(c) }
	have := false
	for _, x := range r.Roots {
		have = have || x == "./gateway/dataplane"
	}
	if !have {
		r.Roots = append(r.Roots, "./gateway/dataplane")
	}
}

func c48BatchBufferOwnedByRead(c *Ctx, rule string) {
	rd := c.View("(*gateway/dataplane.pktRing).Read")
	if rd == nil {
		return
	}
	pkg := rd.Fn.Pkg
	// is v (an address or slice) inside pktRing.entries / pktRing.storage ?
	var member func(v ssa.Value, depth int) string
	member = func(v ssa.Value, depth int) string {
		if depth > 6 || v == nil {
			return ""
		}
		switch x := v.(type) {
		case *ssa.FieldAddr:
			if p, ok := x.X.Type().Underlying().(*types.Pointer); ok {
				if n, isN := p.Elem().(*types.Named); isN && n.Obj().Name() == "pktRing" && n.Obj().Pkg() == pkg.Pkg {
					f := fieldName(x.X.Type(), x.Field)
					if f == "entries" || f == "storage" {
						return f
					}
				}
			}
			return member(x.X, depth+1)
		case *ssa.IndexAddr:
			return member(x.X, depth+1)
		case *ssa.Slice:
			return member(x.X, depth+1)
		case *ssa.UnOp:
			return member(x.X, depth+1)
		}
		return ""
	}
	writers := map[string][]string{}
	n := 0
	for fn := range c.Prog.AllFuncs() {
		if fn.Pkg != pkg || fn.Blocks == nil {
			continue
		}
		for _, b := range fn.Blocks {
			for _, in := range b.Instrs {
				what := ""
				switch x := in.(type) {
				case *ssa.Store:
					if m := member(x.Addr, 0); m != "" {
						what = "store into " + m
					}
				case *ssa.Call:
					name := calleeName(x.Common())
					if name == "builtin:clear" || name == "builtin:copy" {
						if m := member(x.Common().Args[0], 0); m != "" {
							what = strings.TrimPrefix(name, "builtin:") + "() on " + m
						}
					}
				}
				if what != "" {
					n++
					writers[FuncName(fn)] = append(writers[FuncName(fn)], what+" at "+c.Prog.Pos(in.Pos()))
				}
			}
		}
	}
	c.Min("pktring-buffer-writes", n, 4)
	for fn, ws := range writers {
		ok := fn == rd.Name() || strings.HasSuffix(fn, ".newPktRing")
		c.Check(ok, rule, fn+":writes-the-batch-buffer", rd.Fn.Pos(), fmt.Sprintf("%v; only (*pktRing).Read may write the batch buffer", ws))
	}
	c.Check(len(writers[rd.Name()]) >= 4, rule, rd.Name()+":refills-and-advances", rd.Fn.Pos(), fmt.Sprintf("%d writes of the buffer in Read", len(writers[rd.Name()])))
	// Read hands out the oldest buffered entry and keeps the rest
	okRet, okAdv := false, false
	for _, b := range rd.Fn.Blocks {
		for _, in := range b.Instrs {
			switch x := in.(type) {
			case *ssa.Return:
				if len(x.Results) == 2 {
					if k, isK := constInt(x.Results[1]); isK && k == 1 {
						okRet = strings.Contains(rd.S.Sym(x.Results[0]), "recv.entries[0]")
					}
				}
			case *ssa.Store:
				if rd.S.Sym(x.Addr) == "recv.entries" && rd.S.Sym(x.Val) == "recv.entries[1:]" {
					okAdv = true
				}
			}
		}
	}
	c.Check(okRet && okAdv, rule, rd.Name()+":oldest-first", rd.Fn.Pos(), fmt.Sprintf(
		"the successful return hands out entries[0] (%v) and entries becomes entries[1:] (%v)", okRet, okAdv))
}
