package main

// C36 / C24, the verification key id is written by Signer.Sign and read back by
// Verifier.Verify; the two sides must agree member for member:
//
//	Sign:    IsdAs <- signer IA, TrcBase <- TRCID.Base, TrcSerial <- TRCID.Serial,
//	         SubjectKeyId <- SubjectKeyID
//	Verify:  TRC id {ISD <- IsdAs.ISD(), Base <- TrcBase, Serial <- TrcSerial},
//	         chain query {IA <- IsdAs, SubjectKeyID <- SubjectKeyId}
//
// With base and serial crossed nothing changes while the ISD still runs on its
// base TRC (base == serial); after the first TRC update every signature made by a
// generated signer fails to verify (the verifier asks for a TRC that cannot exist).
func init() {
	for _, p := range []string{"C36", "C24"} {
		addMutants(
			Mutant{Prop: p, Name: "keyid-base-serial-crossed-in-verify", File: "private/trust/verifier.go",
				Old: `		Base:   scrypto.Version(keyID.TrcBase),   // nolint - name from published protobuf
		Serial: scrypto.Version(keyID.TrcSerial), // nolint - name from published protobuf`,
				New: `		Base:   scrypto.Version(keyID.TrcSerial), // nolint - name from published protobuf
		Serial: scrypto.Version(keyID.TrcBase),   // nolint - name from published protobuf`,
				Expect: "K1-key-id-agreement"},
		)
	}
}

func keyIDAgreement(c *Ctx, rule string) {
	if v := c.View("(private/trust.Signer).Sign"); v != nil {
		v.RequireStore(rule, 1, "local:complit.IsdAs", "recv.IA", "uint64(recv.IA)")
		v.RequireStore(rule, 1, "local:complit.TrcBase", "recv.TRCID.Base", "uint64(recv.TRCID.Base)")
		v.RequireStore(rule, 1, "local:complit.TrcSerial", "recv.TRCID.Serial", "uint64(recv.TRCID.Serial)")
		v.RequireStore(rule, 1, "local:complit.SubjectKeyId", "recv.SubjectKeyID")
	}
	if v := c.View("(private/trust.Verifier).Verify"); v != nil {
		v.RequireStore(rule, 1, "local:complit.ISD", "(pkg/addr.IA).ISD(local:keyID.IsdAs)")
		v.RequireStore(rule, 1, "local:complit.Base", "local:keyID.TrcBase", "pkg/scrypto.Version(local:keyID.TrcBase)")
		v.RequireStore(rule, 1, "local:complit.Serial", "local:keyID.TrcSerial", "pkg/scrypto.Version(local:keyID.TrcSerial)")
		v.RequireStore(rule, 1, "local:complit.IA", "local:keyID.IsdAs", "pkg/addr.IA(local:keyID.IsdAs)")
		v.RequireStore(rule, 1, "local:complit.SubjectKeyID", "local:keyID.SubjectKeyId")
	}
}
