package main

import (
	"bufio"
	"bytes"
	"encoding/json"
	"fmt"
	"os"
	"path/filepath"
	"go/constant"
	"go/token"
	"go/types"
	"os/exec"
	"regexp"
	"sort"
	"strconv"
	"strings"

	"golang.org/x/tools/go/ssa"
)

// E8 — run-time panic obligations of a call-graph closure.
//
// Every instruction that can panic on attacker-controlled data is an obligation:
// index and slice expressions, type assertions without comma-ok, integer
// division, explicit panic calls. An obligation is discharged
//   (a) by the Go compiler's own prove pass: the position is absent from the
//       unproven-bounds-check list of `go build -gcflags=-d=ssa/check_bce` (run on
//       the current tree on every check), or
//   (b) by a length fact that dominates the instruction: a branch edge comparing
//       len(X) with a constant or with the very index / bound used (matched by
//       SSA identity or by identical symbolic rendering), also through constant
//       re-slicings of X, or
//   (c) by an entry of the audited table (function + rendered expression, with
//       the reason).
// What remains is reported.

type BoundSite struct {
	Fn   *ssa.Function
	In   ssa.Instruction
	Kind string // index | slice | assert | div | panic
	Expr string
	How  string // "" = undischarged
}

var bceLine = regexp.MustCompile(`^(?:\./)?([^:]+):(\d+):(\d+): Found (IsInBounds|IsSliceInBounds)`)

// compilerUnproven runs the compiler's bounds-check report over pkgs and returns
// the set of "file:line" with at least one unproven check.
// activeOverlay is the mutant under self-test (file -> contents); the compiler
// report must see the same sources as the loader.
var activeOverlay map[string][]byte

func compilerUnproven(pkgs []string) (map[string]bool, int, error) {
	args := []string{"build", "-gcflags=-d=ssa/check_bce/debug=1"}
	if len(activeOverlay) > 0 {
		dir, err := os.MkdirTemp("", "scionvet-overlay")
		if err != nil {
			return nil, 0, err
		}
		defer os.RemoveAll(dir)
		repl := map[string]string{}
		i := 0
		for abs, src := range activeOverlay {
			tmp := filepath.Join(dir, fmt.Sprintf("f%d.go", i))
			i++
			if err := os.WriteFile(tmp, src, 0o644); err != nil {
				return nil, 0, err
			}
			repl[abs] = tmp
		}
		js, _ := json.Marshal(map[string]any{"Replace": repl})
		ovf := filepath.Join(dir, "overlay.json")
		if err := os.WriteFile(ovf, js, 0o644); err != nil {
			return nil, 0, err
		}
		args = append(args, "-overlay="+ovf)
	}
	args = append(args, pkgs...)
	cmd := exec.Command("go", args...)
	cmd.Dir = repoDir
	cmd.Env = loaderEnv(nil)
	var out bytes.Buffer
	cmd.Stdout = &out
	cmd.Stderr = &out
	err := cmd.Run()
	set := map[string]bool{}
	n := 0
	sc := bufio.NewScanner(&out)
	sc.Buffer(make([]byte, 1<<20), 1<<24)
	for sc.Scan() {
		m := bceLine.FindStringSubmatch(sc.Text())
		if m == nil {
			continue
		}
		set[m[1]+":"+m[2]] = true
		n++
	}
	if err != nil && n == 0 {
		return nil, 0, fmt.Errorf("go build for the bounds-check report failed: %v: %s", err, lastLines(out.String(), 5))
	}
	return set, n, nil
}

type boundsCtx struct {
	c        *Ctx
	unproven map[string]bool
	syms     map[*ssa.Function]*Symer
}

func (bc *boundsCtx) sym(fn *ssa.Function) *Symer {
	if bc.syms[fn] == nil {
		bc.syms[fn] = NewSymer()
	}
	return bc.syms[fn]
}

// dominatingLits: the branch literals that hold whenever block b executes.
func dominatingLits(b *ssa.BasicBlock) []Lit {
	var out []Lit
	cur := b
	for p := cur.Idom(); p != nil; cur, p = p, p.Idom() {
		if len(p.Succs) != 2 || p.Succs[0] == p.Succs[1] {
			continue
		}
		for i, s := range p.Succs {
			if len(s.Preds) == 1 && (s == cur || s.Dominates(b)) {
				lits, feas := edgeLits(p, i, nil)
				if feas {
					out = append(out, lits...)
				}
			}
		}
	}
	return out
}

func lenArg(v ssa.Value) ssa.Value {
	v = stripConv(v)
	if c, ok := v.(*ssa.Call); ok && calleeName(c.Common()) == "builtin:len" {
		return c.Common().Args[0]
	}
	return nil
}

func sameVal(s *Symer, a, b ssa.Value) bool {
	if a == b {
		return true
	}
	a, b = stripConv(a), stripConv(b)
	if a == b {
		return true
	}
	sa, sb := s.Sym(a), s.Sym(b)
	return sa == sb && !strings.Contains(sa, "…") && !strings.HasPrefix(sa, "phi(") && sa != ""
}

// atLeast: do the literals establish len(x) >= n (n constant)?
func (bc *boundsCtx) atLeast(s *Symer, lits []Lit, x ssa.Value, n int64, depth int) bool {
	if n <= 0 {
		return true
	}
	if depth > 6 {
		return false
	}
	x = stripConv(x)
	// static lengths
	switch t := x.Type().Underlying().(type) {
	case *types.Array:
		return t.Len() >= n
	case *types.Pointer:
		if a, ok := t.Elem().Underlying().(*types.Array); ok {
			return a.Len() >= n
		}
	}
	switch y := x.(type) {
	case *ssa.Phi:
		// every incoming value satisfies the bound under the facts of its own edge
		ok := len(y.Edges) > 0
		for i, e := range y.Edges {
			if e == ssa.Value(y) {
				continue
			}
			pred := y.Block().Preds[i]
			el := append([]Lit{}, dominatingLits(pred)...)
			for si, sb := range pred.Succs {
				if sb == y.Block() && len(pred.Succs) == 2 && pred.Succs[0] != pred.Succs[1] {
					if l2, feas := edgeLits(pred, si, nil); feas {
						el = append(el, l2...)
					}
				}
			}
			if !bc.atLeast(s, el, e, n, depth+1) {
				ok = false
				break
			}
		}
		if ok {
			return true
		}
	case *ssa.Slice:
		// x[lo:hi] with symbolic bounds has hi - lo elements: lo + n <= hi from the
		// tested facts (loop condition offset < ActualLen gives at least one byte)
		if y.High != nil && y.Max == nil {
			if _, isK := foldInt(y.High); !isK {
				lof := linForm{ok: true}
				if y.Low != nil {
					lof = bc.linear(s, y.Low, nil, 2)
				}
				lof.k += n
				if bc.leqWithFacts(s, lits, lof, bc.linear(s, y.High, nil, 2)) {
					return true
				}
			}
		}
		lo := int64(0)
		if y.Low != nil {
			k, ok := foldInt(y.Low)
			if !ok {
				return false
			}
			lo = k
		}
		if y.High != nil {
			if hi, ok := foldInt(y.High); ok {
				return hi-lo >= n
			}
			return false
		}
		return bc.atLeast(s, lits, y.X, lo+n, depth+1)
	case *ssa.MakeSlice:
		if k, ok := foldInt(y.Len); ok {
			return k >= n
		}
	case *ssa.Extract:
		// b, err := buf.PrependBytes(k): len(b) == k (contract of gopacket.SerializeBuffer)
		if k, ok := reservedLen(y); ok {
			if kk, isK := foldInt(k); isK {
				return kk >= n
			}
		}
	case *ssa.Const:
		if y.Value != nil && y.Value.Kind() == constant.String {
			return int64(len(constant.StringVal(y.Value))) >= n
		}
	case *ssa.UnOp:
		// a local slice variable assigned once
		if al, ok := y.X.(*ssa.Alloc); ok && y.Op == token.MUL && al.Referrers() != nil {
			var only ssa.Value
			cnt := 0
			for _, r := range *al.Referrers() {
				if st, ok := r.(*ssa.Store); ok && st.Addr == al {
					only = st.Val
					cnt++
				}
			}
			if cnt == 1 && bc.atLeast(s, lits, only, n, depth+1) {
				return true
			}
		}
	}
	for _, l := range lits {
		switch l.Kind {
		case "lt":
			// !(len(x) < N)  =>  len(x) >= N
			if !l.Pos {
				if a := lenArg(l.X); a != nil && sameVal(s, a, x) {
					if k, ok := foldInt(l.Y); ok && k >= n {
						return true
					}
				}
			} else {
				// K < len(x)  =>  len(x) >= K+1
				if a := lenArg(l.Y); a != nil && sameVal(s, a, x) {
					if k, ok := foldInt(l.X); ok && k+1 >= n {
						return true
					}
				}
			}
		case "eq":
			if l.Pos {
				if a := lenArg(l.X); a != nil && sameVal(s, a, x) {
					if k, ok := foldInt(l.Y); ok && k >= n {
						return true
					}
				}
			}
		}
	}
	return false
}

// below: do the literals establish i < len(x)  (strict=true)  or  i <= len(x)?
func (bc *boundsCtx) below(s *Symer, lits []Lit, i, x ssa.Value, strict bool) bool {
	if ex, ok := stripConv(x).(*ssa.Extract); ok && !strict {
		if k, ok := reservedLen(ex); ok && sameVal(s, k, i) {
			return true
		}
	}
	for _, l := range lits {
		if l.Kind != "lt" {
			continue
		}
		if l.Pos {
			// i < len(x)
			if a := lenArg(l.Y); a != nil && sameVal(s, a, x) && sameVal(s, l.X, i) {
				return true
			}
		} else if !strict {
			// !(len(x) < i)  =>  i <= len(x);  also for a tested value P >= i
			if a := lenArg(l.X); a != nil && sameVal(s, a, x) && (sameVal(s, l.Y, i) || geqValue(s, l.Y, i)) {
				return true
			}
		}
	}
	return false
}

// geqValue: p >= i by construction, in 64-bit arithmetic that cannot overflow:
// p = i + k (k >= 0) or p = (i + k) &^ k with k = 2^n - 1 (rounding up), where i
// is a length or was widened from an unsigned type of at most 32 bits.
func geqValue(s *Symer, p, i ssa.Value) bool {
	bo, ok := p.(*ssa.BinOp)
	if !ok || !isWideInt(bo.Type()) {
		return false
	}
	switch bo.Op {
	case token.AND_NOT:
		k, isK := foldInt(bo.Y)
		add, isAdd := bo.X.(*ssa.BinOp)
		if isK && k > 0 && k&(k+1) == 0 && isAdd && add.Op == token.ADD && isWideInt(add.Type()) {
			if k2, ok := foldInt(add.Y); ok && k2 == k && sameVal(s, add.X, i) && smallNonNegative(add.X) {
				return true
			}
		}
	case token.ADD:
		if k, ok := foldInt(bo.Y); ok && k >= 0 && k < 1<<32 && sameVal(s, bo.X, i) && smallNonNegative(bo.X) {
			return true
		}
	}
	return false
}

func isWideInt(t types.Type) bool {
	b, ok := t.Underlying().(*types.Basic)
	if !ok {
		return false
	}
	switch b.Kind() {
	case types.Int, types.Int64, types.Uint, types.Uint64:
		return true
	}
	return false
}

// smallNonNegative: v is in [0, 2^32): a length, or a widening of an unsigned
// value of at most 32 bits.
func smallNonNegative(v ssa.Value) bool {
	if lenArg(v) != nil {
		return true
	}
	cv, ok := v.(*ssa.Convert)
	if !ok {
		return false
	}
	b, ok := cv.X.Type().Underlying().(*types.Basic)
	if !ok {
		return false
	}
	switch b.Kind() {
	case types.Uint8, types.Uint16, types.Uint32:
		return isWideInt(cv.Type())
	}
	return false
}

// collect lists the obligations of fn.
func (bc *boundsCtx) collect(fn *ssa.Function) []BoundSite {
	var out []BoundSite
	s := bc.sym(fn)
	for _, b := range fn.Blocks {
		var lits []Lit
		got := false
		get := func() []Lit {
			if !got {
				lits, got = dominatingLits(b), true
			}
			return lits
		}
		for _, in := range b.Instrs {
			site := BoundSite{Fn: fn, In: in}
			switch x := in.(type) {
			case *ssa.IndexAddr:
				site.Kind, site.Expr = "index", s.Sym(x)
				site.How = bc.indexOK(s, get, x.X, x.Index, in)
			case *ssa.Index:
				site.Kind, site.Expr = "index", s.Sym(x)
				site.How = bc.indexOK(s, get, x.X, x.Index, in)
			case *ssa.Slice:
				site.Kind, site.Expr = "slice", s.Sym(x)
				site.How = bc.sliceOK(s, get, x)
			case *ssa.TypeAssert:
				if x.CommaOk {
					continue
				}
				site.Kind, site.Expr = "assert", s.Sym(x.X)+".("+typeShort(x.AssertedType)+")"
			case *ssa.BinOp:
				if x.Op != token.QUO && x.Op != token.REM {
					continue
				}
				if b, ok := x.X.Type().Underlying().(*types.Basic); !ok || b.Info()&types.IsInteger == 0 {
					continue
				}
				if k, ok := foldInt(x.Y); ok && k != 0 {
					continue
				}
				site.Kind, site.Expr = "div", s.Sym(x)
				for _, l := range get() {
					if l.Kind == "eq" && !l.Pos && sameVal(s, l.X, x.Y) && isZeroConst(l.Y) {
						site.How = "divisor tested against zero"
					}
					if l.Kind == "lt" && l.Pos && sameVal(s, l.Y, x.Y) {
						if k, ok := foldInt(l.X); ok && k >= 0 {
							site.How = "divisor tested positive"
						}
					}
				}
			case *ssa.Panic:
				site.Kind, site.Expr = "panic", s.Sym(x.X)
			default:
				continue
			}
			out = append(out, site)
		}
	}
	return out
}

func isZeroConst(v ssa.Value) bool {
	k, ok := foldInt(v)
	return ok && k == 0
}

func (bc *boundsCtx) unprovenAt(in ssa.Instruction) bool {
	pos := in.Pos()
	if !pos.IsValid() {
		return true
	}
	p := bc.c.Prog.Fset.Position(pos)
	f := strings.TrimPrefix(p.Filename, repoDir+"/")
	return bc.unproven[f+":"+strconv.Itoa(p.Line)]
}

func (bc *boundsCtx) indexOK(s *Symer, lits func() []Lit, x, idx ssa.Value, in ssa.Instruction) string {
	if _, isMap := x.Type().Underlying().(*types.Map); isMap {
		return "map lookup"
	}
	if k, ok := foldInt(idx); ok {
		if bc.atLeast(s, lits(), x, k+1, 0) {
			return fmt.Sprintf("len >= %d established", k+1)
		}
	} else if bc.below(s, lits(), idx, x, true) {
		return "index < len established"
	}
	if !bc.unprovenAt(in) {
		return "proved by the compiler"
	}
	return ""
}

func (bc *boundsCtx) sliceOK(s *Symer, lits func() []Lit, x *ssa.Slice) string {
	if x.Max != nil {
		if !bc.unprovenAt(x) {
			return "proved by the compiler"
		}
		return ""
	}
	loK, loConst := int64(0), true
	if x.Low != nil {
		loK, loConst = foldInt(x.Low)
	}
	okHi := false
	switch {
	case x.High == nil:
		// x[lo:]: lo <= len(x)
		if loConst {
			okHi = bc.atLeast(s, lits(), x.X, loK, 0)
		} else {
			okHi = bc.below(s, lits(), x.Low, x.X, false)
		}
		if okHi {
			return "low bound <= len established"
		}
	default:
		if hi, ok := foldInt(x.High); ok {
			okHi = bc.atLeast(s, lits(), x.X, hi, 0) && (!loConst || loK <= hi)
			if okHi && !loConst {
				okHi = false
			}
		} else {
			okHi = bc.below(s, lits(), x.High, x.X, false) && loConst && loK == 0
		}
		if okHi {
			return "high bound <= len established"
		}
	}
	if bc.linearWithin(s, lits(), x) {
		return "bounds are linear combinations covered by a tested length"
	}
	if !bc.unprovenAt(x) {
		return "proved by the compiler"
	}
	return ""
}

// ---- linear bounds ------------------------------------------------------
//
// x[lo:hi] is in range if a dominating test established len(x) >= E and, as
// linear combinations over the same symbolic terms, 0 <= lo <= hi <= E, where
// every term that does not cancel is known to be non-negative (a length, an
// unsigned value, or the result of a function that returns such a combination).
// A call to a function of the module that returns one arithmetic expression is
// replaced by that expression in the caller's terms (AddrHdrLen() = 16 +
// DstAddrType.Length() + SrcAddrType.Length()).

type linTerm struct {
	sym string
	v   ssa.Value
}

type linForm struct {
	k        int64
	pos, neg []linTerm
	ok       bool
}

func (bc *boundsCtx) linear(s *Symer, v ssa.Value, subst func(string) string, depth int) linForm {
	f := linForm{ok: true}
	var walk func(x ssa.Value, sign int64, s *Symer, subst func(string) string, depth int)
	walk = func(x ssa.Value, sign int64, s *Symer, subst func(string) string, depth int) {
		if c, ok := foldInt(x); ok {
			f.k += sign * c
			return
		}
		switch y := x.(type) {
		case *ssa.BinOp:
			switch y.Op {
			case token.ADD:
				walk(y.X, sign, s, subst, depth)
				walk(y.Y, sign, s, subst, depth)
				return
			case token.SUB:
				walk(y.X, sign, s, subst, depth)
				walk(y.Y, -sign, s, subst, depth)
				return
			}
		case *ssa.Convert:
			// a value-preserving integer conversion of an arithmetic expression
			if _, isBin := y.X.(*ssa.BinOp); isBin && valuePreservingConv(y) {
				walk(y.X, sign, s, subst, depth)
				return
			}
		case *ssa.Call:
			h := y.Common().StaticCallee()
			if depth > 0 && h != nil && h.Blocks != nil && inModule(h) && h.Signature.Results().Len() == 1 {
				var ret *ssa.Return
				n := 0
				for _, b := range h.Blocks {
					if r, ok := b.Instrs[len(b.Instrs)-1].(*ssa.Return); ok {
						ret = r
						n++
					}
				}
				if n == 1 && isArithmetic(ret.Results[0]) {
					hs := NewSymer()
					fr := &frame{fn: h, syms: hs, subst: map[string]string{}}
					for i, p := range h.Params {
						if i < len(y.Common().Args) {
							a := s.Sym(y.Common().Args[i])
							if subst != nil {
								a = subst(a)
							}
							fr.subst[hs.Sym(p)] = a
						}
					}
					walk(ret.Results[0], sign, hs, fr.resolve, depth-1)
					return
				}
			}
		}
		sym := s.Sym(x)
		if subst != nil {
			sym = subst(sym)
		}
		if phi, isPhi := x.(*ssa.Phi); isPhi && subst == nil {
			// a loop variable is an opaque term, identified by the SSA value itself
			sym = "φ:" + phi.Name()
		} else if strings.Contains(sym, "…") || strings.HasPrefix(sym, "phi(") || sym == "" {
			f.ok = false
		}
		if sign > 0 {
			f.pos = append(f.pos, linTerm{sym, x})
		} else {
			f.neg = append(f.neg, linTerm{sym, x})
		}
	}
	walk(v, 1, s, subst, depth)
	return f
}

// valuePreservingConv: integer to wider integer of the same signedness, or
// unsigned to a strictly wider signed integer.
func valuePreservingConv(cv *ssa.Convert) bool {
	src, ok1 := cv.X.Type().Underlying().(*types.Basic)
	dst, ok2 := cv.Type().Underlying().(*types.Basic)
	if !ok1 || !ok2 || src.Info()&types.IsInteger == 0 || dst.Info()&types.IsInteger == 0 {
		return false
	}
	size := func(b *types.Basic) int {
		switch b.Kind() {
		case types.Int8, types.Uint8:
			return 1
		case types.Int16, types.Uint16:
			return 2
		case types.Int32, types.Uint32:
			return 4
		}
		return 8
	}
	su, du := src.Info()&types.IsUnsigned != 0, dst.Info()&types.IsUnsigned != 0
	switch {
	case su == du:
		return size(dst) >= size(src)
	case su && !du:
		return size(dst) > size(src)
	}
	return false
}

// isArithmetic: the value is built from +, - and * (not a bare load or call).
func isArithmetic(v ssa.Value) bool {
	bo, ok := v.(*ssa.BinOp)
	return ok && (bo.Op == token.ADD || bo.Op == token.SUB || bo.Op == token.MUL)
}

// nonNegTerm: the value cannot be negative.
func nonNegTerm(v ssa.Value, depth int) bool {
	if depth < 0 {
		return false
	}
	if _, isPhi := v.(*ssa.Phi); !isPhi {
		if k, ok := foldInt(v); ok {
			return k >= 0
		}
	}
	if lenArg(v) != nil {
		return true
	}
	if b, ok := v.Type().Underlying().(*types.Basic); ok && b.Info()&types.IsUnsigned != 0 {
		return true
	}
	switch y := v.(type) {
	case *ssa.Convert:
		if b, ok := y.X.Type().Underlying().(*types.Basic); ok && b.Info()&types.IsUnsigned != 0 {
			switch b.Kind() {
			case types.Uint8, types.Uint16, types.Uint32:
				return isWideInt(y.Type())
			}
		}
		return false
	case *ssa.BinOp:
		switch y.Op {
		case token.ADD, token.MUL:
			return nonNegTerm(y.X, depth) && nonNegTerm(y.Y, depth)
		case token.AND:
			return nonNegTerm(y.X, depth) || nonNegTerm(y.Y, depth)
		case token.SHR:
			return nonNegTerm(y.X, depth)
		}
	case *ssa.Call:
		h := y.Common().StaticCallee()
		if depth <= 0 || h == nil || h.Blocks == nil || !inModule(h) {
			return false
		}
		n := 0
		for _, b := range h.Blocks {
			if r, ok := b.Instrs[len(b.Instrs)-1].(*ssa.Return); ok {
				n++
				if len(r.Results) != 1 || !nonNegTerm(r.Results[0], depth-1) {
					return false
				}
			}
		}
		return n > 0
	case *ssa.Phi:
		for _, e := range y.Edges {
			if e == ssa.Value(y) || !nonNegTerm(e, depth-1) {
				if e != ssa.Value(y) {
					return false
				}
			}
		}
		return depth > 0
	}
	return false
}

// linLeq: a <= b for linear forms, every non-cancelling term being non-negative.
func linLeq(a, b linForm) bool {
	if !a.ok || !b.ok {
		return false
	}
	// d = b - a
	k := b.k - a.k
	pos := append(append([]linTerm{}, b.pos...), a.neg...)
	neg := append(append([]linTerm{}, b.neg...), a.pos...)
	for i := 0; i < len(pos); i++ {
		for j := 0; j < len(neg); j++ {
			if pos[i].sym == neg[j].sym {
				pos = append(pos[:i], pos[i+1:]...)
				neg = append(neg[:j], neg[j+1:]...)
				i--
				break
			}
		}
	}
	if k < 0 || len(neg) > 0 {
		return false
	}
	for _, t := range pos {
		if !nonNegTerm(t.v, 3) {
			return false
		}
	}
	return true
}

// linFacts: the tested comparisons as non-negative linear forms:
// A < B gives B - A - 1 >= 0, !(A < B) gives A - B >= 0.
func (bc *boundsCtx) linFacts(s *Symer, lits []Lit) []linForm {
	var facts []linForm
	sub := func(a, b linForm, k int64) linForm {
		// a - b + k
		f := linForm{k: a.k - b.k + k, ok: a.ok && b.ok}
		f.pos = append(append([]linTerm{}, a.pos...), b.neg...)
		f.neg = append(append([]linTerm{}, a.neg...), b.pos...)
		return f
	}
	for _, l := range lits {
		if l.Kind != "lt" || l.X == nil || l.Y == nil {
			continue
		}
		a, b := bc.linear(s, l.X, nil, 2), bc.linear(s, l.Y, nil, 2)
		if l.Pos {
			facts = append(facts, sub(b, a, -1))
		} else {
			facts = append(facts, sub(a, b, 0))
		}
	}
	return facts
}

// leqFacts: a <= b, directly or after adding one tested non-negative form to a.
func leqFacts(facts []linForm, a, b linForm) bool {
	if linLeq(a, b) {
		return true
	}
	for _, f := range facts {
		af := linForm{k: a.k + f.k, ok: a.ok && f.ok}
		af.pos = append(append([]linTerm{}, a.pos...), f.pos...)
		af.neg = append(append([]linTerm{}, a.neg...), f.neg...)
		if linLeq(af, b) {
			return true
		}
	}
	return false
}

func (bc *boundsCtx) leqWithFacts(s *Symer, lits []Lit, a, b linForm) bool {
	return leqFacts(bc.linFacts(s, lits), a, b)
}

func (bc *boundsCtx) linearWithin(s *Symer, lits []Lit, x *ssa.Slice) bool {
	if x.Max != nil {
		return false
	}
	if _, isStr := x.X.Type().Underlying().(*types.Basic); isStr {
		return false
	}
	zero := linForm{ok: true}
	lo := zero
	if x.Low != nil {
		lo = bc.linear(s, x.Low, nil, 2)
	}
	facts := bc.linFacts(s, lits)
	leq := func(a, b linForm) bool { return leqFacts(facts, a, b) }
	if !leq(zero, lo) {
		return false
	}
	for _, l := range lits {
		if l.Kind != "lt" {
			continue
		}
		var e linForm
		switch {
		case !l.Pos:
			// !(len(x) < E): len(x) >= E
			a := lenArg(l.X)
			if a == nil || !sameVal(s, a, x.X) {
				continue
			}
			e = bc.linear(s, l.Y, nil, 2)
		default:
			// E < len(x): len(x) >= E + 1
			a := lenArg(l.Y)
			if a == nil || !sameVal(s, a, x.X) {
				continue
			}
			e = bc.linear(s, l.X, nil, 2)
			e.k++
		}
		if x.High == nil {
			if leq(lo, e) {
				return true
			}
			continue
		}
		hi := bc.linear(s, x.High, nil, 2)
		if leq(lo, hi) && leq(hi, e) {
			return true
		}
	}
	return false
}

// reservedLen: v is the byte slice returned by SerializeBuffer.PrependBytes(k) /
// AppendBytes(k); returns k.
func reservedLen(ex *ssa.Extract) (ssa.Value, bool) {
	if ex.Index != 0 {
		return nil, false
	}
	call, ok := ex.Tuple.(*ssa.Call)
	if !ok {
		return nil, false
	}
	n := calleeName(call.Common())
	if n == "invoke:github.com/gopacket/gopacket.SerializeBuffer.PrependBytes" ||
		n == "invoke:github.com/gopacket/gopacket.SerializeBuffer.AppendBytes" {
		return call.Common().Args[0], true
	}
	return nil, false
}

// constNeed: requiring len(x) >= n amounts to requiring len(p) >= need for a
// parameter p (x is p re-sliced with constant low bounds).
func constNeed(x ssa.Value, n int64) (*ssa.Parameter, int64, bool) {
	for d := 0; d < 6; d++ {
		x = stripConv(x)
		switch y := x.(type) {
		case *ssa.Parameter:
			return y, n, true
		case *ssa.Slice:
			if y.High != nil || y.Max != nil {
				return nil, 0, false
			}
			lo := int64(0)
			if y.Low != nil {
				k, ok := foldInt(y.Low)
				if !ok {
					return nil, 0, false
				}
				lo = k
			}
			n += lo
			x = y.X
		default:
			return nil, 0, false
		}
	}
	return nil, 0, false
}

// siteNeed: the constant length requirement of an open index/slice site.
func siteNeed(in ssa.Instruction) (ssa.Value, int64, bool) {
	switch x := in.(type) {
	case *ssa.IndexAddr:
		if k, ok := foldInt(x.Index); ok {
			return x.X, k + 1, true
		}
	case *ssa.Index:
		if k, ok := foldInt(x.Index); ok {
			return x.X, k + 1, true
		}
	case *ssa.Slice:
		if x.Max != nil {
			return nil, 0, false
		}
		lo := int64(0)
		if x.Low != nil {
			k, ok := foldInt(x.Low)
			if !ok {
				return nil, 0, false
			}
			lo = k
		}
		if x.High == nil {
			return x.X, lo, true
		}
		if hi, ok := foldInt(x.High); ok && lo <= hi {
			return x.X, hi, true
		}
	}
	return nil, 0, false
}

func paramIndex(p *ssa.Parameter) int {
	for i, q := range p.Parent().Params {
		if q == p {
			return i
		}
	}
	return -1
}

// callerEstablishes: every call site of fn inside the closure passes an argument
// for parameter pi whose length is established to be >= n.
func (bc *boundsCtx) callerEstablishes(bw *ByteWriters, inClosure map[*ssa.Function]bool, fn *ssa.Function, pi int, n int64,
	depth int) (int, bool) {
	if depth > 3 {
		return 0, false
	}
	sites := 0
	for caller := range inClosure {
		for _, cs := range bw.callSites(caller) {
			hit := false
			for _, callee := range cs.callees {
				if callee == fn {
					hit = true
				}
			}
			if !hit {
				continue
			}
			sites++
			arg := cs.argFor(fn, pi)
			if arg == nil {
				return sites, false
			}
			s := bc.sym(caller)
			lits := dominatingLits(cs.in.Block())
			if bc.atLeast(s, lits, arg, n, 0) {
				continue
			}
			if p, need, ok := constNeed(arg, n); ok {
				if _, ok2 := bc.callerEstablishes(bw, inClosure, caller, paramIndex(p), need, depth+1); ok2 {
					continue
				}
			}
			return sites, false
		}
	}
	return sites, sites > 0
}

// BoundsReport: obligations of the closure, discharged ones counted, the others
// returned (sorted by function, expression).
func BoundsReport(c *Ctx, bw *ByteWriters, fns []*ssa.Function, pkgs []string) (open []BoundSite, counts map[string]int, err error) {
	unproven, n, err := compilerUnproven(pkgs)
	if err != nil {
		return nil, nil, err
	}
	bc := &boundsCtx{c: c, unproven: unproven, syms: map[*ssa.Function]*Symer{}}
	counts = map[string]int{"compiler-unproven-checks": n}
	inClosure := map[*ssa.Function]bool{}
	for _, fn := range fns {
		inClosure[fn] = true
	}
	for _, fn := range fns {
		for _, site := range bc.collect(fn) {
			counts["obligations"]++
			counts[site.Kind]++
			if site.How == "" && (site.Kind == "index" || site.Kind == "slice") {
				if x, need, ok := siteNeed(site.In); ok {
					if p, pn, ok := constNeed(x, need); ok {
						if k, ok := bc.callerEstablishes(bw, inClosure, fn, paramIndex(p), pn, 0); ok {
							site.How = fmt.Sprintf("caller-contract: len(%s) >= %d at all %d call site(s) in the closure", p.Name(), pn, k)
						}
					}
				}
			}
			if site.How != "" {
				counts["discharged:"+strings.SplitN(site.How, " ", 2)[0]]++
				continue
			}
			open = append(open, site)
		}
	}
	sort.SliceStable(open, func(i, j int) bool {
		a, b := FuncName(open[i].Fn), FuncName(open[j].Fn)
		if a != b {
			return a < b
		}
		return open[i].Expr < open[j].Expr
	})
	return
}
