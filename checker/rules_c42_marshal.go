package main

import (
	"fmt"
	"strings"

	"golang.org/x/tools/go/ssa"
)

// C42, "serializing and re-parsing a policy preserves these decisions": the text
// form is a table with the columns action, from, to, network, next hop. Decided:
// MarshalText prints the rule's members in that order; parseRule builds the rule
// from the same columns (action <- column 0, From <- 1, To <- 2, Network <- 3,
// NextHop <- 4); parseAction maps the text Action.String() prints for a constant
// back to that very constant; the matchers' negation mark "!" is parsed where it
// is printed.
func init() {
	addMutants(
		Mutant{Prop: "C42", Name: "policy-text-from-and-to-swapped-on-output", File: "gateway/routing/marshal.go",
			Old: `rule.Action, rule.From, rule.To, rule.Network,`, New: `rule.Action, rule.To, rule.From, rule.Network,`, Expect: "M1-policy-text-columns"},
		Mutant{Prop: "C42", Name: "policy-text-reject-parsed-as-accept", File: "gateway/routing/marshal.go",
			Old: `	case Reject.String():
		return Reject, nil`, New: `	case Reject.String():
		return Accept, nil`, Expect: "M1-policy-text-columns"},
		Mutant{Prop: "C42", Name: "policy-text-to-column-read-from-column-1", File: "gateway/routing/marshal.go",
			Old: `	toMatcher, err := parseIAMatcher(columns[2])`, New: `	toMatcher, err := parseIAMatcher(columns[1])`, Expect: "M1-policy-text-columns"},
	)
}

func c42PolicyText(c *Ctx) {
	// the parser reads the text line by line with a bufio.Scanner: a line must be
	// consumed before the next Scan(), the scanner re-uses its buffer
	kept := scannerBytesRetained(c, "gateway/routing.")
	c.Check(len(kept) == 0, "M2-lines-not-retained", "gateway/routing:scanner-lines", 0,
		fmt.Sprintf("%d place(s) keep a Scanner.Bytes() slice beyond the iteration: %s", len(kept), strings.Join(truncList(kept, 2), " | ")))
	rule := "M1-policy-text-columns"
	rp := "gateway/routing."
	if v := c.View("(" + rp + "Policy).MarshalText"); v != nil {
		n := 0
		for _, ci := range v.Calls("fmt.Fprintf") {
			args := variadicArgs(ci.In.Common().Args[2])
			if len(args) != 5 {
				continue
			}
			n++
			var got []string
			for _, a := range args {
				s := v.S.Sym(a)
				got = append(got, s[strings.LastIndex(s, ".")+1:])
			}
			want := []string{"Action", "From", "To", "Network"}
			ok := true
			for i, w := range want {
				ok = ok && got[i] == w
			}
			// all four are members of the same rule
			base := ""
			for i := 0; i < 4; i++ {
				s := v.S.Sym(args[i])
				b := s[:strings.LastIndex(s, ".")]
				if base == "" {
					base = b
				}
				ok = ok && b == base
			}
			c.Check(ok, rule, v.Name()+":column-order", ci.In.(ssa.Instruction).Pos(), "prints action, from, to, network, next hop: "+strings.Join(got, ", "))
		}
		c.Check(n == 1, rule, v.Name()+":rule-line", v.Fn.Pos(), fmt.Sprintf("%d five-column line format(s)", n))
	}
	if v := c.View(rp + "parseRule"); v != nil {
		want := map[string]string{
			"Action":  rp + "parseAction(*[0])#0",
			"From":    rp + "parseIAMatcher(*[1])#0",
			"To":      rp + "parseIAMatcher(*[2])#0",
			"Network": rp + "parseNetworkMatcher(*[3])#0",
			"NextHop": "phi(*net.ParseIP(*[4]*",
		}
		got := map[string]string{}
		for _, st := range v.Stores("local:complit.*") {
			f := st.Addr[strings.LastIndex(st.Addr, ".")+1:]
			if w, ok := want[f]; ok && (wild(w, st.Val) || wild("*"+w+"*", st.Val)) {
				got[f] = st.Val
			}
		}
		ok := true
		var missing []string
		for f := range want {
			if got[f] == "" {
				ok = false
				missing = append(missing, f)
			}
		}
		c.Check(ok, rule, v.Name()+":columns-to-members", v.Fn.Pos(),
			"the rule is built from action <- column 0, From <- 1, To <- 2, Network <- 3, NextHop <- 4; not matched: "+strings.Join(missing, ", "))
	}
	if v := c.View(rp + "parseAction"); v != nil {
		n, ok := 0, true
		for _, b := range v.Fn.Blocks {
			r, isRet := b.Instrs[len(b.Instrs)-1].(*ssa.Return)
			if !isRet {
				continue
			}
			if k, isK := r.Results[1].(*ssa.Const); !isK || !k.IsNil() {
				continue
			}
			n++
			ret := v.S.Sym(r.Results[0])
			match := false
			for _, l := range dominatingLits(b) {
				s := l.String(v.S)
				if l.Kind == "eq" && l.Pos && strings.Contains(s, "("+rp+"Action).String("+ret+")") {
					match = true
				}
			}
			ok = ok && match
		}
		c.Check(ok && n == 4, rule, v.Name()+":inverse-of-String", v.Fn.Pos(),
			fmt.Sprintf("%d accepted action(s), each returned for exactly the text its own String() prints", n))
	}
	// negation marks
	for _, m := range []struct{ parse, print string }{
		{rp + "parseIAMatcher", "(" + rp + "NegatedIAMatcher).String"},
		{rp + "parseNetworkMatcher", "(" + rp + "NetworkMatcher).String"},
	} {
		pv, sv := c.View(m.parse), c.View(m.print)
		if pv == nil || sv == nil {
			continue
		}
		has := func(v *FnView) bool {
			for _, b := range v.Fn.Blocks {
				for _, in := range b.Instrs {
					for _, op := range in.Operands(nil) {
						if *op == nil {
							continue
						}
						if s, ok := constString(*op); ok && (s == "!" || strings.HasPrefix(s, "!%")) {
							return true
						}
						if sl, isSl := (*op).(*ssa.Const); isSl && strings.Contains(sl.String(), `"!"`) {
							return true
						}
					}
				}
			}
			return false
		}
		c.Check(has(pv) && has(sv), rule, m.parse+"~"+m.print+":negation-mark", pv.Fn.Pos(), "negation is written and read as a leading \"!\"")
	}
}
