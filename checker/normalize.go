package main

import (
	"fmt"
	"go/token"
	"sort"
	"strings"

	"golang.org/x/tools/go/ssa"
)

// Semantic comparison helpers: rules state WHAT a value is (a linear
// combination, a comparison), not how the source spells it.

// signedLinear decomposes an integer expression built from +, - and constants
// into its constant part and the renderings of its positive and negative
// addends (sorted). (a - b) - 1, (a - 1) - b and a - (b + 1) give the same
// result. Conversions are kept as part of the addend's rendering.
func signedLinear(v ssa.Value, s *Symer) (k int64, pos, neg []string) {
	var walk func(x ssa.Value, sign int64)
	walk = func(x ssa.Value, sign int64) {
		if c, ok := foldInt(x); ok {
			k += sign * c
			return
		}
		if bo, ok := x.(*ssa.BinOp); ok {
			switch bo.Op {
			case token.ADD:
				walk(bo.X, sign)
				walk(bo.Y, sign)
				return
			case token.SUB:
				walk(bo.X, sign)
				walk(bo.Y, -sign)
				return
			}
		}
		if sign > 0 {
			pos = append(pos, s.Sym(x))
		} else {
			neg = append(neg, s.Sym(x))
		}
	}
	walk(v, 1)
	sort.Strings(pos)
	sort.Strings(neg)
	// cancel addends that occur with both signs
	for i := 0; i < len(pos); i++ {
		for j := 0; j < len(neg); j++ {
			if pos[i] == neg[j] {
				pos = append(pos[:i], pos[i+1:]...)
				neg = append(neg[:j], neg[j+1:]...)
				i--
				break
			}
		}
	}
	return
}

// linearIs reports whether v is k + sum(pos) - sum(neg).
func linearIs(v ssa.Value, s *Symer, k int64, pos, neg []string) bool {
	gk, gp, gn := signedLinear(v, s)
	p := append([]string{}, pos...)
	n := append([]string{}, neg...)
	sort.Strings(p)
	sort.Strings(n)
	return gk == k && strings.Join(gp, "\x00") == strings.Join(p, "\x00") && strings.Join(gn, "\x00") == strings.Join(n, "\x00")
}

// expandSym renders v; where v is the result of a helper of the same package
// (a block that was moved into a function), the helper's returned values are
// rendered in the caller's terms instead ("phi(ret1 | ret2)"), up to depth levels.
func expandSym(s *Symer, v ssa.Value, depth int) string {
	call, ok := v.(*ssa.Call)
	if ex, isEx := v.(*ssa.Extract); isEx {
		if c2, isCall := ex.Tuple.(*ssa.Call); isCall {
			if r := expandCall(s, c2, ex.Index, depth); r != "" {
				return r
			}
		}
		return s.Sym(v)
	}
	if !ok {
		return s.Sym(v)
	}
	if r := expandCall(s, call, 0, depth); r != "" {
		return r
	}
	return s.Sym(v)
}

func expandCall(s *Symer, call *ssa.Call, result int, depth int) string {
	h := call.Common().StaticCallee()
	if depth <= 0 || h == nil || h.Blocks == nil || call.Parent() == nil || h.Pkg != call.Parent().Pkg {
		return ""
	}
	hs := NewSymer()
	f := &frame{fn: h, syms: hs, subst: map[string]string{}}
	for i, p := range h.Params {
		if i < len(call.Common().Args) {
			f.subst[hs.Sym(p)] = expandSym(s, call.Common().Args[i], depth-1)
		}
	}
	var alts []string
	seen := map[string]bool{}
	for _, b := range h.Blocks {
		ret, ok := b.Instrs[len(b.Instrs)-1].(*ssa.Return)
		if !ok || result >= len(ret.Results) {
			continue
		}
		r := f.resolve(expandSym(hs, ret.Results[result], depth-1))
		if !seen[r] {
			seen[r] = true
			alts = append(alts, r)
		}
	}
	if len(alts) == 0 {
		return ""
	}
	if len(alts) == 1 {
		return alts[0]
	}
	sort.Strings(alts)
	return "phi(" + strings.Join(alts, " | ") + ")"
}

// recvClosure: fn and the methods it (transitively) calls on its own receiver,
// excluding functions that are themselves rule anchors elsewhere is up to the
// caller. Order: fn first, then discovery order.
func recvClosure(fn *ssa.Function) []*ssa.Function {
	if fn == nil || fn.Signature.Recv() == nil {
		return []*ssa.Function{fn}
	}
	s := NewSymer()
	out := []*ssa.Function{fn}
	seen := map[*ssa.Function]bool{fn: true}
	for i := 0; i < len(out); i++ {
		for _, b := range out[i].Blocks {
			for _, in := range b.Instrs {
				call, ok := in.(ssa.CallInstruction)
				if !ok {
					continue
				}
				h := call.Common().StaticCallee()
				if h == nil || h.Blocks == nil || seen[h] || h.Signature.Recv() == nil || len(call.Common().Args) == 0 {
					continue
				}
				if s.Sym(call.Common().Args[0]) == "recv" && h.Signature.Recv().Type().String() == fn.Signature.Recv().Type().String() {
					seen[h] = true
					out = append(out, h)
				}
			}
		}
	}
	return out
}

// orderPreservingMap checks that fn maps its slice parameter element by element,
// in order: the successful result is built only by appends inside ONE loop that
// runs over the parameter itself from index 0 in steps of 1, each appended value
// is derived from the element of that iteration, every iteration appends (no
// element is skipped on a path that still succeeds), and nothing re-orders: no
// sort / reverse / clone of the input. Returns a reason when it does not hold.
func orderPreservingMap(v *FnView, param string) string {
	fn := v.Fn
	var elems []*ssa.UnOp
	for _, b := range fn.Blocks {
		for _, in := range b.Instrs {
			switch x := in.(type) {
			case *ssa.Call:
				name := calleeName(x.Common())
				if strings.HasPrefix(name, "slices.Sort") || strings.HasPrefix(name, "sort.") || name == "slices.Reverse" ||
					strings.HasPrefix(name, "slices.Clone") || strings.HasPrefix(name, "slices.Compact") {
					return "calls " + name
				}
			case *ssa.UnOp:
				if ia, ok := x.X.(*ssa.IndexAddr); ok && x.Op.String() == "*" && v.S.Sym(ia.X) == param {
					if !loopIndex(ia.Index, 0, 1) {
						return "reads " + param + " at an index that does not run 0, 1, 2, ..."
					}
					elems = append(elems, x)
				}
			}
		}
	}
	if len(elems) != 1 {
		return fmt.Sprintf("%d places read an element of %s (one loop over the parameter itself is required)", len(elems), param)
	}
	elem := elems[0]
	// the appends
	nApp := 0
	for _, b := range fn.Blocks {
		for _, in := range b.Instrs {
			call, ok := in.(*ssa.Call)
			if !ok || calleeName(call.Common()) != "builtin:append" {
				continue
			}
			els := appendedElems(call)
			if len(els) != 1 {
				continue
			}
			// only appends that reach a returned value
			reaches := false
			for _, rb := range fn.Blocks {
				if r, isRet := rb.Instrs[len(rb.Instrs)-1].(*ssa.Return); isRet && dependsOn(r.Results[0], call) {
					reaches = true
				}
			}
			if !reaches {
				continue
			}
			nApp++
			if leaves := v.Leaves(els[0], 0); true {
				ok := false
				for k := range leaves {
					if strings.Contains(k, v.S.Sym(elem)) {
						ok = true
					}
				}
				if !ok && !dependsOnDeep(els[0], elem, 6) {
					// an out-parameter filled by a call that is handed (part of) the element
					filled := false
					if ld, isLoad := els[0].(*ssa.UnOp); isLoad {
						if al, isAl := ld.X.(*ssa.Alloc); isAl && al.Referrers() != nil {
							var users []ssa.Instruction
							for _, r := range *al.Referrers() {
								users = append(users, r)
								if mi, isMI := r.(*ssa.MakeInterface); isMI && mi.Referrers() != nil {
									users = append(users, *mi.Referrers()...)
								}
							}
							for _, r := range users {
								callr, isCall := r.(*ssa.Call)
								if !isCall {
									continue
								}
								for _, a := range callr.Common().Args {
									if a != ssa.Value(al) && dependsOnDeep(a, elem, 6) {
										filled = true
									}
								}
							}
						}
					}
					if !filled {
						return "appends a value that is not derived from the current element"
					}
				}
			}
			if !elem.Block().Dominates(call.Block()) {
				return "an append is not inside the loop over " + param
			}
		}
	}
	if nApp != 1 {
		return fmt.Sprintf("%d append site(s) build the result (exactly one per element is required)", nApp)
	}
	return ""
}

// dependsOnDeep: v is computed from src (operands, transitively, bounded).
func dependsOnDeep(v, src ssa.Value, depth int) bool {
	if v == src {
		return true
	}
	if depth <= 0 {
		return false
	}
	in, ok := v.(ssa.Instruction)
	if !ok {
		return false
	}
	for _, op := range in.Operands(nil) {
		if *op != nil && dependsOnDeep(*op, src, depth-1) {
			return true
		}
	}
	return false
}

// scannerBytesRetained: bufio.Scanner.Bytes() returns a slice into the scanner's
// buffer that the next Scan() overwrites. Reports every place in the packages
// with the given path prefix where such a slice (or a re-slice of it) is kept
// beyond the iteration: appended to a slice, stored into memory other than a
// plain local, put into a map, sent, captured or returned. Handing it to a call
// is accepted (parsers copy what they keep).
func scannerBytesRetained(c *Ctx, pkgPrefix string) []string {
	var out []string
	for fn := range c.Prog.AllFuncs() {
		if fn.Blocks == nil || !strings.Contains(rawFuncName(fn), pkgPrefix) {
			continue
		}
		s := NewSymer()
		for _, b := range fn.Blocks {
			for _, in := range b.Instrs {
				call, ok := in.(*ssa.Call)
				if !ok || calleeName(call.Common()) != "(*bufio.Scanner).Bytes" {
					continue
				}
				seen := map[ssa.Value]bool{}
				var walk func(v ssa.Value)
				walk = func(v ssa.Value) {
					if seen[v] || v.Referrers() == nil {
						return
					}
					seen[v] = true
					for _, r := range *v.Referrers() {
						switch x := r.(type) {
						case *ssa.Slice:
							walk(x)
						case *ssa.Phi:
							walk(x)
						case *ssa.Store:
							if x.Val != v {
								continue
							}
							if al, isAl := x.Addr.(*ssa.Alloc); isAl && !al.Heap {
								// a plain local: follow its loads
								for _, rr := range *al.Referrers() {
									if ld, isLd := rr.(*ssa.UnOp); isLd {
										walk(ld)
									}
								}
								continue
							}
							out = append(out, fmt.Sprintf("%s: Scanner.Bytes() stored to %s at %s", FuncName(fn), s.Sym(x.Addr), c.Prog.Pos(x.Pos())))
						case *ssa.MapUpdate:
							out = append(out, fmt.Sprintf("%s: Scanner.Bytes() put into a map at %s", FuncName(fn), c.Prog.Pos(x.Pos())))
						case *ssa.Send:
							out = append(out, fmt.Sprintf("%s: Scanner.Bytes() sent on a channel at %s", FuncName(fn), c.Prog.Pos(x.Pos())))
						case *ssa.Return:
							out = append(out, fmt.Sprintf("%s: Scanner.Bytes() returned at %s", FuncName(fn), c.Prog.Pos(x.Pos())))
						case *ssa.MakeClosure:
							out = append(out, fmt.Sprintf("%s: Scanner.Bytes() captured by a closure at %s", FuncName(fn), c.Prog.Pos(x.Pos())))
						}
					}
				}
				walk(call)
			}
		}
	}
	sort.Strings(out)
	return out
}

// receiverWrites lists the stores into fields of the receiver made by fn and the
// methods it calls on the same receiver ("recv.<field>" addresses, also through
// sub-fields and elements).
func receiverWrites(fn *ssa.Function) []string {
	var out []string
	for _, f := range recvClosure(fn) {
		s := NewSymer()
		for _, b := range f.Blocks {
			for _, in := range b.Instrs {
				var addr ssa.Value
				switch x := in.(type) {
				case *ssa.Store:
					addr = x.Addr
				case *ssa.MapUpdate:
					addr = x.Map
				}
				if addr == nil {
					continue
				}
				if a := s.Sym(addr); strings.HasPrefix(a, "recv.") {
					out = append(out, FuncName(f)+": "+a)
				}
			}
		}
	}
	sort.Strings(out)
	return out
}

// requireStateless: the request handlers named keep nothing in their receiver
// from one request to the next (no method they reach on the same receiver stores
// into its fields). A decision that is remembered across requests outlives the
// inputs it was made from (a TRC update, a policy change, another requester).
func requireStateless(c *Ctx, rule string, handlers ...string) {
	for _, q := range handlers {
		fn := c.Fn(q)
		if fn == nil {
			continue
		}
		w := receiverWrites(fn)
		c.Check(len(w) == 0, rule, FuncName(fn)+":receiver-not-written", fn.Pos(),
			fmt.Sprintf("%d store(s) into the receiver's fields in the methods it reaches: %s", len(w), strings.Join(truncList(w, 3), " | ")))
	}
}

// countCalls counts the static call sites of callee in fns.
func countCalls(fns []*ssa.Function, callee string) int {
	n := 0
	for _, f := range fns {
		for _, b := range f.Blocks {
			for _, in := range b.Instrs {
				if call, ok := in.(ssa.CallInstruction); ok && calleeName(call.Common()) == callee {
					n++
				}
			}
		}
	}
	return n
}

func linearString(v ssa.Value, s *Symer) string {
	k, p, n := signedLinear(v, s)
	out := strings.Join(p, " + ")
	for _, x := range n {
		out += " - " + x
	}
	if k != 0 || out == "" {
		out += fmt.Sprintf(" %+d", k)
	}
	return strings.TrimSpace(out)
}
