package main

import (
	"fmt"
	"go/token"
	"sort"
	"strings"

	"golang.org/x/tools/go/ssa"
)

// Per-packet state of the router's packet processor (definite assignment,
// interprocedural).
//
// One scionPacketProcessor handles every packet of its queue, so whatever it
// keeps in its fields while handling a packet is still there when the next
// one arrives. A decision that reads such a field before anything wrote it for
// THIS packet decides on the previous packet's data. The rule: let PF be the
// fields of the processor that are assigned (whole) somewhere in the methods
// reachable from processPkt on the same receiver. For every load of (a part
// of) a field F of PF in those methods, F is definitely assigned on every path
// from the entry of processPkt to that load. Assignments are whole-field
// stores and handing &p.F to a call (decoders fill it). Must-analysis: forward
// dataflow with intersection at joins, callee summaries (fields assigned on
// every path to a return) and entry states (intersection over the call sites).

type procStateResult struct {
	Fields    []string
	Reads     int
	Funcs     int
	Violation []string
	Pos       map[string]token.Pos
}

func procStateAnalyse(c *Ctx, rootQ string) *procStateResult {
	root := c.Fn(rootQ)
	if root == nil {
		return nil
	}
	S := NewSymer()
	// closure over methods called on the same receiver
	fns := []*ssa.Function{root}
	inSet := map[*ssa.Function]bool{root: true}
	for i := 0; i < len(fns); i++ {
		for _, b := range fns[i].Blocks {
			for _, in := range b.Instrs {
				call, ok := in.(ssa.CallInstruction)
				if !ok {
					continue
				}
				h := call.Common().StaticCallee()
				if h == nil || h.Blocks == nil || inSet[h] || h.Signature.Recv() == nil || len(call.Common().Args) == 0 {
					continue
				}
				if S.Sym(call.Common().Args[0]) == "recv" && h.Signature.Recv().Type().String() == root.Signature.Recv().Type().String() {
					inSet[h] = true
					fns = append(fns, h)
				}
			}
		}
	}
	// field of the receiver an address lies in ("" if none), and whether it is the whole field
	fieldOf := func(addr ssa.Value) (string, bool) {
		s := S.Sym(addr)
		if !strings.HasPrefix(s, "recv.") {
			return "", false
		}
		rest := s[len("recv."):]
		end := len(rest)
		for i, ch := range rest {
			if ch == '.' || ch == '[' {
				end = i
				break
			}
		}
		return rest[:end], end == len(rest)
	}
	// PF: whole-field stores anywhere in the closure
	pf := map[string]bool{}
	for _, fn := range fns {
		for _, b := range fn.Blocks {
			for _, in := range b.Instrs {
				if st, ok := in.(*ssa.Store); ok {
					if f, whole := fieldOf(st.Addr); f != "" && whole {
						pf[f] = true
					}
				}
			}
		}
	}
	res := &procStateResult{Pos: map[string]token.Pos{}, Funcs: len(fns)}
	for f := range pf {
		res.Fields = append(res.Fields, f)
	}
	sort.Strings(res.Fields)
	type set map[string]bool
	full := func() set {
		s := set{}
		for f := range pf {
			s[f] = true
		}
		return s
	}
	meet := func(a, b set) set {
		o := set{}
		for k := range a {
			if b[k] {
				o[k] = true
			}
		}
		return o
	}
	equal := func(a, b set) bool {
		if len(a) != len(b) {
			return false
		}
		for k := range a {
			if !b[k] {
				return false
			}
		}
		return true
	}
	mustDef := map[*ssa.Function]set{}
	entry := map[*ssa.Function]set{}
	for _, fn := range fns {
		mustDef[fn] = full()
		entry[fn] = full()
	}
	entry[root] = set{}
	// transfer of one instruction
	apply := func(in ssa.Instruction, s set) set {
		switch x := in.(type) {
		case *ssa.Store:
			if f, whole := fieldOf(x.Addr); f != "" && whole && pf[f] {
				s = copySet(s)
				s[f] = true
			}
		case ssa.CallInstruction:
			com := x.Common()
			add := []string{}
			for _, a := range com.Args {
				if f, whole := fieldOf(a); f != "" && whole && pf[f] {
					if _, isAddr := a.(*ssa.FieldAddr); isAddr {
						add = append(add, f)
					}
				}
			}
			if h := com.StaticCallee(); h != nil && inSet[h] && len(com.Args) > 0 && S.Sym(com.Args[0]) == "recv" {
				for f := range mustDef[h] {
					add = append(add, f)
				}
			}
			if len(add) > 0 {
				s = copySet(s)
				for _, f := range add {
					s[f] = true
				}
			}
		}
		return s
	}
	// per-function dataflow given its entry state; visit(in, state before) is called at the end
	flow := func(fn *ssa.Function, visit func(in ssa.Instruction, before set)) set {
		inB := map[*ssa.BasicBlock]set{}
		for _, b := range fn.Blocks {
			inB[b] = full()
		}
		inB[fn.Blocks[0]] = entry[fn]
		outB := map[*ssa.BasicBlock]set{}
		for changed := true; changed; {
			changed = false
			for _, b := range fn.Blocks {
				s := inB[b]
				if b != fn.Blocks[0] {
					first := true
					for _, p := range b.Preds {
						o, ok := outB[p]
						if !ok {
							continue
						}
						if first {
							s, first = o, false
						} else {
							s = meet(s, o)
						}
					}
					if first {
						s = full()
					}
				}
				inB[b] = s
				for _, in := range b.Instrs {
					s = apply(in, s)
				}
				if o, ok := outB[b]; !ok || !equal(o, s) {
					outB[b] = s
					changed = true
				}
			}
		}
		ret := full()
		seenRet := false
		for _, b := range fn.Blocks {
			s := inB[b]
			for _, in := range b.Instrs {
				if visit != nil {
					visit(in, s)
				}
				if _, isRet := in.(*ssa.Return); isRet {
					ret = meet(ret, s)
					seenRet = true
				}
				s = apply(in, s)
			}
		}
		if !seenRet {
			return full()
		}
		return ret
	}
	// fixpoint over summaries and entry states
	for iter := 0; iter < 50; iter++ {
		changed := false
		newEntry := map[*ssa.Function]set{}
		for _, fn := range fns {
			newEntry[fn] = full()
		}
		newEntry[root] = set{}
		for _, fn := range fns {
			md := flow(fn, func(in ssa.Instruction, before set) {
				if call, ok := in.(ssa.CallInstruction); ok {
					com := call.Common()
					if h := com.StaticCallee(); h != nil && inSet[h] && h != root && len(com.Args) > 0 && S.Sym(com.Args[0]) == "recv" {
						newEntry[h] = meet(newEntry[h], before)
					}
				}
			})
			if !equal(md, mustDef[fn]) {
				mustDef[fn] = md
				changed = true
			}
		}
		for _, fn := range fns {
			if !equal(newEntry[fn], entry[fn]) {
				entry[fn] = newEntry[fn]
				changed = true
			}
		}
		if !changed {
			break
		}
	}
	// the reads
	seen := map[string]bool{}
	for _, fn := range fns {
		flow(fn, func(in ssa.Instruction, before set) {
			ld, ok := in.(*ssa.UnOp)
			if !ok || ld.Op != token.MUL {
				return
			}
			f, _ := fieldOf(ld.X)
			if f == "" || !pf[f] {
				return
			}
			res.Reads++
			if !before[f] {
				key := FuncName(fn) + ":" + f
				if !seen[key] {
					seen[key] = true
					res.Violation = append(res.Violation, key)
					res.Pos[key] = ld.Pos()
				}
			}
		})
	}
	sort.Strings(res.Violation)
	return res
}

func copySet(s map[string]bool) map[string]bool {
	o := make(map[string]bool, len(s)+1)
	for k, v := range s {
		o[k] = v
	}
	return o
}

// procStateFresh registers the obligations of the rule under the given property rule name.
func procStateFresh(c *Ctx, rule string) {
	procStateFreshFor(c, rule, "(*router.scionPacketProcessor).processPkt", "scionPacketProcessor", 8)
}

// slowPathStateFresh: the same for the slow-path processor (SCMP generation).
func slowPathStateFresh(c *Ctx, rule string) {
	procStateFreshFor(c, rule, "(*router.slowPathPacketProcessor).processPacket", "slowPathPacketProcessor", 4)
}

func procStateFreshFor(c *Ctx, rule, root, label string, minFields int) {
	res := procStateAnalyse(c, root)
	if res == nil {
		return
	}
	c.Min(label+":per-packet-fields", len(res.Fields), minFields)
	if len(res.Violation) == 0 {
		c.OK(rule, label+":per-packet-state", 0, fmt.Sprintf(
			"%d loads of the %d per-packet fields (%s) in %d methods reachable from %s: each field is assigned for the current packet before it is read",
			res.Reads, len(res.Fields), strings.Join(res.Fields, ", "), res.Funcs, root))
		return
	}
	for _, v := range res.Violation {
		parts := strings.SplitN(v, ":", 2)
		c.Fail(rule, label+":per-packet-state:"+v, res.Pos[v],
			"field "+parts[1]+" is read in "+parts[0]+" on a path from "+root+" on which nothing assigned it for the current packet: the value left by the previous packet is used")
	}
}

// calleesNotAnalysed lists module functions that the functions a property's rules
// analysed call directly and that no rule of the property looked into. It is
// evidence about the limits of a green run (and a to-do list), not an obligation.
func (c *Ctx) calleesNotAnalysed() []string {
	seen := map[string]bool{}
	var out []string
	for fn := range c.Prog.AllFuncs() {
		if fn.Blocks == nil || !c.Funcs[FuncName(fn)] {
			continue
		}
		for _, b := range fn.Blocks {
			for _, in := range b.Instrs {
				call, ok := in.(ssa.CallInstruction)
				if !ok {
					continue
				}
				h := call.Common().StaticCallee()
				if h == nil || h.Blocks == nil || !inModule(h) {
					continue
				}
				name := FuncName(h)
				if c.Funcs[name] || seen[name] || isObserverCallee(name) || strings.HasPrefix(name, "pkg/private/serrors.") ||
					strings.HasPrefix(name, "(pkg/private/serrors") {
					continue
				}
				seen[name] = true
				out = append(out, name)
			}
		}
	}
	sort.Strings(out)
	if len(out) > 60 {
		out = append(out[:60], fmt.Sprintf("... and %d more", len(out)-60))
	}
	return out
}
