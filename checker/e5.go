package main

import (
	"fmt"
	"go/token"
	"strings"

	"golang.org/x/tools/go/ssa"
)

// E5 — lock and condition-variable discipline.

// lockState computes, for every instruction of fn, whether mutex (rendered
// address mu, e.g. "recv.mutex") is held, by forward dataflow (must-hold).
// Deferred unlocks keep the lock until return.
func heldAt(fn *ssa.Function, s *Symer, mu string) map[ssa.Instruction]bool {
	isLock := func(in ssa.Instruction) (lock, unlock bool) {
		ci, ok := in.(ssa.CallInstruction)
		if !ok {
			return
		}
		if _, isDefer := in.(*ssa.Defer); isDefer {
			return
		}
		n := calleeName(ci.Common())
		if len(ci.Common().Args) == 0 || s.Sym(ci.Common().Args[0]) != mu {
			return
		}
		switch n {
		case "(*sync.Mutex).Lock", "(*sync.RWMutex).Lock", "(*sync.RWMutex).RLock":
			lock = true
		case "(*sync.Mutex).Unlock", "(*sync.RWMutex).Unlock", "(*sync.RWMutex).RUnlock":
			unlock = true
		}
		return
	}
	in := map[*ssa.BasicBlock]bool{}
	seen := map[*ssa.BasicBlock]bool{}
	out := map[ssa.Instruction]bool{}
	// must analysis (meet = AND): start optimistic everywhere except at entry and
	// iterate downwards to the greatest fixpoint
	_ = seen
	for _, b := range fn.Blocks {
		in[b] = b != fn.Blocks[0]
	}
	changed := true
	for iter := 0; changed && iter < 100; iter++ {
		changed = false
		for _, b := range fn.Blocks {
			if b == fn.Blocks[0] {
				continue
			}
			h := len(b.Preds) > 0
			for _, p := range b.Preds {
				if !blockOut(p, in[p], isLock) {
					h = false
				}
			}
			if in[b] != h {
				in[b] = h
				changed = true
			}
		}
	}
	for _, b := range fn.Blocks {
		h := in[b]
		for _, i := range b.Instrs {
			out[i] = h
			l, u := isLock(i)
			if l {
				h = true
			}
			if u {
				h = false
			}
		}
	}
	return out
}

func blockOut(b *ssa.BasicBlock, h bool, isLock func(ssa.Instruction) (bool, bool)) bool {
	for _, i := range b.Instrs {
		l, u := isLock(i)
		if l {
			h = true
		}
		if u {
			h = false
		}
	}
	return h
}

// CheckLockDiscipline: every access to a protected field of the receiver in the
// given functions happens with the mutex held; helper functions listed in
// lockRequired are only called with the mutex held.
func CheckLockDiscipline(c *Ctx, rule string, fns []*ssa.Function, mu string, protected []string,
	lockRequired map[string]bool, exempt map[string]bool) {
	isProt := func(sym string) bool {
		for _, p := range protected {
			if sym == "recv."+p {
				return true
			}
		}
		return false
	}
	for _, fn := range fns {
		name := FuncName(fn)
		c.Funcs[name] = true
		if exempt[name] {
			c.OK(rule, name+":exempt", fn.Pos(), "constructor: the value is not shared yet")
			continue
		}
		s := NewSymer()
		held := heldAt(fn, s, mu)
		bad := 0
		n := 0
		for _, b := range fn.Blocks {
			for _, in := range b.Instrs {
				switch x := in.(type) {
				case *ssa.FieldAddr:
					if isProt(s.Sym(x)) {
						n++
						if !held[in] && !lockRequired[name] {
							bad++
							c.Fail(rule, name+":unlocked-access:"+s.Sym(x), x.Pos(),
								"accesses "+s.Sym(x)+" without holding "+mu)
						}
					}
				case ssa.CallInstruction:
					if _, isDefer := in.(*ssa.Defer); isDefer {
						continue
					}
					cn := calleeName(x.Common())
					if lockRequired[cn] && !held[in] && !lockRequired[name] {
						bad++
						c.Fail(rule, name+":unlocked-call:"+cn, in.Pos(), "calls "+cn+" (requires "+mu+") without holding it")
					}
				}
			}
		}
		if bad == 0 {
			c.OK(rule, name, fn.Pos(), fmt.Sprintf("%d protected field access(es), all with %s held", n, mu))
		}
	}
}

// natural loop membership: blocks from which `back` source can be reached
// without leaving through header.
func inLoopWith(b, header *ssa.BasicBlock) bool {
	// b is in a loop headed by header iff header dominates b and b reaches header
	if !header.Dominates(b) {
		return false
	}
	seen := map[*ssa.BasicBlock]bool{}
	q := []*ssa.BasicBlock{b}
	for len(q) > 0 {
		x := q[0]
		q = q[1:]
		for _, s := range x.Succs {
			if s == header {
				return true
			}
			if !seen[s] && header.Dominates(s) {
				seen[s] = true
				q = append(q, s)
			}
		}
	}
	return false
}

// CheckWaitInLoop: every Cond.Wait on cond is inside a loop whose continuation
// condition re-reads (inside the loop) all predicate fields.
func CheckWaitInLoop(c *Ctx, rule string, fn *ssa.Function, cond string, predicate []string) {
	s := NewSymer()
	name := FuncName(fn)
	n := 0
	for _, b := range fn.Blocks {
		for _, in := range b.Instrs {
			call, ok := in.(*ssa.Call)
			if !ok || calleeName(call.Common()) != "(*sync.Cond).Wait" || s.Sym(call.Common().Args[0]) != cond {
				continue
			}
			n++
			construct := fmt.Sprintf("%s:wait-on-%s", name, cond)
			// find a loop header: a dominator h of b (or b itself) with an If, such that b is in the loop of h
			okLoop := false
			detail := "Wait is not inside a loop that re-tests the predicate"
			for h := b; h != nil; h = h.Idom() {
				if !inLoopWith(b, h) && h != b {
					continue
				}
				if h == b && !inLoopWith(b, b) {
					continue
				}
				// the loop's exit tests: Ifs in loop blocks; collect field loads inside the loop
				loads := map[string]bool{}
				for _, lb := range fn.Blocks {
					if lb != h && !(h.Dominates(lb) && inLoopWith(lb, h)) {
						continue
					}
					if _, isIf := lb.Instrs[len(lb.Instrs)-1].(*ssa.If); !isIf {
						continue
					}
					for _, li := range lb.Instrs {
						if u, isU := li.(*ssa.UnOp); isU && u.Op == token.MUL {
							loads[s.Sym(u)] = true
						}
					}
				}
				miss := []string{}
				for _, p := range predicate {
					if !loads["recv."+p] {
						miss = append(miss, p)
					}
				}
				if len(miss) == 0 {
					okLoop = true
					break
				}
				detail = "loop at " + c.Prog.Pos(sinkPos(h.Instrs[0])) + " does not re-read " + strings.Join(miss, ",")
			}
			if okLoop {
				c.OK(rule, construct, call.Pos(), "inside a loop whose tests re-read "+strings.Join(predicate, ","))
			} else {
				c.Fail(rule, construct, call.Pos(), detail)
			}
		}
	}
	if n == 0 {
		c.Fail(rule, fmt.Sprintf("%s:wait-on-%s", name, cond), fn.Pos(), "no Wait on "+cond+" found (anchor unresolved)")
	}
}

// CheckNotifyAfter: from every store to field (in fn), every path to a return
// executes Broadcast on cond, except along edges whose literal matches one of
// excuse (e.g. "nothing was transferred").
func CheckNotifyAfter(c *Ctx, rule string, fn *ssa.Function, field, cond string, excuse []string) {
	s := NewSymer()
	name := FuncName(fn)
	construct := fmt.Sprintf("%s:store-%s-then-broadcast-%s", name, field, cond)
	isNotify := func(in ssa.Instruction) bool {
		call, ok := in.(*ssa.Call)
		return ok && calleeName(call.Common()) == "(*sync.Cond).Broadcast" && s.Sym(call.Common().Args[0]) == cond
	}
	n := 0
	for _, b := range fn.Blocks {
		for idx, in := range b.Instrs {
			st, ok := in.(*ssa.Store)
			if !ok || s.Sym(st.Addr) != "recv."+field {
				continue
			}
			n++
			// search forward
			type pos struct {
				b *ssa.BasicBlock
				i int
			}
			seen := map[*ssa.BasicBlock]bool{}
			q := []pos{{b, idx + 1}}
			bad := token.NoPos
			for len(q) > 0 && bad == token.NoPos {
				p := q[0]
				q = q[1:]
				stopped := false
				for i := p.i; i < len(p.b.Instrs); i++ {
					x := p.b.Instrs[i]
					if isNotify(x) {
						stopped = true
						break
					}
					if _, isRet := x.(*ssa.Return); isRet {
						bad = sinkPos(x)
						stopped = true
						break
					}
				}
				if stopped {
					continue
				}
				for si, succ := range p.b.Succs {
					lits, feas := edgeLits(p.b, si, nil)
					if !feas {
						continue
					}
					exc := false
					for _, l := range lits {
						for _, e := range excuse {
							if wild(e, l.String(s)) {
								exc = true
							}
						}
					}
					if exc || seen[succ] {
						continue
					}
					seen[succ] = true
					q = append(q, pos{succ, 0})
				}
			}
			if bad != token.NoPos {
				c.Fail(rule, construct, st.Pos(), "a path from the store at "+c.Prog.Pos(st.Pos())+
					" reaches the return at "+c.Prog.Pos(bad)+" without "+cond+".Broadcast()")
				return
			}
		}
	}
	if n == 0 {
		c.Fail(rule, construct, fn.Pos(), "no store to "+field+" found (anchor unresolved)")
		return
	}
	c.OK(rule, construct, fn.Pos(), fmt.Sprintf("%d store(s), each followed by Broadcast on every path to return", n))
}
