package main

import (
	"fmt"
	"go/token"
	"sort"
	"strings"

	"golang.org/x/tools/go/ssa"
)

func init() {
	register(&PropRule{
		ID:    "C20",
		Roots: []string{"./pkg/slayers", "./dispatcher"},
		Explain: "Decides the structural clauses of the checksum computation. (A1) The value returned by " +
			"upperLayerChecksum is the incoming sum plus exactly the terms byte[i]<<8 and byte[i+1] for " +
			"i = 0, 2, ... < len-1 and, behind len%2 == 1, byte[len-1]<<8 - every byte of the upper layer is " +
			"added once, in network byte order, odd lengths included; pseudoHeaderChecksum adds exactly the " +
			"big-endian 16-bit words of SrcIA, DstIA, RawSrcAddr, RawDstAddr, both halves of the 32-bit " +
			"length and the protocol number; computeChecksum chains pseudo header -> upper layer -> fold. " +
			"(F1) Every narrowing integer conversion on the way to the result is lossless: foldChecksum " +
			"converts to uint16 only where csum <= 0xffff is established by the loop exit (one fold is not " +
			"enough: the second carry would be dropped), and the fold step is (csum>>16)+(csum&0xffff). " +
			"(S1) UDP.SerializeTo and SCMP.SerializeTo zero the checksum bytes before computing, compute over " +
			"the whole serialized upper layer with their own protocol number, and store the result at bytes " +
			"6:8 resp. 2:4. NOT decided: the arithmetic identity 'sum == 0xFFFF' and the single-bit-flip " +
			"claim themselves (one's-complement algebra over all inputs).",
		Run: runC20,
	})
	setClaim("C20", claim{
		Text: "Exact addend sets of the checksum accumulation (every byte once, correct byte order, odd tail), " +
			"lossless narrowing in the fold, serialization order and placement.",
		Note: claimNote, Technique: "static analysis: addend-set extraction over the SSA add/phi graph, guard dominance for " +
			"narrowing conversions, loop-bound literals, call/store ordering",
		Ref: "DESIGN.md §4 C20"})
	sf := "pkg/slayers/scion.go"
	addMutants(
		Mutant{Prop: "C20", Name: "single-fold", File: sf,
			Old: `	for csum > 0xffff {
		csum = (csum >> 16) + (csum & 0xffff)
	}`, New: `	csum = (csum >> 16) + (csum & 0xffff)`, Expect: "F1-fold"},
		Mutant{Prop: "C20", Name: "odd-tail-dropped", File: sf,
			Old: `	if len(upperLayer)%2 == 1 {
		csum += uint32(upperLayer[safeBoundary]) << 8
	}`, New: ``, Expect: "A1-accumulation"},
		Mutant{Prop: "C20", Name: "odd-tail-low-byte", File: sf,
			Old: `		csum += uint32(upperLayer[safeBoundary]) << 8`, New: `		csum += uint32(upperLayer[safeBoundary])`, Expect: "A1-accumulation"},
		Mutant{Prop: "C20", Name: "length-high-half-dropped", File: sf,
			Old: `	csum += (l >> 16) + (l & 0xffff)`, New: `	csum += l & 0xffff`, Expect: "A1-accumulation"},
		Mutant{Prop: "C20", Name: "dst-addr-not-summed", File: sf,
			Old: `	for i := 0; i < len(s.RawDstAddr); i += 2 {
		csum += uint32(s.RawDstAddr[i]) << 8
		csum += uint32(s.RawDstAddr[i+1])
	}`, New: `	for i := 0; i < len(s.RawDstAddr); i += 2 {
		csum += uint32(s.RawDstAddr[i]) << 8
	}`, Expect: "A1-accumulation"},
		Mutant{Prop: "C20", Name: "loop-stops-early", File: sf,
			Old: `	for i := 0; i < safeBoundary; i += 2 {`, New: `	for i := 0; i < safeBoundary-1; i += 2 {`, Expect: "A1-accumulation"},
		Mutant{Prop: "C20", Name: "udp-checksum-not-zeroed", File: "pkg/slayers/udp.go",
			Old: `		bytes[6] = 0
		bytes[7] = 0`, New: `		bytes[6] = 0`, Expect: "S1-serialize"},
		Mutant{Prop: "C20", Name: "scmp-uses-udp-protocol", File: "pkg/slayers/scmp.go",
			Old: `		s.Checksum, err = s.scn.computeChecksum(b.Bytes(), uint8(L4SCMP))`,
			New: `		s.Checksum, err = s.scn.computeChecksum(b.Bytes(), uint8(L4UDP))`, Expect: "S1-serialize"},
	)
}

// sumTerms lists the addends of v: ADD nodes and phis are expanded, everything
// else is a term.
func sumTerms(v ssa.Value, s *Symer) map[string]int {
	out := map[string]int{}
	seen := map[ssa.Value]bool{}
	var walk func(x ssa.Value)
	walk = func(x ssa.Value) {
		switch y := x.(type) {
		case *ssa.Phi:
			if seen[y] {
				return
			}
			seen[y] = true
			for _, e := range y.Edges {
				walk(e)
			}
		case *ssa.BinOp:
			if y.Op == token.ADD {
				if seen[y] {
					return
				}
				seen[y] = true
				walk(y.X)
				walk(y.Y)
				return
			}
			out[s.Sym(x)]++
		default:
			out[s.Sym(x)]++
		}
	}
	walk(v)
	return out
}

func termList(m map[string]int) []string {
	var l []string
	for k := range m {
		l = append(l, k)
	}
	sort.Strings(l)
	return l
}

func runC20(c *Ctx) {
	shimRepliesComputeChecksums(c, "S2-generated-packets-compute-checksums")
	sT := "(*pkg/slayers.SCION)."
	idx := "phi((… + 2) | 0)"
	checkTerms := func(rule string, v *FnView, want []string) {
		var ret *ssa.Return
		for _, b := range v.Fn.Blocks {
			if r, ok := b.Instrs[len(b.Instrs)-1].(*ssa.Return); ok {
				if k, isK := foldInt(RetVal(r, 0)); isK && k == 0 {
					continue // error return
				}
				ret = r
			}
		}
		if ret == nil {
			c.Fail(rule, v.Name()+":result", v.Fn.Pos(), "no value-returning return found")
			return
		}
		got := termList(sumTerms(RetVal(ret, 0), v.S))
		sort.Strings(want)
		c.Check(strings.Join(got, " ; ") == strings.Join(want, " ; "), rule, v.Name()+":addends", ret.Pos(),
			fmt.Sprintf("the result is the sum of exactly {%s}; required {%s}", strings.Join(got, " ; "), strings.Join(want, " ; ")))
	}
	if v := c.View(sT + "upperLayerChecksum"); v != nil {
		rule := "A1-accumulation"
		checkTerms(rule, v, []string{"arg1", "(uint32(arg0[" + idx + "]) << 8)", "uint32(arg0[(" + idx + " + 1)])",
			"(uint32(arg0[(builtin:len(arg0) - 1)]) << 8)"})
		e := NewE1(c, v.Fn)
		// loop: i from 0 step 2 while i < len-1
		var loopAdds, tailAdds []ssa.Instruction
		for _, b := range v.Fn.Blocks {
			for _, in := range b.Instrs {
				if bo, ok := in.(*ssa.BinOp); ok && bo.Op == token.ADD {
					for _, o := range []string{v.S.Sym(bo.X), v.S.Sym(bo.Y)} {
						switch o {
						case "(uint32(arg0[(builtin:len(arg0) - 1)]) << 8)":
							tailAdds = append(tailAdds, in)
						case "(uint32(arg0[" + idx + "]) << 8)", "uint32(arg0[(" + idx + " + 1)])":
							loopAdds = append(loopAdds, in)
						}
					}
				}
			}
		}
		c.Min("upperLayerChecksum:loop-adds", len(loopAdds), 2)
		c.Min("upperLayerChecksum:tail-adds", len(tailAdds), 1)
		e.Require(rule, "pair-loop-bound", nil, loopAdds, e.AtomGuard("i<len-1", "+lt("+idx+", (builtin:len(arg0) - 1))"))
		e.Require(rule, "odd-tail-guard", nil, tailAdds, e.AtomGuard("len%2==1", "+eq((builtin:len(arg0) % 2), 1)"))
		// the tail is added whenever the length is odd: the false edge of the test is the only way around it
		c20LoopExit(c, v, rule, idx, "(builtin:len(arg0) - 1)")
	}
	if v := c.View(sT + "pseudoHeaderChecksum"); v != nil {
		rule := "A1-accumulation"
		checkTerms(rule, v, []string{"0",
			"(uint32(local:srcIA[" + idx + "]) << 8)", "uint32(local:srcIA[(" + idx + " + 1)])",
			"(uint32(local:dstIA[" + idx + "]) << 8)", "uint32(local:dstIA[(" + idx + " + 1)])",
			"(uint32(recv.RawSrcAddr[" + idx + "]) << 8)", "uint32(recv.RawSrcAddr[(" + idx + " + 1)])",
			"(uint32(recv.RawDstAddr[" + idx + "]) << 8)", "uint32(recv.RawDstAddr[(" + idx + " + 1)])",
			"(uint32(arg0) & 65535)", "(uint32(arg0) >> 16)", "uint32(arg1)"})
		ok := 0
		for _, ci := range v.Calls("(encoding/binary.bigEndian).PutUint64") {
			a2 := strings.TrimSuffix(strings.TrimPrefix(ci.Args[2], "uint64("), ")")
			if (ci.Args[1] == "local:srcIA[:]" && a2 == "recv.SrcIA") || (ci.Args[1] == "local:dstIA[:]" && a2 == "recv.DstIA") {
				ok++
			}
		}
		c.Check(ok == 2, rule, v.Name()+":ia-words", v.Fn.Pos(), "srcIA/dstIA are the big-endian bytes of SrcIA/DstIA")
		e := NewE1(c, v.Fn)
		for _, f := range []struct{ name, bound string }{{"local:srcIA", "8"}, {"recv.RawSrcAddr", "builtin:len(recv.RawSrcAddr)"},
			{"recv.RawDstAddr", "builtin:len(recv.RawDstAddr)"}} {
			var adds []ssa.Instruction
			for _, b := range v.Fn.Blocks {
				for _, in := range b.Instrs {
					if bo, ok := in.(*ssa.BinOp); ok && bo.Op == token.ADD {
						for _, o := range []string{v.S.Sym(bo.X), v.S.Sym(bo.Y)} {
							if o == "(uint32("+f.name+"["+idx+"]) << 8)" || o == "uint32("+f.name+"[("+idx+" + 1)])" {
								adds = append(adds, in)
							}
						}
					}
				}
			}
			c.Min("pseudoHeaderChecksum:adds:"+f.name, len(adds), 2)
			e.Require(rule, "loop-bound:"+f.name, nil, adds, e.AtomGuard("i<"+f.bound, "+lt("+idx+", "+f.bound+")"))
		}
	}
	if v := c.View(sT + "computeChecksum"); v != nil {
		rule := "A1-accumulation"
		ph := sT + "pseudoHeaderChecksum(recv, builtin:len(arg0), arg1)"
		v.RequireCallArgs(rule, 1, sT+"pseudoHeaderChecksum", "recv", "builtin:len(arg0)", "arg1")
		v.RequireCallArgs(rule, 1, sT+"upperLayerChecksum", "recv", "arg0", ph+"#0")
		v.RequireCallArgs(rule, 1, sT+"foldChecksum", "recv", sT+"upperLayerChecksum(recv, arg0, "+ph+"#0)")
		e := NewE1(c, v.Fn)
		okRet := true
		for _, r := range e.SuccessReturns() {
			okRet = okRet && strings.HasPrefix(v.S.Sym(RetVal(r.(*ssa.Return), 0)), sT+"foldChecksum(")
		}
		c.Check(okRet, rule, v.Name()+":returns-fold", v.Fn.Pos(), "returns foldChecksum(upperLayerChecksum(data, pseudoHeaderChecksum(len(data), protocol)))")
	}
	// F1: lossless narrowing
	if v := c.View(sT + "foldChecksum"); v != nil {
		rule := "F1-fold"
		e := NewE1(c, v.Fn)
		n := 0
		for _, b := range v.Fn.Blocks {
			for _, in := range b.Instrs {
				cv, ok := in.(*ssa.Convert)
				if !ok || typeBits(cv.Type()) >= typeBits(cv.X.Type()) {
					continue
				}
				n++
				limit := int64(1)<<typeBits(cv.Type()) - 1
				x := cv.X
				g := Guard{Name: fmt.Sprintf("operand <= %#x", limit), Match: func(l Lit) bool {
					if l.Kind != "lt" || l.Pos {
						return false
					}
					// !(limit < x)
					k, isK := foldInt(l.X)
					return isK && k <= limit && (l.Y == x || stripConv(l.Y) == x)
				}}
				ws := e.Unguarded(nil, []ssa.Instruction{cv}, []Guard{g})
				c.Check(len(ws) == 0, rule, v.Name()+":narrowing:"+v.S.Sym(cv), cv.Pos(), fmt.Sprintf(
					"conversion to %s is reached only where its operand <= %#x is established (no carry is dropped)", cv.Type(), limit))
			}
		}
		c.Min("foldChecksum:narrowing-conversions", n, 1)
		// the fold step
		okStep := false
		for _, b := range v.Fn.Blocks {
			for _, in := range b.Instrs {
				if bo, ok := in.(*ssa.BinOp); ok && bo.Op == token.ADD {
					t := termList(sumTerms(bo, v.S))
					if len(t) == 2 && strings.HasSuffix(t[0], " & 65535)") && strings.HasSuffix(t[1], " >> 16)") {
						okStep = true
					}
				}
			}
		}
		c.Check(okStep, rule, v.Name()+":fold-step", v.Fn.Pos(), "fold step adds (csum >> 16) and (csum & 0xffff)")
		var rets []ssa.Instruction
		okRet := true
		for _, b := range v.Fn.Blocks {
			if r, ok := b.Instrs[len(b.Instrs)-1].(*ssa.Return); ok {
				rets = append(rets, r)
				u, isU := r.Results[0].(*ssa.UnOp)
				okRet = okRet && isU && u.Op == token.XOR
			}
		}
		c.Check(okRet && len(rets) == 1, rule, v.Name()+":complement", v.Fn.Pos(), "returns the one's complement of the folded sum")
	}
	// S1
	for _, l := range []struct {
		typ, proto string
		lo      int
	}{{"(*pkg/slayers.UDP)", "pkg/slayers.L4UDP", 6}, {"(*pkg/slayers.SCMP)", "pkg/slayers.L4SCMP", 2}} {
		v := c.View(l.typ + ".SerializeTo")
		if v == nil {
			continue
		}
		rule := "S1-serialize"
		buf := "invoke:github.com/gopacket/gopacket.SerializeBuffer.PrependBytes(arg0; *)#0"
		proto := strings.SplitN(c.Const(l.proto), ":", 2)[0]
		calls := v.Calls(sT + "computeChecksum")
		ok := len(calls) == 1
		detail := fmt.Sprintf("%d computeChecksum call(s)", len(calls))
		if ok {
			ci := calls[0]
			ok = wild("invoke:github.com/gopacket/gopacket.SerializeBuffer.Bytes(arg0; )", ci.Args[1]) &&
				(ci.Args[2] == proto+":uint8" || ci.Args[2] == proto)
			detail = "computeChecksum(" + ci.Args[1] + ", " + ci.Args[2] + "); required (b.Bytes(), " + proto + ")"
			// both checksum bytes are zeroed before, the result is written after
			z := map[int]bool{}
			for _, st := range v.Stores(buf + "[*]") {
				if st.Val == "0:uint8" || st.Val == "0:byte" || st.Val == "0" {
					for _, off := range []int{l.lo, l.lo + 1} {
						if wild(buf+fmt.Sprintf("[%d]", off), st.Addr) && instrDominates(st.In, ci.In.(ssa.Instruction)) {
							z[off] = true
						}
					}
				}
			}
			if !z[l.lo] || !z[l.lo+1] {
				ok = false
				detail = fmt.Sprintf("checksum bytes %d and %d are not both zeroed before the computation (%v)", l.lo, l.lo+1, z)
			}
			wr := false
			for _, p := range v.Calls("(encoding/binary.bigEndian).PutUint16") {
				if wild(buf+fmt.Sprintf("[%d:]", l.lo), p.Args[1]) && p.Args[2] == "recv.Checksum" {
					wr = true
					if reachesBlock(p.In.Block(), ci.In.Block()) {
						wr = false
					}
				}
			}
			if !wr {
				ok = false
				detail = fmt.Sprintf("the checksum is not written to bytes %d:%d after the computation", l.lo, l.lo+2)
			}
			okStore := false
			for _, st := range v.Stores("recv.Checksum") {
				if strings.HasPrefix(st.Val, sT+"computeChecksum(") && strings.HasSuffix(st.Val, "#0") {
					okStore = true
				}
			}
			if !okStore {
				ok = false
				detail = "the computed value is not stored into the layer's Checksum"
			}
		}
		c.Check(ok, rule, v.Name()+":zero-compute-store", v.Fn.Pos(), detail)
	}
}

// c20LoopExit: the pair loop runs i = 0, 2, 4, ... and ends only when !(i < bound).
func c20LoopExit(c *Ctx, v *FnView, rule, idx, bound string) {
	ok := false
	for _, b := range v.Fn.Blocks {
		for _, in := range b.Instrs {
			phi, isPhi := in.(*ssa.Phi)
			if !isPhi || v.S.Sym(phi) != idx {
				continue
			}
			// edges: constant 0 and phi+2
			z, step := false, false
			for _, e := range phi.Edges {
				if k, isK := foldInt(e); isK && k == 0 {
					z = true
				}
				if bo, isB := e.(*ssa.BinOp); isB && bo.Op == token.ADD && bo.X == ssa.Value(phi) {
					if k, isK := foldInt(bo.Y); isK && k == 2 {
						step = true
					}
				}
			}
			if z && step {
				ok = true
			}
		}
	}
	c.Check(ok, rule, v.Name()+":index-steps-by-two-from-zero", v.Fn.Pos(), "loop index "+idx+" starts at 0 and advances by 2 (bound "+bound+")")
}
