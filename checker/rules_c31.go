package main

import (
	"strings"

	"golang.org/x/tools/go/ssa"
)

func init() {
	register(&PropRule{
		ID:    "C31",
		Roots: []string{"./private/revcache/..."},
		Explain: "Decides the acceptance rule of the in-memory revocation cache as a complete decision table of " +
			"memRevCache.Insert over (remaining lifetime > 0, an entry is stored for the key, the new " +
			"revocation's Timestamp() is After the stored one's): the revocation is stored - SetWithExpire(key " +
			"of the revocation's own IA and interface, the revocation itself, its remaining lifetime) - and " +
			"true is returned exactly when the lifetime is positive and (nothing is stored or the new one is " +
			"strictly newer BY TIMESTAMP); otherwise nothing is written and false is returned. The key is " +
			"NewKey(rev.IA(), rev.IfID), the lifetime is time.Until(rev.Expiration()); Get returns the stored " +
			"value or nil, nothing else; every access to the underlying cache happens under the cache's lock " +
			"(write lock for Insert/DeleteExpired). NOT decided: the expiry behaviour inside zcache (a live " +
			"entry is one zcache still returns), the SQL back-ends.",
		Run: runC31,
	})
	setClaim("C31", claim{
		Text: "Exhaustive accept/reject table of memRevCache.Insert with the stored arguments, key and lifetime " +
			"pairing, Get result shape, lock discipline.",
		Note: claimNote, Technique: "static analysis: decision table by abstract evaluation over three atoms, call-argument " +
			"pairing, lock-held dataflow",
		Ref: "DESIGN.md §4 C31"})
	mf := "private/revcache/memrevcache/memrevcache.go"
	addMutants(
		Mutant{Prop: "C31", Name: "expired-accepted", File: mf,
			Old: `	if ttl <= 0 {
		return false, nil
	}`, New: `	if ttl < 0 {
		return false, nil
	}`, Expect: "I1-insert-table"},
		Mutant{Prop: "C31", Name: "older-replaces-newer", File: mf,
			Old: `	if rev.Timestamp().After(val.Timestamp()) {`, New: `	if !rev.Timestamp().Before(val.Timestamp()) {`, Expect: "I1-insert-table"},
		Mutant{Prop: "C31", Name: "newer-by-expiry", File: mf,
			Old: `	if rev.Timestamp().After(val.Timestamp()) {`, New: `	if rev.Expiration().After(val.Expiration()) {`, Expect: "I1-insert-table"},
		Mutant{Prop: "C31", Name: "reject-still-writes", File: mf,
			Old: `		c.c.SetWithExpire(key, rev, ttl)
		return true, nil
	}
	return false, nil`, New: `		c.c.SetWithExpire(key, rev, ttl)
		return true, nil
	}
	c.c.SetWithExpire(key, val, ttl)
	return false, nil`, Expect: "I1-insert-table"},
		Mutant{Prop: "C31", Name: "key-without-interface", File: mf,
			Old: `	key := revcache.NewKey(rev.IA(), rev.IfID)`, New: `	key := revcache.NewKey(rev.IA(), 0)`, Expect: "I1-insert-table"},
		Mutant{Prop: "C31", Name: "get-without-lock", File: mf,
			Old: `	c.lock.RLock()
	defer c.lock.RUnlock()
	if revInfo, ok := c.c.Get(key); ok {`, New: `	if revInfo, ok := c.c.Get(key); ok {`, Expect: "L1-lock"},
	)
}

func runC31(c *Ctx) {
	c31Cleanup(c)
	c31LifetimeArithmetic(c)
	mT :="(*private/revcache/memrevcache.memRevCache)"
	zc := "(*zgo.at/zcache/v2.cache[private/revcache.Key, *pkg/private/ctrl/path_mgmt.RevInfo])"
	rT := "(*pkg/private/ctrl/path_mgmt.RevInfo)"
	key := "private/revcache.NewKey(" + rT + ".IA(arg1), arg1.IfID)"
	ttl := "time.Until(" + rT + ".Expiration(arg1))"
	get := zc + ".Get(recv.c.cache, " + key + ")"
	if fn := c.Fn(mT + ".Insert"); fn != nil {
		bd := boolDom()
		set := "call:" + zc + ".SetWithExpire"
		RunTable(c, &TableSpec{
			Rule: "I1-insert-table", Fn: fn,
			NoInline:     []string{"*"},
			CallsTracked: []string{zc + ".SetWithExpire"},
			Atoms: []Atom{
				{Name: "expired", Pats: []string{"(" + ttl + " <= 0:time.Duration)"}, Domain: bd},
				{Name: "present", Pats: []string{get + "#1"}, Domain: bd},
				{Name: "newer", Pats: []string{"(time.Time).After(" + rT + ".Timestamp(arg1), " + rT + ".Timestamp(" + get + "#0))"}, Domain: bd},
			},
			Oracle: func(a map[string]string) map[string]string {
				accept := a["expired"] == "false" && (a["present"] == "false" || a["newer"] == "true")
				if accept {
					return map[string]string{"ret0": "true", "ret1": "nil", set: "yes",
						set + ":arg1": "sym:" + key, set + ":arg2": "sym:arg1", set + ":arg3": "sym:" + ttl}
				}
				return map[string]string{"ret0": "false", "ret1": "nil", set: ""}
			},
		})
	}
	if v := c.View(mT + ".Get"); v != nil {
		e := NewE1(c, v.Fn)
		ok, n := true, 0
		for _, r := range e.AllReturns() {
			if r.Block() == v.Fn.Recover {
				continue
			}
			n++
			s := v.S.Sym(RetVal(r.(*ssa.Return), 0))
			if s != "nil" && !strings.HasSuffix(s, ".Get(recv.c.cache, arg1)#0") {
				ok = false
			}
		}
		c.Check(ok && n >= 2, "G1-get", v.Name()+":returns", v.Fn.Pos(), "returns the cache's value for the key, or nil")
		v.RequireCallArgs("G1-get", 1, zc+".Get", "recv.c.cache", "arg1")
	}
	// lock discipline: the underlying cache is touched only with the lock held, and
	// the mutating methods take the write lock
	var fns []*ssa.Function
	for _, m := range []string{"Get", "GetAll", "Insert", "DeleteExpired"} {
		if fn := c.Fn(mT + "." + m); fn != nil {
			fns = append(fns, fn)
		}
	}
	CheckLockDiscipline(c, "L1-lock", fns, "recv.lock", []string{"c"}, nil, nil)
	for _, m := range []string{"Insert", "DeleteExpired"} {
		if v := c.View(mT + "." + m); v != nil {
			c.Check(len(v.Calls("(*sync.RWMutex).Lock")) >= 1 && len(v.Calls("(*sync.RWMutex).RLock")) == 0, "L1-lock",
				v.Name()+":write-lock", v.Fn.Pos(), "a mutating method takes the write lock")
		}
	}
}
