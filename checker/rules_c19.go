package main

import (
	"fmt"
	"go/token"
	"strings"

	"golang.org/x/tools/go/ssa"
)

func init() {
	register(&PropRule{
		ID:    "C19",
		Roots: []string{"./pkg/slayers/path/scion"},
		Explain: "Decides the clauses of the pointer arithmetic that touch their operands only through comparisons, as " +
			"complete decision tables over the orderings: (I1) infIndexForHF(hf) = 0 iff hf < SegLen[0], 1 iff " +
			"not that and hf < SegLen[0]+SegLen[1], 2 otherwise - the segment containing hop hf; (X1) IsXover = " +
			"CurrHF+1 < NumHops and CurrINF != infIndexForHF(CurrHF+1); IsFirstHopAfterXover = CurrINF > 0 and " +
			"CurrHF > 0 and CurrINF-1 == infIndexForHF(CurrHF-1); CurrINFMatchesCurrHF = (CurrINF == " +
			"infIndexForHF(CurrHF)); IsLastHop / IsPenultimateHop compare CurrHF with NumHops-1 / NumHops-2; " +
			"(P1) IncPath fails on an empty path and at the last hop, otherwise sets CurrHF+1 and CurrINF = " +
			"infIndexForHF(new CurrHF); (D1) Base.DecodeFromBytes succeeds only if the meta header decodes, " +
			"NumHops <= MaxHops (64), and no segment length is zero below a non-zero one; NumINF is the index " +
			"of the highest non-zero length + 1 and NumHops the sum of the three lengths. D1 is decided " +
			"independently of the loop's form: a dependence check shows that the function uses the lengths only " +
			"in zero tests and in the sum compared with MaxHops, and an abstract evaluation (constant " +
			"propagation unrolls the loop over the three indices) decides accept/reject, NumINF and NumHops " +
			"for every zero pattern with sums on both sides of the bound (250 cells). NOT decided: that " +
			"reversing twice restores the path, " +
			"raw/decoded agreement (value round trips over 2^26 headers), non-emptiness of the whole path.",
		Run: runC19,
	})
	setClaim("C19", claim{
		Text: "Decision tables of infIndexForHF, IsXover, IsFirstHopAfterXover, CurrINFMatchesCurrHF, last/penultimate " +
			"hop, IncPath; decode-shape guards and the NumHops/NumINF accumulation.",
		Note: claimNote, Technique: "static analysis: exhaustive decision tables over comparison atoms, guard dominance / " +
			"fail-stop, addend-set extraction",
		Ref: "DESIGN.md §0.5/§4 C19"})
	bf := "pkg/slayers/path/scion/base.go"
	addMutants(
		Mutant{Prop: "C19", Name: "second-segment-boundary-inclusive", File: bf,
			Old: `	case hf < s.PathMeta.SegLen[0]+s.PathMeta.SegLen[1]:`, New: `	case hf <= s.PathMeta.SegLen[0]+s.PathMeta.SegLen[1]:`, Expect: "I1-inf-index"},
		Mutant{Prop: "C19", Name: "xover-at-last-hop", File: bf,
			Old: `	return s.PathMeta.CurrHF+1 < uint8(s.NumHops) &&`, New: `	return s.PathMeta.CurrHF < uint8(s.NumHops) &&`, Expect: "X1-boundaries"},
		Mutant{Prop: "C19", Name: "first-hop-after-xover-ignores-currhf", File: bf,
			Old: `	return s.PathMeta.CurrINF > 0 && s.PathMeta.CurrHF > 0 &&`, New: `	return s.PathMeta.CurrINF > 0 &&`, Expect: "X1-boundaries"},
		Mutant{Prop: "C19", Name: "incpath-past-the-end", File: bf,
			Old: `	if int(s.PathMeta.CurrHF) >= s.NumHops-1 {`, New: `	if int(s.PathMeta.CurrHF) > s.NumHops-1 {`, Expect: "P1-incpath"},
		Mutant{Prop: "C19", Name: "incpath-keeps-info-index", File: bf,
			Old: `	s.PathMeta.CurrINF = s.infIndexForHF(s.PathMeta.CurrHF)
	return nil`, New: `	return nil`, Expect: "P1-incpath"},
		Mutant{Prop: "C19", Name: "gap-between-segments-accepted", File: bf,
			// (NumINF > 1 would be an EQUIVALENT mutant: NumINF == 1 only occurs at index 0,
			// after which nothing is visited; the first, shape-matching version of D1
			// reported it all the same - one reason D1 became a table.)
			Old: `		if s.PathMeta.SegLen[i] == 0 && s.NumINF > 0 {`, New: `		if s.PathMeta.SegLen[i] == 0 && s.NumINF > 2 {`, Expect: "D1-decode-shape"},
		Mutant{Prop: "C19", Name: "forward-loop-with-hole-in-the-middle", File: bf,
			Old: `	for i := 2; i >= 0; i-- {
		if s.PathMeta.SegLen[i] == 0 && s.NumINF > 0 {
			return serrors.New(
				fmt.Sprintf("Meta.SegLen[%d] == 0, but Meta.SegLen[%d] > 0", i, s.NumINF-1))
		}
		if s.PathMeta.SegLen[i] > 0 && s.NumINF == 0 {
			s.NumINF = i + 1
		}
		s.NumHops += int(s.PathMeta.SegLen[i])
	}`, New: `	for i := 0; i < 3; i++ {
		if s.PathMeta.SegLen[i] == 0 {
			continue
		}
		if i > 0 && s.NumINF == 0 {
			return serrors.New(
				fmt.Sprintf("Meta.SegLen[%d] == 0, but Meta.SegLen[%d] > 0", i-1, i))
		}
		s.NumINF = i + 1
		s.NumHops += int(s.PathMeta.SegLen[i])
	}`, Expect: "D1-decode-shape"},
		Mutant{Prop: "C19", Name: "benign-forward-range-loop", File: bf, Benign: true,
			Old: `	for i := 2; i >= 0; i-- {
		if s.PathMeta.SegLen[i] == 0 && s.NumINF > 0 {
			return serrors.New(
				fmt.Sprintf("Meta.SegLen[%d] == 0, but Meta.SegLen[%d] > 0", i, s.NumINF-1))
		}
		if s.PathMeta.SegLen[i] > 0 && s.NumINF == 0 {
			s.NumINF = i + 1
		}
		s.NumHops += int(s.PathMeta.SegLen[i])
	}`, New: `	for i, l := range s.PathMeta.SegLen {
		if l == 0 {
			continue
		}
		if i > s.NumINF {
			return serrors.New(
				fmt.Sprintf("Meta.SegLen[%d] == 0, but Meta.SegLen[%d] > 0", s.NumINF, i))
		}
		s.NumINF = i + 1
		s.NumHops += int(l)
	}`},
		Mutant{Prop: "C19", Name: "benign-unrolled-hop-sum", File: bf, Benign: true,
			Old: `		s.NumHops += int(s.PathMeta.SegLen[i])
	}
`, New: `	}
	s.NumHops = int(s.PathMeta.SegLen[0]) + int(s.PathMeta.SegLen[1]) + int(s.PathMeta.SegLen[2])
`},
		Mutant{Prop: "C19", Name: "too-many-hops-accepted", File: bf,
			Old: `	if s.NumHops > MaxHops {`, New: `	if s.NumHops > MaxHops+1 {`, Expect: "D1-decode-shape"},
	)
}

func runC19(c *Ctx) {
	c19MetaHeaderFields(c)
	// Reversal is the mirror map (info field k <- n-1-k with ConsDir negated, hop
	// field k <- h-1-k, CurrINF <- n-1-CurrINF, CurrHF <- h-1-CurrHF, nothing else),
	// decided for 0..3 segments and 0..5 hops by the symbolic-store table shared
	// with C03. A mirror map applied twice is the identity, which is the
	// "reversing twice restores the path" clause for the decoded form (Raw.Reverse
	// is decode / Decoded.Reverse / serialize, rule R2 of C03).
	if v := c.View("(*pkg/slayers/path/scion.Decoded).Reverse"); v != nil {
		c03ReverseTable(c, v, "V1-reverse-is-the-mirror-map")
	}
	bT := "(*pkg/slayers/path/scion.Base)"
	rT := "(*pkg/slayers/path/scion.Raw)"
	bd := boolDom()
	idx := bT + ".infIndexForHF(recv, "
	if fn := c.Fn(bT + ".infIndexForHF"); fn != nil {
		RunTable(c, &TableSpec{
			Rule: "I1-inf-index", Fn: fn,
			Atoms: []Atom{
				{Name: "inFirst", Pats: []string{"(arg0 < recv.PathMeta.SegLen[0])"}, Domain: bd},
				{Name: "inFirstTwo", Pats: []string{"(arg0 < (recv.PathMeta.SegLen[0] + recv.PathMeta.SegLen[1]))"}, Domain: bd},
			},
			Oracle: func(a map[string]string) map[string]string {
				switch {
				case a["inFirst"] == "true" && a["inFirstTwo"] == "false":
					return nil // hf < s0 implies hf < s0+s1
				case a["inFirst"] == "true":
					return map[string]string{"ret": "0 || 0:uint8"}
				case a["inFirstTwo"] == "true":
					return map[string]string{"ret": "1 || 1:uint8"}
				}
				return map[string]string{"ret": "2 || 2:uint8"}
			},
		})
	}
	if fn := c.Fn(bT + ".IsXover"); fn != nil {
		RunTable(c, &TableSpec{
			Rule: "X1-boundaries", Fn: fn, NoInline: []string{"*"},
			Atoms: []Atom{
				{Name: "notLast", Pats: []string{"((recv.PathMeta.CurrHF + 1) < uint8(recv.NumHops))"}, Domain: bd},
				{Name: "nextInOtherSegment", Pats: []string{"(" + idx + "(recv.PathMeta.CurrHF + 1)) != recv.PathMeta.CurrINF)",
					"(recv.PathMeta.CurrINF != " + idx + "(recv.PathMeta.CurrHF + 1)))"}, Domain: bd},
			},
			Oracle: func(a map[string]string) map[string]string {
				return map[string]string{"ret": boolStr(a["notLast"] == "true" && a["nextInOtherSegment"] == "true")}
			},
		})
	}
	if fn := c.Fn(bT + ".IsFirstHopAfterXover"); fn != nil {
		RunTable(c, &TableSpec{
			Rule: "X1-boundaries", Fn: fn, NoInline: []string{"*"},
			Atoms: []Atom{
				{Name: "infPositive", Pats: []string{"(recv.PathMeta.CurrINF > 0)"}, Domain: bd},
				{Name: "hfPositive", Pats: []string{"(recv.PathMeta.CurrHF > 0)"}, Domain: bd},
				{Name: "prevInPrevSegment", Pats: []string{"(" + idx + "(recv.PathMeta.CurrHF - 1)) == (recv.PathMeta.CurrINF - 1))",
					"((recv.PathMeta.CurrINF - 1) == " + idx + "(recv.PathMeta.CurrHF - 1)))"}, Domain: bd},
			},
			Oracle: func(a map[string]string) map[string]string {
				return map[string]string{"ret": boolStr(a["infPositive"] == "true" && a["hfPositive"] == "true" && a["prevInPrevSegment"] == "true")}
			},
		})
	}
	retIs := func(q, rule string, wants ...string) {
		v := c.View(q)
		if v == nil {
			return
		}
		e := NewE1(c, v.Fn)
		ok, n := true, 0
		got := ""
		for _, r := range e.AllReturns() {
			n++
			got = v.S.Sym(r.(*ssa.Return).Results[0])
			hit := false
			for _, w := range wants {
				if got == w {
					hit = true
				}
			}
			ok = ok && hit
		}
		c.Check(ok && n == 1, rule, v.Name()+":definition", v.Fn.Pos(), "returns "+got+"; required "+strings.Join(wants, " or "))
	}
	retIs(rT+".CurrINFMatchesCurrHF", "X1-boundaries",
		"("+idx+"recv.Base.PathMeta.CurrHF) == recv.Base.PathMeta.CurrINF)", "(recv.Base.PathMeta.CurrINF == "+idx+"recv.Base.PathMeta.CurrHF))",
		"("+bT+".infIndexForHF(recv.Base, recv.Base.PathMeta.CurrHF) == recv.Base.PathMeta.CurrINF)",
		"(recv.Base.PathMeta.CurrINF == "+bT+".infIndexForHF(recv.Base, recv.Base.PathMeta.CurrHF))")
	// IsLastHop / IsPenultimateHop: CurrHF == NumHops-1 / NumHops-2, decided by value
	// (any equivalent way of writing the comparison evaluates the same)
	for _, lh := range []struct {
		name string
		back int
	}{{"IsLastHop", 1}, {"IsPenultimateHop", 2}} {
		fn := c.Fn(rT + "." + lh.name)
		if fn == nil {
			continue
		}
		back := lh.back
		RunTable(c, &TableSpec{
			Rule: "X1-boundaries", Fn: fn, NoInline: []string{"*"},
			Atoms: []Atom{
				{Name: "hf", Pats: []string{"recv.Base.PathMeta.CurrHF"}, Domain: []string{"0", "1", "2", "3", "4"}},
				{Name: "n", Pats: []string{"recv.Base.NumHops"}, Domain: []string{"0", "1", "2", "3", "4", "5", "6"}},
			},
			Oracle: func(a map[string]string) map[string]string {
				var hf, n int
				fmt.Sscan(a["hf"], &hf)
				fmt.Sscan(a["n"], &n)
				return map[string]string{"ret": boolStr(hf == n-back)}
			},
		})
	}
	// P1
	if fn := c.Fn(bT + ".IncPath"); fn != nil {
		RunTable(c, &TableSpec{
			Rule: "P1-incpath", Fn: fn, NoInline: []string{"*"},
			Effects: []string{"recv.PathMeta.CurrHF", "recv.PathMeta.CurrINF"},
			Atoms: []Atom{
				{Name: "empty", Pats: []string{"(recv.NumINF == 0)"}, Domain: bd},
				{Name: "atEnd", Pats: []string{"(int(recv.PathMeta.CurrHF) >= (recv.NumHops - 1))"}, Domain: bd},
			},
			Oracle: func(a map[string]string) map[string]string {
				switch {
				case a["empty"] == "true":
					return map[string]string{"ret": "sym:*", "recv.PathMeta.CurrHF": "", "recv.PathMeta.CurrINF": ""}
				case a["atEnd"] == "true":
					return map[string]string{"ret": "sym:*", "recv.PathMeta.CurrHF": "sym:uint8((recv.NumHops - 1))", "recv.PathMeta.CurrINF": ""}
				}
				return map[string]string{"ret": "nil", "recv.PathMeta.CurrHF": "sym:(recv.PathMeta.CurrHF + 1)",
					"recv.PathMeta.CurrINF": "sym:" + idx + "recv.PathMeta.CurrHF)"}
			},
		})
		// the info index is computed from the NEW hop index
		v := ViewOf(c, fn)
		ok := false
		for _, ci := range v.Calls(bT + ".infIndexForHF") {
			for _, st := range v.Stores("recv.PathMeta.CurrHF") {
				if st.Val == "(recv.PathMeta.CurrHF + 1)" && instrDominates(st.In, ci.In.(ssa.Instruction)) {
					ok = true
				}
			}
		}
		c.Check(ok, "P1-incpath", v.Name()+":info-index-after-advance", fn.Pos(), "infIndexForHF is evaluated after CurrHF was advanced")
	}
	// D1
	if v := c.View(bT + ".DecodeFromBytes"); v != nil {
		rule := "D1-decode-shape"
		e := NewE1(c, v.Fn)
		maxHops := strings.SplitN(c.Const("pkg/slayers/path/scion.MaxHops"), ":", 2)[0]
		c.Check(maxHops == "64", rule, "MaxHops", 0, "MaxHops = "+maxHops+" (CurrHF has 6 bits)")
		e.Require(rule, "success", nil, e.SuccessReturns(),
			e.CallGuard(PassErrNil, "(*pkg/slayers/path/scion.MetaHdr).DecodeFromBytes"))
		// (a) the function looks at the three lengths only through "is it zero" and
		// through their sum, which in turn is only compared with MaxHops: its
		// behaviour is a function of (zero pattern, sum <= MaxHops) ...
		depOK, depWhy := c19LengthDependence(v)
		c.Check(depOK, rule, v.Name()+":lengths-used-as-zero-test-and-sum", v.Fn.Pos(), depWhy)
		// (b) ... which is decided for every class by abstract evaluation (the loop
		// over the three indices is unrolled by constant propagation, whatever its
		// direction or form); representatives 0,1,2,62,63 cover every zero pattern
		// with sums on both sides of the bound (6-bit lengths: at most 63 each).
		segDom := []string{"0", "1", "2", "62", "63"}
		RunTable(c, &TableSpec{
			Rule: rule, Fn: v.Fn, Depth: 3,
			NoInline: []string{"pkg/private/serrors.*", "(*pkg/slayers/path/scion.MetaHdr).*"},
			Effects:  []string{"recv.NumINF", "recv.NumHops"},
			Atoms: []Atom{
				{Name: "metaErr", Pats: []string{"((*pkg/slayers/path/scion.MetaHdr).DecodeFromBytes(*) != nil)"}, Domain: bd},
				{Name: "s0", Pats: []string{"recv.PathMeta.SegLen[0]"}, Domain: segDom},
				{Name: "s1", Pats: []string{"recv.PathMeta.SegLen[1]"}, Domain: segDom},
				{Name: "s2", Pats: []string{"recv.PathMeta.SegLen[2]"}, Domain: segDom},
			},
			Oracle: func(a map[string]string) map[string]string {
				if a["metaErr"] == "true" {
					return map[string]string{"ret": "sym:*"}
				}
				var l [3]int
				fmt.Sscan(a["s0"], &l[0])
				fmt.Sscan(a["s1"], &l[1])
				fmt.Sscan(a["s2"], &l[2])
				n, sum, gap := 0, 0, false
				for i := 0; i < 3; i++ {
					sum += l[i]
					if l[i] != 0 {
						if n != i {
							gap = true // a zero length below a non-zero one
						}
						n = i + 1
					}
				}
				if gap || sum > 64 {
					return map[string]string{"ret": "sym:*"}
				}
				return map[string]string{"ret": "nil", "recv.NumINF": fmt.Sprint(n), "recv.NumHops": fmt.Sprint(sum)}
			},
		})
	}
	_ = fmt.Sprint
}

// c19LengthDependence: in Base.DecodeFromBytes every value loaded from
// PathMeta.SegLen[i] is used only in comparisons with the constant 0 or (after
// conversion) as an addend of a sum that is stored to NumHops; every value of
// NumHops is used only as an addend or compared with the constant MaxHops.
// (Values boxed for an error message do not influence the outcome.)
func c19LengthDependence(v *FnView) (bool, string) {
	// the function and the helpers of its package it hands its receiver to
	fns := []*ssa.Function{v.Fn}
	inSet := map[*ssa.Function]bool{v.Fn: true}
	for i := 0; i < len(fns); i++ {
		for _, b := range fns[i].Blocks {
			for _, in := range b.Instrs {
				call, ok := in.(*ssa.Call)
				if !ok {
					continue
				}
				h := call.Common().StaticCallee()
				if h == nil || h.Blocks == nil || inSet[h] || h.Pkg != v.Fn.Pkg || h.Signature.Recv() == nil ||
					strings.Contains(FuncName(h), "MetaHdr)") {
					continue
				}
				if len(call.Common().Args) > 0 && NewSymer().Sym(call.Common().Args[0]) == "recv" {
					inSet[h] = true
					fns = append(fns, h)
				}
			}
		}
	}
	S := NewSymer()
	seen := map[string]bool{}
	var bad []string
	nLen, nSum := 0, 0
	var walk func(x ssa.Value, kind string)
	walk = func(x ssa.Value, kind string) {
		key := kind + "/" + x.Name()
		if seen[key] || x.Referrers() == nil {
			return
		}
		seen[key] = true
		for _, r := range *x.Referrers() {
			switch y := r.(type) {
			case *ssa.DebugRef, *ssa.MakeInterface:
			case *ssa.Convert:
				walk(y, kind)
			case *ssa.ChangeType:
				walk(y, kind)
			case *ssa.Phi:
				walk(y, kind)
			case *ssa.BinOp:
				other := y.Y
				if other == x {
					other = y.X
				}
				switch y.Op {
				case token.EQL, token.NEQ, token.LSS, token.LEQ, token.GTR, token.GEQ:
					k, isK := foldInt(other)
					if (kind == "len" && isK && k == 0) || (kind == "sum" && isK && k == 64) {
						continue
					}
					bad = append(bad, fmt.Sprintf("%s value compared as %s", kind, S.Sym(y)))
				case token.ADD:
					walk(y, "sum")
				default:
					bad = append(bad, fmt.Sprintf("%s value used in %s", kind, S.Sym(y)))
				}
			case *ssa.Store:
				if y.Val == x && S.Sym(y.Addr) == "recv.NumHops" {
					continue
				}
				bad = append(bad, fmt.Sprintf("%s value stored to %s", kind, S.Sym(y.Addr)))
			default:
				bad = append(bad, fmt.Sprintf("%s value used by %T", kind, r))
			}
		}
	}
	for _, fn := range fns {
	for _, b := range fn.Blocks {
		for _, in := range b.Instrs {
			u, ok := in.(*ssa.UnOp)
			if !ok || u.Op != token.MUL {
				continue
			}
			if ia, isIA := u.X.(*ssa.IndexAddr); isIA && S.Sym(ia.X) == "recv.PathMeta.SegLen" {
				nLen++
				walk(u, "len")
				continue
			}
			switch S.Sym(u.X) {
			case "recv.NumHops":
				nSum++
				walk(u, "sum")
			case "recv.PathMeta.SegLen":
				// the array loaded as a value (range over it): only indexed
				if u.Referrers() != nil {
					for _, r := range *u.Referrers() {
						switch y := r.(type) {
						case *ssa.Index:
							nLen++
							walk(y, "len")
						case *ssa.DebugRef:
						default:
							bad = append(bad, fmt.Sprintf("the SegLen array value is used by %T", r))
						}
					}
				}
			}
		}
	}
	}
	if nLen == 0 || nSum == 0 {
		bad = append(bad, fmt.Sprintf("%d loads of SegLen elements, %d loads of NumHops", nLen, nSum))
	}
	if len(bad) > 0 {
		return false, strings.Join(bad, "; ")
	}
	return true, fmt.Sprintf("%d loads of SegLen elements feed only zero tests and the hop sum; %d loads of NumHops feed only the sum and the MaxHops comparison", nLen, nSum)
}
