package main

import (
	"fmt"
	"strings"

	"golang.org/x/tools/go/ssa"
)

func init() {
	register(&PropRule{
		ID:    "C19",
		Roots: []string{"./pkg/slayers/path/scion"},
		Explain: "Decides the clauses of the pointer arithmetic that touch their operands only through comparisons, as " +
			"complete decision tables over the orderings: (I1) infIndexForHF(hf) = 0 iff hf < SegLen[0], 1 iff " +
			"not that and hf < SegLen[0]+SegLen[1], 2 otherwise - the segment containing hop hf; (X1) IsXover = " +
			"CurrHF+1 < NumHops and CurrINF != infIndexForHF(CurrHF+1); IsFirstHopAfterXover = CurrINF > 0 and " +
			"CurrHF > 0 and CurrINF-1 == infIndexForHF(CurrHF-1); CurrINFMatchesCurrHF = (CurrINF == " +
			"infIndexForHF(CurrHF)); IsLastHop / IsPenultimateHop compare CurrHF with NumHops-1 / NumHops-2; " +
			"(P1) IncPath fails on an empty path and at the last hop, otherwise sets CurrHF+1 and CurrINF = " +
			"infIndexForHF(new CurrHF); (D1) Base.DecodeFromBytes succeeds only if the meta header decodes, " +
			"NumHops <= MaxHops (64), and no segment length is zero below a non-zero one (contiguity, checked " +
			"for every index from 2 down to 0); NumINF is the index of the highest non-zero length + 1 and " +
			"NumHops the sum of exactly the three lengths. NOT decided: that reversing twice restores the path, " +
			"raw/decoded agreement (value round trips over 2^26 headers), non-emptiness of the whole path.",
		Run: runC19,
	})
	setClaim("C19", claim{
		Text: "Decision tables of infIndexForHF, IsXover, IsFirstHopAfterXover, CurrINFMatchesCurrHF, last/penultimate " +
			"hop, IncPath; decode-shape guards and the NumHops/NumINF accumulation.",
		Note: claimNote, Technique: "static analysis: exhaustive decision tables over comparison atoms, guard dominance / " +
			"fail-stop, addend-set extraction",
		Ref: "DESIGN.md §0.5/§4 C19"})
	bf := "pkg/slayers/path/scion/base.go"
	addMutants(
		Mutant{Prop: "C19", Name: "second-segment-boundary-inclusive", File: bf,
			Old: `	case hf < s.PathMeta.SegLen[0]+s.PathMeta.SegLen[1]:`, New: `	case hf <= s.PathMeta.SegLen[0]+s.PathMeta.SegLen[1]:`, Expect: "I1-inf-index"},
		Mutant{Prop: "C19", Name: "xover-at-last-hop", File: bf,
			Old: `	return s.PathMeta.CurrHF+1 < uint8(s.NumHops) &&`, New: `	return s.PathMeta.CurrHF < uint8(s.NumHops) &&`, Expect: "X1-boundaries"},
		Mutant{Prop: "C19", Name: "first-hop-after-xover-ignores-currhf", File: bf,
			Old: `	return s.PathMeta.CurrINF > 0 && s.PathMeta.CurrHF > 0 &&`, New: `	return s.PathMeta.CurrINF > 0 &&`, Expect: "X1-boundaries"},
		Mutant{Prop: "C19", Name: "incpath-past-the-end", File: bf,
			Old: `	if int(s.PathMeta.CurrHF) >= s.NumHops-1 {`, New: `	if int(s.PathMeta.CurrHF) > s.NumHops-1 {`, Expect: "P1-incpath"},
		Mutant{Prop: "C19", Name: "incpath-keeps-info-index", File: bf,
			Old: `	s.PathMeta.CurrINF = s.infIndexForHF(s.PathMeta.CurrHF)
	return nil`, New: `	return nil`, Expect: "P1-incpath"},
		Mutant{Prop: "C19", Name: "gap-between-segments-accepted", File: bf,
			Old: `		if s.PathMeta.SegLen[i] == 0 && s.NumINF > 0 {`, New: `		if s.PathMeta.SegLen[i] == 0 && s.NumINF > 1 {`, Expect: "D1-decode-shape"},
		Mutant{Prop: "C19", Name: "too-many-hops-accepted", File: bf,
			Old: `	if s.NumHops > MaxHops {`, New: `	if s.NumHops > MaxHops+1 {`, Expect: "D1-decode-shape"},
	)
}

func runC19(c *Ctx) {
	bT := "(*pkg/slayers/path/scion.Base)"
	rT := "(*pkg/slayers/path/scion.Raw)"
	bd := boolDom()
	idx := bT + ".infIndexForHF(recv, "
	if fn := c.Fn(bT + ".infIndexForHF"); fn != nil {
		RunTable(c, &TableSpec{
			Rule: "I1-inf-index", Fn: fn,
			Atoms: []Atom{
				{Name: "inFirst", Pats: []string{"(arg0 < recv.PathMeta.SegLen[0])"}, Domain: bd},
				{Name: "inFirstTwo", Pats: []string{"(arg0 < (recv.PathMeta.SegLen[0] + recv.PathMeta.SegLen[1]))"}, Domain: bd},
			},
			Oracle: func(a map[string]string) map[string]string {
				switch {
				case a["inFirst"] == "true" && a["inFirstTwo"] == "false":
					return nil // hf < s0 implies hf < s0+s1
				case a["inFirst"] == "true":
					return map[string]string{"ret": "0 || 0:uint8"}
				case a["inFirstTwo"] == "true":
					return map[string]string{"ret": "1 || 1:uint8"}
				}
				return map[string]string{"ret": "2 || 2:uint8"}
			},
		})
	}
	if fn := c.Fn(bT + ".IsXover"); fn != nil {
		RunTable(c, &TableSpec{
			Rule: "X1-boundaries", Fn: fn, NoInline: []string{"*"},
			Atoms: []Atom{
				{Name: "notLast", Pats: []string{"((recv.PathMeta.CurrHF + 1) < uint8(recv.NumHops))"}, Domain: bd},
				{Name: "nextInOtherSegment", Pats: []string{"(" + idx + "(recv.PathMeta.CurrHF + 1)) != recv.PathMeta.CurrINF)",
					"(recv.PathMeta.CurrINF != " + idx + "(recv.PathMeta.CurrHF + 1)))"}, Domain: bd},
			},
			Oracle: func(a map[string]string) map[string]string {
				return map[string]string{"ret": boolStr(a["notLast"] == "true" && a["nextInOtherSegment"] == "true")}
			},
		})
	}
	if fn := c.Fn(bT + ".IsFirstHopAfterXover"); fn != nil {
		RunTable(c, &TableSpec{
			Rule: "X1-boundaries", Fn: fn, NoInline: []string{"*"},
			Atoms: []Atom{
				{Name: "infPositive", Pats: []string{"(recv.PathMeta.CurrINF > 0)"}, Domain: bd},
				{Name: "hfPositive", Pats: []string{"(recv.PathMeta.CurrHF > 0)"}, Domain: bd},
				{Name: "prevInPrevSegment", Pats: []string{"(" + idx + "(recv.PathMeta.CurrHF - 1)) == (recv.PathMeta.CurrINF - 1))",
					"((recv.PathMeta.CurrINF - 1) == " + idx + "(recv.PathMeta.CurrHF - 1)))"}, Domain: bd},
			},
			Oracle: func(a map[string]string) map[string]string {
				return map[string]string{"ret": boolStr(a["infPositive"] == "true" && a["hfPositive"] == "true" && a["prevInPrevSegment"] == "true")}
			},
		})
	}
	retIs := func(q, rule string, wants ...string) {
		v := c.View(q)
		if v == nil {
			return
		}
		e := NewE1(c, v.Fn)
		ok, n := true, 0
		got := ""
		for _, r := range e.AllReturns() {
			n++
			got = v.S.Sym(r.(*ssa.Return).Results[0])
			hit := false
			for _, w := range wants {
				if got == w {
					hit = true
				}
			}
			ok = ok && hit
		}
		c.Check(ok && n == 1, rule, v.Name()+":definition", v.Fn.Pos(), "returns "+got+"; required "+strings.Join(wants, " or "))
	}
	retIs(rT+".CurrINFMatchesCurrHF", "X1-boundaries",
		"("+idx+"recv.Base.PathMeta.CurrHF) == recv.Base.PathMeta.CurrINF)", "(recv.Base.PathMeta.CurrINF == "+idx+"recv.Base.PathMeta.CurrHF))",
		"("+bT+".infIndexForHF(recv.Base, recv.Base.PathMeta.CurrHF) == recv.Base.PathMeta.CurrINF)",
		"(recv.Base.PathMeta.CurrINF == "+bT+".infIndexForHF(recv.Base, recv.Base.PathMeta.CurrHF))")
	retIs(rT+".IsLastHop", "X1-boundaries", "(int(recv.Base.PathMeta.CurrHF) == (recv.Base.NumHops - 1))", "((recv.Base.NumHops - 1) == int(recv.Base.PathMeta.CurrHF))")
	retIs(rT+".IsPenultimateHop", "X1-boundaries", "(int(recv.Base.PathMeta.CurrHF) == (recv.Base.NumHops - 2))", "((recv.Base.NumHops - 2) == int(recv.Base.PathMeta.CurrHF))")
	// P1
	if fn := c.Fn(bT + ".IncPath"); fn != nil {
		RunTable(c, &TableSpec{
			Rule: "P1-incpath", Fn: fn, NoInline: []string{"*"},
			Effects: []string{"recv.PathMeta.CurrHF", "recv.PathMeta.CurrINF"},
			Atoms: []Atom{
				{Name: "empty", Pats: []string{"(recv.NumINF == 0)"}, Domain: bd},
				{Name: "atEnd", Pats: []string{"(int(recv.PathMeta.CurrHF) >= (recv.NumHops - 1))"}, Domain: bd},
			},
			Oracle: func(a map[string]string) map[string]string {
				switch {
				case a["empty"] == "true":
					return map[string]string{"ret": "sym:*", "recv.PathMeta.CurrHF": "", "recv.PathMeta.CurrINF": ""}
				case a["atEnd"] == "true":
					return map[string]string{"ret": "sym:*", "recv.PathMeta.CurrHF": "sym:uint8((recv.NumHops - 1))", "recv.PathMeta.CurrINF": ""}
				}
				return map[string]string{"ret": "nil", "recv.PathMeta.CurrHF": "sym:(recv.PathMeta.CurrHF + 1)",
					"recv.PathMeta.CurrINF": "sym:" + idx + "recv.PathMeta.CurrHF)"}
			},
		})
		// the info index is computed from the NEW hop index
		v := ViewOf(c, fn)
		ok := false
		for _, ci := range v.Calls(bT + ".infIndexForHF") {
			for _, st := range v.Stores("recv.PathMeta.CurrHF") {
				if st.Val == "(recv.PathMeta.CurrHF + 1)" && instrDominates(st.In, ci.In.(ssa.Instruction)) {
					ok = true
				}
			}
		}
		c.Check(ok, "P1-incpath", v.Name()+":info-index-after-advance", fn.Pos(), "infIndexForHF is evaluated after CurrHF was advanced")
	}
	// D1
	if v := c.View(bT + ".DecodeFromBytes"); v != nil {
		rule := "D1-decode-shape"
		e := NewE1(c, v.Fn)
		maxHops := strings.SplitN(c.Const("pkg/slayers/path/scion.MaxHops"), ":", 2)[0]
		c.Check(maxHops == "64", rule, "MaxHops", 0, "MaxHops = "+maxHops+" (CurrHF has 6 bits)")
		e.Require(rule, "success", nil, e.SuccessReturns(),
			e.CallGuard(PassErrNil, "(*pkg/slayers/path/scion.MetaHdr).DecodeFromBytes"),
			e.AtomGuard("NumHops<=MaxHops", "-lt("+maxHops+", recv.NumHops)"),
			e.AtomGuard("all-three-lengths-visited", "+lt(phi(*), 0)"))
		seg := "recv.PathMeta.SegLen[phi(*)]"
		e.FailStop(rule, "contiguous", 1, Or("length non-zero or nothing above it",
			e.AtomGuard("len!=0", "-eq("+seg+", 0)"), e.AtomGuard("nothing-above", "-lt(0, recv.NumINF)")))
		// NumINF = i+1 exactly at the first (highest) non-zero length
		var setINF []ssa.Instruction
		okVal := true
		for _, st := range v.Stores("recv.NumINF") {
			if st.Val == "0" {
				continue
			}
			setINF = append(setINF, st.In)
			okVal = okVal && wild("(phi(*) + 1)", st.Val)
		}
		c.Check(okVal && len(setINF) == 1, rule, v.Name()+":NumINF-value", v.Fn.Pos(), "NumINF = index + 1")
		e.Require(rule, "NumINF", nil, setINF, e.AtomGuard("len>0", "+lt(0, "+seg+")"), e.AtomGuard("first-non-zero", "+eq(recv.NumINF, 0)"))
		// NumHops accumulates each length once, from 0
		okSum := 0
		for _, st := range v.Stores("recv.NumHops") {
			if st.Val == "0" {
				okSum++
				continue
			}
			if wild("(int("+seg+") + recv.NumHops)", st.Val) || wild("(recv.NumHops + int("+seg+"))", st.Val) {
				okSum++
			} else {
				okSum = -10
			}
		}
		c.Check(okSum == 2, rule, v.Name()+":NumHops-sum", v.Fn.Pos(), "NumHops starts at 0 and adds int(SegLen[i]) once per index")
		// the index runs 2, 1, 0
		okIdx := false
		for _, b := range v.Fn.Blocks {
			for _, in := range b.Instrs {
				phi, ok := in.(*ssa.Phi)
				if !ok || !cyclic(b) {
					continue
				}
				two, dec := false, false
				for _, ed := range phi.Edges {
					if k, isK := foldInt(ed); isK && k == 2 {
						two = true
					}
					if bo, isB := ed.(*ssa.BinOp); isB && bo.Op.String() == "-" && bo.X == ssa.Value(phi) {
						if k, isK := foldInt(bo.Y); isK && k == 1 {
							dec = true
						}
					}
				}
				okIdx = okIdx || (two && dec)
			}
		}
		c.Check(okIdx, rule, v.Name()+":index-2-down-to-0", v.Fn.Pos(), "the loop visits SegLen[2], SegLen[1], SegLen[0]")
	}
	_ = fmt.Sprint
}
