package main

func init() {
	setClaim("C01", claim{
		Text: "Structural necessary condition, decided on all CFG paths: process() cannot return " +
			"pForward without a checked hop-expiry test and a checked 6-byte constant-time MAC " +
			"comparison over the current info/hop field, repeated after doXover; dispatch closure " +
			"(processPkt→process, runProcessor sends only on pForward); failure exits carry the " +
			"documented SCMP code/pointer; MACInput byte layout. Not decided: numeric MAC " +
			"correctness, wall-clock expiry behaviour.",
		Note: claimNote, Technique: "static analysis: guard dominance by pass-edge removal on go/ssa CFG, " +
			"symbolic operand pairing, byte-layout extraction", Ref: "DESIGN.md §4 C01"})

	notApplicable["C02"] = "End-to-end acceptance of combinator-built paths by every router depends on concrete MACs, interface numbers and topologies (runtime values); no shape of the code implies it. Its structural preconditions are claimed under C01/C04/C22/C23."
}

// pending marks properties whose rules are not implemented yet (moved to
// not_applicable with that reason until they are).
func init() {
	for _, id := range []string{} {
		_ = id
	}
}
