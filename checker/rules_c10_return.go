package main

// C10, the way back inside the AS that answered: an SCMP reply (error or
// traceroute) is generated with the LOCAL ISD-AS as source and sent back over
// the link the request came in on. When another border router of the same AS
// owns that link's external side, the reply reaches it over a sibling/internal
// link, with a reversed path that is NOT at its first hop. validateSrcDstIA must
// let exactly that through: from inside the AS, a local source is fine at any
// hop, only a foreign source at the first hop is rejected; a local destination is
// rejected. (Same function as C05 T1; here only the cells a returning reply
// hits are stated, under C10's rule name.)
func init() {
	addMutants(
		Mutant{Prop: "C10", Name: "local-source-only-at-first-hop", File: "router/dataplane.go",
			Old: `		if p.path.IsFirstHop() && !srcIsLocal {`, New: `		if p.path.IsFirstHop() != srcIsLocal {`,
			Expect: "R3-reply-passes-siblings"},
	)
}

func c10ReplyPassesSrcDst(c *Ctx) {
	fn := c.Fn(procT + ".validateSrcDstIA")
	if fn == nil {
		return
	}
	RunTable(c, &TableSpec{
		Rule: "R3-reply-passes-siblings", Fn: fn, NoInline: noInlineDefault,
		Atoms: []Atom{
			{Name: "internal", Pats: []string{"(recv.ingressFromLink == 0)"}, Domain: []string{"true"}},
			{Name: "srcLocal", Pats: iaEqPats("SrcIA"), Domain: []string{"true"}},
			{Name: "dstLocal", Pats: iaEqPats("DstIA"), Domain: []string{"false"}},
			{Name: "first", Pats: []string{"(*pkg/slayers/path/scion.Raw).IsFirstHop(recv.path)"}, Domain: boolDom()},
		},
		Effects: []string{"local:complit.*"},
		Oracle: func(a map[string]string) map[string]string {
			return map[string]string{"ret": dispForward, "local:complit.code": ""}
		},
	})
}
