package main

import (
	"fmt"
	"strings"

	"golang.org/x/tools/go/ssa"
)

// callsThroughHelpers: calls of callee made by straight-line helpers of the same
// package that this function calls directly; the arguments are rendered in this
// function's terms (helper parameter N -> the N-th argument of the call of the
// helper, helper receiver -> that call's receiver argument). The reported
// instruction is the call of the helper, so that position and dominance are those
// of the site in this function. Only helpers without branches are followed: in a
// branching helper the call need not happen.
func (v *FnView) callsThroughHelpers(callee string) []CallInfo {
	var out []CallInfo
	for _, b := range v.Fn.Blocks {
		for _, in := range b.Instrs {
			ci, ok := in.(ssa.CallInstruction)
			if !ok {
				continue
			}
			h := ci.Common().StaticCallee()
			if h == nil || h.Blocks == nil || h.Pkg != v.Fn.Pkg || h == v.Fn || len(h.Blocks) != 1 {
				continue
			}
			hv := ViewOf(v.C, h)
			inner := hv.Calls(callee)
			if len(inner) == 0 {
				continue
			}
			// parameter names in the helper's frame: recv (if method), arg0..argN
			var from, to []string
			args := ci.Common().Args
			k := 0
			if h.Signature.Recv() != nil && len(args) > 0 {
				from, to = append(from, "recv"), append(to, v.S.Sym(args[0]))
				k = 1
			}
			for i := k; i < len(args); i++ {
				from, to = append(from, fmt.Sprintf("arg%d", i-k)), append(to, v.S.Sym(args[i]))
			}
			subst := func(s string) string {
				for i := len(from) - 1; i >= 0; i-- {
					s = replaceToken(s, from[i], fmt.Sprintf("\x00%d\x00", i))
				}
				for i := range from {
					s = strings.ReplaceAll(s, fmt.Sprintf("\x00%d\x00", i), to[i])
				}
				return s
			}
			for _, c := range inner {
				info := CallInfo{Callee: c.Callee, In: ci}
				for _, a := range c.Args {
					info.Args = append(info.Args, subst(a))
				}
				out = append(out, info)
			}
		}
	}
	return out
}

// replaceToken replaces tok in s where it is not part of a longer identifier.
func replaceToken(s, tok, with string) string {
	var sb strings.Builder
	for i := 0; i < len(s); {
		if strings.HasPrefix(s[i:], tok) {
			before := i == 0 || !isIdentByte(s[i-1])
			j := i + len(tok)
			after := j >= len(s) || !isIdentByte(s[j])
			if before && after {
				sb.WriteString(with)
				i = j
				continue
			}
		}
		sb.WriteByte(s[i])
		i++
	}
	return sb.String()
}

func isIdentByte(c byte) bool {
	return c == '_' || c == ':' || (c >= '0' && c <= '9') || (c >= 'a' && c <= 'z') || (c >= 'A' && c <= 'Z')
}

// slowPathHelper: ret is the result of calling a straight-line method of the same
// receiver whose every return is the constant pSlowPath (2) and which stores a
// slowPathRequest composite. Returns that composite's members rendered in the
// CALLER's terms (the helper's parameters replaced by the caller's arguments),
// and whether the request is stored into recv.pkt.slowPathRequest.
//
// This is what makes "the duplicated slow-path request was moved into a helper"
// a non-event for the rules that check the request's content.
func slowPathHelper(c *Ctx, v *FnView, ret ssa.Value) (got map[string]string, stored, isHelper bool) {
	call, ok := ret.(*ssa.Call)
	if !ok {
		return nil, false, false
	}
	callee := call.Common().StaticCallee()
	if callee == nil || callee.Blocks == nil || callee.Pkg != v.Fn.Pkg || callee.Signature.Recv() == nil {
		return nil, false, false
	}
	if len(call.Common().Args) == 0 || v.S.Sym(call.Common().Args[0]) != "recv" {
		return nil, false, false
	}
	for _, b := range callee.Blocks {
		if r, isR := b.Instrs[len(b.Instrs)-1].(*ssa.Return); isR {
			if len(r.Results) != 1 {
				return nil, false, false
			}
			if i, isK := constInt(r.Results[0]); !isK || i != 2 {
				return nil, false, false
			}
		}
	}
	hv := ViewOf(c, callee)
	subst := func(s string) string {
		// argN of the helper -> the caller's N-th non-receiver argument
		for i := len(call.Common().Args) - 1; i >= 1; i-- {
			s = strings.ReplaceAll(s, fmt.Sprintf("arg%d", i-1), "\x00"+fmt.Sprint(i))
		}
		for i := 1; i < len(call.Common().Args); i++ {
			s = strings.ReplaceAll(s, "\x00"+fmt.Sprint(i), v.S.Sym(call.Common().Args[i]))
		}
		return s
	}
	got = map[string]string{}
	for _, st := range hv.Stores("local:complit.*") {
		got[st.Addr] = subst(st.Val)
	}
	for range hv.Stores("recv.pkt.slowPathRequest") {
		stored = true
	}
	return got, stored, true
}
