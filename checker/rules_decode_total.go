package main

import (
	"fmt"
	"strings"

	"golang.org/x/tools/go/ssa"
)

// C07 / C19 (and C12 for the one-hop path): the layer and path objects are reused
// from packet to packet (RecyclePaths), so a decoder is a TOTAL overwrite or it
// leaks the previous packet into this one. Fifth-round seeds: onehop.Path skipped
// the decode of an all-zero second hop and kept the previous packet's second hop,
// which the egress router then serialized into a packet it was only forwarding
// (C07: bytes outside the mutable path state changed); scion.Decoded kept its
// field slices when they were long enough, so a shorter path after a longer one
// had stale tail entries that SerializeTo wrote (C19: raw and decoded disagree).
//
// Rule D2:
//   - (*onehop.Path).DecodeFromBytes: a return of the constant nil is dominated by
//     the member decodes of Info, FirstHop and SecondHop; a tail call is the decode
//     of one member and dominated by the other two.
//   - (*scion.Decoded).DecodeFromBytes: every return of the constant nil is
//     dominated by a store into InfoFields of a slice of length NumINF and a store
//     into HopFields of a slice of length NumHops (make, or a re-slice to exactly
//     that length; through a phi, every edge).
func init() {
	for _, p := range []string{"C07", "C12"} {
		addMutants(Mutant{Prop: p, Name: "onehop-decode-skips-a-blank-second-hop", File: "pkg/slayers/path/onehop/onehop.go",
			Old: `	return o.SecondHop.DecodeFromBytes(data[offset : offset+path.HopLen])`,
			New: `	if data[offset+1] == 0 {
		return nil
	}
	return o.SecondHop.DecodeFromBytes(data[offset : offset+path.HopLen])`, Expect: "D2-decode-overwrites-everything"})
	}
	addMutants(Mutant{Prop: "C19", Name: "decoded-keeps-long-enough-field-slices", File: "pkg/slayers/path/scion/decoded.go",
		Old: `	s.HopFields = make([]path.HopField, s.NumHops)`,
		New: `	if len(s.HopFields) < s.NumHops {
		s.HopFields = make([]path.HopField, s.NumHops)
	}`, Expect: "D2-decode-overwrites-everything"})
	wrap := func(id string, roots []string, f func(*Ctx)) {
		r := registry[id]
		old := r.Run
		r.Run = func(c *Ctx) { f(c); old(c) }
		for _, nr := range roots {
			have := false
			for _, x := range r.Roots {
				have = have || x == nr
			}
			if !have {
				r.Roots = append(r.Roots, nr)
			}
		}
	}
	wrap("C07", []string{"./pkg/slayers/path/onehop"}, func(c *Ctx) { decodeTotalOneHop(c, "D2-decode-overwrites-everything") })
	wrap("C12", []string{"./pkg/slayers/path/onehop"}, func(c *Ctx) { decodeTotalOneHop(c, "D2-decode-overwrites-everything") })
	wrap("C19", nil, func(c *Ctx) { decodeTotalDecoded(c, "D2-decode-overwrites-everything") })
}

func decodeTotalOneHop(c *Ctx, rule string) {
	v := c.View("(*pkg/slayers/path/onehop.Path).DecodeFromBytes")
	if v == nil {
		return
	}
	members := map[string]ssa.Instruction{}
	for _, ci := range v.Calls("(*pkg/slayers/path.InfoField).DecodeFromBytes", "(*pkg/slayers/path.HopField).DecodeFromBytes") {
		switch ci.Args[0] {
		case "recv.Info", "recv.FirstHop", "recv.SecondHop":
			members[ci.Args[0]] = ci.In
		}
	}
	if !c.Check(len(members) == 3, rule, v.Name()+":member-decodes", v.Fn.Pos(), fmt.Sprintf("%d of the 3 members (Info, FirstHop, SecondHop) are decoded", len(members))) {
		return
	}
	domAllBut := func(in ssa.Instruction, skip ssa.Instruction) bool {
		for _, m := range members {
			if m != skip && !instrDominates(m, in) {
				return false
			}
		}
		return true
	}
	n := 0
	for _, b := range v.Fn.Blocks {
		r, ok := b.Instrs[len(b.Instrs)-1].(*ssa.Return)
		if !ok || len(r.Results) != 1 {
			continue
		}
		switch x := r.Results[0].(type) {
		case *ssa.Const:
			if x.IsNil() {
				n++
				c.Check(domAllBut(r, nil), rule, fmt.Sprintf("%s:success-return-%d", v.Name(), n), r.Pos(), "a successful return has decoded all three members")
			}
		case *ssa.Call:
			if cn := calleeName(x.Common()); strings.HasPrefix(cn, "pkg/private/serrors.") || cn == "fmt.Errorf" || cn == "errors.New" {
				continue // an error is constructed and returned
			}
			if x.Block() == b {
				n++
				isMember := false
				for _, m := range members {
					isMember = isMember || m == ssa.Instruction(x)
				}
				c.Check(isMember && domAllBut(r, x), rule, fmt.Sprintf("%s:success-return-%d", v.Name(), n), r.Pos(), "the final decode is a member decode and the other two members were decoded before it")
			}
		}
	}
	c.Min("onehop-decode-success-returns", n, 1)
}

func decodeTotalDecoded(c *Ctx, rule string) {
	v := c.View("(*pkg/slayers/path/scion.Decoded).DecodeFromBytes")
	if v == nil {
		return
	}
	var exact func(x ssa.Value, n string, depth int) bool
	exact = func(x ssa.Value, n string, depth int) bool {
		if depth > 4 {
			return false
		}
		switch y := x.(type) {
		case *ssa.MakeSlice:
			return v.S.Sym(y.Len) == n
		case *ssa.Slice:
			return y.High != nil && v.S.Sym(y.High) == n && y.Low == nil
		case *ssa.Phi:
			for _, ed := range y.Edges {
				if !exact(ed, n, depth+1) {
					return false
				}
			}
			return len(y.Edges) > 0
		}
		return false
	}
	var nilReturns []ssa.Instruction
	for _, b := range v.Fn.Blocks {
		if r, ok := b.Instrs[len(b.Instrs)-1].(*ssa.Return); ok && len(r.Results) == 1 {
			if k, isK := r.Results[0].(*ssa.Const); isK && k.IsNil() {
				nilReturns = append(nilReturns, r)
			}
		}
	}
	c.Min("decoded-decode-success-returns", len(nilReturns), 1)
	for _, m := range [][2]string{{"recv.InfoFields", "recv.Base.NumINF"}, {"recv.HopFields", "recv.Base.NumHops"}} {
		var good []ssa.Instruction
		for _, st := range v.Stores(m[0]) {
			if exact(st.In.Val, m[1], 0) {
				good = append(good, st.In)
			}
		}
		ok := len(nilReturns) > 0
		for _, r := range nilReturns {
			d := false
			for _, g := range good {
				d = d || instrDominates(g, r)
			}
			ok = ok && d
		}
		c.Check(ok, rule, v.Name()+":"+m[0]+":has-exactly-the-decoded-length", v.Fn.Pos(), fmt.Sprintf(
			"every successful return is dominated by a store of a slice of length %s into %s (%d such store(s))", m[1], m[0], len(good)))
	}
}
