package main

import (
	"fmt"
	"strings"

	"golang.org/x/tools/go/ssa"
)

// C46, hosts: a Host keeps its netip.Addr verbatim - the 16-byte ::ffff:a.b.c.d
// and the 4-byte a.b.c.d are different hosts (they compare unequal and are packed
// differently by callers that do not unmap). Formatting then parsing gives back
// the same Host only if neither side normalises: String() prints the stored
// address itself, ParseHost stores the parsed address itself.
//
// Rule H1: Host.String() returns netip.Addr.String(h.ip) for the IP kind and
// SVC.String(h.svc) for the SVC kind, selected by Type(); ParseHost and HostIP
// store the address they are given / have parsed without Unmap/WithZone/As4/As16.
func init() {
	addMutants(
		Mutant{Prop: "C46", Name: "host-printed-unmapped", File: "pkg/addr/host.go",
			Old: `		return h.ip.String()`, New: `		return h.ip.Unmap().String()`, Expect: "H1-host-verbatim"},
	)
}

func c46HostVerbatim(c *Ctx) {
	rule := "H1-host-verbatim"
	ap := "pkg/addr."
	if v := c.View("(" + ap + "Host).String"); v != nil {
		want := map[string]string{
			"+eq((" + ap + "Host).Type(recv), 1:" + ap + "HostAddrType)": "(net/netip.Addr).String(recv.ip)",
			"+eq((" + ap + "Host).Type(recv), 2:" + ap + "HostAddrType)": "(" + ap + "SVC).String(recv.svc)",
		}
		got := map[string]string{}
		for _, b := range v.Fn.Blocks {
			r, ok := b.Instrs[len(b.Instrs)-1].(*ssa.Return)
			if !ok || len(r.Results) != 1 {
				continue
			}
			for _, l := range append(dominatingLits(b), blockLits(b)...) {
				if s := l.String(v.S); want[s] != "" {
					got[s] = v.S.Sym(r.Results[0])
				}
			}
		}
		var bad []string
		for lit, w := range want {
			if got[lit] != w {
				bad = append(bad, fmt.Sprintf("under %s returns %q, required %q", lit, got[lit], w))
			}
		}
		c.Check(len(bad) == 0, rule, v.Name()+":prints-the-stored-value", v.Fn.Pos(), "the IP kind prints the stored address, the SVC kind the stored service: "+strings.Join(bad, "; "))
	}
	normalisers := []string{"(net/netip.Addr).Unmap", "(net/netip.Addr).WithZone", "(net/netip.Addr).As4", "(net/netip.Addr).As16", "net/netip.AddrFrom4", "net/netip.AddrFrom16"}
	for _, q := range []string{ap + "ParseHost", ap + "HostIP", "(" + ap + "Host).String", "(" + ap + "Host).IP"} {
		v := c.View(q)
		if v == nil {
			continue
		}
		n := len(v.Calls(normalisers...))
		c.Check(n == 0, rule, v.Name()+":no-normalisation", v.Fn.Pos(), fmt.Sprintf("%d call(s) that change the representation of the address (Unmap, WithZone, As4, As16, AddrFrom4/16)", n))
	}
	if v := c.View(ap + "HostIP"); v != nil {
		v.RequireStore(rule, 1, "local:complit.ip", "arg0")
	}
}
