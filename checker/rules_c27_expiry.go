package main

import (
	"fmt"
	"strings"
)

// C27, the expiry the clean-up deletes by: DeleteExpired removes the rows whose
// MaxExpiry column lies in the past. A stored segment is "not expired" while its
// latest hop expiry is ahead, so every statement that writes the column - the
// first insert and the update of an existing row - must write the segment's
// MaxExpiry() in seconds (fifth-round seed: the update path wrote MinExpiry(), so
// "insert v2" and "insert v1; insert v2" left different rows and a clean-up
// deleted a live segment in the second history only).
//
// Rule E1: in private/storage/path/sqlite every INSERT/UPDATE placeholder of the
// column MaxExpiry is bound to (*PathSegment).MaxExpiry(<the stored segment>).Unix(),
// at least two such statements exist, and the DELETE compares the column with a
// time in seconds (.Unix()).
func init() {
	addMutants(
		Mutant{Prop: "C27", Name: "update-writes-min-expiry", File: "private/storage/path/sqlite/sqlite.go",
			Old: `	exp := meta.Seg.MaxExpiry().Unix()`, New: `	exp := meta.Seg.MinExpiry().Unix()`, Expect: "E1-expiry-column-agreement"},
		Mutant{Prop: "C27", Name: "insert-writes-expiry-in-nanoseconds", File: "private/storage/path/sqlite/sqlite.go",
			Old: `	exp := pseg.MaxExpiry().Unix()`, New: `	exp := pseg.MaxExpiry().UnixNano()`, Expect: "E1-expiry-column-agreement"},
	)
	r := registry["C27"]
	old := r.Run
	r.Run = func(c *Ctx) { c27ExpiryColumnAgreement(c, "E1-expiry-column-agreement"); old(c) }
}

func c27ExpiryColumnAgreement(c *Ctx, rule string) {
	writes, deletes := 0, 0
	for _, b := range sqlBindings(c, "private/storage/path/sqlite") {
		for i := 0; i < len(b.Cols) && i < len(b.Args); i++ {
			if b.Cols[i] != "MaxExpiry" {
				continue
			}
			first := strings.Join(strings.Fields(b.Stmt), " ")
			if len(first) > 40 {
				first = first[:40]
			}
			construct := FuncName(b.Fn) + ":" + first + ":MaxExpiry"
			a := b.Args[i]
			switch b.Kind {
			case "INSERT", "UPDATE":
				writes++
				ok := strings.HasPrefix(a, "(time.Time).Unix((*pkg/segment.PathSegment).MaxExpiry(") && !strings.Contains(a, "MinExpiry")
				c.Check(ok, rule, construct, b.Call.Pos(), "the column is written with "+short(a)+"; required: the segment's MaxExpiry() in seconds")
			case "DELETE", "SELECT":
				deletes++
				c.Check(strings.HasPrefix(a, "(time.Time).Unix("), rule, construct, b.Call.Pos(), "the column is compared with "+short(a)+"; required: a time in seconds")
			default:
				c.Unknown(rule, construct, b.Call.Pos(), "statement kind "+b.Kind)
			}
		}
		if len(b.Cols) != len(b.Args) && strings.Contains(b.Stmt, "MaxExpiry") {
			c.Unknown(rule, FuncName(b.Fn)+":placeholders", b.Call.Pos(), fmt.Sprintf("%d placeholders, %d arguments in a statement that names MaxExpiry", len(b.Cols), len(b.Args)))
		}
	}
	c.Min("max-expiry-writers", writes, 2)
	c.Min("max-expiry-comparisons", deletes, 1)
}
