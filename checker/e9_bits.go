package main

import (
	"go/constant"
	"go/token"
	"go/types"

	"golang.org/x/tools/go/ssa"
)

// E9 - bit dependence of small pure integer functions (flag/field accessors).
//
// bitDeps computes, for a function of ONE integer parameter (the receiver of an
// accessor like PacketAuthSPI.Type), an over-approximation of the set of input
// bits the result may depend on. Every SSA value gets a vector "result bit i may
// depend on input bits S_i"; masks, shifts and conversions move or drop bits
// exactly, arithmetic and comparisons smear (every result bit depends on every
// operand bit), a phi additionally depends on every branch condition of the
// function. Anything the analysis does not model makes the answer "unknown"
// (ok=false), which callers must treat as a failure.
//
// foldAt evaluates such a function by constant folding at one input. Together:
// if the result depends on input bits B only, folding at the 2^|B| assignments of
// B (all other bits zero) is the complete truth table of the function.

const allBits = ^uint64(0)

type bitVec [64]uint64

func (b *bitVec) union() uint64 {
	var u uint64
	for _, x := range b {
		u |= x
	}
	return u
}

func smear(u uint64, width int) bitVec {
	var r bitVec
	for i := 0; i < width && i < 64; i++ {
		r[i] = u
	}
	return r
}

func intWidth(t types.Type) (int, bool) {
	b, ok := t.Underlying().(*types.Basic)
	if !ok {
		return 0, false
	}
	switch b.Kind() {
	case types.Bool:
		return 1, true
	case types.Int8, types.Uint8:
		return 8, true
	case types.Int16, types.Uint16:
		return 16, true
	case types.Int32, types.Uint32:
		return 32, true
	case types.Int64, types.Uint64, types.Int, types.Uint, types.Uintptr:
		return 64, true
	case types.UntypedInt:
		return 64, true
	}
	return 0, false
}

func isUnsigned(t types.Type) bool {
	b, ok := t.Underlying().(*types.Basic)
	return ok && b.Info()&types.IsUnsigned != 0
}

func constU64(v ssa.Value) (uint64, bool) {
	k, ok := v.(*ssa.Const)
	if !ok || k.Value == nil {
		return 0, false
	}
	switch k.Value.Kind() {
	case constant.Int:
		if u, exact := constant.Uint64Val(k.Value); exact {
			return u, true
		}
		if i, exact := constant.Int64Val(k.Value); exact {
			return uint64(i), true
		}
	case constant.Bool:
		if constant.BoolVal(k.Value) {
			return 1, true
		}
		return 0, true
	}
	return 0, false
}

// bitDeps: the union over all returns of the per-bit dependence of result 0 on
// the bits of parameter 0.
func bitDeps(fn *ssa.Function) (bitVec, bool) {
	var none bitVec
	if len(fn.Params) != 1 || fn.Signature.Results().Len() != 1 {
		return none, false
	}
	if _, ok := intWidth(fn.Params[0].Type()); !ok {
		return none, false
	}
	// control dependence, conservatively: every branch condition of the function
	memo := map[ssa.Value]*bitVec{}
	var dep func(v ssa.Value, depth int) (*bitVec, bool)
	dep = func(v ssa.Value, depth int) (*bitVec, bool) {
		if r, ok := memo[v]; ok {
			if r == nil {
				return &bitVec{}, true // cycle through a phi: contributes nothing new
			}
			return r, true
		}
		if depth > 64 {
			return nil, false
		}
		memo[v] = nil
		w, okW := intWidth(v.Type())
		if !okW {
			return nil, false
		}
		var out bitVec
		switch x := v.(type) {
		case *ssa.Const:
		case *ssa.Parameter:
			for i := 0; i < w; i++ {
				out[i] = 1 << uint(i)
			}
		case *ssa.Convert:
			in, ok := dep(x.X, depth+1)
			if !ok {
				return nil, false
			}
			wi, okI := intWidth(x.X.Type())
			if !okI {
				return nil, false
			}
			for i := 0; i < w; i++ {
				switch {
				case i < wi:
					out[i] = in[i]
				case !isUnsigned(x.X.Type()):
					out[i] = in[wi-1] // sign extension
				}
			}
		case *ssa.ChangeType:
			in, ok := dep(x.X, depth+1)
			if !ok {
				return nil, false
			}
			out = *in
		case *ssa.UnOp:
			in, ok := dep(x.X, depth+1)
			if !ok {
				return nil, false
			}
			switch x.Op {
			case token.XOR, token.NOT:
				out = *in
			case token.SUB:
				out = smear(in.union(), w)
			default:
				return nil, false
			}
		case *ssa.BinOp:
			a, okA := dep(x.X, depth+1)
			b, okB := dep(x.Y, depth+1)
			if !okA || !okB {
				return nil, false
			}
			ka, isKA := constU64(x.X)
			kb, isKB := constU64(x.Y)
			switch x.Op {
			case token.AND:
				for i := 0; i < w; i++ {
					switch {
					case isKB && kb>>uint(i)&1 == 0, isKA && ka>>uint(i)&1 == 0:
					default:
						out[i] = a[i] | b[i]
					}
				}
			case token.AND_NOT:
				for i := 0; i < w; i++ {
					if isKB && kb>>uint(i)&1 == 1 {
						continue
					}
					out[i] = a[i] | b[i]
				}
			case token.OR, token.XOR:
				for i := 0; i < w; i++ {
					out[i] = a[i] | b[i]
				}
			case token.SHR:
				if !isKB || !isUnsigned(x.X.Type()) {
					out = smear(a.union()|b.union(), w)
					break
				}
				for i := 0; i < w; i++ {
					if j := i + int(kb); j < w {
						out[i] = a[j]
					}
				}
			case token.SHL:
				if !isKB {
					out = smear(a.union()|b.union(), w)
					break
				}
				for i := 0; i < w; i++ {
					if j := i - int(kb); j >= 0 {
						out[i] = a[j]
					}
				}
			case token.ADD, token.SUB, token.MUL, token.QUO, token.REM:
				out = smear(a.union()|b.union(), w)
			case token.EQL, token.NEQ, token.LSS, token.LEQ, token.GTR, token.GEQ:
				out[0] = a.union() | b.union()
			default:
				return nil, false
			}
		case *ssa.Phi:
			var ctl uint64
			for _, blk := range fn.Blocks {
				if iff, ok := blk.Instrs[len(blk.Instrs)-1].(*ssa.If); ok {
					cd, okC := dep(iff.Cond, depth+1)
					if !okC {
						return nil, false
					}
					ctl |= cd.union()
				}
			}
			for _, e := range x.Edges {
				ed, ok := dep(e, depth+1)
				if !ok {
					return nil, false
				}
				for i := 0; i < w; i++ {
					out[i] |= ed[i]
				}
			}
			for i := 0; i < w; i++ {
				out[i] |= ctl
			}
		default:
			return nil, false
		}
		memo[v] = &out
		return &out, true
	}
	var res bitVec
	nRet := 0
	for _, b := range fn.Blocks {
		ret, ok := b.Instrs[len(b.Instrs)-1].(*ssa.Return)
		if !ok {
			continue
		}
		nRet++
		d, okD := dep(ret.Results[0], 0)
		if !okD {
			return none, false
		}
		for i := range res {
			res[i] |= d[i]
		}
	}
	if nRet > 1 {
		// which return is taken is decided by the branch conditions
		var ctl uint64
		for _, blk := range fn.Blocks {
			if iff, ok := blk.Instrs[len(blk.Instrs)-1].(*ssa.If); ok {
				cd, okC := dep(iff.Cond, 0)
				if !okC {
					return none, false
				}
				ctl |= cd.union()
			}
		}
		w, _ := intWidth(fn.Signature.Results().At(0).Type())
		for i := 0; i < w; i++ {
			res[i] |= ctl
		}
	}
	return res, nRet > 0
}

// foldAt: the value fn returns for the input arg, by constant folding along the
// one feasible path. ok=false if anything outside the modelled integer fragment
// is met.
func foldAt(fn *ssa.Function, arg uint64) (uint64, bool) {
	if len(fn.Params) != 1 || len(fn.Blocks) == 0 {
		return 0, false
	}
	return foldCore(fn, &arg, nil)
}

// foldLoads: like foldAt for a function whose inputs are loads from memory (members
// of its receiver / arguments): load gives the value of each load instruction.
func foldLoads(fn *ssa.Function, load func(*ssa.UnOp) (uint64, bool)) (uint64, bool) {
	if len(fn.Blocks) == 0 {
		return 0, false
	}
	return foldCore(fn, nil, load)
}

func foldCore(fn *ssa.Function, argp *uint64, load func(*ssa.UnOp) (uint64, bool)) (uint64, bool) {
	val := map[ssa.Value]uint64{}
	trunc := func(u uint64, t types.Type) (uint64, bool) {
		w, ok := intWidth(t)
		if !ok {
			return 0, false
		}
		if w < 64 {
			u &= 1<<uint(w) - 1
		}
		return u, true
	}
	get := func(v ssa.Value) (uint64, bool) {
		if k, ok := constU64(v); ok {
			return trunc(k, v.Type())
		}
		u, ok := val[v]
		return u, ok
	}
	sext := func(u uint64, t types.Type) int64 {
		w, _ := intWidth(t)
		if w < 64 && !isUnsigned(t) && u>>(uint(w)-1)&1 == 1 {
			u |= ^uint64(0) << uint(w)
		}
		return int64(u)
	}
	if argp != nil {
		a0, ok := trunc(*argp, fn.Params[0].Type())
		if !ok {
			return 0, false
		}
		val[fn.Params[0]] = a0
	}
	blk, prev := fn.Blocks[0], (*ssa.BasicBlock)(nil)
	for steps := 0; steps < 10000; steps++ {
		for _, in := range blk.Instrs {
			switch x := in.(type) {
			case *ssa.Phi:
				for i, p := range blk.Preds {
					if p == prev {
						u, ok := get(x.Edges[i])
						if !ok {
							return 0, false
						}
						val[x] = u
					}
				}
			case *ssa.DebugRef:
			case *ssa.Convert:
				u, ok := get(x.X)
				if !ok {
					return 0, false
				}
				r, ok := trunc(uint64(sext(u, x.X.Type())), x.Type())
				if !ok {
					return 0, false
				}
				val[x] = r
			case *ssa.ChangeType:
				u, ok := get(x.X)
				if !ok {
					return 0, false
				}
				val[x] = u
			case *ssa.FieldAddr, *ssa.IndexAddr:
				// addresses are not values; the loads through them are resolved by the hook
			case *ssa.UnOp:
				if x.Op == token.MUL {
					if load == nil {
						return 0, false
					}
					u, ok := load(x)
					if !ok {
						return 0, false
					}
					r, ok := trunc(u, x.Type())
					if !ok {
						return 0, false
					}
					val[x] = r
					continue
				}
				u, ok := get(x.X)
				if !ok {
					return 0, false
				}
				var r uint64
				switch x.Op {
				case token.XOR:
					r = ^u
				case token.NOT:
					r = u ^ 1
				case token.SUB:
					r = -u
				default:
					return 0, false
				}
				if r, ok = trunc(r, x.Type()); !ok {
					return 0, false
				}
				val[x] = r
			case *ssa.BinOp:
				a, okA := get(x.X)
				b, okB := get(x.Y)
				if !okA || !okB {
					return 0, false
				}
				uns := isUnsigned(x.X.Type())
				sa, sb := sext(a, x.X.Type()), sext(b, x.Y.Type())
				var r uint64
				bo := func(c bool) uint64 {
					if c {
						return 1
					}
					return 0
				}
				switch x.Op {
				case token.AND:
					r = a & b
				case token.OR:
					r = a | b
				case token.XOR:
					r = a ^ b
				case token.AND_NOT:
					r = a &^ b
				case token.ADD:
					r = a + b
				case token.SUB:
					r = a - b
				case token.MUL:
					r = a * b
				case token.SHL:
					if b >= 64 {
						r = 0
					} else {
						r = a << b
					}
				case token.SHR:
					switch {
					case uns && b >= 64:
						r = 0
					case uns:
						r = a >> b
					case b >= 64:
						r = uint64(sa >> 63)
					default:
						r = uint64(sa >> b)
					}
				case token.QUO, token.REM:
					if b == 0 {
						return 0, false
					}
					switch {
					case uns && x.Op == token.QUO:
						r = a / b
					case uns:
						r = a % b
					case x.Op == token.QUO:
						r = uint64(sa / sb)
					default:
						r = uint64(sa % sb)
					}
				case token.EQL:
					r = bo(a == b)
				case token.NEQ:
					r = bo(a != b)
				case token.LSS:
					r = bo((uns && a < b) || (!uns && sa < sb))
				case token.LEQ:
					r = bo((uns && a <= b) || (!uns && sa <= sb))
				case token.GTR:
					r = bo((uns && a > b) || (!uns && sa > sb))
				case token.GEQ:
					r = bo((uns && a >= b) || (!uns && sa >= sb))
				default:
					return 0, false
				}
				var ok bool
				if r, ok = trunc(r, x.Type()); !ok {
					return 0, false
				}
				val[x] = r
			case *ssa.If:
				cnd, ok := get(x.Cond)
				if !ok {
					return 0, false
				}
				prev = blk
				if cnd != 0 {
					blk = blk.Succs[0]
				} else {
					blk = blk.Succs[1]
				}
			case *ssa.Jump:
				prev, blk = blk, blk.Succs[0]
			case *ssa.Return:
				if len(x.Results) != 1 {
					return 0, false
				}
				return get(x.Results[0])
			default:
				return 0, false
			}
		}
	}
	return 0, false
}
