package main

import (
	"fmt"
	"go/constant"
	"sort"
	"strings"

	"golang.org/x/tools/go/ssa"
)

// C46, service addresses: ParseSVC and SVC.String are two finite tables that
// must be each other's inverse: the (name, value) pairs ParseSVC accepts are
// exactly the (value, name) pairs BaseString prints, and the multicast suffix
// "_M" stands for the SVCMcast bit on both sides ("_A" is accepted for anycast
// and means no bit).
func init() {
	addMutants(
		Mutant{Prop: "C46", Name: "svc-name-parsed-as-other-service", File: "pkg/addr/svc.go",
			Old: `	case "DS":
		return SvcDS | m, nil`, New: `	case "DS":
		return SvcCS | m, nil`, Expect: "S1-svc-tables-agree"},
		Mutant{Prop: "C46", Name: "svc-multicast-printed-as-anycast", File: "pkg/addr/svc.go",
			Old: `		s += "_M"`, New: `		s += "_A"`, Expect: "S1-svc-tables-agree"},
		Mutant{Prop: "C46", Name: "svc-anycast-suffix-sets-multicast", File: "pkg/addr/svc.go",
			Old: `		str = strings.TrimSuffix(str, "_A")
	case`, New: `		str = strings.TrimSuffix(str, "_A")
		m = SVCMcast
	case`, Expect: "S1-svc-tables-agree"},
	)
}

func c46SvcTables(c *Ctx) {
	rule := "S1-svc-tables-agree"
	pv := c.View("pkg/addr.ParseSVC")
	bv := c.View("(pkg/addr.SVC).BaseString")
	sv := c.View("(pkg/addr.SVC).String")
	if pv == nil || bv == nil || sv == nil {
		return
	}
	strConst := func(v ssa.Value) (string, bool) {
		k, ok := v.(*ssa.Const)
		if !ok || k.Value == nil || k.Value.Kind() != constant.String {
			return "", false
		}
		return constant.StringVal(k.Value), true
	}
	// name compared on the path to a block: +eq(<something>, "NAME")
	nameOn := func(v *FnView, b *ssa.BasicBlock) (string, bool) {
		for _, l := range dominatingLits(b) {
			if l.Kind == "eq" && l.Pos {
				if s, ok := strConst(l.Y); ok {
					return s, true
				}
				if s, ok := strConst(l.X); ok {
					return s, true
				}
			}
		}
		return "", false
	}
	// at most ONE suffix is taken off: every suffix operation works on the text as
	// given, never on an already shortened one ("CS_M_A" is not a spelling)
	nSuffix, okSuffix := 0, true
	for _, b := range pv.Fn.Blocks {
		for _, in := range b.Instrs {
			call, ok := in.(*ssa.Call)
			if !ok {
				continue
			}
			switch calleeName(call.Common()) {
			case "strings.TrimSuffix", "strings.CutSuffix", "strings.HasSuffix":
				nSuffix++
				okSuffix = okSuffix && pv.S.Sym(call.Common().Args[0]) == "arg0"
			}
		}
	}
	c.Check(okSuffix && nSuffix >= 2, rule, "ParseSVC:one-suffix", pv.Fn.Pos(),
		fmt.Sprintf("%d suffix operation(s), each applied to the text as given", nSuffix))
	parse := map[string]string{}
	mcastParse := ""
	for _, b := range pv.Fn.Blocks {
		r, ok := b.Instrs[len(b.Instrs)-1].(*ssa.Return)
		if !ok || len(r.Results) != 2 {
			continue
		}
		if k, isK := r.Results[1].(*ssa.Const); !isK || !k.IsNil() {
			continue
		}
		name, ok := nameOn(pv, b)
		if !ok {
			c.Fail(rule, pv.Name()+":success-without-name", r.Pos(), "ParseSVC succeeds on a path that compared the text with no name")
			continue
		}
		// value: CONST | m
		val := ""
		if bo, isB := r.Results[0].(*ssa.BinOp); isB && bo.Op.String() == "|" {
			for _, op := range []ssa.Value{bo.X, bo.Y} {
				if k, isK := op.(*ssa.Const); isK {
					val = constStr(k)
				} else if phi, isPhi := op.(*ssa.Phi); isPhi {
					// the multicast bit: non-zero exactly on the "_M" edge
					for i, e := range phi.Edges {
						k, isK := e.(*ssa.Const)
						if !isK {
							continue
						}
						if z, _ := constant.Int64Val(k.Value); z != 0 {
							pred := phi.Block().Preds[i]
							behindM := false
							for _, l := range append(dominatingLits(pred), litsOnEdge(pred, phi.Block())...) {
								if l.Kind == "true" && l.Pos && strings.Contains(l.String(pv.S), `"_M"`) {
									behindM = true
								}
							}
							if behindM && mcastParse != "!" {
								mcastParse = constStr(k)
							} else {
								mcastParse = "!" // a bit is set for a suffix other than "_M"
							}
						}
					}
				}
			}
		}
		parse[name] = val
	}
	print := map[string]string{}
	for _, b := range bv.Fn.Blocks {
		r, ok := b.Instrs[len(b.Instrs)-1].(*ssa.Return)
		if !ok {
			continue
		}
		name, isStr := strConst(r.Results[0])
		if !isStr {
			continue
		}
		for _, l := range dominatingLits(b) {
			if l.Kind == "eq" && l.Pos && strings.Contains(bv.S.Sym(l.X), "Base(recv)") {
				if k, isK := l.Y.(*ssa.Const); isK {
					print[name] = constStr(k)
				}
			}
		}
	}
	render := func(m map[string]string) string {
		var ks []string
		for k, v := range m {
			ks = append(ks, k+"="+v)
		}
		sort.Strings(ks)
		return strings.Join(ks, " ")
	}
	c.Check(len(parse) >= 3 && render(parse) == render(print), rule, "ParseSVC~BaseString", pv.Fn.Pos(),
		fmt.Sprintf("ParseSVC accepts {%s}; BaseString prints {%s}", render(parse), render(print)))
	// multicast: String appends "_M" exactly under IsMulticast, whose bit is the one ParseSVC sets for "_M"
	okM := false
	for _, b := range sv.Fn.Blocks {
		for _, in := range b.Instrs {
			bo, ok := in.(*ssa.BinOp)
			if !ok || bo.Op.String() != "+" {
				continue
			}
			if s, isS := strConst(bo.Y); isS && s == "_M" {
				for _, l := range dominatingLits(b) {
					if l.Kind == "true" && l.Pos && strings.Contains(l.String(sv.S), "IsMulticast(recv)") {
						okM = true
					}
				}
			}
		}
	}
	mc := c.Const("pkg/addr.SVCMcast")
	c.Check(okM && mcastParse != "" && mcastParse == mc, rule, "multicast-suffix", sv.Fn.Pos(),
		fmt.Sprintf("\"_M\" is printed under IsMulticast and parsed into %s (SVCMcast = %s)", mcastParse, mc))
	if iv := c.View("(pkg/addr.SVC).IsMulticast"); iv != nil {
		ok := false
		for _, b := range iv.Fn.Blocks {
			if r, isRet := b.Instrs[len(b.Instrs)-1].(*ssa.Return); isRet {
				s := iv.S.Sym(r.Results[0])
				ok = wild("((recv & "+mc+") != 0*)", s) || wild("(("+mc+" & recv) != 0*)", s)
			}
		}
		c.Check(ok, rule, "IsMulticast", iv.Fn.Pos(), "IsMulticast tests the SVCMcast bit")
	}
}
