package main

import (
	"fmt"
	"go/token"
	"sort"
	"strings"

	"golang.org/x/tools/go/ssa"
)

// C41, encoder side. Typestate of encoder.pkt inside encoder.Read, explored
// path-sensitively with E6, across calls (the state a return leaves in e.pkt is
// the initial state of the next call).
const (
	c41Fresh    uint32 = 1 << iota // e.pkt holds a packet from the ring of which no byte was copied yet
	c41Idx                         // the index field of this frame was written
	c41HeadNo                      // the loop-head "frame full" test was false and nothing it reads changed since
	c41Dead                        // infeasible continuation
	c41NonEmpty                    // len(e.pkt) != 0
	c41V4                          // version nibble == 4
	c41V6                          // version nibble == 6
	c41Len20                       // len(e.pkt) >= 20
	c41Len40                       // len(e.pkt) >= 40
	c41Eq4                         // len(e.pkt) == IPv4 total length
	c41Eq6                         // len(e.pkt) == 40 + IPv6 payload length
)

const c41Validity = c41NonEmpty | c41V4 | c41V6 | c41Len20 | c41Len40 | c41Eq4 | c41Eq6

func c41Encoder(c *Ctx) {
	eT := "(*gateway/dataplane.encoder)"
	c41CopyToFrame(c, eT)
	v := c.View(eT + ".Read")
	if v == nil {
		return
	}
	rule := "N1-encoder-typestate"
	fn := v.Fn
	S := v.S
	const lenPkt = "builtin:len(recv.pkt)"
	u16 := func(lo, hi int) string {
		return fmt.Sprintf("int((encoding/binary.bigEndian).Uint16(global:encoding/binary.BigEndian, recv.pkt[%d:%d]))", lo, hi)
	}
	// ---- classify the instructions the typestate reacts to
	type leafKind struct {
		kind  string
		bound int64 // for "len>=": outcome false/true gives this lower bound
		onVal bool  // the outcome that establishes the fact
	}
	leaves := map[ssa.Value]leafKind{}
	predCalls := map[string]bool{}
	var headCheck *ssa.BinOp
	var posPhi *ssa.Phi
	var loopCopies, topCopies, idxWrites []ssa.Instruction
	var ringStores, otherPktStores, frameStores []ssa.Instruction
	shapeOK := true
	for _, b := range fn.Blocks {
		for _, in := range b.Instrs {
			switch x := in.(type) {
			case *ssa.BinOp:
				sx, sy := S.Sym(x.X), S.Sym(x.Y)
				ky, yConst := constInt(x.Y)
				switch {
				case x.Op == token.LSS && cyclic(b) && strings.HasPrefix(sx, "(builtin:cap(recv.frame) - ") && yConst:
					if sub, ok := x.X.(*ssa.BinOp); ok && sub.Op == token.SUB {
						if phi, ok := sub.Y.(*ssa.Phi); ok && phi.Block() == b {
							headCheck, posPhi = x, phi
						}
					}
				case sx == lenPkt && yConst:
					switch x.Op {
					case token.EQL:
						if ky == 0 {
							leaves[x] = leafKind{kind: "nonempty", onVal: false}
						}
					case token.NEQ:
						if ky == 0 {
							leaves[x] = leafKind{kind: "nonempty", onVal: true}
						}
					case token.LSS:
						leaves[x] = leafKind{kind: "len>=", bound: ky, onVal: false}
					case token.LEQ:
						leaves[x] = leafKind{kind: "len>=", bound: ky + 1, onVal: false}
					case token.GEQ:
						leaves[x] = leafKind{kind: "len>=", bound: ky, onVal: true}
					case token.GTR:
						leaves[x] = leafKind{kind: "len>=", bound: ky + 1, onVal: true}
					}
				case sx == "(recv.pkt[0] >> 4)" && yConst && (x.Op == token.EQL || x.Op == token.NEQ):
					if ky == 4 || ky == 6 {
						leaves[x] = leafKind{kind: fmt.Sprintf("v%d", ky), onVal: x.Op == token.EQL}
					}
				case x.Op == token.EQL || x.Op == token.NEQ:
					pair := []string{sx, sy}
					sort.Strings(pair)
					want4 := []string{lenPkt, u16(2, 4)}
					want6 := []string{"(" + u16(4, 6) + " + 40)", lenPkt}
					sort.Strings(want4)
					sort.Strings(want6)
					if pair[0] == want4[0] && pair[1] == want4[1] {
						leaves[x] = leafKind{kind: "eq4", onVal: x.Op == token.EQL}
					} else if pair[0] == want6[0] && pair[1] == want6[1] {
						leaves[x] = leafKind{kind: "eq6", onVal: x.Op == token.EQL}
					} else if ex, ok := x.X.(*ssa.Extract); ok && yConst && x.Op == token.EQL {
						if call, ok := ex.Tuple.(*ssa.Call); ok && ex.Index == 1 &&
							calleeName(call.Common()) == "(*gateway/dataplane.pktRing).Read" {
							leaves[x] = leafKind{kind: "nopkt", onVal: true}
						}
					}
				}
			case *ssa.Call:
				switch calleeName(x.Common()) {
				case eT + ".copyToFrame":
					if cyclic(b) {
						loopCopies = append(loopCopies, in)
					} else {
						topCopies = append(topCopies, in)
					}
				case "(encoding/binary.bigEndian).PutUint16":
					if S.Sym(x.Common().Args[1]) == "recv.frame[2:4]" {
						if k, isK := constInt(x.Common().Args[2]); !(isK && k == 0xffff) {
							idxWrites = append(idxWrites, in)
						}
					}
				default:
					// the validation extracted into a predicate f(e.pkt) (rules_c41_pred.go)
					if cal := x.Common().StaticCallee(); cal != nil && cal.Pkg == fn.Pkg && len(x.Common().Args) == 1 &&
						S.Sym(x.Common().Args[0]) == "recv.pkt" {
						if isPred, _ := c41IsValidationPredicate(cal); isPred {
							leaves[x] = leafKind{kind: "valid", onVal: true}
							predCalls[calleeName(x.Common())] = true
						}
					}
				}
			case *ssa.Store:
				switch S.Sym(x.Addr) {
				case "recv.pkt":
					if ex, ok := x.Val.(*ssa.Extract); ok && ex.Index == 0 {
						if call, ok := ex.Tuple.(*ssa.Call); ok && calleeName(call.Common()) == "(*gateway/dataplane.pktRing).Read" {
							ringStores = append(ringStores, in)
							continue
						}
					}
					otherPktStores = append(otherPktStores, in)
				case "recv.frame":
					frameStores = append(frameStores, in)
				}
			}
		}
	}
	c.Check(len(loopCopies) >= 1 && len(ringStores) >= 1 && len(idxWrites) >= 1 && len(otherPktStores) == 0, rule,
		v.Name()+":shape", fn.Pos(), fmt.Sprintf("%d copyToFrame in the loop, %d before it, %d ring reads stored to e.pkt, %d other stores to e.pkt, %d index writes",
			len(loopCopies), len(topCopies), len(ringStores), len(otherPktStores), len(idxWrites)))
	for _, st := range frameStores {
		if cyclic(st.Block()) {
			shapeOK = false
		}
	}
	// the position only changes by what copyToFrame copied
	headOK := headCheck != nil && shapeOK
	if headOK {
		for _, ed := range posPhi.Edges {
			if ed == ssa.Value(posPhi) {
				continue
			}
			if in, ok := ed.(ssa.Instruction); ok && in.Block() != nil && !cyclic(in.Block()) {
				continue
			}
			if _, ok := ed.(*ssa.Const); ok {
				continue
			}
			add, ok := ed.(*ssa.BinOp)
			if !ok || add.Op != token.ADD {
				headOK = false
				continue
			}
			var other ssa.Value
			switch {
			case add.X == ssa.Value(posPhi):
				other = add.Y
			case add.Y == ssa.Value(posPhi):
				other = add.X
			}
			call, isCall := other.(*ssa.Call)
			if !isCall || calleeName(call.Common()) != eT+".copyToFrame" {
				headOK = false
			}
		}
	}
	c.Check(headOK, rule, v.Name()+":position-advances-by-copied-bytes", fn.Pos(),
		"the frame-full test at the loop head reads cap(e.frame) and a position that changes only by the result of copyToFrame; e.frame is not reassigned in the loop")
	// the index written is the position the next packet start is copied to
	idxOK := posPhi != nil
	for _, in := range idxWrites {
		arg := stripConv(in.(*ssa.Call).Common().Args[2])
		sub, ok := arg.(*ssa.BinOp)
		k, isK := int64(0), false
		if ok {
			k, isK = constInt(sub.Y)
		}
		idxOK = idxOK && ok && sub.Op == token.SUB && sub.X == ssa.Value(posPhi) && isK && k == 16
	}
	c.Check(idxOK, rule, v.Name()+":index-value", fn.Pos(), "the index written is the current position minus the header length")

	// ---- the typestate
	allowedCalls := map[string]bool{
		"(encoding/binary.bigEndian).Uint16": true, "(encoding/binary.bigEndian).PutUint16": true,
		"(encoding/binary.bigEndian).PutUint32": true, "(encoding/binary.bigEndian).PutUint64": true,
		"builtin:len": true, "builtin:cap": true,
	}
	isLoopCopy := map[ssa.Instruction]bool{}
	for _, in := range loopCopies {
		isLoopCopy[in] = true
	}
	validated := func(bits uint32) bool {
		v4 := bits&(c41V4|c41Len20|c41Eq4) == c41V4|c41Len20|c41Eq4
		v6 := bits&(c41V6|c41Len40|c41Eq6) == c41V6|c41Len40|c41Eq6
		return bits&c41NonEmpty != 0 && (v4 || v6)
	}
	freshReturns := map[uint32]token.Pos{}
	spec := &PSSpec{Fn: fn}
	spec.Instr = func(in ssa.Instruction, bits uint32) uint32 {
		switch x := in.(type) {
		case *ssa.Call:
			name := calleeName(x.Common())
			switch {
			case name == eT+".copyToFrame":
				// checked by Sink before the state is updated (Sink runs after Instr, so
				// the pre-state is kept in the sink through the bits passed below)
				return bits
			case name == "(*gateway/dataplane.pktRing).Read":
				return bits
			case predCalls[name]:
				return bits
			case allowedCalls[name]:
				if name =="(encoding/binary.bigEndian).PutUint16" {
					for _, w := range idxWrites {
						if w == in {
							bits |= c41Idx
						}
					}
				}
				return bits
			default:
				return bits &^ (c41Validity | c41HeadNo)
			}
		case *ssa.Store:
			switch S.Sym(x.Addr) {
			case "recv.pkt":
				return (bits &^ c41Validity) | c41Fresh
			case "recv.frame":
				return bits &^ c41HeadNo
			}
		}
		return bits
	}
	spec.Leaf = func(val ssa.Value, out bool, bits uint32) uint32 {
		if headOK && val == ssa.Value(headCheck) {
			if out {
				if bits&c41HeadNo != 0 {
					return bits | c41Dead
				}
				return bits
			}
			return bits | c41HeadNo
		}
		lk, ok := leaves[val]
		if !ok || out != lk.onVal {
			return bits
		}
		switch lk.kind {
		case "nonempty":
			bits |= c41NonEmpty
		case "len>=":
			if lk.bound >= 20 {
				bits |= c41Len20
			}
			if lk.bound >= 40 {
				bits |= c41Len40
			}
		case "v4":
			bits |= c41V4
		case "v6":
			bits |= c41V6
		case "eq4":
			bits |= c41Eq4
		case "eq6":
			bits |= c41Eq6
		case "valid":
			bits |= c41NonEmpty | c41V4 | c41Len20 | c41Eq4
		case "nopkt":
			bits &^= c41Fresh
		}
		return bits
	}
	// copyToFrame: Sink sees the state before the call's effect because Instr left
	// the bits alone; the effect is applied on the edge out of the call by Sink's
	// companion below (E6 calls Sink right after Instr for the same instruction).
	pending := map[ssa.Instruction]bool{}
	for _, in := range append(append([]ssa.Instruction{}, loopCopies...), topCopies...) {
		pending[in] = true
	}
	spec.Sink = func(in ssa.Instruction, bits uint32) string {
		if bits&c41Dead != 0 {
			return ""
		}
		if pending[in] && bits&c41Fresh != 0 {
			if bits&c41Idx == 0 {
				return "the first bytes of a packet are copied into a frame whose index field was not set in this call (the receiver takes them for the tail of an earlier packet)"
			}
			if !validated(bits) {
				return "a packet is encapsulated without having passed the IPv4 (len>=20, total length == len) or IPv6 (len>=40, 40+payload length == len) validation"
			}
		}
		if _, isRet := in.(*ssa.Return); isRet && bits&c41Fresh != 0 {
			freshReturns[bits&(c41Fresh|c41Validity)] = sinkPos(in)
		}
		return ""
	}
	inner := spec.Instr
	// E6 has no post-instruction hook; model the effect of copyToFrame at the next
	// instruction instead: every copyToFrame call is followed in its block by at
	// least one instruction (the use of its result or a load), where the effect is
	// applied before anything else is looked at.
	after := map[ssa.Instruction]bool{}
	for in := range pending {
		blk := in.Block()
		for i, x := range blk.Instrs {
			if x == in && i+1 < len(blk.Instrs) {
				after[blk.Instrs[i+1]] = true
			}
		}
	}
	spec.Instr = func(in ssa.Instruction, bits uint32) uint32 {
		if after[in] {
			bits &^= c41Fresh | c41Validity | c41HeadNo
		}
		return inner(in, bits)
	}
	c.Check(len(after) == len(pending), rule, v.Name()+":copy-effect-sites", fn.Pos(), "every copyToFrame call is followed by an instruction in its block")

	inits := []uint32{0}
	seenInit := map[uint32]bool{0: true}
	total := 0
	var fails []string
	failPos := map[string]token.Pos{}
	for len(inits) > 0 && len(seenInit) <= 16 {
		init := inits[0]
		inits = inits[1:]
		spec.Init = init
		for k := range freshReturns {
			delete(freshReturns, k)
		}
		viol, states := RunPS(spec)
		total += states
		for _, w := range viol {
			msg := w.Msg
			if init != 0 {
				msg += " [e.pkt was left holding an unstarted packet by an earlier Read call]"
			}
			msg += "; path " + traceString(w.Trace)
			if _, dup := failPos[w.Msg]; !dup {
				failPos[w.Msg] = w.Pos
				fails = append(fails, msg)
			}
		}
		for bits := range freshReturns {
			if !seenInit[bits] {
				seenInit[bits] = true
				inits = append(inits, bits)
			}
		}
	}
	if len(fails) == 0 {
		c.OK(rule, v.Name()+":typestate", fn.Pos(), fmt.Sprintf(
			"%d abstract states over %d initial state(s): every packet start is copied behind an index write and a complete validation", total, len(seenInit)))
	}
	for _, m := range fails {
		c.Fail(rule, v.Name()+":typestate", failPos[strings.SplitN(m, " [", 2)[0]], m)
	}
}

// copyToFrame moves min(room in the frame, rest of the packet) bytes from the
// front of e.pkt to the end of e.frame and drops them from e.pkt.
func c41CopyToFrame(c *Ctx, eT string) {
	v := c.View(eT + ".copyToFrame")
	if v == nil {
		return
	}
	rule := "N2-copy-chunk"
	fn := v.Fn
	S := v.S
	var copies []*ssa.Call
	var pktStores, frameStores []*ssa.Store
	for _, b := range fn.Blocks {
		for _, in := range b.Instrs {
			switch x := in.(type) {
			case *ssa.Call:
				if calleeName(x.Common()) == "builtin:copy" {
					copies = append(copies, x)
				}
			case *ssa.Store:
				switch S.Sym(x.Addr) {
				case "recv.pkt":
					pktStores = append(pktStores, x)
				case "recv.frame":
					frameStores = append(frameStores, x)
				}
			}
		}
	}
	if !c.Check(len(copies) == 1 && len(pktStores) == 1 && len(frameStores) == 1, rule, v.Name()+":shape", fn.Pos(),
		fmt.Sprintf("%d copy, %d store(s) to e.pkt, %d store(s) to e.frame", len(copies), len(pktStores), len(frameStores))) {
		return
	}
	dst, okD := copies[0].Common().Args[0].(*ssa.Slice)
	src, okS := copies[0].Common().Args[1].(*ssa.Slice)
	rest, okR := pktStores[0].Val.(*ssa.Slice)
	ext, okE := frameStores[0].Val.(*ssa.Slice)
	if !c.Check(okD && okS && okR && okE, rule, v.Name()+":slices", fn.Pos(), "copy operands and both stored values are slice expressions") {
		return
	}
	T := src.High
	n, isPhi := T.(*ssa.Phi)
	okMin := isPhi && len(n.Edges) == 2
	if okMin {
		const room = "(builtin:cap(recv.frame) - builtin:len(recv.frame))"
		const lenPkt = "builtin:len(recv.pkt)"
		for i, ed := range n.Edges {
			pred := n.Block().Preds[i]
			lits := append(dominatingLits(pred), litsOnEdge(pred, n.Block())...)
			var less, notLess bool
			for _, l := range lits {
				s := l.String(S)
				if s == "+lt("+lenPkt+", "+room+")" {
					less = true
				}
				if s == "-lt("+lenPkt+", "+room+")" {
					notLess = true
				}
			}
			switch S.Sym(ed) {
			case lenPkt:
				okMin = okMin && less
			case room:
				okMin = okMin && notLess
			default:
				okMin = false
			}
		}
	}
	c.Check(okMin, rule, v.Name()+":chunk-is-min", fn.Pos(), "the chunk is len(e.pkt) where that is smaller than the room left in the frame, and the room otherwise")
	// L: length of the frame before it is extended
	L := dst.Low
	okL := false
	if call, ok := L.(*ssa.Call); ok && calleeName(call.Common()) == "builtin:len" {
		if ld, ok := call.Common().Args[0].(*ssa.UnOp); ok && S.Sym(ld) == "recv.frame" {
			okL = instrBefore(ld, frameStores[0])
		}
	}
	isLT := func(x ssa.Value) bool {
		add, ok := x.(*ssa.BinOp)
		return ok && add.Op == token.ADD && ((add.X == L && add.Y == T) || (add.X == T && add.Y == L))
	}
	c.Check(okL && isLT(dst.High) && S.Sym(dst.X) == "recv.frame" && isLT(ext.High) && ext.Low == nil && S.Sym(ext.X) == "recv.frame",
		rule, v.Name()+":appends-at-old-end", fn.Pos(), "e.frame grows by the chunk and the chunk is written at [old len, old len+chunk)")
	c.Check(src.Low == nil && S.Sym(src.X) == "recv.pkt" && rest.Low == T && rest.High == nil && S.Sym(rest.X) == "recv.pkt",
		rule, v.Name()+":front-of-packet-consumed", fn.Pos(), "the chunk is e.pkt[:chunk] and e.pkt becomes e.pkt[chunk:]")
	okRet := true
	nret := 0
	for _, b := range fn.Blocks {
		if r, ok := b.Instrs[len(b.Instrs)-1].(*ssa.Return); ok {
			nret++
			okRet = okRet && RetVal(r, 0) == T
		}
	}
	c.Check(okRet && nret > 0, rule, v.Name()+":returns-chunk", fn.Pos(), "returns the number of bytes copied")
}

// instrBefore: a executes before b on every path to b (same block order or dominance).
func instrBefore(a, b ssa.Instruction) bool {
	if a.Block() == b.Block() {
		for _, in := range a.Block().Instrs {
			if in == a {
				return true
			}
			if in == b {
				return false
			}
		}
	}
	return a.Block().Dominates(b.Block())
}
