package main

import (
	"fmt"

	"golang.org/x/tools/go/ssa"
)

// C38, "the signature covers every associated-data element": the signature input
// is hdrAndBody followed by every chunk of the associated data, in order - in the
// raw branch by copy, in the hashing branch by h.Write. An element is covered only
// if its loop iteration really feeds it: a loop that stops early (at the first
// empty chunk, say) leaves everything after that chunk out of the signature while
// Sign and Verify still agree with each other.
//
// Rule F2: in computeSignatureInput every call that feeds an element of
// associatedData (copy / h.Write with associatedData[i]) lies on every way round
// its loop, the loop runs over every index from 0 in steps of 1, and the loop is
// left only through its own condition (no break, no return from inside).
func init() {
	addMutants(
		Mutant{Prop: "C38", Name: "hash-stops-at-first-empty-chunk", File: "pkg/scrypto/signed/msg.go",
			Old: `	for _, d := range associatedData {
		h.Write(d)
	}`, New: `	for _, d := range associatedData {
		if len(d) == 0 {
			break
		}
		h.Write(d)
	}`, Expect: "F2-every-element-is-fed"},
		Mutant{Prop: "C38", Name: "raw-input-skips-last-chunk", File: "pkg/scrypto/signed/msg.go",
			Old: `		for _, d := range associatedData {
			copy(input[offset:], d)`, New: `		for i, d := range associatedData {
			if i > 0 && i == len(associatedData)-1 {
				continue
			}
			copy(input[offset:], d)`, Expect: "F2-every-element-is-fed"},
	)
}

func c38EveryElementFed(c *Ctx, rule string) {
	v := c.View("pkg/scrypto/signed.computeSignatureInput")
	if v == nil {
		return
	}
	n := 0
	for _, ci := range v.Calls("invoke:hash.Hash.Write", "builtin:copy") {
		src := ci.Args[len(ci.Args)-1]
		if !wild("arg2[*]", src) {
			continue
		}
		n++
		in := ci.In.(ssa.Instruction)
		b := in.Block()
		passes, inLoop := everyIterationPasses(b)
		h := loopHeaderOf(b)
		okIdx, okExit := false, h != nil
		if h != nil {
			body := naturalLoop(h)
			for blk := range body {
				for _, x := range blk.Instrs {
					if ia, ok := x.(*ssa.IndexAddr); ok && v.S.Sym(ia.X) == "arg2" {
						okIdx = okIdx || loopIndex(ia.Index, 0, 1)
					}
				}
				if blk == h {
					continue
				}
				for _, s := range blk.Succs {
					if !body[s] {
						okExit = false // break / return / panic edge out of the body
					}
				}
				if _, isRet := blk.Instrs[len(blk.Instrs)-1].(*ssa.Return); isRet {
					okExit = false
				}
			}
		}
		c.Check(passes && inLoop && okIdx && okExit, rule, fmt.Sprintf("%s:feeds-every-element-%d", v.Name(), n), in.Pos(), fmt.Sprintf(
			"%s(%s): on every way round the loop (%v), over every index (%v), the loop is left only through its condition (%v)",
			ci.Callee, src, passes && inLoop, okIdx, okExit))
	}
	c.Min("computeSignatureInput:element-feeds", n, 2)
}
