package main

import (
	"golang.org/x/tools/go/ssa"
)

func init() {
	register(&PropRule{
		ID:    "C12",
		Roots: []string{"./router"},
		Explain: "Decides on all CFG paths of processOHP: a one-hop packet leaves the AS only if it is " +
			"in construction direction, its source is the local AS, the neighbour configured on the " +
			"first hop's egress interface is non-zero and equals the destination AS, and the first " +
			"hop's MAC equals (constant-time) the MAC computed over the packet's info and first hop; " +
			"the SegID is updated after that check and before the header is rewritten; a one-hop " +
			"packet enters only if its destination is the local AS and the neighbour of the ingress " +
			"interface equals its source AS; the second hop is REPLACED by a fresh hop field holding " +
			"only the ingress interface and the first hop's expiry, its MAC is computed over that " +
			"fresh field and stored before the header is rewritten; the BFD sender MACs the first " +
			"hop with the info field it serializes. NOT decided: acceptance of the reversed path by " +
			"other routers (C02/C03), MAC arithmetic.",
		Run: runC12,
	})
	setClaim("C12", claim{
		Text: "Guard dominance of the neighbour/ISD-AS/MAC checks over the outbound and inbound " +
			"forwarding returns of processOHP, symbolic pairing and ordering of the second-hop " +
			"construction and SegID update.",
		Note: claimNote, Technique: "static analysis: guard dominance by pass-edge removal, symbolic " +
			"store/argument pairing, dominance ordering", Ref: "DESIGN.md §4 C12"})
	addMutants(
		Mutant{Prop: "C12", Name: "inbound-neighbor-unchecked", File: "router/dataplane.go",
			Old: `	neighborIA := p.d.neighborIAs[p.ingressFromLink]
	if !neighborIA.Equal(s.SrcIA) {
		return errorDiscard("error", errCannotRoute)
	}
`, New: "", Expect: "G2-inbound"},
		Mutant{Prop: "C12", Name: "secondhop-ingress-from-firsthop", File: "router/dataplane.go",
			Old: `		ConsIngress: p.ingressFromLink,
		ExpTime:     ohp.FirstHop.ExpTime,`, New: `		ConsIngress: ohp.FirstHop.ConsEgress,
		ExpTime:     ohp.FirstHop.ExpTime,`, Expect: "P1-second-hop"},
		Mutant{Prop: "C12", Name: "secondhop-filled-in-place", File: "router/dataplane.go",
			Old: `	ohp.SecondHop = path.HopField{
		ConsIngress: p.ingressFromLink,
		ExpTime:     ohp.FirstHop.ExpTime,
	}`, New: `	ohp.SecondHop.ConsIngress = p.ingressFromLink
	ohp.SecondHop.ExpTime = ohp.FirstHop.ExpTime`, Expect: "P1-second-hop"},
		Mutant{Prop: "C12", Name: "outbound-zero-neighbor-allowed", File: "router/dataplane.go",
			Old: `		if neighborIA.IsZero() {
			// TODO parameter problem invalid interface
			return errorDiscard("error", errCannotRoute)
		}
`, New: "", Expect: "G1-outbound"},
		Mutant{Prop: "C12", Name: "segid-updated-before-mac-check", File: "router/dataplane.go",
			Old: `		mac := path.MAC(p.mac, ohp.Info, ohp.FirstHop, p.macInputBuffer[:path.MACBufferSize])
		if subtle.ConstantTimeCompare(ohp.FirstHop.Mac[:], mac[:]) == 0 {
			// TODO parameter problem -> invalid MAC
			return errorDiscard("error", errMacVerificationFailed)
		}
		ohp.Info.UpdateSegID(ohp.FirstHop.Mac)`,
			New: `		ohp.Info.UpdateSegID(ohp.FirstHop.Mac)
		mac := path.MAC(p.mac, ohp.Info, ohp.FirstHop, p.macInputBuffer[:path.MACBufferSize])
		if subtle.ConstantTimeCompare(ohp.FirstHop.Mac[:], mac[:]) == 0 {
			// TODO parameter problem -> invalid MAC
			return errorDiscard("error", errMacVerificationFailed)
		}`, Expect: "G1-outbound"},
	)
}

func runC12(c *Ctx) {
	c01ConfiguredKeyIsTheMacKey(c) // the one-hop MACs are computed with the same factory
	onehopReversalRules(c, "V1-onehop-reversal")
	v := c.View(procT + ".processOHP")
	if v == nil {
		return
	}
	e := NewE1(c, v.Fn)
	ohp := "recv.scionLayer.Path.(*pkg/slayers/path/onehop.Path)#0"
	var out, in []ssa.Instruction
	for _, r := range e.SuccessReturns() {
		isOut := false
		for _, l := range blockLits(r.Block()) {
			if l.String(e.Sym) == "+eq(recv.ingressFromLink, 0)" {
				isOut = true
			}
		}
		if isOut {
			out = append(out, r)
		} else {
			in = append(in, r)
		}
	}
	c.Min("processOHP:outbound-forward-returns", len(out), 1)
	c.Min("processOHP:inbound-forward-returns", len(in), 1)
	common := []Guard{
		e.AtomGuard("is-onehop-path", "+ok(recv.scionLayer.Path.(*pkg/slayers/path/onehop.Path))"),
		e.AtomGuard("construction-direction", "+true("+ohp+".Info.ConsDir)"),
		e.CallGuard(PassErrNil, "router.updateSCIONLayer"),
	}
	neigh := "recv.d.neighborIAs[" + ohp + ".FirstHop.ConsEgress]"
	macCall := "pkg/slayers/path.MAC(recv.mac, " + ohp + ".Info, " + ohp + ".FirstHop, recv.macInputBuffer[:16])"
	e.Require("G1-outbound", "forward-returns", nil, out, append(common,
		e.AtomGuard("src-is-local", "+true((pkg/addr.IA).Equal(recv.d.localIA, recv.scionLayer.SrcIA))",
			"+true((pkg/addr.IA).Equal(recv.scionLayer.SrcIA, recv.d.localIA))", "+eq(recv.d.localIA, recv.scionLayer.SrcIA)"),
		e.AtomGuard("egress-has-neighbour", "-true((pkg/addr.IA).IsZero("+neigh+"))"),
		e.AtomGuard("neighbour-is-dst", "+true((pkg/addr.IA).Equal("+neigh+", recv.scionLayer.DstIA))",
			"+true((pkg/addr.IA).Equal(recv.scionLayer.DstIA, "+neigh+"))"),
		e.AtomGuard("first-hop-mac-valid", "-eq(crypto/subtle.ConstantTimeCompare("+ohp+".FirstHop.Mac[:], local:mac[:]), 0)",
			"-eq(crypto/subtle.ConstantTimeCompare(local:mac[:], "+ohp+".FirstHop.Mac[:]), 0)"))...)
	v.RequireStore("G1-outbound", 1, "local:mac", macCall)
	v.RequireStore("G1-outbound", 1, "recv.pkt.egress", ohp+".FirstHop.ConsEgress")
	// SegID update: after the MAC check, before the header rewrite
	upd := e.CallSites("(*pkg/slayers/path.InfoField).UpdateSegID")
	c.Min("processOHP:UpdateSegID", len(upd), 1)
	e.Require("G1-outbound", "UpdateSegID-after-mac-check", nil, upd,
		e.AtomGuard("first-hop-mac-valid", "-eq(crypto/subtle.ConstantTimeCompare("+ohp+".FirstHop.Mac[:], local:mac[:]), 0)",
			"-eq(crypto/subtle.ConstantTimeCompare(local:mac[:], "+ohp+".FirstHop.Mac[:]), 0)"))
	v.RequireCallArgs("G1-outbound", 1, "(*pkg/slayers/path.InfoField).UpdateSegID", ohp+".Info", ohp+".FirstHop.Mac")
	okOrder := len(upd) == 1
	for _, r := range out {
		if okOrder && !instrDominates(upd[0], r) {
			okOrder = false
		}
	}
	for _, ci := range v.Calls("router.updateSCIONLayer") {
		inOut := false
		for _, l := range blockLits(ci.In.Block()) {
			if l.String(e.Sym) == "+eq(recv.ingressFromLink, 0)" {
				inOut = true
			}
		}
		if inOut && okOrder && !instrDominates(upd[0], ci.In.(ssa.Instruction)) {
			okOrder = false
		}
	}
	c.Check(okOrder, "G1-outbound", v.Name()+":segid-updated-before-rewrite", v.Fn.Pos(),
		"UpdateSegID dominates the outbound header rewrite and forwarding return")

	nin := "recv.d.neighborIAs[recv.ingressFromLink]"
	e.Require("G2-inbound", "forward-returns", nil, in, append(common,
		e.AtomGuard("dst-is-local", "+true((pkg/addr.IA).Equal(recv.d.localIA, recv.scionLayer.DstIA))",
			"+true((pkg/addr.IA).Equal(recv.scionLayer.DstIA, recv.d.localIA))", "+eq(recv.d.localIA, recv.scionLayer.DstIA)"),
		e.AtomGuard("ingress-neighbour-is-src", "+true((pkg/addr.IA).Equal("+nin+", recv.scionLayer.SrcIA))",
			"+true((pkg/addr.IA).Equal(recv.scionLayer.SrcIA, "+nin+"))"),
		e.CallGuard(PassErrNil, "(*router.dataPlane).resolveLocalDst"))...)

	// P1: second hop
	v.RequireStore("P1-second-hop", 1, ohp+".SecondHop", "local:complit")
	v.RequireStore("P1-second-hop", 1, "local:complit.ConsIngress", "recv.ingressFromLink")
	v.RequireStore("P1-second-hop", 1, "local:complit.ExpTime", ohp+".FirstHop.ExpTime")
	extra := 0
	for _, st := range v.Stores("local:complit.*") {
		if st.Addr != "local:complit.ConsIngress" && st.Addr != "local:complit.ExpTime" {
			extra++
			c.Fail("P1-second-hop", v.Name()+":fresh-hop-extra-field", st.In.Pos(),
				"the fresh second hop sets "+st.Addr+" (only ConsIngress and ExpTime are specified)")
		}
	}
	mac2 := "pkg/slayers/path.MAC(recv.mac, " + ohp + ".Info, " + ohp + ".SecondHop, recv.macInputBuffer[:16])"
	v.RequireStore("P1-second-hop", 1, ohp+".SecondHop.Mac", mac2)
	sh := v.Stores(ohp + ".SecondHop")
	shm := v.Stores(ohp + ".SecondHop.Mac")
	macs := v.Calls("pkg/slayers/path.MAC")
	okSeq := len(sh) == 1 && len(shm) == 1
	if okSeq {
		var mc ssa.Instruction
		for _, m := range macs {
			if len(m.Args) == 4 && m.Args[2] == ohp+".SecondHop" {
				mc = m.In.(ssa.Instruction)
			}
		}
		okSeq = mc != nil && instrDominates(sh[0].In, mc) && instrDominates(mc, shm[0].In)
		for _, r := range in {
			if !instrDominates(shm[0].In, r) {
				okSeq = false
			}
		}
		for _, ci := range v.Calls("router.updateSCIONLayer") {
			if ci.In.Block() == shm[0].In.Block() || shm[0].In.Block().Dominates(ci.In.Block()) {
				if !instrDominates(shm[0].In, ci.In.(ssa.Instruction)) {
					okSeq = false
				}
			}
		}
	}
	c.Check(okSeq, "P1-second-hop", v.Name()+":replace-then-mac-then-rewrite", v.Fn.Pos(),
		"SecondHop replaced → MAC over the fresh hop → Mac stored → header rewritten → forwarded")
	v.RequireCallArgs("P1-second-hop", 2, "router.updateSCIONLayer", "recv.pkt.RawPacket", "recv.scionLayer")

	// BFD sender
	if bv := c.View("(*router.bfdSend).Send"); bv != nil {
		bv.RequireStore("B1-bfd-onehop", 1, "recv.ohp.FirstHop.Mac",
			"pkg/slayers/path.MAC(recv.mac, recv.ohp.Info, recv.ohp.FirstHop, recv.macBuffer)")
		ts := bv.Stores("recv.ohp.Info.Timestamp")
		mc := bv.Calls("pkg/slayers/path.MAC")
		ser := bv.Calls("github.com/gopacket/gopacket.SerializeLayers")
		ok := len(ts) == 1 && len(mc) == 1 && len(ser) == 1 && instrDominates(ts[0].In, mc[0].In.(ssa.Instruction))
		// the MAC store precedes serialization on the one-hop path (the store is in
		// the ohp != nil branch which joins before serialization)
		c.Check(ok, "B1-bfd-onehop", bv.Name()+":timestamp-then-mac-then-serialize", bv.Fn.Pos(),
			"Info.Timestamp set before the MAC over Info/FirstHop is computed; one serialization")
		bv.RequireCallArgs("B1-bfd-onehop", 1, "github.com/gopacket/gopacket.SerializeLayers", "local:serBuf")
	}
	if nv := c.View("router.newBFDSend"); nv != nil {
		nv.RequireStore("B1-bfd-onehop", 1, "local:complit.ConsEgress", "arg4")
		nv.RequireStore("B1-bfd-onehop", 1, "local:complit.ConsDir", "true")
		nv.RequireStore("B1-bfd-onehop", 1, "local:complit.ExpTime", c.Const("router.hopFieldDefaultExpTime"))
	}
}
