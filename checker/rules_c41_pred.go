package main

import (
	"fmt"
	"go/token"
	"sort"

	"golang.org/x/tools/go/ssa"
)

// C41 N1, validation extracted into a predicate: a same-package function
// func(pkt []byte) bool called as f(e.pkt) is a validation leaf of the encoder
// typestate when EVERY path through it that returns the constant true has passed
// the complete IPv4 or IPv6 validation of its parameter (the same comparisons the
// inline form is recognised by, read against the parameter instead of e.pkt). A
// return of anything but a boolean constant, or a call other than the byte-order
// readers, makes the function "not a predicate" and the rule keeps its alarm.

// c41PktLeaves classifies the comparisons on the packet named pk ("recv.pkt" in
// the encoder, "arg0" in a predicate helper).
func c41PktLeaves(fn *ssa.Function, S *Symer, pk string) map[ssa.Value]c41LeafKind {
	lenPkt := "builtin:len(" + pk + ")"
	u16 := func(lo, hi int) string {
		return fmt.Sprintf("int((encoding/binary.bigEndian).Uint16(global:encoding/binary.BigEndian, %s[%d:%d]))", pk, lo, hi)
	}
	leaves := map[ssa.Value]c41LeafKind{}
	for _, b := range fn.Blocks {
		for _, in := range b.Instrs {
			x, ok := in.(*ssa.BinOp)
			if !ok {
				continue
			}
			sx, sy := S.Sym(x.X), S.Sym(x.Y)
			ky, yConst := constInt(x.Y)
			switch {
			case sx == lenPkt && yConst:
				switch x.Op {
				case token.EQL:
					if ky == 0 {
						leaves[x] = c41LeafKind{kind: "nonempty", onVal: false}
					}
				case token.NEQ:
					if ky == 0 {
						leaves[x] = c41LeafKind{kind: "nonempty", onVal: true}
					}
				case token.LSS:
					leaves[x] = c41LeafKind{kind: "len>=", bound: ky, onVal: false}
				case token.LEQ:
					leaves[x] = c41LeafKind{kind: "len>=", bound: ky + 1, onVal: false}
				case token.GEQ:
					leaves[x] = c41LeafKind{kind: "len>=", bound: ky, onVal: true}
				case token.GTR:
					leaves[x] = c41LeafKind{kind: "len>=", bound: ky + 1, onVal: true}
				}
			case sx == "("+pk+"[0] >> 4)" && yConst && (x.Op == token.EQL || x.Op == token.NEQ):
				if ky == 4 || ky == 6 {
					leaves[x] = c41LeafKind{kind: fmt.Sprintf("v%d", ky), onVal: x.Op == token.EQL}
				}
			case x.Op == token.EQL || x.Op == token.NEQ:
				pair := []string{sx, sy}
				sort.Strings(pair)
				want4 := []string{lenPkt, u16(2, 4)}
				want6 := []string{"(" + u16(4, 6) + " + 40)", lenPkt}
				sort.Strings(want4)
				sort.Strings(want6)
				if pair[0] == want4[0] && pair[1] == want4[1] {
					leaves[x] = c41LeafKind{kind: "eq4", onVal: x.Op == token.EQL}
				} else if pair[0] == want6[0] && pair[1] == want6[1] {
					leaves[x] = c41LeafKind{kind: "eq6", onVal: x.Op == token.EQL}
				}
			}
		}
	}
	return leaves
}

type c41LeafKind struct {
	kind  string
	bound int64
	onVal bool
}

func c41ApplyLeaf(lk c41LeafKind, bits uint32) uint32 {
	switch lk.kind {
	case "nonempty":
		bits |= c41NonEmpty
	case "len>=":
		if lk.bound >= 20 {
			bits |= c41Len20
		}
		if lk.bound >= 40 {
			bits |= c41Len40
		}
	case "v4":
		bits |= c41V4
	case "v6":
		bits |= c41V6
	case "eq4":
		bits |= c41Eq4
	case "eq6":
		bits |= c41Eq6
	}
	return bits
}

func c41Validated(bits uint32) bool {
	v4 := bits&(c41V4|c41Len20|c41Eq4) == c41V4|c41Len20|c41Eq4
	v6 := bits&(c41V6|c41Len40|c41Eq6) == c41V6|c41Len40|c41Eq6
	return bits&c41NonEmpty != 0 && (v4 || v6)
}

// c41IsValidationPredicate: see the head of the file. The second result says why not.
func c41IsValidationPredicate(fn *ssa.Function) (bool, string) {
	if fn == nil || fn.Blocks == nil || len(fn.Params) != 1 || fn.Signature.Results().Len() != 1 {
		return false, "not a one-parameter, one-result function with a body"
	}
	if fn.Signature.Results().At(0).Type().String() != "bool" || fn.Params[0].Type().String() != "[]byte" {
		return false, "not func([]byte) bool"
	}
	S := NewSymer()
	leaves := c41PktLeaves(fn, S, "arg0")
	why := ""
	for _, b := range fn.Blocks {
		for _, in := range b.Instrs {
			switch x := in.(type) {
			case ssa.CallInstruction:
				n := calleeName(x.Common())
				if n != "(encoding/binary.bigEndian).Uint16" && n != "builtin:len" {
					why = "calls " + n
				}
			case *ssa.Store, *ssa.MapUpdate, *ssa.Send, *ssa.Go, *ssa.Defer:
				why = "has an effect"
			case *ssa.Return:
				if _, isK := x.Results[0].(*ssa.Const); !isK {
					why = "returns something that is not a boolean constant"
				}
			}
		}
	}
	if why != "" {
		return false, why
	}
	spec := &PSSpec{Fn: fn}
	spec.Instr = func(in ssa.Instruction, bits uint32) uint32 { return bits }
	spec.Leaf = func(val ssa.Value, out bool, bits uint32) uint32 {
		if lk, ok := leaves[val]; ok && out == lk.onVal {
			return c41ApplyLeaf(lk, bits)
		}
		return bits
	}
	spec.Sink = func(in ssa.Instruction, bits uint32) string {
		if r, isRet := in.(*ssa.Return); isRet {
			if k, _ := constBool(r.Results[0]); k && !c41Validated(bits) {
				return "returns true for a packet that has not passed the complete validation"
			}
		}
		return ""
	}
	viol, _ := RunPS(spec)
	if len(viol) > 0 {
		return false, viol[0].Msg + "; path " + traceString(viol[0].Trace)
	}
	return true, ""
}
