package main

import (
	"strings"

	"golang.org/x/tools/go/ssa"
)

// C16, "always recovers when the link delivers packets and the peer behaves" -
// found by a fifth-round sub-agent as a side remark and confirmed by reading:
// processBFD decodes every BFD packet into the processor's ONE reusable layers.BFD.
// gopacket's BFD.DecodeFromBytes assigns AuthHeader only when the Auth bit is set
// and never clears it. After a single packet with the Auth bit and a non-zero
// auth type (which is discarded, authentication being unsupported), the stale
// header stays in the processor, and shouldDiscard drops EVERY later packet
// without the Auth bit ("!AuthPresent && AuthHeader != nil && AuthType != None").
// One crafted packet per processor silences the session for good: it goes Down at
// the detection time and cannot come back although the link delivers and the peer
// behaves.
//
// Rule B1: in processBFD the optional member of the reused layer is reset (a
// store of nil into bfdLayer.AuthHeader, or of a zero layers.BFD into bfdLayer)
// on every path before DecodeFromBytes is called on it.
func init() {
	addMutants(
		Mutant{Prop: "C16", Name: "bfd-layer-not-reset-before-decode", File: "router/dataplane.go",
			Old: `	bfd.AuthHeader = nil
`, New: ``, Expect: "B1-bfd-layer-fresh"},
	)
	r := registry["C16"]
	old := r.Run
	r.Run = func(c *Ctx) { c16BFDLayerFresh(c); old(c) }
	have := false
	for _, x := range r.Roots {
		have = have || x == "./router"
	}
	if !have {
		r.Roots = append(r.Roots, "./router")
	}
}

func c16BFDLayerFresh(c *Ctx) {
	rule := "B1-bfd-layer-fresh"
	v := c.View(procT + ".processBFD")
	if v == nil {
		return
	}
	var decodes, resets []ssa.Instruction
	for _, ci := range v.Calls("(*github.com/gopacket/gopacket/layers.BFD).DecodeFromBytes") {
		if ci.Args[0] == "recv.bfdLayer" {
			decodes = append(decodes, ci.In.(ssa.Instruction))
		}
	}
	for _, st := range v.Stores("recv.bfdLayer*") {
		if st.Addr == "recv.bfdLayer.AuthHeader" && strings.HasPrefix(st.Val, "nil") {
			resets = append(resets, st.In)
		}
		if st.Addr == "recv.bfdLayer" && (strings.HasPrefix(st.Val, "zero:") || st.Val == "local:complit") {
			resets = append(resets, st.In)
		}
	}
	ok := len(decodes) >= 1
	for _, d := range decodes {
		dom := false
		for _, r := range resets {
			if instrDominates(r, d) {
				dom = true
			}
		}
		ok = ok && dom
	}
	if !ok && len(decodes) >= 1 && c16ResetInPerPacketReset(c) {
		ok = true
	}
	c.Check(ok, rule, v.Name()+":auth-header-reset-before-decode", v.Fn.Pos(),
		"the reused BFD layer's optional authentication header is cleared before every DecodeFromBytes (gopacket assigns it only when the Auth bit is set)")
}

// The same guarantee one level up: reset() clears the layer unconditionally, and on
// every static call chain that ends in processBFD some caller runs reset() on the
// same processor before it calls down the chain. Anything not provable is "no".
func c16ResetInPerPacketReset(c *Ctx) bool {
	reset, err := c.Prog.LookupFunc(procT + ".reset")
	target, err2 := c.Prog.LookupFunc(procT + ".processBFD")
	if err != nil || err2 != nil || reset == nil || target == nil || reset.Blocks == nil {
		return false
	}
	rv := &FnView{C: c, Fn: reset, S: NewSymer()}
	cleared := false
	for _, st := range rv.Stores("recv.bfdLayer*") {
		isReset := (st.Addr == "recv.bfdLayer.AuthHeader" && strings.HasPrefix(st.Val, "nil")) ||
			(st.Addr == "recv.bfdLayer" && (strings.HasPrefix(st.Val, "zero:") || st.Val == "local:complit"))
		if !isReset {
			continue
		}
		all := true
		for _, b := range reset.Blocks {
			if r, isRet := b.Instrs[len(b.Instrs)-1].(*ssa.Return); isRet && !instrDominates(st.In, r) {
				all = false
			}
		}
		cleared = cleared || all
	}
	if !cleared {
		return false
	}
	inChain := map[*ssa.Function]bool{target: true}
	for round := 0; round < 8; round++ {
		grew := false
		for f := range c.Prog.AllFuncs() {
			if f.Blocks == nil || inChain[f] {
				continue
			}
			var down, resets []ssa.Instruction
			for _, b := range f.Blocks {
				for _, in := range b.Instrs {
					switch x := in.(type) {
					case ssa.CallInstruction:
						cal := x.Common().StaticCallee()
						if cal != nil && inChain[cal] {
							down = append(down, in)
						}
						if cal == reset && len(f.Params) > 0 && len(x.Common().Args) > 0 && x.Common().Args[0] == f.Params[0] {
							resets = append(resets, in)
						}
					}
					// a chain member taken as a value escapes the static chain
					if mc, isMC := in.(*ssa.MakeClosure); isMC {
						if fn, isFn := mc.Fn.(*ssa.Function); isFn && inChain[fn] {
							return false
						}
					}
				}
			}
			if len(down) == 0 {
				continue
			}
			guarded := true
			for _, d := range down {
				g := false
				for _, r := range resets {
					g = g || instrDominates(r, d)
				}
				guarded = guarded && g
			}
			if !guarded {
				inChain[f] = true
				grew = true
			}
		}
		if !grew {
			// every unguarded member must have a caller (a root that is unguarded fails)
			for f := range inChain {
				hasCaller := false
				for g := range c.Prog.AllFuncs() {
					if g.Blocks == nil {
						continue
					}
					for _, b := range g.Blocks {
						for _, in := range b.Instrs {
							if ci, isCall := in.(ssa.CallInstruction); isCall && ci.Common().StaticCallee() == f {
								hasCaller = true
							}
						}
					}
				}
				if !hasCaller {
					return false
				}
			}
			return true
		}
	}
	return false
}
