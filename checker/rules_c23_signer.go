package main

import (
	"fmt"
	"strings"

	"golang.org/x/tools/go/ssa"
)

// trust.LastExpiring(signers, validity): whatever it returns without error is an
// element of signers that COVERS the validity. The beacon extender relies on it
// for "the signer used is valid from the segment's timestamp on" and clamps the
// hop expiry to that signer's expiry (C23); the signer generator relies on it
// for its choice (C36). Decided as a provenance rule over the returned value:
// it derives (through phis, local variables and local slices filled by append)
// only from elements of the parameter that are selected behind
// element.Validity().Covers(validity) == true for that same element.
func lastExpiringCovers(c *Ctx, rule string) {
	n := 0
	for fn := range c.Prog.AllFuncs() {
		if fn.Blocks == nil || !strings.HasPrefix(rawFuncName(fn), "private/trust.LastExpiring[") {
			continue
		}
		n++
		lastExpiringCheck(c, rule, fn)
	}
	c.Min("LastExpiring-instances", n, 1)
}

func lastExpiringCheck(c *Ctx, rule string, fn *ssa.Function) {
	S := NewSymer()
	name := FuncName(fn)
	covered := func(elem ssa.Value, at *ssa.BasicBlock) bool {
		es := S.Sym(elem)
		for _, l := range dominatingLits(at) {
			if l.Kind != "true" || !l.Pos {
				continue
			}
			s := l.String(S)
			if strings.Contains(s, ".Covers(") && strings.Contains(s, "Validity("+es) && strings.HasSuffix(s, ", arg1))") {
				return true
			}
		}
		return false
	}
	var goodSlice func(l ssa.Value, seen map[ssa.Value]bool) bool
	var good func(v ssa.Value, at *ssa.BasicBlock, seen map[ssa.Value]bool) (bool, string)
	goodSlice = func(l ssa.Value, seen map[ssa.Value]bool) bool {
		if seen[l] {
			return true
		}
		seen[l] = true
		switch x := l.(type) {
		case *ssa.Const:
			return x.IsNil()
		case *ssa.Phi:
			for _, e := range x.Edges {
				if !goodSlice(e, seen) {
					return false
				}
			}
			return true
		case *ssa.Slice:
			return goodSlice(x.X, seen)
		case *ssa.Call:
			if calleeName(x.Common()) != "builtin:append" {
				return false
			}
			if !goodSlice(x.Common().Args[0], seen) {
				return false
			}
			els := appendedElems(x)
			if els == nil {
				return false
			}
			for _, e := range els {
				if ok, _ := good(e, x.Block(), map[ssa.Value]bool{}); !ok {
					return false
				}
			}
			return true
		}
		return false
	}
	good = func(v ssa.Value, at *ssa.BasicBlock, seen map[ssa.Value]bool) (bool, string) {
		if seen[v] {
			return true, ""
		}
		seen[v] = true
		switch x := v.(type) {
		case *ssa.Phi:
			for i, e := range x.Edges {
				if ok, why := good(e, x.Block().Preds[i], seen); !ok {
					return false, why
				}
			}
			return true, ""
		case *ssa.UnOp:
			ia, isIA := x.X.(*ssa.IndexAddr)
			if x.Op.String() != "*" || !isIA {
				// a local variable: every value stored into it
				if al, isAl := x.X.(*ssa.Alloc); isAl && al.Referrers() != nil {
					for _, r := range *al.Referrers() {
						if st, isSt := r.(*ssa.Store); isSt && st.Addr == al {
							if ok, why := good(st.Val, st.Block(), seen); !ok {
								return false, why
							}
						}
					}
					return true, ""
				}
				return false, "value of unknown origin " + S.Sym(v)
			}
			if S.Sym(ia.X) == "arg0" {
				if covered(v, at) {
					return true, ""
				}
				return false, "an element of signers is selected at " + c.Prog.Pos(x.Pos()) + " without Covers(validity) being established for it"
			}
			if goodSlice(ia.X, map[ssa.Value]bool{}) {
				return true, ""
			}
			return false, "element of a local slice that may hold signers not covering the validity"
		case *ssa.Const:
			return false, "zero value returned without error"
		}
		return false, "value of unknown origin " + S.Sym(v)
	}
	e := NewE1(c, fn)
	rets := e.SuccessReturns()
	c.Min(name+":success-returns", len(rets), 1)
	allOK := true
	for _, r := range rets {
		ret := r.(*ssa.Return)
		ok, why := good(ret.Results[0], ret.Block(), map[ssa.Value]bool{})
		if !ok {
			allOK = false
			c.Fail(rule, name+":returned-signer-covers", ret.Pos(), why)
		}
	}
	if allOK {
		c.OK(rule, name+":returned-signer-covers", fn.Pos(), fmt.Sprintf(
			"%d success return(s): the returned signer derives only from elements selected behind Validity().Covers(validity)", len(rets)))
	}
}
