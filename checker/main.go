// scionvet is a repository-specific static checker for scionproto/scion. It
// decides (structural clauses of) the properties in /verif/properties.jsonl from
// the type-checked SSA form of /repo's current working tree. See /verif/DESIGN.md.
package main

import (
	"flag"
	"fmt"
	"os"
	"runtime/debug"
	"sort"
	"strconv"
	"strings"
	"time"
)

// PropRule is the rule table entry of one property.
type PropRule struct {
	ID      string
	Roots   []string // package patterns to load (module-relative)
	Explain string   // the clause decided and what is not
	Run     func(c *Ctx)
	// ExtraConfigs are additional build configurations (env additions) analysed
	// in the thorough tier.
	ExtraConfigs [][]string
}

var registry = map[string]*PropRule{}

func register(r *PropRule) { registry[r.ID] = r }

func main() {
	prop := flag.String("prop", "", "property id (C01…)")
	tier := flag.String("tier", "quick", "quick|thorough")
	verif := flag.String("verif", "/verif", "verif directory")
	repo := flag.String("repo", "/repo", "repository to analyse")
	dump := flag.String("dump", "", "debug: dump SSA and literals of the named function")
	mutant := flag.String("mutant", "", "self-test: apply the named mutant as overlay")
	listMut := flag.Bool("list-mutants", false, "list mutants of -prop")
	selftest := flag.Bool("selftest", false, "run the mutant matrix of -prop and report")
	list := flag.Bool("list", false, "list registered properties")
	manifest := flag.Bool("manifest", false, "write MANIFEST.json from the rule tables")
	doWarm := flag.Bool("warm", false, "load every root set once (warms the build cache)")
	noEvidence := flag.Bool("no-evidence", false, "do not write evidence (self-test runs)")
	genLocals := flag.Bool("gen-refnames", false, "maintenance: regenerate checker/refnames.json from -repo")
	flag.Parse()
	os.Setenv("PATH", "/opt/veriftools/go1.26.8/bin:"+os.Getenv("PATH"))
	repoDir = *repo
	verifDirGuess = *verif
	if *genLocals {
		os.Exit(genRefNames(*verif))
	}
	if *manifest {
		if err := writeManifest(*verif); err != nil {
			fmt.Println(err)
			os.Exit(2)
		}
		return
	}
	if *doWarm {
		os.Exit(warm())
	}
	if *list {
		var ids []string
		for id := range registry {
			ids = append(ids, id)
		}
		sort.Strings(ids)
		fmt.Println(strings.Join(ids, " "))
		return
	}
	if t := os.Getenv("VERIF_TIER"); t != "" && !isFlagSet("tier") {
		*tier = t
	}
	seed := 0
	if s := os.Getenv("VERIF_SEED"); s != "" {
		seed, _ = strconv.Atoi(s)
	}
	r := registry[*prop]
	if r == nil {
		fmt.Printf("unknown property %q\n", *prop)
		os.Exit(2)
	}
	if *listMut {
		for _, m := range mutantsFor(*prop) {
			fmt.Println(m.Name)
		}
		return
	}
	if *selftest {
		os.Exit(runSelfTest(*prop, *verif))
	}
	t0 := time.Now()
	var overlay map[string][]byte
	if *mutant != "" {
		var err error
		overlay, err = mutantOverlay(*prop, *mutant)
		if err != nil {
			fmt.Printf("mutant: %v\n", err)
			os.Exit(3) // inapplicable
		}
		activeOverlay = overlay
	}
	exit := 0
	func() {
		defer func() {
			if rec := recover(); rec != nil {
				fmt.Printf("checker panic: %v\n%s\n", rec, debug.Stack())
				fmt.Printf("VIOLATION property=%s replay=%s/evidence/replay/%s-panic.json\n",
					*prop, *verif, *prop)
				exit = 1
			}
		}()
		configs := [][]string{nil}
		if *tier == "thorough" {
			configs = append(configs, r.ExtraConfigs...)
		}
		var c *Ctx
		extra := map[string]any{}
		var cfgNames []string
		for i, cfgEnv := range configs {
			prog, err := Load(r.Roots, cfgEnv, overlay)
			if err != nil {
				fmt.Printf("load failed: %v\n", err)
				fmt.Printf("VIOLATION property=%s replay=%s/evidence/replay/%s-load.json\n",
					*prop, *verif, *prop)
				exit = 1
				return
			}
			if *dump != "" {
				if strings.HasPrefix(*dump, "writes:") {
					for _, q := range strings.Split(strings.TrimPrefix(*dump, "writes:"), ";") {
						fn, err := prog.LookupFunc(q)
						if err != nil {
							fmt.Println(q, "->", err)
							continue
						}
						fmt.Println(q, "->", receiverWrites(fn))
					}
					return
				}
				dumpFunc(prog, *dump)
				return
			}
			if i == 0 {
				c = NewCtx(*prop, *tier, prog)
			} else {
				// further configurations accumulate into the same context
				c.Prog = prog
				c.cfgTag = strings.Join(cfgEnv, ",")
			}
			cfgNames = append(cfgNames, "default+"+strings.Join(cfgEnv, ","))
			r.Run(c)
		}
		if c == nil {
			return
		}
		extra["build_configs"] = cfgNames
		if notes := renameNotes(); len(notes) > 0 {
			extra["names_identified_with_recorded_ones"] = notes
		}
		// Thorough tier: non-vacuity of the rules on the tree as it is now. Every
		// registered mutant (a single edit of /repo, applied in memory) is analysed
		// and must be reported by the rule it targets; benign variants must stay
		// silent. The outcome is evidence about the check, not a verdict on /repo:
		// it never changes the exit status.
		if *tier == "thorough" && *mutant == "" && !*noEvidence && len(mutantsFor(*prop)) > 0 {
			res := runMutants(*prop, *verif)
			sum := map[string]int{}
			var notOK []string
			for _, m := range res {
				sum[m.Outcome]++
				if m.Outcome != "killed" && m.Outcome != "silent" && m.Outcome != "inapplicable" {
					notOK = append(notOK, m.Name+": "+m.Outcome)
				}
			}
			extra["mutants_analysed"] = len(res)
			extra["mutant_outcomes"] = sum
			if len(notOK) > 0 {
				extra["mutants_not_reported"] = notOK
				fmt.Printf("SELFTEST: %d of %d mutants were not reported as expected: %s\n", len(notOK), len(res), strings.Join(notOK, "; "))
			} else {
				fmt.Printf("SELFTEST: %d mutants analysed, outcomes %v\n", len(res), sum)
			}
		}
		if *noEvidence {
			exit = c.FinishNoEvidence(*verif)
			return
		}
		exit = c.Finish(*verif, r.Explain+extraExplainFor(*prop), t0, seed, extra)
	}()
	os.Exit(exit)
}

func isFlagSet(name string) bool {
	found := false
	flag.Visit(func(f *flag.Flag) {
		if f.Name == name {
			found = true
		}
	})
	return found
}
