package main

import (
	"fmt"
	"sort"
	"strings"

	"golang.org/x/tools/go/callgraph"
	"golang.org/x/tools/go/ssa"
)

func init() {
	register(&PropRule{
		ID:    "C17",
		Roots: []string{"./router/cmd/router", "./router", "./router/underlayproviders/udpip", "./private/underlay/conn"},
		Explain: "Decides the complete configuration-to-socket chain hop by hop: RouterConfig." +
			"{Send,Receive}BufferSize → RunConfig (NewConnector) → the arguments of every underlay " +
			"provider constructor call in the data plane (dynamic calls resolved through the VTA call " +
			"graph to the registered constructors) → the constructor's parameters → the provider's " +
			"fields → the conn.Config literal of every link kind (connected, internal) → " +
			"SetWriteBuffer / SetReadBuffer in the socket initialisation. The composed relation must " +
			"map the send size to SetWriteBuffer and the receive size to SetReadBuffer, and to nothing " +
			"else. NOT decided: kernel behaviour (doubling, caps).",
		Run:          runC17,
		ExtraConfigs: [][]string{{"GOOS=darwin"}},
	})
	setClaim("C17", claim{
		Text: "Hop-by-hop value pairing along the configuration flow, with dynamic constructor calls " +
			"resolved by the VTA call graph; composed source→sink relation compared with the " +
			"specification (send→SO_SNDBUF, receive→SO_RCVBUF).",
		Note: claimNote, Technique: "static analysis: field/argument flow pairing over SSA + VTA call " +
			"graph resolution of function values", Ref: "DESIGN.md §4 C17"})
	addMutants(
		Mutant{Prop: "C17", Name: "provider-args-swapped", File: "router/dataplane.go",
			Old: `				runConfig.BatchSize,
				runConfig.ReceiveBufferSize,
				runConfig.SendBufferSize,`, New: `				runConfig.BatchSize,
				runConfig.SendBufferSize,
				runConfig.ReceiveBufferSize,`, Expect: "F1-buffer-size-flow"},
		Mutant{Prop: "C17", Name: "internal-link-config-swapped", File: "router/underlayproviders/udpip/udpip.go",
			Old: `		localAddr, netip.AddrPort{},
		&conn.Config{ReceiveBufferSize: u.receiveBufferSize, SendBufferSize: u.sendBufferSize})`,
			New: `		localAddr, netip.AddrPort{},
		&conn.Config{ReceiveBufferSize: u.sendBufferSize, SendBufferSize: u.receiveBufferSize})`,
			Expect: "F1-buffer-size-flow"},
		Mutant{Prop: "C17", Name: "connector-send-from-receive", File: "router/connector.go",
			Old: `				ReceiveBufferSize:     config.ReceiveBufferSize,
				SendBufferSize:        config.SendBufferSize,`,
			New: `				ReceiveBufferSize:     config.ReceiveBufferSize,
				SendBufferSize:        config.ReceiveBufferSize,`, Expect: "F1-buffer-size-flow"},
		Mutant{Prop: "C17", Name: "write-buffer-from-receive-size", File: "private/underlay/conn/conn_linux.go",
			Old: `		target := cfg.SendBufferSize
		if err = conn.SetWriteBuffer(target); err != nil {`,
			New: `		target := cfg.ReceiveBufferSize
		if err = conn.SetWriteBuffer(target); err != nil {`, Expect: "F1-buffer-size-flow"},
	)
}

const (
	kSend = "send"
	kRecv = "receive"
)

func kindOf(sym string) string {
	switch {
	case strings.HasSuffix(sym, ".SendBufferSize") || strings.HasSuffix(sym, ".sendBufferSize"):
		return kSend
	case strings.HasSuffix(sym, ".ReceiveBufferSize") || strings.HasSuffix(sym, ".receiveBufferSize"):
		return kRecv
	}
	return ""
}

func runC17(c *Ctx) {
	rule := "F1-buffer-size-flow"
	// hop 1: RouterConfig → RunConfig
	if v := c.View("router.NewConnector"); v != nil {
		for _, f := range []string{"SendBufferSize", "ReceiveBufferSize"} {
			sts := v.Stores("local:complit." + f)
			ok := len(sts) >= 1
			for _, st := range sts {
				if st.Val != "arg0."+f {
					ok = false
				}
			}
			c.Check(ok, rule, "NewConnector:RunConfig."+f, v.Fn.Pos(),
				fmt.Sprintf("RunConfig.%s (and Connector.%s) ← config.%s in all %d literal(s)", f, f, f, len(sts)))
		}
	}
	// hop 2+3: provider constructor calls in the data plane, resolved via VTA
	cg := c.Prog.CallGraph()
	nCalls := 0
	fieldOfParam := map[string]map[int]string{} // constructor → param index → provider field
	for _, q := range []string{"router.makeDataPlane", "(*router.dataPlane).AddExternalInterface", "(*router.dataPlane).AddNextHop"} {
		v := c.View(q)
		if v == nil {
			continue
		}
		node := cg.Nodes[v.Fn]
		for _, b := range v.Fn.Blocks {
			for _, in := range b.Instrs {
				call, ok := in.(*ssa.Call)
				if !ok || call.Common().IsInvoke() || call.Common().StaticCallee() != nil {
					continue
				}
				if _, isB := call.Common().Value.(*ssa.Builtin); isB {
					continue
				}
				if !strings.Contains(typeShort(call.Common().Value.Type()), "NewProviderFn") &&
					!strings.Contains(call.Common().Value.Type().String(), "UnderlayProvider") {
					continue
				}
				nCalls++
				c.Calls++
				var callees []*ssa.Function
				if node != nil {
					for _, e := range node.Out {
						if e.Site == call {
							callees = append(callees, e.Callee.Func)
						}
					}
				}
				construct := fmt.Sprintf("%s:provider-constructor-call-%d", v.Name(), nCalls)
				if len(callees) == 0 {
					c.Fail(rule, construct, call.Pos(), "call graph resolves no provider constructor for this call")
					continue
				}
				for _, callee := range callees {
					cname := FuncName(callee)
					if fieldOfParam[cname] == nil {
						fieldOfParam[cname] = constructorParamFields(c, callee)
					}
					for i, a := range call.Common().Args {
						src := kindOf(v.S.Sym(a))
						fld := fieldOfParam[cname][i]
						dst := kindOf("." + fld)
						if src == "" && dst == "" {
							continue
						}
						c.Check(src == dst && src != "", rule, fmt.Sprintf("%s:arg%d→%s", construct, i, cname), call.Pos(),
							fmt.Sprintf("argument %d is %s and becomes %s.%s", i, v.S.Sym(a), cname, fld))
					}
				}
			}
		}
	}
	c.Min("provider-constructor-calls", nCalls, 3)
	var ctors []string
	for k := range fieldOfParam {
		ctors = append(ctors, k)
	}
	sort.Strings(ctors)
	c.Min("resolved-provider-constructors", len(ctors), 1)
	// hop 4: provider fields → conn.Config literals
	nCfg := 0
	for _, q := range []string{"(*router/underlayproviders/udpip.provider).newConnectedLink",
		"(*router/underlayproviders/udpip.provider).NewInternalLink"} {
		v := c.View(q)
		if v == nil {
			continue
		}
		for _, f := range []string{"SendBufferSize", "ReceiveBufferSize"} {
			sts := v.Stores("local:complit." + f)
			ok := len(sts) == 1
			for _, st := range sts {
				if kindOf(st.Val) != kindOf("."+f) || !strings.HasPrefix(st.Val, "recv.") {
					ok = false
				}
				nCfg++
			}
			got := ""
			if len(sts) > 0 {
				got = sts[0].Val
			}
			c.Check(ok, rule, v.Name()+":conn.Config."+f, v.Fn.Pos(), "conn.Config."+f+" ← "+got)
		}
	}
	c.Min("conn.Config-fields", nCfg, 4)
	// hop 5: conn.Config → socket options
	sp := c.Prog.SSAPkgs[modPath+"/private/underlay/conn"]
	nOpt := 0
	if sp != nil {
		for fn := range c.Prog.AllFuncs() {
			if fn.Pkg != sp || fn.Blocks == nil {
				continue
			}
			v := ViewOf(c, fn)
			for _, ci := range v.Calls("(*net.*).SetWriteBuffer", "(*net.*).SetReadBuffer") {
				nOpt++
				want := kSend
				if strings.HasSuffix(ci.Callee, "SetReadBuffer") {
					want = kRecv
				}
				c.Check(kindOf(ci.Args[1]) == want, rule, v.Name()+":"+ci.Callee, ci.In.Pos(),
					ci.Callee+" is given "+ci.Args[1])
			}
			// the same two options written directly: SO_SNDBUF(7)/SO_SNDBUFFORCE(32) take the
			// send size, SO_RCVBUF(8)/SO_RCVBUFFORCE(33) the receive size (Linux values; the
			// file is conn_linux.go). Other options are none of this rule's business.
			for _, ci := range v.Calls("private/underlay/sockctrl.SetsockoptInt", "syscall.SetsockoptInt", "golang.org/x/sys/unix.SetsockoptInt") {
				a := ci.In.Common().Args
				if len(a) != 4 {
					continue
				}
				lvl, okL := constInt(a[1])
				opt, okO := constInt(a[2])
				if !okL || !okO {
					c.Fail(rule, v.Name()+":"+ci.Callee+":option-not-constant", ci.In.Pos(), "socket option "+ci.Args[2]+" at level "+ci.Args[1])
					continue
				}
				want := ""
				switch {
				case lvl == 1 && (opt == 7 || opt == 32):
					want = kSend
				case lvl == 1 && (opt == 8 || opt == 33):
					want = kRecv
				default:
					continue
				}
				c.Check(kindOf(ci.Args[3]) == want, rule, fmt.Sprintf("%s:%s:option-%d", v.Name(), ci.Callee, opt), ci.In.Pos(),
					fmt.Sprintf("socket option %d (%s buffer) is given %s", opt, want, ci.Args[3]))
			}
		}
	}
	c.Min("socket-option-calls", nOpt, 2)
}

// constructorParamFields maps parameter index → name of the struct field the
// parameter is stored into by the constructor.
func constructorParamFields(c *Ctx, fn *ssa.Function) map[int]string {
	out := map[int]string{}
	if fn.Blocks == nil {
		return out
	}
	v := ViewOf(c, fn)
	for _, st := range v.Stores("local:complit.*") {
		for i := range fn.Params {
			if st.Val == fmt.Sprintf("arg%d", i) {
				out[i] = strings.TrimPrefix(st.Addr, "local:complit.")
			}
		}
	}
	return out
}

var _ = callgraph.Edge{}
