package main

// C34, "both with the SCION constraints": ValidateChain hands the two
// certificates to validateAS / validateCA, the TRC root pool to validateRoot.
// These validators collect errors instead of returning at the first one, so
// their rule is a clean-exit rule (cleanexit.go): the return is reached without
// a recorded error only if every constraint of the SCION control-plane PKI
// profile passed.
//
//	general      version 3, serial number present, signature algorithm valid,
//	             subject/authority key id extensions not critical
//	CA / root    keyCertSign set, digitalSignature not set, no client/server auth
//	             EKU, basic constraints critical when present, basicConstraints
//	             valid AND cA AND pathLen == 0 (CA) / 1 (root) - a certificate
//	             WITHOUT a path length constraint (MaxPathLen -1) is not accepted -,
//	             ISD-AS in subject and issuer
//	AS           keyCertSign not set, digitalSignature set, not a CA, ISD-AS in
//	             subject and issuer, authority key id present, id-kp-timeStamping
//	root         additionally: self-signed key ids, id-kp-root
func init() {
	addMutants(
		Mutant{Prop: "C34", Name: "ca-without-pathlen-accepted", File: "pkg/scrypto/cppki/certs.go",
			Old: `	if !c.BasicConstraintsValid || !c.IsCA || c.MaxPathLen != pathLen {`,
			New: `	if !c.BasicConstraintsValid || !c.IsCA || (c.MaxPathLen >= 0 && c.MaxPathLen != pathLen) {`,
			Expect: "K1-scion-certificate-constraints"},
		Mutant{Prop: "C34", Name: "as-cert-may-be-ca-with-pathlen-zero", File: "pkg/scrypto/cppki/certs.go",
			Old: `	if c.BasicConstraintsValid && c.IsCA {
		errs = append(errs, serrors.New("basic constraints extension has CA set"))`,
			New: `	if c.BasicConstraintsValid && c.IsCA && c.MaxPathLen != 0 {
		errs = append(errs, serrors.New("basic constraints extension has CA set"))`, Expect: "K1-scion-certificate-constraints"},
		Mutant{Prop: "C34", Name: "root-pathlen-zero", File: "pkg/scrypto/cppki/certs.go",
			Old: `commonCAValidation(c, 1)`, New: `commonCAValidation(c, 0)`, Expect: "K1-scion-certificate-constraints"},
	)
}

func c34CertificateConstraints(c *Ctx) {
	rule := "K1-scion-certificate-constraints"
	pk := "pkg/scrypto/cppki."
	ku := func(bit string) string { return "eq((arg0.KeyUsage & " + bit + ":crypto/x509.KeyUsage), 0:crypto/x509.KeyUsage)" }
	n := 0
	if v := c.View(pk + "generalValidation"); v != nil {
		n++
		ce := newCleanExit(c, v)
		ce.Requires(rule, "version-3", "+eq(arg0.Version, 3)")
		ce.Requires(rule, "serial-number", "-eq(arg0.SerialNumber, nil)")
		ce.Requires(rule, "signature-algorithm", "+eq("+pk+"validateSignatureAlg(arg0), nil)")
		ce.Forbids(rule, "critical-subject-key-id", "+true("+pk+"oidInExtensions(global:"+pk+"OIDExtensionSubjectKeyID, arg0.Extensions)#0.Critical)")
		ce.Forbids(rule, "critical-authority-key-id", "+true("+pk+"oidInExtensions(global:"+pk+"OIDExtensionAuthorityKeyID, arg0.Extensions)#0.Critical)")
	}
	if v := c.View(pk + "commonCAValidation"); v != nil {
		n++
		ce := newCleanExit(c, v)
		ce.Requires(rule, "keyCertSign", "-"+ku("32"))
		ce.Requires(rule, "no-digitalSignature", "+"+ku("1"))
		ce.Forbids(rule, "clientAuth", "+eq(arg0.ExtKeyUsage[*], 2:crypto/x509.ExtKeyUsage)")
		ce.Forbids(rule, "serverAuth", "+eq(arg0.ExtKeyUsage[*], 1:crypto/x509.ExtKeyUsage)")
		ce.Forbids(rule, "non-critical-basic-constraints", "-true("+pk+"oidInExtensions(global:"+pk+"OIDExtensionBasicConstraints, arg0.Extensions)#0.Critical)")
		ce.Requires(rule, "basicConstraints-valid", "+true(arg0.BasicConstraintsValid)")
		ce.Requires(rule, "cA", "+true(arg0.IsCA)")
		ce.Requires(rule, "pathLen-exactly", "+eq(arg0.MaxPathLen, arg1)", "+eq(arg1, arg0.MaxPathLen)")
		ce.Requires(rule, "isd-as-in-names", "+eq("+pk+"subjectAndIssuerIASet(arg0), nil)")
	}
	if v := c.View(pk + "validateAS"); v != nil {
		n++
		ce := newCleanExit(c, v)
		ce.Requires(rule, "general", "+eq("+pk+"generalValidation(arg0), nil)")
		ce.Requires(rule, "no-keyCertSign", "+"+ku("32"))
		ce.Requires(rule, "digitalSignature", "-"+ku("1"))
		ce.Forbids(rule, "cA", "+true(arg0.IsCA)")
		ce.Requires(rule, "isd-as-in-names", "+eq("+pk+"subjectAndIssuerIASet(arg0), nil)")
		ce.Forbids(rule, "no-authority-key-id", "+eq(builtin:len(arg0.AuthorityKeyId), 0)")
	}
	for q, pl := range map[string]string{"validateCA": "0", "validateRoot": "1"} {
		v := c.View(pk + q)
		if v == nil {
			continue
		}
		n++
		ce := newCleanExit(c, v)
		ce.Requires(rule, "general", "+eq("+pk+"generalValidation(arg0), nil)")
		ce.Requires(rule, "ca-constraints-pathLen-"+pl, "+eq("+pk+"commonCAValidation(arg0, "+pl+"), nil)")
		if q == "validateRoot" {
			// an authority key id, when present, is the subject key id
			ce.Forbids(rule, "foreign-authority-key-id", "-true(bytes.Equal(arg0.AuthorityKeyId, arg0.SubjectKeyId))", "-true(bytes.Equal(arg0.SubjectKeyId, arg0.AuthorityKeyId))")
			ce.Requires(rule, "id-kp-root", "+true("+pk+"containsOID(arg0.UnknownExtKeyUsage, global:"+pk+"OIDExtKeyUsageRoot))")
		}
	}
	c.Min("certificate-validators", n, 5)
}
