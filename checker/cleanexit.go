package main

import (
	"fmt"
	"strings"

	"golang.org/x/tools/go/ssa"
)

// Clean exits of "collect all errors" validators.
//
// Validators like cppki.commonCAValidation do not return at the first failed
// check: every failed check appends to an error list and the function returns
// the list at the end. Guard dominance over success returns (E1) does not apply:
// there is one return. What makes a run successful is that it reached the return
// WITHOUT passing through any block that records an error.
//
// cleanExit{Requires,Forbids}: on the CFG with the error-recording blocks removed,
// the return is reachable from the entry only across an edge that carries the
// required literal / is not reachable from an edge that carries the forbidden one.

type cleanExit struct {
	c     *Ctx
	v     *FnView
	errBl map[*ssa.BasicBlock]bool
	succ  map[ssa.Instruction]bool
	nErr  int
}

func newCleanExit(c *Ctx, v *FnView) *cleanExit {
	ce := &cleanExit{c: c, v: v, errBl: map[*ssa.BasicBlock]bool{}, succ: map[ssa.Instruction]bool{}}
	for _, r := range NewE1(c, v.Fn).SuccessReturns() {
		ce.succ[r] = true
	}
	for _, b := range v.Fn.Blocks {
		for _, in := range b.Instrs {
			call, ok := in.(*ssa.Call)
			if !ok || calleeName(call.Common()) != "builtin:append" {
				continue
			}
			t := typeShort(call.Type())
			if strings.Contains(t, "serrors.List") || t == "[]error" {
				ce.errBl[b] = true
				ce.nErr++
			}
		}
	}
	return ce
}

func (ce *cleanExit) edgeHas(b *ssa.BasicBlock, i int, pats []string) bool {
	lits, _ := edgeLits(b, i, nil)
	for _, l := range lits {
		s := l.String(ce.v.S)
		for _, p := range pats {
			if wild(p, s) {
				return true
			}
		}
	}
	return false
}

// reach: is a return reachable from start without entering an error-recording
// block and without crossing an edge matching one of stop?
func (ce *cleanExit) reach(start *ssa.BasicBlock, stop []string) bool {
	if ce.errBl[start] {
		return false
	}
	seen := map[*ssa.BasicBlock]bool{start: true}
	work := []*ssa.BasicBlock{start}
	for len(work) > 0 {
		b := work[0]
		work = work[1:]
		if r, ok := b.Instrs[len(b.Instrs)-1].(*ssa.Return); ok {
			if ce.succ[r] {
				return true
			}
			continue // a return of a freshly constructed error is not a clean exit
		}
		for i, s := range b.Succs {
			if seen[s] || ce.errBl[s] {
				continue
			}
			if len(stop) > 0 && len(b.Succs) == 2 && ce.edgeHas(b, i, stop) {
				continue
			}
			seen[s] = true
			work = append(work, s)
		}
	}
	return false
}

// Requires: a clean exit crosses an edge carrying one of pats.
func (ce *cleanExit) Requires(rule, name string, pats ...string) {
	n := 0
	for _, b := range ce.v.Fn.Blocks {
		if len(b.Succs) == 2 {
			for i := range b.Succs {
				if ce.edgeHas(b, i, pats) {
					n++
				}
			}
		}
	}
	ok := n > 0 && !ce.reach(ce.v.Fn.Blocks[0], pats)
	ce.c.Check(ok, rule, ce.v.Name()+":clean-exit-requires:"+name, ce.v.Fn.Pos(), fmt.Sprintf(
		"%d branch(es) on the condition; the return is reached without a recorded error only across its passing edge (%d error-recording blocks)", n, ce.nErr))
}

// Forbids: after an edge carrying one of pats no clean exit is possible.
func (ce *cleanExit) Forbids(rule, name string, pats ...string) {
	n, bad := 0, 0
	for _, b := range ce.v.Fn.Blocks {
		if len(b.Succs) != 2 {
			continue
		}
		for i, s := range b.Succs {
			if ce.edgeHas(b, i, pats) {
				n++
				if ce.reach(s, nil) {
					bad++
				}
			}
		}
	}
	ce.c.Check(n > 0 && bad == 0, rule, ce.v.Name()+":clean-exit-forbids:"+name, ce.v.Fn.Pos(), fmt.Sprintf(
		"%d branch(es) on the condition, %d of them can still reach the return without a recorded error", n, bad))
}
