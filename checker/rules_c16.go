package main

import (
	"fmt"
	"sort"
	"strings"

	"golang.org/x/tools/go/ssa"
)

func init() {
	register(&PropRule{
		ID:    "C16",
		Roots: []string{"./router/bfd"},
		Explain: "Decides exhaustively: the 4×6 table of bfd.transition (extracted by conditional " +
			"constant propagation) composed with the event mapping that Session.Run applies to " +
			"received states (and eventTimer on detection-timer expiry) equals the RFC 5880 " +
			"§6.8.6 table for local states Down/Init/Up × received AdminDown/Down/Init/Up/timer; " +
			"in the composed relation every state reachable from Down can reach Up using only " +
			"events the session actually produces (no trap state); shouldDiscard implements the " +
			"§6.8.6 discard list. NOT decided: timers, jitter, liveness of two communicating " +
			"sessions over a lossy link (needs a model checker).",
		Run: runC16,
	})
	setClaim("C16", claim{
		Text: "Finite state-machine table extracted from the SSA of transition() and composed with " +
			"Session.Run's event mapping; compared cell by cell with RFC 5880 §6.8.6 (exhaustive, 15 " +
			"cells) plus graph reachability (no trap state) and the discard-list guards.",
		Note: claimNote, Technique: "static analysis: table extraction by conditional constant " +
			"propagation, call-site argument resolution, graph reachability on the extracted relation",
		Ref: "DESIGN.md §4 C16, Appendix A.1"})
	addMutants(
		Mutant{Prop: "C16", Name: "init-ignores-up", File: "router/bfd/fsm.go",
			Old: `		case eventInit, eventUp:
			return stateUp
		case eventTimer:
			return stateDown
		case eventDown, eventAdminUp:
			return stateInit`, New: `		case eventInit:
			return stateUp
		case eventTimer:
			return stateDown
		case eventDown, eventAdminUp, eventUp:
			return stateInit`, Expect: "T1-rfc5880-table"},
		Mutant{Prop: "C16", Name: "timer-as-down-event", File: "router/bfd/session.go",
			Old: `s.transition(ctx, eventTimer)`, New: `s.transition(ctx, eventDown)`,
			Expect: "T1-rfc5880-table"},
		Mutant{Prop: "C16", Name: "up-ignores-down", File: "router/bfd/fsm.go",
			Old: `		case eventTimer, eventDown:
			return stateDown
		case eventAdminDown:
			return stateAdminDown
		default:
			panic(fmt.Sprintf("unknown event: %v", e))
		}
	default:`,
			New: `		case eventTimer:
			return stateDown
		case eventDown:
			return stateUp
		case eventAdminDown:
			return stateAdminDown
		default:
			panic(fmt.Sprintf("unknown event: %v", e))
		}
	default:`, Expect: "T1-rfc5880-table"},
		Mutant{Prop: "C16", Name: "discard-zero-your-disc-dropped", File: "router/bfd/session.go",
			Old: `	if pkt.YourDiscriminator == 0 &&
		pkt.State != layers.BFDStateAdminDown &&
		pkt.State != layers.BFDStateDown {
		return true, ""
	}
`, New: "", Expect: "D1-discard-list"},
	)
}

var bfdStates = map[string]string{"AdminDown": "0:router/bfd.state", "Down": "1:router/bfd.state",
	"Init": "2:router/bfd.state", "Up": "3:router/bfd.state"}
var bfdEvents = map[string]string{"AdminDown": "0:router/bfd.event", "Down": "1:router/bfd.event",
	"Init": "2:router/bfd.event", "Up": "3:router/bfd.event", "Timer": "4:router/bfd.event",
	"AdminUp": "5:router/bfd.event"}

func nameOf(m map[string]string, v string) string {
	for k, x := range m {
		if x == v {
			return k
		}
	}
	return v
}

// c16EveryAcceptedPacket: ReceiveMessage hands every packet that shouldDiscard
// does not reject to the session's state machine (the send on s.messages): a
// return without that send lies behind the discard verdict. Any further reason
// to drop a received packet starves the state machine ("comes Up again once
// its peer behaves").
func c16EveryAcceptedPacket(c *Ctx) {
	v := c.View("(*router/bfd.Session).ReceiveMessage")
	if v == nil {
		return
	}
	rule := "D3-accepted-packets-reach-the-state-machine"
	var sends []*ssa.Send
	var rets []*ssa.Return
	for _, b := range v.Fn.Blocks {
		for _, in := range b.Instrs {
			switch x := in.(type) {
			case *ssa.Send:
				if v.S.Sym(x.Chan) == "recv.messages" {
					sends = append(sends, x)
				}
			case *ssa.Return:
				rets = append(rets, x)
			}
		}
	}
	if !c.Check(len(sends) == 1 && len(rets) >= 2, rule, v.Name()+":shape", v.Fn.Pos(),
		fmt.Sprintf("%d send(s) on s.messages, %d return(s)", len(sends), len(rets))) {
		return
	}
	ok := true
	for _, r := range rets {
		if instrDominates(sends[0], r) {
			continue
		}
		discarded := false
		for _, l := range dominatingLits(r.Block()) {
			if l.Kind == "true" && l.Pos && v.S.Sym(l.X) == "router/bfd.shouldDiscard(arg0)#0" {
				discarded = true
			}
		}
		if !discarded {
			ok = false
			c.Fail(rule, v.Name()+":return-without-enqueue", r.Pos(),
				"ReceiveMessage returns without handing the packet to the state machine although shouldDiscard did not reject it")
		}
	}
	if ok {
		c.OK(rule, v.Name()+":return-without-enqueue", v.Fn.Pos(), "every return either follows the send on s.messages or lies behind shouldDiscard(msg) == true")
	}
	// what is handed over is the received packet's state and discriminators
	for f, src := range map[string]string{"State": "arg0.State", "MyDiscriminator": "arg0.MyDiscriminator",
		"YourDiscriminator": "arg0.YourDiscriminator", "DetectMultiplier": "arg0.DetectMultiplier",
		"DesiredMinTxInterval": "arg0.DesiredMinTxInterval", "RequiredMinRxInterval": "arg0.RequiredMinRxInterval"} {
		v.RequireStore(rule, 1, "local:complit."+f, src)
	}
}

// c16SendInterval: RFC 5880 6.8.7 - the transmit interval is the larger of the
// local desired min TX interval and the REMOTE's required min RX interval (as
// last received), jittered by computeInterval with the local detect multiplier.
// Pacing by the local required-RX value instead starves a peer whose detection
// time is shorter ("reach Up and stay Up").
func c16SendInterval(c *Ctx) {
	rule := "I1-send-interval"
	sT := "(*router/bfd.Session)"
	if v := c.View(sT + ".computeNextSendInterval"); v != nil {
		ok := false
		for _, ci := range v.Calls("router/bfd.computeInterval") {
			a := ci.Args[0]
			ok = a == "builtin:max(recv.desiredMinTXInterval, recv.remoteMinRxInterval)" ||
				a == "builtin:max(recv.remoteMinRxInterval, recv.desiredMinTXInterval)"
			ok = ok && ci.Args[1] == "uint(recv.DetectMult)"
		}
		c.Check(ok, rule, v.Name()+":interval", v.Fn.Pos(), "computeInterval(max(desiredMinTXInterval, remoteMinRxInterval), DetectMult, nil)")
	}
	// the remote value is what the peer announced
	if v := c.View(sT + ".Run"); v != nil {
		n, ok := 0, true
		for _, st := range v.Stores("recv.remoteMinRxInterval") {
			n++
			ok = ok && strings.Contains(st.Val, "RequiredMinRxInterval") && !strings.Contains(st.Val, "recv.RequiredMinRxInterval")
		}
		c.Check(ok && n >= 1, rule, v.Name()+":remote-min-rx-from-peer", v.Fn.Pos(),
			fmt.Sprintf("%d store(s) of remoteMinRxInterval, each from the received packet's RequiredMinRxInterval", n))
	}
}

func runC16(c *Ctx) {
	c16EveryAcceptedPacket(c)
	c16SendInterval(c)
	tr := c.Fn("router/bfd.transition")
	run := c.View("(*router/bfd.Session).Run")
	if tr == nil || run == nil {
		return
	}
	// constants really have the values the table below assumes
	for n, v := range map[string]string{"stateAdminDown": bfdStates["AdminDown"], "stateDown": bfdStates["Down"],
		"stateInit": bfdStates["Init"], "stateUp": bfdStates["Up"]} {
		c.Check(c.Const("router/bfd."+n) == v, "T0-constants", n, 0, "= "+v)
	}
	for n, v := range map[string]string{"eventAdminDown": bfdEvents["AdminDown"], "eventDown": bfdEvents["Down"],
		"eventInit": bfdEvents["Init"], "eventUp": bfdEvents["Up"], "eventTimer": bfdEvents["Timer"],
		"eventAdminUp": bfdEvents["AdminUp"]} {
		c.Check(c.Const("router/bfd."+n) == v, "T0-constants", n, 0, "= "+v)
	}
	// 1. the raw table
	table := map[string]map[string]string{}
	for sn, sv := range bfdStates {
		table[sn] = map[string]string{}
		for en, evv := range bfdEvents {
			out := EvalFn(c, tr, []string{sv, evv}, noInlineDefault)
			switch {
			case out.Undec != "":
				c.Unknown("T1-rfc5880-table", "transition:"+sn+":"+en, tr.Pos(), out.Undec)
			case out.Panic:
				table[sn][en] = "panic"
			case len(out.Ret) == 1:
				table[sn][en] = nameOf(bfdStates, out.Ret[0])
			}
		}
	}
	// 2. event mapping at the call sites of Session.transition
	recvMap := map[string]string{} // received state name -> event name
	producible := map[string]bool{}
	calls := run.Calls("(*router/bfd.Session).transition")
	c.Min("Run:calls-transition", len(calls), 2)
	sawRecv, sawTimer := false, false
	for _, ci := range calls {
		arg := ci.In.Common().Args[2]
		switch x := arg.(type) {
		case *ssa.Const:
			en := nameOf(bfdEvents, constStr(x))
			producible[en] = true
			if en == "Timer" {
				sawTimer = true
			}
		case *ssa.Convert:
			s := run.S.Sym(x.X)
			if s == "recv.remoteState" {
				sawRecv = true
				for rn := range bfdStates {
					recvMap[rn] = rn // identity: event(state)
				}
			} else {
				c.Unknown("T1-rfc5880-table", "Run:event-argument", ci.In.Pos(),
					"event converted from "+s+", expected recv.remoteState")
			}
		case *ssa.Call:
			g := x.Common().StaticCallee()
			if g == nil || g.Blocks == nil || len(x.Common().Args) == 0 {
				c.Unknown("T1-rfc5880-table", "Run:event-argument", ci.In.Pos(),
					"event computed by an unresolved call "+run.S.Sym(x))
				break
			}
			// the received state must be the (last) argument
			last := x.Common().Args[len(x.Common().Args)-1]
			if run.S.Sym(last) != "recv.remoteState" {
				c.Unknown("T1-rfc5880-table", "Run:event-argument", ci.In.Pos(),
					"mapping function applied to "+run.S.Sym(last)+", expected recv.remoteState")
				break
			}
			sawRecv = true
			for rn, rv := range bfdStates {
				params := make([]string, len(g.Params))
				params[len(params)-1] = rv
				out := EvalFn(c, g, params, noInlineDefault)
				if out.Undec != "" || out.Panic || len(out.Ret) != 1 {
					c.Unknown("T1-rfc5880-table", "Run:event-mapping:"+rn, g.Pos(),
						"cannot evaluate "+FuncName(g)+": "+out.Undec)
					continue
				}
				recvMap[rn] = nameOf(bfdEvents, out.Ret[0])
			}
		default:
			c.Unknown("T1-rfc5880-table", "Run:event-argument", ci.In.Pos(),
				"event argument is "+run.S.Sym(arg)+" (not a constant, a conversion of the received state, or a mapping function)")
		}
	}
	c.Check(sawRecv, "T1-rfc5880-table", "Run:received-state-drives-transition", run.Fn.Pos(),
		"a transition() call takes the received state")
	c.Check(sawTimer, "T1-rfc5880-table", "Run:timer-drives-transition", run.Fn.Pos(),
		"a transition() call takes eventTimer")
	// the received state is what the peer sent
	run.RequireStore("T1-rfc5880-table", 1, "recv.remoteState", "*.State")
	for _, en := range recvMap {
		producible[en] = true
	}
	// 3. composition vs RFC 5880 §6.8.6
	rfc := map[string]map[string]string{
		"Down": {"AdminDown": "Down", "Down": "Init", "Init": "Up", "Up": "Down", "Timer": "Down"},
		"Init": {"AdminDown": "Down", "Down": "Init", "Init": "Up", "Up": "Up", "Timer": "Down"},
		"Up":   {"AdminDown": "Down", "Down": "Down", "Init": "Up", "Up": "Up", "Timer": "Down"},
	}
	for _, local := range []string{"Down", "Init", "Up"} {
		for _, in := range []string{"AdminDown", "Down", "Init", "Up", "Timer"} {
			ev := in
			if in != "Timer" {
				var ok bool
				ev, ok = recvMap[in]
				if !ok {
					continue
				}
			}
			got := table[local][ev]
			want := rfc[local][in]
			c.Cells++
			c.Check(got == want, "T1-rfc5880-table",
				fmt.Sprintf("bfd:local=%s:input=%s", local, in), tr.Pos(),
				fmt.Sprintf("event %s → %s; RFC 5880 §6.8.6 requires %s", ev, got, want))
		}
	}
	// 4. no trap: every state reachable from Down (under producible events) reaches Up
	var evs []string
	for e := range producible {
		evs = append(evs, e)
	}
	sort.Strings(evs)
	reach := func(from string) map[string]bool {
		seen := map[string]bool{from: true}
		q := []string{from}
		for len(q) > 0 {
			s := q[0]
			q = q[1:]
			for _, e := range evs {
				t := table[s][e]
				if t != "" && t != "panic" && !seen[t] {
					seen[t] = true
					q = append(q, t)
				}
			}
		}
		return seen
	}
	fromDown := reach("Down")
	var names []string
	for s := range fromDown {
		names = append(names, s)
	}
	sort.Strings(names)
	for _, s := range names {
		c.Check(reach(s)["Up"], "T2-no-trap-state", "bfd:state="+s, tr.Pos(),
			fmt.Sprintf("reachable from Down under producible events {%s}; must be able to reach Up",
				strings.Join(evs, ",")))
	}
	// 4b. every accepted packet re-arms the detection timer with the negotiated
	// detection time before the state machine is driven, and the timer case drives
	// eventTimer: the necessary condition for "a session that stops receiving goes
	// Down after its detection time".
	{
		var resets []CallInfo
		for _, ci := range run.Calls("(*time.Timer).Reset") {
			if len(ci.Args) == 2 && wild("*DetectMultiplier*", ci.Args[1]) {
				resets = append(resets, ci)
			}
		}
		var recvTr ssa.Instruction
		for _, ci := range calls {
			if _, isConst := ci.In.Common().Args[2].(*ssa.Const); !isConst {
				recvTr = ci.In.(ssa.Instruction)
			}
		}
		ok := len(resets) == 1 && recvTr != nil && instrDominates(resets[0].In.(ssa.Instruction), recvTr)
		c.Check(ok, "D2-detection-timer", "Run:rearm-before-transition", run.Fn.Pos(), fmt.Sprintf(
			"%d detectionTimer.Reset(detect-mult × interval) call(s); must be executed on every path "+
				"before the received state drives the state machine", len(resets)))
		if len(resets) == 1 {
			l := run.Leaves(resets[0].In.Common().Args[1], 0)
			miss := leavesContainAll(l, "*.DetectMultiplier", "recv.RequiredMinRxInterval", "*.DesiredMinTxInterval")
			c.Check(len(miss) == 0, "D2-detection-timer", "Run:detection-time-inputs", resets[0].In.Pos(),
				fmt.Sprintf("detection time = remote detect-mult × max(local required-min-rx, remote desired-min-tx); missing %v", miss))
			// the timer re-armed is the one whose expiry drives eventTimer
			timerSym := resets[0].Args[0]
			okSame := false
			for _, b := range run.Fn.Blocks {
				for _, in := range b.Instrs {
					if sel, isSel := in.(*ssa.Select); isSel {
						for _, st := range sel.States {
							if run.S.Sym(st.Chan) == timerSym+".C" {
								okSame = true
							}
						}
					}
				}
			}
			c.Check(okSame, "D2-detection-timer", "Run:same-timer-drives-expiry", resets[0].In.Pos(),
				"the main loop selects on "+timerSym+".C")
		}
	}
	// 5. discard list
	if fn := c.Fn("router/bfd.shouldDiscard"); fn != nil {
		e := NewE1(c, fn)
		// "accept" returns are those whose first result is false
		var accepts []ssa.Instruction
		for _, b := range fn.Blocks {
			if r, ok := b.Instrs[len(b.Instrs)-1].(*ssa.Return); ok {
				if bv, isC := constBool(r.Results[0]); isC && !bv {
					accepts = append(accepts, r)
				}
			}
		}
		c.Min("shouldDiscard:accept-returns", len(accepts), 1)
		e.Require("D1-discard-list", "accept", nil, accepts,
			e.AtomGuard("version==1", "+eq(arg0.Version, 1:github.com/gopacket/gopacket/layers.BFDVersion)"),
			e.AtomGuard("detect-mult!=0", "-eq(arg0.DetectMultiplier, 0:github.com/gopacket/gopacket/layers.BFDDetectMultiplier)"),
			e.AtomGuard("not-multipoint", "-true(arg0.Multipoint)"),
			e.AtomGuard("my-disc!=0", "-eq(arg0.MyDiscriminator, 0:github.com/gopacket/gopacket/layers.BFDDiscriminator)"),
			e.AtomGuard("your-disc!=0-or-down", "-eq(arg0.YourDiscriminator, 0:github.com/gopacket/gopacket/layers.BFDDiscriminator)",
				"+eq(arg0.State, 0:github.com/gopacket/gopacket/layers.BFDState)",
				"+eq(arg0.State, 1:github.com/gopacket/gopacket/layers.BFDState)"),
			e.AtomGuard("length>=24", "-lt((*github.com/gopacket/gopacket/layers.BFD).Length(arg0), 24)",
				"+true(arg0.AuthPresent)"),
		)
	}
	// ReceiveMessage enqueues only what shouldDiscard accepted
	if fn := c.Fn("(*router/bfd.Session).ReceiveMessage"); fn != nil {
		e := NewE1(c, fn)
		var sends []ssa.Instruction
		for _, b := range fn.Blocks {
			for _, in := range b.Instrs {
				if s, ok := in.(*ssa.Send); ok {
					sends = append(sends, s)
				}
			}
		}
		c.Min("ReceiveMessage:channel-sends", len(sends), 1)
		e.Require("D1-discard-list", "enqueue", nil, sends,
			e.AtomGuard("not-discarded", "-true(router/bfd.shouldDiscard(arg0)#0)"))
	}
}
