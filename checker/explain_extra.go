package main

import "strings"

// Clauses added to a property's check after its first version (mostly in answer
// to independent breaking changes that the first version missed). They are
// appended to the explanation in the evidence so that "what is decided" stays
// complete; DESIGN.md section 0.7 tells the story behind each.
var extraExplain = map[string][]string{
	"C01": {"(S1) per-packet state: every field of the packet processor that is assigned while a packet is handled is assigned for the current packet before any load of it, on every path from processPkt (interprocedural definite assignment) - a clock sample, a verified-hop memo or a cross-over flag left by the previous packet is never read.",
		"(R2) the re-validation after doXover is required in whichever method of the processor the cross-over is done."},
	"C03": {"(R1) is decided semantically: Decoded.Reverse is evaluated over a symbolic store for 0..3 segments and 0..5 hops and the final content of every written location is compared with the reversal.",
		"(R5) the router writes the updated segment identifier back into the packet whenever it updates it (processEgress, updateNonConsDirIngressSegID), also on the last hop: the reply is verified with it."},
	"C04": {"(S1) per-packet state of the processor, as for C01."},
	"C05": {"(S1) per-packet state of the processor, as for C01.",
		"(I1) ingressInterface() consults the previous segment's info/hop field only behind 'not a peering hop' and 'first hop after a cross-over', at index CurrINF-1 / CurrHF-1, and returns the member that matches the chosen info field's direction; egressInterface() is the mirror image."},
	"C06": {"(S1) per-packet state of the processor, as for C01.",
		"(P2) every Link implementation reports the scope of its kind: constants for detachedLink (Sibling) and internalLink (Internal), for connectedLink a member set by its only constructor from a parameter that is External in NewExternalLink and Sibling in NewSiblingLink."},
	"C08": {"(B1) further discharge routes: a tested value that is >= the index by construction (rounding up / adding a constant in 64-bit arithmetic on a widened unsigned value); bounds that are linear combinations covered by a tested length, with callee inlining and tested non-negativity facts; slices with symbolic bounds as call arguments. The audits of SCION.DecodeFromBytes, DecodeAddrHdr, SerializeAddrHdr, stun.foreachAttr, decodeTLVOption and epic.PktID.SerializeTo were replaced by these."},
	"C09": {"(S1) per-packet state of the slow-path processor."},
	"C10": {"(S1) per-packet state of the slow-path processor.",
		"(T1, converse) a router-alert handler passes the packet on untouched (pForward) only if the flag is not set or the router does not own the interface."},
	"C11": {"(F1) provider.SetDispatchPorts records all three values unconditionally and brings an existing internal link up to date (decision table)."},
	"C12": {"(V1) the one-hop reversal rules (conversion to a one-segment SCION path without peering flag, IncPath, Reverse) are shared with C03."},
	"C13": {"(S1) per-packet state of the processor, as for C01."},
	"C15": {"(S1) per-packet state of the processor, as for C01."},
	"C16": {"(D3) ReceiveMessage hands every packet that shouldDiscard does not reject to the state machine: a return without the send on s.messages lies behind the discard verdict; the message carries the received state, discriminators, multiplier and intervals."},
	"C18": {"(O1) decodeTLVOption is only ever handed data[offset:ActualLen]: an option cannot extend beyond its extension header."},
	"C19": {"(V1) Decoded.Reverse is the mirror map (symbolic-store table shared with C03): info field k <- n-1-k with ConsDir negated, hop field k <- h-1-k, CurrINF <- n-1-CurrINF, CurrHF <- h-1-CurrHF, nothing else written. A mirror map is an involution, which is 'reversing twice restores the path' for the decoded form."},
	"C22": {"(S1) per-packet state of the processor, as for C01."},
	"C23": {"(E2) trust.LastExpiring, in every instantiation, returns without error only a signer that derives from elements of its argument selected behind Validity().Covers(validity)."},
	"C26": {"(D1) Beacon.Diversity: a link is the pair (AS, egress interface); an entry counts as found only behind both equalities with one entry of the other beacon, as not found only after the whole scan; the returned counter grows by one exactly for entries not found."},
	"C27": {"(N1) InsertNextQuery's statement joins the stored row on all four key columns, each with itself, replaces only if the new time is larger (or nothing is stored), and binds its placeholders to src/dst ISD/AS and the new time.",
		"(Q2) the clean-up statements delete exactly rows whose expiry is below the 'now' handed in; CandidateBeacons selects by usage bits, ORDER BY HopsLength ASC, LIMIT setSize."},
	"C29": {"(S4) GetPaths returns the slice of recorded solutions itself; the only slice operation after the search is sorting."},
	"C30": {"(M1) neither the splitter nor the pather writes into its receiver: nothing is remembered from one lookup to the next."},
	"C31": {"(C1) entries leave the cache only through the cache library's own expiry: one call of its DeleteExpired, in memRevCache.DeleteExpired, and no other removing call in the package."},
	"C32": {"(G7) validateRegular records an expected vote under the predecessor index that find() reports for a changed certificate and discharges it by the predecessor index a vote names; success requires the set to be empty."},
	"C33": {"(E2) the six list codecs of the TRC payload (AS lists, certificates, votes; encode and decode) are order-preserving element-wise maps; every list and structured member of the decoded TRC comes from the wire member of the same name."},
	"C36": {"(L1) trust.LastExpiring returns only covering signers (shared with C23)."},
	"C37": {"(G5) the issued certificate's subject is marshalled from exactly the CSR's attribute list (ExtraNames <- subject.Names), in its order."},
	"C38": {"(K1) checkPubKeyAlgo accepts only a listed algorithm, an ECDSA public key and an ECDSA key family; the table lists exactly the three ECDSA algorithms, each with a hash; Sign and Verify pass it."},
	"C42": {"(M1) the policy text columns are written and read in the same order (action, from, to, network, next hop); parseAction is the inverse of Action.String; negation is a leading '!' on both sides.",
		"(M2) a bufio.Scanner.Bytes() slice is not kept across Scan() in gateway/routing."},
	"C43": {"(L1) each grammar rule's listener builds and pushes the condition of the same meaning (any/all/not, source/destination matchers, DSCP/TOS/protocol, port matchers)."},
	"C46": {"(S1) ParseSVC and SVC.BaseString are inverse tables; '_M' stands for the SVCMcast bit on both sides; at most one suffix is taken off (every suffix operation works on the text as given)."},
	"C48": {"(C1) Ring.Write hands entries over only after reading closed == false with no Wait() in between (path-sensitive typestate)."},
}

func extraExplainFor(id string) string {
	if xs := extraExplain[id]; len(xs) > 0 {
		return " ADDED LATER: " + strings.Join(xs, " ")
	}
	return ""
}
