package main

import (
	"fmt"
	"strings"

	"golang.org/x/tools/go/ssa"
)

// C07 / C10, the router-alert flag is mutable path state that a router may change
// only when it CONSUMES the alert (hands the packet to the slow path and answers).
// A router that passes the packet on - the alert is for an interface another
// router owns - must pass it on with the flag as it came.
//
// Rule A1: in handleIngressRouterAlert and handleEgressRouterAlert, once the flag
// has been cleared (the store of false through the flag pointer) or the hop field
// has been written back (SetHopField), no return of pForward is reachable: the
// only ways out are the slow-path request and the error discard.
func init() {
	for _, p := range []string{"C07", "C10"} {
		addMutants(
			Mutant{Prop: p, Name: "egress-alert-cleared-before-ownership-test", File: "router/dataplane.go",
				Old: `	if p.d.interfaces[p.pkt.egress].Scope() != External {
		// the egress router is not this one.
		return pForward
	}
	*alert = false
	if err := p.path.SetHopField(p.hopField, int(p.path.PathMeta.CurrHF)); err != nil {
		return errorDiscard("error", err)
	}`, New: `	*alert = false
	if err := p.path.SetHopField(p.hopField, int(p.path.PathMeta.CurrHF)); err != nil {
		return errorDiscard("error", err)
	}
	if p.d.interfaces[p.pkt.egress].Scope() != External {
		// the egress router is not this one.
		return pForward
	}`, Expect: "A1-alert-cleared-only-when-consumed"},
		)
	}
}

func alertClearedOnlyWhenConsumed(c *Ctx, rule string) {
	fwd := c.Const("router.pForward")
	n := 0
	for _, q := range []string{procT + ".handleIngressRouterAlert", procT + ".handleEgressRouterAlert"} {
		v := c.View(q)
		if v == nil {
			continue
		}
		// the mutations: a store of false through the flag pointer, and SetHopField
		var muts []ssa.Instruction
		for _, b := range v.Fn.Blocks {
			for _, in := range b.Instrs {
				switch x := in.(type) {
				case *ssa.Store:
					if k, ok := x.Val.(*ssa.Const); ok && strings.HasPrefix(v.S.Sym(x.Val), "false") && k != nil {
						if strings.Contains(v.S.Sym(x.Addr), "RouterAlert") {
							muts = append(muts, in)
						}
					}
				case ssa.CallInstruction:
					if calleeName(x.Common()) == "(*pkg/slayers/path/scion.Raw).SetHopField" {
						muts = append(muts, in)
					}
				}
			}
		}
		n += len(muts)
		var bad []string
		for _, m := range muts {
			// returns reachable from m
			seen := map[*ssa.BasicBlock]bool{}
			work := []*ssa.BasicBlock{}
			check := func(b *ssa.BasicBlock, from int) {
				for i := from; i < len(b.Instrs); i++ {
					if r, ok := b.Instrs[i].(*ssa.Return); ok && len(r.Results) == 1 && v.S.Sym(r.Results[0]) == fwd {
						bad = append(bad, fmt.Sprintf("pForward at %s after the mutation at %s", c.Prog.Pos(r.Pos()), c.Prog.Pos(m.Pos())))
					}
				}
			}
			check(m.Block(), instrIndex(m)+1)
			for _, s := range m.Block().Succs {
				if !seen[s] {
					seen[s] = true
					work = append(work, s)
				}
			}
			for len(work) > 0 {
				b := work[0]
				work = work[1:]
				check(b, 0)
				for _, s := range b.Succs {
					if !seen[s] {
						seen[s] = true
						work = append(work, s)
					}
				}
			}
		}
		// (the write-back of the hop field may sit in a helper; the flag store is the anchor)
		c.Check(len(muts) >= 1 && len(bad) == 0, rule, v.Name()+":no-forward-after-clearing", v.Fn.Pos(), fmt.Sprintf(
			"%d mutation(s) of the alert flag / hop field; %s", len(muts), strings.Join(bad, "; ")))
	}
	c.Min("router-alert-mutations", n, 2)
}
