package main

import (
	"fmt"
	"strings"

	"golang.org/x/tools/go/ssa"
)

func init() {
	roots := []string{"./private/segment/segverifier", "./pkg/segment", "./private/trust", "./private/trust/compat",
		"./pkg/scrypto/signed", "./private/trust/grpc", "./private/trust/connect"}
	register(&PropRule{
		ID:    "C24",
		Roots: roots,
		Explain: "Decides: the signer (AddASEntry) and the verifier (VerifyASEntry) obtain the " +
			"associated data from the same helper, called with the position of the entry; the " +
			"helper's result is built from Info.Raw and, for every earlier entry, its " +
			"HeaderAndBody and its Signature; what is signed is the serialization of exactly the " +
			"entry's fields (ISD-AS, next ISD-AS, MTUs, hop and peer hop fields, extensions); " +
			"VerifySegment verifies every entry (a failed entry fails the segment) with a verifier " +
			"bound to that entry's ISD-AS and to the validity [Info.Timestamp, Info.Timestamp + " +
			"ExpTimeToDuration(that entry's hop field ExpTime)]; trust.Verifier.Verify succeeds " +
			"only if the key id parses, the signer is the bound ISD-AS (when bound) and not a " +
			"wildcard, the TRC is known, chains were found for exactly (IA, subject key id, bound " +
			"validity) and signed.Verify succeeded with a chain's leaf key; the returned message is " +
			"the verified one. NOT decided: ECDSA, protobuf encoding, certificate-chain validity (C34).",
		Run: runC24,
	})
	setClaim("C24", claim{
		Text: "Sibling agreement of signer and verifier on the associated data, dependence of the " +
			"associated data on all earlier signed content, fail-stop verification of every AS entry " +
			"with per-entry IA/validity binding (SSA value identity of the index), guard dominance in " +
			"trust.Verifier.Verify.",
		Note: claimNote, Technique: "static analysis: sibling agreement and value pairing on SSA, " +
			"backward dependence, guard dominance / fail-stop on the CFG", Ref: "DESIGN.md §4 C24"})
	addMutants(
		Mutant{Prop: "C24", Name: "assoc-drop-signature", File: "pkg/segment/seg.go",
			Old: `			ps.ASEntries[i].Signed.HeaderAndBody,
			ps.ASEntries[i].Signed.Signature,`,
			New: `			ps.ASEntries[i].Signed.HeaderAndBody,`, Expect: "A1-associated-data"},
		Mutant{Prop: "C24", Name: "no-bound-ia", File: "private/segment/segverifier/segverifier.go",
			Old:    `verifier.WithServer(server).WithIA(asEntry.Local).WithValidity(validity)`,
			New:    `verifier.WithServer(server).WithValidity(validity)`,
			Expect: "V1-verify-segment"},
		Mutant{Prop: "C24", Name: "validity-first-entry", File: "private/segment/segverifier/segverifier.go",
			Old:    `path.ExpTimeToDuration(asEntry.HopEntry.HopField.ExpTime),`,
			New:    `path.ExpTimeToDuration(segment.ASEntries[0].HopEntry.HopField.ExpTime),`,
			Expect: "V1-verify-segment"},
		Mutant{Prop: "C24", Name: "skip-failed-entry", File: "private/segment/segverifier/segverifier.go",
			Old: `		if err := segment.VerifyASEntry(ctx, verifier, i); err != nil {
			return serrors.JoinNoStack(ErrSegment, err,
				"seg", segment, "as", asEntry.Local)
		}`, New: `		if err := segment.VerifyASEntry(ctx, verifier, i); err != nil {
			if i == 0 {
				return serrors.JoinNoStack(ErrSegment, err,
					"seg", segment, "as", asEntry.Local)
			}
		}`, Expect: "V1-verify-segment"},
		Mutant{Prop: "C24", Name: "bound-ia-unchecked-when-zero-keyid", File: "private/trust/verifier.go",
			Old:    `	if !v.BoundIA.IsZero() && !v.BoundIA.Equal(ia) {`,
			New:    `	if !v.BoundIA.IsZero() && !ia.IsZero() && !v.BoundIA.Equal(ia) {`,
			Expect: "T1-trust-verifier"},
		Mutant{Prop: "C24", Name: "sign-wrong-position", File: "pkg/segment/seg.go",
			Old:    `ps.associatedData(len(ps.ASEntries))...)`,
			New:    `ps.associatedData(len(ps.ASEntries)-1)...)`,
			Expect: "A1-associated-data"},
		Mutant{Prop: "C24", Name: "query-without-validity", File: "private/trust/verifier.go",
			Old: `		Validity:     v.BoundValidity,
	}
	chains, err := v.getChains(ctx, query)`, New: `	}
	chains, err := v.getChains(ctx, query)`, Expect: "T1-trust-verifier"},
	)
}

func runC24(c *Ctx) {
	c24FetchedChains(c)
	keyIDAgreement(c, "K1-key-id-agreement")
	c38EveryElementFed(c, "F2-every-element-is-fed")
	psT := "(*pkg/segment.PathSegment)"
	// A1: sibling agreement on associated data
	if v := c.View(psT + ".AddASEntry"); v != nil {
		v.RequireCallArgs("A1-associated-data", 1, psT+".associatedData", "recv", "builtin:len(recv.ASEntries)")
		v.RequireCallArgs("A1-associated-data", 1, "invoke:pkg/segment.Signer.Sign", "arg2", "arg0",
			"google.golang.org/protobuf/proto.Marshal(local:complit)#0", psT+".associatedData(recv, builtin:len(recv.ASEntries))")
		e := NewE1(c, v.Fn)
		e.Require("A1-associated-data", "success-returns", nil, e.SuccessReturns(),
			e.CallGuard(PassErrNil, "invoke:pkg/segment.Signer.Sign"))
		v.RequireStore("A1-associated-data", 1, "local:asEntry.Signed", "invoke:pkg/segment.Signer.Sign(*)#0")
		// the appended entry is the signed one, and the signing happens before appending
		okAppend := false
		for _, st := range v.Stores("recv.ASEntries") {
			if strings.HasPrefix(st.Val, "builtin:append(recv.ASEntries, ") {
				okAppend = true
				sign := v.Calls("invoke:pkg/segment.Signer.Sign")
				if len(sign) != 1 || !instrDominates(sign[0].In.(ssa.Instruction), st.In) {
					okAppend = false
				}
			}
		}
		c.Check(okAppend, "A1-associated-data", v.Name()+":append-after-sign", v.Fn.Pos(),
			"ps.ASEntries = append(ps.ASEntries, asEntry) after signing with associatedData(len(ASEntries))")
		// signed body covers the entry's fields
		for field, src := range map[string]string{
			"IsdAs": "local:asEntry.Local", "NextIsdAs": "local:asEntry.Next", "Mtu": "uint32(local:asEntry.MTU)",
			"IngressMtu": "uint32(local:asEntry.HopEntry.IngressMTU)",
			"PeerIsdAs":  "local:peer.Peer", "PeerInterface": "uint64(local:peer.PeerInterface)",
			"PeerMtu": "uint32(local:peer.PeerMTU)", "Extensions": "pkg/segment.extensionsToPB(local:asEntry.Extensions)",
		} {
			v.RequireStore("A2-signed-body", 1, "local:complit."+field, src)
		}
		v.RequireStore("A2-signed-body", 2, "local:complit.ExpTime",
			"uint32(local:asEntry.HopEntry.HopField.ExpTime)", "uint32(local:peer.HopField.ExpTime)")
		v.RequireStore("A2-signed-body", 2, "local:complit.Ingress",
			"uint64(local:asEntry.HopEntry.HopField.ConsIngress)", "uint64(local:peer.HopField.ConsIngress)")
		v.RequireStore("A2-signed-body", 2, "local:complit.Egress",
			"uint64(local:asEntry.HopEntry.HopField.ConsEgress)", "uint64(local:peer.HopField.ConsEgress)")
		v.RequireStore("A2-signed-body", 2, "local:complit.Mac",
			"local:asEntry.HopEntry.HopField.MAC[:]", "local:peer.HopField.MAC[:]")
		v.RequireStore("A2-signed-body", 1, "local:asEntry", "arg1")
	}
	if v := c.View(psT + ".VerifyASEntry"); v != nil {
		v.RequireCallArgs("A1-associated-data", 1, "invoke:pkg/segment.Verifier.Verify", "arg1", "arg0",
			"recv.ASEntries[arg2].Signed", psT+".associatedData(recv, arg2)")
		e := NewE1(c, v.Fn)
		e.Require("A1-associated-data", "success-returns", nil, e.SuccessReturns(),
			e.CallGuard(PassErrNil, "invoke:pkg/segment.Verifier.Verify"),
			e.CallGuard(PassErrNil, psT+".validateIdx"))
	}
	if v := c.View(psT + ".associatedData"); v != nil {
		for _, b := range v.Fn.Blocks {
			if r, ok := b.Instrs[len(b.Instrs)-1].(*ssa.Return); ok {
				v.RequireDepends("A1-associated-data", "result", r.Results[0], "recv.Info.Raw",
					"recv.ASEntries[*].Signed.HeaderAndBody", "recv.ASEntries[*].Signed.Signature")
			}
		}
		// the loop covers exactly the entries before idx
		e := NewE1(c, v.Fn)
		n := 0
		for _, b := range v.Fn.Blocks {
			for i := range b.Succs {
				ls, _ := edgeLits(b, i, nil)
				for _, l := range ls {
					s := l.String(e.Sym)
					if wild("+lt(*, arg0)", s) {
						n++
					}
				}
			}
		}
		c.Check(n >= 1, "A1-associated-data", v.Name()+":loop-bound-is-idx", v.Fn.Pos(),
			fmt.Sprintf("loop over earlier entries is bounded by idx (%d bound test(s))", n))
	}
	// V1: VerifySegment
	if v := c.View("private/segment/segverifier.VerifySegment"); v != nil {
		e := NewE1(c, v.Fn)
		e.FailStop("V1-verify-segment", "every-entry", 1, e.CallGuard(PassErrNil, psT+".VerifyASEntry"))
		calls := v.Calls(psT + ".VerifyASEntry")
		c.Min("VerifySegment:VerifyASEntry", len(calls), 1)
		bound := "invoke:private/segment/verifier.Verifier.WithValidity(invoke:private/segment/verifier.Verifier.WithIA(" +
			"invoke:private/segment/verifier.Verifier.WithServer(arg1; arg2); arg3.ASEntries[*].Local); local:complit)"
		v.RequireCallArgs("V1-verify-segment", 1, psT+".VerifyASEntry", "arg3", "arg0", bound)
		v.RequireStore("V1-verify-segment", 1, "local:complit.NotBefore", "arg3.Info.Timestamp")
		v.RequireStore("V1-verify-segment", 1, "local:complit.NotAfter",
			"(time.Time).Add(arg3.Info.Timestamp, pkg/slayers/path.ExpTimeToDuration(arg3.ASEntries[*].HopEntry.HopField.ExpTime))")
		// all ASEntries[...] selections use the very index that is verified
		for _, ci := range calls {
			idx := ci.In.Common().Args[3]
			ok := true
			n := 0
			for _, b := range v.Fn.Blocks {
				for _, in := range b.Instrs {
					if ia, isIA := in.(*ssa.IndexAddr); isIA && v.S.Sym(ia.X) == "arg3.ASEntries" {
						n++
						if ia.Index != idx {
							ok = false
							c.Fail("V1-verify-segment", v.Name()+":entry-index", ia.Pos(),
								"selects ASEntries["+v.S.Sym(ia.Index)+"], but the entry verified is index "+v.S.Sym(idx))
						}
					}
				}
			}
			if ok {
				c.OK("V1-verify-segment", v.Name()+":entry-index", v.Fn.Pos(),
					fmt.Sprintf("%d selection(s) of ASEntries all use the verified index", n))
			}
		}
	}
	// T1: trust.Verifier.Verify
	if v := c.View("(private/trust.Verifier).Verify"); v != nil {
		e := NewE1(c, v.Fn)
		ia := "local:keyID.IsdAs"
		chains := "(*private/trust.Verifier).getChains(local:v, arg0, local:complit)"
		e.Require("T1-trust-verifier", "success-returns", nil, e.SuccessReturns(),
			e.CallGuard(PassErrNil, "pkg/scrypto/signed.ExtractUnverifiedHeader"),
			e.AtomGuard("key-id-parses", "+eq(google.golang.org/protobuf/proto.Unmarshal("+
				"pkg/scrypto/signed.ExtractUnverifiedHeader(arg1)#0.VerificationKeyID, local:keyID), nil)"),
			e.AtomGuard("subject-key-id-set", "-eq(builtin:len(local:keyID.SubjectKeyId), 0)"),
			Or("unbound-or-signer-is-bound-IA",
				e.AtomGuard("a", "+true((pkg/addr.IA).IsZero(local:v.BoundIA))"),
				e.AtomGuard("b", "+true((pkg/addr.IA).Equal(local:v.BoundIA, "+ia+"))",
					"+true((pkg/addr.IA).Equal("+ia+", local:v.BoundIA))")),
			e.AtomGuard("not-wildcard", "-true((pkg/addr.IA).IsWildcard("+ia+"))"),
			e.CallGuard(PassErrNil, "(*private/trust.Verifier).notifyTRC"),
			e.AtomGuard("chains-found", "+eq("+chains+"#1, nil)"),
			e.AtomGuard("signature-verifies", "+eq(pkg/scrypto/signed.Verify(arg1, "+chains+"#0[*][0].PublicKey, arg2)#1, nil)"))
		v.RequireStore("T1-trust-verifier", 1, "local:complit.IA", ia)
		v.RequireStore("T1-trust-verifier", 1, "local:complit.SubjectKeyID", "local:keyID.SubjectKeyId")
		v.RequireStore("T1-trust-verifier", 1, "local:complit.Validity", "local:v.BoundValidity")
		v.RequireStore("T1-trust-verifier", 1, "local:complit.ISD", "(pkg/addr.IA).ISD("+ia+")")
		v.RequireStore("T1-trust-verifier", 1, "local:v", "recv")
		// the message returned on success is the verified one
		okRet := false
		for _, r := range e.SuccessReturns() {
			ret := r.(*ssa.Return)
			if wild("pkg/scrypto/signed.Verify(arg1, *, arg2)#0", v.S.Sym(ret.Results[0])) {
				okRet = true
			} else {
				okRet = false
				break
			}
		}
		c.Check(okRet, "T1-trust-verifier", v.Name()+":returns-verified-message", v.Fn.Pos(),
			"success returns signed.Verify(...)#0")
	}
	for _, q := range []string{"(private/trust/compat.Verifier).WithIA", "(private/trust/compat.Verifier).WithValidity"} {
		if v := c.View(q); v != nil {
			field := "BoundIA"
			if strings.HasSuffix(q, "WithValidity") {
				field = "BoundValidity"
			}
			sts := v.Stores("*." + field)
			ok := len(sts) >= 1
			for _, st := range sts {
				if st.Val != "arg0" {
					ok = false
				}
			}
			c.Check(ok, "T1-trust-verifier", v.Name()+":binds-"+field, v.Fn.Pos(),
				"the returned verifier carries the argument in "+field)
		}
	}
	runSignedMsg(c, "S1-signed-message")
}
