package main

import (
	"fmt"
	"go/constant"
	"go/token"
	"sort"
	"strings"

	"golang.org/x/tools/go/ssa"
)

// Byte-layout extraction (the bit-provenance engine E7, byte granularity plus
// shift/mask recognition): for a function that fills a buffer with fixed-offset
// stores, binary.BigEndian.PutUintN calls and copies, compute which expression
// lands at which byte offset.

// foldInt evaluates v to a constant if it is a constant expression over
// constants (go/ssa does not fold `offset + 2` on a local).
func foldInt(v ssa.Value) (int64, bool) {
	return foldIntD(v, 0)
}

func foldIntD(v ssa.Value, d int) (int64, bool) {
	if d > 30 {
		return 0, false
	}
	switch x := v.(type) {
	case *ssa.Const:
		if x.Value == nil || x.Value.Kind() != constant.Int {
			return 0, false
		}
		i, ok := constant.Int64Val(x.Value)
		return i, ok
	case *ssa.BinOp:
		a, ok1 := foldIntD(x.X, d+1)
		b, ok2 := foldIntD(x.Y, d+1)
		if !ok1 || !ok2 {
			return 0, false
		}
		switch x.Op {
		case token.ADD:
			return a + b, true
		case token.SUB:
			return a - b, true
		case token.MUL:
			return a * b, true
		case token.QUO:
			if b != 0 {
				return a / b, true
			}
		case token.SHL:
			return a << uint(b), true
		case token.SHR:
			return a >> uint(b), true
		case token.AND:
			return a & b, true
		case token.OR:
			return a | b, true
		}
	case *ssa.Convert:
		return foldIntD(x.X, d+1)
	case *ssa.ChangeType:
		return foldIntD(x.X, d+1)
	case *ssa.Phi:
		var val int64
		for i, e := range x.Edges {
			c, ok := foldIntD(e, d+1)
			if !ok {
				return 0, false
			}
			if i > 0 && c != val {
				return 0, false
			}
			val = c
		}
		return val, len(x.Edges) > 0
	}
	return 0, false
}

// LayoutEntry says: bytes [Off, Off+Len) of buffer Base receive Expr.
// For PutUintN, Expr is the whole value (big endian). For single byte stores
// Expr is the stored byte expression. Kind: "put", "byte", "copy".
type LayoutEntry struct {
	Base string
	Off  int64 // -1 if not constant
	OffS string
	Len  int64 // 0 if unknown (copy)
	Expr string
	Kind string
	Pos  token.Pos
}

func (l LayoutEntry) String() string {
	return fmt.Sprintf("%s[%d+%d]<-%s(%s)", l.Base, l.Off, l.Len, l.Kind, l.Expr)
}

// baseAndOffset strips Slice/IndexAddr operations with foldable offsets and
// returns the root buffer value and the accumulated constant offset.
func baseAndOffset(v ssa.Value) (root ssa.Value, off int64, ok bool) {
	ok = true
	for {
		switch x := v.(type) {
		case *ssa.Slice:
			if x.Low != nil {
				lo, k := foldInt(x.Low)
				if !k {
					return x.X, off, false
				}
				off += lo
			}
			v = x.X
			continue
		case *ssa.IndexAddr:
			i, k := foldInt(x.Index)
			if !k {
				return x.X, off, false
			}
			off += i
			v = x.X
			continue
		case *ssa.UnOp:
			// load of a local slice variable: look through a single store
			if x.Op == token.MUL {
				if a, isA := x.X.(*ssa.Alloc); isA {
					if st := singleStore(a); st != nil {
						v = st
						continue
					}
				}
			}
		case *ssa.SliceToArrayPointer:
			v = x.X
			continue
		case *ssa.ChangeType:
			v = x.X
			continue
		}
		return v, off, ok
	}
}

// ExtractLayout returns all fixed-offset writes performed by fn.
func ExtractLayout(fn *ssa.Function, s *Symer) []LayoutEntry {
	var out []LayoutEntry
	add := func(dst ssa.Value, length int64, expr, kind string, pos token.Pos) {
		root, off, ok := baseAndOffset(dst)
		e := LayoutEntry{Base: s.Sym(root), Off: off, Len: length, Expr: expr, Kind: kind, Pos: pos}
		if !ok {
			e.Off = -1
			e.OffS = s.Sym(dst)
		}
		out = append(out, e)
	}
	for _, b := range fn.Blocks {
		for _, in := range b.Instrs {
			switch x := in.(type) {
			case *ssa.Store:
				if ia, ok := x.Addr.(*ssa.IndexAddr); ok {
					if bt := x.Val.Type().Underlying().String(); bt == "uint8" || bt == "byte" {
						add(ia, 1, s.Sym(x.Val), "byte", x.Pos())
					}
				}
			case *ssa.Call:
				n := calleeName(x.Common())
				args := x.Common().Args
				switch n {
				case "(encoding/binary.bigEndian).PutUint16":
					add(args[1], 2, s.Sym(args[2]), "put", x.Pos())
				case "(encoding/binary.bigEndian).PutUint32":
					add(args[1], 4, s.Sym(args[2]), "put", x.Pos())
				case "(encoding/binary.bigEndian).PutUint64":
					add(args[1], 8, s.Sym(args[2]), "put", x.Pos())
				case "builtin:copy":
					add(args[0], 0, s.Sym(args[1]), "copy", x.Pos())
				}
			}
		}
	}
	sort.SliceStable(out, func(i, j int) bool { return out[i].Off < out[j].Off })
	return out
}

// LayoutSpec is one expected entry: at Off (relative to Base matching BasePat)
// Len bytes receive an expression matching ExprPat.
type LayoutSpec struct {
	Off     int64
	Len     int64
	ExprPat string // wildcard pattern on the symbolic expression
	Kind    string // "" = any
	Name    string // spec name of the field (for reports)
}

// CheckLayout compares extracted entries for buffers whose base matches basePat
// with spec. Every spec entry must be present; every extracted entry on that
// base must be in the spec (no extra writes); constant-offset entries must not
// overlap.
func CheckLayout(c *Ctx, rule string, fn *ssa.Function, basePat string, spec []LayoutSpec) {
	s := NewSymer()
	ents := ExtractLayout(fn, s)
	fname := FuncName(fn)
	c.Funcs[fname] = true
	used := map[int]bool{}
	for _, sp := range spec {
		found := false
		var got []string
		for i, e := range ents {
			if !wild(basePat, e.Base) || e.Off != sp.Off {
				continue
			}
			got = append(got, e.String())
			if (sp.Len == 0 || e.Len == sp.Len) && wild(sp.ExprPat, e.Expr) &&
				(sp.Kind == "" || sp.Kind == e.Kind) {
				found = true
				used[i] = true
			}
		}
		construct := fmt.Sprintf("%s:%s@%d", fname, sp.Name, sp.Off)
		if found {
			c.OK(rule, construct, fn.Pos(), fmt.Sprintf("bytes %d..%d <- %s", sp.Off,
				sp.Off+sp.Len-1, sp.ExprPat))
		} else {
			c.Fail(rule, construct, fn.Pos(), fmt.Sprintf(
				"expected bytes %d+%d <- %s; found at that offset: [%s]", sp.Off, sp.Len,
				sp.ExprPat, strings.Join(got, "; ")))
		}
	}
	for i, e := range ents {
		if !wild(basePat, e.Base) || used[i] {
			continue
		}
		c.Fail(rule, fmt.Sprintf("%s:unexpected-write@%d", fname, e.Off), e.Pos,
			"write not in the specified layout: "+e.String())
	}
}
