package main

import (
	"fmt"

	"golang.org/x/tools/go/ssa"
)

func init() {
	register(&PropRule{
		ID:    "C13",
		Roots: []string{"./router", "./pkg/experimental/epic"},
		Explain: "Decides on all CFG paths of processEPIC: a forwarding return is reachable only through " +
			"process() == pForward, and, whenever the hop is the penultimate or the last one (both " +
			"determined BEFORE process() advances the path), only after VerifyTimestamp and VerifyHVF " +
			"succeeded; no other condition can excuse the check; the HVF verified is LHVF on the last " +
			"hop and PHVF otherwise; VerifyHVF is fed the full MAC cached by verifyCurrentMAC, the " +
			"packet id, the SCION layer and the first info field's timestamp; VerifyTimestamp is fed " +
			"that timestamp, the packet's EPIC timestamp and time.Now(); inside libepic the timestamp " +
			"window tests (future beyond clock skew, older than lifetime + skew) precede acceptance, " +
			"VerifyHVF succeeds only through a non-zero constant-time comparison with CalcMac, and the " +
			"MAC input layout covers the source-address length bits, timestamp, packet id, source " +
			"ISD-AS, raw source address and payload length. NOT decided: time arithmetic, CBC-MAC.",
		Run: runC13,
	})
	setClaim("C13", claim{
		Text: "Guard dominance of the EPIC timestamp and HVF checks over the forwarding return on the " +
			"penultimate/last-hop edges (no excusing condition), evaluation-order dominance, phi " +
			"pairing of LHVF/PHVF, argument pairing, byte layout of the EPIC MAC input.",
		Note: claimNote, Technique: "static analysis: guard dominance by pass-edge removal, phi/edge " +
			"pairing, symbolic argument pairing, byte-layout extraction", Ref: "DESIGN.md §4 C13"})
	addMutants(
		Mutant{Prop: "C13", Name: "only-last-hop", File: "router/dataplane.go",
			Old: `	if isPenultimate || isLast {
		firstInfo, err := p.path.GetInfoField(0)`, New: `	if isLast || (isPenultimate && p.ingressFromLink != 0) {
		firstInfo, err := p.path.GetInfoField(0)`, Expect: "G1-epic-checks"},
		Mutant{Prop: "C13", Name: "islast-after-process", File: "router/dataplane.go",
			Old: `	isLast := p.path.IsLastHop()

	disp := p.process()
	if disp != pForward {
		return disp
	}
`, New: `
	disp := p.process()
	if disp != pForward {
		return disp
	}
	isLast := p.path.IsLastHop()
`, Expect: "O1-evaluated-before-process"},
		Mutant{Prop: "C13", Name: "phvf-on-last", File: "router/dataplane.go",
			Old: `		if isLast {
			HVF = epicPath.LHVF
		}`, New: `		if isLast {
			HVF = epicPath.PHVF
		}`, Expect: "P1-hvf-selection"},
		Mutant{Prop: "C13", Name: "skip-for-sibling-transit", File: "router/dataplane.go",
			Old: `	if isPenultimate || isLast {
		firstInfo, err := p.path.GetInfoField(0)`,
			New: `	checkedAtIngress := p.ingressFromLink == 0 && p.scionLayer.SrcIA != p.d.localIA
	if (isPenultimate || isLast) && !checkedAtIngress {
		firstInfo, err := p.path.GetInfoField(0)`, Expect: "G1-epic-checks"},
		Mutant{Prop: "C13", Name: "timestamp-future-unchecked", File: "pkg/experimental/epic/epic.go",
			Old: `	if tsSender.After(now.Add(MaxClockSkew)) {`,
			New: `	if tsSender.After(now.Add(MaxClockSkew)) && epicTS != 0 {`, Expect: "T1-timestamp-window"},
		Mutant{Prop: "C13", Name: "macinput-without-payloadlen", File: "pkg/experimental/epic/epic.go",
			Old: `	binary.BigEndian.PutUint16(inputBuffer[offset:], s.PayloadLen)`,
			New: `	binary.BigEndian.PutUint16(inputBuffer[offset:], 0)`, Expect: "L1-epic-mac-input"},
	)
}

func runC13(c *Ctx) {
	procStateFresh(c, "S1-per-packet-state")
	epicLibraryStateless(c, "S2-mac-library-stateless")
	v := c.View(procT + ".processEPIC")
	if v == nil {
		return
	}
	e := NewE1(c, v.Fn)
	succ := e.SuccessReturns()
	c.Min("processEPIC:success-returns", len(succ), 1)
	pen := "(*pkg/slayers/path/scion.Raw).IsPenultimateHop(recv.scionLayer.Path.(*pkg/slayers/path/epic.Path)#0.ScionPath)"
	last := "(*pkg/slayers/path/scion.Raw).IsLastHop(recv.scionLayer.Path.(*pkg/slayers/path/epic.Path)#0.ScionPath)"
	pen2 := "(*pkg/slayers/path/scion.Raw).IsPenultimateHop(recv.path)"
	last2 := "(*pkg/slayers/path/scion.Raw).IsLastHop(recv.path)"
	e.Require("G1-epic-checks", "success-returns", nil, succ,
		e.CallGuard(PassFwd, procT+".process"))
	for _, chk := range []struct{ name, callee string }{
		{"VerifyTimestamp", "pkg/experimental/epic.VerifyTimestamp"},
		{"VerifyHVF", "pkg/experimental/epic.VerifyHVF"},
	} {
		e.Require("G1-epic-checks", "success-returns:"+chk.name, nil, succ,
			Or("not-penultimate-or-"+chk.name, e.AtomGuard("np", "-true("+pen+")", "-true("+pen2+")"),
				e.CallGuard(PassErrNil, chk.callee)),
			Or("not-last-or-"+chk.name, e.AtomGuard("nl", "-true("+last+")", "-true("+last2+")"),
				e.CallGuard(PassErrNil, chk.callee)))
	}
	// O1: both predicates are evaluated before process() advances the path
	procCalls := e.CallSites(procT + ".process")
	preds := v.Calls("(*pkg/slayers/path/scion.Raw).IsPenultimateHop", "(*pkg/slayers/path/scion.Raw).IsLastHop")
	ok := len(procCalls) == 1 && len(preds) == 2
	if ok {
		for _, p := range preds {
			if !instrDominates(p.In.(ssa.Instruction), procCalls[0]) {
				ok = false
			}
		}
	}
	c.Check(ok, "O1-evaluated-before-process", v.Name()+":hop-position-before-process", v.Fn.Pos(),
		fmt.Sprintf("%d hop-position predicate call(s) dominate the single process() call", len(preds)))
	// the path examined is the EPIC path's SCION path
	v.RequireStore("O1-evaluated-before-process", 1, "recv.path",
		"recv.scionLayer.Path.(*pkg/slayers/path/epic.Path)#0.ScionPath")

	// P1: arguments
	ep := "recv.scionLayer.Path.(*pkg/slayers/path/epic.Path)#0"
	fi := "(*pkg/slayers/path/scion.Raw).GetInfoField(*, 0)#0"
	calls := v.RequireCallArgs("P1-hvf-selection", 1, "pkg/experimental/epic.VerifyHVF", "recv.cachedMac", ep+".PktID",
		"recv.scionLayer", fi+".Timestamp", "", "recv.macInputBuffer[:48]")
	v.RequireCallArgs("P1-hvf-selection", 1, "pkg/experimental/epic.VerifyTimestamp",
		"time.Unix(int64("+fi+".Timestamp), 0)", ep+".PktID.Timestamp", "time.Now()")
	for _, ci := range calls {
		hvf := ci.In.Common().Args[4]
		phi, isPhi := hvf.(*ssa.Phi)
		okSel := false
		detail := "HVF argument is " + v.S.Sym(hvf)
		if isPhi && len(phi.Edges) == 2 {
			okSel = true
			for i, ed := range phi.Edges {
				pred := phi.Block().Preds[i]
				onLast := false
				for _, l := range blockLits(pred) {
					s := l.String(v.S)
					if s == "+true("+last+")" || s == "+true("+last2+")" {
						onLast = true
					}
				}
				// the edge from the branch taken when isLast: refine with the edge literal
				for si, sblk := range pred.Succs {
					if sblk == phi.Block() {
						ls, _ := edgeLits(pred, si, nil)
						for _, l := range ls {
							s := l.String(v.S)
							if s == "+true("+last+")" || s == "+true("+last2+")" {
								onLast = true
							}
						}
					}
				}
				want := ep + ".PHVF"
				if onLast {
					want = ep + ".LHVF"
				}
				if v.S.Sym(ed) != want {
					okSel = false
					detail = fmt.Sprintf("on the edge with isLast=%v the HVF is %s, required %s", onLast, v.S.Sym(ed), want)
				}
			}
		}
		c.Check(okSel, "P1-hvf-selection", v.Name()+":LHVF-iff-last", ci.In.Pos(), detail)
	}
	// cachedMac is the full MAC of the hop validated last
	if mv := c.View(procT + ".verifyCurrentMAC"); mv != nil {
		mv.RequireStore("P1-hvf-selection", 1, "recv.cachedMac",
			"pkg/slayers/path.FullMAC(recv.mac, recv.infoField, recv.hopField, *)")
	}

	// libepic
	if fn := c.Fn("pkg/experimental/epic.VerifyTimestamp"); fn != nil {
		te := NewE1(c, fn)
		ts := "(time.Time).Add(arg0, ((time.Duration(arg1) + 1:time.Duration) * *))"
		te.Require("T1-timestamp-window", "success-returns", nil, te.SuccessReturns(),
			te.AtomGuard("not-in-the-future", "-true((time.Time).After("+ts+", (time.Time).Add(arg2, *)))"),
			te.AtomGuard("not-expired", "-true((time.Time).After(arg2, (time.Time).Add((time.Time).Add("+ts+", *), *)))"))
		// no other condition may lead from a failed window test to success
		te.FailStop("T1-timestamp-window", "future", 1,
			te.AtomGuard("not-in-the-future", "-true((time.Time).After("+ts+", (time.Time).Add(arg2, *)))"))
		te.FailStop("T1-timestamp-window", "expired", 1,
			te.AtomGuard("not-expired", "-true((time.Time).After(arg2, (time.Time).Add((time.Time).Add("+ts+", *), *)))"))
		c.Check(c.Const("pkg/experimental/epic.MaxClockSkew") == "1000000000:time.Duration" &&
			c.Const("pkg/experimental/epic.MaxPacketLifetime") == "2000000000:time.Duration",
			"T1-timestamp-window", "constants", fn.Pos(), "MaxClockSkew = 1s, MaxPacketLifetime = 2s")
		tv := ViewOf(c, fn)
		for _, ci := range tv.Calls("(time.Time).After") {
			_ = ci
		}
	}
	if hv := c.View("pkg/experimental/epic.VerifyHVF"); hv != nil {
		he := NewE1(c, hv.Fn)
		mac := "pkg/experimental/epic.CalcMac(arg0, arg1, arg2, arg3, arg5)"
		he.Require("T2-hvf-compare", "success-returns", nil, he.SuccessReturns(),
			he.AtomGuard("hvf-equals-mac", "-eq(crypto/subtle.ConstantTimeCompare(arg4, "+mac+"#0), 0)",
				"-eq(crypto/subtle.ConstantTimeCompare("+mac+"#0, arg4), 0)"),
			he.AtomGuard("mac-computed", "+eq("+mac+"#1, nil)"),
			he.AtomGuard("auth-length", "+eq(builtin:len(arg0), 16)"))
	}
	if cv := c.View("pkg/experimental/epic.CalcMac"); cv != nil {
		cv.RequireCallArgs("T2-hvf-compare", 1, "pkg/experimental/epic.prepareMacInput", "arg1", "arg2", "arg3", "")
	}
	if fn := c.Fn("pkg/experimental/epic.prepareMacInput"); fn != nil {
		s := NewSymer()
		ents := ExtractLayout(fn, s)
		type want struct {
			name, expr string
			off        int64
			kind       string
		}
		wants := []want{
			{"flags(src addr length)", "(arg1.SrcAddrType & 3:pkg/slayers.AddrType)", 0, "byte"},
			{"timestamp", "arg2", 1, "put"},
			{"srcIA", "arg1.SrcIA", 13, "put"},
			{"raw source address", "arg1.RawSrcAddr", 21, "copy"},
		}
		for _, w := range wants {
			found := false
			for _, en := range ents {
				if en.Base == "arg3" && en.Off == w.off && en.Kind == w.kind && en.Expr == w.expr {
					found = true
				}
			}
			c.Check(found, "L1-epic-mac-input", "prepareMacInput:"+w.name, fn.Pos(),
				fmt.Sprintf("offset %d <- %s(%s)", w.off, w.kind, w.expr))
		}
		// packet id at offset 5 via PktID.SerializeTo, payload length after the address
		pv := ViewOf(c, fn)
		okID := false
		for _, ci := range pv.Calls("(*pkg/slayers/path/epic.PktID).SerializeTo") {
			root, off, okOff := baseAndOffset(ci.In.Common().Args[1])
			isArg0 := ci.Args[0] == "arg0"
			for _, st := range pv.Stores(ci.Args[0]) {
				if st.Val == "arg0" {
					isArg0 = true
				}
			}
			if okOff && off == 5 && s.Sym(root) == "arg3" && isArg0 {
				okID = true
			}
		}
		c.Check(okID, "L1-epic-mac-input", "prepareMacInput:packet id", fn.Pos(), "offset 5 <- pktID.SerializeTo")
		okPL := false
		for _, en := range ents {
			if en.Kind == "put" && en.Len == 2 && en.Expr == "arg1.PayloadLen" {
				okPL = true
			}
		}
		c.Check(okPL, "L1-epic-mac-input", "prepareMacInput:payload length", fn.Pos(),
			"PutUint16(after the source address) <- s.PayloadLen")
	}
}
