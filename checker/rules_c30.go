package main

import (
	"fmt"
	"go/token"
	"sort"
	"strings"

	"golang.org/x/tools/go/ssa"
)

func init() {
	register(&PropRule{
		ID:    "C30",
		Roots: []string{"./private/segment/segfetcher", "./private/path/combinator"},
		Explain: "Decides the structural clauses of the path lookup: (S1) the complete request table of " +
			"MultiSegmentSplitter.Split over (inspector set, source core, destination core, single " +
			"core AS zero / equal source / equal destination, same ISD, wildcard destination, inspect " +
			"error), each returned request list decoded from the slice literal and compared with the " +
			"up/core/down combinations the property names; (V1) filterRevoked as a path-sensitive " +
			"typestate over its boolean skeleton: a path is appended to the result only after the loop " +
			"over ITS OWN Metadata.Interfaces ran to exhaustion, every iteration looked the current " +
			"element up in the revocation cache (key NewKey(elem.IA, elem.ID)) and no lookup of that " +
			"path returned a revocation; the function returns only the filtered slice; (E1) " +
			"buildAllPaths appends a path to its result only behind Expiry.After(time.Now()) of that " +
			"path and combines from the local IA to each destination; (D1) findDestinations: a " +
			"non-wildcard destination maps to itself only, up-segment cores are added only for the " +
			"local ISD; (G1) GetPaths returns either translatePaths(filterRevoked(buildAllPaths(local " +
			"IA, dst, fetched))), nil, or - exactly when dst equals the local IA, and then without " +
			"reaching splitter or fetcher - one path literal with Src, Dst set and no dataplane path; " +
			"translatePath copies Src and Dst from the first and last interface. NOT decided: that " +
			"the combinator's interface list is complete (C28/C29), revocation cache expiry (C31).",
		Run: runC30,
	})
	setClaim("C30", claim{
		Text: "Split request table (exhaustive), revocation filter typestate, expiry guard on every " +
			"append, destination set rules, GetPaths pipeline and local-AS shape.",
		Note: claimNote, Technique: "static analysis: decision table by abstract evaluation, path-sensitive " +
			"typestate on the boolean skeleton (property simulation), guard dominance, call-argument pairing",
		Ref: "DESIGN.md §4 C30"})
	pf := "private/segment/segfetcher/pather.go"
	sf := "private/segment/segfetcher/splitter.go"
	addMutants(
		Mutant{Prop: "C30", Name: "filter-result-discarded", File: pf,
			Old: `	paths = p.filterRevoked(ctx, paths)`, New: `	p.filterRevoked(ctx, paths)`, Expect: "G1-pipeline"},
		Mutant{Prop: "C30", Name: "revoked-last-interface-only", File: pf,
			Old: `			revoked = revoked || rev != nil`, New: `			revoked = rev != nil`, Expect: "V1-revocation-filter"},
		Mutant{Prop: "C30", Name: "revoked-needs-all", File: pf,
			Old: `		revoked := false
		for _, iface := range path.Metadata.Interfaces {`, New: `		revoked := len(path.Metadata.Interfaces) > 0
		for _, iface := range path.Metadata.Interfaces {`,
			More: []Edit{{File: pf, Old: `			revoked = revoked || rev != nil`, New: `			revoked = revoked && rev != nil`}},
			Expect: "V1-revocation-filter"},
		Mutant{Prop: "C30", Name: "first-interface-only", File: pf,
			Old: `			revoked = revoked || rev != nil
		}`, New: `			revoked = revoked || rev != nil
			break
		}`, Expect: "V1-revocation-filter"},
		Mutant{Prop: "C30", Name: "expiry-inverted", File: pf,
			Old: `		if path.Metadata.Expiry.After(now) {`, New: `		if path.Metadata.Expiry.Before(now) {`, Expect: "E1-expiry"},
		Mutant{Prop: "C30", Name: "expiry-filter-bypassed", File: pf,
			Old: `	return validPaths
}`, New: `	if len(validPaths) == 0 {
		return paths
	}
	return validPaths
}`, Expect: "E1-expiry"},
		Mutant{Prop: "C30", Name: "local-only-without-refresh", File: pf,
			Old: `	if dst.Equal(src) {`, New: `	if dst.Equal(src) && !refresh {`, Expect: "G1-local"},
		Mutant{Prop: "C30", Name: "ups-for-any-wildcard", File: pf,
			Old: `	if dst.ISD() == p.IA.ISD() {`, New: `	if dst.ISD() != 0 {`, Expect: "D1-destinations"},
		Mutant{Prop: "C30", Name: "split-or-wildcard", File: sf,
			Old: `		if (src.ISD() == dst.ISD() && dst.IsWildcard()) || singleCore.Equal(dst) {`,
			New: `		if src.ISD() == dst.ISD() || dst.IsWildcard() || singleCore.Equal(dst) {`, Expect: "S1-split-table"},
		Mutant{Prop: "C30", Name: "split-single-core-src", File: sf,
			Old: `		if singleCore.Equal(src) {`, New: `		if !singleCore.IsZero() {`, Expect: "S1-split-table"},
		Mutant{Prop: "C30", Name: "split-core-core-down", File: sf,
			Old: `		return Requests{{Src: src, Dst: dst, SegType: Core}}, nil`,
			New: `		return Requests{{Src: src, Dst: dst, SegType: Down}}, nil`, Expect: "S1-split-table"},
		Mutant{Prop: "C30", Name: "translate-dst-first", File: pf,
			Old: `		Dst:           comb.Metadata.Interfaces[len(comb.Metadata.Interfaces)-1].IA,`,
			New: `		Dst:           comb.Metadata.Interfaces[len(comb.Metadata.Interfaces)-2].IA,`, Expect: "G1-translate"},
	)
}

// decodeSliceLit decodes `[]T{{f: v, ...}, ...}` returned as a slice of a fresh
// array: one map field->Sym per element, in index order.
func decodeSliceLit(s *Symer, val ssa.Value) ([]map[string]string, bool) {
	sl, ok := val.(*ssa.Slice)
	if !ok || sl.Low != nil || sl.High != nil {
		return nil, false
	}
	arr, ok := sl.X.(*ssa.Alloc)
	if !ok || arr.Referrers() == nil {
		return nil, false
	}
	elems := map[int64]map[string]string{}
	for _, r := range *arr.Referrers() {
		ia, ok := r.(*ssa.IndexAddr)
		if !ok {
			continue
		}
		idx, ok := constInt(ia.Index)
		if !ok || ia.Referrers() == nil {
			return nil, false
		}
		for _, rr := range *ia.Referrers() {
			st, ok := rr.(*ssa.Store)
			if !ok || st.Addr != ia {
				continue
			}
			m := map[string]string{}
			ev := st.Val
			if mi, ok := ev.(*ssa.MakeInterface); ok {
				ev = mi.X
			}
			ld, isLoad := ev.(*ssa.UnOp)
			if isLoad {
				_, isLoad = ld.X.(*ssa.Alloc)
			}
			if isLoad && ld.Op == token.MUL {
				if lit, ok := ld.X.(*ssa.Alloc); ok && lit.Referrers() != nil {
					for _, fr := range *lit.Referrers() {
						fa, ok := fr.(*ssa.FieldAddr)
						if !ok || fa.Referrers() == nil {
							continue
						}
						for _, fs := range *fa.Referrers() {
							if fst, ok := fs.(*ssa.Store); ok && fst.Addr == fa {
								m[fieldName(fa.X.Type(), fa.Field)] = s.Sym(fst.Val)
							}
						}
					}
				}
			} else {
				m[""] = s.Sym(st.Val)
			}
			elems[idx] = m
		}
	}
	out := make([]map[string]string, len(elems))
	for i := range out {
		m, ok := elems[int64(i)]
		if !ok {
			return nil, false
		}
		out[i] = m
	}
	return out, true
}

// appendedElems returns the values appended by `append(s, e1, e2...)` (the
// stores into the varargs array); nil for `append(s, t...)`.
func appendedElems(ap *ssa.Call) []ssa.Value {
	if len(ap.Common().Args) != 2 {
		return nil
	}
	sl, ok := ap.Common().Args[1].(*ssa.Slice)
	if !ok {
		return nil
	}
	arr, ok := sl.X.(*ssa.Alloc)
	if !ok || arr.Referrers() == nil {
		return nil
	}
	var out []ssa.Value
	for _, r := range *arr.Referrers() {
		ia, ok := r.(*ssa.IndexAddr)
		if !ok || ia.Referrers() == nil {
			continue
		}
		for _, rr := range *ia.Referrers() {
			if st, ok := rr.(*ssa.Store); ok && st.Addr == ia {
				out = append(out, st.Val)
			}
		}
	}
	return out
}

// rootOf strips loads, field selections and interface boxing: the variable or
// element a value was read from.
func rootOf(v ssa.Value) ssa.Value {
	for {
		switch x := v.(type) {
		case *ssa.UnOp:
			if x.Op != token.MUL {
				return v
			}
			v = x.X
		case *ssa.FieldAddr:
			v = x.X
		case *ssa.Field:
			v = x.X
		case *ssa.MakeInterface:
			v = x.X
		default:
			return v
		}
	}
}

// sameElem: the same value, or the same element of the same slice (x[i] written
// twice is two IndexAddr instructions: go/ssa does no common-subexpression
// elimination).
func sameElem(a, b ssa.Value) bool {
	if a == b {
		return true
	}
	ia, ok1 := a.(*ssa.IndexAddr)
	ib, ok2 := b.(*ssa.IndexAddr)
	if ok1 && ok2 {
		return ia.Index == ib.Index && rootOf(ia.X) == rootOf(ib.X)
	}
	return false
}

// accessPath renders the field selections stripped by rootOf (".A.B").
func accessPath(v ssa.Value) string {
	p := ""
	for {
		switch x := v.(type) {
		case *ssa.UnOp:
			if x.Op != token.MUL {
				return p
			}
			v = x.X
		case *ssa.FieldAddr:
			p = "." + fieldName(x.X.Type(), x.Field) + p
			v = x.X
		case *ssa.Field:
			p = "." + fieldName(x.X.Type(), x.Field) + p
			v = x.X
		default:
			return p
		}
	}
}

func runC30(c *Ctx) {
	// the expiry the pather filters on is computed from the hop fields Path() builds
	if pv := c.View("(*private/path/combinator.pathSolution).Path"); pv != nil {
		hopFieldProvenance(c, pv, "X2-expiry-of-the-hops-in-the-path")
	}
	sp := "private/segment/segfetcher."
	// The requests issued for a lookup depend on the kinds of source and destination AS
	// as the trust store reports them NOW: neither the splitter nor the pather keeps
	// anything from one lookup to the next (a remembered core set survives a TRC update).
	for _, q := range []string{"(*" + sp + "MultiSegmentSplitter).Split", "(*" + sp + "Pather).GetPaths"} {
		if fn := c.Fn(q); fn != nil {
			w := receiverWrites(fn)
			c.Check(len(w) == 0, "M1-no-state-between-lookups", FuncName(fn)+":receiver-not-written", fn.Pos(),
				fmt.Sprintf("%d store(s) into the receiver's fields in the methods it reaches: %s", len(w), strings.Join(truncList(w, 3), " | ")))
		}
	}
	c30Split(c, sp)
	c30FilterRevoked(c, sp)
	c30Build(c, sp)
	c30GetPaths(c, sp)
}

func c30Split(c *Ctx, sp string) {
	fn := c.Fn("(*" + sp + "MultiSegmentSplitter).Split")
	if fn == nil {
		return
	}
	up, down, core := c.Const("pkg/segment.TypeUp"), c.Const("pkg/segment.TypeDown"), c.Const("pkg/segment.TypeCore")
	kind := map[string]string{up: "Up", down: "Down", core: "Core"}
	inspect := "(*" + sp + "MultiSegmentSplitter).inspect(recv, arg0, recv.LocalIA, arg1)"
	names := map[string]string{
		"recv.LocalIA": "src", "arg1": "dst",
		sp + "toWildCard(recv.LocalIA)": "Wsrc", sp + "toWildCard(arg1)": "Wdst",
		inspect + "#0": "single",
	}
	syms := NewSymer()
	render := func(ret *ssa.Return, i int) string {
		if i != 0 {
			return ""
		}
		els, ok := decodeSliceLit(syms, RetVal(ret, 0))
		if !ok {
			return ""
		}
		var parts []string
		for _, e := range els {
			k, ok1 := kind[e["SegType"]]
			s, ok2 := names[e["Src"]]
			d, ok3 := names[e["Dst"]]
			if !ok1 || !ok2 || !ok3 || len(e) != 3 {
				return fmt.Sprintf("?{%v}", e)
			}
			parts = append(parts, k+":"+s+">"+d)
		}
		return strings.Join(parts, ";")
	}
	bd := boolDom()
	RunTable(c, &TableSpec{
		Rule: "S1-split-table", Fn: fn, RetRender: render,
		NoInline: []string{"*inspect", "*toWildCard", "*IsZero", "*Equal", "*ISD", "*IsWildcard"},
		Atoms: []Atom{
			{Name: "noInspector", Pats: []string{"(recv.Inspector == nil)"}, Domain: bd},
			{Name: "srcCore", Pats: []string{"recv.Core"}, Domain: bd},
			{Name: "dstCore", Pats: []string{inspect + "#1"}, Domain: bd},
			{Name: "inspectErr", Pats: []string{"(" + inspect + "#2 != nil)"}, Domain: bd},
			{Name: "singleZero", Pats: []string{"(pkg/addr.IA).IsZero(" + inspect + "#0)"}, Domain: bd},
			{Name: "singleIsDst", Pats: []string{"(pkg/addr.IA).Equal(" + inspect + "#0, arg1)"}, Domain: bd},
			{Name: "singleIsSrc", Pats: []string{"(pkg/addr.IA).Equal(" + inspect + "#0, recv.LocalIA)"}, Domain: bd},
			{Name: "sameISD", Pats: []string{"((pkg/addr.IA).ISD(arg1) == (pkg/addr.IA).ISD(recv.LocalIA))",
				"((pkg/addr.IA).ISD(recv.LocalIA) == (pkg/addr.IA).ISD(arg1))"}, Domain: bd},
			{Name: "dstWildcard", Pats: []string{"(pkg/addr.IA).IsWildcard(arg1)"}, Domain: bd},
		},
		Oracle: func(a map[string]string) map[string]string {
			t := func(k string) bool { return a[k] == "true" }
			// combinations that cannot occur
			if t("singleZero") && (t("singleIsDst") || t("singleIsSrc")) && !t("noInspector") {
				// a zero single core equals neither a real source nor a lookup destination
				return nil
			}
			ok := func(list string) map[string]string { return map[string]string{"ret0": list, "ret1": "nil"} }
			if t("noInspector") {
				if t("srcCore") {
					return ok("Down:src>dst;Core:src>dst;Core:src>Wdst;Down:Wdst>dst")
				}
				return ok("Up:src>Wsrc;Core:Wsrc>Wdst;Core:Wsrc>dst;Down:Wdst>dst")
			}
			if t("inspectErr") {
				return map[string]string{"ret0": "nil", "ret1": "sym:*"}
			}
			switch {
			case !t("srcCore") && !t("dstCore"):
				if !t("singleZero") {
					return ok("Up:src>single;Down:single>dst")
				}
				return ok("Up:src>Wsrc;Core:Wsrc>Wdst;Down:Wdst>dst")
			case !t("srcCore") && t("dstCore"):
				if (t("sameISD") && t("dstWildcard")) || t("singleIsDst") {
					return ok("Up:src>dst")
				}
				return ok("Up:src>Wsrc;Core:Wsrc>dst")
			case t("srcCore") && !t("dstCore"):
				if t("singleIsSrc") {
					return ok("Down:src>dst")
				}
				return ok("Core:src>Wdst;Down:Wdst>dst")
			}
			return ok("Core:src>dst")
		},
	})
	// toWildCard keeps the ISD and zeroes the AS
	if v := c.View(sp + "toWildCard"); v != nil {
		v.RequireCallArgs("S1-split-table", 1, "pkg/addr.MustIAFrom", "(pkg/addr.IA).ISD(arg0)", "0:pkg/addr.AS")
	}
}

const (
	c30Revoked  = 1 << iota // a lookup for the current path returned a revocation
	c30Complete             // the loop over the current path's interfaces ran to exhaustion
	c30Checked              // the current iteration looked its element up
	c30InLoop               // control is inside the interface loop
)

func c30FilterRevoked(c *Ctx, sp string) {
	v := c.View("(*" + sp + "Pather).filterRevoked")
	if v == nil {
		return
	}
	rule := "V1-revocation-filter"
	fn := v.Fn
	// the loop over <path>.Metadata.Interfaces
	var header *ssa.BasicBlock
	var listSym, idxSym string
	for _, b := range fn.Blocks {
		iff, ok := b.Instrs[len(b.Instrs)-1].(*ssa.If)
		if !ok {
			continue
		}
		cmp, ok := iff.Cond.(*ssa.BinOp)
		if !ok || cmp.Op != token.LSS {
			continue
		}
		ln, ok := cmp.Y.(*ssa.Call)
		if !ok || calleeName(ln.Common()) != "builtin:len" {
			continue
		}
		ls := v.S.Sym(ln.Common().Args[0])
		if strings.HasSuffix(ls, ".Metadata.Interfaces") && inLoopWith(b.Succs[0], b) {
			header, listSym, idxSym = b, ls, v.S.Sym(cmp.X)
		}
	}
	if header == nil {
		c.Fail(rule, v.Name()+":interface-loop", fn.Pos(),
			"no loop over <path>.Metadata.Interfaces found (anchor unresolved)")
		return
	}
	pathSym := strings.TrimSuffix(listSym, ".Metadata.Interfaces")
	elem := listSym + "[" + idxSym + "]"
	wantKey := "private/revcache.NewKey(" + elem + ".IA, " + elem + ".ID)"
	// results: appends whose value reaches a return
	retVals := map[ssa.Value]bool{}
	var flow func(x ssa.Value)
	flow = func(x ssa.Value) {
		if x == nil || retVals[x] {
			return
		}
		retVals[x] = true
		switch y := x.(type) {
		case *ssa.Phi:
			for _, e := range y.Edges {
				flow(e)
			}
		case *ssa.Call:
			if calleeName(y.Common()) == "builtin:append" {
				flow(y.Common().Args[0])
			}
		}
	}
	okRet := true
	for _, b := range fn.Blocks {
		if r, ok := b.Instrs[len(b.Instrs)-1].(*ssa.Return); ok {
			flow(RetVal(r, 0))
		}
	}
	appends := 0
	for x := range retVals {
		switch y := x.(type) {
		case *ssa.Phi:
		case *ssa.Const:
			okRet = okRet && y.IsNil()
		case *ssa.Call:
			if calleeName(y.Common()) != "builtin:append" {
				okRet = false
			} else {
				appends++
			}
		default:
			okRet = false
		}
	}
	c.Check(okRet && appends >= 1, rule, v.Name()+":returns-filtered-slice", fn.Pos(),
		fmt.Sprintf("every returned value is nil or built by append in this function (%d append(s))", appends))
	gets, keyed := 0, 0
	spec := &PSSpec{Fn: fn,
		Instr: func(in ssa.Instruction, bits uint32) uint32 {
			ci, ok := in.(ssa.CallInstruction)
			if !ok {
				return bits
			}
			if calleeName(ci.Common()) == "invoke:private/revcache.RevCache.Get" && bits&c30InLoop != 0 {
				if len(ci.Common().Args) == 2 && v.S.Sym(ci.Common().Args[1]) == wantKey {
					return bits | c30Checked
				}
			}
			return bits
		},
		Leaf: func(x ssa.Value, val bool, bits uint32) uint32 {
			cmp, ok := x.(*ssa.BinOp)
			if !ok || !isNilConst(cmp.Y) {
				return bits
			}
			if !wild("invoke:private/revcache.RevCache.Get(*)#0", v.S.Sym(cmp.X)) {
				return bits
			}
			if (cmp.Op == token.NEQ) == val {
				return bits | c30Revoked
			}
			return bits
		},
		Edge: func(from, to *ssa.BasicBlock, bits uint32) (uint32, string) {
			inFrom := from == header || inLoopWith(from, header)
			switch {
			case to == header && !inFrom: // a new path: the loop is entered from outside
				return 0, ""
			case to == header && inFrom: // back edge
				msg := ""
				if bits&(c30Checked|c30Revoked) == 0 {
					msg = "an iteration over the path's interfaces reaches the next one without looking " +
						"the current interface up in the revocation cache (" + wantKey + ")"
				}
				return bits &^ c30Checked, msg
			case from == header && to == header.Succs[0]:
				return (bits | c30InLoop) &^ c30Checked, ""
			case from == header && to == header.Succs[1]:
				return (bits | c30Complete) &^ c30InLoop, ""
			case inFrom && !(to == header || inLoopWith(to, header)): // break
				return bits &^ c30InLoop, ""
			}
			return bits, ""
		},
		Sink: func(in ssa.Instruction, bits uint32) string {
			call, ok := in.(*ssa.Call)
			if !ok || !retVals[call] || calleeName(call.Common()) != "builtin:append" {
				return ""
			}
			if bits&c30Revoked != 0 {
				return "a path is appended to the result although a revocation lookup for one of its interfaces returned a revocation"
			}
			if bits&c30Complete == 0 {
				return "a path is appended to the result before the loop over its interfaces ran to exhaustion"
			}
			return ""
		},
	}
	for _, ci := range v.Calls("invoke:private/revcache.RevCache.Get") {
		gets++
		if len(ci.Args) == 3 && ci.Args[2] == wantKey {
			keyed++
		}
	}
	c.Check(gets >= 1 && gets == keyed, rule, v.Name()+":lookup-key", fn.Pos(),
		fmt.Sprintf("%d of %d revocation lookups are keyed by the element of %s being iterated", keyed, gets, listSym))
	// the appended element is the path whose interfaces were iterated
	okElem := true
	for x := range retVals {
		call, ok := x.(*ssa.Call)
		if !ok || calleeName(call.Common()) != "builtin:append" {
			continue
		}
		leaves := v.Leaves(call.Common().Args[1], 1)
		found := false
		for l := range leaves {
			if l == pathSym || l == "&("+pathSym+")" {
				found = true
			}
		}
		if !found {
			okElem = false
			c.Fail(rule, v.Name()+":appended-element", call.Pos(), fmt.Sprintf(
				"the appended element is not %s, the path whose interfaces were checked (leaves %v)",
				pathSym, truncList(sortedKeys(leaves), 6)))
		}
	}
	if okElem {
		c.OK(rule, v.Name()+":appended-element", fn.Pos(), "appends "+pathSym)
	}
	viol, states := RunPS(spec)
	if len(viol) == 0 {
		c.OK(rule, v.Name()+":typestate", fn.Pos(), fmt.Sprintf(
			"%d abstract states: append only with loop exhausted, every iteration looked up, no revocation seen", states))
	}
	seenMsg := map[string]bool{}
	for _, w := range viol {
		if seenMsg[w.Msg] {
			continue
		}
		seenMsg[w.Msg] = true
		c.Fail(rule, v.Name()+":typestate", w.Pos, w.Msg+"; path "+traceString(w.Trace))
	}
}

func c30Build(c *Ctx, sp string) {
	v := c.View("(*" + sp + "Pather).buildAllPaths")
	if v == nil {
		return
	}
	rule := "E1-expiry"
	fn := v.Fn
	e := NewE1(c, fn)
	// appends reaching the return value, split in "fresh" (combinator output) and "kept"
	var kept []*ssa.Call
	seen := map[ssa.Value]bool{}
	okShape := true
	var flow func(x ssa.Value, top bool)
	flow = func(x ssa.Value, top bool) {
		if x == nil || seen[x] {
			return
		}
		seen[x] = true
		switch y := x.(type) {
		case *ssa.Phi:
			for _, ed := range y.Edges {
				flow(ed, top)
			}
		case *ssa.Const:
			okShape = okShape && y.IsNil()
		case *ssa.Call:
			if calleeName(y.Common()) == "builtin:append" {
				kept = append(kept, y)
				flow(y.Common().Args[0], top)
			} else {
				okShape = false
			}
		default:
			okShape = false
		}
	}
	for _, b := range fn.Blocks {
		if r, ok := b.Instrs[len(b.Instrs)-1].(*ssa.Return); ok {
			flow(RetVal(r, 0), true)
		}
	}
	c.Check(okShape && len(kept) >= 1, rule, v.Name()+":returns-filtered-slice", fn.Pos(),
		fmt.Sprintf("the result is nil or built by %d append(s) in this function", len(kept)))
	for i, ap := range kept {
		construct := fmt.Sprintf("%s:append-%d", v.Name(), i+1)
		// the appended element and the expiry test concern the same path
		var base ssa.Value
		if els := appendedElems(ap); len(els) == 1 {
			base = rootOf(els[0])
		}
		g := Guard{Name: "Expiry.After(now)", Match: func(l Lit) bool {
			if l.Kind != "true" || !l.Pos {
				return false
			}
			call, ok := l.X.(*ssa.Call)
			if !ok {
				return false
			}
			// expiry.After(now), or the mirror image now.Before(expiry)
			var expV, nowV ssa.Value
			switch calleeName(call.Common()) {
			case "(time.Time).After":
				expV, nowV = call.Common().Args[0], call.Common().Args[1]
			case "(time.Time).Before":
				expV, nowV = call.Common().Args[1], call.Common().Args[0]
			default:
				return false
			}
			exp := strings.HasSuffix(v.S.Sym(expV), ".Metadata.Expiry") ||
				strings.HasSuffix(accessPath(expV), ".Metadata.Expiry")
			same := base != nil && sameElem(rootOf(expV), base)
			now, isCall := nowV.(*ssa.Call)
			return exp && same && isCall && calleeName(now.Common()) == "time.Now"
		}}
		ws := e.Unguarded(nil, []ssa.Instruction{ap}, []Guard{g})
		if len(ws) == 0 {
			c.OK(rule, construct, ap.Pos(), "behind +true(<appended path>.Metadata.Expiry.After(time.Now()))")
		} else {
			c.Fail(rule, construct, ap.Pos(), "a path is appended to the result without passing "+
				"<that path>.Metadata.Expiry.After(time.Now()); path "+e.pathString(ws[0]))
		}
	}
	// Combine is asked for paths from the local IA to each destination
	calls := v.RequireCallArgs("E1-combine", 1, "private/path/combinator.Combine", "arg0")
	for _, ci := range calls {
		c.Check(len(ci.Args) > 1 && strings.HasPrefix(ci.Args[1], "next(range((*"+sp+"Pather).findDestinations(recv, arg1, "),
			"E1-combine", v.Name()+":combine-dst", ci.In.Pos(), "destination argument iterates findDestinations(dst, …): "+short(ci.Args[1]))
	}
	// findDestinations
	d := c.View("(*" + sp + "Pather).findDestinations")
	if d == nil {
		return
	}
	de := NewE1(c, d.Fn)
	var selfUpd, listUpd, upsAppend []ssa.Instruction
	for _, b := range d.Fn.Blocks {
		for _, in := range b.Instrs {
			switch x := in.(type) {
			case *ssa.MapUpdate:
				if d.S.Sym(x.Key) == "arg0" {
					selfUpd = append(selfUpd, in)
				} else {
					listUpd = append(listUpd, in)
				}
			case *ssa.Call:
				if calleeName(x.Common()) == "(pkg/segment.Segments).FirstIAs" && d.S.Sym(x.Common().Args[0]) == "arg1" {
					upsAppend = append(upsAppend, in)
				}
			}
		}
	}
	wc := "(pkg/addr.IA).IsWildcard(arg0)"
	sameISD := de.AtomGuard("dst.ISD()==local.ISD()", "+eq((pkg/addr.IA).ISD(arg0), (pkg/addr.IA).ISD(recv.IA))",
		"+eq((pkg/addr.IA).ISD(recv.IA), (pkg/addr.IA).ISD(arg0))")
	c.Check(len(selfUpd) == 1 && len(listUpd) >= 1 && len(upsAppend) >= 1, "D1-destinations", d.Name()+":shape", d.Fn.Pos(),
		fmt.Sprintf("%d self entr(y/ies), %d list entr(y/ies), %d use(s) of the up segments", len(selfUpd), len(listUpd), len(upsAppend)))
	if len(selfUpd) > 0 {
		de.Require("D1-destinations", "non-wildcard-is-itself", nil, selfUpd, de.AtomGuard("!wildcard", "-true("+wc+")"))
	}
	if len(listUpd) > 0 {
		de.Require("D1-destinations", "list-only-for-wildcard", nil, listUpd, de.AtomGuard("wildcard", "+true("+wc+")"))
	}
	if len(upsAppend) > 0 {
		de.Require("D1-destinations", "up-cores-only-local-isd", nil, upsAppend, sameISD)
	}
	// the non-wildcard return holds only the self entry: the returned map of that
	// branch receives no other update
	for _, in := range selfUpd {
		mu := in.(*ssa.MapUpdate)
		n := 0
		if refs := mu.Map.Referrers(); refs != nil {
			for _, r := range *refs {
				if _, ok := r.(*ssa.MapUpdate); ok {
					n++
				}
			}
		}
		c.Check(n == 1, "D1-destinations", d.Name()+":single-entry", mu.Pos(), fmt.Sprintf("%d update(s) of the non-wildcard map", n))
	}
	// the wildcard list starts from the core segments' first ASes
	okList := false
	for _, in := range listUpd {
		if strings.Contains(d.S.Sym(in.(*ssa.MapUpdate).Key), "(pkg/segment.Segments).FirstIAs(arg2)") {
			okList = true
		}
	}
	c.Check(okList, "D1-destinations", d.Name()+":core-first-ias", d.Fn.Pos(), "wildcard destinations are taken from cores.FirstIAs()")
}

func c30GetPaths(c *Ctx, sp string) {
	v := c.View("(*" + sp + "Pather).GetPaths")
	if v == nil {
		return
	}
	fn := v.Fn
	e := NewE1(c, fn)
	rule := "G1-pipeline"
	pn := "(*" + sp + "Pather)."
	// translatePaths(filterRevoked(buildAllPaths(recv.IA, dst, fetched)))
	tps := v.Calls(pn + "translatePaths")
	okPipe := len(tps) >= 1
	detail := fmt.Sprintf("%d translatePaths call(s)", len(tps))
	for _, tp := range tps {
		fr, _ := callOf(tp.In.Common().Args[1])
		if fr == nil || calleeName(fr.Common()) != pn+"filterRevoked" {
			okPipe, detail = false, "translatePaths is not given the result of filterRevoked: "+short(tp.Args[1])
			break
		}
		ba, _ := callOf(fr.Common().Args[2])
		if ba == nil || calleeName(ba.Common()) != pn+"buildAllPaths" {
			okPipe, detail = false, "filterRevoked is not given the result of buildAllPaths"
			break
		}
		a := ba.Common().Args
		fetched, _ := callOf(a[3])
		if v.S.Sym(a[1]) != "recv.IA" || v.S.Sym(a[2]) != "arg1" || fetched == nil ||
			calleeName(fetched.Common()) != "(*"+sp+"Fetcher).Fetch" {
			okPipe, detail = false, fmt.Sprintf("buildAllPaths(%s, %s, %s): required (recv.IA, arg1, Fetch(...)#0)",
				v.S.Sym(a[1]), v.S.Sym(a[2]), short(v.S.Sym(a[3])))
			break
		}
		req, _ := callOf(fetched.Common().Args[2])
		if req == nil || !wild("invoke:"+sp+"Splitter.Split", calleeName(req.Common())) ||
			v.S.Sym(req.Common().Args[1]) != "arg1" {
			okPipe, detail = false, "Fetch is not given Split(ctx, dst)"
			break
		}
	}
	c.Check(okPipe, rule, v.Name()+":translate(filterRevoked(buildAllPaths(local, dst, Fetch(Split(dst)))))", fn.Pos(), detail)
	// returned values
	var shapes []string
	okRet := true
	var localRet *ssa.Return
	for _, b := range fn.Blocks {
		r, ok := b.Instrs[len(b.Instrs)-1].(*ssa.Return)
		if !ok {
			continue
		}
		rv := RetVal(r, 0)
		s := v.S.Sym(rv)
		switch {
		case s == "nil":
			shapes = append(shapes, "nil")
		case wild(pn+"translatePaths(*)#0", s):
			shapes = append(shapes, "translatePaths")
		default:
			if _, ok := decodeSliceLit(v.S, rv); ok && localRet == nil {
				localRet = r
				shapes = append(shapes, "literal")
			} else {
				okRet = false
				shapes = append(shapes, "?"+short(s))
			}
		}
	}
	sort.Strings(shapes)
	c.Check(okRet && localRet != nil, rule, v.Name()+":returned-values", fn.Pos(), "returns "+strings.Join(shapes, ", "))
	// local destination
	isLocal := []string{"(pkg/addr.IA).Equal(arg1, recv.IA)", "(pkg/addr.IA).Equal(recv.IA, arg1)"}
	if localRet != nil {
		els, _ := decodeSliceLit(v.S, RetVal(localRet, 0))
		ok := len(els) == 1 && els[0]["Src"] == "recv.IA" && (els[0]["Dst"] == "arg1" || els[0]["Dst"] == "recv.IA")
		_, hasDP := map[string]string{}[""]
		if len(els) == 1 {
			_, hasDP = els[0]["DataplanePath"]
		}
		c.Check(ok && !hasDP, "G1-local", v.Name()+":local-literal", localRet.Pos(),
			fmt.Sprintf("local lookup returns %d path(s) %v; required one path {Src: local, Dst: dst} without a dataplane path", len(els), els))
		e.Require("G1-local", "literal-only-for-local-dst", nil, []ssa.Instruction{localRet},
			e.AtomGuard("dst==local", "+true("+isLocal[0]+")", "+true("+isLocal[1]+")"))
	}
	sinks := e.CallSites("invoke:"+sp+"Splitter.Split", "(*"+sp+"Fetcher).Fetch", pn+"translatePaths")
	e.Require("G1-local", "local-dst-never-fetches", nil, sinks,
		e.AtomGuard("dst!=local", "-true("+isLocal[0]+")", "-true("+isLocal[1]+")"))
	// translatePath
	if t := c.View(pn + "translatePath"); t != nil {
		t.RequireStore("G1-translate", 1, "local:complit.Src", "arg0.Metadata.Interfaces[0].IA")
		t.RequireStore("G1-translate", 1, "local:complit.Dst", "arg0.Metadata.Interfaces[(builtin:len(arg0.Metadata.Interfaces) - 1)].IA")
		t.RequireStore("G1-translate", 1, "local:complit.DataplanePath", "arg0.SCIONPath")
		t.RequireStore("G1-translate", 1, "local:complit.Meta", "arg0.Metadata")
	}
	// translatePaths returns only translated elements of its argument
	if t := c.View(pn + "translatePaths"); t != nil {
		t.RequireCallArgs("G1-translate", 1, pn+"translatePath", "recv", "arg0[*]")
	}
}
