package main

import (
	"fmt"
	"go/constant"
	"strings"

	"golang.org/x/tools/go/ssa"
)

func init() {
	register(&PropRule{
		ID:    "C46",
		Roots: []string{"./pkg/addr"},
		Explain: "Decides the structural clauses of the ISD-AS text formats. (P1) Field invariant: every value ever stored " +
			"into formatOptions.separator is provably non-empty - a non-empty constant, or a value behind a " +
			"test against \"\" on that edge (the empty separator falls back to ':'; WithSeparator stored the " +
			"empty string verbatim before 227f4ae). (P2) Formatting and parsing agree on the options: " +
			"FormatIA/FormatAS hand fmtAS the separator of applyFormatOptions(opts) and ParseFormattedAS hands " +
			"parseAS the separator of applyFormatOptions(opts); the 'ISD'/'AS' prefixes are written exactly " +
			"when defaultPrefix is set and required (and stripped) exactly then; fmtAS writes the separator " +
			"between parts only (i > 0) and parseAS splits on it. (R1) Range: ParseISD parses base 10 into " +
			"ISDBits bits, the BGP form base 10 into BGPASBits bits, every hex part base 16 into asPartBits " +
			"bits, exactly asParts parts; a successful parseAS is behind every part parsing without error " +
			"and inRange(); ParseIA/ParseFormattedIA require exactly two '-' separated parts and both " +
			"component parsers to succeed. NOT decided: the numeric round trip itself (strconv), host and " +
			"service address formats.",
		Run: runC46,
	})
	setClaim("C46", claim{
		Text: "Non-empty separator invariant, format/parse option agreement, prefix symmetry, parser range " +
			"arguments and success guards.",
		Note: claimNote, Technique: "static analysis: field-store invariant with edge guards, call-argument pairing, guard " +
			"dominance",
		Ref: "DESIGN.md §4 C46"})
	ff := "pkg/addr/fmt.go"
	addMutants(
		Mutant{Prop: "C46", Name: "empty-separator-stored", File: ff,
			Old: `		if separator == "" {
			separator = ":"
		}
		o.separator = separator`, New: `		o.separator = separator`, Expect: "P1-separator-nonempty"},
		Mutant{Prop: "C46", Name: "default-separator-empty", File: ff,
			Old: `		separator:     ":",`, New: `		separator:     "",`, Expect: "P1-separator-nonempty"},
		Mutant{Prop: "C46", Name: "parse-ignores-separator-option", File: ff,
			Old: `	return parseAS(as, o.separator)`, New: `	return parseAS(as, ":")`, Expect: "P2-options-agree"},
		Mutant{Prop: "C46", Name: "prefix-optional-on-parse", File: ff,
			Old: `		trimmed := strings.TrimPrefix(as, "AS")
		if trimmed == as {
			return 0, serrors.New("prefix is missing", "prefix", "AS", "value", as)
		}
		as = trimmed`, New: `		as = strings.TrimPrefix(as, "AS")`, Expect: "P2-options-agree"},
		Mutant{Prop: "C46", Name: "hex-part-too-wide", File: "pkg/addr/isdas.go",
			Old: `		v, err := strconv.ParseUint(parts[i], asPartBase, asPartBits)`,
			New: `		v, err := strconv.ParseUint(parts[i], asPartBase, 32)`, Expect: "R1-range"},
		Mutant{Prop: "C46", Name: "range-check-removed", File: "pkg/addr/isdas.go",
			Old: `	if !parsed.inRange() {
		return 0, serrors.New("AS out of range", "max", MaxAS, "value", as)
	}
	return parsed, nil`, New: `	return parsed, nil`, Expect: "R1-range"},
		Mutant{Prop: "C46", Name: "ia-extra-parts-ignored", File: "pkg/addr/isdas.go",
			Old: `	parts := strings.Split(ia, "-")
	if len(parts) != 2 {
		return 0, serrors.New("invalid ISD-AS", "value", ia)
	}
	isd, err := ParseISD(parts[0])`, New: `	parts := strings.Split(ia, "-")
	if len(parts) < 2 {
		return 0, serrors.New("invalid ISD-AS", "value", ia)
	}
	isd, err := ParseISD(parts[0])`, Expect: "R1-range"},
	)
}

func nonEmptyConst(v ssa.Value) bool {
	k, ok := v.(*ssa.Const)
	return ok && k.Value != nil && k.Value.Kind() == constant.String && constant.StringVal(k.Value) != ""
}

func emptyConst(v ssa.Value) bool {
	k, ok := v.(*ssa.Const)
	return ok && k.Value != nil && k.Value.Kind() == constant.String && constant.StringVal(k.Value) == ""
}

// provablyNonEmpty: v is a non-empty constant, or (as seen from block at, coming
// from pred) behind a test v != "", or a phi all of whose edges are so.
func provablyNonEmpty(v ssa.Value, at, pred *ssa.BasicBlock, depth int) bool {
	if nonEmptyConst(v) {
		return true
	}
	if depth > 4 {
		return false
	}
	lits := dominatingLits(at)
	if pred != nil {
		lits = append(append([]Lit{}, dominatingLits(pred)...), litsOnEdge(pred, at)...)
	}
	for _, l := range lits {
		if l.Kind == "eq" && !l.Pos && ((l.X == v && emptyConst(l.Y)) || (l.Y == v && emptyConst(l.X))) {
			return true
		}
	}
	if ld, ok := v.(*ssa.UnOp); ok && ld.Op.String() == "*" {
		return loadNonEmpty(ld, depth)
	}
	if phi, ok := v.(*ssa.Phi); ok {
		for i, ed := range phi.Edges {
			if !provablyNonEmpty(ed, phi.Block(), phi.Block().Preds[i], depth+1) {
				return false
			}
		}
		return true
	}
	return false
}

// loadNonEmpty: a string variable read through its address (a captured variable
// that the closure may reassign): on every way into the load, either the last
// store to that address stores a provably non-empty value, or an earlier read of
// the same address - with no store in between - was tested against "".
func loadNonEmpty(ld *ssa.UnOp, depth int) bool {
	addr := ld.X
	lastStore := func(b *ssa.BasicBlock, before ssa.Instruction) *ssa.Store {
		var last *ssa.Store
		for _, in := range b.Instrs {
			if in == before {
				break
			}
			if st, ok := in.(*ssa.Store); ok && st.Addr == addr {
				last = st
			}
		}
		return last
	}
	if st := lastStore(ld.Block(), ld); st != nil {
		return provablyNonEmpty(st.Val, st.Block(), nil, depth+1)
	}
	if len(ld.Block().Preds) == 0 {
		return false
	}
	for _, p := range ld.Block().Preds {
		if st := lastStore(p, nil); st != nil {
			if !provablyNonEmpty(st.Val, p, nil, depth+1) {
				return false
			}
			continue
		}
		// no store in p: the edge must carry a test of a read of addr made in p or above
		ok := false
		for _, l := range append(append([]Lit{}, dominatingLits(p)...), litsOnEdge(p, ld.Block())...) {
			if l.Kind != "eq" || l.Pos {
				continue
			}
			for _, pair := range [][2]ssa.Value{{l.X, l.Y}, {l.Y, l.X}} {
				r, isLd := pair[0].(*ssa.UnOp)
				if isLd && r.X == addr && emptyConst(pair[1]) && r.Block().Dominates(p) {
					// no store to addr after that read inside its block
					clean := true
					seen := false
					for _, in := range r.Block().Instrs {
						if in == ssa.Instruction(r) {
							seen = true
							continue
						}
						if st, isSt := in.(*ssa.Store); isSt && seen && st.Addr == addr {
							clean = false
						}
					}
					if clean {
						ok = true
					}
				}
			}
		}
		if !ok {
			return false
		}
	}
	return true
}

func runC46(c *Ctx) {
	c46SvcTables(c)
	c46HostVerbatim(c)
	ap := "pkg/addr."
	pkg := c.Prog.SSAPkgs[modPath+"/pkg/addr"]
	// P1
	rule := "P1-separator-nonempty"
	n := 0
	for fn := range c.Prog.AllFuncs() {
		if fn.Pkg != pkg || len(fn.Blocks) == 0 {
			if fn.Parent() == nil || fn.Parent().Pkg != pkg {
				continue
			}
		}
		s := NewSymer()
		for _, b := range fn.Blocks {
			for _, in := range b.Instrs {
				st, ok := in.(*ssa.Store)
				if !ok {
					continue
				}
				fa, ok := st.Addr.(*ssa.FieldAddr)
				if !ok || structFieldName(fa.X, fa.Field) != "pkg/addr.formatOptions.separator" {
					continue
				}
				n++
				c.Check(provablyNonEmpty(st.Val, b, nil, 0), rule, FuncName(fn)+":store:separator", st.Pos(),
					"stores "+s.Sym(st.Val)+" into formatOptions.separator; it must be provably non-empty")
			}
		}
	}
	c.Min("stores-to-formatOptions.separator", n, 2)
	// P2
	rule = "P2-options-agree"
	opts := func(v *FnView, arg string) string {
		return ap + "applyFormatOptions(" + arg + ")"
	}
	if v := c.View(ap + "FormatIA"); v != nil {
		v.RequireCallArgs(rule, 1, ap+"fmtAS", "(pkg/addr.IA).AS(arg0)", opts(v, "arg1")+".separator")
	}
	if v := c.View(ap + "FormatAS"); v != nil {
		v.RequireCallArgs(rule, 1, ap+"fmtAS", "arg0", opts(v, "arg1")+".separator")
		e := NewE1(c, v.Fn)
		// "AS" prefix exactly under defaultPrefix
		okP := true
		for _, r := range e.AllReturns() {
			s := v.S.Sym(r.(*ssa.Return).Results[0])
			withPrefix := strings.Contains(s, `"AS"`)
			g := e.AtomGuard("defaultPrefix", "+true("+opts(v, "arg1")+".defaultPrefix)")
			if !withPrefix {
				g = e.AtomGuard("!defaultPrefix", "-true("+opts(v, "arg1")+".defaultPrefix)")
			}
			if len(e.Unguarded(nil, []ssa.Instruction{r}, []Guard{g})) > 0 {
				okP = false
			}
		}
		c.Check(okP, rule, v.Name()+":prefix", v.Fn.Pos(), "'AS' is prepended exactly when defaultPrefix is set")
	}
	for _, p := range []struct{ fn, prefix, parser string }{{"ParseFormattedAS", "AS", ap + "parseAS"}, {"ParseFormattedISD", "ISD", ap + "ParseISD"}} {
		v := c.View(ap + p.fn)
		if v == nil {
			continue
		}
		e := NewE1(c, v.Fn)
		o := opts(v, "arg1")
		if p.fn == "ParseFormattedAS" {
			v.RequireCallArgs(rule, 1, p.parser, "", o+".separator")
		}
		// the parsed text is the input without the prefix exactly under defaultPrefix, and a
		// missing prefix is an error
		calls := e.CallSites(p.parser)
		c.Min(p.fn+":parser-call", len(calls), 1)
		trim := "strings.TrimPrefix(arg0, \"" + p.prefix + "\")"
		ok := len(calls) == 1
		if ok {
			got := v.S.Sym(calls[0].(ssa.CallInstruction).Common().Args[0])
			ok = got == "phi("+trim+" | arg0)" || got == "phi(arg0 | "+trim+")"
			if !ok {
				c.Fail(rule, v.Name()+":parsed-text", calls[0].Pos(), "parses "+got+"; required the input, with the '"+p.prefix+"' prefix stripped when defaultPrefix is set")
			}
		}
		if ok {
			c.OK(rule, v.Name()+":parsed-text", v.Fn.Pos(), "parses the input, prefix stripped under defaultPrefix")
		}
		var trims []ssa.Instruction
		for _, ci := range v.Calls("strings.TrimPrefix") {
			trims = append(trims, ci.In)
		}
		e.Require(rule, "prefix-only-with-option", nil, trims, e.AtomGuard("defaultPrefix", "+true("+o+".defaultPrefix)"))
		e.Require(rule, "prefix-required-with-option", nil, calls,
			Or("no prefix expected or prefix present", e.AtomGuard("!defaultPrefix", "-true("+o+".defaultPrefix)"),
				e.AtomGuard("prefix-was-there", "-eq("+trim+", arg0)", "-eq(arg0, "+trim+")")))
	}
	if v := c.View(ap + "fmtAS"); v != nil {
		e := NewE1(c, v.Fn)
		var seps []ssa.Instruction
		for _, ci := range v.Calls("(*strings.Builder).WriteString") {
			if ci.Args[1] == "arg1" {
				seps = append(seps, ci.In)
			}
		}
		c.Min("fmtAS:separator-writes", len(seps), 1)
		e.Require(rule, "separator-between-parts", nil, seps, e.AtomGuard("i>0", "+lt(0, *)"))
	}
	if v := c.View(ap + "parseAS"); v != nil {
		v.RequireCallArgs(rule, 1, "strings.Split", "arg0", "arg1")
	}
	// R1
	rule = "R1-range"
	bits := func(q string) string { return strings.SplitN(c.Const(q), ":", 2)[0] }
	if v := c.View(ap + "ParseISD"); v != nil {
		v.RequireCallArgs(rule, 1, "strconv.ParseUint", "arg0", "10", bits(ap+"ISDBits"))
		e := NewE1(c, v.Fn)
		e.Require(rule, "success", nil, e.SuccessReturns(), e.CallGuard(PassErrNil, "strconv.ParseUint"))
	}
	if v := c.View(ap + "asParseBGP"); v != nil {
		v.RequireCallArgs(rule, 1, "strconv.ParseUint", "arg0", "10", bits(ap+"BGPASBits"))
		e := NewE1(c, v.Fn)
		e.Require(rule, "success", nil, e.SuccessReturns(), e.CallGuard(PassErrNil, "strconv.ParseUint"))
	}
	if v := c.View(ap + "parseAS"); v != nil {
		e := NewE1(c, v.Fn)
		v.RequireCallArgs(rule, 1, "strconv.ParseUint", "", bits(ap+"asPartBase"), bits(ap+"asPartBits"))
		parts := bits(ap + "asParts")
		succ := e.SuccessReturns()
		var direct, delegated []ssa.Instruction
		for _, r := range succ {
			if strings.HasPrefix(v.S.Sym(RetVal(r.(*ssa.Return), 0)), ap+"asParseBGP(") {
				delegated = append(delegated, r)
			} else {
				direct = append(direct, r)
			}
		}
		c.Min("parseAS:hex-success-returns", len(direct), 1)
		e.Require(rule, "hex-form", nil, direct,
			e.AtomGuard("exactly-asParts-parts", "+eq(builtin:len(strings.Split(arg0, arg1)), "+parts+")"),
			e.AtomGuard("inRange", "+true((pkg/addr.AS).inRange(*))"))
		e.FailStop(rule, "hex-part-parses", 1, e.CallGuard(PassErrNil, "strconv.ParseUint"))
		e.Require(rule, "decimal-form", nil, delegated, e.AtomGuard("single-part", "+eq(builtin:len(strings.Split(arg0, arg1)), 1)"))
		// all parts are consumed
		e.Require(rule, "all-parts-consumed", nil, direct, e.AtomGuard("loop-exhausted", "-lt(*, "+parts+")"))
	}
	for _, q := range []struct{ fn, isd, as string }{{"ParseIA", ap + "ParseISD", ap + "ParseAS"}, {"ParseFormattedIA", ap + "ParseFormattedISD", ap + "ParseFormattedAS"}} {
		if v := c.View(ap + q.fn); v != nil {
			e := NewE1(c, v.Fn)
			e.Require(rule, "success", nil, e.SuccessReturns(),
				e.AtomGuard("two-parts", "+eq(builtin:len(strings.Split(arg0, \"-\")), 2)"),
				e.CallGuard(PassErrNil, q.isd), e.CallGuard(PassErrNil, q.as))
			v.RequireCallArgs(rule, 1, q.isd, "strings.Split(arg0, \"-\")[0]")
			v.RequireCallArgs(rule, 1, q.as, "strings.Split(arg0, \"-\")[1]")
		}
	}
	_ = fmt.Sprint
}
