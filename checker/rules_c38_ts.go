package main

import (
	"fmt"

	"golang.org/x/tools/go/ssa"
)

// C38, "a successful verification returns exactly the signed header": the
// optional timestamp is encoded by Sign as "absent iff the Go time is zero" and
// decoded by extractHeaderAndBody (shared by Verify and ExtractUnverifiedHeader)
// as "zero time iff absent". Presence is a property of the sub-message, not of
// its value: a decoder that tests the seconds for 0 drops every timestamp in the
// first second of the epoch that Sign encoded as present.
//
// Rule H2: Sign stores timestamppb.New(hdr.Timestamp) exactly on the edge where
// hdr.Timestamp.IsZero() is false, nil otherwise; extractHeaderAndBody stores
// hdr.Timestamp.AsTime() exactly on the edge where hdr.Timestamp != nil, the zero
// time otherwise.
func init() {
	addMutants(
		Mutant{Prop: "C38", Name: "timestamp-presence-by-seconds", File: "pkg/scrypto/signed/msg.go",
			Old: `	if hdr.Timestamp != nil {`, New: `	if hdr.Timestamp.GetSeconds() != 0 {`, Expect: "H2-timestamp-presence"},
		Mutant{Prop: "C38", Name: "timestamp-encoded-only-after-epoch", File: "pkg/scrypto/signed/msg.go",
			Old: `	if !hdr.Timestamp.IsZero() {`, New: `	if hdr.Timestamp.Unix() > 0 {`, Expect: "H2-timestamp-presence"},
	)
}

func c38TimestampPresence(c *Ctx) {
	rule := "H2-timestamp-presence"
	pb := "google.golang.org/protobuf/types/known/timestamppb."
	for _, s := range []struct{ fn, val, lit, other string }{
		{"pkg/scrypto/signed.Sign", pb + "New(arg0.Timestamp)", "-true((time.Time).IsZero(arg0.Timestamp))", "nil"},
		{"pkg/scrypto/signed.extractHeaderAndBody", "(*" + pb + "Timestamp).AsTime(local:hdr.Timestamp)", "-eq(local:hdr.Timestamp, nil)", "zero:time.Time"},
	} {
		v := c.View(s.fn)
		if v == nil {
			continue
		}
		ok, detail := false, "no store of the timestamp member found"
		for _, st := range v.Stores("local:complit.Timestamp") {
			phi, isPhi := st.In.Val.(*ssa.Phi)
			if !isPhi || len(phi.Edges) != 2 {
				detail = "stores " + st.Val + " (not a choice between present and absent)"
				continue
			}
			okVal, okOther := false, false
			for k, e := range phi.Edges {
				pred := phi.Block().Preds[k]
				var lits []string
				for _, l := range append(append(dominatingLits(pred), blockLits(pred)...), litsOnEdge(pred, phi.Block())...) {
					lits = append(lits, l.String(v.S))
				}
				has := func(want string) bool {
					for _, l := range lits {
						if l == want {
							return true
						}
					}
					return false
				}
				neg := "+" + s.lit[1:]
				switch sym := v.S.Sym(e); {
				case sym == s.val:
					okVal = has(s.lit)
				case sym == s.other || sym == "nil:*"+pb+"Timestamp" || wild("nil*", sym) || wild("zero:*", sym):
					okOther = has(neg)
				}
			}
			ok = okVal && okOther
			detail = fmt.Sprintf("stores %s; the value on the edge %s: %v, absent on the opposite edge: %v", st.Val, s.lit, okVal, okOther)
		}
		c.Check(ok, rule, v.Name()+":timestamp", v.Fn.Pos(), detail)
	}
}
