package main

import (
	"fmt"
	"sort"
	"strings"

	"golang.org/x/tools/go/ssa"
)

// C40, what the validators trust: every DRKey validator compares the requested
// host with the address in the gRPC peer of the context (hostAddrFromPeer). For
// requests over the intra-AS connect-rpc server that peer is built by the
// middleware pkg/connect.AttachPeer. The property "a host gets only keys bound to
// ITS address" holds only if that address is the transport's: the QUIC remote
// address of the HTTP/3 connection or the TCP remote address of the request -
// never something the requester writes into the request (a header, a URL, a
// body).
//
// Rule P1: in AttachPeer and its closures, the Addr member of every peer.Peer is
// the http3 remote-address context value or net.TCPAddrFromAddrPort of
// netip.ParseAddrPort(r.RemoteAddr); none of these functions (nor module
// functions they call) reads the request's Header, URL, Form or Body.
func init() {
	addMutants(
		Mutant{Prop: "C40", Name: "peer-from-forwarded-header", File: "pkg/connect/server.go",
			Old: `		} else if addrPort, err := netip.ParseAddrPort(r.RemoteAddr); err == nil {`,
			New: `		} else if addrPort, err := netip.ParseAddrPort(firstNonEmpty(r.Header.Get("X-Forwarded-For"), r.RemoteAddr)); err == nil {`,
			More: []Edit{{File: "pkg/connect/server.go", Old: `func AttachPeer(next http.Handler) http.Handler {`,
				New: `func firstNonEmpty(a, b string) string {
	if a != "" {
		return a
	}
	return b
}

func AttachPeer(next http.Handler) http.Handler {`}}, Expect: "P1-peer-is-the-transport-address"},
	)
}

func c40PeerIsTransport(c *Ctx) {
	rule := "P1-peer-is-the-transport-address"
	root := c.Fn("pkg/connect.AttachPeer")
	if root == nil {
		return
	}
	// AttachPeer, its closures, and module functions they call
	seen := map[*ssa.Function]bool{}
	var work []*ssa.Function
	add := func(f *ssa.Function) {
		if f != nil && !seen[f] && f.Blocks != nil {
			seen[f] = true
			work = append(work, f)
		}
	}
	add(root)
	var fns []*ssa.Function
	for len(work) > 0 {
		f := work[0]
		work = work[1:]
		fns = append(fns, f)
		for _, an := range f.AnonFuncs {
			add(an)
		}
		for _, b := range f.Blocks {
			for _, in := range b.Instrs {
				if call, ok := in.(ssa.CallInstruction); ok {
					if cal := call.Common().StaticCallee(); cal != nil && cal.Pkg != nil && strings.HasPrefix(cal.Pkg.Pkg.Path(), modPath) {
						p := cal.Pkg.Pkg.Path()
						if !strings.HasSuffix(p, "/pkg/log") && !strings.HasSuffix(p, "/serrors") {
							add(cal)
						}
					}
				}
			}
		}
	}
	nPeers := 0
	var bad, reads []string
	for _, f := range fns {
		s := NewSymer()
		for _, b := range f.Blocks {
			for _, in := range b.Instrs {
				switch x := in.(type) {
				case *ssa.Store:
					fa, ok := x.Addr.(*ssa.FieldAddr)
					if !ok || typeShort(fa.X.Type()) != "*google.golang.org/grpc/peer.Peer" || fieldName(fa.X.Type(), fa.Field) != "Addr" {
						continue
					}
					nPeers++
					val := s.Sym(x.Val)
					switch {
					case wild("*typeassert*RemoteAddrContextKey*", val), wild("*.Value(*RemoteAddrContextKey*", val):
					case wild("net.TCPAddrFromAddrPort(net/netip.ParseAddrPort(*.RemoteAddr)#0)", val):
					default:
						bad = append(bad, FuncName(f)+": Addr <- "+val)
					}
				case *ssa.FieldAddr:
					if typeShort(x.X.Type()) == "*net/http.Request" {
						switch fld := fieldName(x.X.Type(), x.Field); fld {
						case "Header", "URL", "Form", "PostForm", "Body", "Trailer", "Host", "RequestURI", "MultipartForm":
							reads = append(reads, FuncName(f)+" reads Request."+fld)
						}
					}
				}
			}
		}
	}
	sort.Strings(bad)
	sort.Strings(reads)
	c.Min("AttachPeer:peers-built", nPeers, 2)
	c.Check(len(bad) == 0, rule, "pkg/connect.AttachPeer:peer-address-source", root.Pos(), fmt.Sprintf(
		"%d peer(s) built in %d function(s); the address is the http3 remote address or the request's TCP remote address: %s", nPeers, len(fns), strings.Join(bad, "; ")))
	c.Check(len(reads) == 0, rule, "pkg/connect.AttachPeer:nothing-requester-controlled", root.Pos(), fmt.Sprintf(
		"no member of the request that the requester writes is consulted: %s", strings.Join(reads, "; ")))
}
