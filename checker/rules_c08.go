package main

import (
	"fmt"
	"os"
	"sort"
	"strings"

	"golang.org/x/tools/go/ssa"
)

func init() {
	register(&PropRule{
		ID:    "C08",
		Roots: []string{"./router/...", "./pkg/slayers", "./pkg/slayers/path/...", "./pkg/stun"},
		Explain: "Decides the panic-freedom clause structurally. (B1) Every instruction in the call-graph closure of " +
			"the fast path (processPkt), the slow path (slowPathPacketProcessor.processPacket), the internal " +
			"link's STUN handling and computeProcID that can panic on data - index, slice, type assertion " +
			"without comma-ok, integer division, explicit panic - is an obligation; it is discharged by the Go " +
			"compiler's prove pass (unproven-bounds-check report of the current tree), by a dominating length " +
			"test on the same value (constant or the very bound used, also through constant re-slicing, phi " +
			"edges and PrependBytes(k)), by a caller contract (every call site in the closure passes a slice " +
			"whose length is established), or by the audited per-function table, which fixes how many " +
			"undischarged sites each listed function may contain and why they are safe; one more open site " +
			"anywhere is a violation. (P1) process() calls nothing before parsePath succeeded, and every " +
			"function that raises a slow-path request is reachable only through process(): the slow path " +
			"indexes the path by CurrINF/CurrHF without re-checking. (S1) every constant ever stored into " +
			"slowPathRequest.spType is one of the values the slow-path switch handles (its default branch " +
			"panics). (H1) prepareSCMP: the header length compared with the available head-room contains " +
			"every header that is prepended afterwards - SCMP header, SCION common+address header, path, and " +
			"the authenticator extension exactly when it will be written; serializeProxy.PrependBytes is " +
			"unchecked, so this comparison is what keeps it in range. (V1) validatePktLen precedes every " +
			"forwarding return. NOT decided: well-formedness of every emitted packet, panics inside gopacket " +
			"and the standard library.",
		Run: runC08,
	})
	setClaim("C08", claim{
		Text: "Panic obligations of the packet-processing closure discharged by compiler proof, dominating length " +
			"facts, caller contracts or a per-function audit; parse-before-slow-path ordering; slow-path type " +
			"producers vs. handled cases; head-room accounting in prepareSCMP.",
		Note: claimNote, Technique: "static analysis: bounds obligations over the VTA call-graph closure (guard dominance + " +
			"compiler prove-pass report + interprocedural length contracts), who-may-call, constant-producer set",
		Ref: "DESIGN.md §4 C08"})
	dp := "router/dataplane.go"
	addMutants(
		// every caller in the router's closure hands HopField.DecodeFromBytes a slice
		// x[a:a+HopLen]; since the caller-contract route of E8 exists, removing the
		// callee's own test is crash-equivalent for the router and must not be reported
		Mutant{Prop: "C08", Name: "benign-hopfield-length-check-removed", File: "pkg/slayers/path/hopfield.go", Benign: true,
			Old: `	if len(raw) < HopLen {
		return serrors.New("HopField raw too short", "expected", HopLen, "actual", len(raw))
	}`, New: ``},
		// ... but the caller's test, which that contract rests on, is needed
		Mutant{Prop: "C08", Name: "onehop-length-check-removed", File: "pkg/slayers/path/onehop/onehop.go",
			Old: `	if len(data) < PathLen {
		return serrors.New("buffer too short for OneHop path", "expected", PathLen, "actual",
			len(data))
	}`, New: ``, Expect: "B1-bounds"},
		Mutant{Prop: "C08", Name: "scmp-echo-short-check", File: "pkg/slayers/scmp_msg.go",
			Old: `	minLength := 4
	if size := len(data); size < minLength {
		df.SetTruncated()
		return serrors.New("buffer too short", "min", minLength, "actual", size)
	}
	offset := 0
	i.Identifier = binary.BigEndian.Uint16(data[:2])`, New: `	minLength := 2
	if size := len(data); size < minLength {
		df.SetTruncated()
		return serrors.New("buffer too short", "min", minLength, "actual", size)
	}
	offset := 0
	i.Identifier = binary.BigEndian.Uint16(data[:2])`, Expect: "B1-bounds"},
		Mutant{Prop: "C08", Name: "addr-header-length-undercounted", File: "pkg/slayers/scion.go",
			Old: `	return 2*addr.IABytes + s.DstAddrType.Length() + s.SrcAddrType.Length()`,
			New: `	return 2*addr.IABytes + s.DstAddrType.Length()`, Expect: "B1-bounds"},
		Mutant{Prop: "C08", Name: "negative-path-length-accepted", File: "pkg/slayers/scion.go",
			Old: `	if pathLen < 0 {`, New: `	if pathLen < -4 {`, Expect: "B1-bounds"},
		Mutant{Prop: "C08", Name: "stun-padding-in-uint16", File: "pkg/stun/stun.go",
			Old: `		attrLen := int(binary.BigEndian.Uint16(b[2:4]))
		attrLenWithPad := (attrLen + 3) &^ 3`, New: `		attrLen := binary.BigEndian.Uint16(b[2:4])
		attrLenWithPad := int((attrLen + 3) &^ 3)`, Expect: "B1-bounds"},
		Mutant{Prop: "C08", Name: "procid-length-check-weakened", File: "router/underlayproviders/udpip/udpip.go",
			Old: `	if len(data) < slayers.CmnHdrLen+addrHdrLen {`, New: `	if len(data) < addrHdrLen {`, Expect: "B1-bounds"},
		Mutant{Prop: "C08", Name: "auth-header-not-in-headroom-check", File: dp,
			Old: `		if needsAuth {
			hdrLen += e2eAuthHdrLen
		}
		maxQuoteLen := slayers.MaxSCMPPacketLen - hdrLen`, New: `		maxQuoteLen := slayers.MaxSCMPPacketLen - hdrLen
		if needsAuth {
			maxQuoteLen -= e2eAuthHdrLen
		}`, Expect: "H1-headroom"},
		Mutant{Prop: "C08", Name: "slowpath-before-parse", File: dp,
			Old: `func (p *scionPacketProcessor) process() disposition {
	if disp := p.parsePath(); disp != pForward {
		return disp
	}
	if disp := p.determinePeer(); disp != pForward {
		return disp
	}`, New: `func (p *scionPacketProcessor) process() disposition {
	if disp := p.validatePktLen(); disp != pForward {
		return disp
	}
	if disp := p.parsePath(); disp != pForward {
		return disp
	}
	if disp := p.determinePeer(); disp != pForward {
		return disp
	}`, Expect: "P1-parse-first"},
		Mutant{Prop: "C08", Name: "new-slowpath-type", File: dp,
			Old: `			spType: slowPathType(slayers.SCMPTypeDestinationUnreachable),
			code:   slayers.SCMPCodeNoRoute,`,
			New: `			spType: slowPathType(slayers.SCMPTypePacketTooBig),
			code:   slayers.SCMPCodeNoRoute,`, Expect: "S1-slowpath-types"},
	)
}

type c08Audit struct {
	Max    int
	Reason string
}

// Undischarged sites per function that were read and found safe, with the
// invariant they rest on. A function not listed here may not contain any.
var c08Audited = map[string]c08Audit{
	"(*pkg/slayers.SCION).SerializeTo":        {9, "buf = PrependBytes(CmnHdrLen + AddrHdrLen() + Path.Len()): constant offsets below 12, then buf[12:] and buf[12+AddrHdrLen():] lie inside that length"},
	"(*pkg/slayers.SCION).pseudoHeaderChecksum": {2, "loops i+=2 over RawDstAddr/RawSrcAddr whose length is AddrType.Length() in {4,8,12,16} (even), set by DecodeAddrHdr; SVC/IPv4/IPv6 setters keep it"},
	"(*pkg/slayers.EndToEndExtn).DecodeFromBytes": {1, "decodeExtnBase established len(data) >= ActualLen; offset starts at 2 and the loop runs while offset < ActualLen"},
	"pkg/slayers.serializeTLVOptions":          {3, "buf has length computed by the same length pass (serializeTLVOptions(nil, ...)) over the same options"},
	"pkg/slayers.serializeTLVOptionPadding":    {1, "called with padding >= 1 and a slice of exactly that many bytes"},
	"(*pkg/slayers.tlvOption).serializeTo":     {3, "data is buf[offset:] inside a buffer sized by tlvOption.length() for the same option"},
	"pkg/slayers.ParseAddr":                    {1, "T4Svc case: raw has AddrType.Length() = 4 bytes (checked against the type before the switch)"},
	"(pkg/slayers.PacketAuthOption).Reset":       {6, "OptData is (re)sliced to 12+len(Auth) after the capacity test at the top of Reset"},
	"(pkg/slayers.PacketAuthOption).SPI":         {1, "a PacketAuthOption only comes from ParsePacketAuthOption / NewPacketAuthOption, which reject len(OptData) < 12"},
	"(pkg/slayers.PacketAuthOption).Algorithm":   {1, "same constructor invariant: len(OptData) >= 12"},
	"(pkg/slayers.PacketAuthOption).TimestampSN": {1, "same constructor invariant: len(OptData) >= 12"},
	"(pkg/slayers.PacketAuthOption).Authenticator": {1, "same constructor invariant: len(OptData) >= 12"},
	"(*pkg/slayers/path/scion.Raw).GetInfoField": {1, "idx < NumINF tested on entry; Raw.DecodeFromBytes keeps len(Raw) = MetaLen + 8*NumINF + 12*NumHops"},
	"(*pkg/slayers/path/scion.Raw).GetHopField":  {1, "idx < NumHops tested on entry; same length invariant of Raw"},
	"(*pkg/slayers/path/scion.Raw).SetInfoField": {1, "idx < NumINF tested on entry; same length invariant of Raw"},
	"(*pkg/slayers/path/scion.Raw).SetHopField":  {1, "idx < NumHops tested on entry; same length invariant of Raw"},
	"(*pkg/slayers/path/scion.Decoded).DecodeFromBytes": {4, "len(data) >= Base.Len() = 4 + 8*NumINF + 12*NumHops tested after Base.DecodeFromBytes; InfoFields/HopFields are made with exactly NumINF/NumHops elements"},
	"(*pkg/slayers/path/scion.Decoded).SerializeTo":     {2, "len(b) >= Len() tested on entry; loops over the element slices"},
	"(*pkg/slayers/path/scion.Decoded).Reverse":         {11, "NumINF == 0 rejected on entry; InfoFields/HopFields have NumINF/NumHops elements (DecodeFromBytes / ToDecoded), SegLen is a [3]uint8 and NumINF <= 3"},
	"(*pkg/slayers/path/epic.Path).SerializeTo":         {4, "len(b) >= Len() = 16 + ScionPath.Len() tested on entry; PHVF/LHVF length 4 tested as well"},
	"pkg/slayers/path.FullMAC":                 {2, "h.Sum(buffer[:0]) of a CMAC/AES hash returns 16 bytes; explicit panic only if hash.Write fails, which the hash.Hash contract forbids"},
	"pkg/slayers/path.MAC":                     {1, "FullMAC returns the 16-byte Sum"},
	"pkg/experimental/epic.prepareMacInput":    {2, "inputBuffer has MACBufferSize = 48 bytes (CalcMac enforces it); 23 + len(RawSrcAddr) <= 39 and inputLength <= 48"},
	"pkg/experimental/epic.CalcMac":            {2, "inputLength is a positive multiple of the 16-byte block size, <= 48 = len(buffer)"},
	"pkg/spao.ComputeAuthCMAC":                 {1, "serializeAuthenticatedData returns the number of bytes it wrote into the same buffer"},
	"pkg/spao.serializeAuthenticatedData":      {5, "buf must be MACBufferSize = 1032 bytes (documented contract; the router allocates exactly that, buf[MACBufferSize-1] is touched first); fixed header 20/36 bytes + addresses <= 32 + path <= 1020 is bounded by the constant"},
	"pkg/spao.zeroOutMutablePath":              {4, "buf is the tail of that buffer into which Path.SerializeTo just wrote Path.Len() bytes; offsets are those of the path type that was serialized"},
	"pkg/spao.zeroOutWithBase":                 {4, "same buffer; offsets follow the meta header of the path that was just serialized (NumINF <= 3 bounds SegLen)"},
	"pkg/spao.bigEndianPutUint48":              {0, ""},
	"router/underlayproviders/udpip.computeProcID": {1, "numProcRoutines is the configured number of processors, validated > 0 at start-up (RunConfig); not attacker controlled"},
	"(*router/underlayproviders/udpip.internalLink).processPacket": {1, "RawPacket is re-sliced to the STUN response that copy() just wrote into it; the response (<= 44 bytes) is shorter than the receive buffer capacity"},
	"(*router/underlayproviders/udpip.internalLink).Resolve":      {1, "explicit panic on an address type other than IP/SVC: addr.Host has only these kinds besides None, which DstAddr never returns without error"},
	"(*router.Services[net/netip.AddrPort]).Any": {1, "rand.IntN(len(addrs)) < len(addrs), len(addrs) > 0 tested above"},
	"(*router.scionPacketProcessor).ingressInterface": {2, "explicit panics after GetInfoField(CurrINF-1)/GetHopField(CurrHF-1): guarded by IsFirstHopAfterXover (CurrINF > 0 and CurrHF > 0) and parsePath's CurrINF < NumINF, CurrHF < NumHops"},
	"(*router.scionPacketProcessor).verifyCurrentMAC": {2, "macInputBuffer has max(path.MACBufferSize, epic.MACBufferSize) bytes (newPacketProcessor); FullMAC returns 16 bytes"},
	"(*router.scionPacketProcessor).processOHP":       {2, "macInputBuffer[:16] of a buffer allocated with >= 48 bytes"},
	"(*router.scionPacketProcessor).processEPIC":      {1, "macInputBuffer[:48] of a buffer allocated with max(16, 48) bytes"},
	"(*router.slowPathPacketProcessor).processPacket": {1, "explicit panic in the default case of the slow-path type switch: discharged by rule S1 (only handled constants are ever stored)"},
	"(*router.slowPathPacketProcessor).prepareSCMP":   {6, "revPath indexes use CurrINF/CurrHF that parsePath validated (rule P1) and Reverse keeps in range; the type assertion follows PathType == scion/epic decoded by the matching decoder; quote and buffer slices are bounded by the head-room arithmetic checked in rule H1 (quoteLen <= len(RawPacket), quoteLen + headroom <= bufSize)"},
	"(*router.serializeProxy).PrependBytes": {1, "deliberately unchecked: start >= num is the callers' obligation (rule H1 for prepareSCMP, equal header size for updateSCIONLayer, end-of-buffer start for newSerializeProxy)"},
	"(*router.serializeProxy).AppendBytes":  {2, "only called with the quote length, which fits by construction of the buffer slice in prepareSCMP"},
	"(*router.serializeProxy).Bytes":        {1, "start <= len(data) is an invariant of the proxy (start only decreases from a valid offset)"},
	"(*router.serializeProxy).clear":        {1, "newSerializeProxyStart passes an offset inside the buffer"},
	"router.getDstPortSCMP":                 {5, "type assertions on layers produced by gopacket decoders registered for exactly these layer types; decodeSCMP returned two serializable layers, the second being the gopacket.Payload"},
	"(*private/drkey/drkeyutil.FakeProvider).GetKeyWithinAcceptanceWindow": {3, "getASHostTriple returns a three-element slice literal or an error that is tested first"},
	"(pkg/addr.Host).IP":                    {1, "explicit panic if the host is not an IP address: callers test Type() first"},
	"(pkg/addr.Host).SVC":                   {1, "explicit panic if the host is not an SVC address: callers test Type() first"},
	"(*private/drkey/drkeyutil.FakeProvider).GetASHostKey":    {1, "EpochDuration is a non-zero configuration value of the fake DRKey provider (experimental SCMP authentication only)"},
	"(*private/drkey/drkeyutil.FakeProvider).getASHostTriple": {1, "same configuration value"},
}

func runC08(c *Ctx) {
	bw := NewByteWriters(c)
	var roots []*ssa.Function
	for _, q := range []string{procT + ".processPkt", spT + ".processPacket",
		"(*router/underlayproviders/udpip.internalLink).processPacket", "router/underlayproviders/udpip.computeProcID"} {
		if fn := c.Fn(q); fn != nil {
			roots = append(roots, fn)
		}
	}
	seen := map[*ssa.Function]bool{}
	var fns []*ssa.Function
	for _, r := range roots {
		// error-context construction and logging helpers do not touch packet data
		infra := func(f *ssa.Function) bool {
			if f.Pkg == nil {
				return false
			}
			p := f.Pkg.Pkg.Path()
			return p == modPath+"/pkg/private/serrors" || p == modPath+"/pkg/log" || p == modPath+"/pkg/private/prom"
		}
		for _, f := range bw.Closure(r, infra) {
			if !seen[f] {
				seen[f] = true
				fns = append(fns, f)
			}
		}
	}
	c.Min("closure-functions", len(fns), 150)
	rule := "B1-bounds"
	// the compiler report must cover every package the closure touches
	pkgSet := map[string]bool{}
	for _, f := range fns {
		if f.Pkg != nil {
			pkgSet["./"+strings.TrimPrefix(f.Pkg.Pkg.Path(), modPath+"/")+"/"] = true
		}
	}
	var pkgs []string
	for p := range pkgSet {
		pkgs = append(pkgs, p)
	}
	sort.Strings(pkgs)
	open, counts, err := BoundsReport(c, bw, fns, pkgs)
	if err != nil {
		c.Fail(rule, "compiler-report", 0, err.Error())
		return
	}
	c.Min("panic-obligations", counts["obligations"], 600)
	c.Min("compiler-unproven-report-lines", counts["compiler-unproven-checks"], 50)
	perFn := map[string][]BoundSite{}
	for _, s := range open {
		perFn[FuncName(s.Fn)] = append(perFn[FuncName(s.Fn)], s)
	}
	var names []string
	for n := range perFn {
		names = append(names, n)
	}
	sort.Strings(names)
	audited := 0
	for _, n := range names {
		sites := perFn[n]
		a, ok := c08Audited[n]
		var exprs []string
		for _, s := range sites {
			exprs = append(exprs, s.Kind+" "+short(s.Expr))
		}
		if !ok || len(sites) > a.Max {
			c.Fail(rule, n+":open-sites", sites[0].In.Pos(), fmt.Sprintf(
				"%d site(s) that can panic are neither proved by the compiler, nor behind a dominating length test, nor covered "+
					"by a caller contract; the audit allows %d: %s", len(sites), a.Max, strings.Join(truncList(exprs, 5), " | ")))
			continue
		}
		audited += len(sites)
		if os.Getenv("SCIONVET_AUDIT") != "" && len(sites) < a.Max {
			fmt.Printf("AUDIT-SLACK %s: %d open, audit allows %d\n", n, len(sites), a.Max)
		}
		c.OK(rule, n+":open-sites", sites[0].In.Pos(), fmt.Sprintf("%d audited site(s): %s", len(sites), a.Reason))
	}
	if os.Getenv("SCIONVET_AUDIT") != "" {
		for n, a := range c08Audited {
			if _, used := perFn[n]; !used && a.Max > 0 {
				fmt.Printf("AUDIT-UNUSED %s (allows %d)\n", n, a.Max)
			}
		}
	}
	var disc []string
	for k, v := range counts {
		if strings.HasPrefix(k, "discharged:") {
			disc = append(disc, fmt.Sprintf("%s=%d", strings.TrimPrefix(k, "discharged:"), v))
		}
	}
	sort.Strings(disc)
	c.OK(rule, "closure:obligations", 0, fmt.Sprintf("%d functions, %d obligations (%d index, %d slice, %d assert, %d div, %d panic); "+
		"discharged automatically: %s; audited: %d in %d functions", len(fns), counts["obligations"], counts["index"], counts["slice"],
		counts["assert"], counts["div"], counts["panic"], strings.Join(disc, ", "), audited, len(names)))

	c08ParseFirst(c)
	c08SlowPathTypes(c)
	c08Headroom(c)
	c08RawInvariant(c)
	c08AuthOptionInvariant(c)
	// V1
	if fn := c.Fn(procT + ".process"); fn != nil {
		e := NewE1(c, fn)
		e.Require("V1-pktlen", "success-returns", nil, e.SuccessReturns(), e.CallGuard(PassFwd, procT+".validatePktLen"))
	}
}

// P1: nothing runs in process() before parsePath passed; slow-path requests are
// raised only below process().
func c08ParseFirst(c *Ctx) {
	rule := "P1-parse-first"
	fn := c.Fn(procT + ".process")
	if fn == nil {
		return
	}
	e := NewE1(c, fn)
	var sinks []ssa.Instruction
	for _, b := range fn.Blocks {
		for _, in := range b.Instrs {
			ci, ok := in.(ssa.CallInstruction)
			if !ok {
				continue
			}
			callee := ci.Common().StaticCallee()
			if callee == nil || !inModule(callee) || FuncName(callee) == procT+".parsePath" {
				continue
			}
			sinks = append(sinks, in)
		}
	}
	c.Min("process:calls-after-parsePath", len(sinks), 10)
	e.Require(rule, "every-other-call", nil, sinks, e.CallGuard(PassFwd, procT+".parsePath"))
	if v := c.View(procT + ".parsePath"); v != nil {
		pe := NewE1(c, v.Fn)
		pe.Require(rule, "success-returns", nil, pe.SuccessReturns(),
			pe.CallGuard(PassErrNil, "(*pkg/slayers/path/scion.Raw).GetCurrentHopField"),
			pe.CallGuard(PassErrNil, "(*pkg/slayers/path/scion.Raw).GetCurrentInfoField"),
			pe.AtomGuard("CurrINFMatchesCurrHF", "+true((*pkg/slayers/path/scion.Base).CurrINFMatchesCurrHF(*))",
				"+true((*pkg/slayers/path/scion.Raw).CurrINFMatchesCurrHF(*))"))
	}
	// who raises slow-path requests
	cg := c.Prog.CallGraph()
	raisers := map[*ssa.Function]bool{}
	for f := range c.Prog.AllFuncs() {
		if f.Pkg == nil || f.Pkg.Pkg.Path() != modPath+"/router" || len(f.Blocks) == 0 {
			continue
		}
		for _, b := range f.Blocks {
			for _, in := range b.Instrs {
				st, ok := in.(*ssa.Store)
				if !ok {
					continue
				}
				if fa, ok := st.Addr.(*ssa.FieldAddr); ok && structFieldName(fa.X, fa.Field) == "router.Packet.slowPathRequest" {
					raisers[f] = true
				}
			}
		}
	}
	c.Min("router:functions-raising-slow-path-requests", len(raisers), 8)
	var bad []string
	memo := map[*ssa.Function]int{} // 1 ok, 2 bad, 3 in progress
	var under func(f *ssa.Function) bool
	under = func(f *ssa.Function) bool {
		if f == fn {
			return true
		}
		switch memo[f] {
		case 1:
			return true
		case 2:
			return false
		case 3:
			return true
		}
		memo[f] = 3
		node := cg.Nodes[f]
		n := 0
		ok := true
		if node != nil {
			for _, in := range node.In {
				if in.Caller.Func == nil || !inModule(in.Caller.Func) {
					continue
				}
				n++
				if !under(in.Caller.Func) {
					ok = false
				}
			}
		}
		if n == 0 {
			ok = false
		}
		if ok {
			memo[f] = 1
		} else {
			memo[f] = 2
		}
		return ok
	}
	var rs []string
	for f := range raisers {
		rs = append(rs, FuncName(f))
		if !under(f) {
			bad = append(bad, FuncName(f))
		}
	}
	sort.Strings(rs)
	sort.Strings(bad)
	c.Check(len(bad) == 0, rule, "router:slow-path-raisers-below-process", fn.Pos(), fmt.Sprintf(
		"%d function(s) store Packet.slowPathRequest, all reachable only through process(): %v; not so: %v", len(rs), truncList(rs, 20), bad))
}

// S1: constants stored into slowPathRequest.spType vs. the handled ones.
func c08SlowPathTypes(c *Ctx) {
	rule := "S1-slowpath-types"
	handled := map[string]bool{}
	for _, q := range []string{"router.slowPathRouterAlertIngress", "router.slowPathRouterAlertEgress"} {
		handled[strings.SplitN(c.Const(q), ":", 2)[0]] = true
	}
	for _, q := range []string{"pkg/slayers.SCMPTypeParameterProblem", "pkg/slayers.SCMPTypeDestinationUnreachable",
		"pkg/slayers.SCMPTypeExternalInterfaceDown", "pkg/slayers.SCMPTypeInternalConnectivityDown"} {
		handled[strings.SplitN(c.Const(q), ":", 2)[0]] = true
	}
	stored := map[string]int{}
	bad := 0
	for f := range c.Prog.AllFuncs() {
		if f.Pkg == nil || f.Pkg.Pkg.Path() != modPath+"/router" || len(f.Blocks) == 0 {
			continue
		}
		s := NewSymer()
		for _, b := range f.Blocks {
			for _, in := range b.Instrs {
				st, ok := in.(*ssa.Store)
				if !ok {
					continue
				}
				fa, ok := st.Addr.(*ssa.FieldAddr)
				if !ok || structFieldName(fa.X, fa.Field) != "router.slowPathRequest.spType" {
					continue
				}
				k, isK := foldInt(st.Val)
				if !isK {
					bad++
					c.Fail(rule, FuncName(f)+":spType", st.Pos(), "a non-constant slow-path type is stored: "+s.Sym(st.Val))
					continue
				}
				ks := fmt.Sprint(k)
				stored[ks]++
				if !handled[ks] {
					bad++
					c.Fail(rule, FuncName(f)+":spType="+ks, st.Pos(), "slow-path type "+ks+
						" is requested but the slow-path switch does not handle it (its default branch panics)")
				}
			}
		}
	}
	n := 0
	for _, v := range stored {
		n += v
	}
	c.Min("router:spType-stores", n, 10)
	if bad == 0 {
		c.OK(rule, "router:spType-producers", 0, fmt.Sprintf("%d store(s) of constants %v, all handled", n, stored))
	}
	slowPathDispatchTable(c, rule)
}

// H1: head-room accounting in prepareSCMP.
func c08Headroom(c *Ctx) {
	rule := "H1-headroom"
	v := c.View(spT + ".prepareSCMP")
	if v == nil {
		return
	}
	fn := v.Fn
	// the comparison hdrLen + underlayHeadroom > headroom
	var cmpX ssa.Value
	var cmpBlock *ssa.BasicBlock
	for _, b := range fn.Blocks {
		iff, ok := b.Instrs[len(b.Instrs)-1].(*ssa.If)
		if !ok {
			continue
		}
		bo, ok := iff.Cond.(*ssa.BinOp)
		if !ok {
			continue
		}
		sx, sy := v.S.Sym(bo.X), v.S.Sym(bo.Y)
		if strings.Contains(sx, "underlayHeadroom") && strings.Contains(sy, "builtin:cap(recv.pkt.RawPacket)") {
			cmpX, cmpBlock = bo.X, b
		} else if strings.Contains(sy, "underlayHeadroom") && strings.Contains(sx, "builtin:cap(recv.pkt.RawPacket)") {
			cmpX, cmpBlock = bo.Y, b
		}
	}
	if cmpX == nil {
		c.Fail(rule, v.Name()+":headroom-test", fn.Pos(), "comparison of the reply header length with the buffer head-room not found (anchor unresolved)")
		return
	}
	leaves := v.Leaves(cmpX, 1)
	want := []string{"call:pkg/slayers.ScmpHeaderSize", "call:(*pkg/slayers.SCION).AddrHdrLen", "call:invoke:pkg/slayers/path.Path.Len",
		"12", "recv.d.underlayHeadroom"}
	miss := leavesContainAll(leaves, want...)
	c.Check(len(miss) == 0, rule, v.Name()+":header-terms", cmpBlock.Instrs[len(cmpBlock.Instrs)-1].Pos(), fmt.Sprintf(
		"the length compared with the head-room contains SCMP header, common header, address header, path and underlay head-room; missing: %v", miss))
	// the authenticator extension: written iff needsAuth; counted iff needsAuth
	auth := c.Const("router.e2eAuthHdrLen")
	var e2eSer []ssa.Instruction
	for _, ci := range v.Calls("(*pkg/slayers.EndToEndExtn).SerializeTo") {
		e2eSer = append(e2eSer, ci.In)
	}
	c.Min("prepareSCMP:e2e-extension-serialized", len(e2eSer), 1)
	// find `x + e2eAuthHdrLen` feeding the compared value through a phi whose other edge is x
	counted := false
	var guardOfAdd string
	var walk func(x ssa.Value, d int)
	walk = func(x ssa.Value, d int) {
		if x == nil || d > 6 || counted {
			return
		}
		switch y := x.(type) {
		case *ssa.BinOp:
			if k, ok := foldInt(y.Y); ok && fmt.Sprint(k) == auth && y.Op.String() == "+" {
				guardOfAdd = controllingMember(y.Block(), v.S)
				counted = true
				return
			}
			walk(y.X, d+1)
			walk(y.Y, d+1)
		case *ssa.Phi:
			for _, e := range y.Edges {
				walk(e, d+1)
			}
		case *ssa.Convert:
			walk(y.X, d+1)
		}
	}
	walk(cmpX, 0)
	guardOfSer := ""
	if len(e2eSer) > 0 {
		// the serialization's controlling condition (walk up single-pred chains)
		b := e2eSer[0].Block()
		for i := 0; i < 12 && b != nil; i++ {
			if g := controllingMember(b, v.S); g != "" && strings.Contains(g, "phi(") {
				guardOfSer = g
				break
			}
			b = b.Idom()
		}
	}
	c.Check(counted && guardOfAdd != "" && guardOfAdd == guardOfSer, rule, v.Name()+":authenticator-extension-counted", fn.Pos(), fmt.Sprintf(
		"e2eAuthHdrLen (%s) is added to the compared length under the condition that also guards EndToEndExtn.SerializeTo "+
			"(add under %q, serialization under %q)", auth, short(guardOfAdd), short(guardOfSer)))
	// the head-room value itself: len(buffer) - cap(RawPacket)
	okHead := false
	for _, b := range fn.Blocks {
		for _, in := range b.Instrs {
			if bo, ok := in.(*ssa.BinOp); ok && bo.Op.String() == "-" {
				if strings.Contains(v.S.Sym(bo.Y), "builtin:cap(recv.pkt.RawPacket)") {
					if k, ok := foldInt(bo.X); ok && k > 0 {
						okHead = true
					} else if strings.Contains(v.S.Sym(bo.X), "builtin:len(recv.pkt.buffer)") {
						okHead = true
					}
				}
			}
		}
	}
	c.Check(okHead, rule, v.Name()+":headroom-value", fn.Pos(), "head-room = len(pkt.buffer) - cap(pkt.RawPacket)")
}
