package main

import (
	"fmt"
	"go/token"
	"strings"

	"golang.org/x/tools/go/ssa"
)

// C41, receiver side of the frame format.
//
// (H1) worker.processFrame reads the frame header at the positions and with the
// widths at which encoder.Read writes it: index = 16 bits at [2:4], stream =
// 32 bits at [4:8] masked with 0xfffff on both sides, sequence number = 64 bits
// at [8:16]; the values land in frameBuf.index / the reassembly list selection /
// frameBuf.seqNr.
//
// (H2) frameBuf.ProcessCompletePkts walks the packets of a frame the way the
// encoder laid them out: it starts at index + header size, takes the packet
// length from the IPv4 total-length field (offset+2..4) or 40 + the IPv6
// payload-length field (offset+4..6) - the same fields the encoder validated -,
// sends exactly frame[offset : offset+length] only if the frame holds that many
// bytes, and advances by that length.
func c41Receiver(c *Ctx) {
	dp := "gateway/dataplane."
	be := "(encoding/binary.bigEndian)."
	if v := c.View("(*" + dp + "worker).processFrame"); v != nil {
		rule := "H1-frame-header-agreement"
		g := "global:encoding/binary.BigEndian"
		idx := "int(" + be + "Uint16(" + g + ", arg1.raw[2:4]))"
		v.RequireStore(rule, 1, "arg1.index", idx)
		v.RequireStore(rule, 1, "arg1.seqNr", be+"Uint64("+g+", arg1.raw[8:16])")
		v.RequireCallArgs(rule, 1, "(*"+dp+"worker).getRlist", "recv", "int(("+be+"Uint32("+g+", arg1.raw[4:8]) & 1048575))")
		v.RequireCallArgs(rule, 1, "(*"+dp+"reassemblyList).Insert", "(*"+dp+"worker).getRlist(*)", "arg0", "arg1")
		v.RequireStore(rule, 1, "arg1.completePktsProcessed", "("+idx+" == 65535)")
		v.RequireStore(rule, 1, "arg1.fragNProcessed", "("+idx+" == 0)")
	}
	if v := c.View("(*" + dp + "encoder).Read"); v != nil {
		rule := "H1-frame-header-agreement"
		g := "global:encoding/binary.BigEndian"
		v.RequireCallArgs(rule, 1, be+"PutUint32", g, "recv.frame[4:8]", "(recv.streamID & 1048575)")
		v.RequireCallArgs(rule, 1, be+"PutUint64", g, "recv.frame[8:16]", "recv.seq")
		n := 0
		for _, ci := range append(v.Calls(be+"PutUint16"), v.callsThroughHelpers(be+"PutUint16")...) {
			if len(ci.Args) == 3 && ci.Args[1] == "recv.frame[2:4]" {
				n++
			}
		}
		c.Check(n == 2, rule, v.Name()+":index-position", v.Fn.Pos(), fmt.Sprintf("%d writes of the 16-bit index at frame[2:4] (no-packet marker and first packet start)", n))
		c.Check(c.Const(dp+"hdrLen") == "16" && c.Const(dp+"sigHdrSize") == "16", rule, "header-size", 0,
			"encoder hdrLen = "+c.Const(dp+"hdrLen")+", receiver sigHdrSize = "+c.Const(dp+"sigHdrSize"))
	}
	// one reassembly list per stream epoch: frames of different epochs are never stitched
	if gv := c.View("(*" + dp + "worker).getRlist"); gv != nil {
		rule := "H3-one-list-per-epoch"
		okLookup, okStore, okRet := false, false, true
		for _, b := range gv.Fn.Blocks {
			for _, in := range b.Instrs {
				switch x := in.(type) {
				case *ssa.Lookup:
					if gv.S.Sym(x.X) == "recv.rlists" && gv.S.Sym(x.Index) == "arg0" {
						okLookup = true
					}
				case *ssa.MapUpdate:
					if gv.S.Sym(x.Map) == "recv.rlists" {
						okStore = gv.S.Sym(x.Key) == "arg0" && strings.HasPrefix(gv.S.Sym(x.Value), dp+"newReassemblyList(arg0, ")
					}
				case *ssa.Return:
					s := gv.S.Sym(x.Results[0])
					okRet = okRet && strings.Contains(s, "recv.rlists[arg0]") && strings.Contains(s, dp+"newReassemblyList(arg0, ")
				}
			}
		}
		c.Check(okLookup && okStore && okRet, rule, gv.Name()+":keyed-by-epoch", gv.Fn.Pos(),
			"returns the list stored under the frame's epoch, creating it for that epoch and under that key if absent")
	}
	v := c.View("(*" + dp + "frameBuf).ProcessCompletePkts")
	if v == nil {
		return
	}
	rule := "H2-packet-walk"
	fn := v.Fn
	// the offset: a loop phi that starts at index + 16
	var off *ssa.Phi
	for _, b := range fn.Blocks {
		for _, in := range b.Instrs {
			phi, ok := in.(*ssa.Phi)
			if !ok {
				continue
			}
			for _, e := range phi.Edges {
				if v.S.Sym(e) == "(recv.index + 16)" {
					off = phi
				}
			}
		}
	}
	if !c.Check(off != nil, rule, v.Name()+":start", fn.Pos(), "the walk starts at index + header size") {
		return
	}
	isOff := func(x ssa.Value) bool {
		if x == ssa.Value(off) {
			return true
		}
		// the same position seen through another phi of the loop
		if p, ok := x.(*ssa.Phi); ok {
			for _, e := range p.Edges {
				if e != ssa.Value(off) && e != ssa.Value(p) {
					if v.S.Sym(e) != "(recv.index + 16)" {
						if bo, isB := e.(*ssa.BinOp); !isB || bo.Op != token.ADD {
							return false
						}
					}
				}
			}
			return true
		}
		return false
	}
	offPlus := func(x ssa.Value, k int64) bool {
		bo, ok := x.(*ssa.BinOp)
		if !ok || bo.Op != token.ADD {
			return false
		}
		kk, isK := foldInt(bo.Y)
		return isK && kk == k && isOff(bo.X)
	}
	// the two length reads
	var len4, len6 ssa.Value
	for _, b := range fn.Blocks {
		for _, in := range b.Instrs {
			call, ok := in.(*ssa.Call)
			if !ok || calleeName(call.Common()) != be+"Uint16" {
				continue
			}
			sl, isSl := call.Common().Args[1].(*ssa.Slice)
			if !isSl || !strings.HasPrefix(v.S.Sym(sl.X), "recv.raw") {
				continue
			}
			switch {
			case offPlus(sl.Low, 2) && offPlus(sl.High, 4):
				len4 = call
			case offPlus(sl.Low, 4) && offPlus(sl.High, 6):
				len6 = call
			}
		}
	}
	c.Check(len4 != nil && len6 != nil, rule, v.Name()+":length-fields", fn.Pos(),
		"IPv4 total length at offset+2..4 and IPv6 payload length at offset+4..6 of the packet at the current offset")
	if len4 == nil || len6 == nil {
		return
	}
	// pktLen: phi(int(len4) | int(len6) + 40) chosen by the version nibble
	var pktLen *ssa.Phi
	for _, b := range fn.Blocks {
		for _, in := range b.Instrs {
			phi, ok := in.(*ssa.Phi)
			if !ok || len(phi.Edges) != 2 {
				continue
			}
			has4, has6 := false, false
			for _, e := range phi.Edges {
				if stripConv(e) == len4 {
					has4 = true
				}
				if bo, isB := e.(*ssa.BinOp); isB && bo.Op == token.ADD && stripConv(bo.X) == len6 {
					if k, isK := foldInt(bo.Y); isK && k == 40 {
						has6 = true
					}
				}
			}
			if has4 && has6 {
				pktLen = phi
			}
		}
	}
	if !c.Check(pktLen != nil, rule, v.Name()+":packet-length", fn.Pos(), "packet length = IPv4 total length, or 40 + IPv6 payload length") {
		return
	}
	// the version decides which field is used
	okVer := true
	for i, e := range pktLen.Edges {
		pred := pktLen.Block().Preds[i]
		want := "4"
		if stripConv(e) != len4 {
			want = "6"
		}
		found := false
		for _, l := range append(dominatingLits(pred), litsOnEdge(pred, pktLen.Block())...) {
			if l.Kind == "eq" && l.Pos {
				if k, isK := foldInt(l.Y); isK && fmt.Sprint(k) == want && strings.HasSuffix(v.S.Sym(l.X), " >> 4)") {
					found = true
				}
			}
		}
		okVer = okVer && found
	}
	c.Check(okVer, rule, v.Name()+":length-by-version", fn.Pos(), "the IPv4 field is used for version 4, the IPv6 field for version 6")
	// send(raw[off:frameLen][:pktLen]) behind "enough bytes", then off += pktLen
	okSend, nSend := false, 0
	for _, b := range fn.Blocks {
		for _, in := range b.Instrs {
			call, ok := in.(ssa.CallInstruction)
			if !ok || !call.Common().IsInvoke() || call.Common().Method.Name() != "send" {
				continue
			}
			nSend++
			outer, isSl := call.Common().Args[0].(*ssa.Slice)
			if !isSl || outer.Low != nil || !isPhiOrSelf(outer.High, pktLen) {
				continue
			}
			inner, isSl2 := outer.X.(*ssa.Slice)
			if !isSl2 || !isOff(inner.Low) || v.S.Sym(inner.High) != "recv.frameLen" || !strings.HasPrefix(v.S.Sym(inner.X), "recv.raw") {
				continue
			}
			enough := false
			for _, l := range dominatingLits(b) {
				if l.Kind == "lt" && !l.Pos && isPhiOrSelf(l.Y, pktLen) && lenArg(l.X) == ssa.Value(inner) {
					enough = true
				}
			}
			okSend = enough
		}
	}
	c.Check(okSend && nSend == 1, rule, v.Name()+":emits-exactly-the-packet", fn.Pos(),
		"sends frame[offset:frameLen][:length] only when the frame holds at least length bytes from offset")
	okAdv := false
	for _, e := range off.Edges {
		if bo, isB := e.(*ssa.BinOp); isB && bo.Op == token.ADD {
			if (isOff(bo.X) && isPhiOrSelf(bo.Y, pktLen)) || (isOff(bo.Y) && isPhiOrSelf(bo.X, pktLen)) {
				okAdv = true
			}
		}
	}
	c.Check(okAdv, rule, v.Name()+":advance", fn.Pos(), "the offset advances by the packet length")
}

// isPhiOrSelf: x is p, or a phi all of whose non-constant edges are p.
func isPhiOrSelf(x ssa.Value, p *ssa.Phi) bool {
	if x == ssa.Value(p) {
		return true
	}
	q, ok := x.(*ssa.Phi)
	if !ok {
		return false
	}
	seen := false
	for _, e := range q.Edges {
		if e == ssa.Value(p) {
			seen = true
			continue
		}
		if _, isK := e.(*ssa.Const); isK || e == ssa.Value(q) {
			continue
		}
		return false
	}
	return seen
}
