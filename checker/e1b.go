package main

import (
	"fmt"

	"golang.org/x/tools/go/ssa"
)

// FailStopTo is FailStop with explicit sinks: every branch whose one edge is a
// pass edge of g has an opposite edge from which none of the sinks is reachable
// without passing g again. It rules out "rescue" conditions such as
// `if check(x) == nil || other { sink }`.
func (e *E1) FailStopTo(rule, what string, sinks []ssa.Instruction, g Guard) {
	fname := FuncName(e.Fn)
	construct := fname + ":" + what + ":" + g.Name
	n := 0
	for _, b := range e.Fn.Blocks {
		if len(b.Succs) != 2 || b.Succs[0] == b.Succs[1] {
			continue
		}
		for i := range b.Succs {
			lits, feas := edgeLits(b, i, nil)
			if !feas {
				continue
			}
			pass := false
			for _, l := range lits {
				if g.Match(l) {
					pass = true
				}
			}
			if !pass {
				continue
			}
			n++
			other := b.Succs[1-i]
			// sinks reachable within the same iteration: do not follow the edge back
			// into the block that performs the check (a new element is checked anew)
			ws := e.unguardedFromBlockAvoid(other, sinks, []Guard{g}, callBlockOf(g, lits))
			if len(ws) > 0 {
				e.C.Fail(rule, construct, sinkPos(other.Instrs[0]), fmt.Sprintf(
					"the failing branch of %s at %s can still reach the sink at %s",
					g.Name, e.C.Prog.Pos(sinkPos(b.Instrs[len(b.Instrs)-1])),
					e.C.Prog.Pos(sinkPos(ws[0].Sink))))
				return
			}
		}
	}
	if n == 0 {
		e.C.Fail(rule, construct, e.Fn.Pos(), "no checked occurrence of "+g.Name)
		return
	}
	e.C.OK(rule, construct, e.Fn.Pos(), fmt.Sprintf(
		"%d checked occurrence(s); a failing check cannot reach the sink", n))
}

// callBlockOf returns the block of the call instruction whose result the pass
// literal tests (nil if the literal is not about a call).
func callBlockOf(g Guard, lits []Lit) *ssa.BasicBlock {
	for _, l := range lits {
		if !g.Match(l) {
			continue
		}
		for _, v := range []ssa.Value{l.X, l.Y} {
			if v == nil {
				continue
			}
			if c, _ := callOf(v); c != nil {
				return c.Block()
			}
		}
	}
	return nil
}

func (e *E1) unguardedFromBlockAvoid(blk *ssa.BasicBlock, sinks []ssa.Instruction, guards []Guard,
	avoid *ssa.BasicBlock) []Witness {
	type state struct{ pred, blk *ssa.BasicBlock }
	sinkIn := map[*ssa.BasicBlock][]ssa.Instruction{}
	for _, s := range sinks {
		sinkIn[s.Block()] = append(sinkIn[s.Block()], s)
	}
	visited := map[state]bool{}
	queue := []state{{nil, blk}}
	visited[queue[0]] = true
	var out []Witness
	for len(queue) > 0 {
		st := queue[0]
		queue = queue[1:]
		e.C.Paths++
		if st.blk == avoid {
			continue
		}
		for _, s := range sinkIn[st.blk] {
			out = append(out, Witness{Sink: s})
		}
		for i, succ := range st.blk.Succs {
			lits, feasible := edgeLits(st.blk, i, st.pred)
			if !feasible {
				continue
			}
			pass := false
			for _, l := range lits {
				for _, g := range guards {
					if g.Match(l) {
						pass = true
					}
				}
			}
			if pass {
				continue
			}
			ns := state{st.blk, succ}
			if !visited[ns] {
				visited[ns] = true
				queue = append(queue, ns)
			}
		}
	}
	return out
}

// RetVal returns the i-th result of a return statement, looking through the
// result spill go/ssa introduces in functions with defers or named results
// (store r_i; rundefers; load r_i; return).
func RetVal(ret *ssa.Return, i int) ssa.Value {
	v := ret.Results[i]
	u, ok := v.(*ssa.UnOp)
	if !ok {
		return v
	}
	a, ok := u.X.(*ssa.Alloc)
	if !ok || u.Block() != ret.Block() {
		return v
	}
	var last ssa.Value
	for _, in := range ret.Block().Instrs {
		if in == u {
			break
		}
		if st, ok := in.(*ssa.Store); ok && st.Addr == a {
			last = st.Val
		}
	}
	if last != nil {
		return last
	}
	return v
}

// inModule reports whether fn (or, for an instantiated generic, its origin)
// belongs to the analysed module.
func inModule(fn *ssa.Function) bool {
	if fn == nil {
		return false
	}
	if fn.Pkg == nil && fn.Origin() != nil {
		fn = fn.Origin()
	}
	return fn.Pkg != nil && fn.Pkg.Pkg != nil &&
		(fn.Pkg.Pkg.Path() == modPath || len(fn.Pkg.Pkg.Path()) > len(modPath) && fn.Pkg.Pkg.Path()[:len(modPath)+1] == modPath+"/")
}

// cyclic reports whether block b lies on a CFG cycle.
func cyclic(b *ssa.BasicBlock) bool {
	for _, s := range b.Succs {
		if s == b || reachesBlock(s, b) {
			return true
		}
	}
	return false
}
