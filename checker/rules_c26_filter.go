package main

import (
	"fmt"
	"strings"

	"golang.org/x/tools/go/ssa"
)

// C26, the selector the control service actually installs: chainsAvailableAlgo
// drops the candidates whose certificate chains are not available locally and
// hands the rest to baseAlgo, which relies on the candidates arriving shortest
// first ("the k-1 first" are the shortest; diversity is measured against element
// 0). The filter is therefore part of the selection: it must keep the survivors
// in input order (fifth-round seed: an in-place swap-remove moved the longest
// candidate into the dropped one's slot).
//
// Rule O2: the slice handed to the inner selector is built, starting empty, by
// exactly one append site that appends the element of the loop over the input,
// reached only behind "VerifySegment(element's segment) == nil"; the input slice
// is not written; the result size is handed on unchanged.
func init() {
	addMutants(
		Mutant{Prop: "C26", Name: "chain-filter-swap-removes", File: "control/beacon/selection_algo.go",
			Old: `			withChain = append(withChain, b)
			continue
		}
`, New: `			withChain = append(withChain, b)
			continue
		}
		if len(withChain) > 0 {
			withChain[0], beacons[0] = b, b
		}
`, Expect: "O2-chain-filter-keeps-order"},
		Mutant{Prop: "C26", Name: "chain-filter-keeps-unverified", File: "control/beacon/selection_algo.go",
			Old: `		if err == nil {
			withChain = append(withChain, b)
			continue
		}
`, New: `		if err == nil || len(withChain) == 0 {
			withChain = append(withChain, b)
			continue
		}
`, Expect: "O2-chain-filter-keeps-order"},
	)
	r := registry["C26"]
	old := r.Run
	r.Run = func(c *Ctx) { c26ChainFilterKeepsOrder(c, "O2-chain-filter-keeps-order"); old(c) }
}

func c26ChainFilterKeepsOrder(c *Ctx, rule string) {
	v := c.View("(control/beacon.chainsAvailableAlgo).SelectBeacons")
	if v == nil {
		return
	}
	fn := v.Fn
	const param = "arg1"
	var inner []ssa.CallInstruction
	for _, b := range fn.Blocks {
		for _, in := range b.Instrs {
			if ci, ok := in.(ssa.CallInstruction); ok && ci.Common().IsInvoke() && ci.Common().Method.Name() == "SelectBeacons" {
				inner = append(inner, ci)
			}
		}
	}
	if !c.Check(len(inner) == 1, rule, v.Name()+":one-delegation", fn.Pos(), fmt.Sprintf("%d calls of the inner selector", len(inner))) {
		return
	}
	args := inner[0].Common().Args
	c.Check(len(args) == 3 && v.S.Sym(args[2]) == "arg2", rule, v.Name()+":result-size-handed-on", inner[0].Pos(),
		"the inner selector gets the caller's result size")
	seen := map[ssa.Value]bool{}
	var appends []*ssa.Call
	okShape := true
	why := ""
	var flow func(x ssa.Value)
	flow = func(x ssa.Value) {
		if x == nil || seen[x] {
			return
		}
		seen[x] = true
		switch y := x.(type) {
		case *ssa.Phi:
			for _, ed := range y.Edges {
				flow(ed)
			}
		case *ssa.Call:
			if calleeName(y.Common()) == "builtin:append" {
				appends = append(appends, y)
				flow(y.Common().Args[0])
			} else {
				okShape, why = false, "comes from "+calleeName(y.Common())
			}
		case *ssa.MakeSlice:
			if k, isK := constInt(y.Len); !isK || k != 0 {
				okShape, why = false, "starts from a non-empty make"
			}
		case *ssa.Slice:
			if _, isAlloc := y.X.(*ssa.Alloc); !isAlloc {
				okShape, why = false, "is a re-slice of "+short(v.S.Sym(y.X))
			}
		case *ssa.Const:
			if !y.IsNil() {
				okShape, why = false, "constant"
			}
		default:
			okShape, why = false, "is "+short(v.S.Sym(x))
		}
	}
	if len(args) == 3 {
		flow(args[1])
	}
	c.Check(okShape && len(appends) == 1, rule, v.Name()+":survivors-built-by-one-append", inner[0].Pos(), fmt.Sprintf(
		"the slice handed to the inner selector starts empty and grows at %d append site(s) %s", len(appends), why))
	// the input is not reordered under the selector's feet
	writes := 0
	for _, st := range v.Stores("*") {
		if strings.HasPrefix(st.Addr, param+"[") || strings.HasPrefix(st.Addr, "&"+param+"[") {
			writes++
		}
	}
	c.Check(writes == 0, rule, v.Name()+":input-not-written", fn.Pos(), fmt.Sprintf("%d stores into the candidate slice", writes))
	e := NewE1(c, fn)
	for i, ap := range appends {
		construct := fmt.Sprintf("%s:append-%d", v.Name(), i+1)
		els := appendedElems(ap)
		if len(els) != 1 {
			c.Fail(rule, construct, ap.Pos(), fmt.Sprintf("appends %d elements", len(els)))
			continue
		}
		elem := els[0]
		src := v.S.Sym(elem)
		okElem := strings.HasPrefix(src, param+"[") || strings.HasPrefix(v.S.Sym(rootOf(elem)), param+"[") || strings.HasPrefix(v.S.Sym(rootOf(elem)), "&("+param+"[")
		c.Check(okElem, rule, construct+":element", ap.Pos(), "appends "+short(src)+"; required the element of the loop over the candidates")
		accept := func(l Lit) bool {
			if l.Kind != "eq" || !l.Pos {
				return false
			}
			for _, pair := range [][2]ssa.Value{{l.X, l.Y}, {l.Y, l.X}} {
				k, isK := pair[1].(*ssa.Const)
				call, _ := callOf(pair[0])
				if !isK || !k.IsNil() || call == nil {
					continue
				}
				if calleeName(call.Common()) != "private/segment/segverifier.VerifySegment" || len(call.Common().Args) != 4 {
					continue
				}
				if derivedFrom(call.Common().Args[3], elem, v.S) {
					return true
				}
			}
			return false
		}
		ws := e.Unguarded(nil, []ssa.Instruction{ap}, []Guard{{Name: "VerifySegment(b.Segment) == nil", Match: accept}})
		c.Check(len(ws) == 0, rule, construct+":verified", ap.Pos(), "the append is reached only behind a successful VerifySegment of the appended beacon's segment")
		// every verified candidate is kept: the accepting edge leads to the append
		okTaken := false
		for _, b := range fn.Blocks {
			for si := range b.Succs {
				lits, _ := edgeLits(b, si, nil)
				for _, l := range lits {
					if accept(l) && (b.Succs[si] == ap.Block() || b.Succs[si].Dominates(ap.Block()) && len(b.Succs[si].Instrs) <= 2) {
						okTaken = true
					}
				}
			}
		}
		c.Check(okTaken, rule, construct+":kept-when-verified", ap.Pos(), "the verified edge leads straight to the append")
	}
}
