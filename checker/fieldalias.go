package main

import (
	"fmt"
	"go/token"
	"sort"

	"golang.org/x/tools/go/ssa"
)

// Field-effect analysis for the packet processor's verified hop and info field
// (shared by C04 and C07). Every address derived from
// scionPacketProcessor.{hopField,infoField} is followed through field and index
// selections, slices, calls, and functions that return such an address; each
// way the memory can change (or leave the analysis) is reported as an effect.

type FieldEffect struct {
	Kind   string // store | call | slice-call | return | escape
	Member string // ".hopField", ".hopField.IngressRouterAlert", …
	Val    string // stored value (store)
	ValV   ssa.Value
	Callee string // call / slice-call
	Arg    int
	Arg1   string // rendering of the second argument of a call (for UpdateSegID)
	Fn     *ssa.Function
	Pos    token.Pos
	Via    string // "" or the address-returning function the pointer came from
}

func (e FieldEffect) String() string {
	switch e.Kind {
	case "store":
		return fmt.Sprintf("%s <- %s", e.Member, e.Val)
	case "call", "slice-call":
		return fmt.Sprintf("&%s passed to %s (arg %d)", e.Member, e.Callee, e.Arg)
	case "return":
		return fmt.Sprintf("&%s returned", e.Member)
	}
	return fmt.Sprintf("&%s escapes (%s)", e.Member, e.Val)
}

func procFieldEffects(c *Ctx, bw *ByteWriters) []FieldEffect {
	rp := c.Prog.Pkgs[modPath+"/router"]
	if rp == nil {
		return nil
	}
	var fns []*ssa.Function
	for fn := range c.Prog.AllFuncs() {
		if fn.Pkg != nil && fn.Pkg.Pkg == rp.Types && len(fn.Blocks) > 0 {
			fns = append(fns, fn)
		}
	}
	sort.Slice(fns, func(i, j int) bool { return FuncName(fns[i]) < FuncName(fns[j]) })
	var out []FieldEffect
	returns := map[*ssa.Function]map[string]bool{}
	var uses func(fn *ssa.Function, s *Symer, addr ssa.Value, member, via string, depth int)
	uses = func(fn *ssa.Function, s *Symer, addr ssa.Value, member, via string, depth int) {
		if addr.Referrers() == nil || depth > 8 {
			return
		}
		for _, ref := range *addr.Referrers() {
			switch r := ref.(type) {
			case *ssa.DebugRef:
			case *ssa.UnOp:
				// a load: the value is copied
			case *ssa.Store:
				if r.Addr == addr {
					out = append(out, FieldEffect{Kind: "store", Member: member, Val: s.Sym(r.Val), ValV: r.Val, Fn: fn, Pos: r.Pos(), Via: via})
				} else {
					out = append(out, FieldEffect{Kind: "escape", Member: member, Fn: fn, Pos: r.Pos(), Via: via})
				}
			case *ssa.FieldAddr:
				uses(fn, s, r, member+"."+fieldName(r.X.Type(), r.Field), via, depth+1)
			case *ssa.IndexAddr:
				uses(fn, s, r, member+"[i]", via, depth+1)
			case *ssa.Slice:
				// a slice aliasing the member: look at what receives it
				if r.Referrers() == nil {
					continue
				}
				for _, sr := range *r.Referrers() {
					switch u := sr.(type) {
					case *ssa.DebugRef:
					case ssa.CallInstruction:
						for i, a := range u.Common().Args {
							if a != ssa.Value(r) {
								continue
							}
							n := calleeName(u.Common())
							writes := false
							if wi, ok := stdByteWriters[n]; ok && wi == i {
								writes = true
							}
							if callee := u.Common().StaticCallee(); callee != nil && bw != nil && bw.WritesParam[callee][i] {
								writes = true
							}
							if writes {
								out = append(out, FieldEffect{Kind: "slice-call", Member: member, Callee: n, Arg: i, Fn: fn, Pos: u.Pos(), Via: via})
							}
						}
					case *ssa.MakeInterface:
						if callee, ok := onlyFormatted(u); !ok {
							out = append(out, FieldEffect{Kind: "escape", Member: member + "[:]", Fn: fn, Pos: fn.Pos(), Via: via,
								Val: "boxed into an interface that reaches " + callee})
						}
					default:
						out = append(out, FieldEffect{Kind: "escape", Member: member + "[:]", Fn: fn, Pos: sr.Pos(), Via: via,
							Val: fmt.Sprintf("%T %s", sr, sr.String())})
					}
				}
			case ssa.CallInstruction:
				for i, a := range r.Common().Args {
					if a != addr {
						continue
					}
					e := FieldEffect{Kind: "call", Member: member, Callee: calleeName(r.Common()), Arg: i, Fn: fn, Pos: r.Pos(), Via: via}
					if len(r.Common().Args) > 1 {
						e.Arg1 = s.Sym(r.Common().Args[1])
					}
					out = append(out, e)
				}
			case *ssa.Return:
				if returns[fn] == nil {
					returns[fn] = map[string]bool{}
				}
				returns[fn][member] = true
				out = append(out, FieldEffect{Kind: "return", Member: member, Fn: fn, Pos: r.Pos(), Via: via})
			default:
				out = append(out, FieldEffect{Kind: "escape", Member: member, Fn: fn, Pos: ref.Pos(), Via: via})
			}
		}
	}
	for _, fn := range fns {
		s := NewSymer()
		for _, b := range fn.Blocks {
			for _, in := range b.Instrs {
				fa, ok := in.(*ssa.FieldAddr)
				if !ok || typeShort(fa.X.Type()) != "*router.scionPacketProcessor" {
					continue
				}
				n := fieldName(fa.X.Type(), fa.Field)
				if n != "hopField" && n != "infoField" {
					continue
				}
				uses(fn, s, fa, "."+n, "", 0)
			}
		}
	}
	// pointers handed out by address-returning functions (a caller that hands the
	// pointer on is reported as a "return"/"escape" effect itself)
	direct := map[*ssa.Function][]string{}
	for fn, ms := range returns {
		for m := range ms {
			direct[fn] = append(direct[fn], m)
		}
		sort.Strings(direct[fn])
	}
	for _, fn := range fns {
		s := NewSymer()
		for _, b := range fn.Blocks {
			for _, in := range b.Instrs {
				call, ok := in.(*ssa.Call)
				if !ok {
					continue
				}
				callee := call.Common().StaticCallee()
				if callee == nil {
					continue
				}
				for _, m := range direct[callee] {
					uses(fn, s, call, m, FuncName(callee), 0)
				}
			}
		}
	}
	return out
}

// onlyFormatted: the boxed value is only stored into a variadic []any that is
// handed to a formatting / error-context / logging function (read-only use).
func onlyFormatted(mi *ssa.MakeInterface) (string, bool) {
	if mi.Referrers() == nil {
		return "", true
	}
	okPrefix := []string{"fmt.", "pkg/private/serrors.", "pkg/log.", "invoke:pkg/log.Logger.", "router.errorDiscard"}
	for _, r := range *mi.Referrers() {
		switch x := r.(type) {
		case *ssa.DebugRef:
		case *ssa.Store:
			ia, ok := x.Addr.(*ssa.IndexAddr)
			if !ok {
				return "a store", false
			}
			arr, ok := ia.X.(*ssa.Alloc)
			if !ok || arr.Referrers() == nil {
				return "a store", false
			}
			for _, ar := range *arr.Referrers() {
				sl, ok := ar.(*ssa.Slice)
				if !ok {
					continue
				}
				if sl.Referrers() == nil {
					continue
				}
				for _, sr := range *sl.Referrers() {
					call, ok := sr.(ssa.CallInstruction)
					if !ok {
						if _, dbg := sr.(*ssa.DebugRef); dbg {
							continue
						}
						return "a non-call use", false
					}
					n := calleeName(call.Common())
					good := false
					for _, p := range okPrefix {
						if len(n) >= len(p) && n[:len(p)] == p {
							good = true
						}
					}
					if !good {
						return n, false
					}
				}
			}
		case ssa.CallInstruction:
			n := calleeName(x.Common())
			good := false
			for _, p := range okPrefix {
				if len(n) >= len(p) && n[:len(p)] == p {
					good = true
				}
			}
			if !good {
				return n, false
			}
		default:
			return fmt.Sprintf("%T", r), false
		}
	}
	return "", true
}

// checkFieldEffects applies the C04/C07 table of admissible effects.
func checkFieldEffects(c *Ctx, rule string, effects []FieldEffect) {
	whole := map[string][]string{
		".hopField": {"(*pkg/slayers/path/scion.Raw).GetCurrentHopField(recv.path)#0", "zero:pkg/slayers/path.HopField",
			"local:complit"},
		".infoField": {"(*pkg/slayers/path/scion.Raw).GetCurrentInfoField(recv.path)#0", "zero:pkg/slayers/path.InfoField",
			"local:complit"},
	}
	n := map[string]int{}
	bad := 0
	for _, e := range effects {
		ok, why := false, ""
		fname := FuncName(e.Fn)
		switch e.Kind {
		case "store":
			if pats, isWhole := whole[e.Member]; isWhole {
				for _, p := range pats {
					if wild(p, e.Val) && (e.Val != "local:complit" || zeroLit(e.ValV)) {
						ok = true
					}
				}
				why = "the verified field may only be loaded from the packet's current field or reset to zero"
				n["whole-field loads/resets"]++
			} else if e.Member == ".hopField.IngressRouterAlert" || e.Member == ".hopField.EgressRouterAlert" {
				ok = e.Val == "false"
				why = "a router-alert flag may only be cleared"
				n["router-alert flag cleared"]++
			} else {
				why = "no other member of the verified hop/info field may be modified in place"
			}
		case "call":
			ok = e.Callee == "(*pkg/slayers/path.InfoField).UpdateSegID" && e.Arg == 0 && e.Member == ".infoField" &&
				wild("*.hopField.Mac", e.Arg1)
			why = "only InfoField.UpdateSegID(hopField.Mac) may update the verified info field in place"
			n["UpdateSegID(hopField.Mac)"]++
		case "slice-call":
			why = "a slice of the verified field is handed to a function that writes it"
		case "return":
			ok = (fname == procT+".ingressRouterAlertFlag" || fname == procT+".egressRouterAlertFlag") &&
				(e.Member == ".hopField.IngressRouterAlert" || e.Member == ".hopField.EgressRouterAlert")
			why = "only the router-alert flag selectors may hand out an address inside the verified hop field"
			n["router-alert flag selector"]++
		default:
			why = "the address leaves the analysed uses"
		}
		if !ok {
			bad++
			c.Fail(rule, fname+":"+e.Kind+":"+e.Member, e.Pos, e.String()+"; "+why)
		}
	}
	if bad == 0 {
		c.OK(rule, "router:effects-on-verified-fields", 0, fmt.Sprintf("%d effect(s), all admissible: %v", len(effects), n))
	}
	c.Min("router:effects-on-verified-fields", len(effects), 8)
}
