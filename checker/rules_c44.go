package main

import (
	"fmt"
	"strings"

	"golang.org/x/tools/go/ssa"
)

func init() {
	register(&PropRule{
		ID:    "C44",
		Roots: []string{"./dispatcher", "./pkg/slayers/path/...", "./pkg/snet", "./router"},
		Explain: "Decides for Server.processMsgNextHop: the address it returns can only be (a) the " +
			"previous hop, and only on the SCMP echo/traceroute-request edge, (b) the destination " +
			"extracted from the SCMP quote, (c) the SCION/UDP destination, or (d) the zero value; (b) " +
			"and (c) are returned only through the edge on which the unmapped destination address " +
			"compares equal to the unmapped underlay destination address (a helper counts only if it " +
			"establishes that very comparison on all its accepting returns); with the dispatcher " +
			"feature off only SCMP echo/traceroute requests get past the filter; the reply to an " +
			"informational request swaps source and destination ISD-AS and host and reverses the " +
			"path; the byte-to-address helpers take the packet's raw destination address and the " +
			"L4 destination port / SCMP identifier / quoted source port. NOT decided: gopacket " +
			"decoding, SVC map contents.",
		Run: runC44,
	})
	setClaim("C44", claim{
		Text: "Value-origin rule on the SSA phi of the returned next hop with per-edge guard " +
			"requirements (underlay comparison), guard dominance for the feature-off filter, pairing " +
			"of the reversal.",
		Note: claimNote, Technique: "static analysis: phi/edge value-origin rule, guard dominance with " +
			"interprocedural summaries, symbolic pairing", Ref: "DESIGN.md §4 C44"})
	addMutants(
		Mutant{Prop: "C44", Name: "udp-underlay-unchecked", File: "dispatcher/dispatcher.go",
			Old: `			log.Error("Getting destination for SCION/UDP message", "err", err)
			return nil, netip.AddrPort{}, nil
		}
		if dstAddrPort.Addr().Unmap().Compare(underlay.Unmap()) != 0 {`,
			New: `			log.Error("Getting destination for SCION/UDP message", "err", err)
			return nil, netip.AddrPort{}, nil
		}
		if dstAddrPort.Addr().Unmap().Compare(underlay.Unmap()) != 0 && !dstAddrPort.Addr().Is6() {`,
			Expect: "O1-next-hop-origin"},
		Mutant{Prop: "C44", Name: "scmp-compare-with-prevhop", File: "dispatcher/dispatcher.go",
			Old: `			if dstAddrPort.Addr().Unmap().Compare(underlay.Unmap()) != 0 {
				log.Error("UDP/IP addr destination different from UDP/SCION addr",
					"UDP/IP:", underlay.Unmap().String(),
					"UDP/SCION:", dstAddrPort.Addr().Unmap().String())
				return nil, netip.AddrPort{}, nil
			}
		}
	case slayers.LayerTypeSCIONUDP:`,
			New: `			if dstAddrPort.Addr().Unmap().Compare(prevHop.Addr().Unmap()) != 0 {
				log.Error("UDP/IP addr destination different from UDP/SCION addr",
					"UDP/IP:", underlay.Unmap().String(),
					"UDP/SCION:", dstAddrPort.Addr().Unmap().String())
				return nil, netip.AddrPort{}, nil
			}
		}
	case slayers.LayerTypeSCIONUDP:`, Expect: "O1-next-hop-origin"},
		Mutant{Prop: "C44", Name: "feature-off-lets-errors-through", File: "dispatcher/dispatcher.go",
			Old: `		if s.scmpLayer.TypeCode.Type() != slayers.SCMPTypeTracerouteRequest &&
			s.scmpLayer.TypeCode.Type() != slayers.SCMPTypeEchoRequest {
			log.Debug("Dispatcher feature is disabled, shim discards non-SCMPInfo packets",`,
			New: `		if s.scmpLayer.TypeCode.Type() != slayers.SCMPTypeTracerouteRequest &&
			s.scmpLayer.TypeCode.Type() != slayers.SCMPTypeEchoRequest && s.scmpLayer.TypeCode.InfoMsg() {
			log.Debug("Dispatcher feature is disabled, shim discards non-SCMPInfo packets",`,
			Expect: "F1-feature-off-filter"},
		Mutant{Prop: "C44", Name: "reverse-forgets-dst-host", File: "dispatcher/dispatcher.go",
			Old: `	if err := s.scionLayer.SetDstAddr(src); err != nil {`,
			New: `	if err := s.scionLayer.SetSrcAddr(src); err != nil {`, Expect: "R1-reversal"},
	)
}

func runC44(c *Ctx) {
	// "with the path reversed": the shim reverses through scion.Raw.Reverse (C03 R2: decode,
	// Decoded.Reverse - the mirror map, flags included -, serialize)
	c.Borrow(runC03, map[string]string{"R2-raw-reverse": "R3-reply-path-is-the-reversal", "R1-decoded-reverse": "R3-reply-path-is-the-reversal"})
	sT := "(*dispatcher.Server)"
	v := c.View(sT + ".processMsgNextHop")
	if v == nil {
		return
	}
	e := NewE1(c, v.Fn)
	zero := "zero:net/netip.AddrPort"
	isReq := func(l string) bool {
		return l == "+eq((pkg/slayers.SCMPTypeCode).Type(recv.scmpLayer.TypeCode), 130:pkg/slayers.SCMPType)" ||
			l == "+eq((pkg/slayers.SCMPTypeCode).Type(recv.scmpLayer.TypeCode), 128:pkg/slayers.SCMPType)"
	}
	c.Check(c.Const("pkg/slayers.SCMPTypeTracerouteRequest") == "130:pkg/slayers.SCMPType" &&
		c.Const("pkg/slayers.SCMPTypeEchoRequest") == "128:pkg/slayers.SCMPType", "O1-next-hop-origin",
		"request-type-constants", 0, "TracerouteRequest=130, EchoRequest=128")
	// every returned next hop
	nret := 0
	for _, b := range v.Fn.Blocks {
		ret, ok := b.Instrs[len(b.Instrs)-1].(*ssa.Return)
		if !ok || b == v.Fn.Recover {
			continue
		}
		val := RetVal(ret, 1)
		if v.S.Sym(val) == zero {
			continue
		}
		nret++
		phi, isPhi := val.(*ssa.Phi)
		if !isPhi {
			c.Fail("O1-next-hop-origin", fmt.Sprintf("%s:return-%d", v.Name(), nret), ret.Pos(),
				"returns "+v.S.Sym(val)+", not a merge of the audited sources")
			continue
		}
		for i, ed := range phi.Edges {
			pred := phi.Block().Preds[i]
			s := v.S.Sym(ed)
			construct := fmt.Sprintf("%s:next-hop-source:%s", v.Name(), s)
			var lits []string
			for _, l := range blockLits(pred) {
				lits = append(lits, l.String(v.S))
			}
			for si, sb := range pred.Succs {
				if sb == phi.Block() && !(len(pred.Succs) == 2 && pred.Succs[0] == pred.Succs[1]) {
					ls, _ := edgeLits(pred, si, nil)
					for _, l := range ls {
						lits = append(lits, l.String(v.S))
					}
				}
			}
			switch {
			case s == zero:
				c.OK("O1-next-hop-origin", construct, phi.Pos(), "zero value (packet is dropped)")
			case s == "arg2":
				ok := false
				for _, l := range lits {
					if isReq(l) {
						ok = true
					}
				}
				if !ok && len(pred.Preds) > 1 {
					// merge block: every incoming edge must be a request edge
					ok = true
					for _, pp := range pred.Preds {
						edgeOK := false
						for si, sb := range pp.Succs {
							if sb != pred {
								continue
							}
							ls, _ := edgeLits(pp, si, nil)
							for _, l := range ls {
								if isReq(l.String(v.S)) {
									edgeOK = true
								}
							}
						}
						if !edgeOK {
							ok = false
						}
					}
				}
				c.Check(ok, "O1-next-hop-origin", construct, phi.Pos(),
					"the previous hop is used only on the echo/traceroute-request edge")
			case s == sT+".getDstSCMP(recv)#0" || s == sT+".getDstSCIONUDP(recv)#0":
				want := "+eq((net/netip.Addr).Compare((net/netip.Addr).Unmap((net/netip.AddrPort).Addr(" + s +
					")), (net/netip.Addr).Unmap(arg1)), 0)"
				ok := false
				for _, l := range lits {
					if l == want {
						ok = true
					}
				}
				if !ok {
					// a helper that establishes the comparison
					call, _ := callOf(ed)
					g := e.CallGuard(PassZero, "(net/netip.Addr).Compare")
					if call != nil {
						ws := e.Unguarded(call, []ssa.Instruction{ret}, []Guard{g})
						viaHelper := len(ws) == 0
						for _, cmp := range v.Calls("(net/netip.Addr).Compare") {
							_ = cmp
							viaHelper = false // a direct comparison exists but with other operands
						}
						ok = viaHelper
					}
				}
				c.Check(ok, "O1-next-hop-origin", construct, phi.Pos(),
					"reaches the return only through the edge where its unmapped address equals the unmapped underlay address; edge facts: "+
						strings.Join(truncList(lits, 6), " ; "))
			default:
				c.Fail("O1-next-hop-origin", construct, phi.Pos(), "unaudited source of the forwarding address")
			}
		}
	}
	c.Min("processMsgNextHop:non-zero-returns", nret, 1)
	// F1: feature-off filter — every path to a non-zero return
	var sinks []ssa.Instruction
	for _, b := range v.Fn.Blocks {
		if ret, ok := b.Instrs[len(b.Instrs)-1].(*ssa.Return); ok && b != v.Fn.Recover &&
			v.S.Sym(RetVal(ret, 1)) != zero {
			sinks = append(sinks, ret)
		}
	}
	last := "recv.decoded[(builtin:len(recv.decoded) - 1)]"
	e.Require("F1-feature-off-filter", "forwarding-return", nil, sinks,
		Or("dispatcher-on-or-SCMP", e.AtomGuard("on", "+true(recv.isDispatcher)"),
			e.AtomGuard("scmp", "+eq(global:pkg/slayers.LayerTypeSCMP, "+last+")")),
		Or("dispatcher-on-or-info-request", e.AtomGuard("on", "+true(recv.isDispatcher)"),
			e.AtomGuard("tr", "+eq((pkg/slayers.SCMPTypeCode).Type(recv.scmpLayer.TypeCode), 130:pkg/slayers.SCMPType)"),
			e.AtomGuard("echo", "+eq((pkg/slayers.SCMPTypeCode).Type(recv.scmpLayer.TypeCode), 128:pkg/slayers.SCMPType)")),
		e.AtomGuard("at-least-two-layers", "-lt(builtin:len(recv.decoded), 2)"),
		e.CallGuard(PassErrNil, "(*github.com/gopacket/gopacket.DecodingLayerParser).DecodeLayers"))

	// R1: reversal
	if rv := c.View(sT + ".reverseSCION"); rv != nil {
		re := NewE1(c, rv.Fn)
		rv.RequireStore("R1-reversal", 1, "recv.scionLayer.DstIA", "recv.scionLayer.SrcIA")
		rv.RequireStore("R1-reversal", 1, "recv.scionLayer.SrcIA", "recv.scionLayer.DstIA")
		// parallel swap: both loads precede both stores
		var loads, stores []ssa.Instruction
		for _, b := range rv.Fn.Blocks {
			for _, in := range b.Instrs {
				if u, ok := in.(*ssa.UnOp); ok {
					s := rv.S.Sym(u)
					if (s == "recv.scionLayer.SrcIA" || s == "recv.scionLayer.DstIA") && len(*u.Referrers()) > 0 {
						for _, ref := range *u.Referrers() {
							if _, isSt := ref.(*ssa.Store); isSt {
								loads = append(loads, u)
							}
						}
					}
				}
				if st, ok := in.(*ssa.Store); ok {
					a := rv.S.Sym(st.Addr)
					if a == "recv.scionLayer.SrcIA" || a == "recv.scionLayer.DstIA" {
						stores = append(stores, st)
					}
				}
			}
		}
		okSwap := len(loads) == 2 && len(stores) == 2
		for _, l := range loads {
			for _, st := range stores {
				if !instrDominates(l, st) {
					okSwap = false
				}
			}
		}
		c.Check(okSwap, "R1-reversal", rv.Name()+":parallel-IA-swap", rv.Fn.Pos(),
			"both ISD-AS values are read before either is overwritten")
		re.Require("R1-reversal", "success-returns", nil, re.SuccessReturns(),
			re.AtomGuard("src-host-from-dst", "+eq((*pkg/slayers.SCION).SetSrcAddr(recv.scionLayer, (*pkg/slayers.SCION).DstAddr(recv.scionLayer)#0), nil)"),
			re.AtomGuard("dst-host-from-src", "+eq((*pkg/slayers.SCION).SetDstAddr(recv.scionLayer, (*pkg/slayers.SCION).SrcAddr(recv.scionLayer)#0), nil)"),
			re.AtomGuard("path-reversed", "+eq(invoke:pkg/slayers/path.Path.Reverse(recv.scionLayer.Path; )#1, nil)"))
		// host addresses are read before they are overwritten
		rd := rv.Calls("(*pkg/slayers.SCION).SrcAddr", "(*pkg/slayers.SCION).DstAddr")
		wr := rv.Calls("(*pkg/slayers.SCION).SetSrcAddr", "(*pkg/slayers.SCION).SetDstAddr")
		okOrder := len(rd) == 2 && len(wr) == 2
		for _, r := range rd {
			for _, w := range wr {
				if !instrDominates(r.In.(ssa.Instruction), w.In.(ssa.Instruction)) {
					okOrder = false
				}
			}
		}
		c.Check(okOrder, "R1-reversal", rv.Name()+":hosts-read-before-written", rv.Fn.Pos(),
			"SrcAddr()/DstAddr() are evaluated before SetSrcAddr/SetDstAddr")
		rv.RequireStore("R1-reversal", 2, "recv.scionLayer.Path",
			"invoke:pkg/slayers/path.Path.Reverse(recv.scionLayer.Path; )#0",
			"recv.scionLayer.Path.(*pkg/slayers/path/epic.Path)#0.ScionPath")
	}
	if rv := c.View(sT + ".replyToSCMPInfoRequest"); rv != nil {
		re := NewE1(c, rv.Fn)
		re.Require("R1-reversal", "success-returns", nil, re.SuccessReturns(),
			re.CallGuard(PassErrNil, sT+".reverseSCION"))
	}
	// destination helpers
	if dv := c.View(sT + ".getDstSCIONUDP"); dv != nil {
		dv.RequireCallArgs("D1-destination-source", 1, "dispatcher.addrPortFromBytes",
			"recv.scionLayer.RawDstAddr", "recv.udpLayer.DstPort")
		ok := true
		for _, b := range dv.Fn.Blocks {
			if ret, isR := b.Instrs[len(b.Instrs)-1].(*ssa.Return); isR {
				s := dv.S.Sym(RetVal(ret, 0))
				if s != zero && !wild("dispatcher.addrPortFromBytes(*)*", s) && !wild("recv.ServiceAddresses[*]#0", s) &&
					!wild("recv.ServiceAddresses[*]", s) {
					ok = false
				}
			}
		}
		c.Check(ok, "D1-destination-source", dv.Name()+":result-origin", dv.Fn.Pos(),
			"returns the raw destination address with the UDP destination port, a configured SVC address, or zero")
	}
}
