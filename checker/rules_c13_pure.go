package main

import (
	"fmt"
	"go/token"
	"sort"
	"strings"

	"golang.org/x/tools/go/ssa"
)

// C13, "the HVF that is verified is the one computed from THIS packet and THIS
// key": the EPIC MAC library keeps nothing from one call to the next. Every
// processor has its own MAC input buffer and its own cached hop-field MAC (which
// it overwrites for each packet); anything the library remembered at package
// level would be shared by all processors and all packets - a remembered key
// slice aliases the caller's buffer, a remembered block belongs to another key.
//
// Rule: in package pkg/experimental/epic no function writes a package-level
// variable, takes its address for a callee, or calls a method on it. The one
// package-level variable that exists is only read (table below).
var c13ReadOnlyGlobals = map[string]string{
	// the all-zero IV of the CBC-MAC; sliced and handed to cipher.NewCBCEncrypter, which copies it
	"pkg/experimental/epic.zeroInitVector": "crypto/cipher.NewCBCEncrypter",
}

func init() {
	addMutants(
		Mutant{Prop: "C13", Name: "mac-library-scrubs-shared-iv", File: "pkg/experimental/epic/epic.go",
			Old: `	mode := cipher.NewCBCEncrypter(block, zeroInitVector[:])`,
			New: `	clear(zeroInitVector[:])
	mode := cipher.NewCBCEncrypter(block, zeroInitVector[:])`, Expect: "S2-mac-library-stateless"},
	)
}

func epicLibraryStateless(c *Ctx, rule string) {
	pkgPath := "pkg/experimental/epic"
	var bad []string
	nFn, nRef := 0, 0
	var pos ssa.Instruction
	for fn := range c.Prog.AllFuncs() {
		if fn.Pkg == nil || !strings.HasSuffix(fn.Pkg.Pkg.Path(), pkgPath) || fn.Synthetic != "" || fn.Name() == "init" {
			continue
		}
		nFn++
		for _, b := range fn.Blocks {
			for _, in := range b.Instrs {
				for _, op := range in.Operands(nil) {
					g, ok := (*op).(*ssa.Global)
					if !ok || g.Pkg == nil || !strings.HasPrefix(g.Pkg.Pkg.Path(), modPath) {
						continue
					}
					nRef++
					if why := globalUseWrites(c, g, in, *op); why != "" {
						bad = append(bad, fmt.Sprintf("%s: %s %s", FuncName(fn), why, g.Name()))
						if pos == nil {
							pos = in
						}
					}
				}
			}
		}
	}
	sort.Strings(bad)
	var p token.Pos
	if pos != nil {
		p = pos.Pos()
	}
	c.Check(len(bad) == 0, rule, pkgPath+":no-package-level-state", p, fmt.Sprintf(
		"%d functions, %d references to package-level variables, all of them reads: %s", nFn, nRef, strings.Join(truncList(bad, 3), " | ")))
	c.Min("epic-library-functions", nFn, 5)
}

// globalUseWrites: "" if instruction in uses global g only to read it.
func globalUseWrites(c *Ctx, g *ssa.Global, in ssa.Instruction, op ssa.Value) string {
	name := strings.TrimPrefix(g.Pkg.Pkg.Path(), modPath+"/") + "." + g.Name()
	switch x := in.(type) {
	case *ssa.UnOp:
		return "" // load
	case *ssa.Store:
		if x.Addr == op {
			return "stores into"
		}
		return "publishes the address of"
	case *ssa.Slice, *ssa.IndexAddr, *ssa.FieldAddr:
		// the derived address: loads are fine, a callee only if the table says it copies
		v := in.(ssa.Value)
		for _, r := range *v.Referrers() {
			switch y := r.(type) {
			case *ssa.UnOp:
			case *ssa.Store:
				if y.Addr == v {
					return "stores into"
				}
				return "publishes part of"
			case ssa.CallInstruction:
				if cc := y.Common(); calleeName(cc) == "builtin:copy" && len(cc.Args) == 2 && cc.Args[1] == v && cc.Args[0] != v {
					continue // the source of a copy is read
				}
				if c13ReadOnlyGlobals[name] == ""|| calleeName(y.Common()) != c13ReadOnlyGlobals[name] {
					return "hands to " + calleeName(y.Common()) + " a reference into"
				}
			default:
				return fmt.Sprintf("derives (%T) a reference into", r)
			}
		}
		return ""
	case ssa.CallInstruction:
		return "calls " + calleeName(x.Common()) + " on"
	}
	return fmt.Sprintf("uses (%T)", in)
}
