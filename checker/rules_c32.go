package main

import (
	"golang.org/x/tools/go/ssa"
)

const (
	trcT  = "(*pkg/scrypto/cppki.TRC)"
	strcT = "(*pkg/scrypto/cppki.SignedTRC)"
)

func init() {
	register(&PropRule{
		ID:    "C32",
		Roots: []string{"./pkg/scrypto/cppki"},
		Explain: "Decides on all CFG paths: SignedTRC.Verify accepts a base TRC only through " +
			"Validate + signatures of all voters and an update only through ValidateUpdate + " +
			"verifyAll of the new voters, the root acknowledgments and the votes; verifyAll " +
			"succeeds only if every signer info it uses passed verifySignerInfo (digest equality " +
			"and CheckSignature) and the number of distinct verified certificates equals the " +
			"number of required ones (this is what rejects duplicate votes); ValidateUpdate " +
			"requires same ISD, same base, serial+1, unchanged NoTrustReset, at least quorum " +
			"votes; sensitive updates take votes only from sensitive voters, regular updates " +
			"only from regular voters and keep quorum, core/authoritative ASes, the sensitive " +
			"certificates and the number of root and regular certificates, and demand votes of " +
			"changed regular voters and acknowledgments of changed roots. NOT decided: X.509 " +
			"signature arithmetic, certificate classification (C33/C34).",
		Run: runC32,
	})
	setClaim("C32", claim{
		Text: "Guard dominance of every required validation atom over every success return of " +
			"Verify/verifyBase/verifyUpdate/verifyAll/verifySignerInfo/ValidateUpdate/" +
			"validateSensitive/validateRegular (22 atoms), fail-stop form for per-element checks in loops.",
		Note: claimNote, Technique: "static analysis: guard dominance by pass-edge removal on the SSA " +
			"CFG (atoms identified by resolved operands), fail-stop check for loop bodies",
		Ref: "DESIGN.md §4 C32"})
	addMutants(
		Mutant{Prop: "C32", Name: "drop-root-acks", File: "pkg/scrypto/cppki/signed_trc.go",
			Old: `	if err := s.verifyAll(update.RootAcknowledgments); err != nil {
		return serrors.Wrap("verifying root acknowledgments", err, "type", update.Type)
	}
`, New: "", Expect: "G2-verify-update"},
		Mutant{Prop: "C32", Name: "drop-base-check", File: "pkg/scrypto/cppki/trc.go",
			Old: `	if predecessor.ID.Base != trc.ID.Base {
		return Update{}, serrors.New("base number mismatch",
			"predecessor", predecessor.ID.Base, "this", trc.ID.Base)
	}
`, New: "", Expect: "G4-validate-update"},
		Mutant{Prop: "C32", Name: "seen-count-to-missing-set", File: "pkg/scrypto/cppki/signed_trc.go",
			Old: `	if len(seen) != len(certs) {
		names := make([]string, 0, len(certs)-len(seen))`,
			New: `	if len(seen) == 0 && len(certs) != 0 {
		names := make([]string, 0, len(certs)-len(seen))`, Expect: "G3-verify-all"},
		Mutant{Prop: "C32", Name: "serial-any-increase", File: "pkg/scrypto/cppki/trc.go",
			Old:    `	if predecessor.ID.Serial+1 != trc.ID.Serial {`,
			New:    `	if predecessor.ID.Serial >= trc.ID.Serial {`,
			Expect: "G4-validate-update"},
		Mutant{Prop: "C32", Name: "sensitive-vote-unchecked", File: "pkg/scrypto/cppki/trc.go",
			Old: `		cert, ok := predCerts.Sensitive[predIdx]
		if !ok {
			return nil, serrors.New("vote by non-sensitive voter", "predecessor_index", predIdx)
		}
		voters = append(voters, cert)`,
			New: `		cert, ok := predCerts.Sensitive[predIdx]
		if !ok {
			cert, ok = predCerts.Regular[predIdx]
		}
		if !ok {
			return nil, serrors.New("vote by non-sensitive voter", "predecessor_index", predIdx)
		}
		voters = append(voters, cert)`, Expect: "G5-validate-sensitive"},
		Mutant{Prop: "C32", Name: "digest-not-compared", File: "pkg/scrypto/cppki/signed_trc.go",
			Old: `	if !bytes.Equal(attrDigest, actualDigest.Sum(nil)) {`,
			New: `	if len(attrDigest) != len(actualDigest.Sum(nil)) {`, Expect: "G3-verify-all"},
		Mutant{Prop: "C32", Name: "quorum-change-allowed-regular", File: "pkg/scrypto/cppki/trc.go",
			Old: `	if p, n := predecessor.Quorum, trc.Quorum; p != n {`,
			New: `	if p, n := predecessor.Quorum, trc.Quorum; p < n {`, Expect: "G6-validate-regular"},
	)
}

func runC32(c *Ctx) {
	c32ExpectedVotes(c)
	c32SubjectEquality(c)
	// Verify: dispatch
	if fn := c.Fn(strcT + ".Verify"); fn != nil {
		e := NewE1(c, fn)
		e.Require("G1-verify-dispatch", "success-returns", nil, e.SuccessReturns(),
			Or("verifyBase|verifyUpdate", e.CallGuard(PassErrNil, strcT+".verifyBase"),
				e.CallGuard(PassErrNil, strcT+".verifyUpdate")))
		upd := e.CallSites(strcT + ".verifyUpdate")
		base := e.CallSites(strcT + ".verifyBase")
		c.Min("Verify:verifyUpdate", len(upd), 1)
		c.Min("Verify:verifyBase", len(base), 1)
		isBase := "(pkg/scrypto/cppki.TRCID).IsBase(recv.TRC.ID)"
		e.Require("G1-verify-dispatch", "verifyBase-only-for-base", nil, base,
			e.AtomGuard("IsBase", "+true("+isBase+")"),
			e.AtomGuard("predecessor==nil", "+eq(arg0, nil)"))
		e.Require("G1-verify-dispatch", "verifyUpdate-only-for-non-base", nil, upd,
			e.AtomGuard("!IsBase", "-true("+isBase+")"))
		ViewOf(c, fn).RequireCallArgs("G1-verify-dispatch", 1, strcT+".verifyUpdate", "recv", "arg0")
	}
	if fn := c.Fn("(pkg/scrypto/cppki.TRCID).IsBase"); fn != nil {
		RunTable(c, &TableSpec{Rule: "G1-verify-dispatch", Fn: fn, NoInline: noInlineDefault,
			Atoms: []Atom{{Name: "eq", Pats: []string{"(recv.Base == recv.Serial)"}, Domain: boolDom()}},
			Oracle: func(a map[string]string) map[string]string {
				return map[string]string{"ret": a["eq"]}
			}})
	}
	if fn := c.Fn(strcT + ".verifyBase"); fn != nil {
		e := NewE1(c, fn)
		e.Require("G2-verify-base", "success-returns", nil, e.SuccessReturns(),
			e.AtomGuard("Validate", "+eq("+trcT+".Validate(recv.TRC), nil)"),
			e.AtomGuard("all-voters-sign", "+eq("+strcT+".verifyAll(recv, pkg/scrypto/cppki.detectNewVoters("+
				"zero:pkg/scrypto/cppki.classified, pkg/scrypto/cppki.classifyCerts(recv.TRC.Certificates)#0)), nil)"))
	}
	if fn := c.Fn(strcT + ".verifyUpdate"); fn != nil {
		e := NewE1(c, fn)
		upd := trcT + ".ValidateUpdate(recv.TRC, arg0)"
		e.Require("G2-verify-update", "success-returns", nil, e.SuccessReturns(),
			e.AtomGuard("ValidateUpdate", "+eq("+upd+"#1, nil)"),
			e.AtomGuard("new-voters-sign", "+eq("+strcT+".verifyAll(recv, "+upd+"#0.NewVoters), nil)"),
			e.AtomGuard("root-acks-sign", "+eq("+strcT+".verifyAll(recv, "+upd+"#0.RootAcknowledgments), nil)"),
			e.AtomGuard("votes-sign", "+eq("+strcT+".verifyAll(recv, "+upd+"#0.Votes), nil)"))
	}
	if v := c.View(strcT + ".verifyAll"); v != nil {
		e := NewE1(c, v.Fn)
		e.Require("G3-verify-all", "success-returns", nil, e.SuccessReturns(),
			e.AtomGuard("all-required-certs-seen",
				"+eq(builtin:len(arg0), builtin:len(makemap:map[*crypto/x509.Certificate]struct{}))"))
		// a certificate is marked seen only after its signer info verified
		var marks []ssa.Instruction
		for _, b := range v.Fn.Blocks {
			for _, in := range b.Instrs {
				if mu, ok := in.(*ssa.MapUpdate); ok {
					marks = append(marks, mu)
					k := v.S.Sym(mu.Key)
					c.Check(wild("(pkg/scrypto/cms/protocol.SignerInfo).FindCertificate(recv.SignerInfos[*], arg0)#0", k),
						"G3-verify-all", v.Name()+":seen-key", mu.Pos(),
						"seen[] is keyed by the certificate found among the required ones: "+k)
				}
			}
		}
		c.Min("verifyAll:seen-marks", len(marks), 1)
		e.Require("G3-verify-all", "mark-seen", nil, marks,
			e.CallGuard(PassErrNil, strcT+".verifySignerInfo"))
		v.RequireCallArgs("G3-verify-all", 1, strcT+".verifySignerInfo", "recv",
			"(pkg/scrypto/cms/protocol.SignerInfo).FindCertificate(recv.SignerInfos[*], arg0)#0",
			"recv.SignerInfos[*]")
	}
	if fn := c.Fn(strcT + ".verifySignerInfo"); fn != nil {
		e := NewE1(c, fn)
		e.Require("G3-verify-all", "success-returns", nil, e.SuccessReturns(),
			e.AtomGuard("digest-matches", "+true(bytes.Equal((pkg/scrypto/cms/protocol.SignerInfo)."+
				"GetMessageDigestAttribute(arg1)#0, invoke:hash.Hash.Sum(*; nil)))"),
			e.AtomGuard("signature-checks", "+eq((*crypto/x509.Certificate).CheckSignature(arg0, "+
				"(pkg/scrypto/cms/protocol.SignerInfo).X509SignatureAlgorithm(arg1), "+
				"(pkg/scrypto/cms/protocol.Attributes).MarshaledForVerifying(arg1.SignedAttrs)#0, arg1.Signature), nil)"))
		// the digest is computed over the TRC payload
		v := ViewOf(c, fn)
		v.RequireCallArgs("G3-verify-all", 1, "invoke:hash.Hash.Write", "", "recv.TRC.Raw")
	}
	if fn := c.Fn(trcT + ".ValidateUpdate"); fn != nil {
		e := NewE1(c, fn)
		pred := "pkg/scrypto/cppki.classifyCerts(arg0.Certificates)#0"
		this := "pkg/scrypto/cppki.classifyCerts(recv.Certificates)#0"
		e.Require("G4-validate-update", "success-returns", nil, e.SuccessReturns(),
			e.AtomGuard("Validate", "+eq("+trcT+".Validate(recv), nil)"),
			e.AtomGuard("predecessor!=nil", "-eq(arg0, nil)"),
			e.AtomGuard("same-ISD", "+eq(arg0.ID.ISD, recv.ID.ISD)"),
			e.AtomGuard("same-base", "+eq(arg0.ID.Base, recv.ID.Base)"),
			e.AtomGuard("serial+1", "+eq((arg0.ID.Serial + 1:pkg/scrypto.Version), recv.ID.Serial)",
				"+eq(arg0.ID.Serial, (recv.ID.Serial - 1:pkg/scrypto.Version))"),
			e.AtomGuard("NoTrustReset-unchanged", "+eq(arg0.NoTrustReset, recv.NoTrustReset)"),
			e.AtomGuard("votes>=quorum", "-lt(builtin:len(recv.Votes), arg0.Quorum)",
				"+lt(arg0.Quorum, (builtin:len(recv.Votes) + 1))"),
			Or("sensitive|regular validation",
				e.AtomGuard("s", "+eq("+trcT+".validateSensitive(recv, "+pred+")#1, nil)"),
				e.AtomGuard("r", "+eq("+trcT+".validateRegular(recv, arg0, "+pred+", "+this+")#2, nil)")))
		reg := e.CallSites(trcT + ".validateRegular")
		sen := e.CallSites(trcT + ".validateSensitive")
		c.Min("ValidateUpdate:validateRegular", len(reg), 1)
		c.Min("ValidateUpdate:validateSensitive", len(sen), 1)
		e.Require("G4-validate-update", "regular-only-if-first-vote-regular", nil, reg,
			e.AtomGuard("Votes[0]∈pred.Regular", "+ok("+pred+".Regular[recv.Votes[0]])"))
		e.Require("G4-validate-update", "sensitive-if-first-vote-not-regular", nil, sen,
			e.AtomGuard("Votes[0]∉pred.Regular", "-ok("+pred+".Regular[recv.Votes[0]])"))
		// what is returned as votes/acks is what the validators produced
		v := ViewOf(c, fn)
		v.RequireStore("G4-validate-update", 2, "local:complit.Votes",
			trcT+".validateSensitive(recv, "+pred+")#0", trcT+".validateRegular(recv, arg0, "+pred+", "+this+")#0")
		v.RequireStore("G4-validate-update", 1, "local:complit.RootAcknowledgments",
			trcT+".validateRegular(recv, arg0, "+pred+", "+this+")#1")
		v.RequireStore("G4-validate-update", 2, "local:complit.NewVoters",
			"pkg/scrypto/cppki.detectNewVoters("+pred+", "+this+")")
	}
	if fn := c.Fn(trcT + ".validateSensitive"); fn != nil {
		e := NewE1(c, fn)
		e.FailStop("G5-validate-sensitive", "every-vote", 1,
			e.AtomGuard("vote∈pred.Sensitive", "+ok(arg0.Sensitive[recv.Votes[*]])"))
		v := ViewOf(c, fn)
		ok := false
		for _, ci := range v.Calls("builtin:append") {
			l := v.Leaves(ci.In.Common().Args[1], 0)
			if len(leavesContainAll(l, "arg0.Sensitive")) == 0 {
				ok = true
			}
		}
		c.Check(ok, "G5-validate-sensitive", v.Name()+":voters-from-sensitive-map", fn.Pos(),
			"the returned voters are the certificates looked up in predCerts.Sensitive")
	}
	if fn := c.Fn(trcT + ".validateRegular"); fn != nil {
		e := NewE1(c, fn)
		e.Require("G6-validate-regular", "success-returns", nil, e.SuccessReturns(),
			e.AtomGuard("quorum-unchanged", "+eq(arg0.Quorum, recv.Quorum)"),
			e.AtomGuard("core-unchanged", "+eq(pkg/scrypto/cppki.equalASes(arg0.CoreASes, recv.CoreASes), nil)"),
			e.AtomGuard("authoritative-unchanged",
				"+eq(pkg/scrypto/cppki.equalASes(arg0.AuthoritativeASes, recv.AuthoritativeASes), nil)"),
			e.AtomGuard("sensitive-count", "+eq(builtin:len(arg1.Sensitive), builtin:len(arg2.Sensitive))"),
			e.AtomGuard("root-count", "+eq(builtin:len(arg1.Root), builtin:len(arg2.Root))"),
			e.AtomGuard("regular-count", "+eq(builtin:len(arg1.Regular), builtin:len(arg2.Regular))"),
			e.AtomGuard("all-expected-votes-cast", "+eq(builtin:len(makemap:map[int]struct{}), 0)"))
		find := func(m string) string {
			return "(pkg/scrypto/cppki.certMap).find(arg1." + m + ", next(range(arg2." + m + "))#2)"
		}
		e.FailStop("G6-validate-regular", "every-sensitive-cert", 1,
			e.AtomGuard("sensitive-known", "-lt("+find("Sensitive")+"#0, 0)"))
		e.FailStop("G6-validate-regular", "every-sensitive-cert", 1,
			e.AtomGuard("sensitive-unchanged", "+true("+find("Sensitive")+"#1)"))
		e.FailStop("G6-validate-regular", "every-root-cert", 1,
			e.AtomGuard("root-known", "-lt("+find("Root")+"#0, 0)"))
		e.FailStop("G6-validate-regular", "every-regular-cert", 1,
			e.AtomGuard("regular-known", "-lt("+find("Regular")+"#0, 0)"))
		e.FailStop("G6-validate-regular", "every-vote", 1,
			e.AtomGuard("vote∈pred.Regular", "+ok(arg1.Regular[recv.Votes[*]])"))
		// a changed root requires an acknowledgment by the predecessor root; a changed
		// regular voter is recorded as an expected vote
		v := ViewOf(c, fn)
		okAck := false
		for _, ci := range v.Calls("builtin:append") {
			l := v.Leaves(ci.In.Common().Args[1], 0)
			if len(leavesContainAll(l, "arg1.Root")) == 0 {
				okAck = true
				var in ssa.Instruction = ci.In.(ssa.Instruction)
				e.Require("G6-validate-regular", "ack-for-changed-root", nil, []ssa.Instruction{in},
					e.AtomGuard("root-changed", "-true("+find("Root")+"#1)"))
			}
		}
		c.Check(okAck, "G6-validate-regular", v.Name()+":acks-are-predecessor-roots", fn.Pos(),
			"root acknowledgments are taken from predCerts.Root")
		var exp, del []ssa.Instruction
		for _, b := range fn.Blocks {
			for _, in := range b.Instrs {
				if mu, ok := in.(*ssa.MapUpdate); ok {
					exp = append(exp, mu)
				}
			}
		}
		for _, ci := range v.Calls("builtin:delete") {
			del = append(del, ci.In.(ssa.Instruction))
			c.Check(wild("recv.Votes[*]", ci.Args[1]), "G6-validate-regular", v.Name()+":vote-clears-expectation",
				ci.In.Pos(), "delete(expectedVotes, vote index): "+ci.Args[1])
		}
		c.Min("validateRegular:expected-vote-marks", len(exp), 1)
		c.Min("validateRegular:expected-vote-clears", len(del), 1)
		// every changed regular voter must be marked: the block where !unchanged holds
		// contains the mark, i.e. the unchanged-false edge leads to a mark before
		// looping (checked as: mark is guarded by -true(unchanged) and by nothing else
		// than the known-check)
		e.Require("G6-validate-regular", "expect-vote-for-changed-regular", nil, exp,
			e.AtomGuard("regular-changed", "-true("+find("Regular")+"#1)"))
	}
}
