package main

import (
	"fmt"
	"strings"

	"golang.org/x/tools/go/ssa"
)

// C32, "every replaced regular voter voted": validateRegular collects the
// obligations and discharges them in ONE index space - the predecessor's. An
// obligation is recorded under the predecessor index that find() reports for a
// changed certificate of this TRC, and a vote discharges the obligation stored
// under the (predecessor) index it names; success requires the set to be empty.
// If the two sides use different index spaces, a vote of one voter discharges
// the obligation of another whenever the certificate order differs.
func c32ExpectedVotes(c *Ctx) {
	rule := "G7-replaced-voters-voted"
	v := c.View("(*pkg/scrypto/cppki.TRC).validateRegular")
	if v == nil {
		return
	}
	var set *ssa.MakeMap
	var puts []*ssa.MapUpdate
	var dels []*ssa.Call
	for _, b := range v.Fn.Blocks {
		for _, in := range b.Instrs {
			switch x := in.(type) {
			case *ssa.MapUpdate:
				if mm, ok := x.Map.(*ssa.MakeMap); ok && strings.HasPrefix(typeShort(mm.Type()), "map[int]struct{}") {
					set = mm
					puts = append(puts, x)
				}
			case *ssa.Call:
				if calleeName(x.Common()) == "builtin:delete" {
					dels = append(dels, x)
				}
			}
		}
	}
	if !c.Check(set != nil && len(puts) == 1, rule, v.Name()+":obligation-set", v.Fn.Pos(),
		fmt.Sprintf("one set of expected votes with %d insertion site(s)", len(puts))) {
		return
	}
	key := v.S.Sym(puts[0].Key)
	okKey := wild("(pkg/scrypto/cppki.certMap).find(arg1.Regular, *arg2.Regular*)#0", key)
	// recorded only for a changed certificate
	changed := false
	for _, l := range dominatingLits(puts[0].Block()) {
		s := l.String(v.S)
		if l.Kind == "true" && !l.Pos && wild("-true((pkg/scrypto/cppki.certMap).find(arg1.Regular, *)#1)", s) {
			changed = true
		}
	}
	c.Check(okKey && changed, rule, v.Name()+":recorded-under-predecessor-index", puts[0].Pos(),
		"an expected vote is recorded, for a changed certificate, under the predecessor index reported by predCerts.Regular.find: key = "+key)
	nDel := 0
	for _, d := range dels {
		if d.Common().Args[0] != ssa.Value(set) {
			continue
		}
		nDel++
		k := v.S.Sym(d.Common().Args[1])
		c.Check(wild("recv.Votes[*]", k), rule, v.Name()+":discharged-by-the-vote's-predecessor-index", d.Pos(),
			"a vote discharges the obligation stored under the predecessor index it names: key = "+k)
	}
	c.Check(nDel == 1, rule, v.Name()+":discharge-site", v.Fn.Pos(), fmt.Sprintf("%d discharge site(s)", nDel))
	// success only with an empty set
	e := NewE1(c, v.Fn)
	g := Guard{Name: "no expected vote left", Match: func(l Lit) bool {
		if l.Kind != "eq" || !l.Pos {
			return false
		}
		s := l.String(v.S)
		return wild("+eq(builtin:len(makemap:map[int]struct{}*), 0)", s)
	}}
	e.Require(rule, "success-returns", nil, e.SuccessReturns(), g)
}
