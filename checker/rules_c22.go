package main

import (
	"fmt"

	"golang.org/x/tools/go/ssa"
)

func init() {
	register(&PropRule{
		ID:    "C22",
		Roots: []string{"./router", "./private/path/combinator", "./control/beaconing", "./pkg/slayers/path"},
		Explain: "Decides the structural half of the SegID chain: the four places that touch the " +
			"accumulator (InfoField.UpdateSegID in the router, extractBeta in beaconing, " +
			"calculateBeta in path combination, the peer beta in Extend) all XOR it with the " +
			"big-endian first two bytes of a hop MAC and nothing else; the router updates it on " +
			"egress exactly when travelling in construction direction on a non-peering hop, on " +
			"ingress exactly when travelling against construction direction from an external " +
			"interface on a non-peering hop, and the ingress update precedes the MAC check; SCMP " +
			"replies use the same rule; the complete decision table of calculateBeta's starting " +
			"index (segment direction × peering hop × shortcut position) is: down segment → shortcut " +
			"index, +1 on a peering hop; up/core segment → last entry, +1 when that last entry is " +
			"the shortcut and a peering hop; the accumulator folds exactly the entries before that " +
			"index. NOT decided: that these indices are right for every path shape end to end (C02).",
		Run: runC22,
	})
	setClaim("C22", claim{
		Text: "Sibling agreement of the four accumulator updates, exhaustive decision tables of the " +
			"router's update conditions and of calculateBeta's index selection (value probe under " +
			"conditional constant propagation), ordering by dominance.",
		Note: claimNote, Technique: "static analysis: sibling agreement, decision tables with value " +
			"probe, dominance ordering", Ref: "DESIGN.md §4 C22"})
	addMutants(
		Mutant{Prop: "C22", Name: "egress-update-on-peering", File: "router/dataplane.go",
			Old: `	if p.infoField.ConsDir && !p.peering {
		p.infoField.UpdateSegID(p.hopField.Mac)
		if err := p.path.SetInfoField(p.infoField, int(p.path.PathMeta.CurrINF)); err != nil {
			// TODO parameter problem invalid path`,
			New: `	if p.infoField.ConsDir {
		p.infoField.UpdateSegID(p.hopField.Mac)
		if err := p.path.SetInfoField(p.infoField, int(p.path.PathMeta.CurrINF)); err != nil {
			// TODO parameter problem invalid path`, Expect: "T1-router-update-conditions"},
		Mutant{Prop: "C22", Name: "up-segment-peer-index-dropped", File: "private/path/combinator/graph.go",
			Old: `		index = len(se.segment.ASEntries) - 1
		if index == se.edge.Shortcut && se.edge.Peer != 0 {
			index++
		}`, New: `		index = len(se.segment.ASEntries) - 1`, Expect: "T2-calculate-beta-index"},
		Mutant{Prop: "C22", Name: "update-segid-with-last-bytes", File: "pkg/slayers/path/infofield.go",
			Old:    `inf.SegID = inf.SegID ^ binary.BigEndian.Uint16(hfMac[:2])`,
			New:    `inf.SegID = inf.SegID ^ binary.BigEndian.Uint16(hfMac[4:])`,
			Expect: "S1-xor-agreement"},
		Mutant{Prop: "C22", Name: "ingress-update-after-mac", File: "router/dataplane.go",
			Old: `	if disp := p.updateNonConsDirIngressSegID(); disp != pForward {
		return disp
	}
	if disp := p.validateHopExpiry(); disp != pForward {`,
			New: `	if disp := p.validateHopExpiry(); disp != pForward {`,
			More: []Edit{{File: "router/dataplane.go", Old: `	if disp := p.verifyCurrentMAC(); disp != pForward {
		return disp
	}
	if disp := p.handleIngressRouterAlert(); disp != pForward {`,
				New: `	if disp := p.verifyCurrentMAC(); disp != pForward {
		return disp
	}
	if disp := p.updateNonConsDirIngressSegID(); disp != pForward {
		return disp
	}
	if disp := p.handleIngressRouterAlert(); disp != pForward {`}},
			Expect: "O1-update-before-verify"},
		Mutant{Prop: "C22", Name: "beta-includes-index-entry", File: "private/path/combinator/graph.go",
			Old: `	for i := range index {
		hop := se.segment.ASEntries[i].HopEntry`, New: `	for i := range index + 1 {
		hop := se.segment.ASEntries[i].HopEntry`, Expect: "T2-calculate-beta-index"},
	)
}

func runC22(c *Ctx) {
	procStateFresh(c, "S1-per-packet-state")
	scmpReversal(c, c.Const("router.External"), "R2-scmp-reply-egress-update")
	// S1: all accumulator updates are XOR with BigEndian.Uint16(mac[:2])
	if v := c.View("(*pkg/slayers/path.InfoField).UpdateSegID"); v != nil {
		v.RequireStore("S1-xor-agreement", 1, "recv.SegID",
			"(recv.SegID ^ (encoding/binary.bigEndian).Uint16(global:encoding/binary.BigEndian, arg0[:2]))",
			"((encoding/binary.bigEndian).Uint16(global:encoding/binary.BigEndian, arg0[:2]) ^ recv.SegID)",
			"((encoding/binary.bigEndian).Uint16(global:encoding/binary.BigEndian, local:hfMac[:2]) ^ recv.SegID)",
			"(recv.SegID ^ (encoding/binary.bigEndian).Uint16(global:encoding/binary.BigEndian, local:hfMac[:2]))")
		v.RequireStore("S1-xor-agreement", 1, "local:hfMac", "arg0")
	}
	if v := c.View("control/beaconing.extractBeta"); v != nil {
		segIDXorRule(c, v, "S1-xor-agreement")
		ok := false
		for _, ci := range v.Calls("(encoding/binary.bigEndian).Uint16") {
			if wild("local:entry.HopEntry.HopField.MAC[:2]", ci.Args[1]) {
				ok = true
			}
		}
		c.Check(ok, "S1-xor-agreement", v.Name()+":mac-prefix", v.Fn.Pos(), "XORs Uint16(entry.HopEntry.HopField.MAC[:2])")
	}
	if v := c.View("private/path/combinator.calculateBeta"); v != nil {
		segIDXorRule(c, v, "S1-xor-agreement")
		ok := false
		for _, ci := range v.Calls("(encoding/binary.bigEndian).Uint16") {
			// MAC[:] of a 6-byte array: Uint16 reads the first two bytes
			if wild("*HopField.MAC[:]", ci.Args[1]) || wild("*HopField.MAC[:2]", ci.Args[1]) {
				ok = true
			}
		}
		c.Check(ok, "S1-xor-agreement", v.Name()+":mac-prefix", v.Fn.Pos(), "XORs Uint16 over the start of the hop MAC")
		// T2: index table by probe on the loop bound
		var bound ssa.Value
		for _, b := range v.Fn.Blocks {
			if ifi, isIf := b.Instrs[len(b.Instrs)-1].(*ssa.If); isIf {
				for _, l := range condLits(ifi.Cond, true) {
					if l.Kind == "lt" {
						if phi, isPhi := l.Y.(*ssa.Phi); isPhi {
							bound = phi
						}
					}
				}
			}
		}
		if bound == nil {
			c.Fail("T2-calculate-beta-index", v.Name()+":loop-bound", v.Fn.Pos(), "loop bound (index) not found")
		} else {
			ln := "(builtin:len(arg0.segment.PathSegment.ASEntries) - 1)"
			RunTable(c, &TableSpec{Rule: "T2-calculate-beta-index", Fn: v.Fn, Probe: bound,
				NoInline: append([]string{"(*pkg/segment.PathSegment).IsDownSeg"}, noInlineDefault...),
				Atoms: []Atom{
					{Name: "down", Pats: []string{"(*private/path/combinator.inputSegment).IsDownSeg(arg0.segment)",
						"(*private/path/combinator.inputSegment).IsDownSeg(*)"}, Domain: boolDom()},
					{Name: "peer", Pats: []string{"(arg0.edge.Peer != 0)"}, Domain: boolDom()},
					{Name: "lastIsShortcut", Pats: []string{"(" + ln + " == arg0.edge.Shortcut)", "(arg0.edge.Shortcut == " + ln + ")"},
						Domain: boolDom()},
				},
				Oracle: func(a map[string]string) map[string]string {
					if a["down"] == "true" {
						if a["peer"] == "true" {
							return map[string]string{"probe": "sym:(arg0.edge.Shortcut + 1)"}
						}
						return map[string]string{"probe": "sym:arg0.edge.Shortcut"}
					}
					if a["peer"] == "true" && a["lastIsShortcut"] == "true" {
						return map[string]string{"probe": "sym:(" + ln + " + 1)"}
					}
					return map[string]string{"probe": "sym:" + ln}
				}})
			// the fold covers exactly entries 0..index-1 starting from Info.SegmentID
			okFold := false
			for _, b := range v.Fn.Blocks {
				for _, in := range b.Instrs {
					if phi, isPhi := in.(*ssa.Phi); isPhi && phi.Type().String() == "uint16" {
						for _, ed := range phi.Edges {
							if v.S.Sym(ed) == "arg0.segment.PathSegment.Info.SegmentID" || v.S.Sym(ed) == "arg0.segment.Info.SegmentID" {
								okFold = true
							}
						}
					}
				}
			}
			c.Check(okFold, "T2-calculate-beta-index", v.Name()+":starts-at-segment-id", v.Fn.Pos(),
				"the accumulator starts from the segment's Info.SegmentID")
			// loop: i from 0 while i < index, entry i
			okIdx := false
			for _, st := range v.Stores("local:hop") {
				// hop := se.segment.ASEntries[i].HopEntry with i the loop counter starting at 0
				if wild("arg0.segment.PathSegment.ASEntries[phi((* + 1) | 0)].HopEntry", st.Val) {
					okIdx = true
				}
			}
			n := 0
			for _, b := range v.Fn.Blocks {
				if ifi, isIf := b.Instrs[len(b.Instrs)-1].(*ssa.If); isIf {
					for _, l := range condLits(ifi.Cond, true) {
						if l.Kind == "lt" && l.Y == bound {
							n++
						}
					}
				}
			}
			c.Check(okIdx && n >= 1, "T2-calculate-beta-index", v.Name()+":fold-bounded-by-index", v.Fn.Pos(),
				fmt.Sprintf("%d loop test(s) i < index with the probed index as bound", n))
		}
	}
	// T1: router update conditions
	upd := "(*pkg/slayers/path.InfoField).UpdateSegID"
	if fn := c.Fn(procT + ".processEgress"); fn != nil {
		RunTable(c, &TableSpec{Rule: "T1-router-update-conditions", Fn: fn,
			NoInline: append([]string{"(*pkg/slayers/path*"}, noInlineDefault...),
			Atoms: []Atom{
				{Name: "consDir", Pats: []string{"recv.infoField.ConsDir"}, Domain: boolDom()},
				{Name: "peering", Pats: []string{"recv.peering"}, Domain: boolDom()},
				{Name: "setErr", Pats: []string{"((*pkg/slayers/path/scion.Raw).SetInfoField(*) != nil)"}, Domain: []string{"false"}},
				{Name: "incErr", Pats: []string{"((*pkg/slayers/path/scion.Raw).IncPath(*) != nil)"}, Domain: []string{"false"}},
			},
			CallsTracked: []string{upd, "(*pkg/slayers/path/scion.Raw).SetInfoField", "(*pkg/slayers/path/scion.Raw).IncPath"},
			Oracle: func(a map[string]string) map[string]string {
				want := map[string]string{"ret": dispForward, "call:(*pkg/slayers/path/scion.Raw).IncPath": "yes"}
				if a["consDir"] == "true" && a["peering"] == "false" {
					want["call:"+upd] = "yes"
					want["call:"+upd+":arg0"] = "sym:recv.infoField"
					want["call:"+upd+":arg1"] = "sym:recv.hopField.Mac"
					want["call:(*pkg/slayers/path/scion.Raw).SetInfoField"] = "yes"
				} else {
					want["call:"+upd] = ""
				}
				return want
			}})
	}
	if fn := c.Fn(procT + ".updateNonConsDirIngressSegID"); fn != nil {
		RunTable(c, &TableSpec{Rule: "T1-router-update-conditions", Fn: fn,
			NoInline: append([]string{"(*pkg/slayers/path*"}, noInlineDefault...),
			Atoms: []Atom{
				{Name: "consDir", Pats: []string{"recv.infoField.ConsDir"}, Domain: boolDom()},
				{Name: "external", Pats: []string{"(recv.ingressFromLink != 0)"}, Domain: boolDom()},
				{Name: "peering", Pats: []string{"recv.peering"}, Domain: boolDom()},
				{Name: "setErr", Pats: []string{"((*pkg/slayers/path/scion.Raw).SetInfoField(*) != nil)"}, Domain: []string{"false"}},
			},
			CallsTracked: []string{upd, "(*pkg/slayers/path/scion.Raw).SetInfoField"},
			Oracle: func(a map[string]string) map[string]string {
				want := map[string]string{"ret": dispForward}
				if a["consDir"] == "false" && a["external"] == "true" && a["peering"] == "false" {
					want["call:"+upd] = "yes"
					want["call:"+upd+":arg1"] = "sym:recv.hopField.Mac"
					want["call:(*pkg/slayers/path/scion.Raw).SetInfoField"] = "yes"
					want["call:(*pkg/slayers/path/scion.Raw).SetInfoField:arg2"] = "sym:int(recv.path.Base.PathMeta.CurrINF)"
				} else {
					want["call:"+upd] = ""
				}
				return want
			}})
	}
	// O1: ordering in process()
	if v := c.View(procT + ".process"); v != nil {
		upds := v.Calls(procT + ".updateNonConsDirIngressSegID")
		macs := v.Calls(procT + ".verifyCurrentMAC")
		ok := len(upds) == 1 && len(macs) >= 1
		if ok {
			// the first MAC check (the one not after a cross-over) is dominated by the update
			first := macs[0].In.(ssa.Instruction)
			for _, m := range macs {
				if instrDominates(m.In.(ssa.Instruction), first) {
					first = m.In.(ssa.Instruction)
				}
			}
			ok = instrDominates(upds[0].In.(ssa.Instruction), first)
		}
		c.Check(ok, "O1-update-before-verify", v.Name()+":ingress-update-before-mac", v.Fn.Pos(),
			"updateNonConsDirIngressSegID dominates the first verifyCurrentMAC")
		e := NewE1(c, v.Fn)
		e.Require("O1-update-before-verify", "success-returns", nil, e.SuccessReturns(),
			e.CallGuard(PassFwd, procT+".updateNonConsDirIngressSegID"))
		// egress processing happens only towards an external link
		pe := e.CallSites(procT + ".processEgress")
		c.Min("process:processEgress", len(pe), 1)
		e.Require("O1-update-before-verify", "processEgress-only-external", nil, pe,
			e.AtomGuard("egress-link-external", "+eq(invoke:router.Link.Scope(recv.d.interfaces[*]; ), 2:router.LinkScope)"))
	}
	// SCMP replies use the same atom
	if v := c.View(spT + ".prepareSCMP"); v != nil {
		e := NewE1(c, v.Fn)
		us := e.CallSites(upd)
		c.Min("prepareSCMP:UpdateSegID", len(us), 1)
		e.Require("T1-router-update-conditions", "scmp-reply-update", nil, us,
			e.AtomGuard("cons-dir", "+true(*InfoFields[*].ConsDir)"),
			e.AtomGuard("not-peering", "-true(router.determinePeer(*"),
			e.AtomGuard("reply-leaves-via-external-link", "+eq(invoke:router.Link.Scope(recv.pkt.Link; ), 2:router.LinkScope)"))
	}
}
