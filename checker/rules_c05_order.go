package main

import (
	"fmt"
	"sort"
	"strings"

	"golang.org/x/tools/go/ssa"
)

// C05 / C06, order of the steps in process(): several validators decide on
// p.peering ("is the current hop a peering hop") - ingressInterface(), and
// through it validateTransitUnderlaySrc(), validateHopExpiry's pointer, the
// link-type checks, the SegID updates. reset() zeroes the member for every packet,
// so the per-packet-state rule (S1) is satisfied by a read of that zero. What the
// validators need is the value determinePeer() computes for THIS packet.
//
// Rule O1: in process() (and the other entry points of the processor that call
// determinePeer), every call of a method of the processor that reads p.peering -
// directly or through methods it calls on the same receiver - comes after the
// call that stores it (dominated by it).
func init() {
	old := `	if disp := p.determinePeer(); disp != pForward {
		return disp
	}`
	for _, p := range []string{"C05", "C06"} {
		addMutants(
			Mutant{Prop: p, Name: "transit-underlay-check-before-peering-is-known", File: "router/dataplane.go",
				Old: old, New: `	if disp := p.validateTransitUnderlaySrc(); disp != pForward {
		return disp
	}
` + old, Expect: "O1-peering-known-before-use"},
		)
	}
}

func peeringKnownBeforeUse(c *Ctx, rule string) {
	field := "peering"
	setter := procT + ".determinePeer"
	sfn := c.Fn(setter)
	if sfn == nil {
		return
	}
	// which methods of the processor read the member, transitively over same-receiver calls
	reads := map[*ssa.Function]bool{}
	direct := func(fn *ssa.Function) bool {
		s := NewSymer()
		for _, b := range fn.Blocks {
			for _, in := range b.Instrs {
				if u, ok := in.(*ssa.UnOp); ok {
					if fa, isFA := u.X.(*ssa.FieldAddr); isFA && fieldName(fa.X.Type(), fa.Field) == field && s.Sym(fa.X) == "recv" {
						return true
					}
				}
			}
		}
		return false
	}
	var all []*ssa.Function
	for fn := range c.Prog.AllFuncs() {
		if fn.Blocks != nil && fn.Signature.Recv() != nil && strings.HasPrefix(FuncName(fn), procT+".") {
			all = append(all, fn)
		}
	}
	for _, fn := range all {
		if fn == sfn {
			continue
		}
		for _, g := range recvClosure(fn) {
			if g != sfn && direct(g) {
				reads[fn] = true
			}
		}
	}
	c.Min("methods-reading-peering", len(reads), 3)
	// entry points: functions that call the setter
	n := 0
	for _, fn := range all {
		v := ViewOf(c, fn)
		var set []ssa.Instruction
		for _, ci := range v.Calls(setter) {
			set = append(set, ci.In.(ssa.Instruction))
		}
		if len(set) == 0 {
			continue
		}
		n++
		var bad []string
		for _, b := range fn.Blocks {
			for _, in := range b.Instrs {
				call, ok := in.(ssa.CallInstruction)
				if !ok {
					continue
				}
				h := call.Common().StaticCallee()
				if h == nil || !reads[h] || len(call.Common().Args) == 0 || v.S.Sym(call.Common().Args[0]) != "recv" {
					continue
				}
				dom := false
				for _, s := range set {
					if instrDominates(s, in) {
						dom = true
					}
				}
				if !dom {
					bad = append(bad, fmt.Sprintf("%s at %s", FuncName(h), c.Prog.Pos(in.Pos())))
				}
			}
		}
		if direct(fn) {
			// a direct read in the entry function itself must also follow the setter
			for _, b := range fn.Blocks {
				for _, in := range b.Instrs {
					if u, ok := in.(*ssa.UnOp); ok {
						if fa, isFA := u.X.(*ssa.FieldAddr); isFA && fieldName(fa.X.Type(), fa.Field) == field && v.S.Sym(fa.X) == "recv" {
							dom := false
							for _, s := range set {
								if instrDominates(s, in) {
									dom = true
								}
							}
							if !dom {
								bad = append(bad, "direct read at "+c.Prog.Pos(in.Pos()))
							}
						}
					}
				}
			}
		}
		sort.Strings(bad)
		c.Check(len(bad) == 0, rule, v.Name()+":peering-read-after-determinePeer", fn.Pos(), fmt.Sprintf(
			"%d method(s) of the processor read p.peering; calls that are not behind determinePeer(): %s", len(reads), strings.Join(bad, "; ")))
	}
	c.Min("entry-points-calling-determinePeer", n, 1)
}
