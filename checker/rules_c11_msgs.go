package main

import (
	"fmt"
	"go/token"

	"golang.org/x/tools/go/ssa"
)

// C11, below the anchors: internalLink.Resolve decides the local delivery address
// and port and leaves them in the packet (p.RemoteAddr); the packet then sits in a
// batch with others for OTHER hosts and ports, and udpConnection.send turns the
// batch into the message array handed to WriteBatch. The decided port reaches the
// wire only if message i is built from packet i - also after a partial write has
// shifted the left-over packets to the head of the batch (fifth-round seed: the
// messages of new packets only were rebuilt and the shift moved the buffers but
// not the addresses).
//
// Rule M1 accepts the one form that makes this evident without reasoning about
// the shift: before every WriteBatch(msgs[:n]) a complete loop over pkts[:n] - the
// same n - stores, for every index i, pkts[i].RawPacket into msgs[i].Buffers[0]
// and nil or pkts[i].RemoteAddr into msgs[i].Addr, and nothing writes the message
// array between that loop and the call. A different but correct scheme
// (incremental rebuild with a shift of both members) is not recognised and is
// reported as undecided; this is stated in DESIGN.md.
func init() {
	addMutants(
		Mutant{Prop: "C11", Name: "messages-rebuilt-for-new-packets-only", File: "router/underlayproviders/udpip/udpip.go",
			Old: `		for i, p := range pkts[:toWrite] {
			msgs[i].Buffers[0] = p.RawPacket
			msgs[i].Addr = nil`, New: `		for i, p := range pkts[:toWrite] {
			if i < toWrite-1 && msgs[i].Addr != nil {
				continue
			}
			msgs[i].Buffers[0] = p.RawPacket
			msgs[i].Addr = nil`, Expect: "M1-message-is-its-packet"},
		Mutant{Prop: "C11", Name: "message-address-of-the-neighbour-packet", File: "router/underlayproviders/udpip/udpip.go",
			Old: `				msgs[i].Addr = (*net.UDPAddr)(p.RemoteAddr)`,
			New: `				msgs[i].Addr = (*net.UDPAddr)(pkts[0].RemoteAddr)`, Expect: "M1-message-is-its-packet"},
	)
	r := registry["C11"]
	old := r.Run
	r.Run = func(c *Ctx) { c11MessageIsItsPacket(c, "M1-message-is-its-packet"); old(c) }
	have := false
	for _, x := range r.Roots {
		have = have || x == "./router/underlayproviders/udpip"
	}
	if !have {
		r.Roots = append(r.Roots, "./router/underlayproviders/udpip")
	}
}

func c11MessageIsItsPacket(c *Ctx, rule string) {
	v := c.View("(*router/underlayproviders/udpip.udpConnection).send")
	if v == nil {
		return
	}
	fn := v.Fn
	load := func(x ssa.Value) ssa.Value {
		if u, ok := x.(*ssa.UnOp); ok && u.Op == token.MUL {
			return u.X
		}
		return nil
	}
	// msgs[idx].<field> : returns base, idx, field name
	msgField := func(a ssa.Value) (ssa.Value, ssa.Value, string) {
		fa, ok := a.(*ssa.FieldAddr)
		if !ok {
			return nil, nil, ""
		}
		ia, ok := fa.X.(*ssa.IndexAddr)
		if !ok {
			return nil, nil, ""
		}
		return ia.X, ia.Index, fieldName(fa.X.Type(), fa.Field)
	}
	var wb ssa.CallInstruction
	n := 0
	for _, b := range fn.Blocks {
		for _, in := range b.Instrs {
			if ci, ok := in.(ssa.CallInstruction); ok && ci.Common().IsInvoke() && ci.Common().Method.Name() == "WriteBatch" {
				wb = ci
				n++
			}
		}
	}
	if !c.Check(n == 1, rule, v.Name()+":one-write-batch", fn.Pos(), fmt.Sprintf("%d WriteBatch calls", n)) {
		return
	}
	construct := v.Name() + ":messages-rebuilt-from-their-packets"
	fail := func(why string) { c.Unknown(rule, construct, wb.Pos(), why) }
	sl, ok := wb.Common().Args[0].(*ssa.Slice)
	if !ok || sl.Low != nil || sl.High == nil {
		fail("WriteBatch is not given msgs[:n]")
		return
	}
	msgs, count := sl.X, sl.High
	// the fill loop: the block of the WriteBatch call is the exit of a range loop
	wbBlock := wb.Block()
	var header, body *ssa.BasicBlock
	for _, p := range wbBlock.Preds {
		if iff, isIf := p.Instrs[len(p.Instrs)-1].(*ssa.If); isIf && p.Succs[1] == wbBlock {
			if cmp, isCmp := iff.Cond.(*ssa.BinOp); isCmp && cmp.Op == token.LSS {
				header, body = p, p.Succs[0]
			}
		}
	}
	if header == nil || len(wbBlock.Preds) != 1 {
		fail("the WriteBatch call does not sit at the exit of a range loop")
		return
	}
	for _, in := range wbBlock.Instrs {
		if in == wb.(ssa.Instruction) {
			break
		}
		if st, isSt := in.(*ssa.Store); isSt && c11Root(st.Addr) == c11Root(msgs) {
			fail("the message array is written between the fill loop and WriteBatch")
			return
		}
	}
	cmp := header.Instrs[len(header.Instrs)-1].(*ssa.If).Cond.(*ssa.BinOp)
	idx := cmp.X
	lenCall, _ := cmp.Y.(*ssa.Call)
	var ranged *ssa.Slice
	if lenCall != nil && calleeName(lenCall.Common()) == "builtin:len" {
		ranged, _ = lenCall.Common().Args[0].(*ssa.Slice)
	}
	add, isAdd := idx.(*ssa.BinOp)
	okIdx := false
	if isAdd && add.Op == token.ADD {
		if phi, isPhi := add.X.(*ssa.Phi); isPhi && phi.Block() == header {
			if k, isK := constInt(add.Y); isK && k == 1 {
				okIdx = true
				for i, ed := range phi.Edges {
					if header.Preds[i].Dominates(header) && header.Preds[i] != header {
						kk, isKK := constInt(ed)
						okIdx = okIdx && isKK && kk == -1
					} else {
						okIdx = okIdx && ed == ssa.Value(add)
					}
				}
			}
		}
	}
	if ranged == nil || ranged.Low != nil || ranged.High != count || !okIdx {
		fail("the loop before WriteBatch(msgs[:n]) does not range over pkts[:n] from 0 with the same n")
		return
	}
	// loop blocks: reachable from body without passing the header; none leaves the loop
	inLoop := map[*ssa.BasicBlock]bool{}
	work := []*ssa.BasicBlock{body}
	for len(work) > 0 {
		b := work[len(work)-1]
		work = work[:len(work)-1]
		if inLoop[b] || b == header {
			continue
		}
		inLoop[b] = true
		work = append(work, b.Succs...)
	}
	for b := range inLoop {
		for _, s := range b.Succs {
			if s != header && !inLoop[s] {
				fail("the fill loop can be left before the end of the batch")
				return
			}
		}
	}
	// the element
	var elem ssa.Value
	for _, in := range body.Instrs {
		if u, isU := in.(*ssa.UnOp); isU && u.Op == token.MUL {
			if ia, isIA := u.X.(*ssa.IndexAddr); isIA && ia.X == ssa.Value(ranged) && ia.Index == idx {
				elem = u
			}
		}
	}
	if elem == nil {
		fail("the fill loop does not read pkts[i]")
		return
	}
	fromElem := func(x ssa.Value, field string) bool {
		for i := 0; i < 4; i++ {
			switch y := x.(type) {
			case *ssa.MakeInterface:
				x = y.X
				continue
			case *ssa.Convert:
				x = y.X
				continue
			case *ssa.ChangeType:
				x = y.X
				continue
			}
			break
		}
		a := load(x)
		fa, isFA := a.(*ssa.FieldAddr)
		return isFA && fa.X == elem && fieldName(fa.X.Type(), fa.Field) == field
	}
	bufOK, addrNil := false, false
	var bad []string
	for b := range inLoop {
		for _, in := range b.Instrs {
			st, isSt := in.(*ssa.Store)
			if !isSt || c11Root(st.Addr) != c11Root(msgs) {
				continue
			}
			// msgs[i].Buffers[0] = elem.RawPacket
			if ia, isIA := st.Addr.(*ssa.IndexAddr); isIA {
				k, isK := constInt(ia.Index)
				base, i2, f := msgField(load(ia.X))
				if isK && k == 0 && base == msgs && i2 == idx && f == "Buffers" && fromElem(st.Val, "RawPacket") {
					bufOK = bufOK || b == body
					continue
				}
			}
			base, i2, f := msgField(st.Addr)
			if base == msgs && i2 == idx && f == "Addr" {
				if k, isK := st.Val.(*ssa.Const); isK && k.IsNil() {
					addrNil = addrNil || b == body
					continue
				}
				if fromElem(st.Val, "RemoteAddr") {
					continue
				}
			}
			bad = append(bad, c.Prog.Pos(st.Pos()))
		}
	}
	switch {
	case len(bad) > 0:
		c.Fail(rule, construct, wb.Pos(), fmt.Sprintf("the fill loop writes a message from something other than the packet at the same index (%v)", bad))
	case !bufOK || !addrNil:
		c.Fail(rule, construct, wb.Pos(), fmt.Sprintf("not every message is rebuilt on every round: buffer store in the loop body %v, address reset in the loop body %v", bufOK, addrNil))
	default:
		c.OK(rule, construct, wb.Pos(), "before WriteBatch(msgs[:n]) a complete loop over pkts[:n] rebuilds msgs[i].Buffers[0] from pkts[i].RawPacket and msgs[i].Addr from nil / pkts[i].RemoteAddr")
	}
}

// c11Root: the array or slice an address points into (loads, fields, elements and re-slices stripped).
func c11Root(v ssa.Value) ssa.Value {
	for {
		v = rootOf(v)
		switch x := v.(type) {
		case *ssa.IndexAddr:
			v = x.X
		case *ssa.Slice:
			v = x.X
		default:
			return v
		}
	}
}
