package main

import (
	"fmt"
	"strings"

	"golang.org/x/tools/go/ssa"
)

func init() {
	register(&PropRule{
		ID:    "C41",
		Roots: []string{"./gateway/dataplane"},
		Explain: "Decides one necessary condition of 'every packet the receiver emits is byte-identical to one that was " +
			"sent' under loss, duplication and reordering: fragments are only ever stitched from frames with " +
			"CONSECUTIVE sequence numbers, and only complete reassemblies are emitted. (L1) reassemblyList.Insert " +
			"appends a frame to a non-empty list (PushBack + tryReassemble) only behind: not older than the " +
			"first entry, not inside [first,last] (duplicate), not beyond last+1 (gap), list not full; the three " +
			"discard paths release the frame, and gap / full list drop everything collected so far " +
			"(removeAll) before restarting with this frame through insertFirst, which keeps the frame only if " +
			"it starts a fragment. (L2) tryReassemble calls collectAndWrite only when the byte count of the " +
			"collected frames reaches the announced packet length, and gives up on a frame that has its own " +
			"packet start before that; collectAndWrite sends the buffer only when its length equals the " +
			"announced packet length. Encoder side: (N1) a typestate of encoder.pkt explored path-sensitively " +
			"over encoder.Read and across calls (what a return leaves in e.pkt is the initial state of the next " +
			"call): the first bytes of a packet fetched from the ring are copied into a frame only after the " +
			"frame's index field was written in that call with position-minus-header, and only after the packet " +
			"passed the complete IPv4 (len>=20, total length == len) or IPv6 (len>=40, 40+payload == len) " +
			"validation ('invalid packets are never encapsulated'); the infeasible path 'invalid packet, " +
			"continue, frame full' is excluded by a checked loop invariant (the position changes only by what " +
			"copyToFrame returns). (N2) copyToFrame moves min(room, rest) bytes from the front of e.pkt to the " +
			"old end of e.frame, drops them from e.pkt and returns their count. Frame format agreement: (H1) " +
			"worker.processFrame reads index / stream / sequence number at the positions, with the widths and " +
			"the stream mask encoder.Read writes them with; (H2) frameBuf.ProcessCompletePkts starts at index + " +
			"header size, takes each packet's length from the same IP header fields the encoder validated, " +
			"emits exactly frame[offset:offset+length] only when the frame holds that much, and advances by " +
			"that length. NOT decided: the byte ranges collected from continuation frames in " +
			"reassemblyList.collectAndWrite, and therefore not the equality of the two streams as a whole.",
		Run: runC41,
	})
	setClaim("C41", claim{
		Text: "Frames join a reassembly only with sequence number last+1; discard paths release and reset; a " +
			"reassembled packet is emitted only with the announced length; the encoder starts a packet in a frame " +
			"only behind an index write and a complete IP validation.",
		Note: claimNote, Technique: "static analysis: guard dominance on the append / emit sites, call pairing on the discard paths, " +
			"path-sensitive typestate (predicate tracking) of encoder.pkt across Read calls",
		Ref: "DESIGN.md §0.5 C41"})
	addMutants(
		Mutant{Prop: "C41", Name: "receiver-reads-index-at-wrong-position", File: "gateway/dataplane/worker.go",
			Old: `	index := int(binary.BigEndian.Uint16(frame.raw[2:4]))`, New: `	index := int(binary.BigEndian.Uint16(frame.raw[1:3]))`, Expect: "H1-frame-header-agreement"},
		Mutant{Prop: "C41", Name: "stream-mask-differs", File: "gateway/dataplane/worker.go",
			Old: `	epoch := int(binary.BigEndian.Uint32(frame.raw[4:8]) & 0xfffff)`, New: `	epoch := int(binary.BigEndian.Uint32(frame.raw[4:8]) & 0xffff)`, Expect: "H1-frame-header-agreement"},
		Mutant{Prop: "C41", Name: "ipv6-length-without-header", File: "gateway/dataplane/framebuf.go",
			Old: `			pktLen += 40`, New: `			pktLen += 20`, Expect: "H2-packet-walk"},
		Mutant{Prop: "C41", Name: "packet-emitted-when-truncated", File: "gateway/dataplane/framebuf.go",
			Old: `		if len(rawPkt) < pktLen {
			break
		}`, New: `		if len(rawPkt) < pktLen {
			pktLen = len(rawPkt)
		}`, Expect: "H2-packet-walk"},
	)
	ef := "gateway/dataplane/encoder.go"
	addMutants(
		Mutant{Prop: "C41", Name: "whole-packet-deferred-to-next-frame", File: ef,
			Old: `		// Set the first packet index in the frame header if appropriate.`,
			New: `		if pos > hdrLen && cap(e.frame)-pos < len(e.pkt) {
			return e.frame[:pos]
		}
		// Set the first packet index in the frame header if appropriate.`, Expect: "N1-encoder-typestate"},
		Mutant{Prop: "C41", Name: "ipv6-length-not-checked", File: ef,
			Old: `			if length != len(e.pkt) {
				continue
			}
		default:`, New: `			_ = length
		default:`, Expect: "N1-encoder-typestate"},
		Mutant{Prop: "C41", Name: "ipv4-short-header-accepted", File: ef,
			Old: `			if len(e.pkt) < 20 {`, New: `			if len(e.pkt) < 4 {`, Expect: "N1-encoder-typestate"},
		Mutant{Prop: "C41", Name: "index-only-on-later-packets", File: ef,
			Old: `		if !indexSet {`, New: `		if indexSet {`, Expect: "N1-encoder-typestate"},
		Mutant{Prop: "C41", Name: "other-ip-versions-encapsulated", File: ef,
			Old: `		default:
			continue
		}
		// Set the first`, New: `		default:
		}
		// Set the first`, Expect: "N1-encoder-typestate"},
		Mutant{Prop: "C41", Name: "index-is-absolute-position", File: ef,
			Old: `uint16(pos-hdrLen))`, New: `uint16(pos))`, Expect: "N1-encoder-typestate"},
		Mutant{Prop: "C41", Name: "chunk-is-max", File: ef,
			Old: `	if len(e.pkt) < toCopy {`, New: `	if len(e.pkt) > toCopy {`, Expect: "N2-copy-chunk"},
		Mutant{Prop: "C41", Name: "packet-rest-not-advanced", File: ef,
			Old: `	e.pkt = e.pkt[toCopy:]`, New: `	e.pkt = e.pkt[len(e.pkt):]`, Expect: "N2-copy-chunk"},
	)
	rf := "gateway/dataplane/rlist.go"
	addMutants(
		Mutant{Prop: "C41", Name: "gap-tolerated", File: rf,
			Old: `	if frame.seqNr > lastFrame.seqNr+1 {`, New: `	if frame.seqNr > lastFrame.seqNr+2 {`, Expect: "L1-consecutive-frames"},
		Mutant{Prop: "C41", Name: "duplicate-appended", File: rf,
			Old: `	if frame.seqNr >= firstFrame.seqNr && frame.seqNr <= lastFrame.seqNr {`,
			New: `	if frame.seqNr >= firstFrame.seqNr && frame.seqNr < lastFrame.seqNr {`, Expect: "L1-consecutive-frames"},
		Mutant{Prop: "C41", Name: "gap-keeps-old-fragments", File: rf,
			Old: `		increaseCounterMetric(l.evicted, float64(l.entries.Len()))
		l.removeAll()
		l.insertFirst(ctx, frame)
		return
	}
	// Check if we have capacity.`, New: `		increaseCounterMetric(l.evicted, float64(l.entries.Len()))
		l.insertFirst(ctx, frame)
		return
	}
	// Check if we have capacity.`, Expect: "L1-consecutive-frames"},
		Mutant{Prop: "C41", Name: "short-reassembly-emitted", File: rf,
			Old: `	if l.buf.Len() != pktLen {`, New: `	if l.buf.Len() > pktLen {`, Expect: "L2-complete-only"},
		Mutant{Prop: "C41", Name: "reassemble-before-enough-bytes", File: rf,
			Old: `		if bytes >= startFrame.pktLen {`, New: `		if bytes+sigHdrSize >= startFrame.pktLen {`, Expect: "L2-complete-only"},
	)
}

func runC41(c *Ctx) {
	c41SequenceNumberOwner(c)
	c41Encoder(c)
	c41Receiver(c)
	lT := "(*gateway/dataplane.reassemblyList)"
	if v := c.View(lT + ".Insert"); v != nil {
		rule := "L1-consecutive-frames"
		e := NewE1(c, v.Fn)
		first := "invoke:*.(*gateway/dataplane.frameBuf)*"
		_ = first
		var push, reasm, removeAll, insertFirst, release []ssa.Instruction
		for _, b := range v.Fn.Blocks {
			for _, in := range b.Instrs {
				ci, ok := in.(ssa.CallInstruction)
				if !ok {
					continue
				}
				switch calleeName(ci.Common()) {
				case "(*container/list.List).PushBack":
					push = append(push, in)
				case lT + ".tryReassemble":
					reasm = append(reasm, in)
				case lT + ".removeAll":
					removeAll = append(removeAll, in)
				case lT + ".insertFirst":
					insertFirst = append(insertFirst, in)
				case "(*gateway/dataplane.frameBuf).Release":
					release = append(release, in)
				}
			}
		}
		c.Check(len(push) == 1 && len(reasm) == 1 && len(removeAll) == 2 && len(insertFirst) == 3 && len(release) == 2, rule,
			v.Name()+":shape", v.Fn.Pos(), fmt.Sprintf("%d PushBack, %d tryReassemble, %d removeAll, %d insertFirst, %d Release",
				len(push), len(reasm), len(removeAll), len(insertFirst), len(release)))
		seq := "arg1.seqNr"
		fr := "*.(*gateway/dataplane.frameBuf).seqNr"
		notOld := e.AtomGuard("not older than first", "-lt("+seq+", "+fr+")")
		notDup := Or("not inside [first,last]", e.AtomGuard("before first", "+lt("+seq+", "+fr+")"), e.AtomGuard("after last", "+lt("+fr+", "+seq+")"))
		noGap := e.AtomGuard("not beyond last+1", "-lt(("+fr+" + 1), "+seq+")")
		notFull := e.AtomGuard("list not full", "-eq(*.Len(*), recv.capacity)", "-eq(recv.capacity, *.Len(*))")
		notEmpty := e.AtomGuard("list not empty", "-eq((*container/list.List).Len(recv.entries), 0)")
		e.Require(rule, "append", nil, append(push, reasm...), notEmpty, notOld, notDup, noGap, notFull)
		// frame appended is the inserted one
		okArg := true
		for _, in := range push {
			a := in.(ssa.CallInstruction).Common().Args
			mi, isMI := a[1].(*ssa.MakeInterface)
			okArg = okArg && isMI && v.S.Sym(mi.X) == "arg1"
		}
		c.Check(okArg, rule, v.Name()+":appended-frame", v.Fn.Pos(), "the frame appended is the one handed to Insert")
		// restart paths: removeAll before insertFirst whenever the list was not empty
		okRestart := true
		for _, in := range insertFirst {
			lits := dominatingLits(in.Block())
			empty := false
			for _, l := range lits {
				if l.Kind == "eq" && l.Pos && strings.Contains(l.String(v.S), "List).Len(recv.entries), 0)") {
					empty = true
				}
			}
			if empty {
				continue
			}
			cleared := false
			for _, ra := range removeAll {
				if instrDominates(ra, in) {
					cleared = true
				}
			}
			if !cleared {
				okRestart = false
				c.Fail(rule, v.Name()+":restart-clears-list", in.Pos(), "insertFirst on a non-empty list without removeAll: old fragments would be joined with a non-consecutive frame")
			}
		}
		if okRestart {
			c.OK(rule, v.Name()+":restart-clears-list", v.Fn.Pos(), "gap and full-list restarts drop the collected frames first")
		}
		// too old / duplicate: released, never appended
		e.Require(rule, "discarded-frames-released", nil, release,
			Or("too old or duplicate", e.AtomGuard("older", "+lt("+seq+", "+fr+")"), e.AtomGuard("inside", "-lt("+fr+", "+seq+")")))
	}
	if v := c.View(lT + ".insertFirst"); v != nil {
		rule := "L1-consecutive-frames"
		e := NewE1(c, v.Fn)
		var push []ssa.Instruction
		for _, ci := range v.Calls("(*container/list.List).PushBack") {
			push = append(push, ci.In)
		}
		c.Min("insertFirst:PushBack", len(push), 1)
		e.Require(rule, "kept-only-with-open-fragment", nil, push, e.AtomGuard("frame starts a fragment", "-eq(arg1.frag0Start, 0)"))
		v.RequireCallArgs(rule, 1, "(*gateway/dataplane.frameBuf).ProcessCompletePkts", "arg1", "arg0")
	}
	if v := c.View(lT + ".tryReassemble"); v != nil {
		rule := "L2-complete-only"
		e := NewE1(c, v.Fn)
		calls := e.CallSites(lT + ".collectAndWrite")
		c.Min("tryReassemble:collectAndWrite", len(calls), 1)
		// canReassemble is a phi of constants: true only from the block guarded by bytes >= pktLen
		var can *ssa.Phi
		for _, in := range calls {
			for _, l := range dominatingLits(in.Block()) {
				if phi, ok := l.X.(*ssa.Phi); ok && l.Kind == "true" && l.Pos {
					can = phi
				}
			}
		}
		ok := can != nil
		if ok {
			for i, ed := range can.Edges {
				b, isK := constBool(ed)
				if !isK {
					ok = false
					continue
				}
				if !b {
					continue
				}
				pred := can.Block().Preds[i]
				enough := false
				for _, l := range append(dominatingLits(pred), litsOnEdge(pred, can.Block())...) {
					s := l.String(v.S)
					if l.Kind == "lt" && !l.Pos && strings.HasSuffix(s, ".pktLen)") && strings.Contains(s, "frameLen") {
						// the compared value is the running byte count itself (the value
						// carried around the loop), not a corrected one
						carried := false
						if refs := l.X.Referrers(); refs != nil {
							for _, r := range *refs {
								if phi, isPhi := r.(*ssa.Phi); isPhi && cyclic(phi.Block()) {
									carried = true
								}
							}
						}
						enough = enough || carried
					}
				}
				ok = ok && enough
			}
		}
		c.Check(ok, rule, v.Name()+":enough-bytes", v.Fn.Pos(), "collectAndWrite only after the collected byte count reached the announced packet length")
		e.Require(rule, "at-least-two-frames", nil, calls, e.AtomGuard("len>=2", "-lt((*container/list.List).Len(recv.entries), 2)"),
			e.AtomGuard("first frame starts a fragment", "-eq(*.frag0Start, 0)"))
	}
	if v := c.View(lT + ".collectAndWrite"); v != nil {
		rule := "L2-complete-only"
		e := NewE1(c, v.Fn)
		var sends []ssa.Instruction
		for _, b := range v.Fn.Blocks {
			for _, in := range b.Instrs {
				if ci, ok := in.(ssa.CallInstruction); ok && ci.Common().IsInvoke() && ci.Common().Method.Name() == "send" {
					sends = append(sends, in)
				}
			}
		}
		c.Min("collectAndWrite:send", len(sends), 1)
		e.Require(rule, "emit", nil, sends, e.AtomGuard("length equals announced length", "+eq((*bytes.Buffer).Len(recv.buf), *.pktLen)", "+eq(*.pktLen, (*bytes.Buffer).Len(recv.buf))"))
		okArg := true
		for _, in := range sends {
			okArg = okArg && v.S.Sym(in.(ssa.CallInstruction).Common().Args[0]) == "(*bytes.Buffer).Bytes(recv.buf)"
		}
		c.Check(okArg, rule, v.Name()+":emits-the-buffer", v.Fn.Pos(), "what is sent is the reassembly buffer")
		v.RequireCallArgs(rule, 1, "(*bytes.Buffer).Reset", "recv.buf")
	}
}
