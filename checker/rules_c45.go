package main

import (
	"fmt"
	"go/constant"

	"golang.org/x/tools/go/ssa"
)

func init() {
	register(&PropRule{
		ID:    "C45",
		Roots: []string{"./pkg/experimental/hiddenpath", "./private/storage/path/sqlite"},
		Explain: "Decides on all CFG paths: RegistryServer.Register reaches DB.Put only if the group " +
			"exists, the sender's ISD-AS is a writer of it, the local ISD-AS is a registry of it, every " +
			"segment is a down segment (a non-down segment ends the registration) and the segments " +
			"verified for that peer; what is stored is the verified segment list under the requested " +
			"group id; AuthoritativeServer.Segments reaches DB.Get only with a non-empty group list in " +
			"which every group exists, is readable by the peer and has the local AS as registry (a " +
			"failing group ends the request); canRead is exactly owner ∨ registry ∨ writer ∨ reader " +
			"(16-cell table); the store is queried with the request's destination and group ids and " +
			"written with the registration's group id; in the SQL query builder every OR-joined group " +
			"of terms is wrapped in parentheses before being AND-joined (operator precedence). NOT " +
			"decided: SQL semantics beyond that precedence rule, segment verification (C24).",
		Run: runC45,
	})
	setClaim("C45", claim{
		Text: "Guard dominance / fail-stop of membership and type checks over the store sinks, " +
			"exhaustive table of canRead, argument pairing to the store, structural precedence rule " +
			"on the SQL builder (OR groups parenthesised).",
		Note: claimNote, Technique: "static analysis: guard dominance, fail-stop, decision table, " +
			"value-flow of constant format strings", Ref: "DESIGN.md §4 C45"})
	addMutants(
		Mutant{Prop: "C45", Name: "writer-check-removed", File: "pkg/experimental/hiddenpath/registry.go",
			Old: `	if _, ok := group.Writers[reg.Peer.IA]; !ok {
		return serrors.New("sender not writer in group")
	}
`, New: "", Expect: "G1-register"},
		Mutant{Prop: "C45", Name: "only-first-group-checked", File: "pkg/experimental/hiddenpath/authoritative.go",
			Old: `		if !canRead(req.Peer, group) {
			return nil, serrors.New("not allowed to read group", "group_id", id)
		}`, New: `		if !canRead(req.Peer, group) && id == req.GroupIDs[0] {
			return nil, serrors.New("not allowed to read group", "group_id", id)
		}`, Expect: "G2-segments"},
		Mutant{Prop: "C45", Name: "canread-drops-reader-needs-writer", File: "pkg/experimental/hiddenpath/authoritative.go",
			Old: `	return owner || registry || writer || reader`, New: `	return owner || registry || (writer && reader)`,
			Expect: "T1-can-read"},
		Mutant{Prop: "C45", Name: "or-group-unparenthesised", File: "private/storage/path/sqlite/sqlite.go",
			Old: `			subQ = append(subQ, "(h.GroupID=?)")
			args = append(args, int64(hpGroupID))
		}
		where = append(where, fmt.Sprintf("(%s)", strings.Join(subQ, " OR ")))`,
			New: `			subQ = append(subQ, "(h.GroupID=?)")
			args = append(args, int64(hpGroupID))
		}
		where = append(where, strings.Join(subQ, " OR "))`, Expect: "Q1-or-groups-parenthesised"},
		Mutant{Prop: "C45", Name: "up-segments-accepted", File: "pkg/experimental/hiddenpath/registry.go",
			Old: `		if s.Type != seg.TypeDown {`, New: `		if s.Type != seg.TypeDown && s.Type != seg.TypeUp {`,
			Expect: "G1-register"},
		Mutant{Prop: "C45", Name: "store-get-ignores-destination", File: "pkg/experimental/hiddenpath/store.go",
			Old: `		EndsAt:     []addr.IA{ia},
		HPGroupIDs: convert(groups),`, New: `		HPGroupIDs: convert(groups),`, Expect: "P1-store-arguments"},
	)
}

func runC45(c *Ctx) {
	queryFragmentBinding(c, "Q3-fragment-binding")
	requireStateless(c, "M1-no-state-between-requests",
		"(pkg/experimental/hiddenpath.AuthoritativeServer).Segments", "(pkg/experimental/hiddenpath.ForwardServer).Segments",
		"(pkg/experimental/hiddenpath.RegistryServer).Register")
	hp := "pkg/experimental/hiddenpath."
	if v := c.View("(" + hp + "RegistryServer).Register"); v != nil {
		e := NewE1(c, v.Fn)
		puts := e.CallSites("invoke:" + hp + "Store.Put")
		c.Min("Register:DB.Put", len(puts), 1)
		g := "recv.Groups[arg1.GroupID]"
		e.Require("G1-register", "DB.Put", nil, puts,
			e.AtomGuard("group-exists", "+ok("+g+")"),
			e.AtomGuard("peer-is-writer", "+ok("+g+"#0.Writers[arg1.Peer.IA])"),
			e.AtomGuard("local-is-registry", "+ok("+g+"#0.Registries[recv.LocalIA])"),
			e.AtomGuard("segments-verify", "+eq(invoke:"+hp+"Verifier.Verify(recv.Verifier; arg0, arg1.Segments, arg1.Peer), nil)"))
		down := c.Const("pkg/segment.TypeDown")
		e.FailStopTo("G1-register", "every-segment-is-down", puts,
			e.AtomGuard("type-down", "+eq(arg1.Segments[*].Type, "+down+")"))
		v.RequireCallArgs("G1-register", 1, "invoke:"+hp+"Store.Put", "recv.DB", "arg0", "arg1.Segments", "arg1.GroupID")
		e.Require("G1-register", "success-returns", nil, e.SuccessReturns(),
			e.CallGuard(PassErrNil, "invoke:"+hp+"Store.Put"))
	}
	if v := c.View("(" + hp + "AuthoritativeServer).Segments"); v != nil {
		e := NewE1(c, v.Fn)
		gets := e.CallSites("invoke:" + hp + "Store.Get")
		c.Min("Segments:DB.Get", len(gets), 1)
		g := "recv.Groups[arg1.GroupIDs[*]]"
		e.Require("G2-segments", "DB.Get", nil, gets,
			e.AtomGuard("group-list-non-empty", "-eq(builtin:len(arg1.GroupIDs), 0)"))
		e.FailStopTo("G2-segments", "every-group-exists", gets, e.AtomGuard("exists", "+ok("+g+")"))
		e.FailStopTo("G2-segments", "every-group-readable", gets,
			e.AtomGuard("canRead", "+true("+hp+"canRead(arg1.Peer, "+g+"#0))"))
		e.FailStopTo("G2-segments", "every-group-authoritative", gets,
			e.AtomGuard("isAuthoritative", "+true("+hp+"isAuthoritative(recv.LocalIA, "+g+"#0))"))
		v.RequireCallArgs("G2-segments", 1, "invoke:"+hp+"Store.Get", "recv.DB", "arg0", "arg1.DstIA", "arg1.GroupIDs")
		ok := true
		for _, r := range e.SuccessReturns() {
			if !wild("invoke:"+hp+"Store.Get(*)#0", v.S.Sym(RetVal(r.(*ssa.Return), 0))) {
				ok = false
			}
		}
		c.Check(ok, "G2-segments", v.Name()+":returns-store-result", v.Fn.Pos(), "returns exactly what the store returned")
	}
	if fn := c.Fn(hp + "canRead"); fn != nil {
		RunTable(c, &TableSpec{Rule: "T1-can-read", Fn: fn, NoInline: append([]string{"(pkg/addr.IA).Equal"}, noInlineDefault...),
			Atoms: []Atom{
				{Name: "owner", Pats: []string{"(pkg/addr.IA).Equal(arg1.Owner, arg0)", "(pkg/addr.IA).Equal(arg0, arg1.Owner)"}, Domain: boolDom()},
				{Name: "registry", Pats: []string{"arg1.Registries[arg0]#1"}, Domain: boolDom()},
				{Name: "writer", Pats: []string{"arg1.Writers[arg0]#1"}, Domain: boolDom()},
				{Name: "reader", Pats: []string{"arg1.Readers[arg0]#1"}, Domain: boolDom()},
			},
			Oracle: func(a map[string]string) map[string]string {
				r := a["owner"] == "true" || a["registry"] == "true" || a["writer"] == "true" || a["reader"] == "true"
				return map[string]string{"ret": boolStr(r)}
			}})
	}
	if fn := c.Fn(hp + "isAuthoritative"); fn != nil {
		RunTable(c, &TableSpec{Rule: "T1-can-read", Fn: fn, NoInline: noInlineDefault,
			Atoms: []Atom{{Name: "registry", Pats: []string{"arg1.Registries[arg0]#1"}, Domain: boolDom()}},
			Oracle: func(a map[string]string) map[string]string { return map[string]string{"ret": a["registry"]} }})
	}
	if v := c.View("(*" + hp + "Storer).Get"); v != nil {
		v.RequireStore("P1-store-arguments", 1, "local:slicelit[0]", "arg1")
		v.RequireStore("P1-store-arguments", 1, "local:complit.EndsAt", "local:slicelit[:]")
		v.RequireStore("P1-store-arguments", 1, "local:complit.HPGroupIDs", hp+"convert(arg2)")
		v.RequireCallArgs("P1-store-arguments", 1, "invoke:private/pathdb.DB.Get", "recv.DB", "arg0", "local:complit")
	}
	if v := c.View("(*" + hp + "Storer).Put"); v != nil {
		v.RequireCallArgs("P1-store-arguments", 1, "invoke:private/pathdb.DB.InsertWithHPGroupIDs",
			"recv.DB", "arg0", "arg1[*]", hp+"convert(local:slicelit[:])")
		v.RequireStore("P1-store-arguments", 1, "local:slicelit[0]", "arg2")
		e := NewE1(c, v.Fn)
		_ = e
	}
	if v := c.View(hp + "convert"); v != nil {
		v.RequireCallArgs("P1-store-arguments", 1, "("+hp+"GroupID).ToUint64", "arg0[*]")
	}
	// SQL builder precedence
	if v := c.View("(*private/storage/path/sqlite.executor).buildQuery"); v != nil {
		n := 0
		for _, ci := range v.Calls("strings.Join") {
			sep, ok := ci.In.Common().Args[1].(*ssa.Const)
			if !ok || sep.Value == nil || sep.Value.Kind() != constant.String || constant.StringVal(sep.Value) != " OR " {
				continue
			}
			n++
			call := ci.In.(*ssa.Call)
			okParen := joinWrappedInParens(call)
			c.Check(okParen, "Q1-or-groups-parenthesised", fmt.Sprintf("%s:or-group-%d", v.Name(), n), call.Pos(),
				"strings.Join(terms, \" OR \") must be wrapped by fmt.Sprintf(\"(%s)\", …) before it is AND-joined")
		}
		c.Min("buildQuery:or-groups", n, 5)
	}
}

// joinWrappedInParens: every use of the joined string is the sole operand of a
// fmt.Sprintf whose constant format is "(%s)".
func joinWrappedInParens(join *ssa.Call) bool {
	uses := 0
	var walk func(v ssa.Value) bool
	walk = func(v ssa.Value) bool {
		if v.Referrers() == nil {
			return false
		}
		for _, ref := range *v.Referrers() {
			switch r := ref.(type) {
			case *ssa.DebugRef:
			case *ssa.MakeInterface:
				if !walk(r) {
					return false
				}
			case *ssa.Store:
				ia, ok := r.Addr.(*ssa.IndexAddr)
				if !ok {
					return false
				}
				alloc, ok := ia.X.(*ssa.Alloc)
				if !ok {
					return false
				}
				// the varargs array must feed exactly one Sprintf("(%s)")
				found := false
				for _, ar := range *alloc.Referrers() {
					sl, isSl := ar.(*ssa.Slice)
					if !isSl {
						continue
					}
					for _, sr := range *sl.Referrers() {
						call, isCall := sr.(*ssa.Call)
						if !isCall || calleeName(call.Common()) != "fmt.Sprintf" {
							return false
						}
						f, isC := call.Common().Args[0].(*ssa.Const)
						if !isC || f.Value == nil || constant.StringVal(f.Value) != "(%s)" {
							return false
						}
						found = true
					}
				}
				if !found {
					return false
				}
				uses++
			default:
				return false
			}
		}
		return true
	}
	return walk(join) && uses > 0
}
