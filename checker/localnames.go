package main

import (
	"encoding/json"
	"fmt"
	"os"
	"path/filepath"
	"sort"
	"sync"

	"golang.org/x/tools/go/ssa"
)

// Alpha-normalisation of local variable names.
//
// Rules name local variables in their patterns ("local:scionL.DstIA"). A local
// variable's name carries no meaning, so renaming one must not change any
// verdict. localnames.json (committed, generated with -gen-localnames on the
// tree the rules were written against) records, per function, the named locals
// in order of declaration with their types. When a function of the analysed
// tree has a local whose (name, type) is not in the record, it is identified
// with the first not yet identified recorded local of the same type, and the
// symbolic rendering uses the RECORDED name. Locals whose (name, type) is
// recorded keep their identity, so on the reference tree the map is the
// identity. The table is an identity map for variables, not a frozen copy of
// the code: nothing is compared with it.

type localRefEntry struct {
	Name string `json:"n"`
	Type string `json:"t"`
}

var (
	localRef      map[string][]localRefEntry
	localRefOnce  sync.Once
	localCanonMu  sync.Mutex
	localCanon    = map[*ssa.Function]map[*ssa.Alloc]string{}
	localRenamed  = map[string]string{} // "fn: new -> recorded", for the evidence
	verifDirGuess = "/verif"
)

var genericAllocNames = map[string]bool{
	"": true, "complit": true, "slicelit": true, "arraylit": true, "maplit": true, "varargs": true,
	"makeslice": true, "new": true, "makemap": true, "makechan": true, "rangeloop": true, "typeswitch": true,
	"selectcase": true, "append": true,
}

func loadLocalRef() {
	localRefOnce.Do(func() {
		localRef = map[string][]localRefEntry{}
		b, err := os.ReadFile(filepath.Join(verifDirGuess, "checker", "localnames.json"))
		if err != nil {
			return
		}
		_ = json.Unmarshal(b, &localRef)
	})
}

// namedAllocs lists the allocs of fn in a deterministic order (block, instruction).
func namedAllocs(fn *ssa.Function) []*ssa.Alloc {
	var out []*ssa.Alloc
	seen := map[*ssa.Alloc]bool{}
	for _, b := range fn.Blocks {
		for _, in := range b.Instrs {
			if a, ok := in.(*ssa.Alloc); ok && !seen[a] {
				seen[a] = true
				out = append(out, a)
			}
		}
	}
	for _, a := range fn.Locals {
		if !seen[a] {
			seen[a] = true
			out = append(out, a)
		}
	}
	return out
}

func allocType(a *ssa.Alloc) string {
	return typeShort(a.Type())
}

// canonLocalName returns the name the symbolic rendering uses for a.
func canonLocalName(a *ssa.Alloc) string {
	fn := a.Parent()
	if fn == nil {
		return a.Comment
	}
	loadLocalRef()
	localCanonMu.Lock()
	defer localCanonMu.Unlock()
	m, ok := localCanon[fn]
	if !ok {
		m = map[*ssa.Alloc]string{}
		localCanon[fn] = m
		ref := localRef[FuncName(fn)]
		if len(ref) > 0 {
			used := make([]bool, len(ref))
			var rest []*ssa.Alloc
			for _, x := range namedAllocs(fn) {
				if genericAllocNames[x.Comment] {
					continue
				}
				hit := false
				for j, r := range ref {
					if !used[j] && r.Name == x.Comment && r.Type == allocType(x) {
						used[j], hit = true, true
						m[x] = r.Name
						break
					}
				}
				if !hit {
					rest = append(rest, x)
				}
			}
			for _, x := range rest {
				for j, r := range ref {
					if !used[j] && r.Type == allocType(x) {
						used[j] = true
						m[x] = r.Name
						localRenamed[FuncName(fn)+": "+x.Comment+" -> "+r.Name] = allocType(x)
						break
					}
				}
			}
		}
	}
	if n, ok := m[a]; ok {
		return n
	}
	return a.Comment
}

// genLocalNames writes the reference table for every function the rules can see.
func genLocalNames(verif string) int {
	set := map[string]bool{}
	for _, r := range registry {
		for _, p := range r.Roots {
			set[p] = true
		}
	}
	var roots []string
	for p := range set {
		roots = append(roots, p)
	}
	sort.Strings(roots)
	prog, err := Load(roots, nil, nil)
	if err != nil {
		fmt.Printf("load failed: %v\n", err)
		return 1
	}
	out := map[string][]localRefEntry{}
	for fn := range prog.AllFuncs() {
		if fn.Blocks == nil || !inModule(fn) {
			continue
		}
		var es []localRefEntry
		for _, a := range namedAllocs(fn) {
			if genericAllocNames[a.Comment] {
				continue
			}
			es = append(es, localRefEntry{Name: a.Comment, Type: allocType(a)})
		}
		if len(es) > 0 {
			out[FuncName(fn)] = es
		}
	}
	b, err := json.Marshal(out)
	if err != nil {
		fmt.Println(err)
		return 1
	}
	if err := os.WriteFile(filepath.Join(verif, "checker", "localnames.json"), b, 0o644); err != nil {
		fmt.Println(err)
		return 1
	}
	fmt.Printf("localnames.json: %d functions with named locals (%d bytes)\n", len(out), len(b))
	return 0
}
