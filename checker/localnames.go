package main

import (
	"encoding/json"
	"fmt"
	"go/types"
	"os"
	"path/filepath"
	"sort"
	"strings"
	"sync"

	"golang.org/x/tools/go/ssa"
)

// Name normalisation (alpha-renaming).
//
// Rules name local variables, functions and struct fields in their patterns
// ("local:scionL.DstIA", "(*router.scionPacketProcessor).verifyCurrentMAC",
// "recv.cachedMac"). A name carries no meaning, so renaming must not change a
// verdict. refnames.json (committed, generated with -gen-refnames on the tree
// the rules were written against) records
//
//	locals: per function, the named local slots in order with their types;
//	funcs:  per declared module function, its signature (types only);
//	fields: per named struct type, the field names in order with their types.
//
// On the analysed tree a local / function / field whose name is NOT in the
// record is identified with a recorded one that no longer exists, when that is
// unambiguous: same function and type for locals (in declaration order); same
// package, receiver and signature for functions (exactly one candidate on both
// sides); same struct and field type for fields (exactly one candidate on both
// sides). The symbolic rendering, function lookup and field rendering then use
// the RECORDED name. Names that are recorded keep their identity, so on the
// reference tree all maps are the identity. The table identifies names only;
// no code is compared with it, and a function that took over a recorded name
// still has to satisfy every obligation stated for that name.

type localRefEntry struct {
	Name string `json:"n"`
	Type string `json:"t"`
}

type funcRefEntry struct {
	Sig string `json:"s"`
	Ord int    `json:"o"` // declaration order (package, file, offset)
}

type refNames struct {
	Locals map[string][]localRefEntry `json:"locals"`
	Funcs  map[string]funcRefEntry    `json:"funcs"`
	Fields map[string][]localRefEntry `json:"fields"`
}

var (
	refTab        refNames
	localRefOnce  sync.Once
	localCanonMu  sync.Mutex
	localCanon    = map[*ssa.Function]map[*ssa.Alloc]string{}
	renamedNotes  = map[string]bool{} // what was identified with what, for the evidence
	verifDirGuess = "/verif"

	funcNewToOld = map[string]string{}
	funcOldToNew = map[string]string{}
	fieldCanon   = map[string]map[string]string{} // struct key -> current name -> recorded name
)

var genericAllocNames = map[string]bool{
	"": true, "complit": true, "slicelit": true, "arraylit": true, "maplit": true, "varargs": true,
	"makeslice": true, "new": true, "makemap": true, "makechan": true, "rangeloop": true, "typeswitch": true,
	"selectcase": true, "append": true,
}

func loadRefNames() {
	localRefOnce.Do(func() {
		refTab = refNames{Locals: map[string][]localRefEntry{}, Funcs: map[string]funcRefEntry{}, Fields: map[string][]localRefEntry{}}
		b, err := os.ReadFile(filepath.Join(verifDirGuess, "checker", "refnames.json"))
		if err != nil {
			return
		}
		_ = json.Unmarshal(b, &refTab)
	})
}

// namedAllocs lists the allocs of fn in a deterministic order (block, instruction).
func namedAllocs(fn *ssa.Function) []*ssa.Alloc {
	var out []*ssa.Alloc
	seen := map[*ssa.Alloc]bool{}
	for _, b := range fn.Blocks {
		for _, in := range b.Instrs {
			if a, ok := in.(*ssa.Alloc); ok && !seen[a] {
				seen[a] = true
				out = append(out, a)
			}
		}
	}
	for _, a := range fn.Locals {
		if !seen[a] {
			seen[a] = true
			out = append(out, a)
		}
	}
	return out
}

func allocType(a *ssa.Alloc) string {
	return typeShort(a.Type())
}

// canonLocalName returns the name the symbolic rendering uses for a.
func canonLocalName(a *ssa.Alloc) string {
	fn := a.Parent()
	if fn == nil {
		return a.Comment
	}
	loadRefNames()
	localCanonMu.Lock()
	defer localCanonMu.Unlock()
	m, ok := localCanon[fn]
	if !ok {
		m = map[*ssa.Alloc]string{}
		localCanon[fn] = m
		ref := refTab.Locals[FuncName(fn)]
		if len(ref) > 0 {
			used := make([]bool, len(ref))
			var rest []*ssa.Alloc
			for _, x := range namedAllocs(fn) {
				if genericAllocNames[x.Comment] {
					continue
				}
				hit := false
				for j, r := range ref {
					if !used[j] && r.Name == x.Comment && r.Type == allocType(x) {
						used[j], hit = true, true
						m[x] = r.Name
						break
					}
				}
				if !hit {
					rest = append(rest, x)
				}
			}
			for _, x := range rest {
				for j, r := range ref {
					if !used[j] && r.Type == allocType(x) {
						used[j] = true
						m[x] = r.Name
						renamedNotes["local "+FuncName(fn)+": "+x.Comment+" = "+r.Name] = true
						break
					}
				}
			}
		}
	}
	if n, ok := m[a]; ok {
		return n
	}
	return a.Comment
}

// sigKey renders a signature by its parameter and result types only.
func sigKey(sig *types.Signature) string {
	var ps, rs []string
	for i := 0; i < sig.Params().Len(); i++ {
		ps = append(ps, typeShort(sig.Params().At(i).Type()))
	}
	for i := 0; i < sig.Results().Len(); i++ {
		rs = append(rs, typeShort(sig.Results().At(i).Type()))
	}
	v := ""
	if sig.Variadic() {
		v = "..."
	}
	return "(" + strings.Join(ps, ",") + v + ")(" + strings.Join(rs, ",") + ")"
}

func rawFuncName(fn *ssa.Function) string {
	return strings.ReplaceAll(fn.String(), modPath+"/", "")
}

// funcGroup is the part of a function name that a rename cannot change here:
// package and receiver.
func funcGroup(name string) string {
	if strings.HasPrefix(name, "(") {
		if end := strings.Index(name, ")."); end >= 0 {
			return name[:end+1]
		}
	}
	if pkg, _, ok := splitQual(name); ok {
		return pkg
	}
	return name
}

func declaredModuleFuncs(prog *Program) map[string]funcRefEntry {
	out := map[string]funcRefEntry{}
	type posd struct {
		name, where string
		off        int
	}
	var all []posd
	for fn := range prog.AllFuncs() {
		if fn.Blocks == nil || fn.Parent() != nil || fn.Synthetic != "" || !inModule(fn) || fn.Signature == nil {
			continue
		}
		if len(fn.TypeArgs()) > 0 {
			continue
		}
		p := prog.Fset.Position(fn.Pos())
		all = append(all, posd{rawFuncName(fn), p.Filename, p.Offset})
		out[rawFuncName(fn)] = funcRefEntry{Sig: sigKey(fn.Signature)}
	}
	sort.Slice(all, func(i, j int) bool {
		if all[i].where != all[j].where {
			return all[i].where < all[j].where
		}
		return all[i].off < all[j].off
	})
	for i, a := range all {
		e := out[a.name]
		e.Ord = i
		out[a.name] = e
	}
	return out
}

func structTables(prog *Program) map[string][]localRefEntry {
	out := map[string][]localRefEntry{}
	for _, p := range prog.Pkgs {
		if p.Types == nil {
			continue
		}
		sc := p.Types.Scope()
		for _, n := range sc.Names() {
			tn, ok := sc.Lookup(n).(*types.TypeName)
			if !ok || tn.IsAlias() {
				continue
			}
			st, ok := tn.Type().Underlying().(*types.Struct)
			if !ok {
				continue
			}
			var es []localRefEntry
			for i := 0; i < st.NumFields(); i++ {
				es = append(es, localRefEntry{Name: st.Field(i).Name(), Type: typeShort(st.Field(i).Type())})
			}
			out[typeShort(tn.Type())] = es
		}
	}
	return out
}

// applyRefNames computes the function and field identifications for a loaded program.
func applyRefNames(prog *Program) {
	loadRefNames()
	localCanonMu.Lock()
	defer localCanonMu.Unlock()
	if len(refTab.Funcs) > 0 {
		cur := declaredModuleFuncs(prog)
		pkgLoaded := map[string]bool{}
		for name := range cur {
			pkgLoaded[funcGroup(name)] = true
		}
		newBy := map[string][]string{} // group|sig -> new names
		goneBy := map[string][]string{}
		for name, e := range cur {
			if _, ok := refTab.Funcs[name]; !ok {
				k := funcGroup(name) + "|" + e.Sig
				newBy[k] = append(newBy[k], name)
			}
		}
		for name, e := range refTab.Funcs {
			if _, ok := cur[name]; !ok && pkgLoaded[funcGroup(name)] {
				k := funcGroup(name) + "|" + e.Sig
				goneBy[k] = append(goneBy[k], name)
			}
		}
		for k, ns := range newBy {
			gs := goneBy[k]
			// as many new names as vanished ones with this receiver and signature:
			// identified in declaration order (a rename does not move the function)
			if len(ns) == len(gs) {
				sort.Slice(ns, func(i, j int) bool { return cur[ns[i]].Ord < cur[ns[j]].Ord })
				sort.Slice(gs, func(i, j int) bool { return refTab.Funcs[gs[i]].Ord < refTab.Funcs[gs[j]].Ord })
				for i := range ns {
					funcNewToOld[ns[i]] = gs[i]
					funcOldToNew[gs[i]] = ns[i]
					renamedNotes["func "+ns[i]+" = "+gs[i]] = true
				}
			}
		}
	}
	if len(refTab.Fields) > 0 {
		for key, curFields := range structTables(prog) {
			ref, ok := refTab.Fields[key]
			if !ok {
				continue
			}
			refHas, curHas := map[string]bool{}, map[string]bool{}
			for _, r := range ref {
				refHas[r.Name] = true
			}
			for _, c := range curFields {
				curHas[c.Name] = true
			}
			newBy, goneBy := map[string][]string{}, map[string][]string{}
			for _, c := range curFields {
				if !refHas[c.Name] {
					newBy[c.Type] = append(newBy[c.Type], c.Name)
				}
			}
			for _, r := range ref {
				if !curHas[r.Name] {
					goneBy[r.Type] = append(goneBy[r.Type], r.Name)
				}
			}
			for t, ns := range newBy {
				gs := goneBy[t]
				// several renamed fields of one type: identify in declaration order
				if len(ns) == len(gs) {
					for i := range ns {
						if fieldCanon[key] == nil {
							fieldCanon[key] = map[string]string{}
						}
						fieldCanon[key][ns[i]] = gs[i]
						renamedNotes["field "+key+"."+ns[i]+" = "+gs[i]] = true
					}
				}
			}
		}
	}
}

// canonFieldName maps the name of a field of the (named) struct type t.
func canonFieldName(t types.Type, name string) string {
	if len(fieldCanon) == 0 {
		return name
	}
	if p, ok := t.Underlying().(*types.Pointer); ok {
		t = p.Elem()
	}
	if m, ok := fieldCanon[typeShort(t)]; ok {
		if o, ok := m[name]; ok {
			return o
		}
	}
	return name
}

// canonFuncString maps a rendered function name (and the closures below it).
func canonFuncString(s string) string {
	if len(funcNewToOld) == 0 {
		return s
	}
	if o, ok := funcNewToOld[s]; ok {
		return o
	}
	if i := strings.Index(s, "$"); i > 0 {
		if o, ok := funcNewToOld[s[:i]]; ok {
			return o + s[i:]
		}
	}
	return s
}

func renameNotes() []string {
	var out []string
	for k := range renamedNotes {
		out = append(out, k)
	}
	sort.Strings(out)
	return out
}

// genRefNames writes the reference table for everything the rules can see.
func genRefNames(verif string) int {
	set := map[string]bool{}
	for _, r := range registry {
		for _, p := range r.Roots {
			set[p] = true
		}
	}
	var roots []string
	for p := range set {
		roots = append(roots, p)
	}
	sort.Strings(roots)
	skipRefNames = true
	prog, err := Load(roots, nil, nil)
	if err != nil {
		fmt.Printf("load failed: %v\n", err)
		return 1
	}
	out := refNames{Locals: map[string][]localRefEntry{}, Funcs: declaredModuleFuncs(prog), Fields: structTables(prog)}
	for fn := range prog.AllFuncs() {
		if fn.Blocks == nil || !inModule(fn) {
			continue
		}
		var es []localRefEntry
		for _, a := range namedAllocs(fn) {
			if genericAllocNames[a.Comment] {
				continue
			}
			es = append(es, localRefEntry{Name: a.Comment, Type: allocType(a)})
		}
		if len(es) > 0 {
			out.Locals[rawFuncName(fn)] = es
		}
	}
	b, err := json.Marshal(out)
	if err != nil {
		fmt.Println(err)
		return 1
	}
	if err := os.WriteFile(filepath.Join(verif, "checker", "refnames.json"), b, 0o644); err != nil {
		fmt.Println(err)
		return 1
	}
	fmt.Printf("refnames.json: %d functions with named locals, %d functions, %d struct types (%d bytes)\n",
		len(out.Locals), len(out.Funcs), len(out.Fields), len(b))
	return 0
}

var skipRefNames bool
