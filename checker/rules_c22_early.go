package main

import (
	"fmt"

	"golang.org/x/tools/go/ssa"
)

// C22, the SCMP answer path: prepareSCMP reverses the path as it finds it in the
// packet and, when the answer leaves through the external link the packet came
// from, XORs the current hop's MAC into the SegID "in construction direction at
// egress" - which restores the value the neighbour expects only if the ingress
// update against construction direction HAS been applied to the packet. Found as
// a side remark by the fifth-round C22 sub-agent and demonstrated
// (findings/C22-scmp-early-error-segid): on 227f4ae..b097917 the validations that
// can answer with SCMP (hop expiry, ingress interface, packet length, source and
// destination IA) ran BEFORE updateNonConsDirIngressSegID, so their answers left
// with beta[j] instead of beta[j+1] and the next AS dropped them with "invalid hop
// field MAC".
//
// Rule R4: in scionPacketProcessor.process, the call of
// updateNonConsDirIngressSegID dominates every call of a processor method that can
// request the slow path (stores a slowPathRequest, itself or through the
// same-package functions it calls).
func init() {
	addMutants(
		Mutant{Prop: "C22", Name: "ingress-segid-update-after-the-scmp-raising-validations", File: "router/dataplane.go",
			Old: `	if disp := p.updateNonConsDirIngressSegID(); disp != pForward {
		return disp
	}
	if disp := p.validateHopExpiry(); disp != pForward {
		return disp
	}`, New: `	if disp := p.validateHopExpiry(); disp != pForward {
		return disp
	}
	if disp := p.updateNonConsDirIngressSegID(); disp != pForward {
		return disp
	}`, Expect: "R4-scmp-raised-after-ingress-update"},
	)
	r := registry["C22"]
	old := r.Run
	r.Run = func(c *Ctx) { c22SCMPAfterIngressUpdate(c, "R4-scmp-raised-after-ingress-update"); old(c) }
}

func c22SCMPAfterIngressUpdate(c *Ctx, rule string) {
	v := c.View(procT + ".process")
	if v == nil {
		return
	}
	fn := v.Fn
	// functions of package router that can request the slow path
	requests := map[*ssa.Function]bool{}
	var pkgFns []*ssa.Function
	for f := range c.Prog.AllFuncs() {
		if f.Pkg == fn.Pkg && f.Blocks != nil {
			pkgFns = append(pkgFns, f)
		}
	}
	for _, f := range pkgFns {
		for _, b := range f.Blocks {
			for _, in := range b.Instrs {
				if st, ok := in.(*ssa.Store); ok {
					if fa, isFA := st.Addr.(*ssa.FieldAddr); isFA && fieldName(fa.X.Type(), fa.Field) == "slowPathRequest" {
						requests[f] = true
					}
				}
			}
		}
	}
	c.Min("slow-path-request-sites", len(requests), 8)
	for changed := true; changed; {
		changed = false
		for _, f := range pkgFns {
			if requests[f] {
				continue
			}
			for _, b := range f.Blocks {
				for _, in := range b.Instrs {
					if ci, ok := in.(ssa.CallInstruction); ok {
						if cal := ci.Common().StaticCallee(); cal != nil && requests[cal] && cal != fn {
							requests[f] = true
							changed = true
						}
					}
				}
			}
		}
	}
	var upd ssa.Instruction
	var raising []ssa.CallInstruction
	for _, b := range fn.Blocks {
		for _, in := range b.Instrs {
			ci, ok := in.(ssa.CallInstruction)
			if !ok {
				continue
			}
			cal := ci.Common().StaticCallee()
			switch {
			case cal == nil:
			case FuncName(cal) == procT+".updateNonConsDirIngressSegID":
				if upd == nil {
					upd = in
				}
			case requests[cal]:
				raising = append(raising, ci)
			}
		}
	}
	if upd == nil {
		c.Fail(rule, v.Name()+":ingress-update-call", fn.Pos(), "process does not call updateNonConsDirIngressSegID")
		return
	}
	c.Min("scmp-raising-calls-in-process", len(raising), 6)
	for _, ci := range raising {
		name := FuncName(ci.Common().StaticCallee())
		c.Check(instrDominates(upd, ci), rule, v.Name()+":after-ingress-update:"+name, ci.Pos(), fmt.Sprintf(
			"%s can answer with SCMP; the ingress SegID update has run before it on every path", name))
	}
}
