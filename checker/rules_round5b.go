package main

import (
	"fmt"
	"strings"

	"golang.org/x/tools/go/ssa"
)

// Rules from the second batch of the fifth seed round.

func init() {
	addMutants(
		Mutant{Prop: "C12", Name: "one-mac-instance-for-all-users", File: "router/dataplane.go",
			Old: `	d.macFactory = func() hash.Hash {
		mac, _ := scrypto.InitMac(key)
		return mac
	}`, New: `	shared, _ := scrypto.InitMac(key)
	d.macFactory = func() hash.Hash {
		return shared
	}`, Expect: "K1-configured-key-is-the-mac-key"},
		Mutant{Prop: "C37", Name: "zero-grace-period-means-trc-validity", File: "pkg/scrypto/cppki/trc.go",
			Old: `	return trc.Validity.NotBefore.Add(trc.GracePeriod)
}`, New: `	if trc.GracePeriod <= 0 {
		return trc.Validity.NotAfter
	}
	return trc.Validity.NotBefore.Add(trc.GracePeriod)
}`, Expect: "G4-grace-period-end"},
		Mutant{Prop: "C42", Name: "dscp-compared-with-whole-tos", File: "gateway/pktcls/pred_ipv4.go",
			Old: `	return m.DSCP == p.TOS>>2`, New: `	return m.DSCP<<2 == p.TOS`, Expect: "E2-ipv4-predicate-meaning"},
		Mutant{Prop: "C20", Name: "shim-reply-checksum-not-recomputed", File: "dispatcher/dispatcher.go",
			Old: `		err = s.scmpLayer.SerializeTo(s.outBuffer, s.options)`,
			New: `		err = s.scmpLayer.SerializeTo(s.outBuffer, gopacket.SerializeOptions{FixLengths: true})`, Expect: "S2-generated-packets-compute-checksums"},
	)
}

// C37 / C36 / C34: until when the predecessor TRC may be used. For an update it is
// NotBefore + GracePeriod of the NEW TRC - whatever the grace period is: zero
// means "no grace" (immediate revocation of the old roots), not "unset".
func gracePeriodEnd(c *Ctx, rule string) {
	v := c.View("(*pkg/scrypto/cppki.TRC).GracePeriodEnd")
	if v == nil {
		return
	}
	var rets []string
	for _, b := range v.Fn.Blocks {
		if r, ok := b.Instrs[len(b.Instrs)-1].(*ssa.Return); ok {
			rets = append(rets, v.S.Sym(r.Results[0]))
		}
	}
	ok := len(rets) == 2
	nAdd := 0
	for _, r := range rets {
		switch {
		case r == "(time.Time).Add(recv.Validity.NotBefore, recv.GracePeriod)":
			nAdd++
		case strings.HasPrefix(r, "zero:") || r == "local:complit":
		default:
			ok = false
		}
	}
	reads := 0
	for _, b := range v.Fn.Blocks {
		for _, l := range blockLits(b) {
			if strings.Contains(l.String(v.S), "recv.GracePeriod") {
				reads++
			}
		}
	}
	c.Check(ok && nAdd == 1 && reads == 0, rule, v.Name()+":NotBefore+GracePeriod", v.Fn.Pos(), fmt.Sprintf(
		"returns the zero time for a base TRC and NotBefore + GracePeriod otherwise, with no condition on the grace period: %v", rets))
	if iv := c.View("(*pkg/scrypto/cppki.TRC).InGracePeriod"); iv != nil {
		iv.RequireStore(rule, 1, "local:complit.NotAfter", "(time.Time).Add(recv.Validity.NotBefore, recv.GracePeriod)")
		iv.RequireStore(rule, 1, "local:complit.NotBefore", "recv.Validity.NotBefore")
	}
}

// C42 / C43: what the IPv4 predicates mean (classes are evaluated by the routing
// table in order; a predicate that misjudges a packet sends it to the wrong
// session): tos=x is TOS == x, dscp=x is the upper six bits TOS>>2 == x - the two
// ECN bits take no part -, protocol=x is Protocol == x.
func ipv4PredicateMeaning(c *Ctx, rule string) {
	pk := "(*gateway/pktcls."
	n := 0
	for _, q := range []struct{ fn string; forms []string }{
		{pk + "IPv4MatchToS).Eval", []string{"(recv.TOS == arg0.TOS)", "(arg0.TOS == recv.TOS)"}},
		{pk + "IPv4MatchDSCP).Eval", []string{"(recv.DSCP == (arg0.TOS >> 2))", "((arg0.TOS >> 2) == recv.DSCP)"}},
		{pk + "IPv4MatchProtocol).Eval", []string{"(recv.Protocol == uint8(arg0.Protocol))", "(uint8(arg0.Protocol) == recv.Protocol)", "(arg0.Protocol == recv.Protocol)", "(recv.Protocol == arg0.Protocol)"}},
	} {
		v := c.View(q.fn)
		if v == nil {
			continue
		}
		n++
		ok, got := false, ""
		for _, b := range v.Fn.Blocks {
			if r, isR := b.Instrs[len(b.Instrs)-1].(*ssa.Return); isR {
				got = v.S.Sym(r.Results[0])
				for _, f := range q.forms {
					if got == f {
						ok = true
					}
				}
			}
		}
		c.Check(ok && len(v.Fn.Blocks) == 1, rule, v.Name()+":meaning", v.Fn.Pos(), "returns "+got+"; required "+q.forms[0])
	}
	c.Min("ipv4-predicates", n, 3)
}

// C20, packets the dispatcher shim generates (echo / traceroute replies): every
// layer is serialized with the server's options, and those compute checksums. A
// reply whose checksum is patched from the request's (never verified) checksum
// carries the request's corruption.
func shimRepliesComputeChecksums(c *Ctx, rule string) {
	n := 0
	for fn := range c.Prog.AllFuncs() {
		if fn.Blocks == nil || fn.Pkg == nil || !strings.HasSuffix(fn.Pkg.Pkg.Path(), "/dispatcher") {
			continue
		}
		v := ViewOf(c, fn)
		for _, ci := range v.Calls("(*pkg/slayers.SCMP).SerializeTo", "(*pkg/slayers.SCION).SerializeTo", "(*pkg/slayers.UDP).SerializeTo",
			"(*pkg/slayers.EndToEndExtn).SerializeTo", "invoke:github.com/gopacket/gopacket.SerializableLayer.SerializeTo") {
			n++
			opt := ci.Args[len(ci.Args)-1]
			c.Check(opt == "recv.options", rule, v.Name()+":"+ci.Callee+":options", ci.In.Pos(),
				"serialized with "+opt+"; required the server's options (ComputeChecksums)")
		}
	}
	c.Min("dispatcher-serialize-sites", n, 3)
	if v := c.View("dispatcher.NewServer"); v != nil {
		v.RequireStore(rule, 1, "local:complit.ComputeChecksums", "true")
	}
}
