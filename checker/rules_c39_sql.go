package main

// C39, the stores the key hierarchy is served from: a level-1 key fetched from
// AS A for (A, B, protocol, epoch) is cached in sqlite and every AS-host /
// host-AS / host-host key the control service hands out for source A is derived
// from the cached row. A lookup that binds a placeholder to the wrong member
// (the destination's ISD under the source's column) returns the level-1 key of a
// DIFFERENT AS under the label of the one asked for, and everything derived from
// it is wrong while looking right.
//
// Rule Q1: in the three DRKey sqlite back ends every "?" is bound to the member
// its column holds (statement text and call are both in the source; the column ->
// member table is below). INSERT and lookup must agree because both are checked
// against the same table.
func init() {
	addMutants(
		Mutant{Prop: "C39", Name: "level1-lookup-src-isd-from-dst", File: "private/storage/drkey/level1/sqlite/db.go",
			Old: `	err := e.read.QueryRowContext(ctx, getLevel1KeyStmt, meta.SrcIA.ISD(), meta.SrcIA.AS(),`,
			New: `	err := e.read.QueryRowContext(ctx, getLevel1KeyStmt, meta.DstIA.ISD(), meta.SrcIA.AS(),`,
			Expect: "Q1-sql-binding"},
	)
}

func c39SQLBinding(c *Ctx) {
	want := map[string][]string{
		"SrcIsdID":  {").ISD(", "SrcIA"},
		"SrcAsID":   {").AS(", "SrcIA"},
		"DstIsdID":  {").ISD(", "DstIA"},
		"DstAsID":   {").AS(", "DstIA"},
		"SrcHostIP": {"SrcHost"},
		"DstHostIP": {"DstHost"},
		"Protocol":  {"roto"}, // ProtoId / proto
		"Key":       {"Key"},
		// stored epoch bounds
		"INSERT:EpochBegin": {"NotBefore"},
		"INSERT:EpochEnd":   {"NotAfter"},
		// lookups: the queried point in time on both sides of "EpochBegin <= t < EpochEnd"
		"SELECT:EpochBegin": {"TimeToSecs("},
		"SELECT:EpochEnd":   {"TimeToSecs("},
		"DELETE:EpochEnd":   {"TimeToSecs("},
	}
	checkSQLBindings(c, "Q1-sql-binding", "private/storage/drkey/level1/sqlite", 3, want)
	checkSQLBindings(c, "Q1-sql-binding", "private/storage/drkey/level2/sqlite", 9, want)
	checkSQLBindings(c, "Q1-sql-binding", "private/storage/drkey/secret/sqlite", 3, want)
}
