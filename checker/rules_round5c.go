package main

import (
	"fmt"
	"strings"

	"golang.org/x/tools/go/ssa"
)

// Last rules of the fifth seed round.

func init() {
	addMutants(
		Mutant{Prop: "C33", Name: "non-canonical-isd-as-read-as-absent", File: "pkg/scrypto/cppki/certs.go",
			Old: `		if ia.String() != rawIA {
			return nil, serrors.New("ISD-AS not in canonical form", "isd_as", ia)
		}`, New: `		if ia.String() != rawIA {
			continue
		}`, Expect: "N1-isd-as-attribute"},
		Mutant{Prop: "C47", Name: "fingerprint-drops-the-isd", File: "pkg/snet/path.go",
			Old: `		if err := binary.Write(h, binary.BigEndian, intf.IA); err != nil {`,
			New: `		if err := binary.Write(h, binary.BigEndian, intf.IA.AS()); err != nil {`, Expect: "O2-fingerprint-is-injective"},
		Mutant{Prop: "C24", Name: "chain-query-validity-in-local-time", File: "private/storage/trust/sqlite/db.go",
			Old: `query.Validity.NotBefore.UTC()`, New: `query.Validity.NotBefore`, Expect: "Q2-chain-query-in-utc"},
	)
}

// Registration without touching the older rule files: wrap the property's Run and
// add the roots the new rule needs (this file sorts after rules_c*.go, so the
// registry is filled when this init runs).
func init() {
	extend := func(id string, roots []string, f func(*Ctx)) {
		r := registry[id]
		if r == nil {
			panic("round5c: property not registered: " + id)
		}
		old := r.Run
		r.Run = func(c *Ctx) { f(c); old(c) }
		for _, nr := range roots {
			have := false
			for _, x := range r.Roots {
				have = have || x == nr
			}
			if !have {
				r.Roots = append(r.Roots, nr)
			}
		}
	}
	// C16 "always recovers": the router's bfd.Sender (bfdSend.Send) takes its packets from the
	// fixed-size pool; a send that does not return its buffer on every path starves the pool and
	// the session blocks forever in PacketPool.Get (C14's single-owner typestate, borrowed)
	extend("C16", registry["C14"].Roots, func(c *Ctx) {
		c.Borrow(runC14, map[string]string{"O1-single-owner": "P1-sender-returns-its-buffers"})
	})
	extend("C33", nil, func(c *Ctx) { c33ISDASAttribute(c, "N1-isd-as-attribute") })
	extend("C47", []string{"./pkg/snet"}, func(c *Ctx) { c47FingerprintInjective(c, "O2-fingerprint-is-injective") })
	extend("C24", []string{"./private/storage/trust/sqlite"}, func(c *Ctx) { c24ChainQueryInUTC(c, "Q2-chain-query-in-utc") })
}

// C33 (and C32/C35 through Validate): findIA reads the ISD-AS attribute of a
// distinguished name. "No ISD-AS" (nil, nil) is a legal answer - voting
// certificates need not carry one - and both callers treat it as "nothing to
// compare". An attribute that IS there but is malformed, wildcard or not in
// canonical form must therefore be an error, never "absent".
func c33ISDASAttribute(c *Ctx, rule string) {
	v := c.View("pkg/scrypto/cppki.findIA")
	if v == nil {
		return
	}
	e := NewE1(c, v.Fn)
	lit := func(name string, pats ...string) Guard {
		return Guard{Name: name, Match: func(l Lit) bool {
			s := l.String(v.S)
			for _, p := range pats {
				if wild(p, s) {
					return true
				}
			}
			return false
		}}
	}
	// once the attribute was found, the only successful way out is through all four checks
	var found []ssa.Instruction
	for _, ci := range v.Calls("pkg/addr.ParseIA") {
		found = append(found, ci.In.(ssa.Instruction))
	}
	c.Min("findIA:ParseIA", len(found), 1)
	var succ []ssa.Instruction
	succ = append(succ, e.SuccessReturns()...)
	// the loop header counts as "moved on to the next attribute"
	for _, b := range v.Fn.Blocks {
		for _, s := range b.Succs {
			if s.Dominates(b) && len(s.Instrs) > 0 {
				succ = append(succ, s.Instrs[0])
			}
		}
	}
	for _, st := range found {
		e.Require(rule, "attribute-present-is-checked", st, succ,
			lit("parses", "+eq(pkg/addr.ParseIA(*)#1, nil)"),
			lit("not a wildcard", "-true((pkg/addr.IA).IsWildcard(*))"),
			lit("canonical form", "+eq((pkg/addr.IA).String(*), *)", "+eq(*, (pkg/addr.IA).String(*))"))
	}
	// and the type assertion to string fails closed
	e.FailStop(rule, "non-string-value-rejected", 1, lit("value is a string", "+ok(*)", "+true(*.(string)#1)"))
}

// C47: Policy.FilterOpt identifies the paths its option sub-policies accepted by
// snet.Fingerprint and returns every input path with such a fingerprint. That is
// the "exactly the paths" of the property only if the fingerprint tells any two
// different interface sequences apart: every interface contributes its FULL
// ISD-AS (64 bits) and its FULL interface id, in order.
func c47FingerprintInjective(c *Ctx, rule string) {
	v := c.View("pkg/snet.Fingerprint")
	if v == nil {
		return
	}
	var fed []string
	for _, ci := range v.Calls("encoding/binary.Write") {
		fed = append(fed, ci.Args[len(ci.Args)-1])
	}
	okIA, okID := false, false
	for _, f := range fed {
		if wild("arg0[*].IA", f) || wild("*local:intf.IA", f) {
			okIA = true
		}
		if wild("arg0[*].ID", f) || wild("*local:intf.ID", f) {
			okID = true
		}
	}
	every := false
	for _, ci := range v.Calls("encoding/binary.Write") {
		p, in := everyIterationPasses(ci.In.(ssa.Instruction).Block())
		every = p && in
	}
	c.Check(len(fed) == 2 && okIA && okID && every, rule, v.Name()+":whole-interface", v.Fn.Pos(), fmt.Sprintf(
		"every interface feeds its whole IA and its whole ID into the hash (fed: %s)", strings.Join(fed, ", ")))
}

// C24 / C34: the chain query of the trust database compares times as text; stored
// certificate validities are UTC, so the queried validity must be bound in UTC
// too. A time.Unix value is in the process-local zone.
func c24ChainQueryInUTC(c *Ctx, rule string) {
	v := c.View("(*private/storage/trust/sqlite.executor).Chains")
	if v == nil {
		return
	}
	n, bad := 0, []string{}
	for _, b := range v.Fn.Blocks {
		for _, in := range b.Instrs {
			call, ok := in.(*ssa.Call)
			if !ok || calleeName(call.Common()) != "builtin:append" {
				continue
			}
			for _, e := range variadicElems(call.Common().Args[1]) {
				if e == nil || typeShort(e.Type()) != "time.Time" {
					continue
				}
				n++
				if s := v.S.Sym(e); !strings.HasPrefix(s, "(time.Time).UTC(") {
					bad = append(bad, s)
				}
			}
		}
	}
	c.Check(n >= 2 && len(bad) == 0, rule, v.Name()+":times-bound-in-utc", v.Fn.Pos(), fmt.Sprintf(
		"%d time value(s) bound to the query, each through UTC(): %v", n, bad))
}
