package main

import (
	"fmt"
	"strings"

	"golang.org/x/tools/go/ssa"
)

func init() {
	register(&PropRule{
		ID:    "C43",
		Roots: []string{"./gateway/pktcls"},
		Explain: "Decides the evaluation structure of the three combinators only. (E1) CondAllOf.Eval returns false exactly " +
			"on the edge where a child's Eval(v) is false (and at once), and true only after every child was " +
			"evaluated; CondAnyOf.Eval returns true for an empty list, true exactly on the edge where a child's " +
			"Eval(v) is true, and false only after every child was evaluated; CondNot.Eval returns false for a " +
			"missing operand and otherwise the negation of Operand.Eval(v); all of them hand the SAME packet " +
			"layer v to the children; CondBool returns its own value. (E2) CondIPv4/CondPorts hand " +
			"the decoded layer (resp. the source/destination ports of the UDP or TCP header) to their " +
			"predicate and are false for a nil predicate, nil layer or another layer type. NOT decided: the " +
			"predicates themselves, and everything about printing and re-parsing expressions (candidate rules " +
			"on format strings vs. the grammar would be brittle proxies).",
		Run: runC43,
	})
	setClaim("C43", claim{
		Text: "Short-circuit structure and operand passing of all/any/not, leaf conditions hand the right layer to the " +
			"predicate.",
		Note: claimNote, Technique: "static analysis: guard dominance per constant return, fail-stop on child evaluation, " +
			"call-argument pairing",
		Ref: "DESIGN.md §0.5 C43"})
	cf := "gateway/pktcls/cond.go"
	addMutants(
		Mutant{Prop: "C43", Name: "allof-stops-at-first-true", File: cf,
			Old: `		if !child.Eval(v) {
			return false
		}
	}
	return true`, New: `		if child.Eval(v) {
			return true
		}
	}
	return false`, Expect: "E1-combinators"},
		Mutant{Prop: "C43", Name: "anyof-empty-false", File: cf,
			Old: `	if len(c) == 0 {
		return true
	}
	for _, child := range c {
		if child.Eval(v) {`, New: `	for _, child := range c {
		if child.Eval(v) {`, Expect: "E1-combinators"},
		Mutant{Prop: "C43", Name: "not-is-identity", File: cf,
			Old: `	return !c.Operand.Eval(v)`, New: `	return c.Operand.Eval(v)`, Expect: "E1-combinators"},
		Mutant{Prop: "C43", Name: "ports-swapped", File: cf,
			Old: `		return c.Predicate.Eval(&Ports{
			Src: uint16(udp.SrcPort),
			Dst: uint16(udp.DstPort),
		})`, New: `		return c.Predicate.Eval(&Ports{
			Src: uint16(udp.DstPort),
			Dst: uint16(udp.SrcPort),
		})`, Expect: "E2-leaves"},
	)
}

// c43Combinator checks a loop combinator: `early` is returned exactly on the
// child-Eval edge with outcome `on`, `!early` after the loop.
func c43Combinator(c *Ctx, q string, on bool, emptyTrue bool) {
	v := c.View(q)
	if v == nil {
		return
	}
	rule := "E1-combinators"
	fn := v.Fn
	e := NewE1(c, fn)
	isChildEval := func(x ssa.Value) bool {
		call, ok := x.(*ssa.Call)
		if !ok || !strings.HasSuffix(calleeName(call.Common()), "Cond.Eval") {
			return false
		}
		return len(call.Common().Args) == 1 && v.S.Sym(call.Common().Args[0]) == "arg0" && strings.HasPrefix(v.S.Sym(call.Common().Value), "recv[")
	}
	childEdge := Guard{Name: fmt.Sprintf("a child evaluated to %v", on), Match: func(l Lit) bool {
		return l.Kind == "true" && l.Pos == on && isChildEval(l.X)
	}}
	exhausted := e.AtomGuard("all children evaluated", "-lt(*, builtin:len(recv))")
	empty := e.AtomGuard("empty list", "+eq(builtin:len(recv), 0)")
	n := 0
	ok := true
	for _, r := range e.AllReturns() {
		b, isK := constBool(r.(*ssa.Return).Results[0])
		if !isK {
			ok = false
			c.Fail(rule, v.Name()+":returns", r.Pos(), "returns a non-constant")
			continue
		}
		n++
		var g Guard
		switch {
		case b == on:
			g = childEdge
			if emptyTrue && b {
				g = Or("empty list or a child is true", empty, childEdge)
			}
		default:
			g = exhausted
		}
		if ws := e.Unguarded(nil, []ssa.Instruction{r}, []Guard{g}); len(ws) > 0 {
			ok = false
			c.Fail(rule, v.Name()+fmt.Sprintf(":return-%v", b), r.Pos(), "reachable without "+g.Name+": "+e.pathString(ws[0]))
		}
	}
	// the deciding edge returns at once
	okImm := false
	for _, b := range fn.Blocks {
		for i := range b.Succs {
			lits, _ := edgeLits(b, i, nil)
			for _, l := range lits {
				if childEdge.Match(l) {
					if ret, isRet := b.Succs[i].Instrs[len(b.Succs[i].Instrs)-1].(*ssa.Return); isRet {
						if k, isK := constBool(ret.Results[0]); isK && k == on {
							okImm = true
						}
					}
				}
			}
		}
	}
	if emptyTrue {
		okEmpty := false
		for _, b := range fn.Blocks {
			for i := range b.Succs {
				lits, _ := edgeLits(b, i, nil)
				for _, l := range lits {
					if empty.Match(l) {
						if ret, isRet := b.Succs[i].Instrs[len(b.Succs[i].Instrs)-1].(*ssa.Return); isRet {
							if k, isK := constBool(ret.Results[0]); isK && k {
								okEmpty = true
							}
						}
					}
				}
			}
		}
		c.Check(okEmpty, rule, v.Name()+":empty-list-matches", fn.Pos(), "an empty list evaluates to true")
	}
	if ok {
		c.Check(okImm && n >= 2, rule, v.Name()+":short-circuit", fn.Pos(), fmt.Sprintf(
			"returns %v at the first child that evaluates to %v on the same layer, %v after all children", on, on, !on))
	}
}

func runC43(c *Ctx) {
	kp := "gateway/pktcls."
	c43Combinator(c, "("+kp+"CondAllOf).Eval", false, false)
	c43Combinator(c, "("+kp+"CondAnyOf).Eval", true, true)
	if v := c.View("(" + kp + "CondNot).Eval"); v != nil {
		rule := "E1-combinators"
		e := NewE1(c, v.Fn)
		ok, n := true, 0
		for _, r := range e.AllReturns() {
			n++
			res := r.(*ssa.Return).Results[0]
			if b, isK := constBool(res); isK {
				ok = ok && !b
				if len(e.Unguarded(nil, []ssa.Instruction{r}, []Guard{e.AtomGuard("no operand", "+eq(recv.Operand, nil)")})) > 0 {
					ok = false
				}
				continue
			}
			s := v.S.Sym(res)
			ok = ok && s == "!invoke:"+kp+"Cond.Eval(recv.Operand; arg0)"
		}
		c.Check(ok && n == 2, rule, v.Name()+":negation", v.Fn.Pos(), "false without operand, otherwise !Operand.Eval(v)")
	}
	if v := c.View("(" + kp + "CondBool).Eval"); v != nil {
		e := NewE1(c, v.Fn)
		ok := true
		for _, r := range e.AllReturns() {
			s := v.S.Sym(r.(*ssa.Return).Results[0])
			ok = ok && (s == "bool(recv)" || s == "recv")
		}
		c.Check(ok, "E1-combinators", v.Name()+":value", v.Fn.Pos(), "returns its own value")
	}
	// E2 leaves
	rule := "E2-leaves"
	for _, q := range []struct{ typ, layer, lt string }{
		{"(*" + kp + "CondIPv4).Eval", "*github.com/gopacket/gopacket/layers.IPv4", "LayerTypeIPv4"},
	} {
		v := c.View(q.typ)
		if v == nil {
			continue
		}
		e := NewE1(c, v.Fn)
		var preds []ssa.Instruction
		okArg := true
		for _, b := range v.Fn.Blocks {
			for _, in := range b.Instrs {
				ci, ok := in.(ssa.CallInstruction)
				if !ok || !ci.Common().IsInvoke() || ci.Common().Method.Name() != "Eval" {
					continue
				}
				preds = append(preds, in)
				okArg = okArg && v.S.Sym(ci.Common().Value) == "recv.Predicate" &&
					strings.HasPrefix(v.S.Sym(ci.Common().Args[0]), "arg0.("+q.layer+")")
			}
		}
		c.Check(len(preds) == 1 && okArg, rule, v.Name()+":predicate-call", v.Fn.Pos(), "Predicate.Eval(v.("+q.layer+"))")
		e.Require(rule, "guards", nil, preds,
			e.AtomGuard("predicate set", "-eq(recv.Predicate, nil)"), e.AtomGuard("layer set", "-eq(arg0, nil)"),
			e.AtomGuard("layer type", "+eq(invoke:github.com/gopacket/gopacket.Layer.LayerType(arg0; ), global:github.com/gopacket/gopacket/layers."+q.lt+")",
				"+eq(global:github.com/gopacket/gopacket/layers."+q.lt+", invoke:github.com/gopacket/gopacket.Layer.LayerType(arg0; ))"))
	}
	if v := c.View("(*" + kp + "CondPorts).Eval"); v != nil {
		n, ok := 0, true
		for _, b := range v.Fn.Blocks {
			for _, in := range b.Instrs {
				ci, isCall := in.(ssa.CallInstruction)
				if !isCall || !ci.Common().IsInvoke() || ci.Common().Method.Name() != "Eval" {
					continue
				}
				n++
				// argument: &Ports{Src: hdr.SrcPort, Dst: hdr.DstPort}
				al, isAlloc := ci.Common().Args[0].(*ssa.Alloc)
				if !isAlloc || al.Referrers() == nil {
					ok = false
					continue
				}
				got := map[string]string{}
				for _, r := range *al.Referrers() {
					if fa, isFA := r.(*ssa.FieldAddr); isFA && fa.Referrers() != nil {
						for _, rr := range *fa.Referrers() {
							if st, isSt := rr.(*ssa.Store); isSt && st.Addr == fa {
								got[fieldName(fa.X.Type(), fa.Field)] = accessPath(stripConv(st.Val))
							}
						}
					}
				}
				ok = ok && got["Src"] == ".SrcPort" && got["Dst"] == ".DstPort"
			}
		}
		c.Check(ok && n == 2, rule, v.Name()+":ports", v.Fn.Pos(), fmt.Sprintf("%d predicate call(s) with Ports{Src: hdr.SrcPort, Dst: hdr.DstPort}", n))
	}
}
