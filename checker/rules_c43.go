package main

import (
	"fmt"
	"strings"

	"golang.org/x/tools/go/ssa"
)

func init() {
	register(&PropRule{
		ID:    "C43",
		Roots: []string{"./gateway/pktcls"},
		Explain: "Decides the evaluation structure of the three combinators only. (E1) CondAllOf.Eval returns false exactly " +
			"on the edge where a child's Eval(v) is false (and at once), and true only after every child was " +
			"evaluated; CondAnyOf.Eval returns true for an empty list, true exactly on the edge where a child's " +
			"Eval(v) is true, and false only after every child was evaluated; CondNot.Eval returns false for a " +
			"missing operand and otherwise the negation of Operand.Eval(v); all of them hand the SAME packet " +
			"layer v to the children; CondBool returns its own value. (E2) CondIPv4/CondPorts hand " +
			"the decoded layer (resp. the source/destination ports of the UDP or TCP header) to their " +
			"predicate and are false for a nil predicate, nil layer or another layer type. (B1) For every numeric " +
			"predicate field, the base the expression parser reads it in (strconv.ParseUint base in the " +
			"EnterMatch* listener) equals the base its String method prints it in (fmt verb), so a printed " +
			"expression re-parses to the same number. NOT decided: the predicates themselves, and the rest of " +
			"printing and re-parsing expressions (keywords and grammar).",
		Run: runC43,
	})
	setClaim("C43", claim{
		Text: "Short-circuit structure and operand passing of all/any/not, leaf conditions hand the right layer to the " +
			"predicate.",
		Note: claimNote, Technique: "static analysis: guard dominance per constant return, fail-stop on child evaluation, " +
			"call-argument pairing",
		Ref: "DESIGN.md §0.5 C43"})
	cf := "gateway/pktcls/cond.go"
	addMutants(
		Mutant{Prop: "C43", Name: "tos-parsed-decimal-printed-hex", File: "gateway/pktcls/parse.go",
			Old: `	tos, err := strconv.ParseUint(ctx.GetStop().GetText(), 16, 8)`,
			New: `	tos, err := strconv.ParseUint(ctx.GetStop().GetText(), 10, 8)`, Expect: "B1-number-bases"},
		Mutant{Prop: "C43", Name: "srcport-parsed-hex-printed-decimal", File: "gateway/pktcls/parse.go",
			Old: `	msrc, err := strconv.ParseUint(ctx.GetStop().GetText(), 10, 16)`,
			New: `	msrc, err := strconv.ParseUint(ctx.GetStop().GetText(), 16, 16)`, Expect: "B1-number-bases"},
		Mutant{Prop: "C43", Name: "allof-stops-at-first-true", File: cf,
			Old: `		if !child.Eval(v) {
			return false
		}
	}
	return true`, New: `		if child.Eval(v) {
			return true
		}
	}
	return false`, Expect: "E1-combinators"},
		Mutant{Prop: "C43", Name: "anyof-empty-false", File: cf,
			Old: `	if len(c) == 0 {
		return true
	}
	for _, child := range c {
		if child.Eval(v) {`, New: `	for _, child := range c {
		if child.Eval(v) {`, Expect: "E1-combinators"},
		Mutant{Prop: "C43", Name: "not-is-identity", File: cf,
			Old: `	return !c.Operand.Eval(v)`, New: `	return c.Operand.Eval(v)`, Expect: "E1-combinators"},
		Mutant{Prop: "C43", Name: "ports-swapped", File: cf,
			Old: `		return c.Predicate.Eval(&Ports{
			Src: uint16(udp.SrcPort),
			Dst: uint16(udp.DstPort),
		})`, New: `		return c.Predicate.Eval(&Ports{
			Src: uint16(udp.DstPort),
			Dst: uint16(udp.SrcPort),
		})`, Expect: "E2-leaves"},
	)
}

// c43Combinator checks a loop combinator: `early` is returned exactly on the
// child-Eval edge with outcome `on`, `!early` after the loop.
func c43Combinator(c *Ctx, q string, on bool, emptyTrue bool) {
	v := c.View(q)
	if v == nil {
		return
	}
	rule := "E1-combinators"
	fn := v.Fn
	e := NewE1(c, fn)
	isChildEval := func(x ssa.Value) bool {
		call, ok := x.(*ssa.Call)
		if !ok || !strings.HasSuffix(calleeName(call.Common()), "Cond.Eval") {
			return false
		}
		return len(call.Common().Args) == 1 && v.S.Sym(call.Common().Args[0]) == "arg0" && strings.HasPrefix(v.S.Sym(call.Common().Value), "recv[")
	}
	childEdge := Guard{Name: fmt.Sprintf("a child evaluated to %v", on), Match: func(l Lit) bool {
		return l.Kind == "true" && l.Pos == on && isChildEval(l.X)
	}}
	exhausted := e.AtomGuard("all children evaluated", "-lt(*, builtin:len(recv))")
	empty := e.AtomGuard("empty list", "+eq(builtin:len(recv), 0)")
	n := 0
	ok := true
	for _, r := range e.AllReturns() {
		b, isK := constBool(r.(*ssa.Return).Results[0])
		if !isK {
			ok = false
			c.Fail(rule, v.Name()+":returns", r.Pos(), "returns a non-constant")
			continue
		}
		n++
		var g Guard
		switch {
		case b == on:
			g = childEdge
			if emptyTrue && b {
				g = Or("empty list or a child is true", empty, childEdge)
			}
		default:
			g = exhausted
		}
		if ws := e.Unguarded(nil, []ssa.Instruction{r}, []Guard{g}); len(ws) > 0 {
			ok = false
			c.Fail(rule, v.Name()+fmt.Sprintf(":return-%v", b), r.Pos(), "reachable without "+g.Name+": "+e.pathString(ws[0]))
		}
	}
	// the deciding edge returns at once
	okImm := false
	for _, b := range fn.Blocks {
		for i := range b.Succs {
			lits, _ := edgeLits(b, i, nil)
			for _, l := range lits {
				if childEdge.Match(l) {
					if ret, isRet := b.Succs[i].Instrs[len(b.Succs[i].Instrs)-1].(*ssa.Return); isRet {
						if k, isK := constBool(ret.Results[0]); isK && k == on {
							okImm = true
						}
					}
				}
			}
		}
	}
	if emptyTrue {
		okEmpty := false
		for _, b := range fn.Blocks {
			for i := range b.Succs {
				lits, _ := edgeLits(b, i, nil)
				for _, l := range lits {
					if empty.Match(l) {
						if ret, isRet := b.Succs[i].Instrs[len(b.Succs[i].Instrs)-1].(*ssa.Return); isRet {
							if k, isK := constBool(ret.Results[0]); isK && k {
								okEmpty = true
							}
						}
					}
				}
			}
		}
		c.Check(okEmpty, rule, v.Name()+":empty-list-matches", fn.Pos(), "an empty list evaluates to true")
	}
	if ok {
		c.Check(okImm && n >= 2, rule, v.Name()+":short-circuit", fn.Pos(), fmt.Sprintf(
			"returns %v at the first child that evaluates to %v on the same layer, %v after all children", on, on, !on))
	}
}

// c43NumberBases: agreement between the base in which the text parser reads a
// numeric operand into a predicate member and the base in which that member is
// printed (the writer's and the reader's table).
func c43NumberBases(c *Ctx) {
	rule := "B1-number-bases"
	pkg := c.Prog.SSAPkgs[modPath+"/gateway/pktcls"]
	if pkg == nil {
		return
	}
	type key struct{ typ, field string }
	parseBase := map[key]map[string]bool{}
	printBase := map[key]map[string]bool{}
	add := func(m map[key]map[string]bool, k key, b string) {
		if m[k] == nil {
			m[k] = map[string]bool{}
		}
		m[k][b] = true
	}
	for fn := range c.Prog.AllFuncs() {
		if fn.Pkg != pkg || len(fn.Blocks) == 0 {
			continue
		}
		s := NewSymer()
		name := fn.Name()
		for _, b := range fn.Blocks {
			for _, in := range b.Instrs {
				switch x := in.(type) {
				case *ssa.Store:
					// member <- conv(ParseUint(text, base, bits)#0) inside a listener
					if !strings.HasPrefix(name, "EnterMatch") {
						continue
					}
					fa, ok := x.Addr.(*ssa.FieldAddr)
					if !ok {
						continue
					}
					call, _ := callOf(stripConv(x.Val))
					if call == nil {
						continue
					}
					k := key{strings.TrimPrefix(typeShort(fa.X.Type()), "*"), fieldName(fa.X.Type(), fa.Field)}
					if calleeName(call.Common()) == "strconv.ParseUint" || calleeName(call.Common()) == "strconv.ParseInt" {
						if bse, isK := foldInt(call.Common().Args[1]); isK {
							add(parseBase, k, fmt.Sprint(bse))
						} else {
							add(parseBase, k, "?"+s.Sym(call.Common().Args[1]))
						}
					} else if h := call.Common().StaticCallee(); h != nil && inModule(h) && callsNumberParser(h) {
						// a helper that parses numbers: the base is no longer a constant of
						// this listener
						add(parseBase, k, "?via "+calleeName(call.Common()))
					}
				case *ssa.Call:
					if calleeName(x.Common()) != "fmt.Sprintf" || len(fn.Params) == 0 {
						continue
					}
					fk, isK := x.Common().Args[0].(*ssa.Const)
					if !isK || fk.Value == nil {
						continue
					}
					format := strings.Trim(fk.Value.ExactString(), `"`)
					verbs := regexpVerbs(format)
					args := variadicArgs(x.Common().Args[1])
					for i, a := range args {
						if i >= len(verbs) {
							break
						}
						mi, isMI := a.(*ssa.MakeInterface)
						if !isMI {
							continue
						}
						ld, isLd := mi.X.(*ssa.UnOp)
						if !isLd {
							continue
						}
						fa, isFA := ld.X.(*ssa.FieldAddr)
						if !isFA || fa.X != ssa.Value(fn.Params[0]) {
							continue
						}
						k := key{strings.TrimPrefix(typeShort(fa.X.Type()), "*"), fieldName(fa.X.Type(), fa.Field)}
						switch verbs[i] {
						case "d":
							add(printBase, k, "10")
						case "x", "X", "#x":
							add(printBase, k, "16")
						case "o":
							add(printBase, k, "8")
						case "b":
							add(printBase, k, "2")
						}
					}
				}
			}
		}
	}
	n := 0
	for k, pb := range parseBase {
		n++
		pr := printBase[k]
		ok := len(pb) == 1 && len(pr) == 1
		if ok {
			for b := range pb {
				ok = pr[b]
			}
		}
		c.Check(ok, rule, k.typ+"."+k.field, 0, fmt.Sprintf("parsed in base %v, printed in base %v", keysOf(pb), keysOf(pr)))
	}
	c.Min("numeric-operands-with-text-form", n, 6)
}

func callsNumberParser(fn *ssa.Function) bool {
	for _, b := range fn.Blocks {
		for _, in := range b.Instrs {
			if ci, ok := in.(ssa.CallInstruction); ok {
				n := calleeName(ci.Common())
				if n == "strconv.ParseUint" || n == "strconv.ParseInt" || n == "strconv.Atoi" {
					return true
				}
			}
		}
	}
	return false
}

func keysOf(m map[string]bool) []string {
	var l []string
	for k := range m {
		l = append(l, k)
	}
	sortStrings(l)
	return l
}

func sortStrings(l []string) {
	for i := 1; i < len(l); i++ {
		for j := i; j > 0 && l[j] < l[j-1]; j-- {
			l[j], l[j-1] = l[j-1], l[j]
		}
	}
}

// regexpVerbs lists the verbs of a format string in order ("#x", "d", "s").
func regexpVerbs(f string) []string {
	var out []string
	for i := 0; i < len(f); i++ {
		if f[i] != '%' {
			continue
		}
		j := i + 1
		flag := ""
		for j < len(f) && strings.ContainsRune("#+-0 123456789.", rune(f[j])) {
			if f[j] == '#' {
				flag = "#"
			}
			j++
		}
		if j < len(f) {
			if f[j] == '%' {
				i = j
				continue
			}
			out = append(out, flag+string(f[j]))
			i = j
		}
	}
	return out
}

// variadicArgs lists the values stored into a variadic argument array.
func variadicArgs(v ssa.Value) []ssa.Value {
	sl, ok := v.(*ssa.Slice)
	if !ok {
		return nil
	}
	al, ok := sl.X.(*ssa.Alloc)
	if !ok || al.Referrers() == nil {
		return nil
	}
	m := map[int64]ssa.Value{}
	for _, r := range *al.Referrers() {
		ia, ok := r.(*ssa.IndexAddr)
		if !ok || ia.Referrers() == nil {
			continue
		}
		k, isK := foldInt(ia.Index)
		if !isK {
			continue
		}
		for _, rr := range *ia.Referrers() {
			if st, ok := rr.(*ssa.Store); ok && st.Addr == ia {
				m[k] = st.Val
			}
		}
	}
	out := make([]ssa.Value, len(m))
	for i := range out {
		out[i] = m[int64(i)]
	}
	return out
}

func runC43(c *Ctx) {
	c43ListenerBuilds(c)
	c43NumberBases(c)
	c43PrinterForms(c)
	c43PortRangeMeaning(c)
	ipv4PredicateMeaning(c, "E2-ipv4-predicate-meaning")
	kp := "gateway/pktcls."
	c43Combinator(c, "("+kp+"CondAllOf).Eval", false, false)
	c43Combinator(c, "("+kp+"CondAnyOf).Eval", true, true)
	if v := c.View("(" + kp + "CondNot).Eval"); v != nil {
		rule := "E1-combinators"
		e := NewE1(c, v.Fn)
		ok, n := true, 0
		for _, r := range e.AllReturns() {
			n++
			res := r.(*ssa.Return).Results[0]
			if b, isK := constBool(res); isK {
				ok = ok && !b
				if len(e.Unguarded(nil, []ssa.Instruction{r}, []Guard{e.AtomGuard("no operand", "+eq(recv.Operand, nil)")})) > 0 {
					ok = false
				}
				continue
			}
			s := v.S.Sym(res)
			ok = ok && s == "!invoke:"+kp+"Cond.Eval(recv.Operand; arg0)"
		}
		c.Check(ok && n == 2, rule, v.Name()+":negation", v.Fn.Pos(), "false without operand, otherwise !Operand.Eval(v)")
	}
	if v := c.View("(" + kp + "CondBool).Eval"); v != nil {
		e := NewE1(c, v.Fn)
		ok := true
		for _, r := range e.AllReturns() {
			s := v.S.Sym(r.(*ssa.Return).Results[0])
			ok = ok && (s == "bool(recv)" || s == "recv")
		}
		c.Check(ok, "E1-combinators", v.Name()+":value", v.Fn.Pos(), "returns its own value")
	}
	// E2 leaves
	rule := "E2-leaves"
	for _, q := range []struct{ typ, layer, lt string }{
		{"(*" + kp + "CondIPv4).Eval", "*github.com/gopacket/gopacket/layers.IPv4", "LayerTypeIPv4"},
	} {
		v := c.View(q.typ)
		if v == nil {
			continue
		}
		e := NewE1(c, v.Fn)
		var preds []ssa.Instruction
		okArg := true
		for _, b := range v.Fn.Blocks {
			for _, in := range b.Instrs {
				ci, ok := in.(ssa.CallInstruction)
				if !ok || !ci.Common().IsInvoke() || ci.Common().Method.Name() != "Eval" {
					continue
				}
				preds = append(preds, in)
				okArg = okArg && v.S.Sym(ci.Common().Value) == "recv.Predicate" &&
					strings.HasPrefix(v.S.Sym(ci.Common().Args[0]), "arg0.("+q.layer+")")
			}
		}
		c.Check(len(preds) == 1 && okArg, rule, v.Name()+":predicate-call", v.Fn.Pos(), "Predicate.Eval(v.("+q.layer+"))")
		e.Require(rule, "guards", nil, preds,
			e.AtomGuard("predicate set", "-eq(recv.Predicate, nil)"), e.AtomGuard("layer set", "-eq(arg0, nil)"),
			e.AtomGuard("layer type", "+eq(invoke:github.com/gopacket/gopacket.Layer.LayerType(arg0; ), global:github.com/gopacket/gopacket/layers."+q.lt+")",
				"+eq(global:github.com/gopacket/gopacket/layers."+q.lt+", invoke:github.com/gopacket/gopacket.Layer.LayerType(arg0; ))"))
	}
	if v := c.View("(*" + kp + "CondPorts).Eval"); v != nil {
		n, ok := 0, true
		for _, b := range v.Fn.Blocks {
			for _, in := range b.Instrs {
				ci, isCall := in.(ssa.CallInstruction)
				if !isCall || !ci.Common().IsInvoke() || ci.Common().Method.Name() != "Eval" {
					continue
				}
				n++
				// argument: &Ports{Src: hdr.SrcPort, Dst: hdr.DstPort}
				al, isAlloc := ci.Common().Args[0].(*ssa.Alloc)
				if !isAlloc || al.Referrers() == nil {
					ok = false
					continue
				}
				got := map[string]string{}
				for _, r := range *al.Referrers() {
					if fa, isFA := r.(*ssa.FieldAddr); isFA && fa.Referrers() != nil {
						for _, rr := range *fa.Referrers() {
							if st, isSt := rr.(*ssa.Store); isSt && st.Addr == fa {
								got[fieldName(fa.X.Type(), fa.Field)] = accessPath(stripConv(st.Val))
							}
						}
					}
				}
				ok = ok && got["Src"] == ".SrcPort" && got["Dst"] == ".DstPort"
			}
		}
		c.Check(ok && n == 2, rule, v.Name()+":ports", v.Fn.Pos(), fmt.Sprintf("%d predicate call(s) with Ports{Src: hdr.SrcPort, Dst: hdr.DstPort}", n))
	}
}
