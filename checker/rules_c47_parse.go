package main

import (
	"fmt"
	"strings"

	"golang.org/x/tools/go/ssa"
)

// C47, the ACL side of the hop predicate: HopPredicateFromString turns
// "ISD-AS#in,out" into the IfIDs that pathIFMatch evaluates. pathIFMatch tells
// "either direction" (#x) from "ingress, egress" (#x,y) by len(IfIDs), so the
// NUMBER of interfaces written is the number stored, whatever their values:
// "#5,0" (ingress 5, any egress) is not "#5" (5 in either direction).
//
// Rule H1: the first interface is stored at index 0 from the first comma part;
// the second comma part, when there are two and it parses, is appended - under no
// condition on its VALUE; the predicate returned carries the parsed ISD, AS and
// that slice.
func init() {
	addMutants(
		Mutant{Prop: "C47", Name: "zero-egress-dropped-from-predicate", File: "private/path/pathpol/hop_pred.go",
			Old: `		ifIDs = append(ifIDs, ifID)`, New: `		if ifID != 0 {
			ifIDs = append(ifIDs, ifID)
		}`, Expect: "H1-hop-predicate-parse"},
	)
}

func c47HopPredicateParse(c *Ctx) {
	rule := "H1-hop-predicate-parse"
	v := c.View("private/path/pathpol.HopPredicateFromString")
	if v == nil {
		return
	}
	parse := "private/path/pathpol.parseIfID("
	okFirst := false
	for _, st := range v.Stores("*[0]") {
		if strings.HasPrefix(st.Val, parse) && strings.HasSuffix(st.Val, ",\")[0])#0") {
			okFirst = true
		}
	}
	c.Check(okFirst, rule, v.Name()+":first-interface", v.Fn.Pos(), "IfIDs[0] is the parsed first comma part")
	nApp := 0
	for _, ci := range v.Calls("builtin:append") {
		in := ci.In.(ssa.Instruction)
		elems := variadicElems(ci.In.Common().Args[1])
		if len(elems) != 1 || elems[0] == nil {
			continue
		}
		if s := v.S.Sym(elems[0]); !(strings.HasPrefix(s, parse) && strings.HasSuffix(s, ",\")[1])#0")) {
			continue
		}
		nApp++
		var valueConds []string
		for _, l := range dominatingLits(in.Block()) {
			s := l.String(v.S)
			if strings.Contains(s, "parseIfID(") && strings.Contains(s, "#0") {
				valueConds = append(valueConds, s)
			}
		}
		// and path-wise: from the successful second parse, every way to the final return appends
		okTwo := false
		for _, l := range dominatingLits(in.Block()) {
			if wild("+eq(builtin:len(strings.Split(*, \",\")), 2)", l.String(v.S)) {
				okTwo = true
			}
		}
		var parseBlk *ssa.BasicBlock
		for _, pc := range v.Calls("private/path/pathpol.parseIfID") {
			if strings.HasSuffix(v.S.Sym(pc.In.Common().Args[0]), ",\")[1]") {
				parseBlk = pc.In.(ssa.Instruction).Block()
			}
		}
		skipped := false
		if parseBlk != nil {
			// the success edge of the second parse: the successor that is not an error return
			for _, s := range parseBlk.Succs {
				if s == in.Block() || cfgReach(s, in.Block(), nil) {
					for _, b := range v.Fn.Blocks {
						if r, ok := b.Instrs[len(b.Instrs)-1].(*ssa.Return); ok && len(r.Results) == 2 {
							if k, isK := r.Results[1].(*ssa.Const); isK && k.IsNil() && cfgReach(s, b, in.Block()) {
								skipped = true
							}
						}
					}
				}
			}
		}
		c.Check(len(valueConds) == 0 && okTwo && !skipped && parseBlk != nil, rule, v.Name()+":second-interface-appended", in.Pos(), fmt.Sprintf(
			"appended when there are two comma parts (%v), under no condition on its value (%v), on every successful path (%v)", okTwo, valueConds, !skipped))
	}
	c.Check(nApp == 1, rule, v.Name()+":one-append", v.Fn.Pos(), fmt.Sprintf("%d append(s) of the parsed second comma part", nApp))
	// the full predicate
	okRet := false
	for _, st := range v.Stores("local:complit.IfIDs") {
		if strings.HasPrefix(st.Val, "phi(builtin:append(") {
			okRet = true
		}
	}
	c.Check(okRet, rule, v.Name()+":returned-slice", v.Fn.Pos(), "the predicate returned for the full form carries the slice with the appended interface")
	v.RequireStore(rule, 2, "local:complit.AS", "pkg/addr.ParseAS(strings.Split(strings.Split(arg0, \"-\")[1], \"#\")[0])#0")
	v.RequireStore(rule, 3, "local:complit.ISD", "pkg/addr.ParseISD(strings.Split(arg0, \"-\")[0])#0")
}
