package main

import (
	"fmt"
	"go/token"
	"sort"
	"strings"

	"golang.org/x/tools/go/ssa"
)

// FnView bundles a function with a symbolic renderer and convenience queries
// used by pairing rules (E2, intraprocedural part).
type FnView struct {
	C   *Ctx
	Fn  *ssa.Function
	S   *Symer
	dom map[*ssa.BasicBlock]map[*ssa.BasicBlock]bool
}

func (c *Ctx) View(q string) *FnView {
	fn := c.Fn(q)
	if fn == nil {
		return nil
	}
	return &FnView{C: c, Fn: fn, S: NewSymer()}
}

func ViewOf(c *Ctx, fn *ssa.Function) *FnView {
	c.Funcs[FuncName(fn)] = true
	return &FnView{C: c, Fn: fn, S: NewSymer()}
}

func (v *FnView) Name() string { return FuncName(v.Fn) }

type StoreInfo struct {
	Addr, Val string
	In       *ssa.Store
}

// Stores lists all stores whose address renders to a string matching pat.
func (v *FnView) Stores(pat string) []StoreInfo {
	var out []StoreInfo
	for _, b := range v.Fn.Blocks {
		for _, in := range b.Instrs {
			if st, ok := in.(*ssa.Store); ok {
				a := v.S.Sym(st.Addr)
				if wild(pat, a) {
					out = append(out, StoreInfo{Addr: a, Val: v.S.Sym(st.Val), In: st})
				}
			}
		}
	}
	return out
}

type CallInfo struct {
	Callee string
	Args   []string
	In     ssa.CallInstruction
}

// Calls lists all calls whose callee name matches one of names (wildcards ok).
func (v *FnView) Calls(names ...string) []CallInfo {
	var out []CallInfo
	for _, b := range v.Fn.Blocks {
		for _, in := range b.Instrs {
			ci, ok := in.(ssa.CallInstruction)
			if !ok {
				continue
			}
			n := calleeName(ci.Common())
			hit := false
			for _, m := range names {
				if wild(m, n) {
					hit = true
				}
			}
			if !hit {
				continue
			}
			info := CallInfo{Callee: n, In: ci}
			if ci.Common().IsInvoke() {
				info.Args = append(info.Args, v.S.Sym(ci.Common().Value))
			}
			for _, a := range ci.Common().Args {
				info.Args = append(info.Args, v.S.Sym(a))
			}
			out = append(out, info)
			v.C.Calls++
		}
	}
	return out
}

// RequireCallArgs asserts that fn contains at least min calls to callee and
// that in every such call argument i matches pats[i] ("" = don't care).
func (v *FnView) RequireCallArgs(rule string, min int, callee string, pats ...string) []CallInfo {
	calls := v.Calls(callee)
	if len(calls) < min {
		// the call may have moved into a helper of the same package: look one level down and
		// render the helper's arguments in this function's terms
		calls = append(calls, v.callsThroughHelpers(callee)...)
	}
	construct := v.Name() + ":call:" + callee
	if len(calls) < min {
		v.C.Fail(rule, construct, v.Fn.Pos(),
			fmt.Sprintf("expected at least %d call(s) to %s, found %d", min, callee, len(calls)))
		return calls
	}
	ok := true
	for _, ci := range calls {
		for i, p := range pats {
			if p == "" {
				continue
			}
			if i >= len(ci.Args) || !wild(p, ci.Args[i]) {
				got := "<missing>"
				if i < len(ci.Args) {
					got = ci.Args[i]
				}
				v.C.Fail(rule, fmt.Sprintf("%s:arg%d", construct, i), ci.In.Pos(),
					fmt.Sprintf("argument %d is %s, required %s", i, got, p))
				ok = false
			}
		}
	}
	if ok {
		v.C.OK(rule, construct, v.Fn.Pos(), fmt.Sprintf("%d call(s), arguments [%s]", len(calls),
			strings.Join(pats, " ; ")))
	}
	return calls
}

// RequireStore asserts that every store to an address matching addrPat stores a
// value matching one of valPats, and that there are at least min such stores.
func (v *FnView) RequireStore(rule string, min int, addrPat string, valPats ...string) {
	sts := v.Stores(addrPat)
	construct := v.Name() + ":store:" + addrPat
	if len(sts) < min {
		v.C.Fail(rule, construct, v.Fn.Pos(),
			fmt.Sprintf("expected at least %d store(s) to %s, found %d", min, addrPat, len(sts)))
		return
	}
	for _, st := range sts {
		ok := false
		for _, p := range valPats {
			if wild(p, st.Val) {
				ok = true
			}
		}
		if !ok {
			// the value may come out of a helper of the same package that returns exactly
			// the required form (a block moved into a function)
			ex := expandSym(v.S, st.In.Val, 2)
			for _, p := range valPats {
				if ex != st.Val && wild(p, ex) {
					ok = true
				}
			}
		}
		if !ok {
			v.C.Fail(rule, construct, st.In.Pos(), fmt.Sprintf("stores %s, required one of [%s]",
				st.Val, strings.Join(valPats, " | ")))
			return
		}
	}
	v.C.OK(rule, construct, v.Fn.Pos(), fmt.Sprintf("%d store(s) <- [%s]", len(sts),
		strings.Join(valPats, " | ")))
}

// Dominates reports whether block a dominates block b.
func Dominates(a, b *ssa.BasicBlock) bool {
	return a.Dominates(b)
}

// instrDominates reports whether instruction a is executed before b on every
// path reaching b.
func instrDominates(a, b ssa.Instruction) bool {
	if a.Block() == b.Block() {
		return instrIndex(a) < instrIndex(b)
	}
	return a.Block().Dominates(b.Block())
}

// Leaves collects the leaf descriptors (field paths of parameters, globals,
// zero-argument calls, constants) the value depends on, intraprocedurally,
// following static module callees' results up to depth.
func (v *FnView) Leaves(val ssa.Value, depth int) map[string]bool {
	out := map[string]bool{}
	seen := map[ssa.Value]bool{}
	var walk func(x ssa.Value)
	walk = func(x ssa.Value) {
		if x == nil || seen[x] {
			return
		}
		seen[x] = true
		switch y := x.(type) {
		case *ssa.Parameter, *ssa.FreeVar, *ssa.Global, *ssa.Const:
			out[v.S.Sym(x)] = true
			return
		case *ssa.FieldAddr:
			out[v.S.Sym(x)] = true
			walk(y.X)
			return
		case *ssa.Field:
			out[v.S.Sym(x)] = true
			walk(y.X)
			return
		case *ssa.Call:
			out["call:"+calleeName(y.Common())] = true
			if y.Common().IsInvoke() {
				walk(y.Common().Value)
			}
			for _, a := range y.Common().Args {
				walk(a)
			}
			return
		case *ssa.UnOp:
			if y.Op == token.MUL {
				out[v.S.Sym(x)] = true
				// stores to the same location inside this function
				addr := v.S.Sym(y.X)
				for _, st := range v.Stores(addr) {
					walk(st.In.Val)
				}
			}
		case *ssa.Alloc:
			var refs func(a ssa.Value, d int)
			refs = func(a ssa.Value, d int) {
				if d > 3 || a.Referrers() == nil {
					return
				}
				for _, ref := range *a.Referrers() {
					switch r := ref.(type) {
					case *ssa.Store:
						if r.Addr == a {
							walk(r.Val)
						}
					case *ssa.IndexAddr:
						refs(r, d+1)
					case *ssa.FieldAddr:
						refs(r, d+1)
					}
				}
			}
			refs(y, 0)
		}
		if in, ok := x.(ssa.Instruction); ok {
			for _, op := range in.Operands(nil) {
				if *op != nil {
					walk(*op)
				}
			}
		}
	}
	walk(val)
	return out
}

func leavesContainAll(l map[string]bool, pats ...string) (missing []string) {
	for _, p := range pats {
		found := false
		for k := range l {
			if wild(p, k) {
				found = true
				break
			}
		}
		if !found {
			missing = append(missing, p)
		}
	}
	return
}

func sortedKeys(m map[string]bool) []string {
	var out []string
	for k := range m {
		out = append(out, k)
	}
	sort.Strings(out)
	return out
}

// RequireDepends asserts that value val depends on all leaves in pats.
func (v *FnView) RequireDepends(rule, what string, val ssa.Value, pats ...string) {
	construct := v.Name() + ":depends:" + what
	if val == nil {
		v.C.Fail(rule, construct, v.Fn.Pos(), "value not found (anchor unresolved)")
		return
	}
	l := v.Leaves(val, 0)
	miss := leavesContainAll(l, pats...)
	if len(miss) > 0 {
		v.C.Fail(rule, construct, val.Pos(), fmt.Sprintf("does not depend on %v (depends on %v)",
			miss, truncList(sortedKeys(l), 12)))
		return
	}
	v.C.OK(rule, construct, val.Pos(), fmt.Sprintf("depends on all of %v", pats))
}

func truncList(l []string, n int) []string {
	if len(l) > n {
		return append(l[:n:n], "…")
	}
	return l
}
