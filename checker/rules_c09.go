package main

import (
	"fmt"
	"go/token"
	"strings"

	"golang.org/x/tools/go/ssa"
)

func init() {
	register(&PropRule{
		ID:    "C09",
		Roots: []string{"./router"},
		Explain: "Decides in packSCMP/prepareSCMP: (a) the reply header is addressed to the offending " +
			"packet's source (DstIA←SrcIA, DstAddrType←SrcAddrType, RawDstAddr←RawSrcAddr), sourced " +
			"from localIA/localHost, copies FlowID and TrafficClass, carries the reversed decoded " +
			"path and NextHdr L4SCMP or End2End; (b) every use of the quote length is the minimum " +
			"of the packet length and MaxSCMPPacketLen − hdrLen, where hdrLen depends on the common, " +
			"address and path header lengths and ScmpHeaderSize(type), plus e2eAuthHdrLen on the " +
			"authenticated edge; the ScmpHeaderSize table equals 4 + the PrependBytes size of each " +
			"message layer and MaxSCMPHeaderSize is its maximum; (c) prepareSCMP is reachable only " +
			"through packSCMP and only when the offending packet's last layer is not SCMP or is an " +
			"SCMP informational message; (d) checksums are requested and the pseudo header layer " +
			"is set before serialization; (e) when authentication is needed the SCION header is " +
			"serialized only after ComputeAuthCMAC and the E2E extension succeeded. NOT decided: " +
			"checksum arithmetic (C20), CMAC value, path reversal arithmetic (C03/C10).",
		Run: runC09,
	})
	setClaim("C09", claim{
		Text: "Symbolic field pairing of the reply header, min-clamp recognition and dependence of the " +
			"quote bound, constant-table agreement of SCMP header sizes, guard dominance for " +
			"no-error-for-error, checksum set-up and authenticator ordering, who-may-call on prepareSCMP.",
		Note: claimNote, Technique: "static analysis: symbolic pairing on SSA, clamp/phi recognition, " +
			"constant-table extraction, guard dominance, who-may-call", Ref: "DESIGN.md §4 C09, Appendix A.4"})
	addMutants(
		Mutant{Prop: "C09", Name: "dst-from-dst", File: "router/dataplane.go",
			Old: `scionL.DstIA = p.scionLayer.SrcIA`, New: `scionL.DstIA = p.scionLayer.DstIA`,
			Expect: "P1-reply-addressing"},
		Mutant{Prop: "C09", Name: "no-quote-clamp", File: "router/dataplane.go",
			Old: `		if quoteLen > maxQuoteLen {
			quoteLen = maxQuoteLen
		}
`, New: `		if quoteLen > maxQuoteLen && !needsAuth {
			quoteLen = maxQuoteLen
		}
`, Expect: "S1-size-bound"},
		Mutant{Prop: "C09", Name: "forget-auth-len", File: "router/dataplane.go",
			Old: `		if needsAuth {
			hdrLen += e2eAuthHdrLen
		}
`, New: "", Expect: "S1-size-bound"},
		Mutant{Prop: "C09", Name: "hdrsize-table-wrong", File: "pkg/slayers/scmp_msg.go",
			Old: `	case SCMPTypeInternalConnectivityDown:
		return 28`, New: `	case SCMPTypeInternalConnectivityDown:
		return 20`, Expect: "T1-scmp-header-sizes"},
		Mutant{Prop: "C09", Name: "error-for-error-with-extension", File: "router/dataplane.go",
			Old: `	if p.lastLayer.NextLayerType() == slayers.LayerTypeSCMP {
		var scmpLayer slayers.SCMP`,
			New: `	if p.scionLayer.NextHdr == slayers.L4SCMP {
		var scmpLayer slayers.SCMP`, Expect: "N1-no-error-for-error"},
		Mutant{Prop: "C09", Name: "error-for-error-infomsg-ignored", File: "router/dataplane.go",
			Old: `		if !scmpLayer.TypeCode.InfoMsg() {
			return serrors.New("SCMP error for SCMP error pkt -> DROP")
		}`, New: `		if !scmpLayer.TypeCode.InfoMsg() && !isError {
			return serrors.New("SCMP error for SCMP error pkt -> DROP")
		}`, Expect: "N1-no-error-for-error"},
		Mutant{Prop: "C09", Name: "no-checksum", File: "router/dataplane.go",
			Old: `		ComputeChecksums: true,
		FixLengths:       true,
	}
	var serBuf serializeProxy`, New: `		ComputeChecksums: isError,
		FixLengths:       true,
	}
	var serBuf serializeProxy`, Expect: "C1-checksum"},
	)
}

// minOf recognises q = min(a, m) in its three SSA shapes: builtin min, or a phi
// whose m-edge is taken when m < a and whose a-edge is taken otherwise.
func minOf(q ssa.Value) (a, m ssa.Value, ok bool) {
	if call, isCall := q.(*ssa.Call); isCall {
		if b, isB := call.Common().Value.(*ssa.Builtin); isB && b.Name() == "min" && len(call.Common().Args) == 2 {
			return call.Common().Args[0], call.Common().Args[1], true
		}
	}
	phi, isPhi := q.(*ssa.Phi)
	if !isPhi || len(phi.Edges) != 2 {
		return nil, nil, false
	}
	blk := phi.Block()
	for i := 0; i < 2; i++ {
		mv, av := phi.Edges[i], phi.Edges[1-i]
		pm, pa := blk.Preds[i], blk.Preds[1-i]
		// shape: pa: if m < a goto pm else blk ; pm: jump blk
		if len(pm.Preds) == 1 && pm.Preds[0] == pa && len(pa.Succs) == 2 {
			for si, s := range pa.Succs {
				if s != pm {
					continue
				}
				lits, _ := edgeLits(pa, si, nil)
				for _, l := range lits {
					if l.Kind == "lt" && l.Pos && l.X == mv && l.Y == av {
						return av, mv, true
					}
				}
			}
		}
	}
	return nil, nil, false
}

func runC09(c *Ctx) {
	slowPathStateFresh(c, "S1-per-packet-state")
	checksumFoldLossless(c, "F1-checksum-fold-lossless")
	v := c.View(spT + ".prepareSCMP")
	if v == nil {
		return
	}
	fn := v.Fn
	e := NewE1(c, fn)
	// P1: addressing
	rev := "(*pkg/slayers/path/scion.Decoded).Reverse((*pkg/slayers/path/scion.Raw).ToDecoded(*)#0)#0*"
	v.RequireStore("P1-reply-addressing", 1, "local:scionL.DstIA", "recv.scionLayer.SrcIA")
	v.RequireStore("P1-reply-addressing", 1, "local:scionL.SrcIA", "recv.d.localIA")
	v.RequireStore("P1-reply-addressing", 1, "local:scionL.DstAddrType", "recv.scionLayer.SrcAddrType")
	v.RequireStore("P1-reply-addressing", 1, "local:scionL.RawDstAddr", "recv.scionLayer.RawSrcAddr")
	v.RequireStore("P1-reply-addressing", 1, "local:scionL.FlowID", "recv.scionLayer.FlowID")
	v.RequireStore("P1-reply-addressing", 1, "local:scionL.TrafficClass", "recv.scionLayer.TrafficClass")
	v.RequireStore("P1-reply-addressing", 1, "local:scionL.Path", rev)
	v.RequireStore("P1-reply-addressing", 1, "local:scionL.PathType", "(*pkg/slayers/path/scion.Base).Type("+rev+")")
	v.RequireStore("P1-reply-addressing", 2, "local:scionL.NextHdr",
		c.Const("pkg/slayers.L4SCMP"), c.Const("pkg/slayers.End2EndClass"))
	v.RequireCallArgs("P1-reply-addressing", 1, "(*pkg/slayers.SCION).SetSrcAddr", "local:scionL", "recv.d.localHost")
	succ := e.SuccessReturns()
	e.Require("P1-reply-addressing", "success-returns", nil, succ,
		e.CallGuard(PassErrNil, "(*pkg/slayers.SCION).SetSrcAddr"),
		e.CallGuard(PassErrNil, "(*pkg/slayers/path/scion.Decoded).Reverse"),
		e.CallGuard(PassErrNil, "(*pkg/slayers.SCION).SerializeTo"))
	// the packet handed back is what was serialized
	v.RequireStore("P1-reply-addressing", 1, "recv.pkt.RawPacket",
		"(*router.serializeProxy).Bytes(local:serBuf)", "recv.pkt.buffer[0:*]")
	v.RequireStore("P1-reply-addressing", 1, "local:complit.TypeCode", "pkg/slayers.CreateSCMPTypeCode(arg0, arg1)")

	// S1: size bound
	var quoteUses []ssa.Value
	var usePos []token.Pos
	for _, b := range fn.Blocks {
		for _, in := range b.Instrs {
			switch x := in.(type) {
			case *ssa.Slice:
				base := v.S.Sym(x.X)
				if base == "recv.pkt.RawPacket" && x.High != nil {
					quoteUses = append(quoteUses, x.High)
					usePos = append(usePos, x.Pos())
				}
				if base == "recv.pkt.buffer" && x.High != nil {
					// buffer[0 : quoteLen + headroom]
					if bo, ok := x.High.(*ssa.BinOp); ok && bo.Op == token.ADD {
						for _, op := range []ssa.Value{bo.X, bo.Y} {
							if _, _, isMin := minOf(op); isMin {
								quoteUses = append(quoteUses, op)
								usePos = append(usePos, x.Pos())
							}
						}
					}
				}
			case *ssa.Call:
				if calleeName(x.Common()) == "(*router.serializeProxy).AppendBytes" {
					quoteUses = append(quoteUses, x.Common().Args[1])
					usePos = append(usePos, x.Pos())
				}
			}
		}
	}
	c.Min("prepareSCMP:quote-length-uses", len(quoteUses), 3)
	maxLen := c.Const("pkg/slayers.MaxSCMPPacketLen")
	authLen := c.Const("router.e2eAuthHdrLen")
	for i, q := range quoteUses {
		construct := fmt.Sprintf("%s:quote-use-%d", v.Name(), i)
		a, m, ok := minOf(q)
		if !ok {
			c.Fail("S1-size-bound", construct, usePos[i],
				"quote length "+v.S.Sym(q)+" is not min(packet length, maxQuoteLen)")
			continue
		}
		if v.S.Sym(a) != "builtin:len(recv.pkt.RawPacket)" {
			a, m = m, a
		}
		okA := v.S.Sym(a) == "builtin:len(recv.pkt.RawPacket)"
		sub, isSub := m.(*ssa.BinOp)
		okM := isSub && sub.Op == token.SUB && v.S.Sym(sub.X) == maxLen
		if !okA || !okM {
			c.Fail("S1-size-bound", construct, usePos[i], fmt.Sprintf(
				"clamp is min(%s, %s); required min(len(RawPacket), %s - hdrLen)", v.S.Sym(a), v.S.Sym(m), maxLen))
			continue
		}
		l := v.Leaves(sub.Y, 0)
		miss := leavesContainAll(l, "call:(*pkg/slayers.SCION).AddrHdrLen", "call:invoke:pkg/slayers/path.Path.Len",
			"call:pkg/slayers.ScmpHeaderSize", c.Const("pkg/slayers.CmnHdrLen"), authLen)
		// the auth length is added exactly on the needsAuth edge
		authOK := false
		if phi, isPhi := sub.Y.(*ssa.Phi); isPhi && len(phi.Edges) == 2 {
			for k := 0; k < 2; k++ {
				if bo, isB := phi.Edges[k].(*ssa.BinOp); isB && bo.Op == token.ADD &&
					(bo.X == phi.Edges[1-k] || bo.Y == phi.Edges[1-k]) &&
					(v.S.Sym(bo.X) == authLen || v.S.Sym(bo.Y) == authLen) {
					// edge k comes from the block entered on needsAuth == true
					pk := phi.Block().Preds[k]
					for _, l := range blockLits(pk) {
						if l.Kind == "true" && l.Pos && strings.HasPrefix(v.S.Sym(l.X), "phi(") &&
							strings.Contains(v.S.Sym(l.X), "hasValidAuth") {
							authOK = true
						}
					}
				}
			}
		}
		if len(miss) > 0 || !authOK {
			c.Fail("S1-size-bound", construct, usePos[i], fmt.Sprintf(
				"hdrLen misses %v; auth length added on the needsAuth edge: %v", miss, authOK))
			continue
		}
		c.OK("S1-size-bound", construct, usePos[i],
			"min(len(RawPacket), MaxSCMPPacketLen − (CmnHdrLen+AddrHdrLen+Path.Len+ScmpHeaderSize [+e2eAuthHdrLen if needsAuth]))")
	}
	// ScmpHeaderSize argument is the type of the message being built
	v.RequireCallArgs("S1-size-bound", 1, "pkg/slayers.ScmpHeaderSize",
		"(pkg/slayers.SCMPTypeCode).Type(local:scmpH.TypeCode)")
	v.RequireCallArgs("S1-size-bound", 1, "(*pkg/slayers.SCION).AddrHdrLen", "local:scionL")

	// T1: constant tables
	sizes := map[string]int{"SCMPTypeDestinationUnreachable": 8, "SCMPTypePacketTooBig": 8,
		"SCMPTypeParameterProblem": 8, "SCMPTypeExternalInterfaceDown": 20,
		"SCMPTypeInternalConnectivityDown": 28, "SCMPTypeEchoRequest": 8, "SCMPTypeEchoReply": 8,
		"SCMPTypeTracerouteRequest": 24, "SCMPTypeTracerouteReply": 24}
	layerOf := map[string]string{"SCMPTypeDestinationUnreachable": "SCMPDestinationUnreachable",
		"SCMPTypePacketTooBig": "SCMPPacketTooBig", "SCMPTypeParameterProblem": "SCMPParameterProblem",
		"SCMPTypeExternalInterfaceDown": "SCMPExternalInterfaceDown",
		"SCMPTypeInternalConnectivityDown": "SCMPInternalConnectivityDown",
		"SCMPTypeEchoRequest": "SCMPEcho", "SCMPTypeEchoReply": "SCMPEcho",
		"SCMPTypeTracerouteRequest": "SCMPTraceroute", "SCMPTypeTracerouteReply": "SCMPTraceroute"}
	if hs := c.Fn("pkg/slayers.ScmpHeaderSize"); hs != nil {
		max := 0
		for tn, want := range sizes {
			out := EvalFn(c, hs, []string{c.Const("pkg/slayers." + tn)}, noInlineDefault)
			got := "?"
			if len(out.Ret) == 1 {
				got = out.Ret[0]
			}
			c.Check(got == fmt.Sprint(want), "T1-scmp-header-sizes", "ScmpHeaderSize:"+tn, hs.Pos(),
				fmt.Sprintf("= %s, specified %d", got, want))
			if want > max {
				max = want
			}
			// agreement with the message layer's serializer: 4 + PrependBytes(n)
			if ser := c.Fn("(*pkg/slayers." + layerOf[tn] + ").SerializeTo"); ser != nil {
				sv := ViewOf(c, ser)
				n := int64(-1)
				for _, ci := range sv.Calls("invoke:github.com/gopacket/gopacket.SerializeBuffer.PrependBytes") {
					if k, ok := foldInt(ci.In.Common().Args[0]); ok {
						n = k
					}
				}
				c.Check(int(n)+4 == want, "T1-scmp-header-sizes", "layer-size:"+tn, ser.Pos(),
					fmt.Sprintf("%s prepends %d bytes; ScmpHeaderSize must be 4 + that = %d", layerOf[tn], n, want))
			}
		}
		c.Check(c.Const("pkg/slayers.MaxSCMPHeaderSize") == fmt.Sprint(max), "T1-scmp-header-sizes",
			"MaxSCMPHeaderSize", hs.Pos(), fmt.Sprintf("must be %d", max))
		c.Check(maxLen == "1232", "T1-scmp-header-sizes", "MaxSCMPPacketLen", hs.Pos(), "must be 1232")
		c.Check(authLen == "32", "T1-scmp-header-sizes", "e2eAuthHdrLen", hs.Pos(), "must be 2+2+12+16 = 32")
	}

	// N1: no error for error
	if pv := c.View(spT + ".packSCMP"); pv != nil {
		pe := NewE1(c, pv.Fn)
		sinks := pe.CallSites(spT + ".prepareSCMP")
		c.Min("packSCMP:prepareSCMP", len(sinks), 1)
		next := "invoke:github.com/gopacket/gopacket.DecodingLayer.NextLayerType(recv.lastLayer; )"
		pe.Require("N1-no-error-for-error", "prepareSCMP", nil, sinks,
			Or("not-SCMP-or-InfoMsg",
				pe.AtomGuard("a", "-eq(global:pkg/slayers.LayerTypeSCMP, "+next+")"),
				pe.AtomGuard("b", "+true((pkg/slayers.SCMPTypeCode).InfoMsg(local:scmpLayer.TypeCode))")))
		pv.RequireCallArgs("N1-no-error-for-error", 1, "(*pkg/slayers.SCMP).DecodeFromBytes", "local:scmpLayer",
			"invoke:github.com/gopacket/gopacket.DecodingLayer.LayerPayload(recv.lastLayer; )")
		pe.Require("N1-no-error-for-error", "success-returns", nil, pe.SuccessReturns(),
			pe.CallGuard(PassErrNil, spT+".prepareSCMP"))
	}
	// who may call prepareSCMP / packSCMP
	callers := map[string]bool{}
	for f := range c.Prog.AllFuncs() {
		if f.Blocks == nil || f.Pkg == nil || f.Pkg.Pkg.Path() != modPath+"/router" {
			continue
		}
		for _, b := range f.Blocks {
			for _, in := range b.Instrs {
				if ci, ok := in.(ssa.CallInstruction); ok && calleeName(ci.Common()) == spT+".prepareSCMP" {
					callers[FuncName(f)] = true
				}
			}
		}
	}
	for n := range callers {
		c.Check(n == spT+".packSCMP", "N1-no-error-for-error", "prepareSCMP-caller:"+n, 0,
			"prepareSCMP may only be called through packSCMP (which drops errors about SCMP errors)")
	}
	c.Min("prepareSCMP:callers", len(callers), 1)
	if fi := c.Fn("(pkg/slayers.SCMPTypeCode).InfoMsg"); fi != nil {
		// informational ⇔ type > 127 (RFC 4443 convention used by SCMP)
		ie := ViewOf(c, fi)
		ok := false
		for _, b := range fi.Blocks {
			if r, isR := b.Instrs[len(b.Instrs)-1].(*ssa.Return); isR {
				s := ie.S.Sym(r.Results[0])
				ok = s == "((pkg/slayers.SCMPTypeCode).Type(recv) > 127:pkg/slayers.SCMPType)" ||
					s == "((pkg/slayers.SCMPTypeCode).Type(recv) >= 128:pkg/slayers.SCMPType)"
			}
		}
		c.Check(ok, "N1-no-error-for-error", "InfoMsg-threshold", fi.Pos(), "InfoMsg ⇔ Type() > 127")
	}

	// C1: checksum
	v.RequireStore("C1-checksum", 1, "local:complit.ComputeChecksums", "true")
	v.RequireStore("C1-checksum", 1, "local:complit.FixLengths", "true")
	setNL := v.Calls("(*pkg/slayers.SCMP).SetNetworkLayerForChecksum")
	okNL := len(setNL) == 1 && setNL[0].Args[0] == "local:scmpH" && setNL[0].Args[1] == "local:scionL"
	sers := append(v.Calls("(*pkg/slayers.SCMP).SerializeTo"), v.Calls("github.com/gopacket/gopacket.SerializeLayers")...)
	for _, s := range sers {
		if !okNL || !instrDominates(setNL[0].In.(ssa.Instruction), s.In.(ssa.Instruction)) {
			okNL = false
		}
	}
	c.Check(okNL && len(sers) >= 3, "C1-checksum", v.Name()+":pseudo-header-layer-set-before-serialization",
		fn.Pos(), fmt.Sprintf("SetNetworkLayerForChecksum(&scmpH, &scionL) dominates %d SCMP serializations", len(sers)))
	if ser := c.View("(*pkg/slayers.SCMP).SerializeTo"); ser != nil {
		se := NewE1(c, ser.Fn)
		cs := se.CallSites("(*pkg/slayers.SCION).computeChecksum", "(*pkg/slayers.SCMP).computeChecksum",
			"pkg/slayers.*computeChecksum*", "(*pkg/slayers.SCION).*hecksum*")
		c.Min("SCMP.SerializeTo:checksum-computation", len(cs), 1)
		// the checksum is computed whenever ComputeChecksums is requested: the
		// success return is reached either with the option off or after computing.
		se.Require("C1-checksum", "success-returns", nil, se.SuccessReturns(),
			Or("checksum-off-or-computed", se.AtomGuard("off", "-true(arg1.ComputeChecksums)"),
				se.CallGuard(PassErrNil, "(*pkg/slayers.SCION).computeChecksum", "(*pkg/slayers.SCMP).computeChecksum")))
	}

	// A1: authenticator present when needed
	scionSer := e.CallSites("(*pkg/slayers.SCION).SerializeTo")
	c.Min("prepareSCMP:SCION.SerializeTo", len(scionSer), 1)
	e.Require("A1-authenticator", "SCION.SerializeTo", nil, scionSer,
		Or("no-auth-needed-or-cmac-computed",
			e.AtomGuard("noauth", "-true(phi(false | *hasValidAuth*))"),
			e.CallGuard(PassErrNil, "pkg/spao.ComputeAuthCMAC")))
	e.Require("A1-authenticator", "SCION.SerializeTo:e2e-extension", nil, scionSer,
		Or("no-auth-needed-or-e2e-serialized",
			e.AtomGuard("noauth", "-true(phi(false | *hasValidAuth*))"),
			e.CallGuard(PassErrNil, "(*pkg/slayers.EndToEndExtn).SerializeTo")))
	v.RequireStore("A1-authenticator", 1, "local:complit.ScionLayer", "local:scionL")
	v.RequireStore("A1-authenticator", 1, "local:complit.PldType", c.Const("pkg/slayers.L4SCMP"))
	v.RequireStore("A1-authenticator", 1, "local:complit.Pld", "(*router.serializeProxy).Bytes(local:serBuf)")
	v.RequireStore("A1-authenticator", 1, "local:complit.Header", "recv.optAuth")
	v.RequireCallArgs("A1-authenticator", 1, "pkg/spao.ComputeAuthCMAC", "", "",
		"(pkg/slayers.PacketAuthOption).Authenticator(recv.optAuth)")
	v.RequireStore("A1-authenticator", 1, "local:slicelit[0]", "recv.optAuth.EndToEndOption")
}
