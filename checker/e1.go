package main

import (
	"fmt"
	"go/constant"
	"go/token"
	"go/types"
	"strings"

	"golang.org/x/tools/go/ssa"
)

// ---------------------------------------------------------------------------
// Literals: what a CFG edge tells us.

// Lit is a signed atom established on a CFG edge.
//
//	Kind "eq":   X == Y      (Pos=false: X != Y)
//	Kind "lt":   X <  Y      (Pos=false: X >= Y)
//	Kind "true": X is true   (Pos=false: X is false)
//	Kind "ok":   comma-ok of X succeeded (X is the tuple-producing instruction)
type Lit struct {
	Kind string
	X, Y ssa.Value
	Pos  bool
}

func (l Lit) Neg() Lit { l.Pos = !l.Pos; return l }

func (l Lit) String(s *Symer) string {
	sign := "+"
	if !l.Pos {
		sign = "-"
	}
	if l.Kind == "true" || l.Kind == "ok" {
		return sign + l.Kind + "(" + s.Sym(l.X) + ")"
	}
	x, y := s.Sym(l.X), s.Sym(l.Y)
	if l.Kind == "eq" && symLess(l.Y, l.X, y, x) {
		x, y = y, x
	}
	return sign + l.Kind + "(" + x + ", " + y + ")"
}

// symLess orders operands of commutative operators: non-constants first (by
// rendered form), constants last.
func symLess(a, b ssa.Value, sa, sb string) bool {
	_, ca := a.(*ssa.Const)
	_, cb := b.(*ssa.Const)
	if ca != cb {
		return cb
	}
	return sa < sb
}

// condLits returns the literals that hold when cond evaluates to val.
func condLits(cond ssa.Value, val bool) []Lit {
	switch c := cond.(type) {
	case *ssa.UnOp:
		if c.Op == token.NOT {
			return condLits(c.X, !val)
		}
	case *ssa.BinOp:
		switch c.Op {
		case token.EQL, token.NEQ:
			pos := val
			if c.Op == token.NEQ {
				pos = !val
			}
			out := []Lit{{Kind: "eq", X: c.X, Y: c.Y, Pos: pos}}
			// a comparison with a boolean constant (`f(x) == Deny` where Deny is false)
			// also says that the other operand is true / false
			for _, p := range [][2]ssa.Value{{c.X, c.Y}, {c.Y, c.X}} {
				if k, isK := p[1].(*ssa.Const); isK {
					if bv, okb := constBool(k); okb {
						out = append(out, condLits(p[0], pos == bv)...)
					}
				}
			}
			return out
		case token.LSS:
			return []Lit{{Kind: "lt", X: c.X, Y: c.Y, Pos: val}}
		case token.GEQ:
			return []Lit{{Kind: "lt", X: c.X, Y: c.Y, Pos: !val}}
		case token.GTR:
			return []Lit{{Kind: "lt", X: c.Y, Y: c.X, Pos: val}}
		case token.LEQ:
			return []Lit{{Kind: "lt", X: c.Y, Y: c.X, Pos: !val}}
		}
	case *ssa.Extract:
		// comma-ok second component
		switch t := c.Tuple.(type) {
		case *ssa.TypeAssert, *ssa.Lookup:
			if c.Index == 1 {
				return []Lit{{Kind: "ok", X: t, Pos: val}, {Kind: "true", X: cond, Pos: val}}
			}
		case *ssa.UnOp:
			if t.Op == token.ARROW && c.Index == 1 {
				return []Lit{{Kind: "ok", X: t, Pos: val}, {Kind: "true", X: cond, Pos: val}}
			}
		}
	}
	return []Lit{{Kind: "true", X: cond, Pos: val}}
}

// edgeLits returns the literals established by taking successor idx of block b,
// when b was entered from pred (pred may be nil = unknown). feasible=false means
// the edge cannot be taken on that entry (constant phi operand).
func edgeLits(b *ssa.BasicBlock, idx int, pred *ssa.BasicBlock) (lits []Lit, feasible bool) {
	if len(b.Instrs) == 0 {
		return nil, true
	}
	ifi, ok := b.Instrs[len(b.Instrs)-1].(*ssa.If)
	if !ok {
		return nil, true
	}
	cond := ifi.Cond
	val := idx == 0
	neg := false
	for {
		u, ok := cond.(*ssa.UnOp)
		if !ok || u.Op != token.NOT {
			break
		}
		cond = u.X
		neg = !neg
	}
	if neg {
		val = !val
	}
	if phi, ok := cond.(*ssa.Phi); ok && phi.Block() == b && pred != nil {
		for i, p := range b.Preds {
			if p == pred {
				op := phi.Edges[i]
				if k, ok := op.(*ssa.Const); ok && k.Value != nil && k.Value.Kind() == constant.Bool {
					if constant.BoolVal(k.Value) != val {
						return nil, false
					}
					return nil, true
				}
				return condLits(op, val), true
			}
		}
	}
	if k, ok := cond.(*ssa.Const); ok && k.Value != nil && k.Value.Kind() == constant.Bool {
		return nil, constant.BoolVal(k.Value) == val
	}
	lits = condLits(cond, val)
	if pred == nil {
		return lits, true
	}
	// A comparison of a phi of THIS block: on the entry from pred the phi is its operand for
	// pred ("disposition chaining": disp = f(); if disp == ok { disp = g() }; if disp == ok {...}).
	// The substituted literal is ADDED to the original one (both hold on this edge): guards
	// written against the phi form keep matching.
	for _, orig := range append([]Lit{}, lits...) {
		l, changed := orig, false
		for _, side := range []*ssa.Value{&l.X, &l.Y} {
			if *side == nil {
				continue
			}
			if phi, isPhi := (*side).(*ssa.Phi); isPhi && phi.Block() == b {
				for k, p := range b.Preds {
					if p == pred {
						*side = phi.Edges[k]
						changed = true
					}
				}
			}
		}
		if !changed {
			continue
		}
		if l.Kind == "eq" {
			if kx, okx := l.X.(*ssa.Const); okx {
				if ky, oky := l.Y.(*ssa.Const); oky && kx.Value != nil && ky.Value != nil &&
					kx.Value.Kind() == ky.Value.Kind() {
					if constant.Compare(kx.Value, token.EQL, ky.Value) != l.Pos {
						return nil, false
					}
					continue
				}
			}
		}
		lits = append(lits, l)
	}
	// ... and the literal must not contradict the one established by the edge pred -> b
	for pi, ps := range pred.Succs {
		if ps != b || (len(pred.Succs) == 2 && pred.Succs[0] == pred.Succs[1]) {
			continue
		}
		in, _ := edgeLits(pred, pi, nil)
		for _, l := range lits {
			// an operand computed in b itself is a new instance on this entry (a loop body
			// re-entered from its own latch): the literal of the entering edge talks about
			// the previous one
			if definedInBlock(l.X, b) || definedInBlock(l.Y, b) {
				continue
			}
			for _, m := range in {
				if l.Kind == m.Kind && l.Pos != m.Pos && sameOperand(l.X, m.X) && (l.Kind != "eq" && l.Kind != "lt" || sameOperand(l.Y, m.Y)) {
					return nil, false
				}
			}
		}
	}
	return lits, true
}

// definedInBlock: v, or something v is computed from within the same block, is an
// instruction of block b.
func definedInBlock(v ssa.Value, b *ssa.BasicBlock) bool {
	if v == nil {
		return false
	}
	in, ok := v.(ssa.Instruction)
	return ok && in.Block() == b
}

func sameOperand(a, b ssa.Value) bool {
	if a == b {
		return true
	}
	ka, ok1 := a.(*ssa.Const)
	kb, ok2 := b.(*ssa.Const)
	if ok1 && ok2 && ka.Value != nil && kb.Value != nil {
		return constant.Compare(ka.Value, token.EQL, kb.Value)
	}
	return false
}

// ---------------------------------------------------------------------------
// Guards

// Guard decides whether a literal establishes the guarded fact.
type Guard struct {
	Name  string
	Match func(l Lit) bool
	// found is incremented whenever an instance of the guard's construct is
	// seen in the function (used for minimum-instance accounting).
	Sites func(fn *ssa.Function) int
	// Delegates reports whether returning v directly hands the decision to the
	// guard (`return G(x)`): such a return is successful only if G passed.
	Delegates func(v ssa.Value) bool
}

// resultOf strips Extract and reports whether v is (a component of) the result
// of call instruction satisfying pred.
func callOf(v ssa.Value) (*ssa.Call, int) {
	switch x := v.(type) {
	case *ssa.Call:
		return x, -1
	case *ssa.Extract:
		if c, ok := x.Tuple.(*ssa.Call); ok {
			return c, x.Index
		}
	}
	return nil, -1
}

func isNilConst(v ssa.Value) bool {
	c, ok := v.(*ssa.Const)
	return ok && c.Value == nil
}

func constInt(v ssa.Value) (int64, bool) {
	c, ok := v.(*ssa.Const)
	if !ok || c.Value == nil {
		return 0, false
	}
	if c.Value.Kind() != constant.Int {
		return 0, false
	}
	i, ok := constant.Int64Val(c.Value)
	return i, ok
}

func constBool(v ssa.Value) (bool, bool) {
	c, ok := v.(*ssa.Const)
	if !ok || c.Value == nil || c.Value.Kind() != constant.Bool {
		return false, false
	}
	return constant.BoolVal(c.Value), true
}

// PassKind says which outcome of a call result means "check passed".
type PassKind int

const (
	PassAuto    PassKind = iota // by result type: error→nil, disposition→pForward, bool→true
	PassErrNil                  // (…, error): error == nil
	PassTrue                    // bool result true
	PassFalse                   // bool result false
	PassNonZero                 // int result != 0 (subtle.ConstantTimeCompare)
	PassZero                    // int result == 0 (Compare() == 0)
	PassFwd                     // disposition == pForward
	PassNonNil                  // pointer/interface result != nil
	PassOK                      // comma-ok true
)

func isErrorType(t types.Type) bool {
	n, ok := t.(*types.Named)
	return ok && n.Obj().Pkg() == nil && n.Obj().Name() == "error"
}

func isDisposition(t types.Type) bool {
	n, ok := t.(*types.Named)
	return ok && n.Obj().Name() == "disposition" && n.Obj().Pkg() != nil &&
		n.Obj().Pkg().Path() == modPath+"/router"
}

func autoPass(sig *types.Signature) PassKind {
	res := sig.Results()
	if res.Len() == 0 {
		return PassAuto
	}
	last := res.At(res.Len() - 1).Type()
	switch {
	case isErrorType(last):
		return PassErrNil
	case isDisposition(last):
		return PassFwd
	}
	if b, ok := last.Underlying().(*types.Basic); ok && b.Kind() == types.Bool {
		return PassTrue
	}
	return PassAuto
}

// litPassesCall reports whether literal l says that the call c passed under kind k.
func litPassesCall(l Lit, c *ssa.Call, k PassKind) bool {
	if k == PassAuto {
		k = autoPass(c.Common().Signature())
	}
	is := func(v ssa.Value) bool {
		cc, idx := callOf(v)
		if cc != c {
			return false
		}
		n := c.Common().Signature().Results().Len()
		return idx == -1 || idx == n-1
	}
	switch k {
	case PassErrNil:
		if l.Kind == "eq" && l.Pos {
			return (is(l.X) && isNilConst(l.Y)) || (is(l.Y) && isNilConst(l.X))
		}
	case PassNonNil:
		if l.Kind == "eq" && !l.Pos {
			return (is(l.X) && isNilConst(l.Y)) || (is(l.Y) && isNilConst(l.X))
		}
	case PassTrue, PassFalse:
		want := k == PassTrue
		if l.Kind == "true" && is(l.X) {
			return l.Pos == want
		}
		if l.Kind == "eq" {
			if b, ok := constBool(l.Y); ok && is(l.X) {
				return (l.Pos == b) == want
			}
			if b, ok := constBool(l.X); ok && is(l.Y) {
				return (l.Pos == b) == want
			}
		}
	case PassNonZero, PassZero:
		var other ssa.Value
		if is(l.X) {
			other = l.Y
		} else if is(l.Y) {
			other = l.X
		} else {
			return false
		}
		if i, ok := constInt(other); ok && l.Kind == "eq" {
			if k == PassNonZero {
				if i == 0 {
					return !l.Pos
				}
				return l.Pos // == 1 etc.
			}
			if i == 0 {
				return l.Pos
			}
		}
	case PassFwd:
		var other ssa.Value
		if is(l.X) {
			other = l.Y
		} else if is(l.Y) {
			other = l.X
		} else {
			return false
		}
		if i, ok := constInt(other); ok && l.Kind == "eq" && i == 1 {
			return l.Pos
		}
	}
	return false
}

// E1 is the guard-dominance engine for one function.
type E1 struct {
	C   *Ctx
	Fn  *ssa.Function
	Sym *Symer
}

func NewE1(c *Ctx, fn *ssa.Function) *E1 {
	c.Funcs[FuncName(fn)] = true
	return &E1{C: c, Fn: fn, Sym: NewSymer()}
}

// CallGuard builds a guard satisfied by a checked call to a function whose
// rendered name matches one of names (exact match on FuncName / invoke name), or
// by a checked call to a module function that itself establishes the guard on
// all its success returns (interprocedural summary, bounded depth).
func (e *E1) CallGuard(kind PassKind, names ...string) Guard {
	return e.callGuardDepth(kind, e.C.depth, names...)
}

func nameMatches(n string, names []string) bool {
	for _, m := range names {
		if n == m {
			return true
		}
		if strings.HasSuffix(m, "*") && strings.HasPrefix(n, strings.TrimSuffix(m, "*")) {
			return true
		}
	}
	return false
}

func (e *E1) callGuardDepth(kind PassKind, depth int, names ...string) Guard {
	est := map[*ssa.Function]bool{}
	var establishes func(h *ssa.Function, d int) bool
	establishes = func(h *ssa.Function, d int) bool {
		if h == nil || h.Blocks == nil || d <= 0 {
			return false
		}
		if v, ok := est[h]; ok {
			return v
		}
		est[h] = false // recursion guard
		sub := NewE1(e.C, h)
		g := sub.callGuardDepth(kind, d-1, names...)
		// a predicate wrapper: `return guard(x) != 0` - the result is true exactly on the
		// literal that passes the guard
		if res := h.Signature.Results(); res.Len() == 1 {
			if bt, isB := res.At(0).Type().Underlying().(*types.Basic); isB && bt.Kind() == types.Bool {
				all, n := true, 0
				for _, b := range h.Blocks {
					r, isR := b.Instrs[len(b.Instrs)-1].(*ssa.Return)
					if !isR {
						continue
					}
					n++
					if k, isK := r.Results[0].(*ssa.Const); isK {
						if bv, okb := constBool(k); okb && !bv {
							continue // `return false` never passes
						}
					}
					hit := false
					for _, l := range condLits(r.Results[0], true) {
						if g.Match(l) {
							hit = true
						}
					}
					all = all && hit
				}
				if all && n > 0 {
					est[h] = true
					return true
				}
			}
		}
		sinks := sub.SuccessReturns()
		if len(sinks) == 0 {
			return false
		}
		bad := sub.Unguarded(nil, sinks, []Guard{g})
		est[h] = len(bad) == 0
		return est[h]
	}
	match := func(l Lit) bool {
		for _, v := range []ssa.Value{l.X, l.Y} {
			if v == nil {
				continue
			}
			c, _ := callOf(v)
			if c == nil {
				continue
			}
			n := calleeName(c.Common())
			if nameMatches(n, names) {
				if litPassesCall(l, c, kind) {
					return true
				}
				continue
			}
			if h := c.Common().StaticCallee(); h != nil && h.Blocks != nil && h != e.Fn {
				if inModule(h) && litPassesCall(l, c, PassAuto) &&
					establishes(h, depth) {
					return true
				}
			}
		}
		return false
	}
	delegates := func(v ssa.Value) bool {
		c, idx := callOf(v)
		if c == nil {
			return false
		}
		if idx != -1 && idx != c.Common().Signature().Results().Len()-1 {
			return false
		}
		if nameMatches(calleeName(c.Common()), names) {
			k := kind
			if k == PassAuto {
				k = autoPass(c.Common().Signature())
			}
			return k == autoPass(c.Common().Signature())
		}
		if h := c.Common().StaticCallee(); h != nil && h.Blocks != nil && h != e.Fn &&
			inModule(h) {
			return establishes(h, depth)
		}
		return false
	}
	return Guard{Name: strings.Join(names, "|"), Match: match, Delegates: delegates,
		Sites: func(fn *ssa.Function) int {
			n := 0
			for _, b := range fn.Blocks {
				for _, in := range b.Instrs {
					if ci, ok := in.(ssa.CallInstruction); ok &&
						nameMatches(calleeName(ci.Common()), names) {
						n++
					}
				}
			}
			return n
		}}
}

// AtomGuard builds a guard satisfied by a literal whose rendered form equals one
// of the given strings (see Lit.String), e.g. "+eq(arg0.ID.Base, recv.ID.Base)".
// Patterns may contain '*' wildcards.
func (e *E1) AtomGuard(name string, lits ...string) Guard {
	return Guard{Name: name, Match: func(l Lit) bool {
		s := l.String(e.Sym)
		for _, p := range lits {
			if wild(p, s) {
				return true
			}
		}
		return false
	}}
}

// Or combines guards disjunctively.
func Or(name string, gs ...Guard) Guard {
	return Guard{Name: name, Match: func(l Lit) bool {
		for _, g := range gs {
			if g.Match(l) {
				return true
			}
		}
		return false
	}, Delegates: func(v ssa.Value) bool {
		for _, g := range gs {
			if g.Delegates != nil && g.Delegates(v) {
				return true
			}
		}
		return false
	}}
}

// wild matches s against pattern p where '*' matches any (possibly empty) substring.
func wild(p, s string) bool {
	if !strings.Contains(p, "*") {
		return p == s
	}
	parts := strings.Split(p, "*")
	if !strings.HasPrefix(s, parts[0]) {
		return false
	}
	s = s[len(parts[0]):]
	for i := 1; i < len(parts); i++ {
		part := parts[i]
		if i == len(parts)-1 {
			return strings.HasSuffix(s, part)
		}
		j := strings.Index(s, part)
		if j < 0 {
			return false
		}
		s = s[j+len(part):]
	}
	return true
}

// ---------------------------------------------------------------------------
// Success returns

// statusResult returns the index of the result that carries success/failure.
func statusResult(sig *types.Signature) int {
	return sig.Results().Len() - 1
}

// errorCtor reports whether the call always returns a non-nil error.
func errorCtor(c *ssa.Call) bool {
	n := calleeName(c.Common())
	switch {
	case strings.HasPrefix(n, "pkg/private/serrors."):
		return !strings.Contains(n, "List") && !strings.Contains(n, "ToError")
	case n == "fmt.Errorf", n == "errors.New", n == "errors.Join":
		return true
	case strings.HasPrefix(n, "google.golang.org/grpc/status.Error"):
		return true
	}
	return false
}

// blockLits returns the literals known to hold on entry to block b: those of
// edges p→s where s dominates b and s has the single predecessor p.
func blockLits(b *ssa.BasicBlock) []Lit {
	var out []Lit
	for d := b; d != nil; d = d.Idom() {
		if len(d.Preds) == 1 {
			p := d.Preds[0]
			for i, s := range p.Succs {
				if s == d {
					// both successors may be the same block; then nothing is known
					if len(p.Succs) == 2 && p.Succs[0] == p.Succs[1] {
						continue
					}
					l, _ := edgeLits(p, i, nil)
					out = append(out, l...)
				}
			}
		}
	}
	return out
}

type retClass int

const (
	retFail retClass = iota
	retSuccess
	retMaybe // delegated or unknown: treated as possibly successful
)

// classify decides whether value v (a status result) at block b may be the
// success value. succ describes success for the type.
func (e *E1) classify(v ssa.Value, b *ssa.BasicBlock, seen map[ssa.Value]bool) retClass {
	t := v.Type()
	switch x := v.(type) {
	case *ssa.Const:
		switch {
		case isErrorType(t) || x.Value == nil:
			if x.Value == nil {
				if isErrorType(t) {
					return retSuccess
				}
				return retFail // nil pointer result as status: failure
			}
			return retFail
		case isDisposition(t):
			if i, ok := constInt(x); ok && i == 1 {
				return retSuccess
			}
			return retFail
		}
		if bv, ok := constBool(x); ok {
			if bv {
				return retSuccess
			}
			return retFail
		}
		return retMaybe
	case *ssa.Phi:
		if seen[v] {
			return retFail
		}
		// what the block itself knows about the merged value (`if disp != pForward { return disp }`)
		if r := refine(retMaybe, v, blockLits(b)); r != retMaybe {
			return r
		}
		seen[v] = true
		res := retFail
		for i, ed := range x.Edges {
			var c retClass
			c = e.classify(ed, x.Block().Preds[i], seen)
			// edge refinement: literals of the edge pred→phi block
			if c == retMaybe {
				p := x.Block().Preds[i]
				for si, s := range p.Succs {
					if s == x.Block() {
						ls, feas := edgeLits(p, si, nil)
						if !feas {
							c = retFail
						}
						c = refine(c, ed, ls)
					}
				}
			}
			if c == retSuccess {
				return retSuccess
			}
			if c == retMaybe {
				res = retMaybe
			}
		}
		return res
	case *ssa.MakeInterface:
		if isErrorType(t) {
			return retFail // a concrete value wrapped as error is non-nil
		}
	case *ssa.UnOp:
		if x.Op == token.MUL && isErrorType(t) {
			if _, ok := x.X.(*ssa.Global); ok {
				return retFail // sentinel error variable
			}
		}
		if x.Op == token.NOT {
			switch e.classify(x.X, b, seen) {
			case retSuccess:
				return retFail
			case retFail:
				return retSuccess
			}
			return retMaybe
		}
	case *ssa.Call:
		if isErrorType(t) && errorCtor(x) {
			return retFail
		}
		if h := x.Common().StaticCallee(); h != nil && h.Blocks != nil && e.alwaysFails(h, 3) {
			return retFail
		}
	}
	return refine(retMaybe, v, blockLits(b))
}

// alwaysFails reports whether every return of h yields a failure status
// (e.g. errorDiscard always returns pDiscard).
func (e *E1) alwaysFails(h *ssa.Function, depth int) bool {
	if depth <= 0 || h.Signature.Results().Len() == 0 {
		return false
	}
	t := h.Signature.Results().At(h.Signature.Results().Len() - 1).Type()
	if !isErrorType(t) && !isDisposition(t) {
		return false
	}
	sub := &E1{C: e.C, Fn: h, Sym: e.Sym}
	idx := statusResult(h.Signature)
	n := 0
	for _, b := range h.Blocks {
		r, ok := b.Instrs[len(b.Instrs)-1].(*ssa.Return)
		if !ok {
			continue
		}
		n++
		if sub.classify(RetVal(r, idx), b, map[ssa.Value]bool{}) != retFail {
			return false
		}
	}
	return n > 0
}

// refine uses literals about v to turn "maybe" into success/failure.
func refine(c retClass, v ssa.Value, lits []Lit) retClass {
	if c != retMaybe {
		return c
	}
	t := v.Type()
	for _, l := range lits {
		switch l.Kind {
		case "eq":
			var other ssa.Value
			if l.X == v {
				other = l.Y
			} else if l.Y == v {
				other = l.X
			} else {
				continue
			}
			switch {
			case isErrorType(t) && isNilConst(other):
				if l.Pos {
					return retSuccess
				}
				return retFail
			case isDisposition(t):
				if i, ok := constInt(other); ok && i == 1 {
					if l.Pos {
						return retSuccess
					}
					return retFail
				}
			}
		case "true":
			if l.X == v {
				if l.Pos {
					return retSuccess
				}
				return retFail
			}
		}
	}
	return c
}

// SuccessReturns lists the Return instructions of the function whose status
// result may be the success value (nil error / pForward / true).
func (e *E1) SuccessReturns() []ssa.Instruction {
	var out []ssa.Instruction
	sig := e.Fn.Signature
	if sig.Results().Len() == 0 {
		for _, b := range e.Fn.Blocks {
			if r, ok := b.Instrs[len(b.Instrs)-1].(*ssa.Return); ok {
				out = append(out, r)
			}
		}
		return out
	}
	idx := statusResult(sig)
	for _, b := range e.Fn.Blocks {
		r, ok := b.Instrs[len(b.Instrs)-1].(*ssa.Return)
		if !ok || b == e.Fn.Recover {
			// the recover block's return only reloads the result variables after a
			// recovered panic; it is not a return statement of the source
			continue
		}
		if e.classify(RetVal(r, idx), b, map[ssa.Value]bool{}) != retFail {
			out = append(out, r)
		}
	}
	return out
}

// ReturnsOf lists Return instructions whose status result classifies as want.
func (e *E1) AllReturns() []ssa.Instruction {
	var out []ssa.Instruction
	for _, b := range e.Fn.Blocks {
		if r, ok := b.Instrs[len(b.Instrs)-1].(*ssa.Return); ok {
			out = append(out, r)
		}
	}
	return out
}

// ---------------------------------------------------------------------------
// Reachability with pass edges removed

type edgeKey struct {
	from *ssa.BasicBlock
	to   *ssa.BasicBlock
}

// Witness describes one unguarded path.
type Witness struct {
	Sink ssa.Instruction
	Path []*ssa.BasicBlock
}

func instrIndex(in ssa.Instruction) int {
	for i, x := range in.Block().Instrs {
		if x == in {
			return i
		}
	}
	return -1
}

// Unguarded returns the sinks reachable from start (nil = function entry; else
// the instruction after which the path starts) along a path that traverses no
// pass edge of any of the given guards (the guards are alternatives: passing
// any one of them suffices).
func (e *E1) Unguarded(start ssa.Instruction, sinks []ssa.Instruction, guards []Guard) []Witness {
	type state struct{ pred, blk *ssa.BasicBlock }
	sinkIn := map[*ssa.BasicBlock][]ssa.Instruction{}
	for _, s := range sinks {
		sinkIn[s.Block()] = append(sinkIn[s.Block()], s)
	}
	var startBlk *ssa.BasicBlock
	startIdx := -1
	if start == nil {
		startBlk = e.Fn.Blocks[0]
	} else {
		startBlk = start.Block()
		startIdx = instrIndex(start)
	}
	parent := map[state]state{}
	visited := map[state]bool{}
	first := state{nil, startBlk}
	queue := []state{first}
	visited[first] = true
	var out []Witness
	reported := map[ssa.Instruction]bool{}
	pathTo := func(s state) []*ssa.BasicBlock {
		var p []*ssa.BasicBlock
		for cur := s; ; {
			p = append([]*ssa.BasicBlock{cur.blk}, p...)
			if cur == first {
				break
			}
			cur = parent[cur]
		}
		return p
	}
	for len(queue) > 0 {
		st := queue[0]
		queue = queue[1:]
		e.C.Paths++
		for _, s := range sinkIn[st.blk] {
			if st == first && startIdx >= 0 && instrIndex(s) <= startIdx {
				continue
			}
			if ret, ok := s.(*ssa.Return); ok && len(ret.Results) > 0 {
				del := false
				rv := RetVal(ret, len(ret.Results)-1)
				for _, g := range guards {
					if g.Delegates != nil && g.Delegates(rv) {
						del = true
					}
				}
				if del {
					continue
				}
			}
			if !reported[s] {
				reported[s] = true
				out = append(out, Witness{Sink: s, Path: pathTo(st)})
			}
		}
		for i, succ := range st.blk.Succs {
			lits, feasible := edgeLits(st.blk, i, st.pred)
			if !feasible {
				continue
			}
			if len(st.blk.Succs) == 2 && st.blk.Succs[0] == st.blk.Succs[1] {
				lits = nil
			}
			pass := false
			for _, l := range lits {
				for _, g := range guards {
					if g.Match(l) {
						pass = true
					}
				}
			}
			if pass {
				continue
			}
			ns := state{st.blk, succ}
			if !visited[ns] {
				visited[ns] = true
				parent[ns] = st
				queue = append(queue, ns)
			}
		}
	}
	return out
}

func (e *E1) pathString(w Witness) string {
	var parts []string
	for _, b := range w.Path {
		if len(b.Instrs) == 0 {
			continue
		}
		last := b.Instrs[len(b.Instrs)-1]
		pos := last.Pos()
		if !pos.IsValid() {
			for _, in := range b.Instrs {
				if in.Pos().IsValid() {
					pos = in.Pos()
				}
			}
		}
		parts = append(parts, fmt.Sprintf("b%d@%s", b.Index, e.C.Prog.Pos(pos)))
	}
	if len(parts) > 8 {
		parts = append(parts[:4], append([]string{"…"}, parts[len(parts)-3:]...)...)
	}
	return strings.Join(parts, " → ")
}

func sinkPos(in ssa.Instruction) token.Pos {
	if in.Pos().IsValid() {
		return in.Pos()
	}
	for _, x := range in.Block().Instrs {
		if x.Pos().IsValid() {
			return x.Pos()
		}
	}
	return in.Parent().Pos()
}

// Require records one obligation per guard: every path from start to any sink
// passes the guard. rule is the rule id; the construct is "<fn>:<what>:<guard>".
func (e *E1) Require(rule, what string, start ssa.Instruction, sinks []ssa.Instruction,
	guards ...Guard) {
	fname := FuncName(e.Fn)
	if len(sinks) == 0 {
		e.C.Fail(rule, fname+":"+what, e.Fn.Pos(), "no sink found (anchor unresolved)")
		return
	}
	for _, g := range guards {
		construct := fname + ":" + what + ":" + g.Name
		ws := e.Unguarded(start, sinks, []Guard{g})
		if len(ws) == 0 {
			e.C.OK(rule, construct, e.Fn.Pos(),
				fmt.Sprintf("%d sink(s) all behind a pass edge of %s", len(sinks), g.Name))
			continue
		}
		w := ws[0]
		e.C.Fail(rule, construct, sinkPos(w.Sink),
			fmt.Sprintf("sink at %s reachable without passing %s; path %s (%d sink(s) affected)",
				e.C.Prog.Pos(sinkPos(w.Sink)), g.Name, e.pathString(w), len(ws)))
	}
}

// CallSites returns the call instructions of fn whose callee name matches.
func (e *E1) CallSites(names ...string) []ssa.Instruction {
	var out []ssa.Instruction
	for _, b := range e.Fn.Blocks {
		for _, in := range b.Instrs {
			if ci, ok := in.(ssa.CallInstruction); ok &&
				nameMatches(calleeName(ci.Common()), names) {
				out = append(out, in)
				e.C.Calls++
			}
		}
	}
	return out
}

// FailStop records, for a guard G that is tested inside the function (possibly
// inside a loop over all elements): every branch whose one edge is a pass edge
// of G has an opposite edge from which no success return is reachable without
// passing G (a failed check ends in failure). At least min such branches must
// exist. This is the "holds for every element" form of guard dominance: the
// loop may run zero times, but an element that fails the check fails the
// function.
func (e *E1) FailStop(rule, what string, min int, g Guard) {
	fname := FuncName(e.Fn)
	construct := fname + ":" + what + ":" + g.Name
	succ := e.SuccessReturns()
	n := 0
	for _, b := range e.Fn.Blocks {
		if len(b.Succs) != 2 || b.Succs[0] == b.Succs[1] {
			continue
		}
		for i := range b.Succs {
			lits, feas := edgeLits(b, i, nil)
			if !feas {
				continue
			}
			pass := false
			for _, l := range lits {
				if g.Match(l) {
					pass = true
				}
			}
			if !pass {
				continue
			}
			n++
			other := b.Succs[1-i]
			// reachability from the failing successor, not crossing pass edges of g
			start := other.Instrs[0]
			ws := e.unguardedFromBlock(other, succ, []Guard{g})
			if len(ws) > 0 {
				e.C.Fail(rule, construct, sinkPos(start), fmt.Sprintf(
					"the failing branch of %s at %s can still reach the success return at %s",
					g.Name, e.C.Prog.Pos(sinkPos(b.Instrs[len(b.Instrs)-1])),
					e.C.Prog.Pos(sinkPos(ws[0].Sink))))
				return
			}
		}
	}
	if n < min {
		e.C.Fail(rule, construct, e.Fn.Pos(), fmt.Sprintf(
			"found %d checked occurrence(s) of %s, required %d", n, g.Name, min))
		return
	}
	e.C.OK(rule, construct, e.Fn.Pos(), fmt.Sprintf(
		"%d checked occurrence(s); every failing branch ends in failure", n))
}

// unguardedFromBlock is Unguarded starting at the first instruction of blk.
func (e *E1) unguardedFromBlock(blk *ssa.BasicBlock, sinks []ssa.Instruction, guards []Guard) []Witness {
	type state struct{ pred, blk *ssa.BasicBlock }
	sinkIn := map[*ssa.BasicBlock][]ssa.Instruction{}
	for _, s := range sinks {
		sinkIn[s.Block()] = append(sinkIn[s.Block()], s)
	}
	visited := map[state]bool{}
	queue := []state{{nil, blk}}
	visited[queue[0]] = true
	var out []Witness
	for len(queue) > 0 {
		st := queue[0]
		queue = queue[1:]
		e.C.Paths++
		for _, s := range sinkIn[st.blk] {
			del := false
			if ret, ok := s.(*ssa.Return); ok && len(ret.Results) > 0 {
				rv := RetVal(ret, len(ret.Results)-1)
				for _, g := range guards {
					if g.Delegates != nil && g.Delegates(rv) {
						del = true
					}
				}
			}
			if !del {
				out = append(out, Witness{Sink: s})
			}
		}
		for i, succ := range st.blk.Succs {
			lits, feasible := edgeLits(st.blk, i, st.pred)
			if !feasible {
				continue
			}
			if len(st.blk.Succs) == 2 && st.blk.Succs[0] == st.blk.Succs[1] {
				lits = nil
			}
			pass := false
			for _, l := range lits {
				for _, g := range guards {
					if g.Match(l) {
						pass = true
					}
				}
			}
			if pass {
				continue
			}
			ns := state{st.blk, succ}
			if !visited[ns] {
				visited[ns] = true
				queue = append(queue, ns)
			}
		}
	}
	return out
}
