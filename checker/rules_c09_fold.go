package main

import (
	"fmt"

	"golang.org/x/tools/go/ssa"
)

// C09, "the checksum of every generated SCMP error is valid": the SCMP serializer
// finishes its checksum with SCION.foldChecksum. Every narrowing conversion in
// foldChecksum is reached only where its operand is established to fit (no carry
// of the one's-complement sum is dropped). Same rule as C20 F1, registered under
// C09 because prepareSCMP's output depends on it.
func init() {
	addMutants(
		Mutant{Prop: "C09", Name: "checksum-folded-once", File: "pkg/slayers/scion.go",
			Old: `	for csum > 0xffff {`, New: `	if csum > 0xffff {`, Expect: "F1-checksum-fold-lossless"},
	)
}

func checksumFoldLossless(c *Ctx, rule string) {
	v := c.View("(*pkg/slayers.SCION).foldChecksum")
	if v == nil {
		return
	}
	e := NewE1(c, v.Fn)
	n := 0
	for _, b := range v.Fn.Blocks {
		for _, in := range b.Instrs {
			cv, ok := in.(*ssa.Convert)
			if !ok || typeBits(cv.Type()) >= typeBits(cv.X.Type()) {
				continue
			}
			n++
			limit := int64(1)<<typeBits(cv.Type()) - 1
			x := cv.X
			g := Guard{Name: fmt.Sprintf("operand <= %#x", limit), Match: func(l Lit) bool {
				if l.Kind != "lt" || l.Pos {
					return false
				}
				k, isK := foldInt(l.X)
				return isK && k <= limit && (l.Y == x || stripConv(l.Y) == x)
			}}
			ws := e.Unguarded(nil, []ssa.Instruction{cv}, []Guard{g})
			c.Check(len(ws) == 0, rule, v.Name()+":narrowing:"+v.S.Sym(cv), cv.Pos(), fmt.Sprintf(
				"conversion to %s is reached only where its operand <= %#x is established (no carry is dropped)", cv.Type(), limit))
		}
	}
	c.Min("foldChecksum:narrowing-conversions", n, 1)
}
