package main

import (
	"fmt"
	"go/token"
	"sort"
	"strings"

	"golang.org/x/tools/go/ssa"
)

const udpT = "router/underlayproviders/udpip"

func init() {
	register(&PropRule{
		ID:    "C14",
		Roots: []string{"./router/..."},
		Explain: "Decides, path-sensitively on the CFG of every function that acquires a *router.Packet " +
			"(PacketPool.Get, a receive from a packet channel, an owning parameter, a load from the " +
			"receive batch): on every path to the function's exit or back to the acquisition point the " +
			"packet is handed over exactly once (Put, channel send, Link.Send==true, SendBlocking, " +
			"owning callee, container store, return) - no leak, no double hand-over, no use after " +
			"hand-over; Link.Send implementations return true iff they enqueued; the batch receiver " +
			"recomputes its count of reusable buffers on every path through the loop; PacketPool.Get/" +
			"Put are called only from the audited functions. NOT decided: the batch bookkeeping of " +
			"udpConnection.send (index arithmetic on toWrite/written), packets still queued at " +
			"shutdown, cross-goroutine interleavings (hand-over is by channel, so single ownership " +
			"is a per-path property).",
		Run:          runC14,
		ExtraConfigs: [][]string{{"GOARCH=386"}},
	})
	setClaim("C14", claim{
		Text: "Linear-resource typestate over the SSA CFG of all packet-handling functions of the " +
			"router and the udpip underlay (path-sensitive on Send results, select cases, comma-ok), " +
			"a loop-carried-counter freshness rule for the batch receiver, and a who-may-call table " +
			"for PacketPool.Get/Put.",
		Note: claimNote, Technique: "static analysis: ownership typestate (path-sensitive dataflow on " +
			"go/ssa), phi freshness check, who-may-call", Ref: "DESIGN.md §4 C14, §3 E4"})
	addMutants(
		Mutant{Prop: "C14", Name: "leak-busy-slowpath", File: "router/dataplane.go",
			Old: `				metrics[sc].DroppedPacketsBusySlowPath.Inc()
				d.packetPool.Put(p)`, New: `				metrics[sc].DroppedPacketsBusySlowPath.Inc()`,
			Expect: "O1-single-owner"},
		Mutant{Prop: "C14", Name: "double-put-after-enqueue", File: "router/underlayproviders/udpip/udpip.go",
			Old: `	select {
	case l.procQs[procID] <- p:
	default:
		l.pool.Put(p)
		metrics[sc].DroppedPacketsBusyProcessor.Inc()
	}
}

// A detached link`, New: `	select {
	case l.procQs[procID] <- p:
		if len(l.procQs[procID]) == cap(l.procQs[procID]) {
			l.pool.Put(p)
		}
	default:
		l.pool.Put(p)
		metrics[sc].DroppedPacketsBusyProcessor.Inc()
	}
}

// A detached link`, Expect: "O1-single-owner"},
		Mutant{Prop: "C14", Name: "send-true-without-enqueue", File: "router/underlayproviders/udpip/udpip.go",
			Old: `func (l *internalLink) Send(p *router.Packet) bool {
	select {
	case l.egressQ <- p:
	default:
		return false
	}
	return true`, New: `func (l *internalLink) Send(p *router.Packet) bool {
	select {
	case l.egressQ <- p:
	default:
	}
	return true`, Expect: "O2-send-contract"},
		Mutant{Prop: "C14", Name: "stale-reusable-count", File: "router/underlayproviders/udpip/udpip.go",
			Old: `		numReusable = len(msgs)
		numPkts, err := u.conn.ReadBatch(msgs)
		if err != nil {
			log.Debug("Error while reading batch", "connection", u.name, "err", err)
			continue
		}
		numReusable -= numPkts`, New: `		numPkts, err := u.conn.ReadBatch(msgs)
		if err != nil {
			log.Debug("Error while reading batch", "connection", u.name, "err", err)
			continue
		}
		numReusable = len(msgs) - numPkts`, Expect: "B1-batch-count-fresh"},
		Mutant{Prop: "C14", Name: "use-after-send", File: "router/dataplane.go",
			Old: `		if !egressLink.Send(p) {
			d.packetPool.Put(p)
		}
	}
}

func newSlowPathProcessor`, New: `		if !egressLink.Send(p) {
			d.packetPool.Put(p)
		}
		p.trafficType = ttOther
	}
}

func newSlowPathProcessor`, Expect: "O1-single-owner"},
		Mutant{Prop: "C14", Name: "revert-bfd-leak-fix", File: "router/dataplane.go",
			Old: `	if err != nil {
		b.dataPlane.packetPool.Put(p)
		return err
	}

	// The useful part of the buffer is given by Bytes.`, New: `	if err != nil {
		return err
	}

	// The useful part of the buffer is given by Bytes.`, Expect: "O1-single-owner"},
	)
}

func runC14(c *Ctx) {
	c14ReceiversJoinedFirst(c)
	r := &routerOwnRules
	n := 0
	for _, q := range []string{
		"(*router.dataPlane).runProcessor",
		"(*router.dataPlane).runSlowPathProcessor",
		"(*router.bfdSend).Send",
		"(*" + udpT + ".internalLink).runProcessor",
		udpT + ".readUpTo",
		"(*router.PacketPool).Get",
	} {
		if fn := c.Fn(q); fn != nil {
			k := CheckOwnership(c, "O1-single-owner", fn, false, r)
			if k == 0 {
				c.Fail("O1-single-owner", FuncName(fn)+":no-acquisition", fn.Pos(),
					"no packet acquisition found (anchor unresolved)")
			}
			n += k
		}
	}
	for _, q := range []string{
		"(*" + udpT + ".connectedLink).receive",
		"(*" + udpT + ".detachedLink).receive",
		"(*" + udpT + ".internalLink).receive",
		"(*" + udpT + ".connectedLink).SendBlocking",
		"(*" + udpT + ".detachedLink).SendBlocking",
		"(*" + udpT + ".internalLink).SendBlocking",
		"(*router.PacketPool).Put",
	} {
		if fn := c.Fn(q); fn != nil {
			k := CheckOwnership(c, "O1-single-owner", fn, true, r)
			if k == 0 {
				c.Fail("O1-single-owner", FuncName(fn)+":no-acquisition", fn.Pos(), "no owning parameter found")
			}
			n += k
		}
	}
	c.Min("O1:acquisitions", n, 13)
	// Send implementations: true ⇔ enqueued
	for _, q := range []string{
		"(*" + udpT + ".connectedLink).Send",
		"(*" + udpT + ".detachedLink).Send",
		"(*" + udpT + ".internalLink).Send",
	} {
		if fn := c.Fn(q); fn != nil {
			checkSendContract(c, "O2-send-contract", fn, r)
		}
	}
	// the batch receiver
	if fn := c.Fn("(*" + udpT + ".udpConnection).receive"); fn != nil {
		checkBatchReceive(c, fn, r)
	}
	// who may touch the pool
	allowed := map[string]string{
		"(*router.dataPlane).runProcessor":               "fast path: drops and failed sends",
		"(*router.dataPlane).runSlowPathProcessor":       "slow path: drops and failed sends",
		"(*router.dataPlane).initPacketPool":             "initial fill of the pool",
		"(*router.bfdSend).Send":                         "BFD sender gets a buffer, returns it when not sent",
		"(*" + udpT + ".udpConnection).receive":          "batch receiver: refill and shutdown hand-back",
		"(*" + udpT + ".udpConnection).send":             "batch sender: returns buffers after writing",
		"(*" + udpT + ".connectedLink).receive":          "drop on invalid/busy",
		"(*" + udpT + ".detachedLink).receive":           "drop on invalid/busy",
		"(*" + udpT + ".internalLink).receive":           "drop on busy",
		"(*" + udpT + ".internalLink).runProcessor":      "STUN processor drops",
	}
	who := whoTouchesPool(c)
	var names []string
	for nme := range who {
		names = append(names, nme)
	}
	sort.Strings(names)
	for _, nme := range names {
		why, ok := allowed[nme]
		c.Check(ok, "W1-who-touches-pool", "caller:"+nme, 0,
			fmt.Sprintf("calls PacketPool.%s; audited: %s", strings.Join(who[nme], ","), why))
	}
	c.Min("W1:pool-callers", len(names), 9)
}

// checkSendContract: the owning parameter is handed over on every path that
// returns true and on no path that returns false.
func checkSendContract(c *Ctx, rule string, fn *ssa.Function, rules *OwnRules) {
	c.Funcs[FuncName(fn)] = true
	var p *ssa.Parameter
	for _, q := range fn.Params {
		if isPacketPtr(q.Type()) {
			p = q
		}
	}
	if p == nil {
		c.Fail(rule, FuncName(fn), fn.Pos(), "no packet parameter")
		return
	}
	// Reuse the typestate, but interpret returns ourselves: run it with a
	// synthetic site and collect the state at each return.
	type key struct {
		blk  *ssa.BasicBlock
		st   ownState
		pend ssa.Value
	}
	visited := map[key]bool{}
	type work struct {
		k    key
		pred *ssa.BasicBlock
	}
	queue := []work{{k: key{blk: fn.Blocks[0], st: stOwned}}}
	ok := true
	rets := 0
	for len(queue) > 0 {
		w := queue[0]
		queue = queue[1:]
		if visited[w.k] {
			continue
		}
		visited[w.k] = true
		st, pend := w.k.st, w.k.pend
		stop := false
		for _, in := range w.k.blk.Instrs {
			if ret, isRet := in.(*ssa.Return); isRet {
				rets++
				bv, isConst := constBool(ret.Results[0])
				switch {
				case !isConst:
					c.Fail(rule, FuncName(fn)+":non-constant-result", ret.Pos(), "cannot relate the result to the hand-over")
					ok = false
				case bv && st != stGone:
					c.Fail(rule, FuncName(fn)+":true-without-enqueue", ret.Pos(),
						"returns true on a path where the packet was not enqueued (state "+st.String()+")")
					ok = false
				case !bv && st == stGone:
					c.Fail(rule, FuncName(fn)+":false-after-enqueue", ret.Pos(),
						"returns false on a path where the packet was enqueued")
					ok = false
				}
				stop = true
				break
			}
			ev, pv, _ := rules.classifyInstr(in, p)
			switch ev {
			case evTransfer:
				if st == stGone {
					c.Fail(rule, FuncName(fn)+":double", in.Pos(), "second hand-over")
					ok = false
				}
				st = stGone
			case evCondTransfer:
				st, pend = stPending, pv
			}
		}
		if stop {
			continue
		}
		for si, succ := range w.k.blk.Succs {
			lits, feas := edgeLits(w.k.blk, si, w.pred)
			if !feas {
				continue
			}
			nst, npend := st, pend
			if sel, isSel := pend.(*ssa.Select); isSel && st == stPending {
				for _, l := range lits {
					if l.Kind != "eq" {
						continue
					}
					var k int64
					var okK bool
					if e, isE := l.X.(*ssa.Extract); isE && e.Tuple == sel && e.Index == 0 {
						k, okK = constInt(l.Y)
					}
					if !okK {
						continue
					}
					if (k == 0) == l.Pos {
						nst, npend = stGone, nil
					} else {
						nst, npend = stOwned, nil
					}
				}
			}
			queue = append(queue, work{k: key{blk: succ, st: nst, pend: npend}, pred: w.k.blk})
		}
	}
	if ok && rets >= 2 {
		c.OK(rule, FuncName(fn), fn.Pos(), "returns true exactly on the paths that enqueued the packet")
	} else if ok {
		c.Fail(rule, FuncName(fn), fn.Pos(), fmt.Sprintf("only %d return path(s) analysed", rets))
	}
}

// checkBatchReceive: (1) every packet loaded from the batch in the demux loop is
// handed to exactly one link; (2) the loop-carried count of reusable buffers is
// recomputed on every path through the outer loop.
func checkBatchReceive(c *Ctx, fn *ssa.Function, rules *OwnRules) {
	c.Funcs[FuncName(fn)] = true
	s := NewSymer()
	// (1) loads from the packets container
	nLoads := 0
	for _, b := range fn.Blocks {
		for _, in := range b.Instrs {
			u, ok := in.(*ssa.UnOp)
			if !ok || u.Op != token.MUL || !isPacketPtr(u.Type()) {
				continue
			}
			if _, isIdx := u.X.(*ssa.IndexAddr); !isIdx {
				continue
			}
			nLoads++
			site := acquireSite{V: u, Start: u, Anchor: u, How: "batch load " + s.Sym(u)}
			finds := runTypestate(c, fn, site, rules)
			construct := FuncName(fn) + ":batch-load:" + c.Prog.Pos(u.Pos())
			construct = FuncName(fn) + ":batch-load-" + fmt.Sprint(nLoads)
			if len(finds) == 0 {
				c.OK("O1-single-owner", construct, u.Pos(), "loaded packet handed over exactly once")
			}
			for _, f := range finds {
				c.Fail("O1-single-owner", construct+":"+f.Kind, f.Pos, f.Msg)
			}
		}
	}
	c.Min("receive:batch-loads", nLoads, 2)
	// (2) freshness of the reusable counter
	found := 0
	for _, b := range fn.Blocks {
		for _, in := range b.Instrs {
			bo, ok := in.(*ssa.BinOp)
			if !ok || bo.Op != token.SUB {
				continue
			}
			phi, isPhi := bo.Y.(*ssa.Phi)
			if !isPhi || s.Sym(bo.X) != "arg0" {
				continue
			}
			// only the phi at a loop header (has an incoming edge from a block it dominates)
			stale := false
			isLoop := false
			for i, e := range phi.Edges {
				pred := phi.Block().Preds[i]
				if !phi.Block().Dominates(pred) {
					continue
				}
				isLoop = true
				if carries(e, phi, map[ssa.Value]bool{}) {
					stale = true
					c.Fail("B1-batch-count-fresh", FuncName(fn)+":reusable-count", sinkPos(pred.Instrs[len(pred.Instrs)-1]),
						"a path through the receive loop (ending at "+c.Prog.Pos(sinkPos(pred.Instrs[len(pred.Instrs)-1]))+
							") leaves the count of reusable buffers unchanged although the batch was refilled")
				}
			}
			if isLoop {
				found++
				if !stale {
					c.OK("B1-batch-count-fresh", FuncName(fn)+":reusable-count", phi.Pos(),
						"every path through the loop recomputes the count")
				}
			}
		}
	}
	c.Min("receive:reusable-count-phi", found, 1)
}

// carries reports whether value e can be the unchanged value of phi (through
// other phis only).
func carries(e ssa.Value, phi *ssa.Phi, seen map[ssa.Value]bool) bool {
	if e == phi {
		return true
	}
	if seen[e] {
		return false
	}
	seen[e] = true
	if p, ok := e.(*ssa.Phi); ok {
		for _, x := range p.Edges {
			if carries(x, phi, seen) {
				return true
			}
		}
	}
	return false
}
