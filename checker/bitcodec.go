package main

import (
	"fmt"
	"go/token"
	"go/types"
	"sort"
	"strings"

	"golang.org/x/tools/go/ssa"
)

// Bit-level codec extraction: which bits of a fixed-size wire field a
// serializer derives from which struct member, and which bits a decoder reads
// into which member. Bit ids are byte*8+bit (bit 0 = least significant).

type bitMap map[int]string // bit id -> member ("" never stored)

func bufRange(v, buf ssa.Value) (lo, hi int64, ok bool) {
	if v == buf {
		return 0, -1, true
	}
	switch x := v.(type) {
	case *ssa.IndexAddr:
		if x.X != buf {
			return 0, 0, false
		}
		k, isK := foldInt(x.Index)
		return k, k + 1, isK
	case *ssa.Slice:
		if x.X != buf {
			return 0, 0, false
		}
		lo, hi = 0, -1
		if x.Low != nil {
			k, isK := foldInt(x.Low)
			if !isK {
				return 0, 0, false
			}
			lo = k
		}
		if x.High != nil {
			k, isK := foldInt(x.High)
			if !isK {
				return 0, 0, false
			}
			hi = k
		}
		return lo, hi, true
	}
	return 0, 0, false
}

func stripConv(x ssa.Value) ssa.Value {
	for {
		switch y := x.(type) {
		case *ssa.Convert:
			x = y.X
		case *ssa.ChangeType:
			x = y.X
		default:
			return x
		}
	}
}

func typeBits(t types.Type) int {
	if b, ok := t.Underlying().(*types.Basic); ok {
		switch b.Kind() {
		case types.Uint8, types.Int8, types.Bool:
			return 8
		case types.Uint16, types.Int16:
			return 16
		case types.Uint32, types.Int32:
			return 32
		}
	}
	return 64
}

// wordBit maps bit w (LSB = 0) of a big-endian word of n bytes starting at
// byte lo to a bit id.
func wordBit(lo int64, n int, w int) int {
	return (int(lo)+(n-1-w/8))*8 + w%8
}

var putWidth = map[string]int{
	"(encoding/binary.bigEndian).PutUint16": 2, "(encoding/binary.bigEndian).PutUint32": 4,
	"(encoding/binary.bigEndian).PutUint64": 8,
}
var getWidth = map[string]int{
	"(encoding/binary.bigEndian).Uint16": 2, "(encoding/binary.bigEndian).Uint32": 4,
	"(encoding/binary.bigEndian).Uint64": 8,
}

// controllingMember: the bool member whose truth guards block b (single
// predecessor ending in `if member`).
func controllingMember(b *ssa.BasicBlock, s *Symer) string {
	if len(b.Preds) != 1 {
		return ""
	}
	p := b.Preds[0]
	iff, ok := p.Instrs[len(p.Instrs)-1].(*ssa.If)
	if !ok || p.Succs[0] != b {
		return ""
	}
	return s.Sym(iff.Cond)
}

// EncoderBits extracts the bit provenance of serializer fn writing into its
// byte-slice parameter buf. Blocks are visited in index order (the serializers
// are straight-line code with `if flag { b[0] |= k }` diamonds).
func EncoderBits(fn *ssa.Function, buf ssa.Value, s *Symer) (bitMap, []string) {
	bm := bitMap{}
	var notes []string
	for _, b := range reversePostorder(fn) {
		for _, in := range b.Instrs {
			switch x := in.(type) {
			case *ssa.Store:
				lo, hi, ok := bufRange(x.Addr, buf)
				if !ok || hi != lo+1 {
					continue
				}
				val := stripConv(x.Val)
				if k, isK := foldInt(val); isK {
					_ = k
					for j := 0; j < 8; j++ {
						delete(bm, int(lo)*8+j)
					}
					continue
				}
				if bo, isB := val.(*ssa.BinOp); isB && bo.Op == token.OR {
					m, isK := foldInt(bo.Y)
					ld, isLd := stripConv(bo.X).(*ssa.UnOp)
					if isK && isLd {
						if l2, h2, ok2 := bufRange(ld.X, buf); ok2 && l2 == lo && h2 == hi {
							g := controllingMember(b, s)
							if g == "" {
								g = "1"
							}
							for j := 0; j < 8; j++ {
								if m&(1<<j) != 0 {
									bm[int(lo)*8+j] = g
								}
							}
							continue
						}
					}
				}
				parts := decodeBitfield(val, s)
				for _, p := range parts {
					w := typeBits(x.Val.Type())
					for j := 0; j < 8 && j < w; j++ {
						src := int64(j) - p.Shift
						if src < 0 {
							continue
						}
						if p.Mask != -1 && p.Mask&(1<<src) == 0 {
							continue
						}
						bm[int(lo)*8+j] = fmt.Sprintf("%s.%d", p.Field, src)
					}
				}
			case ssa.CallInstruction:
				n := calleeName(x.Common())
				if w, ok := putWidth[n]; ok {
					lo, _, ok := bufRange(x.Common().Args[1], buf)
					if !ok {
						notes = append(notes, "unresolved destination of "+n)
						continue
					}
					if _, isK := foldInt(x.Common().Args[2]); isK {
						// a constant word: these bits carry no member
						for wb := 0; wb < w*8; wb++ {
							delete(bm, wordBit(lo, w, wb))
						}
						continue
					}
					for _, p := range decodeBitfield(x.Common().Args[2], s) {
						fw := 64
						if p.Mask == -1 {
							fw = fieldWidth(x.Common().Args[2], p, s)
						}
						for wb := 0; wb < w*8; wb++ {
							src := int64(wb) - p.Shift
							if src < 0 || src >= int64(fw) {
								continue
							}
							if p.Mask != -1 && p.Mask&(1<<src) == 0 {
								continue
							}
							bm[wordBit(lo, w, wb)] = fmt.Sprintf("%s.%d", p.Field, src)
						}
					}
				}
				if n == "builtin:copy" {
					lo, hi, ok := bufRange(x.Common().Args[0], buf)
					if !ok {
						continue
					}
					src := s.Sym(x.Common().Args[1])
					src = strings.TrimSuffix(src, "[:]")
					for k := lo; k < hi; k++ {
						for j := 0; j < 8; j++ {
							bm[int(k)*8+j] = fmt.Sprintf("%s[%d].%d", src, k-lo, j)
						}
					}
				}
			}
		}
	}
	return bm, notes
}

// linearForm splits an integer expression into its constant part and the
// renderings of its non-constant addends.
func linearForm(v ssa.Value, s *Symer) (int64, []string) {
	if v == nil {
		return 0, nil
	}
	if k, ok := foldInt(v); ok {
		return k, nil
	}
	if bo, ok := stripConv(v).(*ssa.BinOp); ok && bo.Op == token.ADD {
		k1, t1 := linearForm(bo.X, s)
		k2, t2 := linearForm(bo.Y, s)
		return k1 + k2, append(t1, t2...)
	}
	return 0, []string{s.Sym(v)}
}

// reversePostorder lists the blocks so that (loops aside) every block comes
// after its predecessors: later writes win, as at run time.
func reversePostorder(fn *ssa.Function) []*ssa.BasicBlock {
	var post []*ssa.BasicBlock
	seen := map[*ssa.BasicBlock]bool{}
	var dfs func(b *ssa.BasicBlock)
	dfs = func(b *ssa.BasicBlock) {
		seen[b] = true
		for _, s := range b.Succs {
			if !seen[s] {
				dfs(s)
			}
		}
		post = append(post, b)
	}
	if len(fn.Blocks) > 0 {
		dfs(fn.Blocks[0])
	}
	for i, j := 0, len(post)-1; i < j; i, j = i+1, j-1 {
		post[i], post[j] = post[j], post[i]
	}
	return post
}

// fieldWidth: the width of the unmasked operand of part p inside v (the type
// before widening conversions).
func fieldWidth(v ssa.Value, p bitPart, s *Symer) int {
	w := 64
	var walk func(x ssa.Value)
	walk = func(x ssa.Value) {
		switch y := x.(type) {
		case *ssa.Convert:
			if s.Sym(stripConv(y)) == p.Field {
				if tb := typeBits(stripConv(y).Type()); tb < w {
					w = tb
				}
			}
			walk(y.X)
		case *ssa.BinOp:
			walk(y.X)
			walk(y.Y)
		default:
			if s.Sym(x) == p.Field {
				if tb := typeBits(x.Type()); tb < w {
					w = tb
				}
			}
		}
	}
	walk(v)
	return w
}

// DecoderBits extracts which bits of buf each member store of fn reads.
func DecoderBits(fn *ssa.Function, buf ssa.Value, s *Symer) (bitMap, []string) {
	bm := bitMap{}
	var notes []string
	// srcBits resolves a value to (bit ids by source-bit index); the result maps the
	// value's bit i to a bit id of buf.
	var srcBits func(v ssa.Value, d int) map[int]int
	srcBits = func(v ssa.Value, d int) map[int]int {
		if d > 10 {
			return nil
		}
		switch x := v.(type) {
		case *ssa.Convert:
			in := srcBits(x.X, d+1)
			w := typeBits(x.Type())
			out := map[int]int{}
			for i, id := range in {
				if i < w {
					out[i] = id
				}
			}
			return out
		case *ssa.ChangeType:
			return srcBits(x.X, d+1)
		case *ssa.UnOp:
			if x.Op == token.MUL {
				if lo, hi, ok := bufRange(x.X, buf); ok && hi == lo+1 {
					out := map[int]int{}
					for j := 0; j < 8; j++ {
						out[j] = int(lo)*8 + j
					}
					return out
				}
			}
		case *ssa.Call:
			if w, ok := getWidth[calleeName(x.Common())]; ok {
				lo, _, ok := bufRange(x.Common().Args[1], buf)
				if !ok {
					return nil
				}
				out := map[int]int{}
				for wb := 0; wb < w*8; wb++ {
					out[wb] = wordBit(lo, w, wb)
				}
				return out
			}
		case *ssa.BinOp:
			switch x.Op {
			case token.SHR:
				k, isK := foldInt(x.Y)
				if !isK {
					return nil
				}
				in := srcBits(x.X, d+1)
				out := map[int]int{}
				for i, id := range in {
					if i-int(k) >= 0 {
						out[i-int(k)] = id
					}
				}
				return out
			case token.AND:
				k, isK := foldInt(x.Y)
				in := srcBits(x.X, d+1)
				if !isK {
					k, isK = foldInt(x.X)
					in = srcBits(x.Y, d+1)
				}
				if !isK {
					return nil
				}
				out := map[int]int{}
				for i, id := range in {
					if i < 63 && k&(1<<i) != 0 {
						out[i] = id
					}
				}
				return out
			case token.EQL, token.NEQ:
				// flag test: (b & m) == m
				return srcBits(x.X, d+1)
			}
		}
		return nil
	}
	for _, b := range fn.Blocks {
		for _, in := range b.Instrs {
			switch x := in.(type) {
			case *ssa.Store:
				addr := s.Sym(x.Addr)
				if !strings.HasPrefix(addr, "recv.") {
					continue
				}
				bits := srcBits(x.Val, 0)
				if bits == nil {
					_, isK := x.Val.(*ssa.Const)
					bt, isBasic := x.Val.Type().Underlying().(*types.Basic)
					if !isK && isBasic && bt.Info()&(types.IsInteger|types.IsBoolean) != 0 {
						notes = append(notes, "unresolved source of "+addr+": "+s.Sym(x.Val))
					}
					continue
				}
				// a flag test yields one bool from possibly several bits: name them all bit 0
				_, isCmp := stripConv(x.Val).(*ssa.BinOp)
				isBool := isBool(x.Val.Type())
				var idx []int
				for i := range bits {
					idx = append(idx, i)
				}
				sort.Ints(idx)
				for _, i := range idx {
					name := fmt.Sprintf("%s.%d", addr, i)
					if isBool && isCmp {
						name = addr
					}
					bm[bits[i]] = name
				}
			case ssa.CallInstruction:
				if calleeName(x.Common()) == "builtin:copy" {
					lo, hi, ok := bufRange(x.Common().Args[1], buf)
					if !ok {
						continue
					}
					dst := strings.TrimSuffix(s.Sym(x.Common().Args[0]), "[:]")
					for k := lo; k < hi; k++ {
						for j := 0; j < 8; j++ {
							bm[int(k)*8+j] = fmt.Sprintf("%s[%d].%d", dst, k-lo, j)
						}
					}
				}
			}
		}
	}
	return bm, notes
}

// CompareCodec checks, for an n-byte wire field, that every bit the decoder
// reads into a member is written back by the serializer from that same member
// bit, and reports the bits the serializer does not derive from any member.
func CompareCodec(enc, dec bitMap, n int) (mismatch []string, reserved []int) {
	for id := 0; id < n*8; id++ {
		e, d := enc[id], dec[id]
		switch {
		case e == "" && d == "":
			reserved = append(reserved, id)
		case e == "" || d == "":
			mismatch = append(mismatch, fmt.Sprintf("byte %d bit %d: serializer %q, decoder %q", id/8, id%8, e, d))
		default:
			if normMember(e) != normMember(d) {
				mismatch = append(mismatch, fmt.Sprintf("byte %d bit %d: serializer %q, decoder %q", id/8, id%8, e, d))
			}
		}
	}
	return
}

func normMember(s string) string {
	s = strings.TrimPrefix(s, "recv.")
	s = strings.TrimPrefix(s, "Base.")
	return s
}

func bitRanges(ids []int) string {
	sort.Ints(ids)
	var parts []string
	for i := 0; i < len(ids); {
		j := i
		for j+1 < len(ids) && ids[j+1] == ids[j]+1 && ids[j+1]/8 == ids[i]/8 {
			j++
		}
		if i == j {
			parts = append(parts, fmt.Sprintf("byte %d bit %d", ids[i]/8, ids[i]%8))
		} else {
			parts = append(parts, fmt.Sprintf("byte %d bits %d-%d", ids[i]/8, ids[i]%8, ids[j]%8))
		}
		i = j + 1
	}
	return strings.Join(parts, ", ")
}
