package main

import (
	"fmt"
	"go/token"
	"sort"
	"strings"

	"golang.org/x/tools/go/ssa"
)

func init() {
	register(&PropRule{
		ID:    "C36",
		Roots: []string{"./private/trust", "./control/trust"},
		Explain: "Decides the structural clauses of signer generation. (X1) The Expiration stored in the generated " +
			"signer is a minimum (nested minTime, minTime(a,b) = a if a.Before(b) else b) over exactly " +
			"{chain[0].NotAfter, trcs[0].Validity.NotAfter} outside the grace period and over those plus " +
			"{trcs[0].GracePeriodEnd(), trcs[1].Validity.NotAfter} in it (the active TRC's validity inside " +
			"the grace period was missing: fixed in 805480f), and the larger set is used exactly on the path " +
			"that sets InGrace. (G1) The chain comes from bestChain against trcs[0]; bestChain against " +
			"trcs[1] is tried only if that returned nil and there are two TRCs; InGrace is true exactly on " +
			"that path; no signer without a chain. (B1) bestChain keeps only chains that VerifyChain " +
			"accepts against the given TRC and replaces its candidate unless the new chain's NotAfter is " +
			"Before the current one's (latest expiring wins), over all chains. (S1) Sign and SignCMS " +
			"succeed only after validate(now = time.Now()) succeeded, and validate fails whenever " +
			"Expiration - now < 0; Validity().NotAfter is Expiration. The signer's key, subject, chain, " +
			"subject key id and chain validity all come from the selected chain and the given key. NOT " +
			"decided: that signed messages verify (crypto round trip), LastExpiring ordering across keys.",
		Run: runC36,
	})
	setClaim("C36", claim{
		Text: "Min-term sets of the expiry per path, grace-path guards, bestChain verification and preference, " +
			"validate dominance in Sign/SignCMS, signer field pairing.",
		Note: claimNote, Technique: "static analysis: term-set extraction over nested min calls and phis, guard dominance, " +
			"phi-edge structure, store/call pairing",
		Ref: "DESIGN.md §4 C36"})
	gf := "private/trust/signer_gen.go"
	addMutants(
		Mutant{Prop: "C36", Name: "grace-without-predecessor-validity", File: gf,
			Old: `		expiry = minTime(
			minTime(expiry, trcs[0].TRC.GracePeriodEnd()),
			trcs[1].TRC.Validity.NotAfter,
		)`, New: `		expiry = minTime(expiry, trcs[0].TRC.GracePeriodEnd())`, Expect: "X1-expiry-terms"},
		Mutant{Prop: "C36", Name: "expiry-ignores-trc", File: gf,
			Old: `	expiry := minTime(chain[0].NotAfter, trcs[0].TRC.Validity.NotAfter)`,
			New: `	expiry := chain[0].NotAfter`, Expect: "X1-expiry-terms"},
		Mutant{Prop: "C36", Name: "min-is-max", File: gf,
			Old: `	if a.Before(b) {
		return a
	}
	return b`, New: `	if a.Before(b) {
		return b
	}
	return a`, Expect: "X1-expiry-terms"},
		Mutant{Prop: "C36", Name: "grace-even-with-active-chain", File: gf,
			Old: `	if chain == nil && len(trcs) == 2 {`, New: `	if len(trcs) == 2 {`, Expect: "G1-grace-path"},
		Mutant{Prop: "C36", Name: "unverified-chain-kept", File: gf,
			Old: `		if err := cppki.VerifyChain(chain, opts); err != nil {
			continue
		}`, New: `		if err := cppki.VerifyChain(chain, opts); err != nil && len(best) > 0 {
			continue
		}`, Expect: "B1-best-chain"},
		Mutant{Prop: "C36", Name: "earliest-expiring-wins", File: gf,
			Old: `		if len(best) > 0 && chain[0].NotAfter.Before(best[0].NotAfter) {`,
			New: `		if len(best) > 0 && chain[0].NotAfter.After(best[0].NotAfter) {`, Expect: "B1-best-chain"},
		Mutant{Prop: "C36", Name: "expired-signer-signs", File: "private/trust/signer.go",
			Old: `	if expDiff < 0 {`, New: `	if expDiff < -time.Hour {`, Expect: "S1-sign-validates"},
		Mutant{Prop: "C36", Name: "cms-skips-validate", File: "private/trust/signer.go",
			Old: `	if err := s.validate(ctx, time.Now()); err != nil {
		metrics.Signer.Sign(l.WithResult(metrics.ErrValidate)).Inc()
		return nil, err
	}

	eci, err :=`, New: `	eci, err :=`, Expect: "S1-sign-validates"},
	)
}

// c36Leaf names where a time value is read from: "chain[0].NotAfter",
// "trcs[1].TRC.Validity.NotAfter", "GracePeriodEnd(trcs[0].TRC)".
func c36Leaf(v ssa.Value, chain ssa.Value) string {
	path := ""
	for d := 0; d < 12; d++ {
		switch x := v.(type) {
		case *ssa.UnOp:
			if x.Op != token.MUL {
				return "?" + path
			}
			v = x.X
		case *ssa.FieldAddr:
			path = "." + fieldName(x.X.Type(), x.Field) + path
			v = x.X
		case *ssa.Field:
			path = "." + fieldName(x.X.Type(), x.Field) + path
			v = x.X
		case *ssa.IndexAddr:
			k, ok := foldInt(x.Index)
			if !ok {
				return "?" + path
			}
			path = fmt.Sprintf("[%d]", k) + path
			v = x.X
		case *ssa.Index:
			k, ok := foldInt(x.Index)
			if !ok {
				return "?" + path
			}
			path = fmt.Sprintf("[%d]", k) + path
			v = x.X
		case *ssa.Parameter:
			return x.Name() + path
		case *ssa.Call:
			n := calleeName(x.Common())
			if strings.HasSuffix(n, ".GracePeriodEnd") {
				return "GracePeriodEnd(" + c36Leaf(x.Common().Args[0], chain) + ")" + path
			}
			return n + "(…)" + path
		default:
			if v == chain {
				return "chain" + path
			}
			return "?" + path
		}
	}
	return "?" + path
}

// minTerms expands nested minTime calls.
func minTerms(v ssa.Value, chain ssa.Value, out map[string]bool) {
	if call, ok := v.(*ssa.Call); ok && calleeName(call.Common()) == "private/trust.minTime" {
		minTerms(call.Common().Args[0], chain, out)
		minTerms(call.Common().Args[1], chain, out)
		return
	}
	out[c36Leaf(v, chain)] = true
}

func setString(m map[string]bool) string {
	var l []string
	for k := range m {
		l = append(l, k)
	}
	sort.Strings(l)
	return "{" + strings.Join(l, ", ") + "}"
}

func runC36(c *Ctx) {
	lastExpiringCovers(c, "L1-last-expiring-covers")
	keyIDAgreement(c, "K1-key-id-agreement")
	gracePeriodEnd(c, "G4-grace-period-end")
	gT :="(*private/trust.SignerGen)"
	if v := c.View(gT + ".bestForKey"); v != nil {
		fn := v.Fn
		e := NewE1(c, fn)
		// the two bestChain calls
		var first, second *ssa.Call
		for _, ci := range v.Calls("private/trust.bestChain") {
			call := ci.In.(*ssa.Call)
			switch c36Leaf(call.Common().Args[0], nil) {
			case "trcs[0].TRC":
				first = call
			case "trcs[1].TRC":
				second = call
			}
		}
		if first == nil || second == nil {
			c.Fail("G1-grace-path", v.Name()+":bestChain-calls", fn.Pos(), "bestChain(&trcs[0].TRC, …) and bestChain(&trcs[1].TRC, …) not found (anchor unresolved)")
			return
		}
		// the stored signer
		stores := map[string]*ssa.Store{}
		for _, st := range v.Stores("local:complit.*") {
			stores[strings.TrimPrefix(st.Addr, "local:complit.")] = st.In
		}
		chainSt, expSt, graceSt := stores["Chain"], stores["Expiration"], stores["InGrace"]
		if chainSt == nil || expSt == nil || graceSt == nil {
			c.Fail("X1-expiry-terms", v.Name()+":signer-literal", fn.Pos(), "Signer{Chain, Expiration, InGrace} stores not found (anchor unresolved)")
			return
		}
		chain := chainSt.Val
		okChain := false
		if phi, ok := chain.(*ssa.Phi); ok {
			got := map[ssa.Value]bool{}
			for _, ed := range phi.Edges {
				got[ed] = true
			}
			okChain = len(got) == 2 && got[first] && got[second]
		}
		c.Check(okChain, "G1-grace-path", v.Name()+":chain-source", chainSt.Pos(), "the signer's chain is the result of one of the two bestChain calls")
		// G1
		isNil := func(call *ssa.Call, pos bool) Guard {
			name := "chain(trcs[0])==nil"
			if !pos {
				name = "chain!=nil"
			}
			return Guard{Name: name, Match: func(l Lit) bool { return l.Kind == "eq" && l.Pos == pos && l.X == ssa.Value(call) && isNilConst(l.Y) }}
		}
		e.Require("G1-grace-path", "predecessor-only-as-fallback", nil, []ssa.Instruction{second},
			isNil(first, true), e.AtomGuard("two-trcs", "+eq(builtin:len(arg2), 2)"))
		grace, _ := graceSt.Val.(*ssa.Phi)
		okGrace := grace != nil
		if okGrace {
			for i, ed := range grace.Edges {
				b, isK := constBool(ed)
				if !isK {
					okGrace = false
					continue
				}
				pred := grace.Block().Preds[i]
				after2 := second.Block().Dominates(pred) && second.Block() != pred || (second.Block() == pred)
				// true exactly on the edge that comes from the non-nil result of the second call
				fromSecond := false
				for _, l := range append(dominatingLits(pred), litsOnEdge(pred, grace.Block())...) {
					if l.Kind == "eq" && !l.Pos && l.X == ssa.Value(second) && isNilConst(l.Y) {
						fromSecond = true
					}
				}
				if b != (after2 && fromSecond) {
					okGrace = false
				}
			}
		}
		c.Check(okGrace, "G1-grace-path", v.Name()+":InGrace", graceSt.Pos(), "InGrace is true exactly when the chain came from the predecessor TRC")
		// the chain phi follows the same edges
		if phi, ok := chain.(*ssa.Phi); ok && grace != nil && phi.Block() == grace.Block() {
			okPair := true
			for i := range phi.Edges {
				b, _ := constBool(grace.Edges[i])
				if b != (phi.Edges[i] == ssa.Value(second)) {
					okPair = false
				}
			}
			c.Check(okPair, "G1-grace-path", v.Name()+":chain-and-flag-agree", chainSt.Pos(), "chain = bestChain(trcs[1]) exactly on the InGrace edge")
		}
		// no signer without chain
		// (the path "no chain and len(trcs) is neither 1 nor 2" is excluded by the only
		// producer of trcs, checked below)
		e.Require("G1-grace-path", "signer-needs-chain", nil, []ssa.Instruction{chainSt},
			Or("a chain was found", isNil(first, false), isNil(second, false),
				e.AtomGuard("len(trcs) not in {1,2}", "-eq(builtin:len(arg2), 2)")))
		if g := c.View(gT + ".Generate"); g != nil {
			g.RequireCallArgs("G1-grace-path", 1, gT+".bestForKey", "", "arg0", "", "private/trust.activeTRCs(arg0, *.DB, (pkg/addr.IA).ISD(*.IA))#0")
		}
		if a := c.View("private/trust.activeTRCs"); a != nil {
			ae := NewE1(c, a.Fn)
			okLen, n := true, 0
			for _, r := range ae.SuccessReturns() {
				n++
				els, isLit := decodeSliceLit(a.S, RetVal(r.(*ssa.Return), 0))
				if !isLit || len(els) < 1 || len(els) > 2 {
					okLen = false
				}
			}
			c.Check(okLen && n == 2, "G1-grace-path", a.Name()+":one-or-two-trcs", a.Fn.Pos(), fmt.Sprintf("%d successful returns, each a literal of one or two TRCs", n))
		}
		// X1
		exp, _ := expSt.Val.(*ssa.Phi)
		if exp == nil {
			c.Fail("X1-expiry-terms", v.Name()+":expiry", expSt.Pos(), "Expiration is not selected per path (phi expected): "+short(v.S.Sym(expSt.Val)))
		} else {
			wantPlain := "{chain[0].NotAfter, trcs[0].TRC.Validity.NotAfter}"
			wantGrace := "{GracePeriodEnd(trcs[0].TRC), chain[0].NotAfter, trcs[0].TRC.Validity.NotAfter, trcs[1].TRC.Validity.NotAfter}"
			for i, ed := range exp.Edges {
				terms := map[string]bool{}
				minTerms(ed, chain, terms)
				pred := exp.Block().Preds[i]
				inGrace := false
				for _, l := range append(dominatingLits(pred), litsOnEdge(pred, exp.Block())...) {
					if l.Kind == "true" && l.Pos && grace != nil && l.X == ssa.Value(grace) {
						inGrace = true
					}
				}
				want, what := wantPlain, "outside-grace"
				if inGrace {
					want, what = wantGrace, "in-grace"
				}
				c.Check(setString(terms) == want, "X1-expiry-terms", v.Name()+":expiry:"+what, expSt.Pos(),
					"Expiration = min"+setString(terms)+"; required min"+want)
			}
			c.Check(len(exp.Edges) == 2, "X1-expiry-terms", v.Name()+":expiry:paths", expSt.Pos(), fmt.Sprintf("%d paths into the expiry", len(exp.Edges)))
		}
		// remaining fields
		pair := func(f, want string) {
			st := stores[f]
			got := "<missing>"
			if st != nil {
				got = c36Leaf(st.Val, chain)
			}
			c.Check(got == want, "G1-grace-path", v.Name()+":signer."+f, fn.Pos(), "Signer."+f+" = "+got+"; required "+want)
		}
		pair("PrivateKey", "key")
		pair("Subject", "chain[0].Subject")
		pair("SubjectKeyID", "chain[0].SubjectKeyId")
		pair("TRCID", "trcs[0].TRC.ID")
	}
	if v := c.View("private/trust.minTime"); v != nil {
		e := NewE1(c, v.Fn)
		ok, n := true, 0
		for _, r := range e.AllReturns() {
			n++
			s := v.S.Sym(r.(*ssa.Return).Results[0])
			g := e.AtomGuard("a.Before(b)", "+true((time.Time).Before(arg0, arg1))")
			if s == "arg1" {
				g = e.AtomGuard("!a.Before(b)", "-true((time.Time).Before(arg0, arg1))")
			} else if s != "arg0" {
				ok = false
			}
			if len(e.Unguarded(nil, []ssa.Instruction{r}, []Guard{g})) > 0 {
				ok = false
			}
		}
		c.Check(ok && n == 2, "X1-expiry-terms", v.Name()+":is-minimum", v.Fn.Pos(), "minTime(a, b) = a if a.Before(b), else b")
	}
	if v := c.View("private/trust.bestChain"); v != nil {
		rule := "B1-best-chain"
		fn := v.Fn
		e := NewE1(c, fn)
		// the candidate variable
		var best *ssa.Phi
		for _, b := range fn.Blocks {
			for _, in := range b.Instrs {
				if phi, ok := in.(*ssa.Phi); ok && cyclic(b) && strings.HasPrefix(v.S.Sym(phi), "phi(arg1[") {
					best = phi
				}
			}
		}
		if best == nil {
			c.Fail(rule, v.Name()+":candidate", fn.Pos(), "running best chain not found (anchor unresolved)")
			return
		}
		var upd []ssa.Instruction
		for i, ed := range best.Edges {
			if ed != ssa.Value(best) && !isNilConst(ed) {
				upd = append(upd, best.Block().Preds[i].Instrs[0])
			}
		}
		c.Min("bestChain:replacement-edges", len(upd), 1)
		cur := "arg1[*]"
		e.Require(rule, "replacement", nil, upd,
			e.AtomGuard("verifies", "+eq(pkg/scrypto/cppki.VerifyChain("+cur+", local:complit), nil)"),
			Or("first or not expiring earlier", e.AtomGuard("no-candidate-yet", "-lt(0, builtin:len(phi(*)))"),
				e.AtomGuard("!new.Before(best)", "-true((time.Time).Before("+cur+"[0].NotAfter, phi(*)[0].NotAfter))")))
		// the verification is against the TRC handed in
		okTRC := false
		for _, st := range v.Stores("local:complit.TRC") {
			if els, ok := decodeSliceLit(v.S, st.In.Val); ok && len(els) == 1 && els[0][""] == "arg0" {
				okTRC = true
			}
		}
		c.Check(okTRC, rule, v.Name()+":verify-options", fn.Pos(), "VerifyOptions{TRC: []*cppki.TRC{trc}}")
		// a replacement that should happen is not skipped: the pass edges lead to the replacement
		okRet := true
		for _, r := range e.AllReturns() {
			okRet = okRet && r.(*ssa.Return).Results[0] == ssa.Value(best)
		}
		c.Check(okRet, rule, v.Name()+":returns-candidate", fn.Pos(), "returns the running best chain after the loop")
		e.Require(rule, "all-chains-visited", nil, e.AllReturns(), e.AtomGuard("loop-exhausted", "-lt(*, builtin:len(arg1))"))
	}
	// S1
	sT := "(private/trust.Signer)"
	for _, m := range []string{"Sign", "SignCMS"} {
		if v := c.View(sT + "." + m); v != nil {
			e := NewE1(c, v.Fn)
			e.Require("S1-sign-validates", "success", nil, e.SuccessReturns(), e.CallGuard(PassErrNil, sT+".validate"))
			v.RequireCallArgs("S1-sign-validates", 1, sT+".validate", "recv", "", "time.Now()")
		}
	}
	if v := c.View(sT + ".validate"); v != nil {
		e := NewE1(c, v.Fn)
		e.Require("S1-sign-validates", "success", nil, e.SuccessReturns(),
			e.AtomGuard("not-expired", "-lt((time.Time).Sub(recv.Expiration, arg1), 0:time.Duration)"))
	}
	if v := c.View(sT + ".Validity"); v != nil {
		v.RequireStore("S1-sign-validates", 1, "local:complit.NotAfter", "recv.Expiration")
	}
}

// litsOnEdge: the literals of the branch edge from -> to (empty for jumps).
func litsOnEdge(from, to *ssa.BasicBlock) []Lit {
	if len(from.Succs) != 2 || from.Succs[0] == from.Succs[1] {
		return nil
	}
	var out []Lit
	for i, s := range from.Succs {
		if s == to {
			if l, feas := edgeLits(from, i, nil); feas {
				out = append(out, l...)
			}
		}
	}
	return out
}
