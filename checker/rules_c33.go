package main

import (
	"fmt"
	"strings"

	"golang.org/x/tools/go/ssa"
)

func init() {
	register(&PropRule{
		ID:    "C33",
		Roots: []string{"./pkg/scrypto/cppki"},
		Explain: "Decides that TRC.Validate cannot succeed without each required check. (V1) Every successful return " +
			"is behind: Version == 1; TRCID.Validate (non-wildcard ISD, base != 0, base <= serial); " +
			"Validity.Validate (NotAfter after NotBefore); base TRC => grace period 0 and no votes; quorum != 0 " +
			"and <= 255 and <= number of sensitive and of regular voters; validateASSequence of the core and the " +
			"authoritative list (non-empty, no wildcard, no duplicate); classifyCerts without error. (V2) For " +
			"every certificate a failing check ends in failure: subject parse error, other ISD, validity not " +
			"covering the TRC's. (U1) Issuer+serial uniqueness ranges over ALL certificates of the payload: the " +
			"equalName(Issuer) / SerialNumber.Cmp comparison is between recv.Certificates[i] and " +
			"recv.Certificates[j], j running from i+1 to len(recv.Certificates), and a match cannot reach a " +
			"successful return. (U2) uniqueSubject is applied to each of the three classes (sensitive, regular, " +
			"root) of classifyCerts(recv.Certificates), compares every pair, and a match fails. (E1) DecodeTRC " +
			"and TRC.Encode succeed only after Validate; the fields are mapped one to one (version +/- 1, grace " +
			"period in seconds). NOT decided: certificate classification itself (C32), ASN.1 encoding details.",
		Run: runC33,
	})
	setClaim("C33", claim{
		Text: "Required-check dominance on TRC.Validate, fail-stop of the per-certificate and uniqueness loops with " +
			"their ranges, Encode/Decode validation and field pairing.",
		Note: claimNote, Technique: "static analysis: guard dominance and fail-stop on SSA, operand-provenance of the uniqueness " +
			"comparisons, call/store pairing",
		Ref: "DESIGN.md §4 C33"})
	tf := "pkg/scrypto/cppki/trc.go"
	addMutants(
		Mutant{Prop: "C33", Name: "quorum-upper-bound-dropped", File: tf,
			Old: `	if trc.Quorum == 0 || trc.Quorum > 255 {`, New: `	if trc.Quorum == 0 {`, Expect: "V1-required-checks"},
		Mutant{Prop: "C33", Name: "votes-on-base-allowed", File: tf,
			Old: `	if trc.ID.IsBase() && len(trc.Votes) != 0 {`, New: `	if trc.ID.IsBase() && len(trc.Votes) > int(trc.Quorum) {`, Expect: "V1-required-checks"},
		Mutant{Prop: "C33", Name: "authoritative-not-validated", File: tf,
			Old: `	if err := validateASSequence(trc.AuthoritativeASes); err != nil {`,
			New: `	if err := validateASSequence(trc.CoreASes); err != nil {`, Expect: "V1-required-checks"},
		Mutant{Prop: "C33", Name: "coverage-only-logged", File: tf,
			Old: `		if !(Validity{NotBefore: cert.NotBefore, NotAfter: cert.NotAfter}).Covers(trc.Validity) {`,
			New: `		if !(Validity{NotBefore: cert.NotBefore, NotAfter: cert.NotAfter}).Covers(trc.Validity) && i == 0 {`, Expect: "V2-per-certificate"},
		Mutant{Prop: "C33", Name: "issuer-serial-adjacent-only", File: tf,
			Old: `		for j := i + 1; j < len(trc.Certificates); j++ {
			b := trc.Certificates[j]
			if a.SerialNumber.Cmp(b.SerialNumber) != 0 {`, New: `		for j := i + 1; j < len(trc.Certificates) && j < i+2; j++ {
			b := trc.Certificates[j]
			if a.SerialNumber.Cmp(b.SerialNumber) != 0 {`, Expect: "U1-issuer-serial"},
		Mutant{Prop: "C33", Name: "root-subjects-not-checked", File: tf,
			Old: `	for _, m := range []map[int]*x509.Certificate{cl.Sensitive, cl.Regular, cl.Root} {`,
			New: `	for _, m := range []map[int]*x509.Certificate{cl.Sensitive, cl.Regular} {`, Expect: "U2-subject"},
		Mutant{Prop: "C33", Name: "base-zero-accepted", File: "pkg/scrypto/cppki/id.go",
			Old: `	if id.Base == 0 {
		return ErrReservedNumber
	}`, New: ``, Expect: "V1-required-checks"},
		Mutant{Prop: "C33", Name: "encode-without-validate", File: "pkg/scrypto/cppki/trc_asn1.go",
			Old: `func (trc *TRC) Encode() ([]byte, error) {
	if err := trc.Validate(); err != nil {
		return nil, err
	}`, New: `func (trc *TRC) Encode() ([]byte, error) {`, Expect: "E1-codec"},
	)
}

func runC33(c *Ctx) {
	c33EveryCertificateCovers(c)
	// AS lists are ordered SEQUENCE OF fields: encoding and decoding map them element by element, in order
	for _, q := range []struct{ fn, param string }{{"pkg/scrypto/cppki.encodeASes", "arg0"}, {"pkg/scrypto/cppki.decodeASes", "arg0"},
		{"pkg/scrypto/cppki.encodeCertificates", "arg0"}, {"pkg/scrypto/cppki.decodeCertificates", "arg0"},
		{"pkg/scrypto/cppki.encodeVotes", "arg0"}, {"pkg/scrypto/cppki.decodeVotes", "arg0"}} {
		if v := c.View(q.fn); v != nil {
			why := orderPreservingMap(v, q.param)
			c.Check(why == "", "E2-as-lists-in-order", v.Name()+":element-wise-in-order", v.Fn.Pos(),
				"the result lists one value per input element, in the input's order"+map[bool]string{true: "", false: ": " + why}[why == ""])
		}
	}
	cp := "pkg/scrypto/cppki."
	if v := c.View("(*" + cp + "TRC).Validate"); v != nil {
		fn := v.Fn
		e := NewE1(c, fn)
		succ := e.SuccessReturns()
		c.Min("TRC.Validate:success-returns", len(succ), 1)
		cl := cp + "classifyCerts(recv.Certificates)#0"
		isBase := "(" + cp + "TRCID).IsBase(recv.ID)"
		rule := "V1-required-checks"
		e.Require(rule, "success", nil, succ,
			e.AtomGuard("version==1", "+eq(recv.Version, 1)"),
			e.CallGuard(PassErrNil, "("+cp+"TRCID).Validate"),
			e.CallGuard(PassErrNil, "("+cp+"Validity).Validate"),
			Or("base=>no-grace-period", e.AtomGuard("!base", "-true("+isBase+")"), e.AtomGuard("grace==0", "+eq(recv.GracePeriod, 0:time.Duration)")),
			Or("base=>no-votes", e.AtomGuard("!base", "-true("+isBase+")"), e.AtomGuard("votes==0", "+eq(builtin:len(recv.Votes), 0)")),
			e.AtomGuard("quorum!=0", "-eq(recv.Quorum, 0)"),
			e.AtomGuard("quorum<=255", "-lt(255, recv.Quorum)"),
			e.AtomGuard("core-ases-valid", "+eq("+cp+"validateASSequence(recv.CoreASes), nil)"),
			e.AtomGuard("authoritative-ases-valid", "+eq("+cp+"validateASSequence(recv.AuthoritativeASes), nil)"),
			e.AtomGuard("classified", "+eq("+cp+"classifyCerts(recv.Certificates)#1, nil)"),
			e.AtomGuard("quorum<=sensitive", "-lt(builtin:len("+cl+".Sensitive), recv.Quorum)"),
			e.AtomGuard("quorum<=regular", "-lt(builtin:len("+cl+".Regular), recv.Quorum)"),
			e.AtomGuard("all-certificates-visited", "-lt(*, builtin:len(recv.Certificates))"))
		v.RequireCallArgs(rule, 1, "("+cp+"TRCID).Validate", "recv.ID")
		v.RequireCallArgs(rule, 1, "("+cp+"Validity).Validate", "recv.Validity")
		// V2
		rule = "V2-per-certificate"
		cert := "recv.Certificates[*]"
		ia := cp + "findIA(" + cert + ".Subject)"
		e.FailStop(rule, "subject-parses", 1, e.AtomGuard("findIA-ok", "+eq("+ia+"#1, nil)"))
		e.FailStop(rule, "same-isd", 1, Or("no-ia-or-same-isd", e.AtomGuard("no-ia", "+eq("+ia+"#0, nil)"),
			e.AtomGuard("same-isd", "+eq((pkg/addr.IA).ISD("+ia+"#0), recv.ID.ISD)")))
		e.FailStop(rule, "covers-trc-validity", 1, e.AtomGuard("covers", "+true(("+cp+"Validity).Covers(local:complit, recv.Validity))"))
		// the compared validity is the certificate's own
		okCov := false
		for _, ci := range v.Calls("(" + cp + "Validity).Covers") {
			l := v.Leaves(ci.In.Common().Args[0], 1)
			nb, na := false, false
			for k := range l {
				if strings.HasSuffix(k, ".NotBefore") && strings.Contains(k, "recv.Certificates[") {
					nb = true
				}
				if strings.HasSuffix(k, ".NotAfter") && strings.Contains(k, "recv.Certificates[") {
					na = true
				}
			}
			okCov = nb && na && ci.Args[1] == "recv.Validity"
		}
		c.Check(okCov, rule, v.Name()+":covers-operands", fn.Pos(), "Validity{cert.NotBefore, cert.NotAfter}.Covers(trc.Validity)")
		// U1
		rule = "U1-issuer-serial"
		var eq *ssa.Call
		for _, ci := range v.Calls(cp + "equalName") {
			if wild("recv.Certificates[*].Issuer", ci.Args[0]) && wild("recv.Certificates[*].Issuer", ci.Args[1]) {
				eq = ci.In.(*ssa.Call)
			}
		}
		if eq == nil {
			c.Fail(rule, v.Name()+":issuer-comparison", fn.Pos(), "no equalName(trc.Certificates[i].Issuer, trc.Certificates[j].Issuer) in Validate: "+
				"issuer/serial uniqueness must range over all certificates of the payload")
		} else {
			gEq := Guard{Name: "issuers-differ", Match: func(l Lit) bool { return l.Kind == "true" && !l.Pos && l.X == ssa.Value(eq) }}
			e.FailStopTo(rule, "same-issuer-and-serial-fails", succ, gEq)
			// serial comparison guards the issuer comparison, both operands from the payload list
			var cmp *ssa.Call
			for _, ci := range v.Calls("(*math/big.Int).Cmp") {
				if wild("recv.Certificates[*].SerialNumber", ci.Args[0]) && wild("recv.Certificates[*].SerialNumber", ci.Args[1]) {
					cmp = ci.In.(*ssa.Call)
				}
			}
			c.Check(cmp != nil, rule, v.Name()+":serial-comparison", fn.Pos(), "SerialNumber.Cmp between two certificates of the payload list")
			if cmp != nil {
				// the two indexes: i from the outer range, j = i+1 .. len-1
				ai, aj := indexOf(eq.Common().Args[0]), indexOf(eq.Common().Args[1])
				okIdx := ai != nil && aj != nil && ai != aj
				detail := "indexes not resolved"
				if okIdx {
					// j is a loop variable initialised with i+1 and advanced by 1
					okIdx = false
					if phi, isPhi := aj.(*ssa.Phi); isPhi {
						init, step := false, false
						for _, ed := range phi.Edges {
							bo, isB := ed.(*ssa.BinOp)
							if !isB || bo.Op.String() != "+" {
								continue
							}
							if k, isK := foldInt(bo.Y); isK && k == 1 {
								if bo.X == ai {
									init = true
								}
								if bo.X == ssa.Value(phi) {
									step = true
								}
							}
						}
						okIdx = init && step
					}
					detail = "i = " + v.S.Sym(ai) + ", j = " + short(v.S.Sym(aj))
				}
				c.Check(okIdx, rule, v.Name()+":pair-indexes", fn.Pos(), "j starts at i+1 and advances by one: "+detail)
				lenAll := func(x ssa.Value) bool { a := lenArg(x); return a != nil && v.S.Sym(a) == "recv.Certificates" }
				e.Require(rule, "inner-range", nil, []ssa.Instruction{cmp},
					Guard{Name: "j<len(all)", Match: func(l Lit) bool { return l.Kind == "lt" && l.Pos && l.X == aj && lenAll(l.Y) }},
					Guard{Name: "i<len(all)", Match: func(l Lit) bool { return l.Kind == "lt" && l.Pos && l.X == ai && lenAll(l.Y) }})
				// nothing but the loop bound ends the inner loop early
				okBreak := true
				hdr := cmp.Block()
				for _, p := range hdr.Preds {
					if len(p.Succs) == 2 {
						lits, _ := edgeLits(p, 0, nil)
						if len(lits) != 1 || lits[0].Kind != "lt" || !strings.HasSuffix(lits[0].String(v.S), ", builtin:len(recv.Certificates))") {
							okBreak = false
						}
					}
				}
				c.Check(okBreak, rule, v.Name()+":inner-loop-condition", fn.Pos(), "the inner loop runs while j < len(trc.Certificates) and nothing else")
			}
		}
		// U2
		rule = "U2-subject"
		us := v.Calls(cp + "uniqueSubject")
		c.Min("TRC.Validate:uniqueSubject", len(us), 1)
		okCls := false
		for _, ci := range us {
			// the argument iterates a slice literal of the three classes
			ix, ok := stripLoad(ci.In.Common().Args[0]).(*ssa.IndexAddr)
			if !ok {
				continue
			}
			if els, isLit := decodeSliceLit(v.S, ix.X); isLit && len(els) == 3 {
				got := map[string]bool{}
				for _, el := range els {
					got[el[""]] = true
				}
				okCls = got[cl+".Sensitive"] && got[cl+".Regular"] && got[cl+".Root"]
			}
		}
		c.Check(okCls, rule, v.Name()+":classes", fn.Pos(), "uniqueSubject runs over {Sensitive, Regular, Root} of classifyCerts(trc.Certificates)")
		e.FailStop(rule, "duplicate-subject-fails", 1, e.CallGuard(PassErrNil, cp+"uniqueSubject"))
	}
	if v := c.View(cp + "uniqueSubject"); v != nil {
		e := NewE1(c, v.Fn)
		var eq *ssa.Call
		for _, ci := range v.Calls(cp + "equalName") {
			if strings.HasSuffix(ci.Args[0], ".Subject") && strings.HasSuffix(ci.Args[1], ".Subject") {
				eq = ci.In.(*ssa.Call)
			}
		}
		c.Check(eq != nil, "U2-subject", v.Name()+":subject-comparison", v.Fn.Pos(), "equalName(a.Subject, b.Subject)")
		if eq != nil {
			g := Guard{Name: "subjects-differ", Match: func(l Lit) bool { return l.Kind == "true" && !l.Pos && l.X == ssa.Value(eq) }}
			e.FailStopTo("U2-subject", "same-subject-fails", e.SuccessReturns(), g)
		}
	}
	// component validators
	if v := c.View("(" + cp + "TRCID).Validate"); v != nil {
		e := NewE1(c, v.Fn)
		e.Require("V1-required-checks", "success", nil, e.SuccessReturns(),
			e.AtomGuard("isd!=0", "-eq(recv.ISD, 0:pkg/addr.ISD)", "-eq(recv.ISD, 0)"),
			e.AtomGuard("base<=serial", "-lt(recv.Serial, recv.Base)"),
			e.AtomGuard("base!=0", "-eq(recv.Base, 0:pkg/scrypto.Version)", "-eq(recv.Base, 0)"))
	}
	if v := c.View("(" + cp + "Validity).Validate"); v != nil {
		e := NewE1(c, v.Fn)
		e.Require("V1-required-checks", "success", nil, e.SuccessReturns(),
			e.AtomGuard("not-empty", "+true((time.Time).After(recv.NotAfter, recv.NotBefore))"))
	}
	if v := c.View(cp + "validateASSequence"); v != nil {
		e := NewE1(c, v.Fn)
		e.Require("V1-required-checks", "success", nil, e.SuccessReturns(), e.AtomGuard("non-empty", "-eq(builtin:len(arg0), 0)"))
		e.FailStop("V1-required-checks", "no-wildcard", 1, e.AtomGuard("as!=0", "-eq(arg0[*], 0:pkg/addr.AS)", "-eq(arg0[*], 0)"))
		e.FailStop("V1-required-checks", "no-duplicate", 1, e.AtomGuard("as!=other", "-eq(arg0[*], arg0[*])"))
	}
	// E1: codec
	if v := c.View("(*" + cp + "TRC).Encode"); v != nil {
		e := NewE1(c, v.Fn)
		e.Require("E1-codec", "success", nil, e.SuccessReturns(), e.CallGuard(PassErrNil, "(*"+cp+"TRC).Validate"))
		v.RequireCallArgs("E1-codec", 1, "(*"+cp+"TRC).Validate", "recv")
		v.RequireStore("E1-codec", 1, "local:complit.Version", "int64((recv.Version - 1))", "(int64(recv.Version) - 1)")
		v.RequireStore("E1-codec", 1, "local:complit.GracePeriod", "(recv.GracePeriod / 1000000000:time.Duration)", "int64((recv.GracePeriod / 1000000000:time.Duration))")
		v.RequireStore("E1-codec", 1, "local:complit.Quorum", "int64(recv.Quorum)")
		v.RequireStore("E1-codec", 1, "local:complit.NoTrustReset", "recv.NoTrustReset")
	}
	if v := c.View(cp + "DecodeTRC"); v != nil {
		e := NewE1(c, v.Fn)
		e.Require("E1-codec", "success", nil, e.SuccessReturns(), e.CallGuard(PassErrNil, "(*"+cp+"TRC).Validate"))
		v.RequireStore("E1-codec", 1, "local:complit.Version", "(int(local:a.Version) + 1)")
		v.RequireStore("E1-codec", 1, "local:complit.GracePeriod", "(local:a.GracePeriod * 1000000000:time.Duration)", "(time.Duration(local:a.GracePeriod) * 1000000000:time.Duration)")
		v.RequireStore("E1-codec", 1, "local:complit.Quorum", "int(local:a.Quorum)")
		v.RequireStore("E1-codec", 1, "local:complit.NoTrustReset", "local:a.NoTrustReset")
		// every list / structured member comes from the wire member of the same name
		for member, src := range map[string]string{
			"CoreASes":          cp + "decodeASes(local:a.CoreASes)#0",
			"AuthoritativeASes": cp + "decodeASes(local:a.AuthoritativeASes)#0",
			"Certificates":      cp + "decodeCertificates(local:a.Certificates)#0",
			"Votes":             cp + "decodeVotes(local:a.Votes)",
			"ID":                cp + "decodeID(local:a.ID)#0",
			"Validity":          cp + "decodeValidity(local:a.Validity)#0",
			"Description":       "local:a.Description",
		} {
			v.RequireStore("E1-codec", 1, "local:complit."+member, src)
		}
		okRet := true
		for _, r := range e.SuccessReturns() {
			okRet = okRet && v.S.Sym(RetVal(r.(*ssa.Return), 0)) == "local:pld"
		}
		c.Check(okRet, "E1-codec", v.Name()+":returns-validated-payload", v.Fn.Pos(), "returns the payload that was validated")
	}
	_ = fmt.Sprint
}

// stripLoad removes a load.
func stripLoad(v ssa.Value) ssa.Value {
	if u, ok := v.(*ssa.UnOp); ok {
		return u.X
	}
	return v
}

// indexOf: for a value read from X[i].F... returns i.
func indexOf(v ssa.Value) ssa.Value {
	for d := 0; d < 8; d++ {
		switch x := v.(type) {
		case *ssa.UnOp:
			v = x.X
		case *ssa.FieldAddr:
			v = x.X
		case *ssa.Field:
			v = x.X
		case *ssa.IndexAddr:
			return x.Index
		case *ssa.Index:
			return x.Index
		default:
			return nil
		}
	}
	return nil
}
