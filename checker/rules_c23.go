package main

import (
	"fmt"
	"strings"

	"golang.org/x/tools/go/ssa"
)

func init() {
	register(&PropRule{
		ID:    "C23",
		Roots: []string{"./control/beaconing", "./control/beacon"},
		Explain: "Decides for DefaultExtender.Extend: the AS entry names the local ISD-AS and, as next, " +
			"the ISD-AS behind the egress interface; the four argument checks (MTU set, ingress zero " +
			"exactly on the first hop, not both interfaces zero) precede every success; ONE expiry " +
			"value (SSA identity) is used for the regular hop entry and for all peer entries, and it " +
			"is the configured maximum unless segment timestamp + maximum lies after the signer's " +
			"NotAfter, in which case it is ExpTimeFromDuration(signer NotAfter − timestamp); the " +
			"signer whose validity bounds the expiry is the one that signs; hop entry and peer " +
			"entries are MACed with the segment timestamp and with beta = extractBeta(segment) resp. " +
			"beta ⊕ MAC[0:2] of the regular hop; createHopF feeds MACInput with exactly the values " +
			"it publishes in the hop field; the entry is added (signed) and the segment validated on " +
			"both exits. NOT decided: rounding inside ExpTimeFromDuration, signature validity (C24).",
		Run: runC23,
	})
	setClaim("C23", claim{
		Text: "SSA value identity of the expiry passed to hop and peer entries, phi/edge structure of " +
			"the expiry clamp, guard dominance of argument checks, symbolic pairing of AS-entry fields, " +
			"betas and MAC inputs.",
		Note: claimNote, Technique: "static analysis: SSA value identity and phi/edge analysis, guard " +
			"dominance, symbolic pairing", Ref: "DESIGN.md §4 C23"})
	addMutants(
		Mutant{Prop: "C23", Name: "next-is-local", File: "control/beaconing/extender.go",
			Old: `		Next:        next,`, New: `		Next:        next & s.IA,`, Expect: "P1-as-entry"},
		Mutant{Prop: "C23", Name: "clamp-dropped", File: "control/beaconing/extender.go",
			Old:    `		expTime, err = path.ExpTimeFromDuration(signerExp.Sub(ts))`,
			New:    `		_, err = path.ExpTimeFromDuration(signerExp.Sub(ts))`,
			Expect: "E1-expiry-clamp"},
		Mutant{Prop: "C23", Name: "peers-unclamped", File: "control/beaconing/extender.go",
			Old:    `	peerEntries, epicPeerMacs, err := s.createPeerEntries(egress, peers, expTime, ts, peerBeta)`,
			New:    `	peerEntries, epicPeerMacs, err := s.createPeerEntries(egress, peers, s.MaxExpTime(), ts, peerBeta)`,
			Expect: "E1-expiry-clamp"},
		Mutant{Prop: "C23", Name: "peer-beta-is-hop-beta", File: "control/beaconing/extender.go",
			Old:    `	peerEntries, epicPeerMacs, err := s.createPeerEntries(egress, peers, expTime, ts, peerBeta)`,
			New:    `	peerEntries, epicPeerMacs, err := s.createPeerEntries(egress, peers, expTime, ts, hopBeta^(peerBeta&0))`,
			Expect: "B1-betas"},
		Mutant{Prop: "C23", Name: "hopf-mac-swapped-interfaces", File: "control/beaconing/extender.go",
			Old:    `	path.MACInput(beta, util.TimeToSecs(ts), expTime, ingress, egress, input)`,
			New:    `	path.MACInput(beta, util.TimeToSecs(ts), expTime, egress, ingress, input)`,
			Expect: "M1-hop-field-mac"},
		Mutant{Prop: "C23", Name: "both-zero-allowed", File: "control/beaconing/extender.go",
			Old: `	if ingress == 0 && egress == 0 {
		return serrors.New("ingress and egress must not be both 0")
	}
`, New: "", Expect: "G1-argument-checks"},
	)
}

func runC23(c *Ctx) {
	c23ConfiguredMaximumKept(c)
	lastExpiringCovers(c, "E2-signer-covers-segment")
	eT := "(*control/beaconing.DefaultExtender)"
	v := c.View(eT + ".Extend")
	if v != nil {
		e := NewE1(c, v.Fn)
		succ := e.SuccessReturns()
		firstHop := "+lt((*pkg/segment.PathSegment).MaxIdx(arg1), 0)"
		notFirst := "-lt((*pkg/segment.PathSegment).MaxIdx(arg1), 0)"
		e.Require("G1-argument-checks", "success-returns", nil, succ,
			e.AtomGuard("MTU-set", "-eq(recv.MTU, 0)"),
			Or("ingress-zero-only-on-first-hop", e.AtomGuard("a", "-eq(arg2, 0)"), e.AtomGuard("b", firstHop)),
			Or("ingress-nonzero-not-on-first-hop", e.AtomGuard("a", "+eq(arg2, 0)"), e.AtomGuard("b", notFirst)),
			Or("not-both-zero", e.AtomGuard("a", "-eq(arg2, 0)"), e.AtomGuard("b", "-eq(arg3, 0)")),
			e.CallGuard(PassErrNil, "invoke:control/beaconing.SignerGen.Generate"),
			e.CallGuard(PassErrNil, "private/trust.LastExpiring*"),
			e.CallGuard(PassErrNil, "(*pkg/segment.PathSegment).AddASEntry"),
			e.CallGuard(PassErrNil, "(*pkg/segment.PathSegment).Validate"))
		// E1: expiry clamp
		hop := v.Calls(eT + ".createHopEntry")
		peer := v.Calls(eT + ".createPeerEntries")
		if len(hop) != 1 || len(peer) != 1 {
			c.Fail("E1-expiry-clamp", v.Name()+":calls", v.Fn.Pos(), "expected one createHopEntry and one createPeerEntries call")
		} else {
			expHop := hop[0].In.Common().Args[3]
			expPeer := peer[0].In.Common().Args[3]
			c.Check(expHop == expPeer, "E1-expiry-clamp", v.Name()+":same-expiry-for-hop-and-peers", peer[0].In.Pos(),
				"hop entry gets "+short(v.S.Sym(expHop))+"; peer entries get "+short(v.S.Sym(expPeer)))
			phi, isPhi := expHop.(*ssa.Phi)
			okClamp := false
			detail := "expiry is " + short(v.S.Sym(expHop))
			if isPhi && len(phi.Edges) == 2 {
				var maxV, clampV ssa.Value
				var clampPred *ssa.BasicBlock
				for i, ed := range phi.Edges {
					s := v.S.Sym(ed)
					switch {
					case s == "dyn:recv.MaxExpTime()":
						maxV = ed
					case strings.HasPrefix(s, "pkg/slayers/path.ExpTimeFromDuration((time.Time).Sub(") && strings.HasSuffix(s, "#0"):
						clampV = ed
						clampPred = phi.Block().Preds[i]
					}
				}
				if maxV != nil && clampV != nil {
					// the clamp edge is taken exactly when ts + dur(max) is after the signer's NotAfter
					cond := false
					for _, l := range blockLits(clampPred) {
						s := l.String(v.S)
						if strings.HasPrefix(s, "+true((time.Time).After((time.Time).Add(arg1.Info.Timestamp, pkg/slayers/path.ExpTimeToDuration(dyn:recv.MaxExpTime())), invoke:control/beaconing.Signer.Validity(") &&
							strings.Contains(s, ".NotAfter") {
							cond = true
						}
					}
					sub := v.S.Sym(clampV)
					okArgs := strings.Contains(sub, ".NotAfter, arg1.Info.Timestamp))#0")
					okClamp = cond && okArgs
					detail = fmt.Sprintf("clamp edge condition found=%v, clamp = ExpTimeFromDuration(signer.NotAfter − ts)=%v", cond, okArgs)
				}
			}
			c.Check(okClamp, "E1-expiry-clamp", v.Name()+":clamped-to-signer-expiry", hop[0].In.Pos(), detail)
			// the signer that bounds the expiry is the one that signs
			add := v.Calls("(*pkg/segment.PathSegment).AddASEntry")
			okSigner := len(add) == 1
			if okSigner {
				signer := add[0].Args[3]
				okSigner = strings.HasPrefix(signer, "private/trust.LastExpiring") && strings.HasSuffix(signer, "#0") &&
					strings.Contains(v.S.Sym(expHop), "invoke:control/beaconing.Signer.Validity("+signer)
			}
			c.Check(okSigner, "E1-expiry-clamp", v.Name()+":signing-signer-bounds-expiry", v.Fn.Pos(),
				"AddASEntry signs with the signer whose Validity().NotAfter bounds the expiry")
			// B1: betas and timestamp
			okTs := hop[0].Args[4] == "arg1.Info.Timestamp" && peer[0].Args[4] == "arg1.Info.Timestamp"
			c.Check(okTs, "B1-betas", v.Name()+":segment-timestamp", v.Fn.Pos(), "both MACs use pseg.Info.Timestamp")
			c.Check(hop[0].Args[5] == "control/beaconing.extractBeta(arg1)", "B1-betas", v.Name()+":hop-beta", hop[0].In.Pos(),
				"hop entry beta = extractBeta(pseg): "+hop[0].Args[5])
			pb := peer[0].Args[5]
			okPB := wild("(control/beaconing.extractBeta(arg1) ^ (encoding/binary.bigEndian).Uint16(global:encoding/binary.BigEndian, local:hopEntry.HopField.MAC[:2]))", pb) ||
				wild("((encoding/binary.bigEndian).Uint16(global:encoding/binary.BigEndian, local:hopEntry.HopField.MAC[:2]) ^ control/beaconing.extractBeta(arg1))", pb)
			c.Check(okPB, "B1-betas", v.Name()+":peer-beta", peer[0].In.Pos(), "peer beta = hop beta ⊕ MAC[0:2] of the regular hop: "+short(pb))
			c.Check(hop[0].Args[1] == "arg2" && hop[0].Args[2] == "arg3" && peer[0].Args[1] == "arg3" && peer[0].Args[2] == "arg4",
				"B1-betas", v.Name()+":interfaces", v.Fn.Pos(), "createHopEntry(ingress, egress), createPeerEntries(egress, peers)")
		}
		// P1: AS entry fields
		v.RequireStore("P1-as-entry", 1, "local:complit.Local", "recv.IA")
		v.RequireStore("P1-as-entry", 1, "local:complit.Next", eT+".remoteIA(recv, arg3)#0")
		v.RequireStore("P1-as-entry", 1, "local:complit.HopEntry", "local:hopEntry")
		v.RequireStore("P1-as-entry", 1, "local:hopEntry", eT+".createHopEntry(recv, arg2, arg3, *)#0")
		v.RequireStore("P1-as-entry", 1, "local:complit.PeerEntries", eT+".createPeerEntries(recv, arg3, arg4, *)#0")
		v.RequireStore("P1-as-entry", 1, "local:complit.MTU", "int(recv.MTU)")
		v.RequireCallArgs("P1-as-entry", 1, "(*pkg/segment.PathSegment).AddASEntry", "arg1", "arg0", "local:asEntry")
		v.RequireStore("P1-as-entry", 1, "local:asEntry", "local:complit")
		// validation mode by egress
		vals := v.Calls("(*pkg/segment.PathSegment).Validate")
		okVal := len(vals) == 2
		for _, ci := range vals {
			in := ci.In.(ssa.Instruction)
			zero := false
			for _, l := range blockLits(in.Block()) {
				if l.String(v.S) == "+eq(arg3, 0)" {
					zero = true
				}
			}
			want := c.Const("pkg/segment.ValidateBeacon")
			if zero {
				want = c.Const("pkg/segment.ValidateSegment")
			}
			if ci.Args[1] != want {
				okVal = false
			}
		}
		c.Check(okVal, "P1-as-entry", v.Name()+":validate-by-egress", v.Fn.Pos(),
			"egress 0 ⇒ validated as terminated segment, otherwise as beacon")
	}
	hopFieldMacRule(c, eT)
	if bv := c.View("control/beaconing.extractBeta"); bv != nil {
		for _, b := range bv.Fn.Blocks {
			if r, ok := b.Instrs[len(b.Instrs)-1].(*ssa.Return); ok {
				bv.RequireDepends("B1-betas", "result", r.Results[0], "arg0.Info.SegmentID", "arg0.ASEntries[*]", "local:entry.HopEntry.HopField.MAC*")
			}
		}
		segIDXorRule(c, bv, "B1-betas")
	}
	if rv := c.View(eT + ".remoteIA"); rv != nil {
		e := NewE1(c, rv.Fn)
		ok := true
		for _, r := range e.SuccessReturns() {
			s := rv.S.Sym(RetVal(r.(*ssa.Return), 0))
			if s != "0:pkg/addr.IA" && !wild("(*control/ifstate.Interface).TopoInfo(*).IA", s) {
				ok = false
			}
		}
		c.Check(ok, "P1-as-entry", rv.Name()+":neighbour-of-egress", rv.Fn.Pos(),
			"returns the ISD-AS configured for the interface (or zero for interface 0)")
		rv.RequireCallArgs("P1-as-entry", 1, "(*control/ifstate.Interfaces).Get", "recv.Intfs", "arg0")
	}
}

func short(s string) string {
	if len(s) > 160 {
		return s[:160] + "…"
	}
	return s
}

// segIDXorRule: the accumulator is updated only by XOR with the big-endian
// first two bytes of a hop MAC.
func segIDXorRule(c *Ctx, v *FnView, rule string) {
	n := 0
	ok := true
	for _, b := range v.Fn.Blocks {
		for _, in := range b.Instrs {
			bo, isB := in.(*ssa.BinOp)
			if !isB || bo.Op.String() != "^" {
				continue
			}
			n++
			s := v.S.Sym(bo)
			if !strings.Contains(s, "(encoding/binary.bigEndian).Uint16(global:encoding/binary.BigEndian, ") {
				ok = false
			}
		}
	}
	c.Check(ok && n >= 1, rule, v.Name()+":xor-with-mac-prefix", v.Fn.Pos(),
		fmt.Sprintf("%d XOR update(s), each with BigEndian.Uint16 of a hop MAC", n))
}

// hopFieldMacRule (shared with C04): the control plane MACs exactly the values
// it publishes in the hop field.
func hopFieldMacRule(c *Ctx, eT string) {
	if hv := c.View(eT + ".createHopF"); hv != nil {
		hv.RequireCallArgs("M1-hop-field-mac", 1, "pkg/slayers/path.MACInput", "arg4", "pkg/private/util.TimeToSecs(arg3)",
			"arg2", "arg0", "arg1", "local:makeslice[:16]")
		hv.RequireStore("M1-hop-field-mac", 1, "local:complit.ConsIngress", "arg0")
		hv.RequireStore("M1-hop-field-mac", 1, "local:complit.ConsEgress", "arg1")
		hv.RequireStore("M1-hop-field-mac", 1, "local:complit.ExpTime", "arg2")
		hv.RequireCallArgs("M1-hop-field-mac", 1, "invoke:hash.Hash.Write", "dyn:recv.MAC()", "local:makeslice[:16]")
		mi := hv.Calls("pkg/slayers/path.MACInput")
		wr := hv.Calls("invoke:hash.Hash.Write")
		c.Check(len(mi) == 1 && len(wr) == 1 && instrDominates(mi[0].In.(ssa.Instruction), wr[0].In.(ssa.Instruction)),
			"M1-hop-field-mac", hv.Name()+":input-then-mac", hv.Fn.Pos(), "MACInput fills the buffer before it is MACed")
	}
	for _, q := range []string{eT + ".createHopEntry", eT + ".createPeerEntry"} {
		if hv := c.View(q); hv != nil {
			hv.RequireCallArgs("M1-hop-field-mac", 1, eT+".createHopF", "recv", "arg0", "arg1", "arg2", "arg3", "arg4")
			call := eT + ".createHopF(recv, arg0, arg1, arg2, arg3, arg4)#0"
			hv.RequireStore("M1-hop-field-mac", 1, "local:complit.ConsIngress", call+".ConsIngress")
			hv.RequireStore("M1-hop-field-mac", 1, "local:complit.ConsEgress", call+".ConsEgress")
			hv.RequireStore("M1-hop-field-mac", 1, "local:complit.ExpTime", call+".ExpTime")
			hv.RequireStore("M1-hop-field-mac", 1, "local:complit.MAC", call+".Mac")
		}
	}
	if pv := c.View(eT + ".createPeerEntries"); pv != nil {
		pv.RequireCallArgs("M1-hop-field-mac", 1, eT+".createPeerEntry", "recv", "arg1[*]", "arg0", "arg2", "arg3", "arg4")
	}
}
