package main

import (
	"fmt"
	"os"

	"golang.org/x/tools/go/ssa"
)

// dumpFunc prints the SSA of a function with the symbolic form of every value
// and the literals of every branch (debugging aid for rule authors).
func dumpFunc(prog *Program, q string) {
	fn, err := prog.LookupFunc(q)
	if err != nil {
		fmt.Println(err)
		os.Exit(2)
	}
	s := NewSymer()
	fn.WriteTo(os.Stdout)
	fmt.Println("---- symbolic forms")
	for _, b := range fn.Blocks {
		for _, in := range b.Instrs {
			if v, ok := in.(ssa.Value); ok {
				fmt.Printf("b%d %s = %s\n", b.Index, v.Name(), s.Sym(v))
			}
			if c, ok := in.(ssa.CallInstruction); ok {
				if _, isV := in.(ssa.Value); !isV {
					fmt.Printf("b%d call %s\n", b.Index, calleeName(c.Common()))
				}
			}
			if st, ok := in.(*ssa.Store); ok {
				fmt.Printf("b%d store %s <- %s\n", b.Index, s.Sym(st.Addr), s.Sym(st.Val))
			}
		}
		for i := range b.Succs {
			ls, feas := edgeLits(b, i, nil)
			for _, l := range ls {
				fmt.Printf("b%d -> b%d : %s feasible=%v\n", b.Index, b.Succs[i].Index, l.String(s), feas)
			}
		}
	}
}
