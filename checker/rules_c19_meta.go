package main

import (
	"fmt"
	"go/token"
	"go/types"
	"sort"
	"strings"

	"golang.org/x/tools/go/ssa"
)

// C19, the meta header line "CurrINF(2) CurrHF(6) RSV(6) SegLen0(6) SegLen1(6)
// SegLen2(6)": MetaHdr.SerializeTo ORs the five members into one 32-bit word. A
// member written without its mask spills into its neighbour: CurrHF is a uint8,
// shifted by 24 it reaches bits 30 and 31 - CurrINF - unless it is masked to six
// bits. In-range pointers never show it; a reversed out-of-range pointer does.
//
// Rule M1 (bit footprints, engine E9): the word handed to PutUint32 is an OR of
// terms; each term mentions exactly one member and its footprint - the bits it
// can set, computed from the operand widths, masks and shifts - lies inside that
// member's field of the specification; the footprints are pairwise disjoint and
// the reserved bits 18-23 stay zero. DecodeFromBytes reads each member from
// exactly its field.
func init() {
	addMutants(
		Mutant{Prop: "C19", Name: "currhf-written-unmasked", File: "pkg/slayers/path/scion/base.go",
			Old: `uint32(m.CurrHF&0x3F)<<24`, New: `uint32(m.CurrHF)<<24`, Expect: "M1-meta-header-fields"},
		Mutant{Prop: "C19", Name: "seglen1-shifted-into-seglen0", File: "pkg/slayers/path/scion/base.go",
			Old: `	line |= uint32(m.SegLen[1]&0x3F) << 6`, New: `	line |= uint32(m.SegLen[1]&0x3F) << 8`, Expect: "M1-meta-header-fields"},
	)
}

// bitFootprint: the bits of v that can be non-zero (over-approximation).
func bitFootprint(v ssa.Value, depth int) uint64 {
	w, ok := intWidth(v.Type())
	full := allBits
	if ok && w < 64 {
		full = 1<<uint(w) - 1
	}
	if depth > 16 {
		return full
	}
	if k, isK := constU64(v); isK {
		return k & full
	}
	switch x := v.(type) {
	case *ssa.Convert:
		in := bitFootprint(x.X, depth+1)
		if !isUnsigned(x.X.Type()) {
			return full
		}
		return in & full
	case *ssa.ChangeType:
		return bitFootprint(x.X, depth+1) & full
	case *ssa.BinOp:
		a, b := bitFootprint(x.X, depth+1), bitFootprint(x.Y, depth+1)
		switch x.Op {
		case token.AND:
			return a & b
		case token.OR, token.XOR:
			return (a | b) & full
		case token.AND_NOT:
			return a
		case token.SHL:
			if k, isK := constU64(x.Y); isK && k < 64 {
				return (a << k) & full
			}
		case token.SHR:
			if k, isK := constU64(x.Y); isK && k < 64 && isUnsigned(x.X.Type()) {
				return a >> k
			}
		}
	}
	return full
}

// orTerms: the operands of a tree of | operators.
func orTerms(v ssa.Value, out []ssa.Value) []ssa.Value {
	if bo, ok := v.(*ssa.BinOp); ok && bo.Op == token.OR {
		return orTerms(bo.Y, orTerms(bo.X, out))
	}
	return append(out, v)
}

func c19MetaHeaderFields(c *Ctx) {
	rule := "M1-meta-header-fields"
	spec := map[string]uint64{
		"recv.CurrINF":   0x3 << 30,
		"recv.CurrHF":    0x3f << 24,
		"recv.SegLen[0]": 0x3f << 12,
		"recv.SegLen[1]": 0x3f << 6,
		"recv.SegLen[2]": 0x3f,
	}
	if v := c.View("(*pkg/slayers/path/scion.MetaHdr).SerializeTo"); v != nil {
		var word ssa.Value
		for _, ci := range v.Calls("(encoding/binary.bigEndian).PutUint32") {
			word = ci.In.Common().Args[len(ci.In.Common().Args)-1]
		}
		// the word may be packed by a helper method of the same value (m.pack()): analyse that
		if call, isCall := word.(*ssa.Call); isCall {
			if h := call.Common().StaticCallee(); h != nil && h.Blocks != nil && h.Pkg == v.Fn.Pkg && len(call.Common().Args) == 1 && v.S.Sym(call.Common().Args[0]) == "recv" {
				var rets []ssa.Value
				for _, b := range h.Blocks {
					if r, isR := b.Instrs[len(b.Instrs)-1].(*ssa.Return); isR && len(r.Results) == 1 {
						rets = append(rets, r.Results[0])
					}
				}
				if len(rets) == 1 {
					v, word = ViewOf(c, h), rets[0]
				}
			}
		}
		if c.Check(word != nil, rule, v.Name()+":word", v.Fn.Pos(), "the line is written with one PutUint32") {
			var bad []string
			seen := map[string]bool{}
			var union uint64
			for _, t := range orTerms(word, nil) {
				fp := bitFootprint(t, 0)
				member := ""
				for l := range v.Leaves(t, 0) {
					for m := range spec {
						if l == m {
							if member != "" && member != m {
								bad = append(bad, "a term mixes "+member+" and "+m)
							}
							member = m
						}
					}
				}
				switch {
				case member == "" && fp != 0:
					bad = append(bad, fmt.Sprintf("a term of no member sets bits %#x", fp))
				case member != "":
					seen[member] = true
					if fp&^spec[member] != 0 {
						bad = append(bad, fmt.Sprintf("%s can set bits %#x outside its field %#x", member, fp&^spec[member], spec[member]))
					}
					if fp != spec[member] {
						// narrower than the field is a loss of information, not an overlap
						if fp&spec[member] != spec[member] {
							bad = append(bad, fmt.Sprintf("%s reaches only bits %#x of its field %#x", member, fp, spec[member]))
						}
					}
				}
				if union&fp != 0 {
					bad = append(bad, fmt.Sprintf("bits %#x are set by two terms", union&fp))
				}
				union |= fp
			}
			for m := range spec {
				if !seen[m] {
					bad = append(bad, m+" is not written")
				}
			}
			sort.Strings(bad)
			c.Check(len(bad) == 0, rule, v.Name()+":fields", v.Fn.Pos(), fmt.Sprintf(
				"five members, each inside its field, pairwise disjoint, reserved bits zero (bits set: %#x): %s", union, strings.Join(bad, "; ")))
		}
	}
	if v := c.View("(*pkg/slayers/path/scion.MetaHdr).DecodeFromBytes"); v != nil {
		// each member <- (line >> shift) & mask, line = Uint32(raw)
		want := map[string][2]uint64{
			"recv.CurrINF":   {30, 0x3},
			"recv.CurrHF":    {24, 0x3f},
			"recv.SegLen[0]": {12, 0x3f},
			"recv.SegLen[1]": {6, 0x3f},
			"recv.SegLen[2]": {0, 0x3f},
		}
		// the members may be set by a helper method of the same value (m.unpack(Uint32(raw)))
		if len(v.Stores("recv.CurrHF")) == 0 {
			for _, b := range v.Fn.Blocks {
				for _, in := range b.Instrs {
					call, ok := in.(ssa.CallInstruction)
					if !ok {
						continue
					}
					h := call.Common().StaticCallee()
					if h == nil || h.Blocks == nil || h.Pkg != v.Fn.Pkg || len(call.Common().Args) != 2 || v.S.Sym(call.Common().Args[0]) != "recv" {
						continue
					}
					if _, isWord := call.Common().Args[1].(*ssa.Call); isWord && len(ViewOf(c, h).Stores("recv.CurrHF")) > 0 {
						v = ViewOf(c, h)
					}
				}
			}
		}
		var bad []string
		n := 0
		for _, st := range v.Stores("recv.*") {
			w, ok := want[st.Addr]
			if !ok {
				continue
			}
			n++
			shift, mask, okForm := shiftMaskOf(st.In.Val)
			// a full-width shift needs no mask: (line >> 30) of a uint32 has two bits
			eff := mask
			if t, isB := stripConv(st.In.Val).Type().Underlying().(*types.Basic); isB && t.Kind() == types.Uint32 && shift > 0 && 32-shift < 64 {
				eff &= 1<<(32-shift) - 1
			}
			if !okForm || shift != w[0] || eff != w[1] {
				bad = append(bad, fmt.Sprintf("%s <- %s (shift %d, mask %#x; field: shift %d, mask %#x)", st.Addr, st.Val, shift, eff, w[0], w[1]))
			}
		}
		sort.Strings(bad)
		c.Check(n == 5 && len(bad) == 0, rule, v.Name()+":fields", v.Fn.Pos(), fmt.Sprintf(
			"%d members read from their fields: %s", n, strings.Join(bad, "; ")))
	}
}

// shiftMaskOf: v is conv*((x >> shift) & mask) with either part optional.
func shiftMaskOf(v ssa.Value) (shift, mask uint64, ok bool) {
	mask = allBits
	v = stripConv(v)
	if bo, isB := v.(*ssa.BinOp); isB && bo.Op == token.AND {
		if k, isK := constU64(bo.Y); isK {
			mask = k
			v = stripConv(bo.X)
		} else if k, isK := constU64(bo.X); isK {
			mask = k
			v = stripConv(bo.Y)
		}
	}
	if bo, isB := v.(*ssa.BinOp); isB && bo.Op == token.SHR {
		if k, isK := constU64(bo.Y); isK {
			shift = k
			v = stripConv(bo.X)
		}
	}
	_, isCall := v.(*ssa.Call)
	_, isParam := v.(*ssa.Parameter) // inside an unpack(line) helper the word is the parameter
	return shift, mask, isCall || isParam
}
