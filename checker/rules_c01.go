package main

import (
	"fmt"

	"golang.org/x/tools/go/ssa"
)

const (
	procT = "(*router.scionPacketProcessor)"
)

func init() {
	register(&PropRule{
		ID:    "C01",
		Roots: []string{"./router"},
		Explain: "Decides, on every CFG path of the fast-path processor: no forwarding exit " +
			"(return pForward) of process() is reachable without a checked hop-expiry test and " +
			"a checked constant-time 6-byte MAC comparison over the current info/hop field; both " +
			"are repeated after a segment cross-over; processPkt reaches process() for SCION and " +
			"EPIC paths; runProcessor sends only on disposition pForward; the failure exits carry " +
			"the documented SCMP code/pointer; MACInput covers SegID, timestamp, ExpTime, " +
			"ConsIngress, ConsEgress at the specified offsets. NOT decided: that MAC values are " +
			"numerically right for all keys/paths, wall-clock behaviour.",
		Run: runC01,
	})
	addMutants(
		Mutant{Prop: "C01", Name: "drop-mac-after-xover", File: "router/dataplane.go",
			Old: `		// verify the new block
		if disp := p.verifyCurrentMAC(); disp != pForward {
			return disp
		}
`, New: "", Expect: "R2-revalidate-after-xover"},
		Mutant{Prop: "C01", Name: "drop-first-expiry", File: "router/dataplane.go",
			Old: `	if disp := p.validateHopExpiry(); disp != pForward {
		return disp
	}
	if disp := p.validateIngressID(); disp != pForward {`,
			New:    `	if disp := p.validateIngressID(); disp != pForward {`,
			Expect: "R1-guard-before-forward"},
		Mutant{Prop: "C01", Name: "mac-skip-for-peering", File: "router/dataplane.go",
			Old: `	if disp := p.verifyCurrentMAC(); disp != pForward {
		return disp
	}
	if disp := p.handleIngressRouterAlert(); disp != pForward {`,
			New: `	if !p.peering || p.ingressFromLink != 0 {
		if disp := p.verifyCurrentMAC(); disp != pForward {
			return disp
		}
	}
	if disp := p.handleIngressRouterAlert(); disp != pForward {`,
			Expect: "R1-guard-before-forward"},
		Mutant{Prop: "C01", Name: "compare-4-bytes", File: "router/dataplane.go",
			Old:    `if subtle.ConstantTimeCompare(p.hopField.Mac[:path.MacLen], fullMac[:path.MacLen]) == 0 {`,
			New:    `if subtle.ConstantTimeCompare(p.hopField.Mac[:4], fullMac[:4]) == 0 {`,
			Expect: "R3-mac-compare"},
		Mutant{Prop: "C01", Name: "expiry-never", File: "router/dataplane.go",
			Old:    `expired := expiration.Before(time.Now())`,
			New:    `expired := expiration.Before(time.Time{})`,
			Expect: "R4-expiry"},
		Mutant{Prop: "C01", Name: "discard-falls-through", File: "router/dataplane.go",
			Old: `		case pDiscard: // Everything else
			metrics[sc].DroppedPacketsInvalid.Inc()
			d.packetPool.Put(p)
			continue`,
			New: `		case pDiscard: // Everything else
			metrics[sc].DroppedPacketsInvalid.Inc()`,
			Expect: "R6-send-only-forward"},
		Mutant{Prop: "C01", Name: "macinput-exptime-zero", File: "pkg/slayers/path/mac.go",
			Old: `buffer[9] = expTime`, New: `buffer[9] = 0`, Expect: "R5-mac-input"},
		Mutant{Prop: "C01", Name: "wrong-scmp-code", File: "router/dataplane.go",
			Old: `			code:    slayers.SCMPCodeInvalidHopFieldMAC,`,
			New: `			code:    slayers.SCMPCodeInvalidPath,`, Expect: "R7-failure-outcome"},
	)
}

func runC01(c *Ctx) {
	procStateFresh(c, "S1-per-packet-state")
	c01ConfiguredKeyIsTheMacKey(c)
	c01Core(c, "")
}

// c01Core is shared with C04 (which re-uses R1/R2/R5).
func c01Core(c *Ctx, only string) {
	fn := c.Fn(procT + ".process")
	if fn == nil {
		return
	}
	e := NewE1(c, fn)
	sinks := e.SuccessReturns()
	expiry := e.CallGuard(PassFwd, procT+".validateHopExpiry")
	mac := e.CallGuard(PassFwd, procT+".verifyCurrentMAC")
	c.Min("process:success-returns", len(sinks), 3)
	// process and the methods it calls on the same processor (a block of process
	// moved into a helper is still part of it; E1 summarises what a helper establishes)
	closure := recvClosure(fn)
	c.Min("process:calls-validateHopExpiry", countCalls(closure, procT+".validateHopExpiry"), 2)
	c.Min("process:calls-verifyCurrentMAC", countCalls(closure, procT+".verifyCurrentMAC"), 2)
	e.Require("R1-guard-before-forward", "success-returns", nil, sinks, expiry, mac)

	// R2: after doXover both validations are repeated for the new hop field, in
	// whichever function of that closure the cross-over is done.
	nXo := 0
	for _, f := range closure {
		ef := e
		if f != fn {
			ef = NewE1(c, f)
		}
		for _, x := range ef.CallSites(procT + ".doXover") {
			nXo++
			ef.Require("R2-revalidate-after-xover", "after-doXover", x, ef.SuccessReturns(),
				ef.CallGuard(PassFwd, procT+".validateHopExpiry"), ef.CallGuard(PassFwd, procT+".verifyCurrentMAC"))
		}
	}
	c.Min("process:calls-doXover", nXo, 1)
	c01MacCompare(c)
	if only == "C04" {
		c01MacInput(c)
		return
	}

	// R4: validateHopExpiry succeeds only if Before(SecsToTime(info.Timestamp) +
	// ExpTimeToDuration(hop.ExpTime), time.Now()) is false.
	if v := c.View(procT + ".validateHopExpiry"); v != nil {
		ev := NewE1(c, v.Fn)
		exp := "(time.Time).Add(pkg/private/util.SecsToTime(recv.infoField.Timestamp), " +
			"pkg/slayers/path.ExpTimeToDuration(recv.hopField.ExpTime))"
		g := ev.AtomGuard("not-expired",
			"-true((time.Time).Before("+exp+", time.Now()))",
			"+true((time.Time).After("+exp+", time.Now()))",
			"-true((time.Time).After(time.Now(), "+exp+"))",
			"+true((time.Time).Before(time.Now(), "+exp+"))")
		ev.Require("R4-expiry", "success-returns", nil, ev.SuccessReturns(), g)
	}

	c01MacInput(c)

	// R6: the dispatch closure.
	if f := c.Fn(procT + ".processSCION"); f != nil {
		ef := NewE1(c, f)
		ef.Require("R6-dispatch", "success-returns", nil, ef.SuccessReturns(),
			ef.CallGuard(PassFwd, procT+".process"))
	}
	if f := c.Fn(procT + ".processEPIC"); f != nil {
		ef := NewE1(c, f)
		ef.Require("R6-dispatch", "success-returns", nil, ef.SuccessReturns(),
			ef.CallGuard(PassFwd, procT+".process"))
	}
	if f := c.Fn(procT + ".processPkt"); f != nil {
		// every success return of processPkt delegates to one of the per-path-type
		// processors; SCION and EPIC establish both validators (summaries).
		ef := NewE1(c, f)
		ef.Require("R6-dispatch", "success-returns", nil, ef.SuccessReturns(),
			Or("per-path-type-processor",
				ef.CallGuard(PassFwd, procT+".processSCION"),
				ef.CallGuard(PassFwd, procT+".processEPIC"),
				ef.CallGuard(PassFwd, procT+".processOHP"),
				ef.CallGuard(PassFwd, procT+".processBFD")))
		for _, who := range []string{procT + ".processSCION", procT + ".processEPIC"} {
			if g := c.Fn(who); g != nil {
				eg := NewE1(c, g)
				eg.Require("R6-dispatch", "establishes-validators", nil, eg.SuccessReturns(),
					eg.CallGuard(PassFwd, procT+".validateHopExpiry"),
					eg.CallGuard(PassFwd, procT+".verifyCurrentMAC"))
			}
		}
	}
	if f := c.Fn("(*router.dataPlane).runProcessor"); f != nil {
		ef := NewE1(c, f)
		sends := ef.CallSites("invoke:router.Link.Send")
		c.Min("runProcessor:Link.Send", len(sends), 1)
		ef.Require("R6-send-only-forward", "Link.Send", nil, sends,
			ef.AtomGuard("disp==pForward",
				"+eq("+procT+".processPkt(*), 1:router.disposition)"))
	}

	// R7: failure outcomes of the two validators.
	pp := c.Const("pkg/slayers.SCMPTypeParameterProblem")
	_ = pp
	c01Outcome(c, procT+".validateHopExpiry", "4:router.slowPathType",
		c.Const("pkg/slayers.SCMPCodePathExpired"), procT+".currentHopPointer(recv)")
	c01Outcome(c, procT+".verifyCurrentMAC", "4:router.slowPathType",
		c.Const("pkg/slayers.SCMPCodeInvalidHopFieldMAC"), procT+".currentHopPointer(recv)")
}

// c01Outcome: every return of pSlowPath in fn is dominated by a store of the
// composite slowPathRequest{spType, code, pointer} with the given values.
func c01Outcome(c *Ctx, fq, spType, code, pointer string) {
	v := c.View(fq)
	if v == nil {
		return
	}
	n := 0
	for _, b := range v.Fn.Blocks {
		r, ok := b.Instrs[len(b.Instrs)-1].(*ssa.Return)
		if !ok || len(r.Results) != 1 {
			continue
		}
		if i, ok := constInt(r.Results[0]); !ok || i != 2 {
			// `return p.helper(code)`: a method of the same receiver that only ever returns
			// pSlowPath and builds the request itself, in terms of its parameters
			if got, stored, isHelper := slowPathHelper(c, v, r.Results[0]); isHelper {
				n++
				ok2 := stored && got["local:complit.spType"] == spType && got["local:complit.code"] == code
				if pointer != "" {
					ok2 = ok2 && got["local:complit.pointer"] == pointer
				}
				c.Check(ok2, "R7-failure-outcome", fmt.Sprintf("%s:slow-path-return", v.Name()), r.Pos(),
					fmt.Sprintf("slowPathRequest (built by a helper) %v stored=%v; required spType=%s code=%s pointer=%s",
						got, stored, spType, code, pointer))
			}
			continue
		}
		n++
		got := map[string]string{}
		for _, st := range v.Stores("local:complit.*") {
			if st.In.Block().Dominates(b) {
				got[st.Addr] = st.Val
			}
		}
		reqStored := false
		for _, st := range v.Stores("recv.pkt.slowPathRequest") {
			if st.In.Block().Dominates(b) {
				reqStored = true
			}
		}
		ok2 := reqStored && got["local:complit.spType"] == spType &&
			got["local:complit.code"] == code
		if pointer != "" {
			ok2 = ok2 && got["local:complit.pointer"] == pointer
		}
		c.Check(ok2, "R7-failure-outcome", fmt.Sprintf("%s:slow-path-return", v.Name()), r.Pos(),
			fmt.Sprintf("slowPathRequest %v stored=%v; required spType=%s code=%s pointer=%s",
				got, reqStored, spType, code, pointer))
	}
	c.Min(v.Name()+":pSlowPath-returns", n, 1)
}

func c01MacCompare(c *Ctx) {

	// R3: verifyCurrentMAC succeeds only through a non-zero ConstantTimeCompare of
	// hopField.Mac[:6] with FullMAC(mac, infoField, hopField)[:6].
	if v := c.View(procT + ".verifyCurrentMAC"); v != nil {
		ev := NewE1(c, v.Fn)
		ev.Require("R3-mac-compare", "success-returns", nil, ev.SuccessReturns(),
			ev.CallGuard(PassNonZero, "crypto/subtle.ConstantTimeCompare"))
		full := "pkg/slayers/path.FullMAC(recv.mac, recv.infoField, recv.hopField, *)"
		calls := v.Calls("crypto/subtle.ConstantTimeCompare")
		okArgs := len(calls) >= 1
		for _, ci := range calls {
			a, b := ci.Args[0], ci.Args[1]
			if !(wild("recv.hopField.Mac[:6]", a) || wild("recv.hopField.Mac[:]", a)) ||
				!wild(full+"[:6]", b) {
				if !(wild("recv.hopField.Mac[:6]", b) || wild("recv.hopField.Mac[:]", b)) ||
					!wild(full+"[:6]", a) {
					okArgs = false
					c.Fail("R3-mac-compare", v.Name()+":compare-operands", ci.In.Pos(),
						fmt.Sprintf("compares %s with %s; required hopField.Mac[:6] vs %s[:6]", a, b, full))
				}
			}
		}
		if okArgs {
			c.OK("R3-mac-compare", v.Name()+":compare-operands", v.Fn.Pos(),
				"ConstantTimeCompare(hopField.Mac[:6], FullMAC(mac, infoField, hopField)[:6])")
		}
		v.RequireStore("R3-mac-compare", 1, "recv.cachedMac", full)
	}
}

func c01MacInput(c *Ctx) {
	// R5: FullMAC feeds MACInput with the protected fields, MACInput lays them out.
	if v := c.View("pkg/slayers/path.FullMAC"); v != nil {
		v.RequireCallArgs("R5-mac-input", 1, "pkg/slayers/path.MACInput",
			"arg1.SegID", "arg1.Timestamp", "arg2.ExpTime", "arg2.ConsIngress", "arg2.ConsEgress")
		// the hash is fed the very buffer MACInput filled
		ws := v.Calls("invoke:hash.Hash.Write")
		mi := v.Calls("pkg/slayers/path.MACInput")
		ok := len(ws) == 1 && len(mi) == 1 && len(mi[0].Args) == 6 && ws[0].Args[1] == mi[0].Args[5] &&
			instrDominates(mi[0].In, ws[0].In)
		c.Check(ok, "R5-mac-input", v.Name()+":hash-input-is-macinput-buffer", v.Fn.Pos(),
			"h.Write(buffer) after MACInput(…, buffer)")
	}
	if v := c.View("pkg/slayers/path.MAC"); v != nil {
		v.RequireCallArgs("R5-mac-input", 1, "pkg/slayers/path.FullMAC", "arg0", "arg1", "arg2", "arg3")
	}
	if fn := c.Fn("pkg/slayers/path.MACInput"); fn != nil {
		CheckLayout(c, "R5-mac-input", fn, "arg5", []LayoutSpec{
			{Off: 0, Len: 2, ExprPat: "0", Name: "zero"},
			{Off: 2, Len: 2, ExprPat: "arg0", Name: "SegID"},
			{Off: 4, Len: 4, ExprPat: "arg1", Name: "Timestamp"},
			{Off: 8, Len: 1, ExprPat: "0", Name: "zero"},
			{Off: 9, Len: 1, ExprPat: "arg2", Name: "ExpTime"},
			{Off: 10, Len: 2, ExprPat: "arg3", Name: "ConsIngress"},
			{Off: 12, Len: 2, ExprPat: "arg4", Name: "ConsEgress"},
			{Off: 14, Len: 2, ExprPat: "0", Name: "zero"},
		})
	}
}
