package main

// C03 needs one thing from the routers on the REQUEST's way: the packet that is
// delivered carries, in its info fields, the accumulator values the reply will be
// verified with. The router updates the segment identifier in memory for its own
// MAC check and must write it back into the packet (SetInfoField) whenever it
// updates it - also on the last hop, where no later router of the request needs
// it but the first router of the reply does. Same decision tables as C22 T1,
// registered here under C03's rule name.
func routerSegIDWriteBack(c *Ctx, rule string) {
	upd := "(*pkg/slayers/path.InfoField).UpdateSegID"
	set := "(*pkg/slayers/path/scion.Raw).SetInfoField"
	if fn := c.Fn(procT + ".processEgress"); fn != nil {
		RunTable(c, &TableSpec{Rule: rule, Fn: fn,
			NoInline: append([]string{"(*pkg/slayers/path*"}, noInlineDefault...),
			Atoms: []Atom{
				{Name: "consDir", Pats: []string{"recv.infoField.ConsDir"}, Domain: boolDom()},
				{Name: "peering", Pats: []string{"recv.peering"}, Domain: boolDom()},
				{Name: "setErr", Pats: []string{"(" + set + "(*) != nil)"}, Domain: []string{"false"}},
				{Name: "incErr", Pats: []string{"((*pkg/slayers/path/scion.Raw).IncPath(*) != nil)"}, Domain: []string{"false"}},
			},
			CallsTracked: []string{upd, set},
			Oracle: func(a map[string]string) map[string]string {
				want := map[string]string{"ret": dispForward}
				if a["consDir"] == "true" && a["peering"] == "false" {
					want["call:"+upd] = "yes"
					want["call:"+set] = "yes"
					want["call:"+set+":arg1"] = "sym:recv.infoField"
				} else {
					want["call:"+upd] = ""
				}
				return want
			}})
	}
	if fn := c.Fn(procT + ".updateNonConsDirIngressSegID"); fn != nil {
		RunTable(c, &TableSpec{Rule: rule, Fn: fn,
			NoInline: append([]string{"(*pkg/slayers/path*"}, noInlineDefault...),
			Atoms: []Atom{
				{Name: "consDir", Pats: []string{"recv.infoField.ConsDir"}, Domain: boolDom()},
				{Name: "external", Pats: []string{"(recv.ingressFromLink != 0)"}, Domain: boolDom()},
				{Name: "peering", Pats: []string{"recv.peering"}, Domain: boolDom()},
				{Name: "setErr", Pats: []string{"(" + set + "(*) != nil)"}, Domain: []string{"false"}},
			},
			CallsTracked: []string{upd, set},
			Oracle: func(a map[string]string) map[string]string {
				want := map[string]string{"ret": dispForward}
				if a["consDir"] == "false" && a["external"] == "true" && a["peering"] == "false" {
					want["call:"+upd] = "yes"
					want["call:"+set] = "yes"
					want["call:"+set+":arg1"] = "sym:recv.infoField"
					want["call:"+set+":arg2"] = "sym:int(recv.path.Base.PathMeta.CurrINF)"
				} else {
					want["call:"+upd] = ""
					want["call:"+set] = ""
				}
				return want
			}})
	}
}
