package main

import (
	"fmt"
	"go/token"
	"sort"
	"strings"

	"golang.org/x/tools/go/ssa"
)

func init() {
	register(&PropRule{
		ID:    "C21",
		Roots: []string{"./pkg/spao", "./router"},
		Explain: "Decides the input of the packet authenticator bit by bit for the fixed prefix and " +
			"structurally for the variable part: bytes 0..19 of the authenticated data are HdrLen, " +
			"upper-layer type, upper-layer length, algorithm, reserved 0, the 48-bit timestamp, the " +
			"first header line built from Version[3:0], TrafficClass without its two ECN bits and " +
			"FlowID[19:0], the path type, the four address type/length nibbles and reserved 0 " +
			"(masks and shifts are decoded from the SSA expression); NextHdr, PayloadLen and " +
			"extension headers never flow into the buffer; the decision table over the SPI (DRKey, " +
			"type, direction) includes exactly the ISD-AS pair and host addresses the specification " +
			"lists; the path is serialized and then its mutable positions are zeroed: meta byte 0, " +
			"the SegID of every info field (loop bounded by NumINF, stride 8 from offset 4) and the " +
			"flags byte of every hop field (loops bounded by NumINF × SegLen[i] or by NumHops, stride " +
			"12), for one-hop paths SegID, first-hop flags and the entire second hop; the MAC is " +
			"computed over exactly that buffer prefix followed by the payload; the router's two use " +
			"sites pass upper-layer type SCMP and the serialized SCMP bytes. NOT decided: CMAC itself.",
		Run: runC21,
	})
	setClaim("C21", claim{
		Text: "Byte-layout extraction with mask/shift decoding for the fixed authenticated-data " +
			"prefix, decision table for the SPI-dependent address part, loop-bound/stride rule for the " +
			"zeroed mutable path positions, no-flow rule for excluded header fields.",
		Note: claimNote, Technique: "static analysis: byte/bit layout extraction from SSA, decision " +
			"table by conditional constant propagation, loop-bound analysis", Ref: "DESIGN.md §4 C21, Appendix A.5"})
	addMutants(
		Mutant{Prop: "C21", Name: "payloadlen-included", File: "pkg/spao/mac.go",
			Old:    `	binary.BigEndian.PutUint16(buf[18:], 0)`,
			New:    `	binary.BigEndian.PutUint16(buf[18:], s.PayloadLen)`,
			Expect: "L1-fixed-prefix"},
		Mutant{Prop: "C21", Name: "segid-not-zeroed", File: "pkg/spao/mac.go",
			Old: `		binary.BigEndian.PutUint16(buf[offset+2:], 0)
		offset += 8`, New: `		offset += 8`, Expect: "Z1-mutable-path-zeroed"},
		Mutant{Prop: "C21", Name: "hop-flags-only-first-numinf", File: "pkg/spao/mac.go",
			Old: `	for i := range base.NumINF {
		for range base.PathMeta.SegLen[i] {
			// Zero out HF.Flags&&Alerts
			buf[offset] = 0
			offset += 12
		}
	}`, New: `	for range base.NumINF {
		// Zero out HF.Flags&&Alerts
		buf[offset] = 0
		offset += 12
	}`, Expect: "Z1-mutable-path-zeroed"},
		Mutant{Prop: "C21", Name: "drkey-hosthost-includes-dst", File: "pkg/spao/mac.go",
			Old: `		(opt.SPI().Type() == slayers.PacketAuthASHost &&
			opt.SPI().Direction() == slayers.PacketAuthReceiverSide) {`,
			New: `		(opt.SPI().Direction() == slayers.PacketAuthReceiverSide) {`, Expect: "T1-spi-address-table"},
		Mutant{Prop: "C21", Name: "flowid-16-bits", File: "pkg/spao/mac.go",
			Old: `s.FlowID&0xFFFFF`, New: `s.FlowID&0xFFFF`, Expect: "L1-fixed-prefix"},
		Mutant{Prop: "C21", Name: "onehop-second-hop-kept", File: "pkg/spao/mac.go",
			Old: `		copy(buf[20:], []byte{0, 0, 0, 0, 0, 0, 0, 0, 0, 0, 0, 0})`,
			New: `		copy(buf[26:], []byte{0, 0, 0, 0, 0, 0})`, Expect: "Z1-mutable-path-zeroed"},
		Mutant{Prop: "C21", Name: "mac-over-short-prefix", File: "pkg/spao/mac.go",
			Old: `	cmac.Write(auxBuffer[:inputLen])`, New: `	cmac.Write(auxBuffer[:min(inputLen, fixAuthDataInputLen)])`,
			Expect: "M1-mac-over-buffer"},
	)
}

// bitPart is one OR-ed component of a packed word: (field & Mask) << Shift.
type bitPart struct {
	Field string
	Mask  int64 // -1 = no mask
	Shift int64
}

func decodeBitfield(v ssa.Value, s *Symer) []bitPart {
	strip := func(x ssa.Value) ssa.Value {
		for {
			switch y := x.(type) {
			case *ssa.Convert:
				x = y.X
			case *ssa.ChangeType:
				x = y.X
			default:
				return x
			}
		}
	}
	v = strip(v)
	if b, ok := v.(*ssa.BinOp); ok && b.Op == token.OR {
		return append(decodeBitfield(b.X, s), decodeBitfield(b.Y, s)...)
	}
	part := bitPart{Mask: -1}
	if b, ok := v.(*ssa.BinOp); ok && b.Op == token.SHL {
		if k, isK := foldInt(b.Y); isK {
			part.Shift = k
			v = strip(b.X)
		}
	}
	if b, ok := v.(*ssa.BinOp); ok && b.Op == token.AND {
		if k, isK := foldInt(b.Y); isK {
			part.Mask = k
			v = strip(b.X)
		} else if k, isK := foldInt(b.X); isK {
			part.Mask = k
			v = strip(b.Y)
		}
	}
	part.Field = s.Sym(v)
	return []bitPart{part}
}

func partsString(ps []bitPart) string {
	var out []string
	for _, p := range ps {
		out = append(out, fmt.Sprintf("(%s & %#x) << %d", p.Field, p.Mask, p.Shift))
	}
	sort.Strings(out)
	return strings.Join(out, " | ")
}

// loopBounds returns the right-hand sides B of the loop tests i < B that enclose in.
func loopBounds(in ssa.Instruction, s *Symer) []string {
	// all loop tests (i < B) in blocks that lie on a cycle through in's block;
	// go/ssa rotates `for range n` loops, so the test may sit in the latch.
	b := in.Block()
	set := map[string]bool{}
	for _, l := range b.Parent().Blocks {
		if !(l == b || (reachesBlock(b, l) && reachesBlock(l, b))) || !cyclic(l) && l != b {
			continue
		}
		if l == b && !cyclic(b) {
			continue
		}
		ifi, ok := l.Instrs[len(l.Instrs)-1].(*ssa.If)
		if !ok {
			continue
		}
		for _, lit := range condLits(ifi.Cond, true) {
			if lit.Kind == "lt" && lit.Pos {
				set[s.Sym(lit.Y)] = true
			}
		}
	}
	var out []string
	for k := range set {
		out = append(out, k)
	}
	sort.Strings(out)
	return out
}

func runC21(c *Ctx) {
	c21SPIAccessors(c)
	sp := "pkg/spao."
	if v := c.View(sp + "serializeAuthenticatedData"); v != nil {
		ents := ExtractLayout(v.Fn, v.S)
		at := func(off int64) *LayoutEntry {
			for i := range ents {
				if ents[i].Base == "arg0" && ents[i].Off == off && ents[i].Kind != "copy" {
					return &ents[i]
				}
			}
			return nil
		}
		hdrLen := "(((*pkg/slayers.SCION).AddrHdrLen(arg1) + 12) + invoke:pkg/slayers/path.Path.Len(arg1.Path; ))"
		want := []struct {
			off  int64
			ln   int64
			expr []string
			name string
		}{
			{0, 1, []string{"uint8((" + hdrLen + " / 4))", "byte((" + hdrLen + " / 4))"}, "HdrLen"},
			{1, 1, []string{"arg3", "uint8(arg3)"}, "upper-layer type"},
			{2, 2, []string{"uint16(builtin:len(arg4))"}, "upper-layer length"},
			{4, 1, []string{"(pkg/slayers.PacketAuthOption).Algorithm(arg2)", "uint8((pkg/slayers.PacketAuthOption).Algorithm(arg2))"}, "algorithm"},
			{5, 1, []string{"0"}, "reserved"},
			{16, 1, []string{"arg1.PathType", "uint8(arg1.PathType)"}, "path type"},
			{18, 2, []string{"0"}, "reserved"},
		}
		for _, w := range want {
			e := at(w.off)
			ok := e != nil && e.Len == w.ln
			if ok {
				ok = false
				for _, x := range w.expr {
					if e.Expr == x {
						ok = true
					}
				}
			}
			got := "<nothing>"
			if e != nil {
				got = e.String()
			}
			c.Check(ok, "L1-fixed-prefix", fmt.Sprintf("authenticated-data:%s@%d", w.name, w.off), v.Fn.Pos(),
				fmt.Sprintf("byte %d (+%d) <- %s", w.off, w.ln, got))
		}
		// timestamp: bigEndianPutUint48(buf[6:12], opt.TimestampSN())
		v.RequireCallArgs("L1-fixed-prefix", 1, sp+"bigEndianPutUint48", "arg0[6:12]",
			"(pkg/slayers.PacketAuthOption).TimestampSN(arg2)")
		// first header line
		var line, nib ssa.Value
		for _, b := range v.Fn.Blocks {
			for _, in := range b.Instrs {
				if call, ok := in.(*ssa.Call); ok && calleeName(call.Common()) == "(encoding/binary.bigEndian).PutUint32" {
					if _, off, okOff := baseAndOffset(call.Common().Args[1]); okOff && off == 12 {
						line = call.Common().Args[2]
					}
				}
				if st, ok := in.(*ssa.Store); ok {
					if _, off, okOff := baseAndOffset(st.Addr); okOff && off == 17 && v.S.Sym(st.Addr) == "arg0[17]" {
						nib = st.Val
					}
				}
			}
		}
		checkParts := func(name string, val ssa.Value, spec []bitPart) {
			if val == nil {
				c.Fail("L1-fixed-prefix", "authenticated-data:"+name, v.Fn.Pos(), "write not found")
				return
			}
			got := decodeBitfield(val, v.S)
			for _, sp := range spec {
				found := false
				var have *bitPart
				for i := range got {
					if got[i].Field == sp.Field {
						have = &got[i]
						found = got[i].Mask == sp.Mask && got[i].Shift == sp.Shift
					}
				}
				detail := fmt.Sprintf("required (%s & %#x) << %d", sp.Field, sp.Mask, sp.Shift)
				if have != nil {
					detail += fmt.Sprintf("; found (%s & %#x) << %d", have.Field, have.Mask, have.Shift)
				} else {
					detail += "; field absent"
				}
				c.Check(found, "L1-fixed-prefix", "authenticated-data:"+name+":"+strings.TrimPrefix(sp.Field, "arg1."),
					val.Pos(), detail)
			}
			c.Check(len(got) == len(spec), "L1-fixed-prefix", "authenticated-data:"+name+":no-other-bits", val.Pos(),
				partsString(got))
		}
		checkParts("first-header-line", line, []bitPart{
			{"arg1.Version", 0xF, 28}, {"arg1.TrafficClass", 0xFC, 20}, {"arg1.FlowID", 0xFFFFF, 0}})
		checkParts("address-types", nib, []bitPart{{"arg1.DstAddrType", 0xF, 4}, {"arg1.SrcAddrType", 0xF, 0}})
		// excluded fields do not flow into the buffer
		bad := []string{}
		for _, e := range ents {
			if e.Base != "arg0" {
				continue
			}
			for _, f := range []string{"arg1.NextHdr", "arg1.PayloadLen", "arg1.HdrLen"} {
				if strings.Contains(e.Expr, f) {
					bad = append(bad, f+"→"+e.String())
				}
			}
		}
		c.Check(len(bad) == 0, "L1-fixed-prefix", "authenticated-data:excluded-fields", v.Fn.Pos(),
			"NextHdr/PayloadLen/HdrLen(field) must not enter the MAC input: "+strings.Join(bad, "; "))
		// fixed part length
		c.Check(c.Const(sp+"fixAuthDataInputLen") == "20", "L1-fixed-prefix", "fixAuthDataInputLen", 0, "= 20")

		// T1: SPI table
		isDRKey := "(pkg/slayers.PacketAuthSPI).IsDRKey((pkg/slayers.PacketAuthOption).SPI(arg2))"
		typ := "(pkg/slayers.PacketAuthSPI).Type((pkg/slayers.PacketAuthOption).SPI(arg2))"
		dir := "(pkg/slayers.PacketAuthSPI).Direction((pkg/slayers.PacketAuthOption).SPI(arg2))"
		asHost, hostHost := c.Const("pkg/slayers.PacketAuthASHost"), c.Const("pkg/slayers.PacketAuthHostHost")
		sender, receiver := c.Const("pkg/slayers.PacketAuthSenderSide"), c.Const("pkg/slayers.PacketAuthReceiverSide")
		RunTable(c, &TableSpec{Rule: "T1-spi-address-table", Fn: v.Fn,
			NoInline: append([]string{"(pkg/slayers.*", "(*pkg/slayers.*", sp + "zeroOutMutablePath", sp + "bigEndianPutUint48"}, noInlineDefault...),
			Atoms: []Atom{
				{Name: "tooLong", Pats: []string{"(" + hdrLen + " > 1020)"}, Domain: []string{"false"}},
				{Name: "unaligned", Pats: []string{"((" + hdrLen + " % 4) != 0)"}, Domain: []string{"false"}},
				{Name: "drkey", Pats: []string{isDRKey}, Domain: boolDom()},
				{Name: "type", Pats: []string{typ}, Domain: []string{asHost, hostHost}},
				{Name: "dir", Pats: []string{dir}, Domain: []string{sender, receiver}},
				{Name: "zeroErr", Pats: []string{"(" + sp + "zeroOutMutablePath(*) != nil)"}, Domain: []string{"false"}},
			},
			CallsTracked: []string{"builtin:copy", "(encoding/binary.bigEndian).PutUint64"},
			Oracle: func(a map[string]string) map[string]string {
				dstIA := "call:(encoding/binary.bigEndian).PutUint64(*, arg1.DstIA)"
				srcIA := "call:(encoding/binary.bigEndian).PutUint64(*, arg1.SrcIA)"
				dstH := "call:builtin:copy(*, arg1.RawDstAddr)"
				srcH := "call:builtin:copy(*, arg1.RawSrcAddr)"
				yes := func(b bool) string {
					if b {
						return "yes"
					}
					return ""
				}
				nd := a["drkey"] == "false"
				return map[string]string{
					dstIA: yes(nd), srcIA: yes(nd),
					dstH: yes(nd || (a["type"] == asHost && a["dir"] == receiver)),
					srcH: yes(nd || (a["type"] == asHost && a["dir"] == sender)),
				}
			}})
		v.RequireCallArgs("Z1-mutable-path-zeroed", 1, sp+"zeroOutMutablePath", "arg1.Path", "")
	}
	// Z1: zeroing
	if v := c.View(sp + "zeroOutWithBase"); v != nil {
		ents := ExtractLayout(v.Fn, v.S)
		okMeta := false
		for _, e := range ents {
			if e.Base == "arg1" && e.Off == 0 && e.Kind == "byte" && e.Expr == "0" {
				okMeta = true
			}
		}
		c.Check(okMeta, "Z1-mutable-path-zeroed", v.Name()+":meta-byte-0", v.Fn.Pos(), "buf[0] = 0 (CurrINF, CurrHF)")
		// SegID: PutUint16(buf[off+2:], 0) in a loop bounded by NumINF, offset stride 8 from 4
		okSeg, okHop := false, false
		detSeg, detHop := "no SegID zeroing found", "no hop-flags zeroing found"
		for _, b := range v.Fn.Blocks {
			for _, in := range b.Instrs {
				switch x := in.(type) {
				case *ssa.Call:
					if calleeName(x.Common()) != "(encoding/binary.bigEndian).PutUint16" || v.S.Sym(x.Common().Args[2]) != "0" {
						continue
					}
					bounds := loopBounds(x, v.S)
					stride, start, rel := offsetStride(x.Common().Args[1])
					detSeg = fmt.Sprintf("bounds %v, start %d, stride %d, +%d", bounds, start, stride, rel)
					okSeg = len(bounds) == 1 && bounds[0] == "arg0.NumINF" && stride == 8 && start == 4 && rel == 2
				case *ssa.Store:
					ia, isIA := x.Addr.(*ssa.IndexAddr)
					if !isIA || v.S.Sym(x.Val) != "0" {
						continue
					}
					if _, off, okc := baseAndOffset(ia); okc && off == 0 {
						continue // the meta byte
					}
					bounds := loopBounds(x, v.S)
					stride, _, rel := offsetStride(ia)
					detHop = fmt.Sprintf("bounds %v, stride %d, +%d", bounds, stride, rel)
					b1 := len(bounds) == 2 && bounds[0] == "arg0.NumINF" && strings.HasPrefix(bounds[1], "arg0.PathMeta.SegLen[")
					b2 := len(bounds) == 1 && bounds[0] == "arg0.NumHops"
					okHop = (b1 || b2) && stride == 12 && rel == 0
				}
			}
		}
		c.Check(okSeg, "Z1-mutable-path-zeroed", v.Name()+":every-SegID", v.Fn.Pos(),
			"SegID of every info field (NumINF iterations, offset 4+8k+2): "+detSeg)
		c.Check(okHop, "Z1-mutable-path-zeroed", v.Name()+":every-hop-flags-byte", v.Fn.Pos(),
			"flags byte of every hop field (NumINF×SegLen[i] or NumHops iterations, stride 12): "+detHop)
	}
	if v := c.View(sp + "zeroOutMutablePath"); v != nil {
		e := NewE1(c, v.Fn)
		e.Require("Z1-mutable-path-zeroed", "success-returns", nil, e.SuccessReturns(),
			e.CallGuard(PassErrNil, "invoke:pkg/slayers/path.Path.SerializeTo"))
		v.RequireCallArgs("Z1-mutable-path-zeroed", 1, "invoke:pkg/slayers/path.Path.SerializeTo", "arg0", "arg1")
		calls := v.Calls(sp + "zeroOutWithBase")
		have := map[string]bool{}
		for _, ci := range calls {
			have[ci.Args[0]+" @ "+ci.Args[1]] = true
		}
		for _, w := range []string{
			"arg0.(*pkg/slayers/path/scion.Raw)#0.Base @ arg1", "arg0.(*pkg/slayers/path/scion.Decoded)#0.Base @ arg1",
			"arg0.(*pkg/slayers/path/epic.Path)#0.ScionPath.Base @ arg1[16:]"} {
			c.Check(have[w], "Z1-mutable-path-zeroed", v.Name()+":"+strings.SplitN(w, " @", 2)[0], v.Fn.Pos(),
				"zeroOutWithBase(path base, buffer at the SCION path): "+w)
		}
		c.Check(c.Const("pkg/slayers/path/epic.MetadataLen") == "16", "Z1-mutable-path-zeroed", "epic.MetadataLen", 0, "= 16")
		// one-hop layout
		ents := ExtractLayout(v.Fn, v.S)
		need := map[string]bool{"put@2": false, "byte@8": false, "copy@20": false}
		for _, en := range ents {
			if en.Base != "arg1" {
				continue
			}
			switch {
			case en.Kind == "put" && en.Off == 2 && en.Len == 2 && en.Expr == "0":
				need["put@2"] = true
			case en.Kind == "byte" && en.Off == 8 && en.Expr == "0":
				need["byte@8"] = true
			case en.Kind == "copy" && en.Off == 20:
				// source must be 12 zero bytes
				need["copy@20"] = zeroBytesLit(v, en.Expr, 12)
			}
		}
		for k, ok := range need {
			c.Check(ok, "Z1-mutable-path-zeroed", v.Name()+":onehop:"+k, v.Fn.Pos(),
				"one-hop path: SegID (bytes 2..3), first-hop flags (byte 8), entire second hop (bytes 20..31) zeroed")
		}
	}
	// M1: the MAC is over the buffer prefix and the payload
	if v := c.View(sp + "ComputeAuthCMAC"); v != nil {
		n := sp + "serializeAuthenticatedData(arg1, arg0.ScionLayer, arg0.Header, arg0.PldType, arg0.Pld)#0"
		ws := v.Calls("invoke:hash.Hash.Write")
		ok := len(ws) == 2 && ws[0].Args[1] == "arg1[:"+n+"]" && ws[1].Args[1] == "arg0.Pld" &&
			instrDominates(ws[0].In.(ssa.Instruction), ws[1].In.(ssa.Instruction))
		got := ""
		for _, w := range ws {
			got += w.Args[1] + " ; "
		}
		c.Check(ok, "M1-mac-over-buffer", v.Name()+":cmac-input", v.Fn.Pos(),
			"cmac.Write(aux[:inputLen]) then cmac.Write(payload); got "+got)
		e := NewE1(c, v.Fn)
		e.Require("M1-mac-over-buffer", "success-returns", nil, e.SuccessReturns(),
			e.CallGuard(PassErrNil, sp+"serializeAuthenticatedData"))
	}
	// router use sites
	for _, q := range []string{spT + ".prepareSCMP", spT + ".hasValidAuth"} {
		if v := c.View(q); v != nil {
			v.RequireStore("U1-router-use", 1, "local:complit.PldType", c.Const("pkg/slayers.L4SCMP"))
		}
	}
}

// offsetStride analyses an address buf[off+rel:] / &buf[off+rel] where off is a
// loop-carried phi incremented by a constant: returns stride, start and rel.
func offsetStride(addr ssa.Value) (stride, start, rel int64) {
	var idx ssa.Value
	switch x := addr.(type) {
	case *ssa.Slice:
		idx = x.Low
	case *ssa.IndexAddr:
		idx = x.Index
	}
	if idx == nil {
		return 0, 0, 0
	}
	if b, ok := idx.(*ssa.BinOp); ok && b.Op == token.ADD {
		if k, isK := foldInt(b.Y); isK {
			rel = k
			idx = b.X
		}
	}
	// walk phis to find "phi + const" back edges and a constant start
	seen := map[ssa.Value]bool{}
	var walk func(v ssa.Value)
	start = -1
	walk = func(v ssa.Value) {
		if seen[v] {
			return
		}
		seen[v] = true
		switch y := v.(type) {
		case *ssa.Phi:
			for _, e := range y.Edges {
				walk(e)
			}
		case *ssa.BinOp:
			if y.Op == token.ADD {
				if k, ok := foldInt(y.Y); ok {
					if _, isPhi := y.X.(*ssa.Phi); isPhi && seen[y.X] {
						if stride == 0 || k == stride {
							stride = k
						}
						return
					}
				}
				if k, ok := foldInt(y); ok && start < 0 {
					start = k
					return
				}
				walk(y.X)
			}
		case *ssa.Const:
			if k, ok := foldInt(y); ok && start < 0 {
				start = k
			}
		}
	}
	walk(idx)
	return stride, start, rel
}

// zeroBytesLit reports whether sym names a local slice literal of n zero bytes.
func zeroBytesLit(v *FnView, sym string, n int) bool {
	if !strings.HasPrefix(sym, "local:slicelit") {
		return false
	}
	sts := v.Stores("local:slicelit[*]")
	cnt := 0
	for _, st := range sts {
		if st.Val != "0" {
			return false
		}
		cnt++
	}
	return cnt == n
}
