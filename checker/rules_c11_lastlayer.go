package main

import (
	"fmt"
	"sort"
	"strings"

	"golang.org/x/tools/go/ssa"
)

// C11, which L4 header the destination port is read from: dstScionPort asks
// nextHdr(lastLayer) for the L4 protocol. lastLayer is whichever of the layers
// handed to decodeLayers decoded last. nextHdr is a type switch; a layer type that
// decodeLayers can return but the switch does not name falls into "default ->
// L4None", and the packet goes to the default end-host port whatever its UDP
// destination port says.
//
// Rule: every concrete type that any call of decodeLayers in the router passes
// (base or optional layer) has an arm in nextHdr's type switch, and that arm
// returns the NextHdr member of the value of that type.
func init() {
	addMutants(
		Mutant{Prop: "C11", Name: "nexthdr-names-full-e2e-layer", File: "router/dataplane.go",
			Old: `	case *slayers.EndToEndExtnSkipper:
		return v.NextHdr`, New: `	case *slayers.EndToEndExtn:
		return v.NextHdr`, Expect: "L1-last-layer-types-agree"},
	)
}

func c11LastLayerTypes(c *Ctx) {
	rule := "L1-last-layer-types-agree"
	nv := c.View("router.nextHdr")
	if nv == nil {
		return
	}
	// types handed to decodeLayers
	passed := map[string]bool{}
	nCalls := 0
	for fn := range c.Prog.AllFuncs() {
		if fn.Pkg == nil || !strings.HasSuffix(fn.Pkg.Pkg.Path(), "/router") {
			continue
		}
		for _, b := range fn.Blocks {
			for _, in := range b.Instrs {
				call, ok := in.(ssa.CallInstruction)
				if !ok || calleeName(call.Common()) != "router.decodeLayers" {
					continue
				}
				nCalls++
				args := call.Common().Args
				if mi, isMI := args[1].(*ssa.MakeInterface); isMI {
					passed[typeShort(mi.X.Type())] = true
				} else {
					passed["?"+args[1].Name()] = true
				}
				// the variadic slice: stores of MakeInterface into its backing array
				sl, isSl := args[2].(*ssa.Slice)
				if !isSl {
					if k, isK := args[2].(*ssa.Const); isK && k.IsNil() {
						continue
					}
					passed["?opts"] = true
					continue
				}
				for _, r := range *sl.X.Referrers() {
					ia, isIA := r.(*ssa.IndexAddr)
					if !isIA {
						continue
					}
					for _, rr := range *ia.Referrers() {
						if st, isSt := rr.(*ssa.Store); isSt {
							if mi, isMI := st.Val.(*ssa.MakeInterface); isMI {
								passed[typeShort(mi.X.Type())] = true
							} else {
								passed["?"+st.Val.Name()] = true
							}
						}
					}
				}
			}
		}
	}
	c.Min("decodeLayers-call-sites", nCalls, 2)
	// arms of nextHdr: TypeAssert(commaok) on arg0 -> returns X.NextHdr
	arms := map[string]bool{}
	for _, b := range nv.Fn.Blocks {
		for _, in := range b.Instrs {
			ta, ok := in.(*ssa.TypeAssert)
			if !ok || nv.S.Sym(ta.X) != "arg0" {
				continue
			}
			arms[typeShort(ta.AssertedType)] = false
		}
	}
	for _, b := range nv.Fn.Blocks {
		for _, in := range b.Instrs {
			ret, ok := in.(*ssa.Return)
			if !ok {
				continue
			}
			s := nv.S.Sym(ret.Results[0])
			for t := range arms {
				// arg0.(T)#0.NextHdr, possibly through an embedded member
				if strings.HasPrefix(s, "arg0.("+t+")#0.") && strings.HasSuffix(s, ".NextHdr") {
					arms[t] = true
				}
			}
		}
	}
	var types []string
	for t := range passed {
		types = append(types, t)
	}
	sort.Strings(types)
	c.Min("decodeLayers-layer-types", len(types), 3)
	for _, t := range types {
		ok, has := arms[t]
		c.Check(has && ok, rule, "router.nextHdr:arm:"+t, nv.Fn.Pos(), fmt.Sprintf(
			"a layer of type %s can be the last decoded one; nextHdr has an arm for it (%v) that returns its NextHdr (%v)", t, has, ok))
	}
}
