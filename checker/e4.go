package main

import (
	"fmt"
	"go/token"
	"go/types"
	"strings"

	"golang.org/x/tools/go/ssa"
)

// E4 — ownership typestate for router packet buffers.
//
// A *router.Packet is a linear resource: from the point where a function
// acquires one (PacketPool.Get, a receive from a chan *Packet, an owning
// parameter) every path to the function's exit, or back to the acquisition
// point in a loop, must hand it over exactly once (PacketPool.Put, a channel
// send, Link.Send returning true, Link.SendBlocking, an owning callee, a store
// into a packet container, returning it). The analysis is path-sensitive on
// the boolean result of Link.Send, on the taken case of a select, and on the
// comma-ok of a channel receive.

type ownState int

const (
	stOwned ownState = iota
	stGone           // transferred
	stNone           // never acquired on this path (comma-ok false)
	stPending        // conditional transfer awaiting its test (Send result / select index)
)

func (s ownState) String() string {
	return [...]string{"owned", "transferred", "not-acquired", "pending"}[s]
}

type ownKey struct {
	blk   *ssa.BasicBlock
	idx   int
	st    ownState
	pendV ssa.Value
}

func isPacketPtr(t types.Type) bool {
	p, ok := t.(*types.Pointer)
	if !ok {
		return false
	}
	n, ok := p.Elem().(*types.Named)
	return ok && n.Obj().Name() == "Packet" && n.Obj().Pkg() != nil &&
		n.Obj().Pkg().Path() == modPath+"/router"
}

// OwnRules is the frozen table of how calls treat a packet argument.
type OwnRules struct {
	// Owning callees: name pattern → index of the packet argument (in Args order,
	// receiver first for static methods; for invokes, Args only).
	Owning map[string]int
}

var routerOwnRules = OwnRules{Owning: map[string]int{
	"invoke:router/underlayproviders/udpip.udpLink.receive":        2,
	"(*router/underlayproviders/udpip.connectedLink).receive":      3,
	"(*router/underlayproviders/udpip.detachedLink).receive":       3,
	"(*router/underlayproviders/udpip.internalLink).receive":       3,
	"invoke:router.Link.SendBlocking":                              0,
	"(*router.PacketPool).Put":                                     1,
	"(router.PacketPool).Put":                                      1,
}}

type ownEvent int

const (
	evNone ownEvent = iota
	evTransfer
	evCondTransfer // pending on the value produced by this instruction
	evUse
)

// classifyInstr says what instruction in does to tracked value v.
func (r *OwnRules) classifyInstr(in ssa.Instruction, v ssa.Value) (ownEvent, ssa.Value, string) {
	switch x := in.(type) {
	case *ssa.Send:
		if x.X == v {
			return evTransfer, nil, "channel send"
		}
	case *ssa.Select:
		for _, st := range x.States {
			if st.Dir == types.SendOnly && st.Send == v {
				return evCondTransfer, x, "select send"
			}
		}
	case *ssa.Return:
		for _, res := range x.Results {
			if res == v {
				return evTransfer, nil, "returned to caller"
			}
		}
	case *ssa.Store:
		if x.Val == v {
			if _, isIdx := x.Addr.(*ssa.IndexAddr); isIdx {
				return evTransfer, nil, "stored into packet container"
			}
			return evUse, nil, "stored"
		}
		if fa, ok := x.Addr.(*ssa.FieldAddr); ok && fa.X == v {
			return evUse, nil, "field write"
		}
	case *ssa.FieldAddr:
		if x.X == v {
			return evUse, nil, "field access"
		}
	case ssa.CallInstruction:
		c := x.Common()
		name := calleeName(c)
		args := c.Args
		pos := -1
		for i, a := range args {
			if a == v {
				pos = i
			}
		}
		if pos < 0 {
			return evNone, nil, ""
		}
		if name == "invoke:router.Link.Send" {
			if val, ok := in.(ssa.Value); ok {
				return evCondTransfer, val, "Link.Send"
			}
		}
		for pat, idx := range r.Owning {
			if wild(pat, name) && idx == pos {
				return evTransfer, nil, name
			}
		}
		if _, isGo := in.(*ssa.Go); isGo {
			return evTransfer, nil, "go " + name
		}
		return evUse, nil, "passed to " + name
	}
	return evNone, nil, ""
}

// OwnFinding is a typestate violation.
type OwnFinding struct {
	Kind string // leak | double | use-after-transfer | unchecked
	Pos  token.Pos
	Msg  string
}

// acquireSites lists tracked values of fn with the instruction after which they
// are owned and the anchor whose re-execution starts a new iteration.
type acquireSite struct {
	V      ssa.Value
	Start  ssa.Instruction // ownership begins after this instruction
	Anchor ssa.Instruction
	How    string
	OkVal  ssa.Value // comma-ok value: false ⇒ nothing acquired
}

func findAcquires(fn *ssa.Function, ownsParams bool) []acquireSite {
	var out []acquireSite
	if ownsParams {
		for _, p := range fn.Params {
			if isPacketPtr(p.Type()) {
				out = append(out, acquireSite{V: p, How: "owning parameter " + p.Name()})
			}
		}
	}
	for _, b := range fn.Blocks {
		for _, in := range b.Instrs {
			v, ok := in.(ssa.Value)
			if !ok || !isPacketPtr(v.Type()) {
				continue
			}
			switch x := in.(type) {
			case *ssa.Call:
				n := calleeName(x.Common())
				if n == "(*router.PacketPool).Get" || n == "(router.PacketPool).Get" {
					out = append(out, acquireSite{V: v, Start: in, Anchor: in, How: "PacketPool.Get"})
				}
			case *ssa.UnOp:
				if x.Op == token.ARROW {
					out = append(out, acquireSite{V: v, Start: in, Anchor: in, How: "channel receive"})
				}
			case *ssa.Extract:
				switch t := x.Tuple.(type) {
				case *ssa.UnOp:
					if t.Op == token.ARROW && x.Index == 0 {
						site := acquireSite{V: v, Start: in, Anchor: t, How: "channel receive (comma-ok)"}
						for _, ref := range *t.Referrers() {
							if e, isE := ref.(*ssa.Extract); isE && e.Index == 1 {
								site.OkVal = e
							}
						}
						out = append(out, site)
					}
				case *ssa.Select:
					site := acquireSite{V: v, Start: in, Anchor: t, How: "select receive"}
					for _, ref := range *t.Referrers() {
						if e, isE := ref.(*ssa.Extract); isE && e.Index == 1 {
							site.OkVal = e
						}
					}
					out = append(out, site)
				}
			}
		}
	}
	return out
}

// CheckOwnership runs the typestate for every acquisition in fn.
func CheckOwnership(c *Ctx, rule string, fn *ssa.Function, ownsParams bool, rules *OwnRules) int {
	c.Funcs[FuncName(fn)] = true
	sites := findAcquires(fn, ownsParams)
	for _, s := range sites {
		finds := runTypestate(c, fn, s, rules)
		construct := fmt.Sprintf("%s:%s", FuncName(fn), s.How)
		if len(finds) == 0 {
			c.OK(rule, construct, fn.Pos(), "exactly one hand-over on every path")
			continue
		}
		for _, f := range finds {
			c.Fail(rule, construct+":"+f.Kind, f.Pos, f.Msg)
		}
	}
	return len(sites)
}

func runTypestate(c *Ctx, fn *ssa.Function, site acquireSite, rules *OwnRules) []OwnFinding {
	var finds []OwnFinding
	seenFind := map[string]bool{}
	report := func(kind string, pos token.Pos, msg string) {
		k := kind + c.Prog.Pos(pos)
		if !seenFind[k] {
			seenFind[k] = true
			finds = append(finds, OwnFinding{Kind: kind, Pos: pos, Msg: msg})
		}
	}
	var startBlk *ssa.BasicBlock
	startIdx := 0
	if site.Start == nil {
		startBlk = fn.Blocks[0]
	} else {
		startBlk = site.Start.Block()
		startIdx = instrIndex(site.Start) + 1
	}
	visited := map[ownKey]bool{}
	type work struct {
		k    ownKey
		pred *ssa.BasicBlock
	}
	queue := []work{{k: ownKey{blk: startBlk, idx: startIdx, st: stOwned}}}
	for len(queue) > 0 {
		w := queue[0]
		queue = queue[1:]
		if visited[w.k] {
			continue
		}
		visited[w.k] = true
		c.Paths++
		st, pend := w.k.st, w.k.pendV
		blk := w.k.blk
		stop := false
		for i := w.k.idx; i < len(blk.Instrs) && !stop; i++ {
			in := blk.Instrs[i]
			if site.Anchor != nil && in == site.Anchor {
				// a new iteration begins
				if st == stOwned || st == stPending {
					report("leak", sinkPos(in), fmt.Sprintf(
						"packet acquired by %s is still %s when the acquisition point is reached again",
						site.How, st))
				}
				stop = true
				break
			}
			ev, pv, what := rules.classifyInstr(in, site.V)
			switch ev {
			case evTransfer:
				switch st {
				case stGone:
					report("double", sinkPos(in), "second hand-over ("+what+") of a packet that was already handed over")
				case stPending:
					report("double", sinkPos(in), "hand-over ("+what+") while an earlier conditional hand-over is unresolved")
				}
				if st != stNone {
					st = stGone
				}
				if _, isRet := in.(*ssa.Return); isRet {
					stop = true
				}
			case evCondTransfer:
				if st == stGone {
					report("double", sinkPos(in), "conditional hand-over ("+what+") of a packet that was already handed over")
				}
				if st != stNone {
					st, pend = stPending, pv
				}
			case evUse:
				if st == stGone {
					report("use-after-transfer", sinkPos(in), "packet used ("+what+") after it was handed over")
				}
			}
			if ret, isRet := in.(*ssa.Return); isRet && !stop {
				_ = ret
				if st == stOwned || st == stPending {
					report("leak", sinkPos(in), fmt.Sprintf(
						"function returns while the packet acquired by %s is still %s", site.How, st))
				}
				stop = true
			}
			if _, isPanic := in.(*ssa.Panic); isPanic {
				stop = true
			}
		}
		if stop {
			continue
		}
		for si, succ := range blk.Succs {
			lits, feasible := edgeLits(blk, si, w.pred)
			if !feasible {
				continue
			}
			if len(blk.Succs) == 2 && blk.Succs[0] == blk.Succs[1] {
				lits = nil
			}
			nst, npend := st, pend
			for _, l := range lits {
				// comma-ok of the acquisition
				if site.OkVal != nil && l.Kind == "true" && l.X == site.OkVal && !l.Pos {
					nst = stNone
				}
				if site.OkVal != nil && l.Kind == "ok" && !l.Pos {
					if t, ok := l.X.(ssa.Instruction); ok && t == site.Anchor {
						nst = stNone
					}
				}
				if st == stPending && pend != nil {
					switch pv := pend.(type) {
					case *ssa.Select:
						// literal on extract(select,#0) == k
						if l.Kind == "eq" {
							var ex *ssa.Extract
							var k int64
							var okK bool
							if e, isE := l.X.(*ssa.Extract); isE && e.Tuple == pv && e.Index == 0 {
								ex = e
								k, okK = constInt(l.Y)
							} else if e, isE := l.Y.(*ssa.Extract); isE && e.Tuple == pv && e.Index == 0 {
								ex = e
								k, okK = constInt(l.X)
							}
							if ex != nil && okK {
								sendIdx := -1
								for i, s := range pv.States {
									if s.Dir == types.SendOnly && s.Send == site.V {
										sendIdx = i
									}
								}
								if l.Pos {
									if int(k) == sendIdx {
										nst, npend = stGone, nil
									} else {
										nst, npend = stOwned, nil
									}
								} else if int(k) == sendIdx && len(pv.States) == 1 {
									nst, npend = stOwned, nil
								}
							}
						}
					default:
						if l.Kind == "true" && l.X == pend {
							if l.Pos {
								nst, npend = stGone, nil
							} else {
								nst, npend = stOwned, nil
							}
						}
					}
				}
			}
			// blocking select with a single send case and no test: transferred
			if nst == stPending {
				if sel, ok := npend.(*ssa.Select); ok && sel.Blocking && len(sel.States) == 1 {
					nst, npend = stGone, nil
				}
			}
			queue = append(queue, work{k: ownKey{blk: succ, idx: 0, st: nst, pendV: npend}, pred: blk})
		}
	}
	return finds
}

// whoTouchesPool lists the functions (outside tests) that call PacketPool.Get or Put.
func whoTouchesPool(c *Ctx) map[string][]string {
	out := map[string][]string{}
	for fn := range c.Prog.AllFuncs() {
		if fn.Blocks == nil || fn.Pkg == nil || !strings.HasPrefix(fn.Pkg.Pkg.Path(), modPath+"/router") {
			continue
		}
		for _, b := range fn.Blocks {
			for _, in := range b.Instrs {
				ci, ok := in.(ssa.CallInstruction)
				if !ok {
					continue
				}
				n := calleeName(ci.Common())
				if strings.HasSuffix(n, "router.PacketPool).Get") || strings.HasSuffix(n, "router.PacketPool).Put") {
					name := FuncName(fn)
					if fn.Parent() != nil {
						name = FuncName(fn.Parent())
					}
					out[name] = append(out[name], n[strings.LastIndex(n, ".")+1:])
					c.Calls++
				}
			}
		}
	}
	return out
}
