package main

import (
	"fmt"
	"go/types"
	"sort"
	"strings"

	"golang.org/x/tools/go/ssa"
)

// C08, the representation invariant the audited index sites of scion.Raw lean
// on: "len(Raw.Raw) = Base.Len() = 4 + 8*NumINF + 12*NumHops". GetInfoField,
// GetHopField, SetInfoField, SetHopField test idx against NumINF/NumHops and
// then slice Raw.Raw at the offset computed from idx; that is in range only
// because of the invariant. The audit table cites it; this rule decides it:
//
//	(a) the member Raw of a scion.Raw is stored in exactly one place,
//	    Raw.DecodeFromBytes, with data[:Base.Len()], behind the test that
//	    len(data) is not below Base.Len(), after Base.DecodeFromBytes passed;
//	(b) NumINF / NumHops of the Base inside a scion.Raw are stored only by
//	    Base.DecodeFromBytes (no other function reaches them through a *Raw, and
//	    no other method of *Base stores them);
//	(c) no function overwrites a whole scion.Raw, or the Base inside one, except
//	    by copying another scion.Raw (which carries the invariant with it);
//	(d) Base.Len() is 4 + 8*NumINF + 12*NumHops.
func init() {
	addMutants(
		Mutant{Prop: "C08", Name: "raw-keeps-whole-buffer", File: "pkg/slayers/path/scion/raw.go",
			Old: `	s.Raw = data[:pathLen]`, New: `	s.Raw = data`, Expect: "I1-raw-length-invariant", Benign: false},
		Mutant{Prop: "C08", Name: "base-len-forgets-meta", File: "pkg/slayers/path/scion/base.go",
			Old: `	return MetaLen + s.NumINF*path.InfoLen + s.NumHops*path.HopLen`,
			New: `	return s.NumINF*path.InfoLen + s.NumHops*path.HopLen`, Expect: "I1-raw-length-invariant"},
	)
}

func c08RawInvariant(c *Ctx) {
	rule := "I1-raw-length-invariant"
	sp := "pkg/slayers/path/scion."
	isNamed := func(t types.Type, name string) bool {
		if p, ok := t.Underlying().(*types.Pointer); ok {
			t = p.Elem()
		}
		return typeShort(t) == sp+name
	}
	// root of a FieldAddr chain, and whether it passes through a scion.Raw
	throughRaw := func(v ssa.Value) bool {
		for i := 0; i < 8; i++ {
			if isNamed(v.Type(), "Raw") {
				return true
			}
			fa, ok := v.(*ssa.FieldAddr)
			if !ok {
				return false
			}
			v = fa.X
		}
		return false
	}
	var rawStores, numStores, wholeStores []string
	var badNum, badWhole []string
	for fn := range c.Prog.AllFuncs() {
		if fn.Pkg == nil || !strings.HasPrefix(fn.Pkg.Pkg.Path(), modPath) || strings.Contains(fn.Pkg.Pkg.Path(), "/tools/") {
			continue
		}
		name := FuncName(fn)
		for _, b := range fn.Blocks {
			for _, in := range b.Instrs {
				st, ok := in.(*ssa.Store)
				if !ok {
					continue
				}
				if fa, isFA := st.Addr.(*ssa.FieldAddr); isFA {
					stt := fa.X.Type().Underlying().(*types.Pointer).Elem()
					fld := stt.Underlying().(*types.Struct).Field(fa.Field).Name()
					switch {
					case isNamed(stt, "Raw") && fld == "Raw":
						rawStores = append(rawStores, name)
					case isNamed(stt, "Base") && (fld == "NumINF" || fld == "NumHops"):
						numStores = append(numStores, name)
						if name != "(*"+sp+"Base).DecodeFromBytes" && (throughRaw(fa.X) || isRecvOrParam(fa.X)) {
							badNum = append(badNum, name+" stores "+fld)
						}
					case isNamed(stt, "Raw") && fld == "Base":
						wholeStores = append(wholeStores, name)
						if !loadedFromRaw(st.Val, isNamed) {
							badWhole = append(badWhole, name+" overwrites the Base of a Raw")
						}
					}
					continue
				}
				// *p = v with p *Raw
				if isNamed(st.Addr.Type(), "Raw") {
					if _, isAlloc := st.Addr.(*ssa.Alloc); isAlloc && isZeroOrComposite(st.Val) {
						continue
					}
					wholeStores = append(wholeStores, name)
					if !loadedFromRaw(st.Val, isNamed) {
						badWhole = append(badWhole, name+" overwrites a Raw")
					}
				}
			}
		}
	}
	sort.Strings(rawStores)
	sort.Strings(badNum)
	sort.Strings(badWhole)
	dec := "(*" + sp + "Raw).DecodeFromBytes"
	c.Check(len(rawStores) == 1 && rawStores[0] == dec, rule, sp+"Raw.Raw:single-writer", 0,
		fmt.Sprintf("stored by %v; required: only %s", rawStores, dec))
	c.Check(len(badNum) == 0, rule, sp+"Raw.Base.NumINF/NumHops:single-writer", 0,
		fmt.Sprintf("%d stores of NumINF/NumHops in the module; reaching a Raw's Base other than in Base.DecodeFromBytes: %v", len(numStores), badNum))
	c.Check(len(badWhole) == 0, rule, sp+"Raw:no-overwrite", 0,
		fmt.Sprintf("%d whole-value stores; not copies of another Raw: %v", len(wholeStores), badWhole))
	if v := c.View(dec); v != nil {
		l := "(*" + sp + "Base).Len(recv.Base)"
		v.RequireStore(rule, 1, "recv.Raw", "arg0[:"+l+"]")
		e := NewE1(c, v.Fn)
		var sinks []ssa.Instruction
		for _, s := range v.Stores("recv.Raw") {
			sinks = append(sinks, s.In)
		}
		e.Require(rule, "store-Raw", nil, sinks,
			e.CallGuard(PassErrNil, "(*"+sp+"Base).DecodeFromBytes"),
			e.AtomGuard("len(data) >= Base.Len()", "-lt(builtin:len(arg0), "+l+")"))
	}
	if fn := c.Fn("(*" + sp + "Base).Len"); fn != nil {
		v := c.View("(*" + sp + "Base).Len")
		ok, got := false, ""
		for _, b := range fn.Blocks {
			for _, in := range b.Instrs {
				if r, isR := in.(*ssa.Return); isR {
					got = linearString(r.Results[0], v.S)
					ok = got == "(recv.NumHops * 12) + (recv.NumINF * 8) +4"
				}
			}
		}
		c.Check(ok, rule, FuncName(fn)+":4+8*NumINF+12*NumHops", fn.Pos(), "Base.Len() is the meta header plus 8 bytes per info field plus 12 per hop field: "+got)
	}
}

func isRecvOrParam(v ssa.Value) bool {
	_, ok := v.(*ssa.Parameter)
	return ok
}

func isZeroOrComposite(v ssa.Value) bool {
	switch v.(type) {
	case *ssa.Const:
		return true
	}
	return false
}

// loadedFromRaw: v is the value of another scion.Raw (or the Base inside one).
func loadedFromRaw(v ssa.Value, isNamed func(types.Type, string) bool) bool {
	u, ok := v.(*ssa.UnOp)
	if !ok {
		return false
	}
	if isNamed(u.X.Type(), "Raw") {
		return true
	}
	if fa, isFA := u.X.(*ssa.FieldAddr); isFA {
		return isNamed(fa.X.Type(), "Raw")
	}
	return false
}
