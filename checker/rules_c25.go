package main

import (
	"fmt"

	"golang.org/x/tools/go/ssa"
)

func init() {
	register(&PropRule{
		ID:    "C25",
		Roots: []string{"./control/beaconing", "./control/beacon"},
		Explain: "Decides: in Handler.HandleBeacon every path to Inserter.InsertBeacon passes checked " +
			"PreFilter, validateASEntry and verifySegment; the complete decision table of " +
			"validateASEntry (link type in {unset,core,parent,child,peer} × upstream-IA match × " +
			"next-IA match) accepts exactly Parent/Core links with matching IAs; the usage tables " +
			"of Policies.Usage / CorePolicies.Usage set each usage bit iff that same policy's " +
			"filter accepted; baseStore.InsertBeacon stores only with a non-empty usage computed " +
			"by the usager; the propagator appends a beacon for an interface only when FilterLoop " +
			"for that interface's neighbour and the configured AllowIsdLoop passed; Filter.Apply " +
			"checks the maximum length and loops before accepting. NOT decided: the loop-detection " +
			"algorithms themselves, black-list iteration, signature verification (C24).",
		Run: runC25,
	})
	setClaim("C25", claim{
		Text: "Guard dominance of PreFilter/validateASEntry/verifySegment over the insert sink, " +
			"exhaustive decision tables of validateASEntry, Usage and shouldIgnore, argument pairing " +
			"at the DB insert and FilterLoop call sites.",
		Note: claimNote, Technique: "static analysis: guard dominance, decision tables by conditional " +
			"constant propagation, symbolic argument pairing", Ref: "DESIGN.md §4 C25"})
	addMutants(
		Mutant{Prop: "C25", Name: "ignore-verify-error", File: "control/beaconing/handler.go",
			Old: `		h.updateMetric(span, labels.WithResult(prom.ErrVerify), err)
		return serrors.Wrap("verifying beacon", err)
	}`, New: `		h.updateMetric(span, labels.WithResult(prom.ErrVerify), err)
	}`, Expect: "G1-checks-before-insert"},
		Mutant{Prop: "C25", Name: "linktype-denylist", File: "control/beaconing/handler.go",
			Old: `	if topoInfo.LinkType != topology.Parent && topoInfo.LinkType != topology.Core {`,
			New: `	if topoInfo.LinkType == topology.Child || topoInfo.LinkType == topology.Unset {`,
			Expect: "T1-validate-as-entry"},
		Mutant{Prop: "C25", Name: "upreg-under-downreg-filter", File: "control/beacon/policy.go",
			Old: `	if p.UpReg.Filter.Apply(beacon) == nil {
		u |= UsageUpReg
	}`, New: `	if p.DownReg.Filter.Apply(beacon) == nil {
		u |= UsageUpReg
	}`, Expect: "T2-usage-table"},
		Mutant{Prop: "C25", Name: "should-ignore-never", File: "control/beaconing/propagator.go",
			Old: `	if err := beacon.FilterLoop(bseg, intf.TopoInfo().IA, p.AllowIsdLoop); err != nil {
		return true
	}`, New: `	if err := beacon.FilterLoop(bseg, intf.TopoInfo().IA, true); err != nil {
		return true
	}`, Expect: "T3-propagation-filter"},
		Mutant{Prop: "C25", Name: "insert-with-empty-usage", File: "control/beacon/store.go",
			Old: `	if usage.None() {
		return InsertStats{Filtered: 1}, nil
	}
`, New: "", Expect: "G2-store-insert"},
		Mutant{Prop: "C25", Name: "maxhops-off", File: "control/beacon/policy.go",
			Old: `	if len(beacon.Segment.ASEntries) > f.MaxHopsLength {`,
			New: `	if len(beacon.Segment.ASEntries) > f.MaxHopsLength+1 {`,
			Expect: "G3-filter-apply"},
	)
}

func runC25(c *Ctx) {
	requireStateless(c, "M1-no-state-between-requests", "(control/beaconing.Handler).HandleBeacon")
	c25TopologyReload(c)
	c25LoopDetectors(c)
	c25BlockLists(c)
	hT :="(control/beaconing.Handler)"
	if fn := c.Fn(hT + ".HandleBeacon"); fn != nil {
		e := NewE1(c, fn)
		sinks := e.CallSites("invoke:control/beaconing.BeaconInserter.InsertBeacon")
		c.Min("HandleBeacon:InsertBeacon", len(sinks), 1)
		e.Require("G1-checks-before-insert", "InsertBeacon", nil, sinks,
			e.CallGuard(PassErrNil, "invoke:control/beaconing.BeaconInserter.PreFilter"),
			e.CallGuard(PassErrNil, hT+".validateASEntry"),
			e.CallGuard(PassErrNil, hT+".verifySegment"))
		v := ViewOf(c, fn)
		// what is validated is what is inserted
		v.RequireCallArgs("G1-checks-before-insert", 1, "invoke:control/beaconing.BeaconInserter.InsertBeacon",
			"recv.Inserter", "", "arg1")
		v.RequireCallArgs("G1-checks-before-insert", 1, "invoke:control/beaconing.BeaconInserter.PreFilter",
			"recv.Inserter", "arg1")
		v.RequireCallArgs("G1-checks-before-insert", 1, hT+".validateASEntry", "recv", "arg1",
			"(*control/ifstate.Interfaces).Get(recv.Interfaces, arg1.InIfID)")
		v.RequireCallArgs("G1-checks-before-insert", 1, hT+".verifySegment", "recv", "", "arg1.Segment", "")
	}
	if v := c.View(hT + ".verifySegment"); v != nil {
		e := NewE1(c, v.Fn)
		e.Require("G1-checks-before-insert", "success-returns", nil, e.SuccessReturns(),
			e.CallGuard(PassErrNil, "private/segment/segverifier.VerifySegment"))
		v.RequireCallArgs("G1-checks-before-insert", 1, "private/segment/segverifier.VerifySegment",
			"", "recv.Verifier", "", "arg1")
	}
	if fn := c.Fn(hT + ".validateASEntry"); fn != nil {
		last := "arg0.Segment.ASEntries[(*pkg/segment.PathSegment).MaxIdx(arg0.Segment)]"
		topo := "(*control/ifstate.Interface).TopoInfo(arg1)"
		RunTable(c, &TableSpec{
			Rule: "T1-validate-as-entry", Fn: fn, NoInline: append([]string{"(*control/ifstate.Interface).TopoInfo",
				"(*pkg/segment.PathSegment).MaxIdx", "(pkg/addr.IA).Equal"}, noInlineDefault...),
			Atoms: []Atom{
				{Name: "lt", Pats: []string{topo + ".LinkType"}, Domain: linkTypeDom()},
				{Name: "localEq", Pats: []string{"(pkg/addr.IA).Equal(" + last + ".Local, " + topo + ".IA)",
					"(pkg/addr.IA).Equal(" + topo + ".IA, " + last + ".Local)"}, Domain: boolDom()},
				{Name: "nextEq", Pats: []string{"(pkg/addr.IA).Equal(" + last + ".Next, recv.LocalIA)",
					"(pkg/addr.IA).Equal(recv.LocalIA, " + last + ".Next)"}, Domain: boolDom()},
			},
			Oracle: func(a map[string]string) map[string]string {
				if (a["lt"] == ltParent || a["lt"] == ltCore) && a["localEq"] == "true" && a["nextEq"] == "true" {
					return map[string]string{"ret": "nil"}
				}
				return map[string]string{"ret": "sym:*"}
			},
		})
	}
	// usage tables
	usage := func(q string, pols []string, bits []string) {
		fn := c.Fn(q)
		if fn == nil {
			return
		}
		var atoms []Atom
		for _, p := range pols {
			atoms = append(atoms, Atom{Name: p, Domain: boolDom(),
				Pats: []string{"((control/beacon.Filter).Apply(recv." + p + ".Filter, arg0) == nil)"}})
		}
		RunTable(c, &TableSpec{Rule: "T2-usage-table", Fn: fn,
			NoInline: append([]string{"(control/beacon.Filter).Apply"}, noInlineDefault...),
			Atoms: atoms,
			Oracle: func(a map[string]string) map[string]string {
				u := 0
				for i, p := range pols {
					if a[p] == "true" {
						var b int
						fmt.Sscanf(bits[i], "%d", &b)
						u |= b
					}
				}
				return map[string]string{"ret": fmt.Sprintf("%d:control/beacon.Usage", u)}
			}})
	}
	bit := func(n string) string {
		s := c.Const("control/beacon." + n)
		var b int
		fmt.Sscanf(s, "%d:", &b)
		return fmt.Sprint(b)
	}
	usage("(*control/beacon.Policies).Usage", []string{"Prop", "UpReg", "DownReg"},
		[]string{bit("UsageProp"), bit("UsageUpReg"), bit("UsageDownReg")})
	usage("(*control/beacon.CorePolicies).Usage", []string{"Prop", "CoreReg"},
		[]string{bit("UsageProp"), bit("UsageCoreReg")})
	// Filter: one Apply per policy, compared with the number of policies
	for q, n := range map[string]int{"(*control/beacon.Policies).Filter": 3, "(*control/beacon.CorePolicies).Filter": 2} {
		if v := c.View(q); v != nil {
			calls := v.Calls("(control/beacon.Filter).Apply")
			distinct := map[string]bool{}
			for _, ci := range calls {
				distinct[ci.Args[0]] = true
			}
			e := NewE1(c, v.Fn)
			var fails []ssa.Instruction
			for _, r := range e.AllReturns() {
				ret := r.(*ssa.Return)
				if e.classify(ret.Results[0], ret.Block(), map[ssa.Value]bool{}) == retFail {
					fails = append(fails, r)
				}
			}
			okCount := len(distinct) == n
			c.Check(okCount, "T2-usage-table", v.Name()+":one-apply-per-policy", v.Fn.Pos(),
				fmt.Sprintf("%d distinct policy filters applied, expected %d", len(distinct), n))
			e.Require("T2-usage-table", "reject-only-if-all-filtered", nil, fails,
				e.AtomGuard("len(errors)==n", fmt.Sprintf("+eq(builtin:len(*), %d)", n)))
		}
	}
	// store insert
	if v := c.View("(*control/beacon.baseStore).InsertBeacon"); v != nil {
		e := NewE1(c, v.Fn)
		sinks := e.CallSites("invoke:control/beacon.DB.InsertBeacon")
		c.Min("baseStore.InsertBeacon:db-insert", len(sinks), 1)
		e.Require("G2-store-insert", "db.InsertBeacon", nil, sinks,
			e.AtomGuard("usage-not-none",
				"-true((control/beacon.Usage).None(invoke:control/beacon.usager.Usage(recv.usager; arg1)))"))
		v.RequireCallArgs("G2-store-insert", 1, "invoke:control/beacon.DB.InsertBeacon", "recv.db", "arg0",
			"arg1", "invoke:control/beacon.usager.Usage(recv.usager; arg1)")
	}
	if v := c.View("(*control/beacon.baseStore).PreFilter"); v != nil {
		v.RequireCallArgs("G2-store-insert", 1, "invoke:control/beacon.usager.Filter", "recv.usager", "arg0")
	}
	if fn := c.Fn("(control/beacon.Usage).None"); fn != nil {
		RunTable(c, &TableSpec{Rule: "G2-store-insert", Fn: fn, NoInline: noInlineDefault,
			Atoms: []Atom{{Name: "u", Pats: []string{"recv"}, Domain: []string{"0:control/beacon.Usage",
				"1:control/beacon.Usage", "2:control/beacon.Usage", "4:control/beacon.Usage",
				"8:control/beacon.Usage", "15:control/beacon.Usage"}}},
			Oracle: func(a map[string]string) map[string]string {
				return map[string]string{"ret": boolStr(a["u"] == "0:control/beacon.Usage")}
			}})
	}
	// propagation
	pT := "(*control/beaconing.Propagator)"
	if fn := c.Fn(pT + ".shouldIgnore"); fn != nil {
		RunTable(c, &TableSpec{Rule: "T3-propagation-filter", Fn: fn,
			NoInline: append([]string{"control/beacon.FilterLoop"}, noInlineDefault...),
			Atoms: []Atom{{Name: "loopErr", Domain: boolDom(), Pats: []string{
				"(control/beacon.FilterLoop(arg0, (*control/ifstate.Interface).TopoInfo(arg1).IA, recv.AllowIsdLoop) != nil)"}}},
			Oracle: func(a map[string]string) map[string]string {
				return map[string]string{"ret": a["loopErr"]}
			}})
	}
	if v := c.View(pT + ".beaconsPerInterface"); v != nil {
		e := NewE1(c, v.Fn)
		// the construction of the beacon that is appended to the per-interface list
		var appends []ssa.Instruction
		for _, st := range v.Stores("local:complit.Segment") {
			if wild("pkg/segment.BeaconFromPB(*)#0", st.Val) {
				appends = append(appends, st.In)
			}
		}
		v.RequireCallArgs("T3-propagation-filter", 1, pT+".shouldIgnore", "recv", "", "arg1[*]")
		c.Min("beaconsPerInterface:append-propagated", len(appends), 1)
		e.Require("T3-propagation-filter", "append-to-propagate", nil, appends,
			e.AtomGuard("not-ignored", "-true("+pT+".shouldIgnore(recv, *))"))
	}
	// Filter.Apply
	if v := c.View("(control/beacon.Filter).Apply"); v != nil {
		e := NewE1(c, v.Fn)
		e.Require("G3-filter-apply", "success-returns", nil, e.SuccessReturns(),
			e.AtomGuard("length<=MaxHopsLength",
				"-lt(recv.MaxHopsLength, builtin:len(arg0.Segment.ASEntries))",
				"+lt(builtin:len(arg0.Segment.ASEntries), (recv.MaxHopsLength + 1))"),
			e.CallGuard(PassErrNil, "control/beacon.filterLoops"))
		v.RequireCallArgs("G3-filter-apply", 1, "control/beacon.filterLoops",
			"control/beacon.buildHops(arg0)", "recv.AllowIsdLoop")
	}
	if v := c.View("control/beacon.FilterLoop"); v != nil {
		e := NewE1(c, v.Fn)
		e.Require("G3-filter-apply", "success-returns", nil, e.SuccessReturns(),
			e.CallGuard(PassErrNil, "control/beacon.filterLoops"))
		calls := v.RequireCallArgs("G3-filter-apply", 1, "control/beacon.filterLoops", "", "arg2")
		for _, ci := range calls {
			l := v.Leaves(ci.In.Common().Args[0], 0)
			miss := leavesContainAll(l, "call:control/beacon.buildHops", "arg1")
			c.Check(len(miss) == 0, "G3-filter-apply", v.Name()+":hops-include-next", ci.In.Pos(),
				fmt.Sprintf("hops passed to filterLoops depend on buildHops(beacon) and next; missing %v", miss))
		}
	}
	if fn := c.Fn("control/beacon.filterLoops"); fn != nil {
		e := NewE1(c, fn)
		e.Require("G3-filter-apply", "success-returns", nil, e.SuccessReturns(),
			e.AtomGuard("no-as-loop", "+true((pkg/addr.IA).IsZero(control/beacon.filterAsLoop(arg0)))"),
			e.AtomGuard("isd-loop-allowed-or-absent", "+true(arg1)",
				"+eq(control/beacon.filterIsdLoop(arg0), 0:pkg/addr.ISD)"))
	}
}

func wildAny(s string, pats ...string) bool {
	for _, p := range pats {
		if wild(p, s) {
			return true
		}
	}
	return false
}

// containsCall reports whether any argument expression of ci mentions callee.
func containsCall(v *FnView, ci CallInfo, callee string) bool {
	for _, a := range ci.In.Common().Args {
		if _, ok := v.Leaves(a, 0)["call:"+callee]; ok {
			return true
		}
	}
	return false
}
