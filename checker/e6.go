package main

import (
	"fmt"
	"go/token"
	"go/types"
	"sort"
	"strings"

	"golang.org/x/tools/go/ssa"
)

// E6 — path-sensitive property simulation over the boolean skeleton of one
// function (in the style of ESP / typestate with predicate tracking).
//
// The abstract state is (block, valuation of the bool-typed SSA values that are
// still in scope, a small rule-defined bit set). Every bool value that is not a
// constant, a phi, a negation or a comparison of two tracked bools is a LEAF:
// each time its defining instruction executes, both outcomes are explored (the
// rule may update its bits on the outcome). Integers, pointers and memory are
// not modelled, so loop trip counts are unconstrained: every loop is explored
// for zero, one and arbitrarily many iterations, until the finite state space is
// closed under the transfer function. Nothing is executed; the result is an
// over-approximation of the reachable (block, bool valuation, bits) triples.
type PSSpec struct {
	Fn   *ssa.Function
	Init uint32
	// Instr is called for every non-phi instruction in execution order.
	Instr func(in ssa.Instruction, bits uint32) uint32
	// Leaf is called after a leaf received the value val.
	Leaf func(v ssa.Value, val bool, bits uint32) uint32
	// Edge is called when control moves from one block to another. A non-empty
	// message is a violation on that edge.
	Edge func(from, to *ssa.BasicBlock, bits uint32) (uint32, string)
	// Sink is called for every instruction (after Instr); non-empty = violation.
	Sink func(in ssa.Instruction, bits uint32) string
}

type PSViolation struct {
	Msg   string
	Pos   token.Pos
	Trace []int // block indices
}

type psState struct {
	blk, pred *ssa.BasicBlock
	idx       int
	env       map[ssa.Value]bool
	bits      uint32
	parent    *psState
}

func (s *psState) key() string {
	var parts []string
	for v, b := range s.env {
		parts = append(parts, fmt.Sprintf("%s=%v", v.Name(), b))
	}
	sort.Strings(parts)
	p := -1
	if s.pred != nil {
		p = s.pred.Index
	}
	return fmt.Sprintf("%d/%d/%d/%x/%s", s.blk.Index, p, s.idx, s.bits, strings.Join(parts, ","))
}

func isBool(t types.Type) bool {
	b, ok := t.Underlying().(*types.Basic)
	return ok && b.Info()&types.IsBoolean != 0
}

// RunPS explores the state space and returns the violations found (at most 5)
// together with the number of distinct states visited.
func RunPS(spec *PSSpec) (viol []PSViolation, states int) {
	fn := spec.Fn
	if len(fn.Blocks) == 0 {
		return nil, 0
	}
	seen := map[string]bool{}
	var work []*psState
	push := func(s *psState) {
		k := s.key()
		if seen[k] {
			return
		}
		seen[k] = true
		work = append(work, s)
	}
	trace := func(s *psState) []int {
		var t []int
		for x := s; x != nil; x = x.parent {
			if len(t) == 0 || t[len(t)-1] != x.blk.Index {
				t = append(t, x.blk.Index)
			}
		}
		for i, j := 0, len(t)-1; i < j; i, j = i+1, j-1 {
			t[i], t[j] = t[j], t[i]
		}
		return t
	}
	report := func(s *psState, msg string, pos token.Pos) {
		if len(viol) < 5 {
			viol = append(viol, PSViolation{Msg: msg, Pos: pos, Trace: trace(s)})
		}
	}
	cloneEnv := func(e map[ssa.Value]bool) map[ssa.Value]bool {
		n := make(map[ssa.Value]bool, len(e)+1)
		for k, v := range e {
			n[k] = v
		}
		return n
	}
	// eval returns (value, known); unknown values defined outside the explored
	// instruction stream are forked by the caller.
	var eval func(env map[ssa.Value]bool, v ssa.Value) (bool, bool)
	eval = func(env map[ssa.Value]bool, v ssa.Value) (bool, bool) {
		if b, ok := constBool(v); ok {
			return b, true
		}
		if b, ok := env[v]; ok {
			return b, true
		}
		switch x := v.(type) {
		case *ssa.UnOp:
			if x.Op == token.NOT {
				b, ok := eval(env, x.X)
				return !b, ok
			}
		case *ssa.BinOp:
			if isBool(x.X.Type()) && isBool(x.Y.Type()) && (x.Op == token.EQL || x.Op == token.NEQ) {
				a, ok1 := eval(env, x.X)
				b, ok2 := eval(env, x.Y)
				if ok1 && ok2 {
					return (a == b) == (x.Op == token.EQL), true
				}
			}
		}
		return false, false
	}
	isLeafInstr := func(in ssa.Instruction) (ssa.Value, bool) {
		v, ok := in.(ssa.Value)
		if !ok || !isBool(v.Type()) {
			return nil, false
		}
		switch x := in.(type) {
		case *ssa.Phi:
			return nil, false
		case *ssa.UnOp:
			if x.Op == token.NOT {
				return nil, false
			}
		case *ssa.BinOp:
			if isBool(x.X.Type()) && isBool(x.Y.Type()) {
				return nil, false
			}
		}
		return v, true
	}
	push(&psState{blk: fn.Blocks[0], env: map[ssa.Value]bool{}, bits: spec.Init})
	for len(work) > 0 {
		s := work[len(work)-1]
		work = work[:len(work)-1]
		states++
		if states > 200000 {
			report(s, "state bound exceeded", fn.Pos())
			return
		}
		env := s.env
		bits := s.bits
		blk := s.blk
		forked := false
		for i := s.idx; i < len(blk.Instrs) && !forked; i++ {
			in := blk.Instrs[i]
			switch x := in.(type) {
			case *ssa.Phi:
				continue // assigned on block entry
			case *ssa.If:
				c, ok := eval(env, x.Cond)
				if !ok {
					// value from outside: fix it for the rest of the path
					for _, b := range []bool{true, false} {
						e2 := cloneEnv(env)
						e2[x.Cond] = b
						push(&psState{blk: blk, pred: s.pred, idx: i, env: e2, bits: bits, parent: s})
					}
					forked = true
					break
				}
				next := blk.Succs[1]
				if c {
					next = blk.Succs[0]
				}
				enterBlock(spec, s, blk, next, env, bits, push, report, eval)
			case *ssa.Jump:
				enterBlock(spec, s, blk, blk.Succs[0], env, bits, push, report, eval)
			case *ssa.Return, *ssa.Panic:
				if spec.Sink != nil {
					if m := spec.Sink(in, bits); m != "" {
						report(s, m, sinkPos(in))
					}
				}
			default:
				if spec.Instr != nil {
					bits = spec.Instr(in, bits)
				}
				if spec.Sink != nil {
					if m := spec.Sink(in, bits); m != "" {
						report(s, m, sinkPos(in))
					}
				}
				if lv, isLeaf := isLeafInstr(in); isLeaf {
					// go/ssa does no CSE: a comparison of the same two SSA values that is
					// still in scope keeps its outcome (== and != are complementary)
					if known, ok := sameComparison(env, lv); ok {
						env = cloneEnv(env)
						env[lv] = known
						continue
					}
					for _, b := range []bool{true, false} {
						e2 := cloneEnv(env)
						e2[lv] = b
						b2 := bits
						if spec.Leaf != nil {
							b2 = spec.Leaf(lv, b, b2)
						}
						push(&psState{blk: blk, pred: s.pred, idx: i + 1, env: e2, bits: b2, parent: s})
					}
					forked = true
				}
			}
		}
	}
	return
}

func enterBlock(spec *PSSpec, s *psState, from, to *ssa.BasicBlock, env map[ssa.Value]bool, bits uint32,
	push func(*psState), report func(*psState, string, token.Pos),
	eval func(map[ssa.Value]bool, ssa.Value) (bool, bool)) {
	if spec.Edge != nil {
		var msg string
		bits, msg = spec.Edge(from, to, bits)
		if msg != "" {
			report(s, msg, sinkPos(from.Instrs[len(from.Instrs)-1]))
		}
	}
	// phi assignment (simultaneous), then drop values that went out of scope
	pi := -1
	for i, p := range to.Preds {
		if p == from {
			pi = i
		}
	}
	newVals := map[ssa.Value]bool{}
	unknown := []ssa.Value{}
	for _, in := range to.Instrs {
		phi, ok := in.(*ssa.Phi)
		if !ok {
			break
		}
		if !isBool(phi.Type()) || pi < 0 {
			continue
		}
		b, ok := eval(env, phi.Edges[pi])
		if !ok {
			unknown = append(unknown, phi)
			continue
		}
		newVals[phi] = b
	}
	base := map[ssa.Value]bool{}
	for v, b := range env {
		in, isIn := v.(ssa.Instruction)
		if isIn && in.Block() != nil && !in.Block().Dominates(to) {
			continue
		}
		if _, isPhi := v.(*ssa.Phi); isPhi && isIn && in.Block() == to {
			continue
		}
		base[v] = b
	}
	for v, b := range newVals {
		base[v] = b
	}
	// phis fed by untracked values: explore both
	envs := []map[ssa.Value]bool{base}
	for _, u := range unknown {
		var next []map[ssa.Value]bool
		for _, e := range envs {
			for _, b := range []bool{true, false} {
				e2 := make(map[ssa.Value]bool, len(e)+1)
				for k, v := range e {
					e2[k] = v
				}
				e2[u] = b
				next = append(next, e2)
			}
		}
		envs = next
	}
	for _, e := range envs {
		push(&psState{blk: to, pred: from, idx: 0, env: e, bits: bits, parent: s})
	}
}

func sameComparison(env map[ssa.Value]bool, v ssa.Value) (bool, bool) {
	b, ok := v.(*ssa.BinOp)
	if !ok || (b.Op != token.EQL && b.Op != token.NEQ) {
		return false, false
	}
	for o, val := range env {
		ob, ok := o.(*ssa.BinOp)
		if !ok || ob == b || (ob.Op != token.EQL && ob.Op != token.NEQ) {
			continue
		}
		sameOps := (ob.X == b.X && ob.Y == b.Y) || (ob.X == b.Y && ob.Y == b.X)
		if !sameOps {
			cx, okx := b.Y.(*ssa.Const)
			cy, oky := ob.Y.(*ssa.Const)
			sameOps = ob.X == b.X && okx && oky && cx.IsNil() && cy.IsNil()
		}
		if sameOps {
			return val == (ob.Op == b.Op), true
		}
	}
	return false, false
}

func traceString(t []int) string {
	var parts []string
	for _, b := range t {
		parts = append(parts, fmt.Sprintf("b%d", b))
	}
	if len(parts) > 24 {
		parts = append(parts[:12], append([]string{"…"}, parts[len(parts)-11:]...)...)
	}
	return strings.Join(parts, "→")
}
