package main

import (
	"encoding/json"
	"fmt"
	"os"
	"sort"
	"strings"
)

// Claim texts per property (what assurance the check gives). Kept next to the
// rules so MANIFEST.json is generated, never hand-edited.
type claim struct {
	Text      string
	Note      string
	Technique string
	Ref       string
}

var claims = map[string]claim{}

// notApplicable lists the properties this technique cannot decide, with reason.
var notApplicable = map[string]string{}

func setClaim(id string, c claim) { claims[id] = c }

const baselineCmd = "for m in $(cat /w/out/gomods.txt); do MF=$(cd /repo/$m && . /w/out/goenv.sh && gomodflag); (cd /repo/$m && go test $MF -json -vet=off -count=1 -timeout 25m ./...); done"

func writeManifest(verif string) error {
	var ids []string
	for id := range registry {
		ids = append(ids, id)
	}
	sort.Strings(ids)
	var checks []map[string]any
	for _, id := range ids {
		cl, ok := claims[id]
		if !ok {
			return fmt.Errorf("no claim text for %s", id)
		}
		checks = append(checks, map[string]any{
			"property_id":         id,
			"quick_cmd":           "./check.sh " + id + " quick",
			"thorough_cmd":        "./check.sh " + id + " thorough",
			"evidence_file":       "/verif/evidence/" + id + ".json",
			"replay_cmd_template": "cat {path}",
			"engine":              "scionvet",
			"level_claimed": map[string]any{
				"category":   "other",
				"text":       cl.Text,
				"design_ref": cl.Ref,
			},
			"level_note": cl.Note,
			"technique":  cl.Technique,
		})
	}
	var na []map[string]string
	var naIDs []string
	for id := range notApplicable {
		if _, claimed := registry[id]; claimed {
			return fmt.Errorf("%s both claimed and not applicable", id)
		}
		naIDs = append(naIDs, id)
	}
	for i := 1; i <= 48; i++ {
		id := fmt.Sprintf("C%02d", i)
		if _, claimed := registry[id]; claimed {
			continue
		}
		if _, ok := notApplicable[id]; !ok {
			notApplicable[id] = "rule set for this property is designed (DESIGN.md section 4) but not " +
				"finished/validated yet; not claimed through a weaker substitute"
			naIDs = append(naIDs, id)
		}
	}
	sort.Strings(naIDs)
	for _, id := range naIDs {
		na = append(na, map[string]string{"property_id": id, "reason": notApplicable[id]})
	}
	m := map[string]any{
		"version": 1,
		"setup_cmd": "cd /verif && . ./env.sh && mkdir -p bin evidence && (cd checker && " +
			"go build -o ../bin/scionvet .) && ./bin/scionvet -warm",
		"hooks": map[string]any{
			"guard":            "verif",
			"enable":           "none needed: the checker reads /repo's source (static analysis); no instrumentation",
			"baseline_off_cmd": baselineCmd,
			"source_commits":   hookCommits,
			"add_only":         true,
		},
		"engines": []map[string]any{{
			"name": "scionvet",
			"path": "/verif/checker",
			"serves_properties": ids,
			"kind_free_text": "repository-specific static checker on go/types + go/ssa (x/tools v0.50.0): " +
				"guard dominance on the CFG with pass-edge removal, symbolic value pairing, decision " +
				"tables by conditional constant propagation, byte-layout extraction, ownership " +
				"typestate, lock discipline",
		}},
		"checks":         checks,
		"not_applicable": na,
		"notes": "All checks are static: they load /repo's working tree with go/packages, build SSA and " +
			"decide rule obligations; nothing from /repo is executed. Known findings: " +
			"/verif/known_findings.json. Thorough adds extra build configurations, deeper " +
			"interprocedural summaries and the mutant matrix (checker self-test via parse-time " +
			"overlays).",
	}
	b, err := json.MarshalIndent(m, "", " ")
	if err != nil {
		return err
	}
	return os.WriteFile(verif+"/MANIFEST.json", append(b, '\n'), 0o644)
}

// hookCommits lists /repo commits that add guarded hooks (none: static analysis).
var hookCommits = []string{}

func warm() int {
	set := map[string]bool{}
	for _, r := range registry {
		for _, p := range r.Roots {
			set[p] = true
		}
	}
	var roots []string
	for p := range set {
		roots = append(roots, p)
	}
	sort.Strings(roots)
	prog, err := Load(roots, nil, nil)
	if err != nil {
		fmt.Printf("warm-up load failed: %v\n", err)
		return 1
	}
	fmt.Printf("warm-up: %d module packages loaded from %s in %.1fs\n", len(prog.Pkgs),
		strings.Join(roots, " "), prog.LoadSecs)
	return 0
}
