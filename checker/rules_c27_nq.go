package main

import (
	"fmt"
	"go/constant"
	"regexp"
	"sort"
	"strings"

	"golang.org/x/tools/go/ssa"
)

// "A stored next-query time never decreases": InsertNextQuery replaces the stored
// row only if the new time is larger than the one stored UNDER THE SAME KEY
// (source ISD-AS, destination ISD-AS). Decided on the statement text (a
// constant) and the arguments bound to its placeholders: the stored row is
// joined on all four key columns, each with itself; the replacement condition
// compares the new value with the stored NextQuery column (or the absence of a
// stored row); the five placeholders are bound to src.ISD, src.AS, dst.ISD,
// dst.AS and the new time, in the order of the columns they are named after.

var nqKeyCols = []string{"srcisdid", "srcasid", "dstisdid", "dstasid"}

func init() {
	addMutants(
		Mutant{Prop: "C27", Name: "candidates-longest-first", File: "private/storage/beacon/sqlite/db.go",
			Old: `		ORDER BY b.HopsLength ASC`, New: `		ORDER BY b.HopsLength DESC`, Expect: "Q2-statements"},
		Mutant{Prop: "C27", Name: "cleanup-removes-the-not-yet-expired", File: "private/storage/beacon/sqlite/db.go",
			Old: "delStmt := `DELETE FROM Beacons WHERE ExpirationTime < ?`", New: "delStmt := `DELETE FROM Beacons WHERE ExpirationTime <= ?`", Expect: "Q2-statements"},
		Mutant{Prop: "C27", Name: "next-query-equal-time-rewritten-by-other-key", File: "private/storage/path/sqlite/sqlite.go",
			Old: `		LEFT JOIN NextQuery USING (SrcIsdID, SrcAsID, DstIsdID, DstAsID)`,
			New: `		LEFT JOIN NextQuery USING (SrcIsdID, SrcAsID, DstAsID)`, Expect: "N1-next-query-monotone"},
		Mutant{Prop: "C27", Name: "next-query-older-time-accepted", File: "private/storage/path/sqlite/sqlite.go",
			Old: `		WHERE data.lq > NextQuery.NextQuery OR NextQuery.DstIsdID IS NULL;`,
			New: `		WHERE data.lq != NextQuery.NextQuery OR NextQuery.DstIsdID IS NULL;`, Expect: "N1-next-query-monotone"},
	)
}

// constString resolves a string that is a constant or a captured variable
// assigned once with a constant.
func constString(v ssa.Value) (string, bool) {
	switch x := v.(type) {
	case *ssa.Const:
		if x.Value != nil && x.Value.Kind() == constant.String {
			return constant.StringVal(x.Value), true
		}
	case *ssa.UnOp:
		switch y := x.X.(type) {
		case *ssa.Alloc:
			if st := singleStore(y); st != nil {
				return constString(st)
			}
		case *ssa.FreeVar:
			fn := y.Parent()
			idx := -1
			for i, fv := range fn.FreeVars {
				if fv == y {
					idx = i
				}
			}
			if fn.Parent() == nil || idx < 0 {
				return "", false
			}
			for _, b := range fn.Parent().Blocks {
				for _, in := range b.Instrs {
					if mc, ok := in.(*ssa.MakeClosure); ok && mc.Fn == ssa.Value(fn) && idx < len(mc.Bindings) {
						if al, isAl := mc.Bindings[idx].(*ssa.Alloc); isAl {
							n := 0
							var val ssa.Value
							for _, r := range *al.Referrers() {
								if st, isSt := r.(*ssa.Store); isSt && st.Addr == al {
									n++
									val = st.Val
								}
							}
							if n == 1 {
								return constString(val)
							}
						}
					}
				}
			}
		}
	}
	return "", false
}

// c27Statements: the constant statements behind "clean-up removes exactly the
// expired entries" and "candidate beacons come in non-decreasing length order up
// to the requested count".
func c27Statements(c *Ctx) {
	rule := "Q2-statements"
	norm := func(q string) string { return strings.ToLower(strings.Join(strings.Fields(q), " ")) }
	// statements executed in fn or its closures, with their bound arguments
	type stmt struct {
		q    string
		args []ssa.Value
		in   ssa.Instruction
		s    *Symer
	}
	collect := func(root *ssa.Function) []stmt {
		var out []stmt
		fns := append([]*ssa.Function{root}, root.AnonFuncs...)
		for _, fn := range fns {
			s := NewSymer()
			for _, b := range fn.Blocks {
				for _, in := range b.Instrs {
					ci, ok := in.(ssa.CallInstruction)
					if !ok {
						continue
					}
					cargs := ci.Common().Args
					if ci.Common().IsInvoke() {
						cargs = append([]ssa.Value{ci.Common().Value}, cargs...)
					}
					if len(cargs) < 3 {
						continue
					}
					name := calleeName(ci.Common())
					if !(strings.HasSuffix(name, "ExecContext") || strings.HasSuffix(name, "QueryContext")) {
						continue
					}
					qv := cargs[2]
					q, ok := constString(qv)
					if !ok {
						// fmt.Sprintf(constant format, ...)
						if call, isCall := qv.(*ssa.Call); isCall && calleeName(call.Common()) == "fmt.Sprintf" {
							q, ok = constString(call.Common().Args[0])
						}
					}
					if !ok {
						continue
					}
					var args []ssa.Value
					if len(cargs) > 3 {
						args = variadicArgs(cargs[3])
					}
					out = append(out, stmt{norm(q), args, in, s})
				}
			}
		}
		return out
	}
	del := func(q, table, col string) {
		root := c.Fn(q)
		if root == nil {
			return
		}
		ss := collect(root)
		ok := len(ss) == 1
		if ok {
			st := ss[0]
			ok = st.q == "delete from "+table+" where "+col+" < ?" && len(st.args) == 1 &&
				strings.Contains(st.s.Sym(st.args[0]), "(time.Time).Unix(") && !strings.Contains(st.s.Sym(st.args[0]), "time.Now")
		}
		c.Check(ok, rule, FuncName(root)+":deletes-exactly-the-expired", root.Pos(),
			"one statement: DELETE FROM "+table+" WHERE "+col+" < ? bound to the Unix time of the 'now' handed in")
	}
	del("(*private/storage/beacon/sqlite.executor).DeleteExpiredBeacons", "beacons", "expirationtime")
	del("(*private/storage/path/sqlite.executor).DeleteExpired", "segments", "maxexpiry")
	if root := c.Fn("(*private/storage/beacon/sqlite.executor).CandidateBeacons"); root != nil {
		ss := collect(root)
		ok := len(ss) == 1
		why := fmt.Sprintf("%d statement(s)", len(ss))
		if ok {
			st := ss[0]
			why = st.q
			ok = strings.Contains(st.q, "where ( b.usage & ?1 ) == ?1") && strings.Contains(st.q, "order by b.hopslength asc limit ?2") &&
				!strings.Contains(st.q, " desc") && len(st.args) >= 2 &&
				st.s.Sym(st.args[0]) == "arg2" && st.s.Sym(st.args[1]) == "arg1"
		}
		c.Check(ok, rule, FuncName(root)+":ordered-by-length-up-to-count", root.Pos(),
			"candidates with the requested usage bits, ORDER BY HopsLength ASC LIMIT setSize: "+why)
	}
}

func c27NextQuery(c *Ctx) {
	c27Statements(c)
	rule := "N1-next-query-monotone"
	root := c.Fn("(*private/storage/path/sqlite.executor).InsertNextQuery")
	if root == nil {
		return
	}
	fns := []*ssa.Function{root}
	fns = append(fns, root.AnonFuncs...)
	var query string
	var args []ssa.Value
	var at ssa.Instruction
	var owner *ssa.Function
	n := 0
	for _, fn := range fns {
		for _, b := range fn.Blocks {
			for _, in := range b.Instrs {
				ci, ok := in.(ssa.CallInstruction)
				if !ok || !strings.HasSuffix(calleeName(ci.Common()), "ExecContext") || len(ci.Common().Args) < 4 {
					continue
				}
				if q, ok := constString(ci.Common().Args[2]); ok {
					n++
					query, args, at, owner = q, variadicArgs(ci.Common().Args[3]), in, fn
				}
			}
		}
	}
	if !c.Check(n == 1, rule, "InsertNextQuery:statement", root.Pos(), fmt.Sprintf("%d constant statement(s) executed", n)) {
		return
	}
	q := strings.ToLower(strings.Join(strings.Fields(query), " "))
	// (1) the join key
	okKey, why := false, ""
	if m := regexp.MustCompile(`join nextquery(?: as)?(?: (\w+))? using \(([^)]*)\)`).FindStringSubmatch(q); m != nil {
		var cols []string
		for _, col := range strings.Split(m[2], ",") {
			cols = append(cols, strings.TrimSpace(col))
		}
		sort.Strings(cols)
		want := append([]string{}, nqKeyCols...)
		sort.Strings(want)
		okKey = strings.Join(cols, ",") == strings.Join(want, ",")
		why = "USING (" + m[2] + ")"
	} else if m := regexp.MustCompile(`join nextquery(?: as)?(?: (\w+))? on (.*?) where `).FindStringSubmatch(q); m != nil {
		eqs := regexp.MustCompile(`(\w+)\.(\w+) = (\w+)\.(\w+)`).FindAllStringSubmatch(m[2], -1)
		seen := map[string]bool{}
		okKey = len(eqs) == 4 && !strings.Contains(m[2], " or ")
		for _, e := range eqs {
			okKey = okKey && e[2] == e[4] && e[1] != e[3]
			seen[e[2]] = true
		}
		for _, k := range nqKeyCols {
			okKey = okKey && seen[k]
		}
		why = "ON " + m[2]
	} else {
		why = "no join with the stored NextQuery row found"
	}
	c.Check(okKey, rule, "InsertNextQuery:stored-row-by-full-key", at.Pos(),
		"the stored row is looked up by (SrcIsdID, SrcAsID, DstIsdID, DstAsID), each column with itself: "+why)
	// (2) the replacement condition
	okCond := false
	if m := regexp.MustCompile(` where (.*?);?$`).FindStringSubmatch(q); m != nil {
		cond := m[1]
		gt := regexp.MustCompile(`^data\.(\w+) > (\w+)\.nextquery or (\w+)\.(\w+) is null$`).FindStringSubmatch(strings.TrimSpace(strings.TrimSuffix(cond, ";")))
		okCond = gt != nil && gt[2] == gt[3]
	}
	c.Check(okCond, rule, "InsertNextQuery:replace-only-if-newer", at.Pos(),
		"a row is written only if the new time is larger than the stored NextQuery or nothing is stored")
	// (3) placeholders and their arguments
	ph := regexp.MustCompile(`\? as (\w+)`).FindAllStringSubmatch(q, -1)
	okBind := len(ph) == 5 && len(args) == 5
	if okBind {
		S := NewSymer()
		want := map[string]string{"srcisdid": "ISD", "srcasid": "AS", "dstisdid": "ISD", "dstasid": "AS"}
		who := map[string]int{"srcisdid": 1, "srcasid": 1, "dstisdid": 2, "dstasid": 2}
		var first [3]string
		for i, p := range ph {
			sym := S.Sym(args[i])
			if meth, isKey := want[p[1]]; isKey {
				okBind = okBind && strings.Contains(sym, "(pkg/addr.IA)."+meth+"(")
				arg := sym[strings.LastIndex(sym, "(")+1:]
				if first[who[p[1]]] == "" {
					first[who[p[1]]] = arg
				}
				okBind = okBind && first[who[p[1]]] == arg
			} else {
				okBind = okBind && strings.Contains(sym, "UnixNano(") && strings.HasPrefix(q[strings.Index(q, " where "):], " where data."+p[1]+" ")
			}
		}
		okBind = okBind && first[1] != first[2] && first[1] != ""
	}
	_ = owner
	c.Check(okBind, rule, "InsertNextQuery:placeholders", at.Pos(),
		"the placeholders named after the key columns are bound to ISD/AS of the source and of the destination, the last one to the new time that the condition compares")
}
