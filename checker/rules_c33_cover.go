package main

import (
	"fmt"

	"golang.org/x/tools/go/ssa"
)

// C33, per-certificate clauses of TRC.Validate: EVERY certificate of the payload
// must cover the TRC validity, and every certificate that names an ISD-AS must
// name this ISD. Voting certificates need not carry an ISD-AS, so "no ISD-AS" may
// skip the ISD comparison - but not the rest of the loop body.
//
// Rule V2: in TRC.Validate, the Covers(trc.Validity) test lies on every way round
// the certificate loop (natural-loop path form), its failing edge never reaches the
// successful return, the loop runs over every certificate, and the successful
// return lies behind the loop. The ISD comparison may be skipped only on the edge
// "findIA returned nil".
func init() {
	addMutants(
		Mutant{Prop: "C33", Name: "validity-cover-skipped-without-isd-as", File: "pkg/scrypto/cppki/trc.go",
			Old: `		if ia != nil && ia.ISD() != trc.ID.ISD {`, New: `		if ia == nil {
			continue
		}
		if ia.ISD() != trc.ID.ISD {`, Expect: "V2-every-certificate-covers"},
	)
}

func c33EveryCertificateCovers(c *Ctx) {
	rule := "V2-every-certificate-covers"
	v := c.View("(*pkg/scrypto/cppki.TRC).Validate")
	if v == nil {
		return
	}
	fn := v.Fn
	covers := "(pkg/scrypto/cppki.Validity).Covers(local:complit, recv.Validity)"
	var cov, isd *ssa.BasicBlock
	for _, b := range fn.Blocks {
		if len(b.Succs) != 2 {
			continue
		}
		lits, _ := edgeLits(b, 0, nil)
		for _, l := range lits {
			s := l.String(v.S)
			if wild("*true("+covers+")", s) {
				cov = b
			}
			if wild("*eq((pkg/addr.IA).ISD(*), recv.ID.ISD)", s) || wild("*eq(recv.ID.ISD, (pkg/addr.IA).ISD(*))", s) {
				isd = b
			}
		}
	}
	if !c.Check(cov != nil && isd != nil, rule, v.Name()+":anchors", fn.Pos(), "the Covers(trc.Validity) test and the ISD comparison of the certificate loop") {
		return
	}
	e := NewE1(c, fn)
	e.FailStop(rule, "uncovered-validity-rejected", 1, Guard{Name: "covers", Match: func(l Lit) bool {
		return wild("+true("+covers+")", l.String(v.S))
	}})
	passes, inLoop := everyIterationPasses(cov)
	h := loopHeaderOf(cov)
	okIdx := false
	for _, b := range fn.Blocks {
		for _, in := range b.Instrs {
			if ia, ok := in.(*ssa.IndexAddr); ok && v.S.Sym(ia.X) == "recv.Certificates" && h != nil && naturalLoop(h)[b] {
				okIdx = okIdx || loopIndex(ia.Index, 0, 1)
			}
		}
	}
	c.Check(passes && inLoop && okIdx, rule, v.Name()+":covers-on-every-iteration", cov.Instrs[0].Pos(), fmt.Sprintf(
		"every way round the certificate loop passes the Covers test (%v); the loop runs over every certificate (%v)", passes && inLoop, okIdx))
	okBehind := h != nil
	if h != nil {
		for _, r := range e.SuccessReturns() {
			if cfgReach(fn.Blocks[0], r.Block(), h) {
				okBehind = false
			}
		}
	}
	c.Check(okBehind, rule, v.Name()+":accepted-only-after-the-loop", fn.Pos(), "the successful return lies behind the certificate loop")
	// the ISD comparison is skipped only when the certificate names no ISD-AS
	ok, in := loopSkipsOnlyVia(v, []*ssa.BasicBlock{isd}, []string{"+eq(pkg/scrypto/cppki.findIA(*)#0, nil)", "-eq(pkg/scrypto/cppki.findIA(*)#1, nil)"})
	c.Check(ok && in, rule, v.Name()+":isd-compared-unless-absent", isd.Instrs[0].Pos(),
		"a way round the loop that avoids the ISD comparison crosses 'no ISD-AS in the subject' (or the error return)")
}
