package main

import (
	"fmt"
	"go/token"
	"strings"

	"golang.org/x/tools/go/ssa"
)

// C43, what a port predicate means: "srcport=a-b" matches a packet iff
// a <= source port <= b (an inverted range matches nothing, 0-65535 matches
// every port). PortMatchSource.Eval / PortMatchDestination.Eval decide it.
//
// Rule E1 ("a finite set of orderings"): Eval - and every function of the
// package it hands the three values to - touches the packet's port, MinPort and
// MaxPort ONLY through comparisons: no arithmetic, no conversion, no other use.
// Its result is then a function of how the three values are ordered; folding it
// at the 27 assignments of {10, 20, 30} to (port, min, max) covers every
// ordering including ties, and must give min <= port && port <= max each time.
// Arithmetic on 16-bit ports (the single-comparison trick port-min < max-min+1)
// wraps at the ends of the port space and is reported as such.
func init() {
	addMutants(
		Mutant{Prop: "C43", Name: "port-range-by-wrapping-subtraction", File: "gateway/pktcls/pred_port.go",
			Old: `	return p.Src >= m.MinPort && p.Src <= m.MaxPort`, New: `	return p.Src-m.MinPort < m.MaxPort-m.MinPort+1`, Expect: "E1-port-range-meaning"},
		Mutant{Prop: "C43", Name: "port-range-upper-bound-exclusive", File: "gateway/pktcls/pred_port.go",
			Old: `	return p.Dst >= m.MinPort && p.Dst <= m.MaxPort`, New: `	return p.Dst >= m.MinPort && p.Dst < m.MaxPort`, Expect: "E1-port-range-meaning"},
		Mutant{Prop: "C43", Name: "benign-port-range-nested-ifs", File: "gateway/pktcls/pred_port.go", Benign: true,
			Old: `	return p.Src >= m.MinPort && p.Src <= m.MaxPort`, New: `	if p.Src < m.MinPort {
		return false
	}
	return !(m.MaxPort < p.Src)`},
	)
}

func c43PortRangeMeaning(c *Ctx) {
	rule := "E1-port-range-meaning"
	for _, q := range []struct{ fn, port string }{
		{"(*gateway/pktcls.PortMatchSource).Eval", "arg0.Src"},
		{"(*gateway/pktcls.PortMatchDestination).Eval", "arg0.Dst"},
	} {
		v := c.View(q.fn)
		if v == nil {
			continue
		}
		role := map[string]int{q.port: 0, "recv.MinPort": 1, "recv.MaxPort": 2}
		var bad []string
		nLoads := 0
		for _, b := range v.Fn.Blocks {
			for _, in := range b.Instrs {
				u, ok := in.(*ssa.UnOp)
				if !ok || u.Op != token.MUL {
					continue
				}
				if _, isRole := role[v.S.Sym(u)]; !isRole {
					bad = append(bad, "reads "+v.S.Sym(u))
					continue
				}
				nLoads++
				for _, r := range *u.Referrers() {
					bo, isB := r.(*ssa.BinOp)
					cmp := isB && (bo.Op == token.LSS || bo.Op == token.LEQ || bo.Op == token.GTR || bo.Op == token.GEQ || bo.Op == token.EQL || bo.Op == token.NEQ)
					if _, isDbg := r.(*ssa.DebugRef); !cmp && !isDbg {
						bad = append(bad, fmt.Sprintf("%s is used by %T %s (only comparisons are allowed)", v.S.Sym(u), r, strings.TrimSpace(r.String())))
					}
				}
			}
		}
		if !c.Check(len(bad) == 0 && nLoads >= 3, rule, v.Name()+":comparisons-only", v.Fn.Pos(), fmt.Sprintf(
			"%d loads of port/MinPort/MaxPort, used in comparisons only: %s", nLoads, strings.Join(truncList(bad, 3), " | "))) {
			continue
		}
		var wrong []string
		vals := []uint64{10, 20, 30}
		n := 0
		for _, p := range vals {
			for _, lo := range vals {
				for _, hi := range vals {
					env := [3]uint64{p, lo, hi}
					got, ok := foldLoads(v.Fn, func(u *ssa.UnOp) (uint64, bool) {
						i, isRole := role[v.S.Sym(u)]
						if !isRole {
							return 0, false
						}
						return env[i], true
					})
					n++
					want := uint64(0)
					if lo <= p && p <= hi {
						want = 1
					}
					if !ok {
						wrong = append(wrong, fmt.Sprintf("port=%d range=%d-%d: not foldable", p, lo, hi))
					} else if got != want {
						wrong = append(wrong, fmt.Sprintf("port=%d range=%d-%d: %d, required %d", p, lo, hi, got, want))
					}
				}
			}
		}
		c.Check(len(wrong) == 0, rule, v.Name()+":every-ordering", v.Fn.Pos(), fmt.Sprintf(
			"%d orderings of (port, min, max) folded; result is min <= port && port <= max: %s", n, strings.Join(truncList(wrong, 3), " | ")))
	}
}
