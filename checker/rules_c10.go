package main

import (
	"fmt"
	"strings"

	"golang.org/x/tools/go/ssa"
)

func init() {
	register(&PropRule{
		ID:    "C10",
		Roots: []string{"./router"},
		Explain: "Decides the structural clauses of the reply path. Traceroute ownership: (T1) the ingress router " +
			"alert is consumed only for packets that arrived on an external interface (ingressFromLink != 0) and " +
			"only if the flag of the ingress side is set, the egress alert only if the egress link's scope is " +
			"External and the flag of the egress side is set; which flag is 'ingress' is chosen by ConsDir " +
			"(ingress flag iff ConsDir on ingress, the other way round on egress); the slow path maps the two " +
			"requests to handleSCMPTraceRouteRequest(ingressFromLink) resp. (pkt.egress) (decision table shared " +
			"with C15); the reply copies Identifier and Sequence, reports d.localIA and that interface, is " +
			"built only for an SCMP TracerouteRequest with code 0 and sent as TracerouteReply. Reply routing " +
			"(R1) in prepareSCMP: the reply uses the reversed decoded copy of the packet's path; the segment " +
			"switch is reverted (IncPath) exactly when IsXover and not peering; when the packet arrived on an " +
			"external link the SegID is updated with the current hop's MAC iff ConsDir and not peering, then " +
			"the path is incremented - and the info and hop field used for that update are selected by " +
			"CurrINF/CurrHF read AFTER the cross-over revert; destination = the packet's source (IA, address " +
			"type, raw address), source = local IA and host. NOT decided: acceptance by the routers on the " +
			"way back (needs the MAC chain of a concrete path).",
		Run: runC10,
	})
	setClaim("C10", claim{
		Text: "Router-alert consumption guards, flag selection by direction, slow-path dispatch table, traceroute " +
			"reply pairing, path-reversal adjustments (guards and ordering), reply addressing.",
		Note: claimNote, Technique: "static analysis: guard dominance, decision table (shared with C15), store/call pairing, " +
			"CFG ordering (no path from the field selection back to the cross-over revert)",
		Ref: "DESIGN.md §4 C10"})
	dp := "router/dataplane.go"
	addMutants(
		Mutant{Prop: "C10", Name: "ingress-alert-on-internal", File: dp,
			Old: `func (p *scionPacketProcessor) handleIngressRouterAlert() disposition {
	if p.ingressFromLink == 0 {
		return pForward
	}`, New: `func (p *scionPacketProcessor) handleIngressRouterAlert() disposition {`, Expect: "T1-alert-owner"},
		Mutant{Prop: "C10", Name: "egress-alert-any-scope", File: dp,
			Old: `	if p.d.interfaces[p.pkt.egress].Scope() != External {
		// the egress router is not this one.
		return pForward
	}`, New: ``, Expect: "T1-alert-owner"},
		Mutant{Prop: "C10", Name: "ingress-flag-ignores-direction", File: dp,
			Old: `func (p *scionPacketProcessor) ingressRouterAlertFlag() *bool {
	if !p.infoField.ConsDir {
		return &p.hopField.EgressRouterAlert
	}
	return &p.hopField.IngressRouterAlert`, New: `func (p *scionPacketProcessor) ingressRouterAlertFlag() *bool {
	if !p.infoField.ConsDir && p.peering {
		return &p.hopField.EgressRouterAlert
	}
	return &p.hopField.IngressRouterAlert`, Expect: "T1-alert-owner"},
		Mutant{Prop: "C10", Name: "traceroute-reports-egress", File: dp,
			Old: `		Interface:  uint64(ifID),`, New: `		Interface:  uint64(p.pkt.egress),`, Expect: "T2-traceroute-reply"},
		Mutant{Prop: "C10", Name: "revert-xover-also-on-peering", File: dp,
			Old: `	if revPath.IsXover() && !peering {`, New: `	if revPath.IsXover() {`, Expect: "R1-reversal"},
		Mutant{Prop: "C10", Name: "segid-update-any-direction", File: dp,
			Old: `		if infoField.ConsDir && !peering {
			hopField := revPath.HopFields[revPath.PathMeta.CurrHF]`, New: `		if !peering {
			hopField := revPath.HopFields[revPath.PathMeta.CurrHF]`, Expect: "R1-reversal"},
		Mutant{Prop: "C10", Name: "info-field-selected-before-revert", File: dp,
			Old: `	// Revert potential path segment switches that were done during processing.
	if revPath.IsXover() && !peering {`, New: `	infoField := &revPath.InfoFields[revPath.PathMeta.CurrINF]
	// Revert potential path segment switches that were done during processing.
	if revPath.IsXover() && !peering {`,
			More: []Edit{{File: dp, Old: `	if p.pkt.Link.Scope() == External {
		infoField := &revPath.InfoFields[revPath.PathMeta.CurrINF]
		if infoField.ConsDir && !peering {`, New: `	if p.pkt.Link.Scope() == External {
		if infoField.ConsDir && !peering {`}}, Expect: "R1-reversal"},
		Mutant{Prop: "C10", Name: "reply-to-destination", File: dp,
			Old: `	scionL.DstIA = p.scionLayer.SrcIA`, New: `	scionL.DstIA = p.scionLayer.DstIA`, Expect: "R2-reply-addressing"},
	)
}

// c10UntouchedOnly: every return of pForward from a router-alert handler (the
// packet goes on with the flag untouched and nobody answers) lies behind one of
// the given reasons; any other condition under which an alerted packet is
// passed on means that no router on the path ever answers it.
func c10UntouchedOnly(c *Ctx, v *FnView, e *E1, dir string, reasons ...Guard) {
	var fwd []ssa.Instruction
	for _, r := range e.AllReturns() {
		if v.S.Sym(r.(*ssa.Return).Results[0]) == dispForward {
			fwd = append(fwd, r)
		}
	}
	c.Min(v.Name()+":returns-of-pForward", len(fwd), 1)
	e.Require("T1-alert-owner", dir+"-alert-passed-on-only", nil, fwd, Or("flag not set, or not the owning router", reasons...))
}

func runC10(c *Ctx) {
	slowPathStateFresh(c, "S1-per-packet-state")
	c10ReplyPassesSrcDst(c)
	alertClearedOnlyWhenConsumed(c, "A1-alert-cleared-only-when-consumed")
	ext := c.Const("router.External")
	// T1: who consumes the alert
	if v := c.View(procT + ".handleIngressRouterAlert"); v != nil {
		e := NewE1(c, v.Fn)
		var sinks []ssa.Instruction
		for _, st := range v.Stores("recv.pkt.slowPathRequest") {
			sinks = append(sinks, st.In)
		}
		for _, st := range v.Stores(procT + ".ingressRouterAlertFlag(recv)") {
			sinks = append(sinks, st.In)
		}
		c.Min("handleIngressRouterAlert:request+clear", len(sinks), 2)
		e.Require("T1-alert-owner", "ingress-alert-consumed", nil, sinks,
			e.AtomGuard("arrived-on-external-interface", "-eq(recv.ingressFromLink, 0)"),
			e.AtomGuard("ingress-flag-set", "+true("+procT+".ingressRouterAlertFlag(recv))"))
		v.RequireStore("T1-alert-owner", 1, "local:complit.spType", c.Const("router.slowPathRouterAlertIngress"))
		// the converse: the owner lets an alerted packet pass untouched ONLY when the flag
		// is not set (or the packet did not come in over one of its external interfaces)
		c10UntouchedOnly(c, v, e, "ingress",
			e.AtomGuard("arrived-on-internal-interface", "+eq(recv.ingressFromLink, 0)"),
			e.AtomGuard("ingress-flag-not-set", "-true("+procT+".ingressRouterAlertFlag(recv))"))
	}
	if v := c.View(procT + ".handleEgressRouterAlert"); v != nil {
		e := NewE1(c, v.Fn)
		var sinks []ssa.Instruction
		for _, st := range v.Stores("recv.pkt.slowPathRequest") {
			sinks = append(sinks, st.In)
		}
		for _, st := range v.Stores(procT + ".egressRouterAlertFlag(recv)") {
			sinks = append(sinks, st.In)
		}
		c.Min("handleEgressRouterAlert:request+clear", len(sinks), 2)
		e.Require("T1-alert-owner", "egress-alert-consumed", nil, sinks,
			e.AtomGuard("egress-link-is-external", "+eq(invoke:router.Link.Scope(recv.d.interfaces[recv.pkt.egress]; ), "+ext+")"),
			e.AtomGuard("egress-flag-set", "+true("+procT+".egressRouterAlertFlag(recv))"))
		v.RequireStore("T1-alert-owner", 1, "local:complit.spType", c.Const("router.slowPathRouterAlertEgress"))
		c10UntouchedOnly(c, v, e, "egress",
			e.AtomGuard("egress-link-is-not-external", "-eq(invoke:router.Link.Scope(recv.d.interfaces[recv.pkt.egress]; ), "+ext+")"),
			e.AtomGuard("egress-flag-not-set", "-true("+procT+".egressRouterAlertFlag(recv))"))
	}
	flagSel := func(q, whenCons, whenNot string) {
		v := c.View(q)
		if v == nil {
			return
		}
		e := NewE1(c, v.Fn)
		okAll, n := true, 0
		for _, b := range v.Fn.Blocks {
			r, ok := b.Instrs[len(b.Instrs)-1].(*ssa.Return)
			if !ok {
				continue
			}
			n++
			got := v.S.Sym(r.Results[0])
			var g Guard
			switch got {
			case "recv.hopField." + whenCons:
				g = e.AtomGuard("ConsDir", "+true(recv.infoField.ConsDir)")
			case "recv.hopField." + whenNot:
				g = e.AtomGuard("!ConsDir", "-true(recv.infoField.ConsDir)")
			default:
				okAll = false
				c.Fail("T1-alert-owner", v.Name()+":returns", r.Pos(), "returns "+got)
				continue
			}
			if ws := e.Unguarded(nil, []ssa.Instruction{r}, []Guard{g}); len(ws) > 0 {
				okAll = false
				c.Fail("T1-alert-owner", v.Name()+":"+got, r.Pos(), "returned without "+g.Name+": "+e.pathString(ws[0]))
			}
		}
		if okAll {
			c.Check(n == 2, "T1-alert-owner", v.Name()+":flag-by-direction", v.Fn.Pos(),
				fmt.Sprintf("%s iff ConsDir, %s otherwise (%d returns)", whenCons, whenNot, n))
		}
	}
	flagSel(procT+".ingressRouterAlertFlag", "IngressRouterAlert", "EgressRouterAlert")
	flagSel(procT+".egressRouterAlertFlag", "EgressRouterAlert", "IngressRouterAlert")
	slowPathDispatchTable(c, "T1-alert-owner")

	// T2: the traceroute reply
	if v := c.View(spT + ".handleSCMPTraceRouteRequest"); v != nil {
		rule := "T2-traceroute-reply"
		v.RequireStore(rule, 1, "local:complit.Identifier", "local:scmpP.Identifier")
		v.RequireStore(rule, 1, "local:complit.Sequence", "local:scmpP.Sequence")
		v.RequireStore(rule, 1, "local:complit.IA", "recv.d.localIA")
		v.RequireStore(rule, 1, "local:complit.Interface", "uint64(arg0)")
		v.RequireCallArgs(rule, 1, spT+".packSCMP", "recv", c.Const("pkg/slayers.SCMPTypeTracerouteReply"), "0:pkg/slayers.SCMPCode",
			"local:scmpP", "false")
		e := NewE1(c, v.Fn)
		req := c.Const("pkg/slayers.SCMPTypeTracerouteRequest")
		e.Require(rule, "reply-only-to-traceroute-request", nil, e.CallSites(spT+".packSCMP"),
			e.AtomGuard("TypeCode==TracerouteRequest/0", "+eq(local:scmpH.TypeCode, pkg/slayers.CreateSCMPTypeCode("+req+", 0:pkg/slayers.SCMPCode))"),
			e.CallGuard(PassErrNil, "(*pkg/slayers.SCMPTraceroute).DecodeFromBytes"),
			e.CallGuard(PassErrNil, "(*pkg/slayers.SCMP).DecodeFromBytes"))
	}
	c10Reversal(c, ext)
}

func c10Reversal(c *Ctx, ext string) { scmpReversal(c, ext, "R1-reversal") }

// scmpReversal is registered under C10 (the reply travels back) and under C22 (the
// replying router is the egress router of the reversed path: it owes the
// accumulator update of ITS hop on the segment the reply leaves on).
func scmpReversal(c *Ctx, ext, rule string) {
	v := c.View(spT + ".prepareSCMP")
	if v == nil {
		return
	}
	fn := v.Fn
	e := NewE1(c, fn)
	// rev := Reverse(ToDecoded(path)).(*scion.Decoded)
	var rev *ssa.TypeAssert
	for _, b := range fn.Blocks {
		for _, in := range b.Instrs {
			ta, ok := in.(*ssa.TypeAssert)
			if !ok || typeShort(ta.AssertedType) != "*pkg/slayers/path/scion.Decoded" {
				continue
			}
			if call, _ := callOf(ta.X); call != nil && calleeName(call.Common()) == "(*pkg/slayers/path/scion.Decoded).Reverse" {
				if dec, _ := callOf(call.Common().Args[0]); dec != nil && calleeName(dec.Common()) == "(*pkg/slayers/path/scion.Raw).ToDecoded" {
					rev = ta
				}
			}
		}
	}
	if rev == nil {
		c.Fail(rule, v.Name()+":reversed-path", fn.Pos(), "Reverse(ToDecoded(path)).(*scion.Decoded) not found (anchor unresolved)")
		return
	}
	c.OK(rule, v.Name()+":reversed-path", rev.Pos(), "the reply path is the reversed decoded copy of the packet's path")
	onRev := func(x ssa.Value) bool { return rootOf(x) == ssa.Value(rev) }
	var incs, isx []*ssa.Call
	var upd *ssa.Call
	var peer *ssa.Call
	for _, b := range fn.Blocks {
		for _, in := range b.Instrs {
			call, ok := in.(*ssa.Call)
			if !ok {
				continue
			}
			switch calleeName(call.Common()) {
			case "(*pkg/slayers/path/scion.Base).IncPath", "(*pkg/slayers/path/scion.Decoded).IncPath":
				if onRev(call.Common().Args[0]) {
					incs = append(incs, call)
				}
			case "(*pkg/slayers/path/scion.Base).IsXover":
				if onRev(call.Common().Args[0]) {
					isx = append(isx, call)
				}
			case "(*pkg/slayers/path.InfoField).UpdateSegID":
				upd = call
			case "router.determinePeer":
				peer = call
			}
		}
	}
	if len(incs) != 2 || len(isx) != 1 || upd == nil || peer == nil {
		c.Fail(rule, v.Name()+":anchors", fn.Pos(), fmt.Sprintf("expected 2 IncPath, 1 IsXover, UpdateSegID and determinePeer on the reversed path; found %d, %d, %v, %v",
			len(incs), len(isx), upd != nil, peer != nil))
		return
	}
	revert, advance := incs[0], incs[1]
	if !instrDominates(isx[0], revert) {
		revert, advance = advance, revert
	}
	litIs := func(l Lit, kind string, pos bool, x ssa.Value) bool {
		return l.Kind == kind && l.Pos == pos && (l.X == x || stripConv(l.X) == x)
	}
	var peerFlag ssa.Value
	if refs := peer.Referrers(); refs != nil {
		for _, r := range *refs {
			if ex, ok := r.(*ssa.Extract); ok && ex.Index == 0 {
				peerFlag = ex
			}
		}
	}
	gX := Guard{Name: "IsXover(revPath)", Match: func(l Lit) bool { return litIs(l, "true", true, isx[0]) }}
	gNotPeer := Guard{Name: "!peering", Match: func(l Lit) bool { return peerFlag != nil && litIs(l, "true", false, peerFlag) }}
	gExt := e.AtomGuard("arrived-on-external-link", "+eq(invoke:router.Link.Scope(recv.pkt.Link; ), "+ext+")")
	e.Require(rule, "revert-cross-over", nil, []ssa.Instruction{revert}, gX, gNotPeer)
	// the revert is not skipped when it applies: the IsXover && !peering true edge leads to it
	e.Require(rule, "advance-for-external-link", nil, []ssa.Instruction{advance}, gExt)
	// UpdateSegID(&rev.InfoFields[CurrINF], rev.HopFields[CurrHF].Mac)
	infoAddr, okI := upd.Common().Args[0].(*ssa.IndexAddr)
	okArgs := okI && onRev(infoAddr.X) && strings.HasSuffix(accessPath(infoAddr.X), ".InfoFields") &&
		onRev(infoAddr.Index) && strings.HasSuffix(accessPath(stripConv(infoAddr.Index)), ".PathMeta.CurrINF")
	var hopIdx ssa.Value
	if okArgs {
		// second argument: load of <hop>.Mac where hop = rev.HopFields[CurrHF]
		mac := upd.Common().Args[1]
		leaves := v.Leaves(mac, 1)
		foundHF := false
		for l := range leaves {
			if strings.Contains(l, ".HopFields[") && strings.Contains(l, ".PathMeta.CurrHF") {
				foundHF = true
			}
		}
		okArgs = foundHF
		// locate the HopFields index expression
		for _, b := range fn.Blocks {
			for _, in := range b.Instrs {
				if ia, ok := in.(*ssa.IndexAddr); ok && onRev(ia.X) && strings.HasSuffix(accessPath(ia.X), ".HopFields") {
					hopIdx = ia.Index
				}
			}
		}
	}
	c.Check(okArgs, rule, v.Name()+":segid-update-operands", upd.Pos(),
		"UpdateSegID(&revPath.InfoFields[revPath.PathMeta.CurrINF], revPath.HopFields[revPath.PathMeta.CurrHF].Mac)")
	if okArgs {
		consDir := Guard{Name: "infoField.ConsDir", Match: func(l Lit) bool {
			if l.Kind != "true" || !l.Pos {
				return false
			}
			ld, ok := l.X.(*ssa.UnOp)
			if !ok {
				return false
			}
			fa, ok := ld.X.(*ssa.FieldAddr)
			return ok && fa.X == ssa.Value(infoAddr) && fieldName(fa.X.Type(), fa.Field) == "ConsDir"
		}}
		e.Require(rule, "segid-update", nil, []ssa.Instruction{upd}, gExt, consDir, gNotPeer)
		// ordering: the selection of info/hop field happens after the revert, the advance after the update
		okOrder := true
		why := ""
		for _, idx := range []ssa.Value{infoAddr.Index, hopIdx} {
			in, ok := stripConv(idx).(ssa.Instruction)
			if !ok {
				continue
			}
			if reachesBlock(in.Block(), revert.Block()) || (in.Block() == revert.Block() && instrIndex(in) < instrIndex(revert)) {
				okOrder = false
				why = "CurrINF/CurrHF is read at " + c.Prog.Pos(in.Pos()) + ", from where the cross-over revert at " +
					c.Prog.Pos(revert.Pos()) + " can still execute"
			}
		}
		if reachesBlock(advance.Block(), upd.Block()) {
			okOrder = false
			why = "the path is advanced before the SegID update"
		}
		c.Check(okOrder, rule, v.Name()+":field-selection-after-revert", upd.Pos(),
			"info and hop field for the SegID update are selected after the cross-over revert, the path is advanced afterwards; "+why)
	}
	// R2: addressing of the reply
	rule = "R2-reply-addressing"
	v.RequireStore(rule, 1, "local:scionL.DstIA", "recv.scionLayer.SrcIA")
	v.RequireStore(rule, 1, "local:scionL.SrcIA", "recv.d.localIA")
	v.RequireStore(rule, 1, "local:scionL.DstAddrType", "recv.scionLayer.SrcAddrType")
	v.RequireStore(rule, 1, "local:scionL.RawDstAddr", "recv.scionLayer.RawSrcAddr")
	v.RequireCallArgs(rule, 1, "(*pkg/slayers.SCION).SetSrcAddr", "local:scionL", "recv.d.localHost")
	okPath := false
	for _, st := range v.Stores("local:scionL.Path") {
		if mi, ok := st.In.Val.(*ssa.MakeInterface); ok && mi.X == ssa.Value(rev) {
			okPath = true
		}
	}
	c.Check(okPath, rule, v.Name()+":reply-path", fn.Pos(), "scionL.Path = revPath")
	// the reply leaves on the link the packet came in on
	if sv := c.View("(*router.dataPlane).runSlowPathProcessor"); sv != nil {
		calls := sv.Calls("invoke:router.Link.Send*")
		ok := len(calls) >= 1
		for _, ci := range calls {
			ok = ok && strings.HasSuffix(ci.Args[0], ".Link") && len(ci.Args) > 1 && strings.HasPrefix(ci.Args[0], strings.TrimSuffix(ci.Args[1], ""))
		}
		c.Check(ok, rule, sv.Name()+":sent-on-ingress-link", sv.Fn.Pos(), fmt.Sprintf("%d send(s) of the processed packet on its own Link", len(calls)))
	}
}
