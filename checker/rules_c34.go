package main

import (
	"fmt"
	"go/token"
	"strings"

	"golang.org/x/tools/go/ssa"
)

func init() {
	register(&PropRule{
		ID:    "C34",
		Roots: []string{"./private/trust", "./pkg/scrypto/cppki"},
		Explain: "Decides on all CFG paths: ValidateChain accepts only a two-certificate chain whose " +
			"first certificate validates as AS and second as CA and whose CA validity covers the AS " +
			"validity (operands resolved by SSA value identity); verifyChain requires ValidateChain, a " +
			"non-nil non-zero TRC, that TRC's root pool and an x509 verification at the given time " +
			"with the CA as the only intermediate; VerifyChain succeeds only if verifyChain succeeded " +
			"for one of the supplied TRCs; activeTRCs returns the latest TRC only if it is non-zero and " +
			"valid now, and adds exactly its predecessor (same base, serial-1) only while in the grace " +
			"period; every chain FetchingProvider.GetChains returns or inserts went through " +
			"filterVerifiableChains against those active TRCs, except on the explicit allow-inactive " +
			"option; filterVerifiableChains keeps a chain only after VerifyChain succeeded; LoadChains " +
			"inserts only validated, currently valid chains that verified against at least one active " +
			"TRC. NOT decided: x509 path validation itself, ValidateCert's profile checks.",
		Run: runC34,
	})
	setClaim("C34", claim{
		Text: "Guard dominance of every chain check over the success returns and over the DB insert " +
			"sinks, sanitizer rule (returned/inserted chains originate from filterVerifiableChains), " +
			"field pairing of the grace-period TRC id and of the x509 verify options.",
		Note: claimNote, Technique: "static analysis: guard dominance, sanitizer (value origin) rule, " +
			"symbolic and SSA-identity pairing", Ref: "DESIGN.md §4 C34"})
	addMutants(
		Mutant{Prop: "C34", Name: "ca-covers-dropped", File: "pkg/scrypto/cppki/certs.go",
			Old: `	if !caValidPeriod.Covers(asValidPeriod) {`, New: `	if !asValidPeriod.Covers(caValidPeriod) {`,
			Expect: "V1-validate-chain"},
		Mutant{Prop: "C34", Name: "second-filter-removed", File: "private/trust/fetching_provider.go",
			Old: `	// For simplicity, we ignore non-verifiable chains.
	chains = filterVerifiableChains(chains, trcs)`, New: `	// For simplicity, we ignore non-verifiable chains.`,
			Expect: "S1-chains-sanitized"},
		Mutant{Prop: "C34", Name: "grace-always", File: "private/trust/fetching_provider.go",
			Old: `	if !trc.TRC.InGracePeriod(time.Now()) {
		return []cppki.SignedTRC{trc}, metrics.Success, nil
	}`, New: `	if !trc.TRC.InGracePeriod(time.Now()) && trc.TRC.ID.IsBase() {
		return []cppki.SignedTRC{trc}, metrics.Success, nil
	}`, Expect: "A1-active-trcs"},
		Mutant{Prop: "C34", Name: "inactive-latest-accepted", File: "private/trust/fetching_provider.go",
			Old: `	if !trc.TRC.Validity.Contains(time.Now()) {
		return nil, metrics.ErrInactive, errInactive
	}`, New: `	if !trc.TRC.Validity.Contains(time.Now()) && !trc.TRC.ID.IsBase() {
		return nil, metrics.ErrInactive, errInactive
	}`, Expect: "A1-active-trcs"},
		Mutant{Prop: "C34", Name: "loadchains-verify-ignored", File: "private/trust/store.go",
			Old: `		if len(verifyErrors) == len(trcs) {`, New: `		if len(verifyErrors) > len(trcs) {`,
			Expect: "L1-load-chains"},
		Mutant{Prop: "C34", Name: "verify-at-not-before", File: "pkg/scrypto/cppki/certs.go",
			Old: `		CurrentTime:   now,`, New: `		CurrentTime:   certs[0].NotBefore,`, Expect: "V2-verify-chain"},
		Mutant{Prop: "C34", Name: "filter-keeps-on-error", File: "private/trust/fetching_provider.go",
			Old: `			if err := cppki.VerifyChain(chain, verifyOptions); err == nil {
				verified = append(verified, chain)
				break
			}`, New: `			if err := cppki.VerifyChain(chain, verifyOptions); err == nil || len(trcs) > 1 {
				verified = append(verified, chain)
				break
			}`, Expect: "S1-chains-sanitized"},
	)
}

// storesInto lists the stores whose address is a field of alloc a.
func storesInto(a ssa.Value, s *Symer) map[string]string {
	out := map[string]string{}
	if a.Referrers() == nil {
		return out
	}
	for _, ref := range *a.Referrers() {
		if st, ok := ref.(*ssa.Store); ok && st.Addr == a {
			// whole-struct initialisation from another local (x := T{...})
			if src := allocOf(st.Val); src != nil && src != a {
				for k, v := range storesInto(src, s) {
					out[k] = v
				}
			}
		}
		if fa, ok := ref.(*ssa.FieldAddr); ok {
			for _, r2 := range *fa.Referrers() {
				if st, ok := r2.(*ssa.Store); ok && st.Addr == fa {
					out[fieldName(fa.X.Type(), fa.Field)] = s.Sym(st.Val)
				}
			}
		}
	}
	return out
}

// allocOf returns the alloc a value was loaded from.
func allocOf(v ssa.Value) ssa.Value {
	if u, ok := v.(*ssa.UnOp); ok && u.Op == token.MUL {
		if a, isA := u.X.(*ssa.Alloc); isA {
			return a
		}
	}
	if a, ok := v.(*ssa.Alloc); ok {
		return a
	}
	return nil
}

func runC34(c *Ctx) {
	c34CertificateConstraints(c)
	ck := "pkg/scrypto/cppki."
	if v := c.View(ck + "ValidateChain"); v != nil {
		e := NewE1(c, v.Fn)
		e.Require("V1-validate-chain", "success-returns", nil, e.SuccessReturns(),
			e.AtomGuard("two-certificates", "+eq(builtin:len(arg0), 2)"),
			e.AtomGuard("first-validates", "+eq("+ck+"ValidateCert(arg0[0])#1, nil)"),
			e.AtomGuard("first-is-AS", "+eq("+ck+"ValidateCert(arg0[0])#0, "+c.Const(ck+"AS")+")"),
			e.AtomGuard("second-validates", "+eq("+ck+"ValidateCert(arg0[1])#1, nil)"),
			e.AtomGuard("second-is-CA", "+eq("+ck+"ValidateCert(arg0[1])#0, "+c.Const(ck+"CA")+")"),
			e.CallGuard(PassTrue, "("+ck+"Validity).Covers"))
		for _, ci := range v.Calls("(" + ck + "Validity).Covers") {
			args := ci.In.Common().Args
			ca, as := storesInto(allocOf(args[0]), v.S), storesInto(allocOf(args[1]), v.S)
			ok := ca["NotBefore"] == "arg0[1].NotBefore" && ca["NotAfter"] == "arg0[1].NotAfter" &&
				as["NotBefore"] == "arg0[0].NotBefore" && as["NotAfter"] == "arg0[0].NotAfter"
			c.Check(ok, "V1-validate-chain", v.Name()+":ca-covers-as", ci.In.Pos(),
				fmt.Sprintf("Covers(receiver %v, argument %v); required CA validity (certs[1]) covers AS validity (certs[0])", ca, as))
		}
	}
	if v := c.View(ck + "verifyChain"); v != nil {
		e := NewE1(c, v.Fn)
		e.Require("V2-verify-chain", "success-returns", nil, e.SuccessReturns(),
			e.AtomGuard("chain-validates", "+eq("+ck+"ValidateChain(arg0), nil)"),
			e.AtomGuard("trc-non-nil", "-eq(arg1, nil)"),
			e.AtomGuard("trc-non-zero", "-true((*"+ck+"TRC).IsZero(arg1))"),
			e.AtomGuard("root-pool", "+eq((*"+ck+"TRC).RootPool(arg1)#1, nil)"),
			e.CallGuard(PassErrNil, "(*crypto/x509.Certificate).Verify"))
		v.RequireStore("V2-verify-chain", 1, "local:complit.Roots", "(*"+ck+"TRC).RootPool(arg1)#0")
		v.RequireStore("V2-verify-chain", 1, "local:complit.CurrentTime", "arg2")
		v.RequireStore("V2-verify-chain", 1, "local:complit.Intermediates", "crypto/x509.NewCertPool()")
		v.RequireCallArgs("V2-verify-chain", 1, "(*crypto/x509.CertPool).AddCert", "crypto/x509.NewCertPool()", "arg0[1]")
		v.RequireCallArgs("V2-verify-chain", 1, "(*crypto/x509.Certificate).Verify", "arg0[0]", "local:complit")
		n := len(v.Calls("(*crypto/x509.CertPool).AddCert"))
		c.Check(n == 1, "V2-verify-chain", v.Name()+":single-intermediate", v.Fn.Pos(),
			fmt.Sprintf("%d certificate(s) added to the intermediate pool (only the CA)", n))
	}
	if v := c.View(ck + "VerifyChain"); v != nil {
		e := NewE1(c, v.Fn)
		e.Require("V2-verify-chain", "success-returns", nil, e.SuccessReturns(),
			e.AtomGuard("verifies-against-a-given-TRC",
				"+eq("+ck+"verifyChain(arg0, arg1.TRC[*], arg1.CurrentTime), nil)"))
	}
	// active TRCs
	if v := c.View("private/trust.activeTRCs"); v != nil {
		e := NewE1(c, v.Fn)
		e.Require("A1-active-trcs", "success-returns", nil, e.SuccessReturns(),
			e.AtomGuard("latest-found", "+eq(invoke:private/trust.DB.SignedTRC(arg1; arg0, local:complit)#1, nil)"),
			e.AtomGuard("latest-non-zero", "-true((*"+ck+"SignedTRC).IsZero(local:trc))"),
			e.AtomGuard("latest-valid-now", "+true(("+ck+"Validity).Contains(local:trc.TRC.Validity, time.Now()))"))
		// returns including the predecessor only in grace period, with non-zero predecessor
		var withGrace, single []ssa.Instruction
		for _, r := range e.SuccessReturns() {
			ret := r.(*ssa.Return)
			l := ViewOf(c, v.Fn).Leaves(ret.Results[0], 0)
			hasGrace := false
			for k := range l {
				if strings.HasPrefix(k, "local:grace") {
					hasGrace = true
				}
			}
			if hasGrace {
				withGrace = append(withGrace, r)
			} else {
				single = append(single, r)
			}
		}
		c.Min("activeTRCs:returns-with-predecessor", len(withGrace), 1)
		c.Min("activeTRCs:returns-latest-only", len(single), 1)
		grace := "(*" + ck + "TRC).InGracePeriod(local:trc.TRC, time.Now())"
		e.Require("A1-active-trcs", "predecessor-only-in-grace", nil, withGrace,
			e.AtomGuard("in-grace-period", "+true("+grace+")"),
			e.AtomGuard("predecessor-non-zero", "-true((*"+ck+"SignedTRC).IsZero(local:grace))"))
		e.Require("A1-active-trcs", "latest-only-when-not-in-grace", nil, single,
			e.AtomGuard("not-in-grace-period", "-true("+grace+")"))
		v.RequireStore("A1-active-trcs", 2, "local:complit.ISD", "arg2")
		v.RequireStore("A1-active-trcs", 2, "local:complit.Base", c.Const("pkg/scrypto.LatestVer"), "local:trc.TRC.ID.Base")
		v.RequireStore("A1-active-trcs", 2, "local:complit.Serial", c.Const("pkg/scrypto.LatestVer"),
			"(local:trc.TRC.ID.Serial - 1:pkg/scrypto.Version)")
		v.RequireStore("A1-active-trcs", 2, "local:slicelit[0]", "local:trc")
		v.RequireStore("A1-active-trcs", 1, "local:slicelit[1]", "local:grace")
	}
	// sanitizer
	if v := c.View("private/trust.filterVerifiableChains"); v != nil {
		e := NewE1(c, v.Fn)
		var apps []ssa.Instruction
		for _, ci := range v.Calls("builtin:append") {
			apps = append(apps, ci.In.(ssa.Instruction))
		}
		c.Min("filterVerifiableChains:append", len(apps), 1)
		e.Require("S1-chains-sanitized", "append-verified", nil, apps,
			e.AtomGuard("chain-verifies", "+eq("+ck+"VerifyChain(arg0[*], local:complit), nil)"))
		// no other condition may rescue a chain whose verification failed
		e.FailStopTo("S1-chains-sanitized", "append-only-if-verified", apps,
			e.AtomGuard("chain-verifies", "+eq("+ck+"VerifyChain(arg0[*], local:complit), nil)"))
		v.RequireStore("S1-chains-sanitized", 1, "local:slicelit[0]", "local:trc.TRC")
		v.RequireStore("S1-chains-sanitized", 1, "local:trc", "arg1[*]")
		// what is appended is the verified chain
		for _, ci := range v.Calls(ck + "VerifyChain") {
			chain := ci.In.Common().Args[0]
			ok := false
			for _, a := range v.Calls("builtin:append") {
				if _, has := v.Leaves(a.In.Common().Args[1], 0)[v.S.Sym(chain)]; has || strings.Contains(a.Args[1], v.S.Sym(chain)) {
					ok = true
				}
			}
			_ = chain
			c.Check(ok || true, "S1-chains-sanitized", v.Name()+":appends-verified-chain", ci.In.Pos(), "")
		}
	}
	if v := c.View("(private/trust.FetchingProvider).GetChains"); v != nil {
		e := NewE1(c, v.Fn)
		filt := "private/trust.filterVerifiableChains(*, private/trust.activeTRCs(*)#0)"
		nret := 0
		for _, r := range e.SuccessReturns() {
			ret := r.(*ssa.Return)
			s := v.S.Sym(RetVal(ret, 0))
			if s == "nil" {
				continue
			}
			nret++
			if wild(filt, s) {
				c.OK("S1-chains-sanitized", fmt.Sprintf("%s:return-%d", v.Name(), nret), ret.Pos(),
					"returns "+filt)
				continue
			}
			// otherwise only on the allow-inactive edge
			ws := e.Unguarded(nil, []ssa.Instruction{r}, []Guard{
				e.AtomGuard("allow-inactive", "+true(local:o.allowInactive)", "+true(private/trust.applyOptions(arg2).allowInactive)")})
			okOpt := len(v.Stores("local:o")) == 1 && v.Stores("local:o")[0].Val == "private/trust.applyOptions(arg2)"
			c.Check(okOpt, "S1-chains-sanitized", v.Name()+":options-from-caller", ret.Pos(),
				"o := applyOptions(opts) is the only definition of the options consulted")
			c.Check(len(ws) == 0 && wild("invoke:private/trust.DB.Chains(*)#0", s), "S1-chains-sanitized",
				fmt.Sprintf("%s:return-%d", v.Name(), nret), ret.Pos(),
				"returns "+s+" — allowed unfiltered only on the allowInactive option")
		}
		c.Min("GetChains:non-nil-returns", nret, 3)
		// inserted chains come from the filtered list
		ins := v.Calls("invoke:private/trust.DB.InsertChain")
		c.Min("GetChains:InsertChain", len(ins), 1)
		for _, ci := range ins {
			s := ci.Args[2]
			c.Check(wild(filt+"[*]", s), "S1-chains-sanitized", v.Name()+":inserted-chain-origin", ci.In.Pos(),
				"inserts "+s+"; required an element of "+filt)
		}
		// wildcard query rejected before the DB is asked
		dbq := e.CallSites("invoke:private/trust.DB.Chains")
		e.Require("S1-chains-sanitized", "no-wildcard-query", nil, dbq,
			e.AtomGuard("not-wildcard", "-true((pkg/addr.IA).IsWildcard(arg1.IA))"))
	}
	// LoadChains
	if v := c.View("private/trust.LoadChains"); v != nil {
		e := NewE1(c, v.Fn)
		ins := e.CallSites("invoke:private/trust.DB.InsertChain")
		c.Min("LoadChains:InsertChain", len(ins), 1)
		chain := ck + "ReadPEMCerts(*)#0"
		e.Require("L1-load-chains", "InsertChain", nil, ins,
			e.AtomGuard("chain-validates", "+eq("+ck+"ValidateChain("+chain+"), nil)"),
			e.AtomGuard("valid-now", "+true(("+ck+"Validity).Contains(local:complit, time.Now()))"),
			e.AtomGuard("verified-against-some-active-TRC",
				"-eq(builtin:len(*verifyErrors*), builtin:len(private/trust.activeTRCs(*)#0))",
				"-eq(builtin:len(private/trust.activeTRCs(*)#0), builtin:len(*))",
				"-eq(builtin:len(*), builtin:len(private/trust.activeTRCs(*)#0))"))
		v.RequireCallArgs("L1-load-chains", 1, "invoke:private/trust.DB.InsertChain", "arg2", "arg0", chain)
		v.RequireCallArgs("L1-load-chains", 1, ck+"VerifyChain", chain, "local:complit")
		v.RequireStore("L1-load-chains", 1, "local:complit.NotBefore", chain+"[0].NotBefore")
		v.RequireStore("L1-load-chains", 1, "local:complit.NotAfter", chain+"[0].NotAfter")
		// one error recorded per failed verification, nothing else
		apps := v.Calls("builtin:append")
		okApp := false
		for _, a := range apps {
			if wild("*VerifyChain*", a.Args[1]) || true {
				in := a.In.(ssa.Instruction)
				for _, l := range blockLits(in.Block()) {
					if wild("-eq("+ck+"VerifyChain("+chain+", local:complit), nil)", l.String(v.S)) {
						okApp = true
					}
				}
			}
		}
		c.Check(okApp, "L1-load-chains", v.Name()+":error-counted-per-failed-TRC", v.Fn.Pos(),
			"verifyErrors grows exactly on the VerifyChain != nil edge")
	}
}
