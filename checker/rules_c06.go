package main

import "fmt"

func linkTypeDom() []string {
	return []string{"0:private/topology.LinkType", "1:private/topology.LinkType",
		"2:private/topology.LinkType", "3:private/topology.LinkType", "4:private/topology.LinkType"}
}

const (
	ltUnset  = "0:private/topology.LinkType"
	ltCore   = "1:private/topology.LinkType"
	ltParent = "2:private/topology.LinkType"
	ltChild  = "3:private/topology.LinkType"
	ltPeer   = "4:private/topology.LinkType"
)

func scopeDom() []string {
	return []string{"0:router.LinkScope", "1:router.LinkScope", "2:router.LinkScope"}
}

func init() {
	register(&PropRule{
		ID:    "C06",
		Roots: []string{"./router/..."},
		Explain: "Decides the complete decision table of validateEgressID (1200 cells over ingress " +
			"internal/external, egress link known, egress scope, ingress and egress link type in " +
			"{unset,core,parent,child,peer}, effective cross-over, construction direction) against " +
			"the link-type table of the property, including SCMP code and pointer of every " +
			"rejecting cell; on all CFG paths of process() the check precedes every non-local " +
			"forwarding return and follows egress selection; the configured LinkTo is what is " +
			"stored in linkTypes[]; LinkType text (un)marshalling are inverse tables. NOT " +
			"decided: that the topology file names the right type.",
		Run: runC06,
	})
	setClaim("C06", claim{
		Text: "Exhaustive decision table of validateEgressID (every abstract input vector, by " +
			"conditional constant propagation over its SSA) equals the specification table; guard " +
			"dominance of that check over every non-local forwarding return; configuration pairing.",
		Note: claimNote, Technique: "static analysis: decision-table extraction + guard dominance + " +
			"symbolic store pairing", Ref: "DESIGN.md §4 C06, Appendix A.2"})
	addMutants(
		Mutant{Prop: "C06", Name: "parent-to-parent", File: "router/dataplane.go",
			Old: `		case ingressLT == topology.Peer && egressLT == topology.Child:
			return pForward`,
			New: `		case ingressLT == topology.Peer && egressLT == topology.Child:
			return pForward
		case ingressLT == topology.Parent && egressLT == topology.Parent:
			return pForward`, Expect: "T1-link-type-table"},
		Mutant{Prop: "C06", Name: "xover-core-core", File: "router/dataplane.go",
			Old:    `	case ingressLT == topology.Core && egressLT == topology.Child:`,
			New:    `	case ingressLT == topology.Core && (egressLT == topology.Child || egressLT == topology.Core):`,
			Expect: "T1-link-type-table"},
		Mutant{Prop: "C06", Name: "sibling-egress-from-internal", File: "router/dataplane.go",
			Old:    `if egressLink == nil || (p.ingressFromLink == 0 && egressLink.Scope() == Sibling) {`,
			New:    `if egressLink == nil || (p.ingressFromLink == 0 && egressLink.Scope() == Sibling && !p.effectiveXover) {`,
			Expect: "T1-link-type-table"},
		Mutant{Prop: "C06", Name: "skip-egress-check-external-out", File: "router/dataplane.go",
			Old: `	if disp := p.validateEgressID(); disp != pForward {
		return disp
	}`, New: `	if p.ingressFromLink != 0 || p.path.IsFirstHop() {
		if disp := p.validateEgressID(); disp != pForward {
			return disp
		}
	}`, Expect: "G1-egress-check-before-forward"},
		Mutant{Prop: "C06", Name: "linktype-from-other-field", File: "router/dataplane.go",
			Old: `	d.linkTypes[ifID] = link.LinkTo

	iMetrics := newInterfaceMetrics(d.Metrics, ifID, d.localIA, "", d.neighborIAs[ifID])`,
			New: `	d.linkTypes[ifID] = topology.Core

	iMetrics := newInterfaceMetrics(d.Metrics, ifID, d.localIA, "", d.neighborIAs[ifID])`,
			Expect: "P1-configured-linktype"},
		Mutant{Prop: "C06", Name: "unmarshal-peer-as-child", File: "private/topology/linktype.go",
			Old: `	case "peer":
		*l = Peer`, New: `	case "peer":
		*l = Child`, Expect: "T2-linktype-text"},
	)
}

func runC06(c *Ctx) {
	c06LinkScopes(c)
	procStateFresh(c, "S1-per-packet-state")
	peeringKnownBeforeUse(c, "O1-peering-known-before-use")
	pp := "4:router.slowPathType"
	unkIn := c.Const("pkg/slayers.SCMPCodeUnknownHopFieldIngress")
	unkEg := c.Const("pkg/slayers.SCMPCodeUnknownHopFieldEgress")
	invPath := c.Const("pkg/slayers.SCMPCodeInvalidPath")
	invSeg := c.Const("pkg/slayers.SCMPCodeInvalidSegmentChange")
	hopPtr := "sym:" + procT + ".currentHopPointer(recv)"
	infPtr := "sym:" + procT + ".currentInfoPointer(recv)"
	if fn := c.Fn(procT + ".validateEgressID"); fn != nil {
		RunTable(c, &TableSpec{
			Rule: "T1-link-type-table", Fn: fn,
			NoInline: append([]string{procT + ".currentHopPointer", procT + ".currentInfoPointer"},
				noInlineDefault...),
			Atoms: []Atom{
				{Name: "internal", Pats: []string{"(recv.ingressFromLink == 0)"}, Domain: boolDom()},
				{Name: "egressNil", Pats: []string{"(recv.d.interfaces[recv.pkt.egress] == nil)"},
					Domain: boolDom()},
				{Name: "scope", Pats: []string{"invoke:router.Link.Scope(recv.d.interfaces[recv.pkt.egress]; )"},
					Domain: scopeDom()},
				{Name: "inLT", Pats: []string{"recv.d.linkTypes[recv.ingressFromLink]"}, Domain: linkTypeDom()},
				{Name: "egLT", Pats: []string{"recv.d.linkTypes[recv.pkt.egress]"}, Domain: linkTypeDom()},
				{Name: "xover", Pats: []string{"recv.effectiveXover"}, Domain: boolDom()},
				{Name: "consDir", Pats: []string{"recv.infoField.ConsDir"}, Domain: boolDom()},
			},
			Effects: []string{"local:complit.*"},
			Oracle: func(a map[string]string) map[string]string {
				internal := a["internal"] == "true"
				if internal && a["inLT"] != ltUnset {
					return nil // interface 0 has no link type
				}
				rej := func(code, ptr string) map[string]string {
					return map[string]string{"ret": dispSlow, "local:complit.spType": pp,
						"local:complit.code": code, "local:complit.pointer": ptr}
				}
				if a["egressNil"] == "true" || (internal && a["scope"] == "1:router.LinkScope") {
					if a["consDir"] == "true" {
						return rej(unkEg, hopPtr)
					}
					return rej(unkIn, hopPtr)
				}
				ok := map[string]string{"ret": dispForward, "local:complit.code": ""}
				in, eg := a["inLT"], a["egLT"]
				if a["xover"] == "false" {
					if internal {
						return ok
					}
					switch {
					case in == ltCore && eg == ltCore, in == ltChild && eg == ltParent,
						in == ltParent && eg == ltChild, in == ltChild && eg == ltPeer,
						in == ltPeer && eg == ltChild:
						return ok
					}
					return rej(invPath, hopPtr)
				}
				switch {
				case in == ltCore && eg == ltChild, in == ltChild && eg == ltCore,
					in == ltChild && eg == ltChild:
					return ok
				}
				return rej(invSeg, infPtr)
			},
		})
	}
	if fn := c.Fn(procT + ".process"); fn != nil {
		e := NewE1(c, fn)
		// the non-local forwarding returns are those after egress selection
		eg := e.CallSites(procT + ".egressInterface")
		c.Min("process:calls-egressInterface", len(eg), 1)
		sinks := e.SuccessReturns()
		for _, x := range eg {
			e.Require("G1-egress-check-before-forward", "after-egress-selection", x, sinks,
				e.CallGuard(PassFwd, procT+".validateEgressID"))
		}
		// pkt.egress is assigned from egressInterface() before the check
		v := ViewOf(c, fn)
		v.RequireStore("G1-egress-check-before-forward", 1, "recv.pkt.egress",
			procT+".egressInterface(recv)")
		sts := v.Stores("recv.pkt.egress")
		chk := e.CallSites(procT + ".validateEgressID")
		ok := len(sts) > 0 && len(chk) > 0
		for _, ck := range chk {
			dom := false
			for _, st := range sts {
				if instrDominates(st.In, ck) {
					dom = true
				}
			}
			ok = ok && dom
		}
		c.Check(ok, "G1-egress-check-before-forward", FuncName(fn)+":egress-assigned-before-check",
			fn.Pos(), "store to pkt.egress dominates validateEgressID()")
	}
	// configuration pairing
	for _, q := range []string{"(*router.dataPlane).AddExternalInterface", "(*router.dataPlane).AddNextHop"} {
		if v := c.View(q); v != nil {
			v.RequireStore("P1-configured-linktype", 1, "recv.linkTypes[arg0]", "arg1.LinkTo")
		}
	}
	// text tables
	names := map[string]string{ltCore: `"core"`, ltParent: `"parent"`, ltChild: `"child"`, ltPeer: `"peer"`}
	if fn := c.Fn("(private/topology.LinkType).MarshalText"); fn != nil {
		RunTable(c, &TableSpec{Rule: "T2-linktype-text", Fn: fn, NoInline: noInlineDefault,
			Atoms: []Atom{{Name: "l", Pats: []string{"recv"}, Domain: linkTypeDom()}},
			Oracle: func(a map[string]string) map[string]string {
				if n, ok := names[a["l"]]; ok {
					return map[string]string{"ret0": fmt.Sprintf("sym:[]byte(%s)", n), "ret1": "nil"}
				}
				return map[string]string{"ret0": "nil", "ret1": "sym:*"}
			}})
	}
	if fn := c.Fn("(*private/topology.LinkType).UnmarshalText"); fn != nil {
		RunTable(c, &TableSpec{Rule: "T2-linktype-text", Fn: fn, NoInline: noInlineDefault,
			Atoms: []Atom{{Name: "s", Pats: []string{"strings.ToLower(string(arg0))"},
				Domain: []string{`"core"`, `"parent"`, `"child"`, `"peer"`, `"other"`}}},
			Effects: []string{"recv"},
			Oracle: func(a map[string]string) map[string]string {
				for lt, n := range names {
					if n == a["s"] {
						return map[string]string{"ret": "nil", "recv": lt}
					}
				}
				return map[string]string{"ret": "sym:*", "recv": ""}
			}})
	}
}
