package main

import (
	"fmt"
	"go/token"
	"sort"
	"strings"

	"golang.org/x/tools/go/ssa"
)

// C31, "for arbitrary lifetimes": the cache decides "unexpired" and "newer" on
// RevInfo.Expiration() and RevInfo.Timestamp(). Both raw values are 32-bit
// seconds; their sum does not fit 32 bits for lifetimes that cross 2^32 s. The
// helpers are right only if every addition / multiplication on the way from the
// raw members to the time.Time happens on 64-bit values.
//
// Rule X1: in Expiration, Timestamp, TTL and the module helpers they call, (a)
// no +, -, * or << is computed at less than 64 bits, (b) no narrowing conversion
// is applied to a value derived from the raw members, (c) Expiration's result is
// computed from both Timestamp() and TTL() (or from both raw members), and TTL's
// from RawTTL, Timestamp's from RawTimestamp.
func init() {
	addMutants(
		Mutant{Prop: "C31", Name: "expiration-summed-in-32-bits", File: "pkg/private/ctrl/path_mgmt/rev_info.go",
			Old: `	return r.Timestamp().Add(r.TTL())`, New: `	return util.SecsToTime(r.RawTimestamp + r.RawTTL)`,
			Expect: "X1-lifetime-arithmetic"},
		Mutant{Prop: "C31", Name: "benign-expiration-summed-in-64-bits", File: "pkg/private/ctrl/path_mgmt/rev_info.go", Benign: true,
			Old: `	return r.Timestamp().Add(r.TTL())`, New: `	return time.Unix(int64(r.RawTimestamp)+int64(r.RawTTL), 0)`},
		Mutant{Prop: "C31", Name: "ttl-multiplied-before-widening", File: "pkg/private/ctrl/path_mgmt/rev_info.go",
			Old: `	return time.Duration(r.RawTTL) * time.Second`, New: `	return time.Duration(r.RawTTL*1000) * time.Millisecond`,
			Expect: "X1-lifetime-arithmetic"},
	)
}

func c31LifetimeArithmetic(c *Ctx) {
	rule := "X1-lifetime-arithmetic"
	rT := "(*pkg/private/ctrl/path_mgmt.RevInfo)"
	var work []*ssa.Function
	seen := map[*ssa.Function]bool{}
	for _, n := range []string{"Expiration", "Timestamp", "TTL"} {
		if fn := c.Fn(rT + "." + n); fn != nil {
			work = append(work, fn)
			seen[fn] = true
		}
	}
	c.Min("revinfo-time-helpers", len(work), 3)
	var bad []string
	nOps := 0
	for len(work) > 0 {
		fn := work[0]
		work = work[1:]
		for _, b := range fn.Blocks {
			for _, in := range b.Instrs {
				switch x := in.(type) {
				case *ssa.BinOp:
					switch x.Op {
					case token.ADD, token.SUB, token.MUL, token.SHL:
						nOps++
						if w, ok := intWidth(x.Type()); ok && w < 64 {
							bad = append(bad, fmt.Sprintf("%s: %s at %d bits", FuncName(fn), x.Op, w))
						}
					}
				case *ssa.Convert:
					wi, okI := intWidth(x.X.Type())
					wo, okO := intWidth(x.Type())
					if okI && okO && wo < wi {
						bad = append(bad, fmt.Sprintf("%s: narrowing conversion to %d bits", FuncName(fn), wo))
					}
				case ssa.CallInstruction:
					if callee := x.Common().StaticCallee(); callee != nil && callee.Pkg != nil &&
						strings.HasPrefix(callee.Pkg.Pkg.Path(), modPath) && !seen[callee] && callee.Blocks != nil {
						seen[callee] = true
						work = append(work, callee)
					}
				}
			}
		}
	}
	sort.Strings(bad)
	c.Check(len(bad) == 0, rule, rT+":64-bit-arithmetic", 0, fmt.Sprintf(
		"%d functions, %d arithmetic operations, all on 64-bit values and no narrowing: %s", len(seen), nOps, strings.Join(truncList(bad, 3), " | ")))
	// what each helper is computed from
	uses := func(fn *ssa.Function, want ...string) []string {
		v := c.View(FuncName(fn))
		var missing []string
		for _, w := range want {
			found := false
			for _, b := range fn.Blocks {
				if ret, ok := b.Instrs[len(b.Instrs)-1].(*ssa.Return); ok {
					for l := range v.Leaves(ret.Results[0], 2) {
						if strings.Contains(l, w) {
							found = true
						}
					}
					if strings.Contains(expandSym(v.S, ret.Results[0], 2), w) {
						found = true
					}
				}
			}
			if !found {
				missing = append(missing, w)
			}
		}
		return missing
	}
	for _, h := range []struct {
		name string
		want []string
	}{{"Timestamp", []string{"recv.RawTimestamp"}}, {"TTL", []string{"recv.RawTTL"}}, {"Expiration", []string{"Timestamp", "TTL"}}} {
		fn := c.Fn(rT + "." + h.name)
		if fn == nil {
			continue
		}
		m := uses(fn, h.want...)
		c.Check(len(m) == 0, rule, FuncName(fn)+":computed-from", fn.Pos(), fmt.Sprintf("the result is computed from %v; not found: %v", h.want, m))
	}
}
