package main

import (
	"bytes"
	"fmt"
	"os"
	"os/exec"
	"path/filepath"
	"sort"
	"strings"
	"sync"
)

// Mutant is one in-memory edit of /repo (applied through packages.Config.Overlay)
// that breaks a property while still compiling. It is evidence about the
// checker, never about /repo.
type Mutant struct {
	Prop   string
	Name   string
	File   string // repo-relative
	Old    string
	New    string
	Expect string // substring that must occur in a reported "rule=… construct=…" line
	// More lists additional edits applied together (two cooperating sites).
	More []Edit
	// Benign marks a behaviour-preserving variant: the check must stay silent on it.
	Benign bool
}

type Edit struct {
	File, Old, New string
}

var mutants []Mutant

func addMutants(ms ...Mutant) { mutants = append(mutants, ms...) }

func mutantsFor(prop string) []Mutant {
	var out []Mutant
	for _, m := range mutants {
		if m.Prop == prop {
			out = append(out, m)
		}
	}
	return out
}

func mutantOverlay(prop, name string) (map[string][]byte, error) {
	for _, m := range mutants {
		if m.Prop != prop || m.Name != name {
			continue
		}
		ov := map[string][]byte{}
		edits := append([]Edit{{m.File, m.Old, m.New}}, m.More...)
		for _, e := range edits {
			abs := filepath.Join(repoDir, e.File)
			src, ok := ov[abs]
			if !ok {
				var err error
				src, err = os.ReadFile(abs)
				if err != nil {
					return nil, err
				}
			}
			if bytes.Count(src, []byte(e.Old)) != 1 {
				return nil, fmt.Errorf("inapplicable: anchor text occurs %d times in %s",
					bytes.Count(src, []byte(e.Old)), e.File)
			}
			ov[abs] = bytes.Replace(src, []byte(e.Old), []byte(e.New), 1)
		}
		return ov, nil
	}
	return nil, fmt.Errorf("no such mutant %s/%s", prop, name)
}

type MutantResult struct {
	Name     string `json:"name"`
	Outcome  string `json:"outcome"` // killed | unkilled | inapplicable | wrong-report | broken | silent | false-alarm
	Expected string `json:"expected"`
	Reported string `json:"reported,omitempty"`
}

// runMutants runs every mutant of prop in a subprocess of this binary.
func runMutants(prop, verif string) []MutantResult {
	ms := mutantsFor(prop)
	res := make([]MutantResult, len(ms))
	self, _ := os.Executable()
	sem := make(chan struct{}, 5)
	var wg sync.WaitGroup
	for i, m := range ms {
		wg.Add(1)
		go func(i int, m Mutant) {
			defer wg.Done()
			sem <- struct{}{}
			defer func() { <-sem }()
			cmd := exec.Command(self, "-prop", prop, "-mutant", m.Name, "-no-evidence",
				"-tier", "quick", "-verif", verif, "-repo", repoDir)
			out, err := cmd.CombinedOutput()
			r := MutantResult{Name: m.Name, Expected: m.Expect}
			code := 0
			if ee, ok := err.(*exec.ExitError); ok {
				code = ee.ExitCode()
			} else if err != nil {
				code = -1
			}
			var reports []string
			for _, line := range strings.Split(string(out), "\n") {
				t := strings.TrimSpace(line)
				if strings.HasPrefix(t, "VIOLATED:") || strings.HasPrefix(t, "UNDECIDED:") {
					reports = append(reports, t)
				}
			}
			switch {
			case code == 3:
				r.Outcome = "inapplicable"
			case m.Benign && code == 0:
				r.Outcome = "silent"
				r.Expected = "(benign variant: no report)"
			case m.Benign && code == 1:
				r.Outcome = "false-alarm"
				r.Expected = "(benign variant: no report)"
				if len(reports) > 0 {
					r.Reported = reports[0]
				}
			case code == 0:
				r.Outcome = "unkilled"
			case code == 1:
				r.Outcome = "wrong-report"
				for _, rep := range reports {
					if strings.Contains(rep, m.Expect) {
						r.Outcome = "killed"
						r.Reported = rep
						break
					}
				}
				if r.Outcome != "killed" {
					if len(reports) > 0 {
						r.Reported = reports[0]
					} else {
						r.Reported = lastLines(string(out), 3)
						r.Outcome = "broken"
					}
				}
			default:
				r.Outcome = "broken"
				r.Reported = lastLines(string(out), 3)
			}
			res[i] = r
		}(i, m)
	}
	wg.Wait()
	sort.Slice(res, func(i, j int) bool { return res[i].Name < res[j].Name })
	return res
}

func lastLines(s string, n int) string {
	ls := strings.Split(strings.TrimSpace(s), "\n")
	if len(ls) > n {
		ls = ls[len(ls)-n:]
	}
	return strings.Join(ls, " | ")
}

func runSelfTest(prop, verif string) int {
	res := runMutants(prop, verif)
	bad := 0
	for _, r := range res {
		fmt.Printf("mutant %-40s %-12s expect=%q %s\n", r.Name, r.Outcome, r.Expected, r.Reported)
		if r.Outcome != "killed" && r.Outcome != "inapplicable" && r.Outcome != "silent" {
			bad++
		}
	}
	fmt.Printf("selftest %s: %d mutants, %d not killed\n", prop, len(res), bad)
	if bad > 0 {
		return 1
	}
	return 0
}
