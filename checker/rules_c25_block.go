package main

import (
	"fmt"

	"golang.org/x/tools/go/ssa"
)

// C25, the block lists of a policy filter: Filter.Apply accepts a beacon only if
// no hop's AS number is in AsBlackList and no hop's ISD is in IsdBlackList. The
// two lists are independent: an empty AS list says nothing about the ISD list.
//
// Rule B1: in Filter.Apply (a) a hop whose AS equals an entry of AsBlackList, or
// whose ISD equals an entry of IsdBlackList, never leads to the successful return
// (fail-stop); (b) both comparisons are made for every entry of their list
// (index from 0 in steps of 1, no way round the inner loop avoids the
// comparison), for every hop (no way round the hop loop avoids either inner
// loop); (c) the successful return is reached only through the hop loop.
func init() {
	addMutants(
		Mutant{Prop: "C25", Name: "isd-block-list-skipped-when-as-list-empty", File: "control/beacon/policy.go",
			Old: `	for _, ia := range hops {
		for _, as := range f.AsBlackList {`, New: `	if len(f.AsBlackList) == 0 {
		return nil
	}
	for _, ia := range hops {
		for _, as := range f.AsBlackList {`, Expect: "B1-block-lists"},
		Mutant{Prop: "C25", Name: "isd-block-list-first-entry-only", File: "control/beacon/policy.go",
			Old: `			if ia.ISD() == isd {
				return serrors.New("contains blocked ISD", "isd_as", ia)
			}`, New: `			if ia.ISD() == isd {
				return serrors.New("contains blocked ISD", "isd_as", ia)
			}
			break`, Expect: "B1-block-lists"},
	)
}

func c25BlockLists(c *Ctx) {
	rule := "B1-block-lists"
	v := c.View("(control/beacon.Filter).Apply")
	if v == nil {
		return
	}
	fn := v.Fn
	e := NewE1(c, fn)
	succ := map[*ssa.BasicBlock]bool{}
	for _, r := range e.SuccessReturns() {
		succ[r.Block()] = true
	}
	type list struct{ name, eqPat, member string }
	var inner []*ssa.BasicBlock
	for _, l := range []list{
		{"AS", "eq((pkg/addr.IA).AS(*), recv.AsBlackList[*])", "recv.AsBlackList"},
		{"ISD", "eq((pkg/addr.IA).ISD(*), recv.IsdBlackList[*])", "recv.IsdBlackList"},
	} {
		// the comparison block
		var cmp *ssa.BasicBlock
		for _, b := range fn.Blocks {
			if len(b.Succs) != 2 {
				continue
			}
			lits, _ := edgeLits(b, 0, nil)
			for _, lt := range lits {
				s := lt.String(v.S)
				if wild("+"+l.eqPat, s) || wild("-"+l.eqPat, s) || wild("+"+mirrorEq(l.eqPat), s) || wild("-"+mirrorEq(l.eqPat), s) {
					cmp = b
				}
			}
		}
		if !c.Check(cmp != nil, rule, v.Name()+":"+l.name+"-comparison", fn.Pos(), "a hop's "+l.name+" is compared with the entries of "+l.member) {
			continue
		}
		e.FailStop(rule, "blocked-"+l.name+"-rejected", 1, Guard{Name: l.name + " differs", Match: func(lt Lit) bool {
			s := lt.String(v.S)
			return wild("-"+l.eqPat, s) || wild("-"+mirrorEq(l.eqPat), s)
		}})
		passes, inLoop := everyIterationPasses(cmp)
		okIdx := false
		for _, b := range fn.Blocks {
			for _, in := range b.Instrs {
				if ia, ok := in.(*ssa.IndexAddr); ok && v.S.Sym(ia.X) == l.member {
					okIdx = okIdx || loopIndex(ia.Index, 0, 1)
				}
			}
		}
		c.Check(passes && inLoop && okIdx, rule, v.Name()+":every-"+l.name+"-entry-compared", cmp.Instrs[0].Pos(), fmt.Sprintf(
			"the comparison is made for every entry: index from 0 in steps of 1 (%v), on every way round the list loop (%v)", okIdx, passes && inLoop))
		if h := loopHeaderOf(cmp); h != nil {
			inner = append(inner, h)
		}
	}
	if len(inner) != 2 {
		return
	}
	// the hop loop: the loop around the first inner loop's header
	var outer *ssa.BasicBlock
	if d := inner[0].Idom(); d != nil {
		outer = loopHeaderOf(d)
	}
	if !c.Check(outer != nil && outer != inner[0], rule, v.Name()+":hop-loop", fn.Pos(), "both list loops run inside the loop over the hops") {
		return
	}
	for i, h := range inner {
		skipped := roundAvoiding(outer, map[*ssa.BasicBlock]bool{h: true}, nil)
		c.Check(!skipped, rule, fmt.Sprintf("%s:list-loop-%d-for-every-hop", v.Name(), i+1), h.Instrs[0].Pos(),
			"no way round the hop loop avoids this list loop")
	}
	okThrough := true
	for b := range succ {
		if cfgReach(fn.Blocks[0], b, outer) {
			okThrough = false
		}
	}
	idxHops := false
	for _, b := range fn.Blocks {
		for _, in := range b.Instrs {
			if ia, ok := in.(*ssa.IndexAddr); ok && wild("control/beacon.buildHops(arg0)*", v.S.Sym(ia.X)) {
				idxHops = idxHops || loopIndex(ia.Index, 0, 1)
			}
		}
	}
	c.Check(okThrough && idxHops, rule, v.Name()+":accepted-only-after-the-hop-loop", fn.Pos(), fmt.Sprintf(
		"the successful return is reached only through the loop over every hop of buildHops(beacon) (through the loop: %v, every hop: %v)", okThrough, idxHops))
}

// mirrorEq: "eq(A, B)" -> "eq(B, A)" for the two-operand patterns used above.
func mirrorEq(p string) string {
	// patterns here have the form eq(X(*), Y[*]) with one top-level ", "
	depth := 0
	for i := 3; i < len(p); i++ {
		switch p[i] {
		case '(', '[':
			depth++
		case ')', ']':
			depth--
		case ',':
			if depth == 0 && i+1 < len(p) && p[i+1] == ' ' {
				return "eq(" + p[i+2:len(p)-1] + ", " + p[3:i] + ")"
			}
		}
	}
	return p
}
