package main

import (
	"fmt"
	"go/constant"
	"go/token"
	"go/types"
	"sort"
	"strings"

	"golang.org/x/tools/go/ssa"
)

// Sym renders an SSA value as a canonical symbolic expression over the
// function's parameters ("recv", "arg0", ...), field selections, constants and
// calls. Loads are flow-insensitive (the expression names the location).
// It is the common currency of the pairing, atom and decision-table rules:
// rules never look at source text, only at these resolved expressions.
type Symer struct {
	memo  map[ssa.Value]string
	stack map[ssa.Value]bool
}

func NewSymer() *Symer {
	return &Symer{memo: map[ssa.Value]string{}, stack: map[ssa.Value]bool{}}
}

func typeShort(t types.Type) string {
	s := types.TypeString(t, func(p *types.Package) string {
		return strings.TrimPrefix(strings.TrimPrefix(p.Path(), modPath+"/"), modPath)
	})
	return s
}

func constStr(c *ssa.Const) string {
	if c.Value == nil {
		if _, ok := c.Type().Underlying().(*types.Struct); ok {
			return "zero:" + typeShort(c.Type())
		}
		return "nil"
	}
	v := c.Value.ExactString()
	if c.Value.Kind() == constant.String {
		v = c.Value.String()
	}
	if _, ok := c.Type().(*types.Named); ok {
		return v + ":" + typeShort(c.Type())
	}
	return v
}

func fieldName(t types.Type, idx int) string {
	if p, ok := t.Underlying().(*types.Pointer); ok {
		t = p.Elem()
	}
	st, ok := t.Underlying().(*types.Struct)
	if !ok || idx >= st.NumFields() {
		return fmt.Sprintf("#%d", idx)
	}
	return canonFieldName(t, st.Field(idx).Name())
}

func fieldVar(t types.Type, idx int) *types.Var {
	if p, ok := t.Underlying().(*types.Pointer); ok {
		t = p.Elem()
	}
	st, ok := t.Underlying().(*types.Struct)
	if !ok || idx >= st.NumFields() {
		return nil
	}
	return st.Field(idx)
}

func paramName(fn *ssa.Function, p *ssa.Parameter) string {
	for i, q := range fn.Params {
		if q == p {
			if fn.Signature.Recv() != nil {
				if i == 0 {
					return "recv"
				}
				return fmt.Sprintf("arg%d", i-1)
			}
			return fmt.Sprintf("arg%d", i)
		}
	}
	return "param:" + p.Name()
}

func calleeName(c *ssa.CallCommon) string {
	if c.IsInvoke() {
		return "invoke:" + typeShort(c.Value.Type()) + "." + c.Method.Name()
	}
	if f := c.StaticCallee(); f != nil {
		return FuncName(f)
	}
	if b, ok := c.Value.(*ssa.Builtin); ok {
		return "builtin:" + b.Name()
	}
	return "dyn"
}

func (s *Symer) Sym(v ssa.Value) string {
	if v == nil {
		return "<nil>"
	}
	if r, ok := s.memo[v]; ok {
		return r
	}
	if s.stack[v] {
		return "…"
	}
	s.stack[v] = true
	r := s.sym(v)
	delete(s.stack, v)
	if len(r) > 600 {
		r = r[:600] + "…"
	}
	s.memo[v] = r
	return r
}

func (s *Symer) args(vs []ssa.Value) string {
	var out []string
	for _, a := range vs {
		out = append(out, s.Sym(a))
	}
	return strings.Join(out, ", ")
}

// singleStore returns the only value stored into the local alloc a, if there is
// exactly one Store to it and its address does not otherwise escape into calls.
func singleStore(a *ssa.Alloc) ssa.Value {
	var st ssa.Value
	n := 0
	for _, ref := range *a.Referrers() {
		switch r := ref.(type) {
		case *ssa.Store:
			if r.Addr == a {
				st = r.Val
				n++
			} else {
				return nil
			}
		case *ssa.UnOp, *ssa.DebugRef:
		case *ssa.FieldAddr:
			if !addrOnlyRead(r, 0) {
				return nil
			}
		case *ssa.IndexAddr:
			if !addrOnlyRead(r, 0) {
				return nil
			}
		default:
			return nil
		}
	}
	if n == 1 {
		return st
	}
	return nil
}

// addrOnlyRead reports whether the address v is only loaded from (possibly
// through further field/index selections), never stored through or escaped.
func addrOnlyRead(v ssa.Value, d int) bool {
	if d > 6 || v.Referrers() == nil {
		return false
	}
	for _, ref := range *v.Referrers() {
		switch r := ref.(type) {
		case *ssa.UnOp, *ssa.DebugRef:
		case *ssa.FieldAddr:
			if !addrOnlyRead(r, d+1) {
				return false
			}
		case *ssa.IndexAddr:
			if !addrOnlyRead(r, d+1) {
				return false
			}
		default:
			return false
		}
	}
	return true
}

func stripAddr(s string) string {
	if strings.HasPrefix(s, "&(") && strings.HasSuffix(s, ")") {
		return s[2 : len(s)-1]
	}
	return s
}

func (s *Symer) sym(v ssa.Value) string {
	switch x := v.(type) {
	case *ssa.Parameter:
		return paramName(x.Parent(), x)
	case *ssa.FreeVar:
		return "free:" + x.Name()
	case *ssa.Const:
		return constStr(x)
	case *ssa.Global:
		return "global:" + strings.TrimPrefix(x.Pkg.Pkg.Path(), modPath+"/") + "." + x.Name()
	case *ssa.Function:
		return "func:" + FuncName(x)
	case *ssa.Builtin:
		return "builtin:" + x.Name()
	case *ssa.Alloc:
		if st := singleStore(x); st != nil {
			return "&(" + s.Sym(st) + ")"
		}
		if x.Comment == "" && x.Parent() != nil {
			// unnamed result slots (functions with defers): number them
			k := 0
			for _, l := range x.Parent().Locals {
				if l == x {
					return fmt.Sprintf("local:ret%d", k)
				}
				if l.Comment == "" {
					k++
				}
			}
		}
		return "local:" + canonLocalName(x)
	case *ssa.FieldAddr:
		return stripAddr(s.Sym(x.X)) + "." + fieldName(x.X.Type(), x.Field)
	case *ssa.Field:
		return s.Sym(x.X) + "." + fieldName(x.X.Type(), x.Field)
	case *ssa.UnOp:
		switch x.Op {
		case token.MUL:
			in := s.Sym(x.X)
			if strings.HasPrefix(in, "&(") && strings.HasSuffix(in, ")") {
				return in[2 : len(in)-1]
			}
			return in
		case token.NOT:
			return "!" + s.Sym(x.X)
		case token.ARROW:
			return "<-" + s.Sym(x.X)
		default:
			return x.Op.String() + s.Sym(x.X)
		}
	case *ssa.BinOp:
		l, r := s.Sym(x.X), s.Sym(x.Y)
		switch x.Op {
		case token.EQL, token.NEQ, token.ADD, token.MUL, token.AND, token.OR, token.XOR:
			if symLess(x.Y, x.X, r, l) {
				l, r = r, l
			}
		}
		return "(" + l + " " + x.Op.String() + " " + r + ")"
	case *ssa.Call:
		c := x.Common()
		if c.IsInvoke() {
			return calleeName(c) + "(" + s.Sym(c.Value) + "; " + s.args(c.Args) + ")"
		}
		if c.StaticCallee() == nil {
			if _, ok := c.Value.(*ssa.Builtin); !ok {
				return "dyn:" + s.Sym(c.Value) + "(" + s.args(c.Args) + ")"
			}
		}
		return calleeName(c) + "(" + s.args(c.Args) + ")"
	case *ssa.ChangeType:
		return s.Sym(x.X)
	case *ssa.ChangeInterface:
		return s.Sym(x.X)
	case *ssa.MakeInterface:
		return s.Sym(x.X)
	case *ssa.Convert:
		return typeShort(x.Type()) + "(" + s.Sym(x.X) + ")"
	case *ssa.MultiConvert:
		return typeShort(x.Type()) + "(" + s.Sym(x.X) + ")"
	case *ssa.SliceToArrayPointer:
		return s.Sym(x.X)
	case *ssa.Phi:
		set := map[string]bool{}
		for _, e := range x.Edges {
			set[s.Sym(e)] = true
		}
		var parts []string
		for p := range set {
			parts = append(parts, p)
		}
		sort.Strings(parts)
		return "phi(" + strings.Join(parts, " | ") + ")"
	case *ssa.IndexAddr:
		return stripAddr(s.Sym(x.X)) + "[" + s.Sym(x.Index) + "]"
	case *ssa.Index:
		return s.Sym(x.X) + "[" + s.Sym(x.Index) + "]"
	case *ssa.Lookup:
		return s.Sym(x.X) + "[" + s.Sym(x.Index) + "]"
	case *ssa.Slice:
		lo, hi, mx := "", "", ""
		if x.Low != nil {
			lo = s.Sym(x.Low)
		}
		if x.High != nil {
			hi = s.Sym(x.High)
		}
		if x.Max != nil {
			mx = ":" + s.Sym(x.Max)
		}
		return s.Sym(x.X) + "[" + lo + ":" + hi + mx + "]"
	case *ssa.Extract:
		return s.Sym(x.Tuple) + "#" + fmt.Sprint(x.Index)
	case *ssa.TypeAssert:
		return s.Sym(x.X) + ".(" + typeShort(x.AssertedType) + ")"
	case *ssa.MakeClosure:
		return "closure:" + FuncName(x.Fn.(*ssa.Function))
	case *ssa.MakeSlice:
		return "make:" + typeShort(x.Type()) + "(" + s.Sym(x.Len) + ")"
	case *ssa.MakeMap:
		return "makemap:" + typeShort(x.Type())
	case *ssa.MakeChan:
		return "makechan:" + typeShort(x.Type())
	case *ssa.Range:
		return "range(" + s.Sym(x.X) + ")"
	case *ssa.Next:
		return "next(" + s.Sym(x.Iter) + ")"
	case *ssa.Select:
		return "select"
	}
	return fmt.Sprintf("?%T", v)
}

// CallsTo returns the call instructions in fn whose static callee is target
// (or, for interface methods, whose invoked method is target).
func CallsTo(fn *ssa.Function, target *types.Func) []ssa.CallInstruction {
	var out []ssa.CallInstruction
	for _, b := range fn.Blocks {
		for _, in := range b.Instrs {
			ci, ok := in.(ssa.CallInstruction)
			if !ok {
				continue
			}
			c := ci.Common()
			if c.IsInvoke() {
				if c.Method == target {
					out = append(out, ci)
				}
				continue
			}
			if sc := c.StaticCallee(); sc != nil && sc.Object() == target {
				out = append(out, ci)
			} else if sc != nil && sc.Origin() != nil && sc.Origin().Object() == target {
				out = append(out, ci)
			}
		}
	}
	return out
}

// CallsToName returns call instructions in fn whose rendered callee name equals name.
func CallsToName(fn *ssa.Function, name string) []ssa.CallInstruction {
	var out []ssa.CallInstruction
	for _, b := range fn.Blocks {
		for _, in := range b.Instrs {
			ci, ok := in.(ssa.CallInstruction)
			if !ok {
				continue
			}
			if calleeName(ci.Common()) == name {
				out = append(out, ci)
			}
		}
	}
	return out
}
