package main

import (
	"fmt"
	"sort"
	"strings"
)

// C40: the validators look at the REQUEST (whose hosts and ISD-ASes may ask),
// the key is derived from the META that a converter builds from the request.
// What was validated is what is derived only if the converters map member for
// member: SrcIA <- SrcIa, DstIA <- DstIa, SrcHost <- SrcHost, DstHost <- DstHost,
// ProtoId <- ProtocolId, Validity <- ValTime. A converter that swaps the two
// hosts hands the key of the pair (a, b) to a requester validated for (b, a).
func init() {
	addMutants(
		Mutant{Prop: "C40", Name: "hosthost-meta-hosts-swapped", File: "control/drkey/grpc/protobuf.go",
			Old: `		SrcHost:  req.SrcHost,
		DstHost:  req.DstHost,`, New: `		SrcHost:  req.DstHost,
		DstHost:  req.SrcHost,`, Expect: "X1-validated-request-is-derived-meta"},
		Mutant{Prop: "C40", Name: "ashost-response-epoch-ends-at-begin", File: "control/drkey/grpc/protobuf.go",
			Old: `func keyToASHostResp(drkey drkey.ASHostKey) *cppb.DRKeyASHostResponse {
	return &cppb.DRKeyASHostResponse{
		EpochBegin: timestamppb.New(drkey.Epoch.NotBefore),
		EpochEnd:   timestamppb.New(drkey.Epoch.NotAfter),`, New: `func keyToASHostResp(drkey drkey.ASHostKey) *cppb.DRKeyASHostResponse {
	return &cppb.DRKeyASHostResponse{
		EpochBegin: timestamppb.New(drkey.Epoch.NotBefore),
		EpochEnd:   timestamppb.New(drkey.Epoch.NotBefore),`, Expect: "X2-response-is-the-derived-key"},
	)
}

func c40Converters(c *Ctx) {
	rule := "X1-validated-request-is-derived-meta"
	pk := "control/drkey/grpc."
	want := map[string]map[string]string{
		"requestToASHostMeta":   {"SrcIA": "SrcIa", "DstIA": "DstIa", "DstHost": "DstHost", "ProtoId": "ProtocolId", "Validity": "ValTime"},
		"requestToHostASMeta":   {"SrcIA": "SrcIa", "DstIA": "DstIa", "SrcHost": "SrcHost", "ProtoId": "ProtocolId", "Validity": "ValTime"},
		"requestToHostHostMeta": {"SrcIA": "SrcIa", "DstIA": "DstIa", "SrcHost": "SrcHost", "DstHost": "DstHost", "ProtoId": "ProtocolId", "Validity": "ValTime"},
	}
	n := 0
	for fnName, members := range want {
		v := c.View(pk + fnName)
		if v == nil {
			continue
		}
		n++
		got := map[string]string{}
		for _, st := range v.Stores("local:complit.*") {
			got[st.Addr[strings.LastIndex(st.Addr, ".")+1:]] = st.Val
		}
		var bad []string
		for m, src := range members {
			val := got[m]
			if !strings.Contains(val, "arg0."+src) {
				bad = append(bad, fmt.Sprintf("%s <- %s (required from request.%s)", m, val, src))
				continue
			}
			// no other request member takes part
			for _, other := range []string{"SrcIa", "DstIa", "SrcHost", "DstHost"} {
				if other != src && strings.Contains(val, "arg0."+other) {
					bad = append(bad, fmt.Sprintf("%s <- %s mixes in request.%s", m, val, other))
				}
			}
		}
		for m := range got {
			if _, ok := members[m]; !ok {
				bad = append(bad, "unexpected member "+m)
			}
		}
		sort.Strings(bad)
		c.Check(len(bad) == 0, rule, v.Name()+":member-for-member", v.Fn.Pos(),
			fmt.Sprintf("%d meta members from the request members of the same name: %s", len(members), strings.Join(bad, "; ")))
	}
	c.Min("drkey-request-converters", n, 3)
	// the answer carries the key it was derived for: epoch bounds and key bytes of
	// the derived key, nothing else (seven response encoders)
	pb := "google.golang.org/protobuf/types/known/timestamppb."
	nResp := 0
	for _, fnName := range []string{"secretToProtoResp", "keyToLevel1Resp", "keyToASASResp", "keyToASHostResp", "keyToHostASResp", "keyToHostHostResp"} {
		v := c.View(pk + fnName)
		if v == nil {
			continue
		}
		nResp++
		r2 := "X2-response-is-the-derived-key"
		v.RequireStore(r2, 1, "local:complit.EpochBegin", pb+"New(local:drkey.Epoch.NotBefore)", pb+"New(arg0.Epoch.NotBefore)")
		v.RequireStore(r2, 1, "local:complit.EpochEnd", pb+"New(local:drkey.Epoch.NotAfter)", pb+"New(arg0.Epoch.NotAfter)")
		v.RequireStore(r2, 1, "local:complit.Key", "local:drkey.Key[:]", "arg0.Key[:]")
	}
	c.Min("drkey-response-encoders", nResp, 6)
	// each handler derives from the meta built from the request it validated
	for h, conv := range map[string]string{"DRKeyASHost": "requestToASHostMeta", "DRKeyHostAS": "requestToHostASMeta", "DRKeyHostHost": "requestToHostHostMeta"} {
		v := c.View("(*" + pk + "Server)." + h)
		if v == nil {
			continue
		}
		v.RequireCallArgs(rule, 1, pk+conv, "arg1")
	}
}
