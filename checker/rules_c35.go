package main

import (
	"fmt"
	"sort"
	"strings"

	"golang.org/x/tools/go/ssa"
)

func init() {
	register(&PropRule{
		ID:    "C35",
		Roots: []string{"./private/trust", "./pkg/scrypto/cppki"},
		Explain: "Decides on all CFG paths of FetchingProvider.NotifyTRC: DB.InsertTRC is reached only " +
			"after the latest stored TRC was found, is non-zero, has the announced base number and an " +
			"older serial, recursion is allowed, the update was fetched without error and " +
			"fetched.Verify(predecessor) succeeded; the TRC inserted is the TRC that was verified; the " +
			"predecessor used for verification is the latest stored TRC and is replaced by the fetched " +
			"one on every path from a successful insert back to the next fetch; the ids fetched are " +
			"(announced ISD, announced base, predecessor serial + 1, + 1, …); a failing step ends the " +
			"update (no later insert). loadTRCs inserts only decoded TRCs whose validity has begun. " +
			"InsertTRC is called only from these two functions within the trust package. NOT decided: " +
			"the verification itself (C32), database behaviour.",
		Run: runC35,
	})
	setClaim("C35", claim{
		Text: "Guard dominance of lookup/base/serial/fetch/Verify over the InsertTRC sink, pairing of " +
			"the verified, inserted and next-predecessor values, a must-pass-through rule for the " +
			"predecessor update on the loop back path, who-may-call on DB.InsertTRC.",
		Note: claimNote, Technique: "static analysis: guard dominance, symbolic pairing, reachability " +
			"with a removed block (must-pass-through), who-may-call", Ref: "DESIGN.md §4 C35"})
	addMutants(
		Mutant{Prop: "C35", Name: "verify-error-ignored", File: "private/trust/fetching_provider.go",
			Old: `		if err := fetched.Verify(&trc.TRC); err != nil {
			setProviderMetric(span, l.WithResult(metrics.ErrVerify), err)
			return serrors.Wrap("verifying TRC update", err, "id", toFetch)
		}`, New: `		if err := fetched.Verify(&trc.TRC); err != nil {
			setProviderMetric(span, l.WithResult(metrics.ErrVerify), err)
		}`, Expect: "G1-insert-only-verified"},
		Mutant{Prop: "C35", Name: "predecessor-not-advanced", File: "private/trust/fetching_provider.go",
			Old: `		trc = fetched
	}
	return nil`, New: `	}
	return nil`, Expect: "P1-predecessor-advances"},
		Mutant{Prop: "C35", Name: "base-check-dropped", File: "private/trust/fetching_provider.go",
			Old: `	if trc.TRC.ID.Base != id.Base {
		setProviderMetric(span, l.WithResult(metrics.ErrValidate), nil)
		return serrors.New("base number mismatch", "expected", trc.TRC.ID.Base, "actual", id.Base)
	}
`, New: "", Expect: "G1-insert-only-verified"},
		Mutant{Prop: "C35", Name: "verify-against-itself", File: "private/trust/fetching_provider.go",
			Old:    `		if err := fetched.Verify(&trc.TRC); err != nil {`,
			New:    `		if err := fetched.Verify(&fetched.TRC); err != nil {`,
			Expect: "G1-insert-only-verified"},
		Mutant{Prop: "C35", Name: "future-trc-loaded", File: "private/trust/store.go",
			Old: `		if time.Now().Before(trc.TRC.Validity.NotBefore) {
			res.Ignored[f] = serrors.New("TRC in the future", "validity", trc.TRC.Validity)
			continue
		}
`, New: "", Expect: "L1-load-trcs"},
		Mutant{Prop: "C35", Name: "skip-serials", File: "private/trust/fetching_provider.go",
			Old:    `		toFetch := cppki.TRCID{ISD: id.ISD, Base: id.Base, Serial: serial}`,
			New:    `		toFetch := cppki.TRCID{ISD: id.ISD, Base: id.Base, Serial: id.Serial}`,
			Expect: "P1-predecessor-advances"},
	)
}

// reachableAvoiding reports whether `to` is reachable from `from` without
// entering block avoid.
func reachableAvoiding(from, to, avoid *ssa.BasicBlock) bool {
	if from == avoid {
		return false
	}
	seen := map[*ssa.BasicBlock]bool{from: true}
	q := []*ssa.BasicBlock{from}
	for len(q) > 0 {
		b := q[0]
		q = q[1:]
		if b == to {
			return true
		}
		for _, s := range b.Succs {
			if s != avoid && !seen[s] {
				seen[s] = true
				q = append(q, s)
			}
		}
	}
	return false
}

func runC35(c *Ctx) {
	// "verified" in this property means SignedTRC.Verify: its dispatch, the update
	// verification and the all-required-certificates-signed check (C32 G1-G3) are
	// what stops the store at an unverifiable TRC.
	c.Borrow(runC32, map[string]string{"G1-verify-dispatch": "V1-what-verified-means", "G2-verify-update": "V1-what-verified-means",
		"G3-verify-all": "V1-what-verified-means"})
	v := c.View("(private/trust.FetchingProvider).NotifyTRC")
	if v != nil {
		e := NewE1(c, v.Fn)
		ins := e.CallSites("invoke:private/trust.DB.InsertTRC")
		c.Min("NotifyTRC:InsertTRC", len(ins), 1)
		verify := "(*pkg/scrypto/cppki.SignedTRC).Verify(local:fetched, local:trc.TRC)"
		e.Require("G1-insert-only-verified", "InsertTRC", nil, ins,
			e.AtomGuard("latest-found", "+eq(invoke:private/trust.DB.SignedTRC(recv.DB; *, local:complit)#1, nil)"),
			e.AtomGuard("latest-non-zero", "-true((*pkg/scrypto/cppki.SignedTRC).IsZero(local:trc))"),
			e.AtomGuard("same-base", "+eq(arg1.Base, local:trc.TRC.ID.Base)"),
			e.AtomGuard("announced-serial-newer", "+lt(local:trc.TRC.ID.Serial, arg1.Serial)",
				"-lt(arg1.Serial, (local:trc.TRC.ID.Serial + 1:pkg/scrypto.Version))"),
			e.AtomGuard("recursion-allowed", "+eq(invoke:private/trust.Recurser.AllowRecursion(recv.Recurser; local:o.client), nil)"),
			e.AtomGuard("fetched", "+eq(invoke:private/trust.Fetcher.TRC(recv.Fetcher; *, local:complit, local:o.server)#1, nil)"),
			e.AtomGuard("update-verifies", "+eq("+verify+", nil)"))
		v.RequireCallArgs("G1-insert-only-verified", 1, "invoke:private/trust.DB.InsertTRC", "recv.DB", "", "local:fetched")
		v.RequireCallArgs("G1-insert-only-verified", 1, "(*pkg/scrypto/cppki.SignedTRC).Verify", "local:fetched", "local:trc.TRC")
		v.RequireStore("G1-insert-only-verified", 1, "local:fetched",
			"invoke:private/trust.Fetcher.TRC(recv.Fetcher; *, local:complit, local:o.server)#0")
		// the success return
		e.Require("G1-insert-only-verified", "success-returns", nil, e.SuccessReturns(),
			e.AtomGuard("latest-found", "+eq(invoke:private/trust.DB.SignedTRC(recv.DB; *, local:complit)#1, nil)"),
			e.AtomGuard("same-base", "+eq(arg1.Base, local:trc.TRC.ID.Base)"))
		// every step of an iteration is fail-stop with respect to a later insert
		e.FailStopTo("G1-insert-only-verified", "no-insert-after-failed-verify", ins,
			e.AtomGuard("update-verifies", "+eq("+verify+", nil)"))

		// P1: predecessor handling
		sts := v.Stores("local:trc")
		vals := []string{}
		for _, st := range sts {
			vals = append(vals, st.Val)
		}
		sort.Strings(vals)
		okVals := len(vals) == 2 && vals[1] == "local:fetched" &&
			wild("invoke:private/trust.DB.SignedTRC(recv.DB; *, local:complit)#0", vals[0])
		c.Check(okVals, "P1-predecessor-advances", v.Name()+":predecessor-definitions", v.Fn.Pos(),
			"the predecessor is defined exactly as the latest stored TRC and then as each fetched TRC: "+strings.Join(vals, " ; "))
		fetches := e.CallSites("invoke:private/trust.Fetcher.TRC")
		okLoop := len(ins) == 1 && len(fetches) == 1
		if okLoop {
			var adv *ssa.Store
			for _, st := range sts {
				if st.Val == "local:fetched" {
					adv = st.In
				}
			}
			if adv == nil {
				okLoop = false
			} else {
				// from the insert's success edge, the next fetch is unreachable if the
				// block holding `trc = fetched` is removed
				insBlk := ins[0].Block()
				for i, s := range insBlk.Succs {
					lits, _ := edgeLits(insBlk, i, nil)
					pass := false
					for _, l := range lits {
						if wild("+eq(invoke:private/trust.DB.InsertTRC(*)#1, nil)", l.String(v.S)) {
							pass = true
						}
					}
					if pass && s != adv.Block() && reachableAvoiding(s, fetches[0].Block(), adv.Block()) {
						okLoop = false
					}
					if pass && s == adv.Block() {
						// fine: the store is in the success successor itself
					}
				}
				if !ins[0].Block().Dominates(adv.Block()) {
					okLoop = false
				}
			}
		}
		c.Check(okLoop, "P1-predecessor-advances", v.Name()+":advance-before-next-fetch", v.Fn.Pos(),
			"every path from a successful insert to the next fetch passes `trc = fetched`")
		v.RequireStore("P1-predecessor-advances", 2, "local:complit.ISD", "arg1.ISD")
		v.RequireStore("P1-predecessor-advances", 2, "local:complit.Base", c.Const("pkg/scrypto.LatestVer"), "arg1.Base")
		v.RequireStore("P1-predecessor-advances", 2, "local:complit.Serial", c.Const("pkg/scrypto.LatestVer"),
			"phi((local:trc.TRC.ID.Serial + 1:pkg/scrypto.Version) | (* + 1:pkg/scrypto.Version))")
	}
	if lv := c.View("private/trust.loadTRCs"); lv != nil {
		e := NewE1(c, lv.Fn)
		ins := e.CallSites("invoke:private/trust.DB.InsertTRC")
		c.Min("loadTRCs:InsertTRC", len(ins), 1)
		dec := "pkg/scrypto/cppki.DecodeSignedTRC(*)"
		e.Require("L1-load-trcs", "InsertTRC", nil, ins,
			e.AtomGuard("decodes", "+eq("+dec+"#1, nil)"),
			e.AtomGuard("validity-has-begun", "-true((time.Time).Before(time.Now(), *.TRC.Validity.NotBefore))",
				"+true((time.Time).After(time.Now(), *.TRC.Validity.NotBefore))"))
		okArg := false
		for _, ci := range lv.Calls("invoke:private/trust.DB.InsertTRC") {
			l := lv.Leaves(ci.In.Common().Args[1], 0)
			if _, ok := l["call:pkg/scrypto/cppki.DecodeSignedTRC"]; ok {
				okArg = true
			}
		}
		c.Check(okArg, "L1-load-trcs", lv.Name()+":inserts-decoded-trc", lv.Fn.Pos(),
			"the TRC inserted is the one DecodeSignedTRC returned")
	}
	// who may call InsertTRC inside the trust package
	allowed := map[string]bool{"(private/trust.FetchingProvider).NotifyTRC": true, "private/trust.loadTRCs": true}
	found := map[string]bool{}
	if sp := c.Prog.SSAPkgs[modPath+"/private/trust"]; sp != nil {
		for fn := range c.Prog.AllFuncs() {
			if fn.Pkg != sp || fn.Blocks == nil {
				continue
			}
			for _, b := range fn.Blocks {
				for _, in := range b.Instrs {
					if ci, ok := in.(ssa.CallInstruction); ok && calleeName(ci.Common()) == "invoke:private/trust.DB.InsertTRC" {
						n := FuncName(fn)
						found[n] = true
						c.Check(allowed[n], "W1-who-inserts-trcs", "caller:"+n, in.Pos(),
							"calls DB.InsertTRC; audited callers: NotifyTRC (after Verify), loadTRCs (operator-provided files)")
					}
				}
			}
		}
	}
	c.Min("W1:InsertTRC-callers", len(found), 2)
	_ = fmt.Sprint
}
