package main

import (
	"fmt"
	"strings"

	"golang.org/x/tools/go/ssa"
)

// C03, the reply path outlives the request packet: snet hands the application a
// RawPath decoded from a packet; ReplyPath reverses it IN PLACE (scion.Raw.Reverse
// works on the given bytes) and the connection reuses one receive buffer for every
// read. A decoded path whose bytes are a view into that buffer is overwritten by
// the next request; the reply to the first request then carries the second
// request's hop fields and never retraces the first one's interfaces.
//
// Rule O1: every store into the Raw member of a snet.RawPath in Packet.Decode is a
// freshly made slice (make([]byte, ...)) that the path is then serialized into;
// nothing of the packet's buffer or of the decoded layer's own storage is kept.
func init() {
	addMutants(
		Mutant{Prop: "C03", Name: "decoded-path-aliases-receive-buffer", File: "pkg/snet/packet.go",
			Old: `		rpath.Raw = make([]byte, l)
		if err := scionLayer.Path.SerializeTo(rpath.Raw); err != nil {
			return serrors.Wrap("extracting path", err)
		}`, New: `		if raw, ok := scionLayer.Path.(*scion.Raw); ok {
			rpath.Raw = raw.Raw
		} else {
			rpath.Raw = make([]byte, l)
			if err := scionLayer.Path.SerializeTo(rpath.Raw); err != nil {
				return serrors.Wrap("extracting path", err)
			}
		}`, More: []Edit{{File: "pkg/snet/packet.go", Old: `	"github.com/scionproto/scion/pkg/slayers/path"
)`,
				New: `	"github.com/scionproto/scion/pkg/slayers/path"
	"github.com/scionproto/scion/pkg/slayers/path/scion"
)`}}, Expect: "O1-decoded-path-owns-its-bytes"},
	)
}

func c03DecodedPathOwnsBytes(c *Ctx) {
	rule := "O1-decoded-path-owns-its-bytes"
	v := c.View("(*pkg/snet.Packet).Decode")
	if v == nil {
		return
	}
	n := 0
	var bad []string
	for _, b := range v.Fn.Blocks {
		for _, in := range b.Instrs {
			st, ok := in.(*ssa.Store)
			if !ok {
				continue
			}
			fa, isFA := st.Addr.(*ssa.FieldAddr)
			if !isFA || typeShort(fa.X.Type()) != "*pkg/snet.RawPath" || fieldName(fa.X.Type(), fa.Field) != "Raw" {
				continue
			}
			n++
			if _, isMake := st.Val.(*ssa.MakeSlice); !isMake {
				if sl, isSl := st.Val.(*ssa.Slice); isSl {
					if _, isAlloc := sl.X.(*ssa.Alloc); isAlloc {
						continue // make([]byte, k) with constant k
					}
				}
				bad = append(bad, v.S.Sym(st.Val))
			}
		}
	}
	c.Min("snet.Packet.Decode:RawPath.Raw-stores", n, 1)
	c.Check(len(bad) == 0, rule, v.Name()+":RawPath.Raw", v.Fn.Pos(), fmt.Sprintf(
		"%d store(s) into RawPath.Raw, each a freshly made slice; others: %s", n, strings.Join(bad, "; ")))
	// and the fresh slice is what the path is serialized into
	v.RequireCallArgs(rule, 1, "invoke:pkg/slayers/path.Path.SerializeTo", "local:scionLayer.Path", "local:rpath.Raw")
}
