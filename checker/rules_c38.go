package main

import (
	"golang.org/x/tools/go/ssa"
)

func init() {
	register(&PropRule{
		ID:    "C38",
		Roots: []string{"./pkg/scrypto/signed"},
		Explain: "Decides: signed.Sign and signed.Verify feed the same signature-input function with " +
			"(algorithm from the header, the serialized header-and-body, all associated data); both " +
			"enforce that the associated data length equals the header's AssociatedDataLength and " +
			"that the key matches the declared algorithm; Verify succeeds only if ecdsa.VerifyASN1 " +
			"over that input and the message's signature returned true; the header/body it returns " +
			"are parsed from the very HeaderAndBody that was verified; the signature input depends " +
			"on the header-and-body bytes and on every associated-data element; Sign returns the " +
			"bytes it signed. NOT decided: ECDSA and hash arithmetic, protobuf canonical form.",
		Run: func(c *Ctx) { runSignedMsg(c, "S1-signed-message"); c38AlgoConsistency(c); c38TimestampPresence(c); c38EveryElementFed(c, "F2-every-element-is-fed") },
	})
	setClaim("C38", claim{
		Text: "Sibling agreement of Sign and Verify on the signature input (symbolic pairing), guard " +
			"dominance of length/algorithm/signature checks over Verify's success return, backward " +
			"dependence of the signature input on all signed parts.",
		Note: claimNote, Technique: "static analysis: sibling agreement by symbolic pairing, guard " +
			"dominance, backward dependence on SSA", Ref: "DESIGN.md §4 C38"})
	addMutants(
		Mutant{Prop: "C38", Name: "verify-no-assoc-len", File: "pkg/scrypto/signed/msg.go",
			Old: `	if l := associatedDataLen(associatedData...); l != hdr.AssociatedDataLength {
		return nil, serrors.New("header specifies a different associated data length",
			"expected", hdr.AssociatedDataLength, "actual", l)
	}
	if err := checkPubKeyAlgo(hdr.SignatureAlgorithm, key); err != nil {`,
			New:    `	if err := checkPubKeyAlgo(hdr.SignatureAlgorithm, key); err != nil {`,
			Expect: "S1-signed-message"},
		Mutant{Prop: "C38", Name: "verify-input-without-assoc", File: "pkg/scrypto/signed/msg.go",
			Old: `	input, _ := computeSignatureInput(hdr.SignatureAlgorithm, signed.HeaderAndBody,
		associatedData...)`, New: `	input, _ := computeSignatureInput(hdr.SignatureAlgorithm, signed.HeaderAndBody)
	_ = associatedData`, Expect: "S1-signed-message"},
		Mutant{Prop: "C38", Name: "input-skips-first-assoc", File: "pkg/scrypto/signed/msg.go",
			Old: `	h.Write(hdrAndBody)
	for _, d := range associatedData {
		h.Write(d)
	}`, New: `	h.Write(hdrAndBody)
	for _, d := range associatedData {
		_ = d
	}`, Expect: "S1-signed-message"},
	)
}

// runSignedMsg holds the rules shared by C24 and C38.
func runSignedMsg(c *Ctx, rule string) {
	if c.Prog.SSAPkgs[modPath+"/pkg/scrypto/signed"] == nil {
		c.Fail("anchor", "pkg/scrypto/signed", 0, "package not loaded")
		return
	}
	hdr := "pkg/scrypto/signed.extractHeaderAndBody(arg0)"
	input := "pkg/scrypto/signed.computeSignatureInput(" + hdr + "#0.SignatureAlgorithm, arg0.HeaderAndBody, arg2)"
	if v := c.View("pkg/scrypto/signed.Verify"); v != nil {
		e := NewE1(c, v.Fn)
		e.Require(rule, "success-returns", nil, e.SuccessReturns(),
			e.AtomGuard("key!=nil", "-eq(arg1, nil)"),
			e.AtomGuard("header-parses", "+eq("+hdr+"#2, nil)"),
			e.AtomGuard("assoc-len-matches-header",
				"+eq(pkg/scrypto/signed.associatedDataLen(arg2), "+hdr+"#0.AssociatedDataLength)",
				"+eq("+hdr+"#0.AssociatedDataLength, pkg/scrypto/signed.associatedDataLen(arg2))"),
			e.AtomGuard("key-matches-algorithm",
				"+eq(pkg/scrypto/signed.checkPubKeyAlgo("+hdr+"#0.SignatureAlgorithm, arg1), nil)"),
			e.AtomGuard("ecdsa-verifies", "+true(crypto/ecdsa.VerifyASN1(arg1.(*crypto/ecdsa.PublicKey)#0, "+
				input+"#0, arg0.Signature))"))
		v.RequireStore(rule, 1, "local:complit.Header", hdr+"#0")
		v.RequireStore(rule, 1, "local:complit.Body", hdr+"#1")
	}
	if v := c.View("pkg/scrypto/signed.Sign"); v != nil {
		e := NewE1(c, v.Fn)
		raw := "google.golang.org/protobuf/proto.Marshal(local:complit)#0"
		sinput := "pkg/scrypto/signed.computeSignatureInput(arg0.SignatureAlgorithm, " + raw + ", arg3)"
		e.Require(rule, "success-returns", nil, e.SuccessReturns(),
			e.AtomGuard("assoc-len-matches-header",
				"+eq(arg0.AssociatedDataLength, pkg/scrypto/signed.associatedDataLen(arg3))",
				"+eq(pkg/scrypto/signed.associatedDataLen(arg3), arg0.AssociatedDataLength)"),
			e.AtomGuard("key-matches-algorithm", "+eq(pkg/scrypto/signed.checkPubKeyAlgo("+
				"arg0.SignatureAlgorithm, invoke:crypto.Signer.Public(arg2; )), nil)"),
			e.CallGuard(PassErrNil, "invoke:crypto.Signer.Sign"))
		v.RequireCallArgs(rule, 1, "invoke:crypto.Signer.Sign", "arg2", "", sinput+"#0", sinput+"#1")
		v.RequireStore(rule, 1, "local:complit.HeaderAndBody", raw)
		v.RequireStore(rule, 1, "local:complit.Signature", "invoke:crypto.Signer.Sign(arg2; *)#0")
		v.RequireStore(rule, 1, "local:complit.Body", "arg1")
		v.RequireStore(rule, 1, "local:complit.AssociatedDataLength", "int32(arg0.AssociatedDataLength)")
		v.RequireStore(rule, 1, "local:complit.VerificationKeyId", "arg0.VerificationKeyID")
		v.RequireStore(rule, 1, "local:complit.SignatureAlgorithm",
			"(pkg/scrypto/signed.SignatureAlgorithm).toPB(arg0.SignatureAlgorithm)")
		v.RequireStore(rule, 1, "local:complit.Metadata", "arg0.Metadata")
	}
	if v := c.View("pkg/scrypto/signed.computeSignatureInput"); v != nil {
		// Every return depends on hdrAndBody and on the elements of associatedData;
		// in the hashing branch through h.Write, in the raw branch through copy.
		n := 0
		for _, b := range v.Fn.Blocks {
			r, ok := b.Instrs[len(b.Instrs)-1].(*ssa.Return)
			if !ok {
				continue
			}
			n++
			// collect what flows into the buffer/hash that is returned
			fed := map[string]bool{}
			for _, ci := range v.Calls("invoke:hash.Hash.Write", "builtin:copy") {
				if !ci.In.Block().Dominates(b) && !reachesBlock(ci.In.Block(), b) {
					continue
				}
				src := ci.Args[len(ci.Args)-1]
				fed[src] = true
			}
			l := v.Leaves(r.Results[0], 0)
			okHB := fed["arg1"]
			okAD := false
			for s := range fed {
				if wild("arg2[*]", s) {
					okAD = true
				}
			}
			_ = l
			c.Check(okHB && okAD, rule, v.Name()+":input-covers-all-parts-"+string(rune('0'+n)), r.Pos(),
				"the signature input is fed hdrAndBody and every associatedData element; fed: "+
					joinKeys(fed))
		}
		c.Min("computeSignatureInput:returns", n, 2)
	}
	if v := c.View("pkg/scrypto/signed.extractHeaderAndBody"); v != nil {
		e := NewE1(c, v.Fn)
		e.Require(rule, "success-returns", nil, e.SuccessReturns(),
			e.AtomGuard("parses-HeaderAndBody", "+eq(google.golang.org/protobuf/proto.Unmarshal("+
				"arg0.HeaderAndBody, local:hdrAndBody), nil)"),
			e.AtomGuard("parses-Header", "+eq(google.golang.org/protobuf/proto.Unmarshal("+
				"local:hdrAndBody.Header, local:hdr), nil)"))
		v.RequireStore(rule, 1, "local:complit.AssociatedDataLength", "int(local:hdr.AssociatedDataLength)")
		v.RequireStore(rule, 1, "local:complit.VerificationKeyID", "local:hdr.VerificationKeyId")
		v.RequireStore(rule, 1, "local:complit.SignatureAlgorithm",
			"pkg/scrypto/signed.signatureAlgorithmFromPB(local:hdr.SignatureAlgorithm)")
	}
	if v := c.View("pkg/scrypto/signed.associatedDataLen"); v != nil {
		for _, b := range v.Fn.Blocks {
			if r, ok := b.Instrs[len(b.Instrs)-1].(*ssa.Return); ok {
				v.RequireDepends(rule, "result", r.Results[0], "arg0")
			}
		}
	}
}

func reachesBlock(from, to *ssa.BasicBlock) bool {
	seen := map[*ssa.BasicBlock]bool{from: true}
	q := []*ssa.BasicBlock{from}
	for len(q) > 0 {
		b := q[0]
		q = q[1:]
		if b == to {
			return true
		}
		for _, s := range b.Succs {
			if !seen[s] {
				seen[s] = true
				q = append(q, s)
			}
		}
	}
	return false
}

func joinKeys(m map[string]bool) string {
	s := ""
	for _, k := range sortedKeys(m) {
		if s != "" {
			s += ", "
		}
		s += k
	}
	return s
}
