package main

import (
	"fmt"
	"go/token"

	"golang.org/x/tools/go/ssa"
)

// C48, FIFO content: Ring.read copies out of the backing slice in up to two
// pieces (from readIndex to the end, then from the start) and nils the slots it
// has just read; Ring.write copies in the same two pieces. Entries are lost or
// duplicated when a cleared range is not exactly a copied range, or an index does
// not advance by exactly what was copied.
//
// Rule F1, by SSA value identity:
//
//	read:  for every copy(dst, r.entries[A:]) with result n there is exactly one
//	       clearing construct over r.entries with range [A, A+n) - a loop storing
//	       nil from A while < A+n, or clear(r.entries[A:A+n]) - and every clearing
//	       construct belongs to one copy; readIndex becomes readIndex+n after the
//	       first piece and n2 after the wrapped piece, which is taken only if the
//	       first piece did not fill dst and continues at dst[n:]
//	write: the mirror image for writeIndex, nothing is cleared
func init() {
	addMutants(
		Mutant{Prop: "C48", Name: "wrapped-read-clears-first-piece-length", File: "private/ringbuf/ringbuf.go",
			Old: `		n = copy(entries[n:], r.entries)
		// Remove references that were just read.
		for i := range n {
			r.entries[i] = nil
		}
		// Reset read index
		r.readIndex = n`, New: `		m := copy(entries[n:], r.entries)
		// Remove references that were just read.
		for i := range n {
			r.entries[i] = nil
		}
		// Reset read index
		r.readIndex = m`, Expect: "F1-copied-range-is-cleared-range"},
		Mutant{Prop: "C48", Name: "benign-clear-builtin", File: "private/ringbuf/ringbuf.go", Benign: true,
			Old: `	for i := r.readIndex; i < r.readIndex+n; i++ {
		r.entries[i] = nil
	}`, New: `	clear(r.entries[r.readIndex : r.readIndex+n])`},
		Mutant{Prop: "C48", Name: "wrapped-write-restarts-source", File: "private/ringbuf/ringbuf.go",
			Old: `		n = copy(r.entries, entries[n:])`, New: `		n = copy(r.entries, entries[n-1:])`, Expect: "F1-copied-range-is-cleared-range"},
	)
}

func c48Ranges(c *Ctx) {
	rule := "F1-copied-range-is-cleared-range"
	rT := "(*private/ringbuf.Ring)"
	isEntries := func(v *FnView, x ssa.Value) bool { return v.S.Sym(x) == "recv.entries" }
	same := func(a, b ssa.Value) bool {
		if a == nil || b == nil {
			return a == nil && b == nil || isZeroConst(nonNil(a, b))
		}
		return a == b || stripConv(a) == stripConv(b) || (loadOfSame(a, b))
	}
	// sum: x == a + b (either order), by identity of the operands
	sumOf := func(x, a, b ssa.Value) bool {
		if a == nil || isZeroValue(a) {
			return same(x, b)
		}
		bo, ok := x.(*ssa.BinOp)
		if !ok || bo.Op != token.ADD {
			return false
		}
		return (same(bo.X, a) && same(bo.Y, b)) || (same(bo.X, b) && same(bo.Y, a))
	}
	for _, side := range []struct{ fn, idx string }{{"read", "recv.readIndex"}, {"write", "recv.writeIndex"}} {
		v := c.View(rT + "." + side.fn)
		if v == nil {
			continue
		}
		fn := v.Fn
		// the copies, in order: ring-side slice (entries[A:] or entries), user-side slice
		type piece struct {
			call *ssa.Call
			low  ssa.Value // A (nil: 0)
			user ssa.Value
		}
		var pieces []piece
		for _, b := range fn.Blocks {
			for _, in := range b.Instrs {
				call, ok := in.(*ssa.Call)
				if !ok || calleeName(call.Common()) != "builtin:copy" {
					continue
				}
				ring, user := call.Common().Args[1], call.Common().Args[0]
				if side.fn == "write" {
					ring, user = user, ring
				}
				p := piece{call: call, user: user}
				if sl, isSl := ring.(*ssa.Slice); isSl && isEntries(v, sl.X) && sl.High == nil {
					p.low = sl.Low
				} else if !isEntries(v, ring) {
					c.Fail(rule, v.Name()+":copy-source", call.Pos(), "a copy whose ring side is not r.entries[A:] or r.entries: "+v.S.Sym(ring))
					continue
				}
				pieces = append(pieces, p)
			}
		}
		if !c.Check(len(pieces) == 2, rule, v.Name()+":two-pieces", fn.Pos(), fmt.Sprintf("%d copies between the ring and the caller's list", len(pieces))) {
			continue
		}
		p1, p2 := pieces[0], pieces[1]
		okPieces := p1.low != nil && v.S.Sym(p1.low) == side.idx && p2.low == nil && v.S.Sym(p1.user) == "arg0"
		// the wrapped piece continues the caller's list at [n1:] and is taken only if n1 < len(list)
		if sl, isSl := p2.user.(*ssa.Slice); isSl && v.S.Sym(sl.X) == "arg0" && sl.High == nil && same(sl.Low, p1.call) {
			okCond := false
			for _, l := range dominatingLits(p2.call.Block()) {
				if l.Kind == "lt" && l.Pos && same(l.X, p1.call) && v.S.Sym(l.Y) == "builtin:len(arg0)" {
					okCond = true
				}
			}
			okPieces = okPieces && okCond
		} else {
			okPieces = false
		}
		c.Check(okPieces, rule, v.Name()+":pieces", fn.Pos(), "first piece at the index to the end of the ring, second piece from the start of the ring into list[n1:], only if n1 < len(list)")
		// index updates
		n1, n2 := 0, 0
		for _, st := range v.Stores(side.idx) {
			switch {
			case sumOf(st.In.Val, p1.low, p1.call):
				n1++
			case same(st.In.Val, p2.call) && p2.call.Block().Dominates(st.In.Block()):
				n2++
			default:
				c.Fail(rule, v.Name()+":index-update", st.In.Pos(), "the index becomes "+st.Val+" (neither index+n1 nor n2)")
			}
		}
		c.Check(n1 == 1 && n2 == 1, rule, v.Name()+":index-advances-by-what-was-copied", fn.Pos(), fmt.Sprintf("%d update(s) by the first piece, %d reset(s) to the wrapped piece's length", n1, n2))
		if side.fn != "read" {
			continue
		}
		// clearing constructs
		matched := map[*ssa.Call]int{}
		nClear := 0
		match := func(low, high ssa.Value) bool {
			for _, p := range pieces {
				lowOK := (p.low == nil && (low == nil || isZeroValue(low))) || (p.low != nil && low != nil && same(low, p.low))
				if lowOK && sumOf(high, p.low, p.call) {
					matched[p.call]++
					return true
				}
			}
			return false
		}
		for _, b := range fn.Blocks {
			for _, in := range b.Instrs {
				switch x := in.(type) {
				case *ssa.Call:
					if calleeName(x.Common()) != "builtin:clear" {
						continue
					}
					nClear++
					sl, ok := x.Common().Args[0].(*ssa.Slice)
					if !ok || !isEntries(v, sl.X) || !match(sl.Low, sl.High) {
						c.Fail(rule, v.Name()+":cleared-range", x.Pos(), "clear("+v.S.Sym(x.Common().Args[0])+") is not the range of one of the copies")
					}
				case *ssa.Store:
					ia, ok := x.Addr.(*ssa.IndexAddr)
					if !ok || !isEntries(v, ia.X) {
						continue
					}
					nClear++
					k, isK := x.Val.(*ssa.Const)
					low, high, okLoop := loopRange(ia.Index, x.Block())
					if !isK || !k.IsNil() || !okLoop || !match(low, high) {
						c.Fail(rule, v.Name()+":cleared-range", x.Pos(), "the slots set to nil are not exactly the range of one of the copies: index "+v.S.Sym(ia.Index))
					}
				}
			}
		}
		c.Check(nClear == 2 && matched[p1.call] == 1 && matched[p2.call] == 1, rule, v.Name()+":each-piece-cleared-once", fn.Pos(),
			fmt.Sprintf("%d clearing construct(s); first piece cleared %d time(s), wrapped piece %d time(s)", nClear, matched[p1.call], matched[p2.call]))
	}
}

func nonNil(a, b ssa.Value) ssa.Value {
	if a != nil {
		return a
	}
	return b
}

func isZeroValue(v ssa.Value) bool {
	if v == nil {
		return true
	}
	return isZeroConst(v)
}

// loadOfSame: both are loads of the same field address expression (no store in between is assumed
// only for the index member, whose single update the rule checks separately).
func loadOfSame(a, b ssa.Value) bool {
	ua, ok1 := a.(*ssa.UnOp)
	ub, ok2 := b.(*ssa.UnOp)
	if !ok1 || !ok2 || ua.Op != token.MUL || ub.Op != token.MUL {
		return false
	}
	fa, ok1 := ua.X.(*ssa.FieldAddr)
	fb, ok2 := ub.X.(*ssa.FieldAddr)
	return ok1 && ok2 && fa.X == fb.X && fa.Field == fb.Field
}

// loopRange: idx runs from low (nil: 0) in steps of 1 while < high, as seen from
// the block blk that uses it.
func loopRange(idx ssa.Value, blk *ssa.BasicBlock) (low, high ssa.Value, ok bool) {
	phi, isPhi := idx.(*ssa.Phi)
	if !isPhi {
		return nil, nil, false
	}
	step := false
	for _, e := range phi.Edges {
		if bo, isB := e.(*ssa.BinOp); isB && bo.Op == token.ADD && bo.X == ssa.Value(phi) {
			if k, isK := foldInt(bo.Y); isK && k == 1 {
				step = true
				continue
			}
		}
		if low != nil {
			return nil, nil, false
		}
		low = e
	}
	if !step || low == nil {
		return nil, nil, false
	}
	// the bound: a literal lt(idx, B) or lt(idx+1, B) (rotated range loop) that holds when blk runs
	for _, l := range append(dominatingLits(blk), blockLitsIn(blk)...) {
		if l.Kind != "lt" || !l.Pos {
			continue
		}
		if l.X == ssa.Value(phi) {
			return low, l.Y, true
		}
	}
	// rotated `for i := range n`: entry guarded by 0 < n, back edge by i+1 < n
	for _, l := range litsOnEdge(blk, blk) {
		if l.Kind == "lt" && l.Pos {
			if bo, isB := l.X.(*ssa.BinOp); isB && bo.Op == token.ADD && bo.X == ssa.Value(phi) {
				return low, l.Y, true
			}
		}
	}
	return nil, nil, false
}

func blockLitsIn(b *ssa.BasicBlock) []Lit { return nil }
