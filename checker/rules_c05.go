package main

var noInlineDefault = []string{"pkg/log.*", "pkg/private/serrors.*", "*prometheus*", "pkg/metrics*"}

const (
	dispDiscard = "0:router.disposition"
	dispForward = "1:router.disposition"
	dispSlow    = "2:router.disposition"
)

func boolDom() []string { return []string{"true", "false"} }

func init() {
	register(&PropRule{
		ID:    "C05",
		Roots: []string{"./router"},
		Explain: "Decides the complete decision tables of validateSrcDstIA (32 cells over ingress " +
			"internal/external, src local, dst local, first hop, last hop) and " +
			"validateTransitUnderlaySrc (first hop, ingress, arrival link == link owning the " +
			"hop's ingress interface) against the table of the property statement, including " +
			"the SCMP code and pointer of each rejecting cell; and on all CFG paths of process(): " +
			"the three validators precede every forwarding return, local delivery happens only " +
			"on the DstIA==localIA edge. NOT decided: correctness of IsFirstHop/IsLastHop " +
			"arithmetic (C19), address parsing.",
		Run: runC05,
	})
	setClaim("C05", claim{
		Text: "Exhaustive decision tables (conditional constant propagation over the SSA of the " +
			"validators, every abstract input vector) compared with the specification table, plus " +
			"guard dominance of the validators over every forwarding return of process().",
		Note: claimNote, Technique: "static analysis: decision-table extraction by conditional constant " +
			"propagation + guard dominance on the CFG", Ref: "DESIGN.md §4 C05, Appendix A.3"})
	addMutants(
		Mutant{Prop: "C05", Name: "lasthop-and", File: "router/dataplane.go",
			Old: `if p.path.IsLastHop() != dstIsLocal {`, New: `if p.path.IsLastHop() && !dstIsLocal {`,
			Expect: "T1-src-dst-table"},
		Mutant{Prop: "C05", Name: "transit-src-unchecked", File: "router/dataplane.go",
			Old: `	if ingressLink != p.pkt.Link {
		// Drop`, New: `	if ingressLink != p.pkt.Link && ingressLink == nil {
		// Drop`, Expect: "T2-transit-underlay-table"},
		Mutant{Prop: "C05", Name: "srcia-only-first-hop-inbound", File: "router/dataplane.go",
			Old: `		if srcIsLocal {
			return p.respInvalidSrcIA()
		}`, New: `		if srcIsLocal && p.path.IsFirstHop() {
			return p.respInvalidSrcIA()
		}`, Expect: "T1-src-dst-table"},
		Mutant{Prop: "C05", Name: "skip-srcdst-for-peering", File: "router/dataplane.go",
			Old: `	if disp := p.validateSrcDstIA(); disp != pForward {
		return disp
	}`, New: `	if !p.peering {
		if disp := p.validateSrcDstIA(); disp != pForward {
			return disp
		}
	}`, Expect: "G1-validators-before-forward"},
		Mutant{Prop: "C05", Name: "wrong-pointer", File: "router/dataplane.go",
			Old:    `pointer: uint16(slayers.CmnHdrLen + addr.IABytes),`,
			New:    `pointer: uint16(slayers.CmnHdrLen),`,
			Expect: "T1-src-dst-table"},
	)
}

const claimNote = "Trusted: go/types, go/ssa and VTA of x/tools v0.50.0, the Go 1.26.8 front end, and " +
	"the hand-confirmed rule tables (which callee is the guard, which field is the source, the " +
	"specification tables). Third-party/stdlib callees are atoms with their documented meaning. " +
	"A structural necessary condition is decided on every CFG path of the named functions; " +
	"the behavioural property in full is not proved."

func iaEqPats(field string) []string {
	return []string{
		"(recv.d.localIA == recv.scionLayer." + field + ")",
		"(pkg/addr.IA).Equal(recv.scionLayer." + field + ", recv.d.localIA)",
		"(pkg/addr.IA).Equal(recv.d.localIA, recv.scionLayer." + field + ")",
	}
}

func runC05(c *Ctx) {
	procStateFresh(c, "S1-per-packet-state")
	peeringKnownBeforeUse(c, "O1-peering-known-before-use")
	c05IngressInterface(c)
	pp := "4:router.slowPathType" // slowPathType(SCMPTypeParameterProblem)
	invSrc := c.Const("pkg/slayers.SCMPCodeInvalidSourceAddress")
	invDst := c.Const("pkg/slayers.SCMPCodeInvalidDestinationAddress")
	if fn := c.Fn(procT + ".validateSrcDstIA"); fn != nil {
		RunTable(c, &TableSpec{
			Rule: "T1-src-dst-table", Fn: fn, NoInline: noInlineDefault,
			Atoms: []Atom{
				{Name: "internal", Pats: []string{"(recv.ingressFromLink == 0)"}, Domain: boolDom()},
				{Name: "srcLocal", Pats: iaEqPats("SrcIA"), Domain: boolDom()},
				{Name: "dstLocal", Pats: iaEqPats("DstIA"), Domain: boolDom()},
				{Name: "first", Pats: []string{"(*pkg/slayers/path/scion.Raw).IsFirstHop(recv.path)"},
					Domain: boolDom()},
				{Name: "last", Pats: []string{"(*pkg/slayers/path/scion.Raw).IsLastHop(recv.path)"},
					Domain: boolDom()},
			},
			Effects: []string{"local:complit.*"},
			Oracle: func(a map[string]string) map[string]string {
				rejSrc := map[string]string{"ret": dispSlow, "local:complit.spType": pp,
					"local:complit.code": invSrc, "local:complit.pointer": "20"} // 12 + 8
				rejDst := map[string]string{"ret": dispSlow, "local:complit.spType": pp,
					"local:complit.code": invDst, "local:complit.pointer": "12"}
				ok := map[string]string{"ret": dispForward, "local:complit.code": ""}
				if a["internal"] == "true" {
					if a["first"] == "true" && a["srcLocal"] == "false" {
						return rejSrc
					}
					if a["dstLocal"] == "true" {
						return rejDst
					}
					return ok
				}
				if a["srcLocal"] == "true" {
					return rejSrc
				}
				if (a["last"] == "true") != (a["dstLocal"] == "true") {
					return rejDst
				}
				return ok
			},
		})
	}
	if fn := c.Fn(procT + ".validateTransitUnderlaySrc"); fn != nil {
		RunTable(c, &TableSpec{
			Rule: "T2-transit-underlay-table", Fn: fn, NoInline: append([]string{procT + ".ingressInterface"}, noInlineDefault...),
			Atoms: []Atom{
				{Name: "first", Pats: []string{"(*pkg/slayers/path/scion.Raw).IsFirstHop(recv.path)"},
					Domain: boolDom()},
				{Name: "external", Pats: []string{"(recv.ingressFromLink != 0)"}, Domain: boolDom()},
				{Name: "otherLink", Pats: []string{
					"(recv.d.interfaces[" + procT + ".ingressInterface(recv)] != recv.pkt.Link)"},
					Domain: boolDom()},
			},
			Oracle: func(a map[string]string) map[string]string {
				if a["first"] == "true" || a["external"] == "true" {
					return map[string]string{"ret": dispForward}
				}
				if a["otherLink"] == "true" {
					return map[string]string{"ret": dispDiscard}
				}
				return map[string]string{"ret": dispForward}
			},
		})
	}
	// guard dominance in process()
	if fn := c.Fn(procT + ".process"); fn != nil {
		e := NewE1(c, fn)
		sinks := e.SuccessReturns()
		e.Require("G1-validators-before-forward", "success-returns", nil, sinks,
			e.CallGuard(PassFwd, procT+".validateSrcDstIA"),
			e.CallGuard(PassFwd, procT+".validateTransitUnderlaySrc"),
			e.CallGuard(PassFwd, procT+".validateSrcHost"))
		// local delivery (resolveInbound) only on the DstIA == localIA edge
		ri := e.CallSites(procT + ".resolveInbound")
		c.Min("process:calls-resolveInbound", len(ri), 1)
		e.Require("G2-local-delivery-only-for-local-dst", "resolveInbound", nil, ri,
			e.AtomGuard("DstIA==localIA",
				"+eq(recv.d.localIA, recv.scionLayer.DstIA)",
				"+true((pkg/addr.IA).Equal(recv.scionLayer.DstIA, recv.d.localIA))",
				"+true((pkg/addr.IA).Equal(recv.d.localIA, recv.scionLayer.DstIA))"))
		// and non-local forwarding (egress selection) only on the other edge
		eg := e.CallSites(procT + ".egressInterface")
		c.Min("process:calls-egressInterface", len(eg), 1)
		e.Require("G2-local-delivery-only-for-local-dst", "egressInterface", nil, eg,
			e.AtomGuard("DstIA!=localIA",
				"-eq(recv.d.localIA, recv.scionLayer.DstIA)",
				"-true((pkg/addr.IA).Equal(recv.scionLayer.DstIA, recv.d.localIA))",
				"-true((pkg/addr.IA).Equal(recv.d.localIA, recv.scionLayer.DstIA))"))
	}
}
