package main

import (
	"fmt"
	"sort"
	"strings"

	"golang.org/x/tools/go/ssa"
)

// C43, parser side: each grammar rule builds the condition it stands for. The
// grammar's rule names (condAny, condAll, condNot, matchSrc, ...) are fixed by
// the generated parser; the listener method of a rule must construct the
// condition / predicate of the same meaning and push exactly that. A listener
// that builds CondAllOf for "any(...)" or a source matcher for "dst=" parses
// and prints consistently with itself and still changes the value of every
// expression.
func init() {
	addMutants(
		Mutant{Prop: "C43", Name: "any-parsed-as-all", File: "gateway/pktcls/parse.go",
			Old: `	l.pushCond(NewCondAnyOf(conds...))`, New: `	l.pushCond(NewCondAllOf(conds...))`, Expect: "L1-listener-builds"},
		Mutant{Prop: "C43", Name: "dst-parsed-as-source-matcher", File: "gateway/pktcls/parse.go",
			Old: `	mdst := &IPv4MatchDestination{}`, New: `	mdst := &IPv4MatchSource{}`, Expect: "L1-listener-builds"},
	)
}

func c43ListenerBuilds(c *Ctx) {
	rule := "L1-listener-builds"
	pk := "gateway/pktcls."
	lT := "(*" + pk + "classListener)."
	want := map[string][]string{
		"ExitCondAny":            {"call:" + pk + "NewCondAnyOf"},
		"ExitCondAll":            {"call:" + pk + "NewCondAllOf"},
		"ExitCondNot":            {"call:" + pk + "NewCondNot"},
		"EnterMatchSrc":          {"call:" + pk + "NewCondIPv4", "new:" + pk + "IPv4MatchSource"},
		"EnterMatchDst":          {"call:" + pk + "NewCondIPv4", "new:" + pk + "IPv4MatchDestination"},
		"EnterMatchDSCP":         {"call:" + pk + "NewCondIPv4", "new:" + pk + "IPv4MatchDSCP"},
		"EnterMatchTOS":          {"call:" + pk + "NewCondIPv4", "new:" + pk + "IPv4MatchToS"},
		"EnterMatchProtocol":     {"call:" + pk + "NewCondIPv4", "new:" + pk + "IPv4MatchProtocol"},
		"EnterMatchSrcPort":      {"call:" + pk + "NewCondPorts", "new:" + pk + "PortMatchSource"},
		"EnterMatchSrcPortRange": {"call:" + pk + "NewCondPorts", "new:" + pk + "PortMatchSource"},
		"EnterMatchDstPort":      {"call:" + pk + "NewCondPorts", "new:" + pk + "PortMatchDestination"},
		"EnterMatchDstPortRange": {"call:" + pk + "NewCondPorts", "new:" + pk + "PortMatchDestination"},
	}
	n := 0
	for m, exp := range want {
		v := c.View(lT + m)
		if v == nil {
			continue
		}
		n++
		got := map[string]bool{}
		pushed := ""
		for _, b := range v.Fn.Blocks {
			for _, in := range b.Instrs {
				switch x := in.(type) {
				case *ssa.Alloc:
					t := typeShort(x.Type())
					if strings.HasPrefix(t, "*"+pk) && (strings.Contains(t, "Match")) {
						got["new:"+strings.TrimPrefix(t, "*")] = true
					}
				case *ssa.Call:
					name := calleeName(x.Common())
					if strings.HasPrefix(name, pk+"NewCond") {
						got["call:"+name] = true
					}
					if name == lT+"pushCond" {
						pushed = v.S.Sym(x.Common().Args[1])
					}
				}
			}
		}
		var gl []string
		for k := range got {
			gl = append(gl, k)
		}
		sort.Strings(gl)
		el := append([]string{}, exp...)
		sort.Strings(el)
		ok := strings.Join(gl, " ") == strings.Join(el, " ")
		// what is pushed is the condition built by the constructor
		okPush := strings.HasPrefix(pushed, strings.TrimPrefix(exp[0], "call:")+"(")
		c.Check(ok && okPush, rule, v.Name()+":builds", v.Fn.Pos(),
			fmt.Sprintf("builds %v and pushes %s; required %v", gl, pushed, el))
	}
	c.Min("classListener-rules", n, len(want))
	// all / any / not take what the stack holds: operands in order
	for _, m := range []string{"ExitCondAny", "ExitCondAll"} {
		if v := c.View(lT + m); v != nil {
			ok := false
			for _, ci := range v.Calls(pk + "NewCond*") {
				ok = len(ci.Args) == 1 && ci.Args[0] == lT+"popConds(recv)"
			}
			c.Check(ok, rule, v.Name()+":operands", v.Fn.Pos(), "the operands are the conditions collected since the matching Enter")
		}
	}
}
