package main

import (
	"fmt"
	"go/token"
	"strings"

	"golang.org/x/tools/go/ssa"
)

func init() {
	register(&PropRule{
		ID:    "C42",
		Roots: []string{"./gateway/dataplane", "./gateway/routing", "./gateway/pktcls"},
		Explain: "Decides the structural clauses of gateway routing. (R1) RoutingTable.route keeps a running (session, " +
			"mask length): an entry replaces it exactly when its prefix Contains the destination and its mask " +
			"length is NOT SMALLER than the best so far (initially 0, so a /0 default route is eligible); both " +
			"values are replaced together, the session by that entry's own route(pkt), the length by that " +
			"entry's Prefix.Mask.Size(); all entries are visited and the running session is what is returned. " +
			"(R2) entry.route returns the Session of the first class whose Eval(pkt) is true - the session of " +
			"that same sub-entry - and nil after all classes failed. (F1) IPForwarder.Run writes a packet " +
			"only to a non-nil session that is the result of RouteIPv4/RouteIPv6 for that packet's network " +
			"layer, and an IPv4 packet is routed only if MoreFragments is clear and the fragment offset is 0. " +
			"(P1) Policy.Match: the accept-all universe is added exactly for DefaultAction == Accept; rules " +
			"are applied from the LAST to the first (index from len-1 down to 0), so that the first matching " +
			"rule has the last word; a rule is applied only if both From and To match; Accept adds, Reject " +
			"removes the rule's network set; the result is intersected with the given prefix. NOT decided: " +
			"marshal/unmarshal round trip of policies, AdvertiseList.",
		Run: runC42,
	})
	setClaim("C42", claim{
		Text: "Running-maximum structure and replace condition of the routing table, first-matching-class rule, " +
			"forwarder guards, policy rule order and actions.",
		Note: claimNote, Technique: "static analysis: phi-edge structure of running values, guard dominance, loop-direction " +
			"extraction, call-argument pairing",
		Ref: "DESIGN.md §4 C42"})
	rf := "gateway/dataplane/routingtable.go"
	addMutants(
		Mutant{Prop: "C42", Name: "default-route-never-chosen", File: rf,
			Old: `		if m < highestMask {`, New: `		if m <= highestMask {`, Expect: "R1-most-specific"},
		Mutant{Prop: "C42", Name: "first-containing-prefix-wins", File: rf,
			Old: `		if m < highestMask {
			continue
		}
		highestMask = m
		ret = e.route(pkt)`, New: `		if m < highestMask {
			continue
		}
		highestMask = m
		ret = e.route(pkt)
		break`, Expect: "R1-most-specific"},
		Mutant{Prop: "C42", Name: "mask-not-remembered", File: rf,
			Old: `		highestMask = m
		ret = e.route(pkt)`, New: `		ret = e.route(pkt)`, Expect: "R1-most-specific"},
		Mutant{Prop: "C42", Name: "last-matching-class-wins", File: rf,
			Old: `		if sub.Class.Eval(pkt) {
			return sub.Session
		}
	}
	return nil`, New: `		if sub.Class.Eval(pkt) {
			ret = sub.Session
		}
	}
	return ret`, More: []Edit{{File: rf, Old: `func (e *entry) route(pkt gopacket.Layer) control.PktWriter {
	for _, sub := range e.Table {`, New: `func (e *entry) route(pkt gopacket.Layer) control.PktWriter {
	var ret control.PktWriter
	for _, sub := range e.Table {`}}, Expect: "R2-first-class"},
		Mutant{Prop: "C42", Name: "fragments-with-offset-forwarded", File: "gateway/dataplane/ipforwarder.go",
			Old: `			if ip.Flags&layers.IPv4MoreFragments != 0 || ip.FragOffset != 0 {`,
			New: `			if ip.Flags&layers.IPv4MoreFragments != 0 {`, Expect: "F1-forwarder"},
		Mutant{Prop: "C42", Name: "rules-applied-forward", File: "gateway/routing/policy.go",
			Old: `	for i := len(p.Rules) - 1; i >= 0; i-- {
		rule := p.Rules[i]`, New: `	for i := 0; i < len(p.Rules); i++ {
		rule := p.Rules[i]`, Expect: "P1-policy-order"},
		Mutant{Prop: "C42", Name: "rule-needs-only-source", File: "gateway/routing/policy.go",
			Old: `		if !rule.From.Match(from) || !rule.To.Match(to) {`, New: `		if !rule.From.Match(from) && !rule.To.Match(to) {`, Expect: "P1-policy-order"},
		Mutant{Prop: "C42", Name: "default-reject-adds-universe", File: "gateway/routing/policy.go",
			Old: `	if p.DefaultAction == Accept {`, New: `	if p.DefaultAction != Reject {`, Expect: "P1-policy-order"},
	)
}

func runC42(c *Ctx) {
	ipv4PredicateMeaning(c, "E2-ipv4-predicate-meaning")
	c42PolicyText(c)
	dT := "gateway/dataplane."
	if v := c.View("(*" + dT + "RoutingTable).route"); v != nil {
		rule := "R1-most-specific"
		fn := v.Fn
		e := NewE1(c, fn)
		// running values: session phi and mask phi in the loop header
		var sess, mask *ssa.Phi
		for _, b := range fn.Blocks {
			if !cyclic(b) {
				continue
			}
			for _, in := range b.Instrs {
				phi, ok := in.(*ssa.Phi)
				if !ok {
					continue
				}
				for _, ed := range phi.Edges {
					if call, _ := callOf(ed); call != nil {
						switch calleeName(call.Common()) {
						case "(*" + dT + "entry).route":
							sess = phi
						case "(net.IPMask).Size":
							mask = phi
						}
					}
				}
			}
		}
		if sess == nil || mask == nil {
			c.Fail(rule, v.Name()+":running-values", fn.Pos(), "running (session, mask length) not found (anchor unresolved)")
		} else {
			// initial values and joint replacement
			upd := map[*ssa.BasicBlock]int{}
			okInit := true
			var entryOfSess, entryOfMask ssa.Value
			for i, ed := range sess.Edges {
				if ed == ssa.Value(sess) {
					continue
				}
				if isNilConst(ed) {
					continue
				}
				if call, _ := callOf(ed); call != nil {
					upd[sess.Block().Preds[i]]++
					entryOfSess = rootOf(call.Common().Args[0])
					okInit = okInit && v.S.Sym(call.Common().Args[1]) == "arg1"
				} else {
					okInit = false
				}
			}
			for i, ed := range mask.Edges {
				if ed == ssa.Value(mask) {
					continue
				}
				if k, isK := foldInt(ed); isK {
					okInit = okInit && k == 0
					continue
				}
				if ex, isEx := ed.(*ssa.Extract); isEx && ex.Index == 0 {
					upd[mask.Block().Preds[i]]++
					if call, _ := callOf(ed); call != nil {
						entryOfMask = rootOf(call.Common().Args[0])
						okInit = okInit && strings.HasSuffix(accessPath(call.Common().Args[0]), ".Prefix.Mask")
					}
				} else {
					okInit = false
				}
			}
			okJoint := len(upd) >= 1
			var updBlocks []ssa.Instruction
			for b, n := range upd {
				okJoint = okJoint && n == 2
				updBlocks = append(updBlocks, b.Instrs[0])
			}
			c.Check(okInit && okJoint && entryOfSess != nil && entryOfSess == entryOfMask, rule, v.Name()+":running-pair", fn.Pos(), fmt.Sprintf(
				"session starts nil and mask length 0; both replaced on the same %d edge(s) by route(pkt) and Prefix.Mask.Size() of one entry", len(upd)))
			// replace condition
			var sizeVal ssa.Value
			for _, ed := range mask.Edges {
				if ex, ok := ed.(*ssa.Extract); ok {
					sizeVal = ex
				}
			}
			contains := Guard{Name: "prefix-contains-destination", Match: func(l Lit) bool {
				if l.Kind != "true" || !l.Pos {
					return false
				}
				call, ok := l.X.(*ssa.Call)
				return ok && calleeName(call.Common()) == "(*net.IPNet).Contains" && v.S.Sym(call.Common().Args[1]) == "arg0" &&
					rootOf(call.Common().Args[0]) == entryOfMask
			}}
			notSmaller := Guard{Name: "!(mask < best)", Match: func(l Lit) bool {
				return l.Kind == "lt" && !l.Pos && l.X == sizeVal && l.Y == ssa.Value(mask)
			}}
			e.Require(rule, "replace-condition", nil, updBlocks, contains, notSmaller)
			// the replacement is taken whenever the condition holds: the only other branch out
			// of the comparison block is the strict "smaller" edge
			okOnly := false
			for _, b := range fn.Blocks {
				for i := range b.Succs {
					lits, _ := edgeLits(b, i, nil)
					for _, l := range lits {
						if notSmaller.Match(l) && upd[b.Succs[i]] == 2 {
							okOnly = true
						}
					}
				}
			}
			c.Check(okOnly, rule, v.Name()+":replacement-taken", fn.Pos(), "the !(mask < best) edge leads straight to the replacement")
			okRet := true
			for _, r := range e.AllReturns() {
				okRet = okRet && r.(*ssa.Return).Results[0] == ssa.Value(sess)
			}
			c.Check(okRet, rule, v.Name()+":returns-running-session", fn.Pos(), "returns the running session")
			e.Require(rule, "all-entries-visited", nil, e.AllReturns(), e.AtomGuard("loop-exhausted", "-lt(*, builtin:len(recv.table))"))
			// nothing but the range condition leaves the loop
			exits := 0
			for _, b := range fn.Blocks {
				if !inLoopWith(b, sess.Block()) && b != sess.Block() {
					continue
				}
				for _, s := range b.Succs {
					if s != sess.Block() && !inLoopWith(s, sess.Block()) {
						exits++
					}
				}
			}
			c.Check(exits == 1, rule, v.Name()+":single-loop-exit", fn.Pos(), fmt.Sprintf("%d edge(s) leave the loop (only the exhausted range may)", exits))
		}
	}
	for _, q := range []string{"RouteIPv4", "RouteIPv6"} {
		if v := c.View("(*" + dT + "RoutingTable)." + q); v != nil {
			v.RequireCallArgs("R1-most-specific", 1, "(*"+dT+"RoutingTable).route", "recv", "*.DstIP")
		}
	}
	if v := c.View("(*" + dT + "entry).route"); v != nil {
		rule := "R2-first-class"
		e := NewE1(c, v.Fn)
		n, ok := 0, true
		for _, r := range e.AllReturns() {
			ret := r.(*ssa.Return)
			n++
			if isNilConst(ret.Results[0]) {
				if ws := e.Unguarded(nil, []ssa.Instruction{ret}, []Guard{e.AtomGuard("all-classes-tried", "-lt(*, builtin:len(recv.Table))")}); len(ws) > 0 {
					ok = false
				}
				continue
			}
			// Session of the element whose class evaluated to true
			el := rootOf(ret.Results[0])
			if !strings.HasSuffix(accessPath(ret.Results[0]), ".Session") {
				ok = false
				continue
			}
			g := Guard{Name: "class-of-this-element-matches", Match: func(l Lit) bool {
				if l.Kind != "true" || !l.Pos {
					return false
				}
				call, isCall := l.X.(*ssa.Call)
				return isCall && strings.HasSuffix(calleeName(call.Common()), ".Eval") && rootOf(call.Common().Value) == el &&
					strings.HasSuffix(accessPath(call.Common().Value), ".Class") && v.S.Sym(call.Common().Args[0]) == "arg0"
			}}
			if ws := e.Unguarded(nil, []ssa.Instruction{ret}, []Guard{g}); len(ws) > 0 {
				ok = false
			}
		}
		c.Check(ok && n == 2, rule, v.Name()+":first-match", v.Fn.Pos(), "returns sub.Session inside the loop behind sub.Class.Eval(pkt), nil after the loop")
		// the true edge of Eval returns at once
		okImm := false
		for _, b := range v.Fn.Blocks {
			for i := range b.Succs {
				lits, _ := edgeLits(b, i, nil)
				for _, l := range lits {
					if call, isCall := l.X.(*ssa.Call); isCall && l.Kind == "true" && l.Pos && strings.HasSuffix(calleeName(call.Common()), ".Eval") {
						if _, isRet := b.Succs[i].Instrs[len(b.Succs[i].Instrs)-1].(*ssa.Return); isRet {
							okImm = true
						}
					}
				}
			}
		}
		c.Check(okImm, rule, v.Name()+":returns-at-first-match", v.Fn.Pos(), "a matching class ends the search")
	}
	if v := c.View("(*" + dT + "IPForwarder).Run"); v != nil {
		rule := "F1-forwarder"
		e := NewE1(c, v.Fn)
		var writes []ssa.Instruction
		var sess ssa.Value
		for _, b := range v.Fn.Blocks {
			for _, in := range b.Instrs {
				if ci, ok := in.(ssa.CallInstruction); ok && calleeName(ci.Common()) == "invoke:gateway/control.PktWriter.Write" {
					writes = append(writes, in)
					sess = ci.Common().Value
				}
			}
		}
		c.Min("IPForwarder.Run:session-writes", len(writes), 1)
		if sess != nil {
			e.Require(rule, "write", nil, writes, Guard{Name: "session!=nil", Match: func(l Lit) bool {
				return l.Kind == "eq" && !l.Pos && l.X == sess && isNilConst(l.Y)
			}})
			// the session comes from the routing table (or is nil)
			okSrc := false
			if phi, ok := sess.(*ssa.Phi); ok {
				okSrc = true
				for _, ed := range phi.Edges {
					if isNilConst(ed) {
						continue
					}
					call, _ := callOf(ed)
					if call == nil || !strings.Contains(calleeName(call.Common()), "RoutingTableReader.RouteIPv") {
						okSrc = false
					}
				}
			}
			c.Check(okSrc, rule, v.Name()+":session-source", v.Fn.Pos(), "the session written to is the routing table's answer for this packet")
		}
		var r4 []ssa.Instruction
		for _, b := range v.Fn.Blocks {
			for _, in := range b.Instrs {
				if ci, ok := in.(ssa.CallInstruction); ok && strings.HasSuffix(calleeName(ci.Common()), "RoutingTableReader.RouteIPv4") {
					r4 = append(r4, in)
				}
			}
		}
		c.Min("IPForwarder.Run:RouteIPv4", len(r4), 1)
		noMF := Guard{Name: "MoreFragments clear", Match: func(l Lit) bool {
			if l.Kind != "eq" || !l.Pos {
				return false
			}
			bo, ok := stripConv(l.X).(*ssa.BinOp)
			k, isK := foldInt(l.Y)
			if !ok || bo.Op != token.AND || !isK || k != 0 {
				return false
			}
			m, isM := foldInt(bo.Y)
			return isM && m == 1 && strings.HasSuffix(accessPath(bo.X), ".Flags")
		}}
		noOff := Guard{Name: "FragOffset == 0", Match: func(l Lit) bool {
			k, isK := foldInt(l.Y)
			return l.Kind == "eq" && l.Pos && isK && k == 0 && strings.HasSuffix(accessPath(l.X), ".FragOffset")
		}}
		e.Require(rule, "ipv4-not-a-fragment", nil, r4, noMF, noOff)
	}
	// P1
	if v := c.View("(gateway/routing.Policy).Match"); v != nil {
		rule := "P1-policy-order"
		e := NewE1(c, v.Fn)
		accept, reject := c.Const("gateway/routing.Accept"), c.Const("gateway/routing.Reject")
		bT := "(*go4.org/netipx.IPSetBuilder)."
		var uni, add, rem []ssa.Instruction
		for _, ci := range v.Calls(bT + "AddPrefix") {
			if ci.Args[0] == "local:sb" {
				uni = append(uni, ci.In)
			}
		}
		for _, ci := range v.Calls(bT + "AddSet") {
			add = append(add, ci.In)
		}
		for _, ci := range v.Calls(bT + "RemoveSet") {
			rem = append(rem, ci.In)
		}
		c.Min("Policy.Match:universe-adds", len(uni), 2)
		c.Min("Policy.Match:AddSet", len(add), 1)
		c.Min("Policy.Match:RemoveSet", len(rem), 1)
		e.Require(rule, "universe-only-for-default-accept", nil, uni, e.AtomGuard("default==Accept", "+eq(recv.DefaultAction, "+accept+")"))
		ruleAt := "recv.Rules[*]"
		from := e.AtomGuard("from-matches", "+true(invoke:gateway/routing.IAMatcher.Match("+ruleAt+".From; arg0))")
		to := e.AtomGuard("to-matches", "+true(invoke:gateway/routing.IAMatcher.Match("+ruleAt+".To; arg1))")
		e.Require(rule, "accept-adds", nil, add, from, to, e.AtomGuard("action==Accept", "+eq("+ruleAt+".Action, "+accept+")"))
		e.Require(rule, "reject-removes", nil, rem, from, to, e.AtomGuard("action==Reject", "+eq("+ruleAt+".Action, "+reject+")"))
		// the set added/removed is the rule's own network
		okSet := true
		for _, in := range append(append([]ssa.Instruction{}, add...), rem...) {
			a := v.S.Sym(in.(ssa.CallInstruction).Common().Args[1])
			okSet = okSet && wild("(gateway/routing.NetworkMatcher).IPSet("+ruleAt+".Network)#0", a)
		}
		c.Check(okSet, rule, v.Name()+":rule-network", v.Fn.Pos(), "AddSet/RemoveSet use the matching rule's Network.IPSet()")
		// the converse: a rule whose From and To match IS applied - a way round the loop that
		// neither adds nor removes crosses a failed From/To match (or an action that is neither)
		var applied []*ssa.BasicBlock
		for _, in := range append(append([]ssa.Instruction{}, add...), rem...) {
			applied = append(applied, in.Block())
		}
		okConv, inLoop := loopSkipsOnlyVia(v, applied, []string{
			"-true(invoke:gateway/routing.IAMatcher.Match(" + ruleAt + ".From; arg0))",
			"-true(invoke:gateway/routing.IAMatcher.Match(" + ruleAt + ".To; arg1))",
			"-eq(" + ruleAt + ".Action, " + reject + ")"})
		c.Check(okConv && inLoop, rule, v.Name()+":matching-rule-is-applied", v.Fn.Pos(),
			"no rule whose From and To match is skipped: every way round the loop that neither adds nor removes crosses a failed match")
		// loop direction: i starts at len-1, steps by -1, runs while i >= 0
		okDir := false
		for _, b := range v.Fn.Blocks {
			for _, in := range b.Instrs {
				phi, ok := in.(*ssa.Phi)
				if !ok || !cyclic(b) {
					continue
				}
				start, step := false, false
				for _, ed := range phi.Edges {
					bo, isB := ed.(*ssa.BinOp)
					if !isB || bo.Op != token.SUB {
						continue
					}
					k, isK := foldInt(bo.Y)
					if !isK || k != 1 {
						continue
					}
					if bo.X == ssa.Value(phi) {
						step = true
					} else if a := lenArg(bo.X); a != nil && v.S.Sym(a) == "recv.Rules" {
						start = true
					}
				}
				if start && step {
					// used as the index of recv.Rules and compared with 0
					idxUse, cmp := false, false
					for _, r := range *phi.Referrers() {
						switch x := r.(type) {
						case *ssa.IndexAddr:
							idxUse = idxUse || v.S.Sym(x.X) == "recv.Rules"
						case *ssa.BinOp:
							if k, isK := foldInt(x.Y); isK && k == 0 && (x.Op == token.GEQ || x.Op == token.LSS) {
								cmp = true
							}
						}
					}
					okDir = idxUse && cmp
				}
			}
		}
		c.Check(okDir, rule, v.Name()+":last-rule-first", v.Fn.Pos(), "rules are applied from index len-1 down to 0 (the first matching rule has the last word)")
		// intersection with the requested prefix
		v.RequireCallArgs(rule, 1, bT+"Intersect", "local:sb", bT+"IPSet(local:nb)#0")
		okNB := false
		for _, ci := range v.Calls(bT + "AddPrefix") {
			if ci.Args[0] == "local:nb" && ci.Args[1] == "arg2" {
				okNB = true
			}
		}
		c.Check(okNB, rule, v.Name()+":restricted-to-prefix", v.Fn.Pos(), "the result is intersected with the requested prefix")
	}
}
