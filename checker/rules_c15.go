package main

import (
	"sort"
	"strings"

	"golang.org/x/tools/go/ssa"
)

const spT = "(*router.slowPathPacketProcessor)"

func init() {
	register(&PropRule{
		ID:    "C15",
		Roots: []string{"./router/..."},
		Explain: "Decides: on all CFG paths of process() every non-local forwarding return is behind " +
			"a checked validateEgressUp(); the decision table of validateEgressUp (link up / " +
			"scope) yields ExternalInterfaceDown for external and InternalConnectivityDown for " +
			"other scopes; the slow-path dispatch table maps those requests to SCMP layers naming " +
			"localIA and the egress (and ingress) interface; the three Link.IsUp implementations " +
			"agree (no session ⇒ up, else Session.IsUp; internal always up) and Session.IsUp ⇔ " +
			"localState == stateUp; Link.Send is called only from the audited senders. NOT " +
			"decided: interleavings of state changes with packets in flight.",
		Run: runC15,
	})
	setClaim("C15", claim{
		Text: "Guard dominance of the BFD check over every non-local forwarding return, exhaustive " +
			"decision tables of validateEgressUp and of the slow-path request dispatch, sibling " +
			"agreement of the Link.IsUp implementations, who-may-call on Link.Send.",
		Note: claimNote, Technique: "static analysis: guard dominance, decision tables by conditional " +
			"constant propagation, sibling agreement, who-may-call over the resolved program",
		Ref: "DESIGN.md §4 C15"})
	addMutants(
		Mutant{Prop: "C15", Name: "drop-egress-up", File: "router/dataplane.go",
			Old: `	if disp := p.validateEgressUp(); disp != pForward {
		return disp
	}
`, New: "", Expect: "G1-bfd-check-before-forward"},
		Mutant{Prop: "C15", Name: "egress-up-only-external", File: "router/dataplane.go",
			Old: `	if !egressLink.IsUp() {
		log.Debug("SCMP response", "cause", errBFDSessionDown)`,
			New: `	if !egressLink.IsUp() && egressLink.Scope() == External {
		log.Debug("SCMP response", "cause", errBFDSessionDown)`,
			Expect: "T1-egress-up-table"},
		Mutant{Prop: "C15", Name: "detached-always-up", File: "router/underlayproviders/udpip/udpip.go",
			Old: `func (l *detachedLink) IsUp() bool {
	return l.bfdSession == nil || l.bfdSession.IsUp()`,
			New: `func (l *detachedLink) IsUp() bool {
	return l.bfdSession == nil || l.bfdSession != nil`,
			Expect: "S1-isup-siblings"},
		Mutant{Prop: "C15", Name: "isup-includes-init", File: "router/bfd/session.go",
			Old:    `up := s.getLocalState() == stateUp`,
			New:    `up := s.getLocalState() >= stateInit`,
			Expect: "S1-isup-siblings"},
		Mutant{Prop: "C15", Name: "ifdown-reports-ingress", File: "router/dataplane.go",
			Old: `				IA:   p.d.localIA,
				IfID: uint64(p.pkt.egress),`,
			New: `				IA:   p.d.localIA,
				IfID: uint64(p.ingressFromLink),`,
			Expect: "T2-slowpath-dispatch"},
	)
}

func runC15(c *Ctx) {
	procStateFresh(c, "S1-per-packet-state")
	if fn := c.Fn(procT + ".process"); fn != nil {
		e := NewE1(c, fn)
		eg := e.CallSites(procT + ".egressInterface")
		c.Min("process:calls-egressInterface", len(eg), 1)
		for _, x := range eg {
			e.Require("G1-bfd-check-before-forward", "after-egress-selection", x, e.SuccessReturns(),
				e.CallGuard(PassFwd, procT+".validateEgressUp"))
		}
	}
	extDown := "5:router.slowPathType"
	intDown := "6:router.slowPathType"
	c.Check(c.Const("pkg/slayers.SCMPTypeExternalInterfaceDown") == "5:pkg/slayers.SCMPType" &&
		c.Const("pkg/slayers.SCMPTypeInternalConnectivityDown") == "6:pkg/slayers.SCMPType",
		"T1-egress-up-table", "scmp-type-constants", 0, "ExternalInterfaceDown=5, InternalConnectivityDown=6")
	if fn := c.Fn(procT + ".validateEgressUp"); fn != nil {
		RunTable(c, &TableSpec{
			Rule: "T1-egress-up-table", Fn: fn, NoInline: noInlineDefault,
			Atoms: []Atom{
				{Name: "up", Pats: []string{"invoke:router.Link.IsUp(recv.d.interfaces[recv.pkt.egress]; )"},
					Domain: boolDom()},
				{Name: "scope", Pats: []string{"invoke:router.Link.Scope(recv.d.interfaces[recv.pkt.egress]; )"},
					Domain: scopeDom()},
			},
			Effects: []string{"local:complit.*"},
			Oracle: func(a map[string]string) map[string]string {
				if a["up"] == "true" {
					return map[string]string{"ret": dispForward, "local:complit.spType": ""}
				}
				if a["scope"] == "2:router.LinkScope" {
					return map[string]string{"ret": dispSlow, "local:complit.spType": extDown,
						"local:complit.code": "0:pkg/slayers.SCMPCode"}
				}
				return map[string]string{"ret": dispSlow, "local:complit.spType": intDown,
					"local:complit.code": "0:pkg/slayers.SCMPCode"}
			},
		})
	}
	slowPathDispatchTable(c, "T2-slowpath-dispatch")

	// Sibling agreement of IsUp implementations.
	for _, q := range []string{"(*router/underlayproviders/udpip.connectedLink).IsUp",
		"(*router/underlayproviders/udpip.detachedLink).IsUp"} {
		if fn := c.Fn(q); fn != nil {
			RunTable(c, &TableSpec{Rule: "S1-isup-siblings", Fn: fn,
				NoInline: append([]string{"(*router/bfd.Session).IsUp"}, noInlineDefault...),
				Atoms: []Atom{
					{Name: "noSession", Pats: []string{"(recv.bfdSession == nil)"}, Domain: boolDom()},
					{Name: "sessionUp", Pats: []string{"(*router/bfd.Session).IsUp(recv.bfdSession)"},
						Domain: boolDom()},
				},
				Oracle: func(a map[string]string) map[string]string {
					if a["noSession"] == "true" || a["sessionUp"] == "true" {
						return map[string]string{"ret": "true"}
					}
					return map[string]string{"ret": "false"}
				}})
		}
	}
	if fn := c.Fn("(*router/underlayproviders/udpip.internalLink).IsUp"); fn != nil {
		RunTable(c, &TableSpec{Rule: "S1-isup-siblings", Fn: fn, NoInline: noInlineDefault,
			Oracle: func(a map[string]string) map[string]string {
				return map[string]string{"ret": "true"}
			}})
	}
	if fn := c.Fn("(*router/bfd.Session).IsUp"); fn != nil {
		stUp := c.Const("router/bfd.stateUp")
		RunTable(c, &TableSpec{Rule: "S1-isup-siblings", Fn: fn,
			NoInline: append([]string{"(*router/bfd.Session).getLocalState"}, noInlineDefault...),
			Atoms: []Atom{
				{Name: "state", Pats: []string{"(*router/bfd.Session).getLocalState(recv)"},
					Domain: []string{"0:router/bfd.state", "1:router/bfd.state", "2:router/bfd.state",
						"3:router/bfd.state"}},
				{Name: "noLogger", Pats: []string{"(recv.testLogger != nil)"}, Domain: []string{"false"}},
			},
			Oracle: func(a map[string]string) map[string]string {
				if a["state"] == stUp {
					return map[string]string{"ret": "true"}
				}
				return map[string]string{"ret": "false"}
			}})
	}
	if v := c.View("(*router/bfd.Session).getLocalState"); v != nil {
		ok := false
		for _, b := range v.Fn.Blocks {
			if r, isRet := b.Instrs[len(b.Instrs)-1].(*ssa.Return); isRet {
				// the value may be spilled for the deferred unlock; follow one load
				s := v.S.Sym(r.Results[0])
				ok = s == "recv.localState"
			}
		}
		c.Check(ok, "S1-isup-siblings", v.Name()+":returns-localState", v.Fn.Pos(),
			"getLocalState returns s.localState")
	}
	whoCallsLinkSend(c, "W1-who-may-send")
}

// slowPathDispatchTable checks the mapping slow-path request → SCMP layer.
func slowPathDispatchTable(c *Ctx, rule string) {
	fn := c.Fn(spT + ".processPacket")
	if fn == nil {
		return
	}
	spDom := []string{"-2", "-1", "1", "4", "5", "6"}
	var dom []string
	for _, d := range spDom {
		dom = append(dom, d+":router.slowPathType")
	}
	RunTable(c, &TableSpec{
		Rule: rule, Fn: fn,
		NoInline: append([]string{"router.decodeLayers", spT + ".packSCMP",
			spT + ".handleSCMPTraceRouteRequest", spT + ".reset"}, noInlineDefault...),
		Atoms: []Atom{
			{Name: "decodeErr", Pats: []string{"(router.decodeLayers(*)#1 != nil)"}, Domain: []string{"false"}},
			{Name: "pathType", Pats: []string{"recv.scionLayer.PathType"},
				Domain: []string{"1:pkg/slayers/path.Type"}},
			{Name: "isRaw", Pats: []string{"recv.scionLayer.Path.(*pkg/slayers/path/scion.Raw)#1"},
				Domain: []string{"true"}},
			{Name: "spType", Pats: []string{"arg0.slowPathRequest.spType"}, Domain: dom},
		},
		Effects:      []string{"local:complit.*"},
		CallsTracked: []string{spT + ".packSCMP", spT + ".handleSCMPTraceRouteRequest"},
		Oracle: func(a map[string]string) map[string]string {
			pack := "call:" + spT + ".packSCMP"
			tr := "call:" + spT + ".handleSCMPTraceRouteRequest"
			switch strings.TrimSuffix(a["spType"], ":router.slowPathType") {
			case "-1":
				return map[string]string{tr: "yes", tr + ":arg1": "sym:recv.ingressFromLink || sym:invoke:router.Link.IfID(arg0.Link; )", pack: ""}
			case "-2":
				return map[string]string{tr: "yes", tr + ":arg1": "sym:recv.pkt.egress", pack: ""}
			case "4":
				return map[string]string{pack: "yes", pack + ":arg1": "4:pkg/slayers.SCMPType",
					pack + ":arg2": "sym:arg0.slowPathRequest.code", pack + ":arg4": "true",
					"local:complit.Pointer": "sym:arg0.slowPathRequest.pointer", tr: ""}
			case "1":
				return map[string]string{pack: "yes", pack + ":arg1": "1:pkg/slayers.SCMPType",
					pack + ":arg2": "sym:arg0.slowPathRequest.code", pack + ":arg4": "true", tr: ""}
			case "5":
				return map[string]string{pack: "yes", pack + ":arg1": "5:pkg/slayers.SCMPType",
					pack + ":arg4": "true", "local:complit.IA": "sym:recv.d.localIA",
					"local:complit.IfID": "sym:uint64(recv.pkt.egress)", tr: ""}
			case "6":
				return map[string]string{pack: "yes", pack + ":arg1": "6:pkg/slayers.SCMPType",
					pack + ":arg4": "true", "local:complit.IA": "sym:recv.d.localIA",
					"local:complit.Ingress": "sym:uint64(recv.ingressFromLink) || sym:uint64(invoke:router.Link.IfID(arg0.Link; ))",
					"local:complit.Egress":  "sym:uint64(recv.pkt.egress)", tr: ""}
			}
			return nil
		},
	})
}

// whoCallsLinkSend: Link.Send / SendBlocking are invoked only from the audited
// functions (each either checked the BFD state or is the BFD sender itself).
func whoCallsLinkSend(c *Ctx, rule string) {
	allowed := map[string]string{
		"(*router.dataPlane).runProcessor":         "forwards only after process() (validateEgressUp)",
		"(*router.dataPlane).runSlowPathProcessor": "replies on the ingress link",
		"(*router.bfdSend).Send":                   "BFD control packets must flow while the session is down",
		"(*router/underlayproviders/udpip.internalLink).runProcessor": "STUN replies on the internal link (no BFD)",
	}
	found := map[string]bool{}
	for _, pkgPath := range []string{"router", "router/underlayproviders/udpip", "router/bfd",
		"router/control", "router/cmd/router"} {
		sp := c.Prog.SSAPkgs[modPath+"/"+pkgPath]
		if sp == nil {
			continue
		}
		for fn := range c.Prog.AllFuncs() {
			if fn.Pkg != sp || fn.Blocks == nil {
				continue
			}
			for _, b := range fn.Blocks {
				for _, in := range b.Instrs {
					ci, ok := in.(ssa.CallInstruction)
					if !ok {
						continue
					}
					n := calleeName(ci.Common())
					if n == "invoke:router.Link.Send" || n == "invoke:router.Link.SendBlocking" {
						c.Calls++
						name := FuncName(fn)
						if fn.Parent() != nil {
							name = FuncName(fn.Parent())
						}
						found[name] = true
						if _, ok := allowed[name]; !ok {
							c.Fail(rule, "caller:"+name, in.Pos(),
								"calls Link.Send/SendBlocking but is not in the audited sender table")
						}
					}
				}
			}
		}
	}
	var names []string
	for n := range found {
		names = append(names, n)
	}
	sort.Strings(names)
	for _, n := range names {
		if why, ok := allowed[n]; ok {
			c.OK(rule, "caller:"+n, 0, why)
		}
	}
	c.Min(rule+":callers", len(found), 3)
}
