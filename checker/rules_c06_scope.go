package main

import (
	"fmt"
	"strings"

	"golang.org/x/tools/go/ssa"
)

// C06 (and every rule that branches on Link.Scope()): the scope a link reports
// is the scope of the kind of link it was created as. detachedLink (a sibling
// link without its own socket) and internalLink report constants; connectedLink
// reports a member that its only constructor fills from a parameter, and that
// parameter is External in NewExternalLink and Sibling in NewSiblingLink. A
// Scope() that reads a member no constructor sets reports the zero value,
// Internal, and every sibling check in the data plane is skipped for that link.
func c06LinkScopes(c *Ctx) {
	rule := "P2-link-scope-by-kind"
	up := "router/underlayproviders/udpip."
	ext, sib, internal := c.Const("router.External"), c.Const("router.Sibling"), c.Const("router.Internal")
	retOf := func(q string) (string, *ssa.Function) {
		v := c.View(q)
		if v == nil {
			return "", nil
		}
		out := ""
		for _, b := range v.Fn.Blocks {
			if r, ok := b.Instrs[len(b.Instrs)-1].(*ssa.Return); ok {
				if out != "" {
					out += " | "
				}
				out += v.S.Sym(r.Results[0])
			}
		}
		return out, v.Fn
	}
	if got, fn := retOf("(*" + up + "detachedLink).Scope"); fn != nil {
		c.Check(got == sib, rule, "detachedLink.Scope", fn.Pos(), "returns "+got+"; required the constant Sibling ("+sib+")")
	}
	if got, fn := retOf("(*" + up + "internalLink).Scope"); fn != nil {
		c.Check(got == internal, rule, "internalLink.Scope", fn.Pos(), "returns "+got+"; required the constant Internal ("+internal+")")
	}
	got, fn := retOf("(*" + up + "connectedLink).Scope")
	if fn == nil {
		return
	}
	c.Check(got == "recv.scope", rule, "connectedLink.Scope", fn.Pos(), "returns "+got+"; required its scope member")
	// every connectedLink literal sets scope, from the constructor's parameter
	nLit, okLit := 0, true
	param := ""
	for f := range c.Prog.AllFuncs() {
		if f.Blocks == nil || !strings.Contains(rawFuncName(f), up) {
			continue
		}
		s := NewSymer()
		for _, b := range f.Blocks {
			for _, in := range b.Instrs {
				al, ok := in.(*ssa.Alloc)
				if !ok || typeShort(al.Type()) != "*"+up+"connectedLink" || al.Comment != "complit" {
					continue
				}
				nLit++
				set := false
				if al.Referrers() != nil {
					for _, r := range *al.Referrers() {
						fa, isFA := r.(*ssa.FieldAddr)
						if !isFA || fieldName(fa.X.Type(), fa.Field) != "scope" || fa.Referrers() == nil {
							continue
						}
						for _, rr := range *fa.Referrers() {
							if st, isSt := rr.(*ssa.Store); isSt && st.Addr == fa {
								set = true
								param = s.Sym(st.Val)
								okLit = okLit && strings.HasPrefix(param, "arg") && strings.HasSuffix(rawFuncName(f), "provider).newConnectedLink")
							}
						}
					}
				}
				okLit = okLit && set
			}
		}
	}
	c.Check(okLit && nLit >= 1, rule, "connectedLink:scope-set-by-constructor", fn.Pos(),
		fmt.Sprintf("%d connectedLink literal(s), each setting scope from newConnectedLink's parameter (%s)", nLit, param))
	// the constructor's callers pass the scope of their kind
	idx := -1
	if strings.HasPrefix(param, "arg") {
		fmt.Sscanf(param, "arg%d", &idx)
		idx++ // the call's argument list starts with the receiver
	}
	for caller, want := range map[string]string{"NewExternalLink": ext, "NewSiblingLink": sib} {
		v := c.View("(*" + up + "provider)." + caller)
		if v == nil {
			continue
		}
		n, ok := 0, true
		for _, ci := range v.Calls("(*" + up + "provider).newConnectedLink") {
			n++
			ok = ok && idx >= 0 && idx < len(ci.Args) && ci.Args[idx] == want
		}
		c.Check(ok && n >= 1, rule, caller+":scope-argument", v.Fn.Pos(),
			fmt.Sprintf("%d call(s) of newConnectedLink with scope %s", n, want))
	}
}
