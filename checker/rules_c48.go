package main

import (
	"golang.org/x/tools/go/ssa"
)

func init() {
	register(&PropRule{
		ID:    "C48",
		Roots: []string{"./private/ringbuf"},
		Explain: "Decides the synchronisation skeleton the queue's linearizability rests on: every access " +
			"to the ring's state (entries, indices, counters, closed flag) in every function of the " +
			"package happens with the ring's mutex held (the unexported copy helpers are only called " +
			"with it held; the constructor is exempt); both Cond.Wait calls sit inside loops that " +
			"re-read their predicate (writable/readable and closed) after waking; after Write changes " +
			"the readable count every path to return broadcasts the readable condition, after Read " +
			"changes the writable count every path broadcasts the writable condition, and Close " +
			"broadcasts both after setting closed (Broadcast, not Signal: one batch call can serve " +
			"several blocked callers); the counters are updated by the number of entries actually " +
			"copied, in opposite directions. NOT decided: linearizability as such, FIFO order of the " +
			"index arithmetic (needs a model checker / exploration).",
		Run: runC48,
	})
	setClaim("C48", claim{
		Text: "Lock-held dataflow for all protected field accesses, wait-in-loop with predicate " +
			"re-read, broadcast-after-state-change on all paths, counter update pairing.",
		Note: claimNote, Technique: "static analysis: lock-held forward dataflow, loop/dominator " +
			"analysis for condition waits, must-pass-through of Broadcast", Ref: "DESIGN.md §4 C48, §3 E5"})
	addMutants(
		Mutant{Prop: "C48", Name: "if-instead-of-for", File: "private/ringbuf/ringbuf.go",
			Old: `		for r.readable == 0 && !r.closed {
			blocked = true
			r.readableC.Wait()
		}`, New: `		if r.readable == 0 && !r.closed {
			blocked = true
			r.readableC.Wait()
		}`, Expect: "W1-wait-in-loop"},
		Mutant{Prop: "C48", Name: "read-signals-one", File: "private/ringbuf/ringbuf.go",
			Old: `	r.writableC.Broadcast()
	r.metrics.ReadEntries.Observe(float64(n))`, New: `	if n > 0 {
		r.writableC.Signal()
	}
	r.metrics.ReadEntries.Observe(float64(n))`, Expect: "N1-notify-after-change"},
		Mutant{Prop: "C48", Name: "close-forgets-writers", File: "private/ringbuf/ringbuf.go",
			Old: `	r.closed = true
	r.writableC.Broadcast()
	r.readableC.Broadcast()`, New: `	r.closed = true
	r.readableC.Broadcast()`, Expect: "N1-notify-after-change"},
		Mutant{Prop: "C48", Name: "close-without-lock", File: "private/ringbuf/ringbuf.go",
			Old: `func (r *Ring) Close() {
	r.mutex.Lock()
	defer r.mutex.Unlock()
	r.closed = true`, New: `func (r *Ring) Close() {
	r.closed = true
	r.mutex.Lock()
	defer r.mutex.Unlock()`, Expect: "L1-lock-discipline"},
		Mutant{Prop: "C48", Name: "wait-loop-ignores-closed", File: "private/ringbuf/ringbuf.go",
			Old: `		for r.writable == 0 && !r.closed {
			blocked = true
			r.writableC.Wait()
		}`, New: `		for r.writable == 0 {
			blocked = true
			r.writableC.Wait()
		}`, Expect: "W1-wait-in-loop"},
		Mutant{Prop: "C48", Name: "write-counts-requested", File: "private/ringbuf/ringbuf.go",
			Old: `	r.writable -= n
	r.readable += n
	r.readableC.Broadcast()`, New: `	r.writable -= n
	r.readable += len(entries)
	r.readableC.Broadcast()`, Expect: "P1-counter-update"},
	)
}

func runC48(c *Ctx) {
	c48ClosedRechecked(c)
	c48Ranges(c)
	sp :=c.Prog.SSAPkgs[modPath+"/private/ringbuf"]
	if sp == nil {
		c.Fail("anchor", "private/ringbuf", 0, "package not loaded")
		return
	}
	rT := "(*private/ringbuf.Ring)"
	var fns []*ssa.Function
	for fn := range c.Prog.AllFuncs() {
		if fn.Pkg == sp && fn.Blocks != nil && fn.Synthetic == "" {
			fns = append(fns, fn)
		}
	}
	sortFuncs(fns)
	CheckLockDiscipline(c, "L1-lock-discipline", fns, "recv.mutex",
		[]string{"entries", "writeIndex", "readIndex", "writable", "readable", "closed"},
		map[string]bool{rT + ".write": true, rT + ".read": true},
		map[string]bool{"private/ringbuf.New": true})
	c.Min("ringbuf:functions", len(fns), 6)
	if fn := c.Fn(rT + ".Write"); fn != nil {
		CheckWaitInLoop(c, "W1-wait-in-loop", fn, "recv.writableC", []string{"writable", "closed"})
		CheckNotifyAfter(c, "N1-notify-after-change", fn, "readable", "recv.readableC", nil)
		v := ViewOf(c, fn)
		n := "builtin:min(recv.writable, builtin:len(arg0))"
		v.RequireStore("P1-counter-update", 1, "recv.writable", "(recv.writable - "+n+")")
		v.RequireStore("P1-counter-update", 1, "recv.readable", "(recv.readable + "+n+")", "("+n+" + recv.readable)")
		v.RequireCallArgs("P1-counter-update", 1, rT+".write", "recv", "arg0[:"+n+"]")
		e := NewE1(c, fn)
		ws := e.CallSites(rT + ".write")
		e.Require("P1-counter-update", "no-write-after-close", nil, ws,
			e.AtomGuard("not-closed", "-true(recv.closed)"))
	}
	if fn := c.Fn(rT + ".Read"); fn != nil {
		CheckWaitInLoop(c, "W1-wait-in-loop", fn, "recv.readableC", []string{"readable", "closed"})
		CheckNotifyAfter(c, "N1-notify-after-change", fn, "writable", "recv.writableC", nil)
		v := ViewOf(c, fn)
		n := "builtin:min(recv.readable, builtin:len(arg0))"
		v.RequireStore("P1-counter-update", 1, "recv.readable", "(recv.readable - "+n+")")
		v.RequireStore("P1-counter-update", 1, "recv.writable", "(recv.writable + "+n+")", "("+n+" + recv.writable)")
		v.RequireCallArgs("P1-counter-update", 1, rT+".read", "recv", "arg0[:"+n+"]")
	}
	if fn := c.Fn(rT + ".Close"); fn != nil {
		CheckNotifyAfter(c, "N1-notify-after-change", fn, "closed", "recv.writableC", nil)
		CheckNotifyAfter(c, "N1-notify-after-change", fn, "closed", "recv.readableC", nil)
		ViewOf(c, fn).RequireStore("P1-counter-update", 1, "recv.closed", "true")
	}
	if v := c.View("private/ringbuf.New"); v != nil {
		v.RequireCallArgs("L1-lock-discipline", 2, "sync.NewCond", "*.mutex")
	}
}

func sortFuncs(fns []*ssa.Function) {
	for i := 1; i < len(fns); i++ {
		for j := i; j > 0 && FuncName(fns[j]) < FuncName(fns[j-1]); j-- {
			fns[j], fns[j-1] = fns[j-1], fns[j]
		}
	}
}
