package main

import (
	"fmt"
	"go/constant"
	"regexp"
	"sort"
	"strings"

	"golang.org/x/tools/go/ssa"
)

// SQL placeholder binding: the i-th "?" of a statement belongs to a column (the
// i-th column of an INSERT's column list, or the column a WHERE comparison names),
// and the i-th argument of the call that executes the statement must be the value
// of that column. The statement text and the call are in the source; which member
// of the key/meta a column holds is a table given by the caller.

type sqlBinding struct {
	Fn     *ssa.Function
	Call   ssa.CallInstruction
	Stmt   string
	Kind   string   // INSERT, SELECT, DELETE, UPDATE
	Cols   []string // column of each placeholder, in order ("" if not recognised)
	Args   []string // symbolic form of each bound argument
	ArgVal []ssa.Value
}

var (
	reInsert = regexp.MustCompile(`(?is)INSERT\s+(?:OR\s+\w+\s+)?INTO\s+\w+\s*\(([^)]*)\)\s*VALUES\s*\(([^)]*)\)`)
	reCmpL   = regexp.MustCompile(`(\w+)\s*(?:=|<=|>=|<|>)\s*\?`)
	reCmpR   = regexp.MustCompile(`\?\s*(?:=|<=|>=|<|>)\s*(\w+)`)
)

// placeholderColumns: the column each "?" of stmt belongs to.
func placeholderColumns(stmt string) (kind string, cols []string) {
	up := strings.ToUpper(strings.TrimSpace(stmt))
	switch {
	case strings.HasPrefix(up, "INSERT"):
		kind = "INSERT"
	case strings.HasPrefix(up, "SELECT"):
		kind = "SELECT"
	case strings.HasPrefix(up, "DELETE"):
		kind = "DELETE"
	case strings.HasPrefix(up, "UPDATE"):
		kind = "UPDATE"
	}
	if m := reInsert.FindStringSubmatch(stmt); m != nil {
		var names []string
		for _, n := range strings.Split(m[1], ",") {
			names = append(names, strings.TrimSpace(n))
		}
		vals := strings.Split(m[2], ",")
		for i, v := range vals {
			if strings.TrimSpace(v) == "?" && i < len(names) {
				cols = append(cols, names[i])
			} else if strings.Contains(v, "?") {
				cols = append(cols, "")
			}
		}
		return
	}
	// comparisons: position of each "?" -> column
	at := map[int]string{}
	for _, m := range reCmpL.FindAllStringSubmatchIndex(stmt, -1) {
		q := strings.LastIndex(stmt[m[0]:m[1]], "?") + m[0]
		at[q] = stmt[m[2]:m[3]]
	}
	for _, m := range reCmpR.FindAllStringSubmatchIndex(stmt, -1) {
		if _, ok := at[m[0]]; !ok {
			at[m[0]] = stmt[m[2]:m[3]]
		}
	}
	for i := 0; i < len(stmt); i++ {
		if stmt[i] == '?' {
			cols = append(cols, at[i])
		}
	}
	return
}

// sqlBindings: every call in the packages with the given path prefix that hands a
// constant statement with placeholders to database/sql.
func sqlBindings(c *Ctx, pkgPrefix string) []sqlBinding {
	var out []sqlBinding
	for fn := range c.Prog.AllFuncs() {
		if fn.Blocks == nil || fn.Pkg == nil || !strings.HasPrefix(strings.TrimPrefix(fn.Pkg.Pkg.Path(), modPath+"/"), pkgPrefix) {
			continue
		}
		s := NewSymer()
		for _, b := range fn.Blocks {
			for _, in := range b.Instrs {
				call, ok := in.(ssa.CallInstruction)
				if !ok {
					continue
				}
				name := calleeName(call.Common())
				if !strings.Contains(name, "database/sql.") {
					continue
				}
				args := call.Common().Args
				qi := -1
				for i, a := range args {
					if k, isK := a.(*ssa.Const); isK && k.Value != nil && k.Value.Kind() == constant.String && strings.Contains(constant.StringVal(k.Value), "?") {
						qi = i
					}
				}
				if qi < 0 || qi+1 >= len(args) {
					continue
				}
				stmt := constant.StringVal(args[qi].(*ssa.Const).Value)
				sb := sqlBinding{Fn: fn, Call: call, Stmt: stmt}
				sb.Kind, sb.Cols = placeholderColumns(stmt)
				// the variadic slice
				if sl, isSl := args[qi+1].(*ssa.Slice); isSl {
					elems := map[int64]ssa.Value{}
					if refs := sl.X.Referrers(); refs != nil {
						for _, r := range *refs {
							ia, isIA := r.(*ssa.IndexAddr)
							if !isIA || ia.Referrers() == nil {
								continue
							}
							k, isK := foldInt(ia.Index)
							if !isK {
								continue
							}
							for _, rr := range *ia.Referrers() {
								if st, isSt := rr.(*ssa.Store); isSt && st.Addr == ia {
									v := st.Val
									if mi, isMI := v.(*ssa.MakeInterface); isMI {
										v = mi.X
									}
									elems[k] = v
								}
							}
						}
					}
					for i := int64(0); i < int64(len(elems)); i++ {
						sb.ArgVal = append(sb.ArgVal, elems[i])
						if elems[i] != nil {
							sb.Args = append(sb.Args, s.Sym(elems[i]))
						} else {
							sb.Args = append(sb.Args, "?")
						}
					}
				}
				out = append(out, sb)
			}
		}
	}
	sort.Slice(out, func(i, j int) bool {
		if a, b := FuncName(out[i].Fn), FuncName(out[j].Fn); a != b {
			return a < b
		}
		return out[i].Stmt < out[j].Stmt
	})
	return out
}

// checkSQLBindings: want maps a column (optionally "KIND:column") to substrings
// that the bound argument's symbolic form must all contain.
func checkSQLBindings(c *Ctx, rule, pkgPrefix string, min int, want map[string][]string) {
	bs := sqlBindings(c, pkgPrefix)
	c.Min(rule+":statements:"+pkgPrefix, len(bs), min)
	for _, b := range bs {
		var bad []string
		if len(b.Cols) != len(b.Args) {
			bad = append(bad, fmt.Sprintf("%d placeholders, %d arguments", len(b.Cols), len(b.Args)))
		}
		for i := 0; i < len(b.Cols) && i < len(b.Args); i++ {
			col := b.Cols[i]
			need, ok := want[b.Kind+":"+col]
			if !ok {
				need, ok = want[col]
			}
			if !ok {
				bad = append(bad, fmt.Sprintf("placeholder %d: column %q is not in the rule's table", i+1, col))
				continue
			}
			for _, n := range need {
				if !strings.Contains(b.Args[i], n) {
					bad = append(bad, fmt.Sprintf("placeholder %d (%s) is bound to %s, required to contain %q", i+1, col, b.Args[i], n))
					break
				}
			}
		}
		first := strings.Join(strings.Fields(b.Stmt), " ")
		if len(first) > 48 {
			first = first[:48]
		}
		c.Check(len(bad) == 0, rule, FuncName(b.Fn)+":"+first, b.Call.Pos(), fmt.Sprintf(
			"%d placeholders bound to the members their columns hold: %s", len(b.Cols), strings.Join(bad, "; ")))
	}
}
